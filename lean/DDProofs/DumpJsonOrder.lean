/-
  DDProofs.DumpJsonOrder — `_copy.load_json(load_order=True)` on a `dd.autoref.BDD` (C12):
  `reorder(order)` to the order of the file, then `find_or_add(var, low, high)` by name,
  the `ref < 3` assertion, `assert_consistent`.
-/
import DDProofs.DumpJson
import DDProps.C07
open Std
namespace DD

theorem incref_tbl {u : Int} {m m' : Mgr} {r : Except Err Unit} (h : incref u m = (r, m')) :
    m'.tbl = m.tbl := by
  unfold incref at h
  split at h <;> (cases h; rfl)

/-- the shape of what `find_or_add(i, v, w)` returns for a regular `w`: the child itself when
`v = w`, otherwise a node whose stored triple is `(i, v, w)` -/
theorem findOrAddCore_shape (m : Mgr) (hI : Inv m) (i : Nat) (v w : Int) (hw : 0 < w)
    (r : Int) (m' : Mgr) (h : findOrAddCore i v w m = (.ok r, m')) :
    (v = w ∧ r = v) ∨ (0 < r ∧ m'.tbl.node? r.natAbs = some ⟨i, v, w⟩) := by
  unfold findOrAddCore at h
  have hn : ¬ w < 0 := by omega
  simp only [hn, if_false] at h
  split at h
  · cases h
  split at h
  · cases h
  split at h
  · cases h
  split at h
  · rename_i hvw
    simp only [Prod.mk.injEq, Except.ok.injEq] at h
    left; exact ⟨hvw, by rw [← h.1]; simp⟩
  · split at h
    · rename_i u hu
      simp only [Prod.mk.injEq, Except.ok.injEq] at h
      obtain ⟨h1, h2⟩ := h
      subst h2
      right
      have hnode := (hI.pred ⟨i, v, w⟩ u).mp hu
      have hu2 := hI.wf.ge_two _ _ hnode
      subst h1
      refine ⟨by simp; omega, ?_⟩
      simpa using hnode
    · split at h
      · cases h
      split at h
      · cases h
      split at h
      · cases h
      · split at h
        · cases h
        · rename_i h1 _ _ h2 _ _ _ h3
          simp only [Prod.mk.injEq, Except.ok.injEq] at h
          obtain ⟨hr, hm⟩ := h
          subst hr
          right
          have hmf := hI.freeGe
          refine ⟨by simp; omega, ?_⟩
          have e3 : m'.tbl.succ = m.tbl.succ.insert m.minFree ⟨i, v, w⟩ := by
            rw [← hm, incref_tbl h3, incref_tbl h2]
          have : (m.minFree : Int).natAbs = m.minFree := by simp
          simp [Tbl.node?, e3, this]

/-- key `a` is on the shelf before key `b` -/
def Before (l : List (Nat × Int)) (a b : Nat) : Prop :=
  ∃ x y z ua ub, l = x ++ (a, ua) :: y ++ (b, ub) :: z

theorem Before.append {l : List (Nat × Int)} {a b : Nat} (h : Before l a b) (t : List (Nat × Int)) :
    Before (l ++ t) a b := by
  obtain ⟨x, y, z, ua, ub, rfl⟩ := h
  exact ⟨x, y, z ++ t, ua, ub, by simp⟩

theorem Before.snoc {l : List (Nat × Int)} {a : Nat} {ua : Int} (h : l.lookup a = some ua) (b : Nat) (ub : Int) :
    Before (l ++ [(b, ub)]) a b := by
  obtain ⟨x, y, rfl⟩ := List.append_of_mem (lookup_mem l a ua h)
  exact ⟨x, y, [], ua, ub, by simp⟩

/-- what the shelf satisfies in addition when nodes are made with `find_or_add` at the level of
the file (`load_order=True`): levels, the made node has its children as successors (or IS the
child, when both edges coincide), children are made before parents -/
structure ShelfT (succ : List PEntry) (t : Tbl) (cache : List (Nat × Int)) : Prop where
  lvl : ∀ k u e, cache.lookup k = some u → PEntry.find succ k = some e → e.lvl ≤ t.levelOf u
  kids : ∀ k u e c uc, cache.lookup k = some u → PEntry.find succ k = some e →
    (e.lo = some c ∨ e.hi = some c) → c.natAbs ≠ 1 → cache.lookup c.natAbs = some uc →
    uc.natAbs = u.natAbs ∨ ∃ nd, t.node? u.natAbs = some nd ∧
      (nd.lo.natAbs = uc.natAbs ∨ nd.hi.natAbs = uc.natAbs)
  order : ∀ k u e c, cache.lookup k = some u → PEntry.find succ k = some e →
    (e.lo = some c ∨ e.hi = some c) → c.natAbs ≠ 1 → Before cache c.natAbs k

theorem ShelfT.nil (succ : List PEntry) (t : Tbl) : ShelfT succ t [] :=
  ⟨by intro k u e h; simp at h, by intro k u e c uc h; simp at h, by intro k u e c h; simp at h⟩

/-- the references taken and released by `_make_node` (`load_order=True`) net to one -/
theorem ledger_makeNodeT (e : Nat → Nat) (L H U : Nat) :
    extDec (extDec (extDec (extInc (extInc (extInc (extInc e L) H) U) U) U) H) L = extInc e U := by
  funext j
  simp only [extInc_apply, extDec_apply]
  generalize (if j = L then 1 else 0) = a
  generalize (if j = H then 1 else 0) = b
  generalize (if j = U then 1 else 0) = d
  omega

/-- `_make_node` for a new line, `load_order=True` (the level map is the identity: the manager
has the order of the file) -/
theorem makeNodeT_spec {succ : List PEntry} {lm : List (Nat × Nat)} {n : Nat}
    (hs : SuccWF succ n) (hdom : ∀ k e, PEntry.find succ k = some e → k ≠ 1 → (lm.lookup e.lvl).isSome)
    (vat : List (Nat × String)) (ln : JLine) (m : Mgr) (e : Nat → Nat) (h : GoodState m e)
    (hpn : PredNodes m)
    (cache : List (Nat × Int)) (hc : ShelfOK succ lm n m.tbl cache) (ht : ShelfT succ m.tbl cache)
    (hnew : cache.lookup ln.id = none)
    (hline : PEntry.find succ ln.id = some ⟨ln.id, ln.lvl, some ln.lo, some ln.hi⟩) (hid : ln.id ≠ 1)
    (hlo : ln.lo.natAbs = 1 ∨ (cache.lookup ln.lo.natAbs).isSome)
    (hhi : ln.hi.natAbs = 1 ∨ (cache.lookup ln.hi.natAbs).isSome)
    (name : String) (hvat : vat.lookup ln.lvl = some name)
    (hvar : m.tbl.vars[name]? = some ln.lvl) (hlm : lm.lookup ln.lvl = some ln.lvl) :
    ∃ u m5 r, makeNode true vat ln cache m = (.ok (cache ++ [(ln.id, u)]), { m5 with ref := r }) ∧
      Kept m m5 ∧ GoodState { m5 with ref := r } (extInc e u.natAbs) ∧
      ShelfOK succ lm n m5.tbl (cache ++ [(ln.id, u)]) ∧ ShelfT succ m5.tbl (cache ++ [(ln.id, u)]) ∧
      PredNodes m5 := by
  obtain ⟨v', w', hv', hw', hlvl, hwpos, hk2, rlo, rhi, llo, lhi⟩ := hs.node _ _ hline hid
  simp only [Option.some.injEq] at hv' hw'
  subst hv' hw'
  have hjlt : ln.lvl < m.nvars := h.order.lt name _ hvar
  have hW := h.inv.wf.toWF
  -- low, high
  obtain ⟨lo, r1, elo, g1, mlo, slo, dlo, klo, tlo⟩ := nodeFromInt_spec hs hdom m e h cache hc ln.lo hlo
  obtain ⟨hi, r2, ehi, g2, mhi, shi, dhi, khi, thi⟩ :=
    nodeFromInt_spec hs hdom { m with ref := r1 } _ g1 cache hc ln.hi hhi
  let m2 : Mgr := { m with ref := r2 }
  -- levels of the children
  have lvlChild : ∀ (c r : Int), FRef succ c → ln.lvl < flevel succ n c →
      (c.natAbs ≠ 1 → cache.lookup c.natAbs = some (if c < 0 then -r else r)) →
      (c.natAbs = 1 → r = c) → ln.lvl < m.tbl.levelOf r := by
    intro c r hr hl hk ht'
    by_cases h1 : c.natAbs = 1
    · rw [ht' h1, levelOf_term _ _ h1]; exact hjlt
    · rcases hr with hr | hr
      · exact absurd hr h1
      obtain ⟨ec, hec⟩ := Option.isSome_iff_exists.mp hr
      have := ht.lvl _ _ ec (hk h1) hec
      rw [levelOf_flip] at this
      have hfl : flevel succ n c = ec.lvl := by simp [flevel, h1, hec]
      omega
  have llo' := lvlChild ln.lo lo rlo llo klo tlo
  have lhi' := lvlChild ln.hi hi rhi lhi khi thi
  -- find_or_add by name
  have hlv : levelOfVar name m2 = (.ok ln.lvl, m2) := levelOfVar_ok m2 name ln.lvl hvar
  have hfo := findOrAdd_spec m2 g2.inv ln.lvl lo hi hjlt mlo mhi llo' lhi'
  have hcore : findOrAdd (ln.lvl : Int) lo hi m2 = findOrAddCore ln.lvl lo hi m2 := by
    rw [findOrAdd_off_eq m2 g2.off]
    have : ¬ ((ln.lvl : Int) < 0) := by omega
    simp [this]
  cases hfe : findOrAdd (ln.lvl : Int) lo hi m2 with
  | mk res m3 =>
    rw [hfe] at hfo
    cases res with
    | error er =>
      obtain ⟨_, hab⟩ := hfo
      have := hab.armed.1
      rw [g2.ctx] at this
      cases this
    | ok u =>
      have P3 : FoaPost' m2 ln.lvl lo hi u m3 := hfo
      have k3 : Kept m2 m3 := ⟨P3.inv, P3.ext, P3.frame⟩
      have hhipos : 0 < hi := shi.mpr hwpos
      have hshape := findOrAddCore_shape m2 g2.inv ln.lvl lo hi hhipos u m3 (by rw [← hcore]; exact hfe)
      have hupos : 0 < u := by
        rcases hshape with ⟨h1, h2⟩ | ⟨h1, _⟩
        · rw [h2, h1]; exact hhipos
        · exact h1
      have x3 : RefExact m3 (extInc (extInc e lo.natAbs) hi.natAbs) := by
        have := findOrAdd_refExact m2 _ (ln.lvl : Int) lo hi g2.inv.wf.toWF g2.exact
        rw [hfe] at this; exact this
      have g3 : GoodState m3 (extInc (extInc e lo.natAbs) hi.natAbs) := g2.of_kept k3 x3
      have pn3 : PredNodes m3 := by
        have := findOrAdd_predNodes _ m2 g2.lite (hpn.congr rfl rfl) (ln.lvl : Int) lo hi
        rw [hfe] at this; exact this
      obtain ⟨r4, ewu, g4⟩ := dmp_wrap_spec m3 _ g3 u P3.mem
      obtain ⟨r5, ewu2, g5⟩ := dmp_wrap_spec { m3 with ref := r4 } _ g4 u P3.mem
      -- the releases
      have pU : 0 < extInc (extInc (extInc (extInc e lo.natAbs) hi.natAbs) u.natAbs) u.natAbs u.natAbs := by
        simp [extInc]
      obtain ⟨r6, ed6, g6⟩ := dmp_drop_spec { m3 with ref := r5 } _ g5 u pU
      have pH : 0 < extDec (extInc (extInc (extInc (extInc e lo.natAbs) hi.natAbs) u.natAbs) u.natAbs) u.natAbs hi.natAbs := by
        simp only [extInc_apply, extDec_apply, if_true]
        generalize (if hi.natAbs = lo.natAbs then 1 else 0) = a
        generalize (if hi.natAbs = u.natAbs then 1 else 0) = d
        omega
      obtain ⟨r7, ed7, g7⟩ := dmp_drop_spec { m3 with ref := r6 } _ g6 hi pH
      have pL : 0 < extDec (extDec (extInc (extInc (extInc (extInc e lo.natAbs) hi.natAbs) u.natAbs) u.natAbs) u.natAbs) hi.natAbs lo.natAbs := by
        simp only [extInc_apply, extDec_apply, if_true]
        generalize (if lo.natAbs = hi.natAbs then 1 else 0) = b
        generalize (if lo.natAbs = u.natAbs then 1 else 0) = d
        omega
      obtain ⟨r8, ed8, g8⟩ := dmp_drop_spec { m3 with ref := r7 } _ g7 lo pL
      rw [ledger_makeNodeT] at g8
      have X : Ext m.tbl m3.tbl := P3.ext
      have du : ∀ a, den m3.tbl u a = evalL succ lm (n + 1) (ln.id : Int) a := by
        intro a
        rw [P3.den a, dhi a, dlo a]
        rw [evalL_node hs (ln.id : Int) a _ ln.lo ln.hi ln.lvl (by simpa using hid) (by simpa using hline) rfl rfl hlm]
        have : ¬ ((ln.id : Int) < 0) := by omega
        simp [this]
      refine ⟨u, m3, r8, ?_, ⟨P3.inv, P3.ext, ⟨P3.frame.vars, P3.frame.l2v, P3.frame.lastLen,
        P3.frame.ctx, P3.frame.sched, P3.frame.roots⟩⟩, g8, ?_, ?_, pn3⟩
      · -- the computation
        have inner : (M.assert (decide (0 ≤ u)) >>= fun _ => incref u >>= fun _ =>
            (pure (cache ++ [(ln.id, u)]) : M (List (Nat × Int)))) { m3 with ref := r4 }
            = (.ok (cache ++ [(ln.id, u)]), { m3 with ref := r5 }) := by
          refine (M.bind_eq_ok (assert_ok _ _ (by simp; omega))).trans ?_
          have hinc : incref u { m3 with ref := r4 } = (.ok (), { m3 with ref := r5 }) := by
            have := ewu2
            unfold dmpWrap at this
            have hm : ({ m3 with ref := r4 } : Mgr).mem u = true := (Mgr.mem_iff _ u).mpr P3.mem
            simpa [hm] using this
          exact (M.bind_eq_ok hinc).trans rfl
        unfold makeNode
        refine (M.bind_eq_ok (assert_ok _ _ (by simp; omega))).trans ?_
        simp only [hnew, Option.isSome_none, Bool.false_eq_true, if_false]
        refine (M.bind_eq_ok elo).trans ?_
        refine (withTemps_eq (r := .ok (cache ++ [(ln.id, u)])) (m1 := { m3 with ref := r7 }) ?_).trans ?_
        · refine (M.bind_eq_ok ehi).trans ?_
          refine (withTemps_eq (r := .ok (cache ++ [(ln.id, u)])) (m1 := { m3 with ref := r6 }) ?_).trans ?_
          · have hname : (M.ofOption Err.key (vat.lookup ln.lvl) : M String) { m with ref := r2 } = (.ok name, m2) := by
              rw [hvat]; rfl
            refine (M.bind_eq_ok hname).trans ?_
            simp only [if_true]
            refine (M.bind_eq_ok hlv).trans ?_
            refine (M.bind_eq_ok (functionLevel_ok m2 lo mlo)).trans ?_
            refine (M.bind_eq_ok (functionLevel_ok m2 hi mhi)).trans ?_
            have hchk : (!(decide (ln.lvl < m2.tbl.levelOf lo) && decide (ln.lvl < m2.tbl.levelOf hi))) = false := by
              have a1 : ln.lvl < m2.tbl.levelOf lo := llo'
              have a2 : ln.lvl < m2.tbl.levelOf hi := lhi'
              simp [a1, a2]
            simp only [hchk, Bool.false_eq_true, if_false]
            refine (M.bind_eq_ok hfe).trans ?_
            refine (M.bind_eq_ok ewu).trans ?_
            refine (withTemps_eq inner).trans ?_
            simp only [dropList]
            rw [ed6]
          · simp only [dropList]
            rw [ed7]
        · simp only [dropList]
          rw [ed8]
      · -- ShelfOK
        intro k x hkx
        rw [lookup_append_single] at hkx
        cases hck : cache.lookup k with
        | some y =>
          rw [hck] at hkx
          simp only [Option.some.injEq] at hkx
          subst hkx
          obtain ⟨a1, a2, a3, a4, a5⟩ := hc k y hck
          exact ⟨a1, X.mem a2, a3, a4, fun a => by rw [den_ext X hW y a a2]; exact a5 a⟩
        | none =>
          rw [hck] at hkx
          simp only at hkx
          split at hkx
          · rename_i hk
            simp only [Option.some.injEq] at hkx
            subst hkx hk
            exact ⟨hupos, P3.mem, hid, by simp [hline], du⟩
          · cases hkx
      · -- ShelfT
        have oldLook : ∀ k y, cache.lookup k = some y → (cache ++ [(ln.id, u)]).lookup k = some y := by
          intro k y hk; rw [lookup_append_single, hk]
        have childOld : ∀ (c : Int), (c = ln.lo ∨ c = ln.hi) → c.natAbs ≠ 1 →
            ∃ uc, cache.lookup c.natAbs = some uc ∧ (uc.natAbs = lo.natAbs ∨ uc.natAbs = hi.natAbs) := by
          intro c hc' h1
          rcases hc' with rfl | rfl
          · exact ⟨_, klo h1, Or.inl (by split <;> simp)⟩
          · exact ⟨_, khi h1, Or.inr (by split <;> simp)⟩
        refine ⟨?_, ?_, ?_⟩
        · intro k x en hkx hen
          rw [lookup_append_single] at hkx
          cases hck : cache.lookup k with
          | some y =>
            rw [hck] at hkx
            simp only [Option.some.injEq] at hkx
            subst hkx
            have hy := (hc k y hck).2.1
            rw [X.levelOf hy]
            exact ht.lvl k y en hck hen
          | none =>
            rw [hck] at hkx
            simp only at hkx
            split at hkx
            · rename_i hk
              simp only [Option.some.injEq] at hkx
              subst hkx hk
              rw [hline] at hen
              cases hen
              exact P3.lvl
            · cases hkx
        · intro k x en c uc hkx hen hchild h1 huc
          rw [lookup_append_single] at hkx
          cases hck : cache.lookup k with
          | some y =>
            rw [hck] at hkx
            simp only [Option.some.injEq] at hkx
            subst hkx
            -- the child of an old entry is an old entry
            obtain ⟨xx, yy, zz, ua, ub, hdec⟩ := ht.order k y en c hck hen hchild h1
            have hcmem : (cache.lookup c.natAbs).isSome := by
              rw [dmp_lookup_isSome_of_mem_keys, hdec]; simp
            obtain ⟨uc0, huc0⟩ := Option.isSome_iff_exists.mp hcmem
            rw [oldLook _ _ huc0] at huc
            obtain rfl : uc0 = uc := by simpa using huc
            rcases ht.kids k y en c uc0 hck hen hchild h1 huc0 with h' | ⟨nd, hnd, h'⟩
            · exact Or.inl h'
            · exact Or.inr ⟨nd, X.nodes _ _ hnd, h'⟩
          | none =>
            rw [hck] at hkx
            simp only at hkx
            split at hkx
            · rename_i hk
              simp only [Option.some.injEq] at hkx
              subst hkx hk
              rw [hline] at hen
              cases hen
              simp only [Option.some.injEq] at hchild
              obtain ⟨uc0, huc0, hrel⟩ := childOld c (hchild.imp Eq.symm Eq.symm) h1
              rw [oldLook _ _ huc0] at huc
              obtain rfl : uc0 = uc := by simpa using huc
              rcases hshape with ⟨h1', h2'⟩ | ⟨_, hnode⟩
              · left
                rcases hrel with hr | hr
                · rw [hr, h2']
                · rw [hr, h2', h1']
              · right
                refine ⟨_, hnode, ?_⟩
                rcases hrel with hr | hr
                · exact Or.inl hr.symm
                · exact Or.inr hr.symm
            · cases hkx
        · intro k x en c hkx hen hchild h1
          rw [lookup_append_single] at hkx
          cases hck : cache.lookup k with
          | some y =>
            rw [hck] at hkx
            exact (ht.order k y en c hck hen hchild h1).append _
          | none =>
            rw [hck] at hkx
            simp only at hkx
            split at hkx
            · rename_i hk
              subst hk
              rw [hline] at hen
              cases hen
              simp only [Option.some.injEq] at hchild
              obtain ⟨uc0, huc0, _⟩ := childOld c (hchild.imp Eq.symm Eq.symm) h1
              exact Before.snoc huc0 _ _
            · cases hkx


/-- the loop over the node lines, `load_order=True` -/
theorem makeNodesT_spec {succ : List PEntry} {lm : List (Nat × Nat)} {n : Nat}
    (hs : SuccWF succ n) (hdom : ∀ k e, PEntry.find succ k = some e → k ≠ 1 → (lm.lookup e.lvl).isSome)
    (hidm : ∀ i j, lm.lookup i = some j → j = i)
    (vat : List (Nat × String)) :
    ∀ (rest pre : List JLine) (cache : List (Nat × Int)) (m : Mgr) (e : Nat → Nat),
      ChildrenFirst (pre ++ rest) → (∀ ln ∈ rest, LineOK succ lm vat m.tbl.vars ln) →
      (∀ l' ∈ pre, (cache.lookup l'.id).isSome) → GoodState m e → ShelfOK succ lm n m.tbl cache →
      ShelfT succ m.tbl cache → (cache.map (·.1)).Nodup → PredNodes m →
      ∃ added m', makeNodes true vat rest cache m = (.ok (cache ++ added), m') ∧ Kept m m' ∧ PredNodes m' ∧
        GoodState m' (extAdd e (added.map (·.2.natAbs))) ∧ ShelfOK succ lm n m'.tbl (cache ++ added) ∧
        ShelfT succ m'.tbl (cache ++ added) ∧
        ((cache ++ added).map (·.1)).Nodup ∧ (∀ l' ∈ pre ++ rest, ((cache ++ added).lookup l'.id).isSome) := by
  intro rest
  induction rest with
  | nil =>
    intro pre cache m e _ _ hpre h hc ht hn hpn
    refine ⟨[], m, by simp [makeNodes, pure, M.pure'], Kept.refl h.inv, hpn,
      by simpa [extAdd_nil] using h, by simpa using hc, by simpa using ht, by simpa using hn, by simpa using hpre⟩
  | cons ln rest ih =>
    intro pre cache m e hcf hlines hpre h hc ht hn hpn
    have hL := hlines ln List.mem_cons_self
    obtain ⟨elo, ehi⟩ := hcf.split pre ln rest rfl
    have toCache : ∀ c : Int, EdgeOK pre c → c.natAbs = 1 ∨ (cache.lookup c.natAbs).isSome := by
      intro c hc'
      rcases hc' with h1 | ⟨l', hl', hid⟩
      · exact Or.inl h1
      · right; rw [← hid]; exact hpre l' hl'
    have hcf' : ChildrenFirst ((pre ++ [ln]) ++ rest) := by simpa using hcf
    rw [makeNodes]
    by_cases hin : (cache.lookup ln.id).isSome = true
    · have hmk : makeNode true vat ln cache m = (.ok cache, m) := by
        unfold makeNode
        rw [M.bind_eq_ok (assert_ok _ _ (by have := hL.id; obtain ⟨_, _, _, _, _, _, h2, _⟩ := hs.node _ _ hL.find hL.id; simp; omega))]
        simp only [hin, if_true]
        rfl
      rw [M.bind_eq_ok hmk]
      obtain ⟨added, m', e1, k1, q1, g1, c1, t1, n1, a1⟩ := ih (pre ++ [ln]) cache m e hcf'
        (fun l hl => hlines l (List.mem_cons_of_mem _ hl))
        (by intro l' hl'
            rcases List.mem_append.mp hl' with h' | h'
            · exact hpre l' h'
            · simp at h'; subst h'; exact hin) h hc ht hn hpn
      exact ⟨added, m', e1, k1, q1, g1, c1, t1, n1, by simpa using a1⟩
    · have hnew : cache.lookup ln.id = none := by
        cases hh : cache.lookup ln.id with
        | none => rfl
        | some x => simp [hh] at hin
      obtain ⟨name, j, hvat, hvar, hlm⟩ := hL.name
      obtain rfl : j = ln.lvl := hidm _ _ hlm
      obtain ⟨u, m5, r, emk, k5, g5, c5, t5, q5⟩ := makeNodeT_spec hs hdom vat ln m e h hpn cache hc ht hnew
        hL.find hL.id (toCache _ elo) (toCache _ ehi) name hvat hvar hlm
      rw [M.bind_eq_ok emk]
      have k5' : Kept m { m5 with ref := r } := GoodState.setRef_kept k5 g5
      have hn' : ((cache ++ [(ln.id, u)]).map (·.1)).Nodup := by
        rw [List.map_append, List.nodup_append]
        refine ⟨hn, by simp, ?_⟩
        intro a ha b hb hab
        simp at hb
        subst hb hab
        have := (dmp_lookup_isSome_of_mem_keys cache _).mpr ha
        rw [hnew] at this; cases this
      obtain ⟨added, m', e1, k1, q1, g1, c1, t1, n1, a1⟩ := ih (pre ++ [ln]) (cache ++ [(ln.id, u)])
        { m5 with ref := r } (extInc e u.natAbs) hcf'
        (fun l hl => by
          have := hlines l (List.mem_cons_of_mem _ hl)
          exact ⟨this.id, this.find, by
            obtain ⟨nm, jj, a, b, c⟩ := this.name
            exact ⟨nm, jj, a, by show m5.tbl.vars[nm]? = some jj; rw [k5.frame.vars]; exact b, c⟩⟩)
        (by intro l' hl'
            rw [lookup_append_single]
            rcases List.mem_append.mp hl' with h' | h'
            · obtain ⟨x, hx⟩ := Option.isSome_iff_exists.mp (hpre l' h')
              rw [hx]; rfl
            · simp at h'; subst h'; rw [hnew]; simp) g5 c5 t5 hn' (q5.congr rfl rfl)
      refine ⟨(ln.id, u) :: added, m', ?_, k5'.trans k1, q1, ?_, ?_, ?_, ?_, ?_⟩
      · rw [e1]; simp
      · rw [extAdd_extInc] at g1; simpa using g1
      · simpa using c1
      · simpa using t1
      · simpa using n1
      · simpa using a1


/-- every shelf entry still to be released is referenced once more: by a root `Function`,
by a later entry for the same node, or by a stored edge -/
def JustL (t : Tbl) (e : Nat → Nat) : List (Nat × Int) → Prop
  | [] => True
  | p :: rest => (0 < e p.2.natAbs ∨ (∃ q ∈ rest, q.2.natAbs = p.2.natAbs) ∨ 0 < indeg t p.2.natAbs) ∧
      JustL t e rest

theorem refOf_exact (m : Mgr) (e : Nat → Nat) (h : GoodState m e) (u : Int) (hu : m.tbl.Mem u) :
    ∃ c, refOf u m = (.ok c, m) ∧ indeg m.tbl u.natAbs + e u.natAbs ≤ c := by
  have hg := h.exact.get hu
  exact ⟨_, refOf_eq m u _ hg, by omega⟩

/-- the loop of the checks at the end of the `try:` of `_load_json` with `load_order=True`: the
`ref < 3` assertion passes as well (nothing has been released yet: every entry of the shelf still
holds its reference) -/
theorem checkLoopT_spec {succ : List PEntry} {lm : List (Nat × Nat)} {n : Nat}
    (cache : List (Nat × Int)) (hn : (cache.map (·.1)).Nodup) :
    ∀ (ents : List (Nat × Int)) (prev : Option Int) (m : Mgr) (e : Nat → Nat),
      ents <:+ cache → ShelfOK succ lm n m.tbl cache → JustL m.tbl e ents →
      GoodState m (extAdd e (prev.toList.map Int.natAbs ++ shelfRefs cache)) →
      ∃ last r, checkLoop true cache ents prev m = (.ok (), last, { m with ref := r }) ∧
        GoodState { m with ref := r } (extAdd e (last.toList.map Int.natAbs ++ shelfRefs cache)) := by
  intro ents
  induction ents with
  | nil =>
    intro prev m e _ _ _ h
    exact ⟨prev, m.ref, rfl, h⟩
  | cons p rest ih =>
    intro prev m e hsuf hc hj h
    obtain ⟨k, u⟩ := p
    obtain ⟨hj0, hjr⟩ := hj
    have hmem : (k, u) ∈ cache := hsuf.subset List.mem_cons_self
    have hlk : cache.lookup k = some u := dmp_lookup_of_mem_nodup cache hn k u hmem
    obtain ⟨_, u0mem, hk1, _, _⟩ := hc k u hlk
    have hin : u.natAbs ∈ shelfRefs cache := List.mem_map.mpr ⟨(k, u), hmem, rfl⟩
    obtain ⟨r1, e1, g1⟩ := fetch_shelf e cache hn k u hmem hk1 m _ h (List.mem_append_right _ hin)
    have g1' : GoodState { m with ref := r1 }
        (extAdd e (prev.toList.map Int.natAbs ++ (u.natAbs :: shelfRefs cache))) := by
      apply g1.permL
      exact List.perm_middle.symm
    obtain ⟨r2, ed, g2⟩ := dropOpt_spec e prev { m with ref := r1 } _ g1'
    obtain ⟨c, hc1, hc2⟩ := refOf_exact { m with ref := r2 } _ g2 u u0mem
    -- the shelf holds `u` once for this entry and once more for every later entry of the same node
    obtain ⟨pre, hpre⟩ := hsuf
    have hcnt : 1 + (rest.map (·.2.natAbs)).count u.natAbs ≤ (shelfRefs cache).count u.natAbs := by
      rw [← hpre]
      simp only [shelfRefs, List.map_append, List.map_cons, List.count_append, List.count_cons_self]
      omega
    have hc3 : 3 ≤ c := by
      have hcount : extAdd e (u.natAbs :: shelfRefs cache) u.natAbs
          = e u.natAbs + 1 + (shelfRefs cache).count u.natAbs := by
        simp [extAdd]; omega
      rw [hcount] at hc2
      have hi : indeg ({ m with ref := r2 } : Mgr).tbl u.natAbs = indeg m.tbl u.natAbs := rfl
      rw [hi] at hc2
      rcases hj0 with h' | ⟨q, hq, hqe⟩ | h'
      · have : 0 < e u.natAbs := h'
        omega
      · have : 0 < (rest.map (·.2.natAbs)).count u.natAbs := by
          rw [List.count_pos_iff]
          exact List.mem_map.mpr ⟨q, hq, hqe⟩
        omega
      · have : 0 < indeg m.tbl u.natAbs := h'
        omega
    have hbody : (refOf u >>= fun c => M.assert (decide (2 ≤ c)) >>= fun _ =>
        if True then M.assert (decide (3 ≤ c)) else pure ())
        { m with ref := r2 } = (.ok (), { m with ref := r2 }) := by
      refine (M.bind_eq_ok hc1).trans ?_
      refine (M.bind_eq_ok (assert_ok _ _ (by simp; omega))).trans ?_
      simp only [if_true]
      exact assert_ok _ _ (by simpa using hc3)
    obtain ⟨last, r4, e4, g4⟩ := ih (some u) { m with ref := r2 } e
      ⟨pre ++ [(k, u)], by rw [List.append_assoc]; exact hpre⟩ hc hjr (by simpa using g2)
    refine ⟨last, r4, ?_, g4⟩
    rw [checkLoop]
    simp only [e1, ed]
    rw [hbody]
    exact e4


/-! ### every line of a dump is the line of a root or a child of another line -/

/-- line `ln'` has `k` as a child -/
def ChildLine (ln' : JLine) (k : Nat) : Prop := ln'.lo.natAbs = k ∨ ln'.hi.natAbs = k

theorem dumpJsonF_rooted (t : Tbl) :
    ∀ f u cache out cache' out', dumpJsonF t f u cache out = .ok (cache', out') →
      (∀ ln ∈ out, ln ∈ out') ∧
      ∀ ln ∈ out', ln ∈ out ∨ ln.id = u.natAbs ∨ ∃ ln' ∈ out', ChildLine ln' ln.id := by
  intro f
  induction f with
  | zero => intro u cache out cache' out' h; simp [dumpJsonF] at h
  | succ f ih =>
    intro u cache out cache' out' h
    rw [dumpJsonF] at h
    by_cases h1 : u.natAbs = 1
    · rw [if_pos h1] at h; cases h
      exact ⟨fun _ h => h, fun ln hl => Or.inl hl⟩
    · rw [if_neg h1] at h
      dsimp only at h
      by_cases hc : cache.contains u.natAbs = true
      · rw [if_pos hc] at h; cases h
        exact ⟨fun _ h => h, fun ln hl => Or.inl hl⟩
      · rw [if_neg hc] at h
        cases hn : t.succ[u.natAbs]? with
        | none => simp [hn] at h
        | some n =>
          simp only [hn] at h
          cases e1 : dumpJsonF t f n.lo cache out with
          | error e => simp [e1] at h
          | ok r1 =>
            obtain ⟨c1, o1⟩ := r1
            simp only [e1] at h
            cases e2 : dumpJsonF t f n.hi c1 o1 with
            | error e => simp [e2] at h
            | ok r2 =>
              obtain ⟨c2, o2⟩ := r2
              simp only [e2] at h
              cases h
              obtain ⟨s1, j1⟩ := ih _ _ _ _ _ e1
              obtain ⟨s2, j2⟩ := ih _ _ _ _ _ e2
              have top : (⟨u.natAbs, n.lvl, n.lo, n.hi⟩ : JLine) ∈ o2 ++ [⟨u.natAbs, n.lvl, n.lo, n.hi⟩] :=
                List.mem_append_right _ (List.mem_singleton.mpr rfl)
              refine ⟨fun ln hl => List.mem_append_left _ (s2 ln (s1 ln hl)), ?_⟩
              intro ln hl
              rcases List.mem_append.mp hl with hl | hl
              · rcases j2 ln hl with h' | h' | ⟨ln', hl', hch⟩
                · rcases j1 ln h' with h'' | h'' | ⟨ln', hl', hch⟩
                  · exact Or.inl h''
                  · exact Or.inr (Or.inr ⟨_, top, Or.inl h''.symm⟩)
                  · exact Or.inr (Or.inr ⟨ln', List.mem_append_left _ (s2 _ hl'), hch⟩)
                · exact Or.inr (Or.inr ⟨_, top, Or.inr h'.symm⟩)
                · exact Or.inr (Or.inr ⟨ln', List.mem_append_left _ hl', hch⟩)
              · rw [List.mem_singleton] at hl; subst hl; exact Or.inr (Or.inl rfl)

theorem dumpJsonRoots_rooted (t : Tbl) :
    ∀ roots cache out cache' out', dumpJsonRoots t roots cache out = .ok (cache', out') →
      (∀ ln ∈ out, ln ∈ out') ∧
      ∀ ln ∈ out', ln ∈ out ∨ (∃ r ∈ roots, r.natAbs = ln.id) ∨ ∃ ln' ∈ out', ChildLine ln' ln.id := by
  intro roots
  induction roots with
  | nil =>
    intro cache out cache' out' h
    simp [dumpJsonRoots] at h
    obtain ⟨rfl, rfl⟩ := h
    exact ⟨fun _ h => h, fun ln hl => Or.inl hl⟩
  | cons u rest ih =>
    intro cache out cache' out' h
    rw [dumpJsonRoots] at h
    cases e1 : dumpJsonF t (t.nvars + 2) u cache out with
    | error e => simp [e1] at h
    | ok r1 =>
      obtain ⟨c1, o1⟩ := r1
      simp only [e1] at h
      obtain ⟨s1, j1⟩ := dumpJsonF_rooted t _ _ _ _ _ _ e1
      obtain ⟨s2, j2⟩ := ih _ _ _ _ h
      refine ⟨fun ln hl => s2 ln (s1 ln hl), ?_⟩
      intro ln hl
      rcases j2 ln hl with h' | ⟨r, hr, hrid⟩ | h'
      · rcases j1 ln h' with h'' | h'' | ⟨ln', hl', hch⟩
        · exact Or.inl h''
        · exact Or.inr (Or.inl ⟨u, List.mem_cons_self, h''.symm⟩)
        · exact Or.inr (Or.inr ⟨ln', s2 _ hl', hch⟩)
      · exact Or.inr (Or.inl ⟨r, List.mem_cons_of_mem _ hr, hrid⟩)
      · exact Or.inr (Or.inr h')

/-- every node line belongs to a root or is a child of another line -/
def Rooted (f : JsonFile) : Prop :=
  ∀ ln ∈ f.nodes, (∃ r ∈ f.roots.values, r.natAbs = ln.id) ∨ ∃ ln' ∈ f.nodes, ChildLine ln' ln.id

theorem dumpJson_rooted {m : Mgr} {roots : Roots} {f : JsonFile} (h : dumpJson m roots = .ok f) :
    Rooted f := by
  obtain ⟨_, hroots, _, cache, hc⟩ := dumpJson_parts h
  obtain ⟨_, j⟩ := dumpJsonRoots_rooted m.tbl _ _ _ _ _ hc
  intro ln hln
  rcases j ln hln with h' | h' | h'
  · simp at h'
  · left; rw [hroots]; exact h'
  · exact Or.inr h'

/-! ### positions on the shelf -/

theorem decomp_unique (l : List (Nat × Int)) (hn : (l.map (·.1)).Nodup) (k : Nat) :
    ∀ (a a' : List (Nat × Int)) (u u' : Int) (r r' : List (Nat × Int)),
      l = a ++ (k, u) :: r → l = a' ++ (k, u') :: r' → a = a' ∧ u = u' ∧ r = r' := by
  induction l with
  | nil => intro a a' u u' r r' h; simp at h
  | cons p l ih =>
    intro a a' u u' r r' h h'
    simp only [List.map_cons, List.nodup_cons] at hn
    cases a with
    | nil =>
      simp only [List.nil_append, List.cons.injEq] at h
      obtain ⟨rfl, rfl⟩ := h
      cases a' with
      | nil =>
        simp only [List.nil_append, List.cons.injEq, Prod.mk.injEq, true_and] at h'
        exact ⟨rfl, h'.1, h'.2⟩
      | cons q a' =>
        simp only [List.cons_append, List.cons.injEq] at h'
        obtain ⟨rfl, h2⟩ := h'
        exfalso
        apply hn.1
        rw [h2]; simp
    | cons q a =>
      simp only [List.cons_append, List.cons.injEq] at h
      obtain ⟨rfl, h1⟩ := h
      cases a' with
      | nil =>
        simp only [List.nil_append, List.cons.injEq] at h'
        obtain ⟨rfl, rfl⟩ := h'
        exfalso
        apply hn.1
        rw [h1]; simp
      | cons q' a' =>
        simp only [List.cons_append, List.cons.injEq] at h'
        obtain ⟨rfl, h2⟩ := h'
        obtain ⟨e1, e2, e3⟩ := ih hn.2 a a' u u' r r' h1 h2
        exact ⟨by rw [e1], e2, e3⟩


/-! ### `_load_json`, `load_order=True` -/

theorem configure_false_eq (m : Mgr) :
    configure (some false) m = (.ok m.lastLen.isSome, { m with lastLen := none }) := by
  simp [configure, bind, M.bind', M.get, M.set, pure, M.pure']

theorem configure_true_eq (m : Mgr) :
    configure (some true) m =
      (.ok m.lastLen.isSome, { m with lastLen := some (max Gen.reorderStarts m.len) }) := by
  simp [configure, bind, M.bind', M.get, M.set, pure, M.pure']

/-- `declare` adds no other name -/
theorem declare_vars_sub (names : List String) :
    ∀ (m : Mgr) (e : Nat → Nat), GoodState m e → ∀ m', declare names m = (.ok (), m') →
      ∀ v : String, (m'.tbl.vars[v]?).isSome → (m.tbl.vars[v]?).isSome ∨ v ∈ names := by
  induction names with
  | nil =>
    intro m e _ m' h v hv
    rw [declare_nil] at h; cases h; exact Or.inl hv
  | cons x xs ih =>
    intro m e h m' hd v hv
    rw [declare_cons] at hd
    cases hex : m.tbl.vars[x]? with
    | some i =>
      rw [(addVar_existing m x i hex).1] at hd
      rcases ih m e h m' hd v hv with h' | h'
      · exact Or.inl h'
      · exact Or.inr (List.mem_cons_of_mem _ h')
    | none =>
      rw [addVar_new m x hex h.order.l2v_none] at hd
      have hgood := (addVar_good m e h x none (by intro l hl; cases hl)).1
      rw [addVar_new m x hex h.order.l2v_none] at hgood
      rcases ih _ e hgood m' hd v hv with h' | h'
      · have h'' : ((m.tbl.vars.insert x m.nvars)[v]?).isSome := h'
        rw [TreeMap.getElem?_insert] at h''
        by_cases hxv : x = v
        · subst hxv; exact Or.inr List.mem_cons_self
        · have : compare x v ≠ .eq := fun hc => hxv (compare_eq_iff_eq.mp hc)
          simp only [this, if_false] at h''
          exact Or.inl h''
      · exact Or.inr (List.mem_cons_of_mem _ h')

/-- on the whole shelf, every entry is justified for the `ref < 3` assertion -/
theorem justL_of_shelf {succ : List PEntry} {t : Tbl} {e : Nat → Nat} (cache : List (Nat × Int))
    (hn : (cache.map (·.1)).Nodup) (ht : ShelfT succ t cache)
    (hroot : ∀ k u, (k, u) ∈ cache → 0 < e u.natAbs ∨
      ∃ k' u' en c, cache.lookup k' = some u' ∧ PEntry.find succ k' = some en ∧
        (en.lo = some c ∨ en.hi = some c) ∧ c.natAbs = k ∧ k ≠ 1) :
    ∀ (ents done : List (Nat × Int)), cache = done ++ ents → JustL t e ents := by
  intro ents
  induction ents with
  | nil => intro _ _; trivial
  | cons p rest ih =>
    intro done hdec
    obtain ⟨k, u⟩ := p
    refine ⟨?_, ih (done ++ [(k, u)]) (by rw [hdec]; simp)⟩
    have hmem : (k, u) ∈ cache := by rw [hdec]; simp
    have hlk := dmp_lookup_of_mem_nodup cache hn k u hmem
    rcases hroot k u hmem with h' | ⟨k', u', en, c, hk', hen, hch, hck, hk1⟩
    · exact Or.inl h'
    · have hc1 : c.natAbs ≠ 1 := by rw [hck]; exact hk1
      rcases ht.kids k' u' en c u hk' hen hch hc1 (by rw [hck]; exact hlk) with h'' | ⟨nd, hnd, h''⟩
      · -- the parent entry is the same node: it is still on the shelf, after this one
        right; left
        obtain ⟨x, y, z, ua, ub, hb⟩ := ht.order k' u' en c hk' hen hch hc1
        rw [hck] at hb
        obtain ⟨_, _, hrest⟩ := decomp_unique cache hn k done x u ua rest (y ++ (k', ub) :: z) hdec
          (by rw [hb]; simp)
        have hub : cache.lookup k' = some ub :=
          dmp_lookup_of_mem_nodup cache hn k' ub (by rw [hb]; simp)
        rw [hk'] at hub
        cases hub
        exact ⟨(k', u'), by rw [hrest]; simp, h''.symm⟩
      · right; right
        rcases h'' with h3 | h3
        · rw [← h3]; exact indeg_pos_of_lo hnd
        · rw [← h3]; exact indeg_pos_of_hi hnd


theorem size_eq_of_keys (t : TreeMap String Nat) (names : List String) (hnd : names.Nodup)
    (h : ∀ v : String, t.contains v = true ↔ v ∈ names) : t.size = names.length := by
  rw [← TreeMap.length_keys]
  apply List.Perm.length_eq
  rw [List.perm_ext_iff_of_nodup TreeMap.nodup_keys hnd]
  intro a
  rw [TreeMap.mem_keys, ← TreeMap.contains_iff_mem]
  exact h a

theorem lookup_map_of_nodup (L : List (String × Nat)) (hnd : (L.map (·.1)).Nodup) (v : String) (l : Nat)
    (h : (v, l) ∈ L) : (L.map fun x => (x.1, (x.2 : Int))).lookup v = some (l : Int) := by
  induction L with
  | nil => simp at h
  | cons p rest ih =>
    obtain ⟨a, b⟩ := p
    simp only [List.map_cons, List.nodup_cons] at hnd
    rw [List.map_cons, List.lookup_cons]
    rcases List.mem_cons.mp h with h' | h'
    · cases h'; simp
    · have hne : v ≠ a := by
        intro hv; subst hv
        exact hnd.1 (List.mem_map.mpr ⟨(v, l), h', rfl⟩)
      have : (v == a) = false := by simpa using hne
      rw [this]
      exact ih hnd.2 h'


theorem declare_sched (names : List String) :
    ∀ (m : Mgr) (e : Nat → Nat), GoodState m e → ∀ m', declare names m = (.ok (), m') →
      m'.sched = m.sched := by
  induction names with
  | nil => intro m e _ m' h; rw [declare_nil] at h; cases h; rfl
  | cons x xs ih =>
    intro m e h m' hd
    rw [declare_cons] at hd
    cases hex : m.tbl.vars[x]? with
    | some i =>
      rw [(addVar_existing m x i hex).1] at hd
      exact ih m e h m' hd
    | none =>
      rw [addVar_new m x hex h.order.l2v_none] at hd
      have hgood := (addVar_good m e h x none (by intro l hl; cases hl)).1
      rw [addVar_new m x hex h.order.l2v_none] at hgood
      exact ih _ e hgood m' hd

theorem dropOpt_setLastLen (o : Option Int) (m : Mgr) (l : Option Nat) :
    dropOpt o { m with lastLen := l } = { (dropOpt o m) with lastLen := l } := by
  cases o with
  | none => rfl
  | some u =>
    simp only [dropOpt, dmpDrop, decref]
    cases m.ref[u.natAbs]? with
    | none => rfl
    | some c =>
      simp only
      split <;> rfl

/-- `_copy.load_json(load_order=True)` into a manager in which dynamic reordering is not enabled
and whose variables are among those of the file (else `reorder(order)` refuses), with the
model's default iteration orders (`sched = []`) -/
theorem loadJson_true_spec (f : JsonFile) (hf : JsonWF f) (hrt : Rooted f)
    (hnd : (f.levelOfVar.map (·.1)).Nodup) (tgt : Mgr) (e : Nat → Nat)
    (hg : GoodState tgt e) (hpn : PredNodes tgt) (hheld : ∀ r ∈ tgt.roots, 0 < e r.natAbs)
    (hs0 : tgt.sched = [])
    (hsub : ∀ v : String, tgt.tbl.vars.contains v = true → v ∈ f.levelOfVar.map (·.1)) :
    ∃ roots' m', loadJson f true tgt = (.ok roots', m') ∧ Inv m' ∧ OrderOK m'.tbl ∧
      RefExact m' (extAdd e (roots'.values.map Int.natAbs)) ∧ PredNodes m' ∧
      m'.lastLen.isSome = true ∧ m'.ctx = false ∧
      (∀ v l, (v, l) ∈ f.levelOfVar → m'.tbl.vars[v]? = some l) ∧
      (∀ u : Nat, 0 < e u → m'.tbl.Mem (u : Int)) ∧
      RootsRel (fun u r => m'.tbl.Mem r ∧ ∀ α, denBy m'.tbl r α = evalJson f u α) f.roots roots' := by
  obtain ⟨hwf, hcf, hsome, hres, hlines⟩ := hf
  -- 0. `configure(reordering=False)`: it is not enabled
  have h0 : ({ tgt with lastLen := none } : Mgr) = tgt := by
    have := hg.off
    cases tgt; simp_all
  have ec0 : configure (some false) tgt = (.ok false, tgt) := by
    rw [configure_false_eq, h0, hg.off]; rfl
  -- 1. declare
  obtain ⟨m1, ed, g1, hdecl, hmono, s1, p1, r1⟩ := declare_spec (f.levelOfVar.map (·.1)) tgt e hg
  have hpn1 : PredNodes m1 := hpn.congr p1 s1
  have hO := g1.order
  have hvsub := declare_vars_sub (f.levelOfVar.map (·.1)) tgt e hg m1 ed
  have hsched1 : m1.sched = [] := by rw [declare_sched _ tgt e hg m1 ed]; exact hs0
  -- the variables are exactly those of the file
  have hkeys : ∀ v : String, m1.tbl.vars.contains v = true ↔ v ∈ f.levelOfVar.map (·.1) := by
    intro v
    rw [TreeMap.contains_eq_isSome_getElem?]
    constructor
    · intro hv
      rcases hvsub v hv with h' | h'
      · exact hsub v (by rw [TreeMap.contains_eq_isSome_getElem?]; exact h')
      · exact h'
    · exact hdecl v
  have hnv : m1.nvars = f.levelOfVar.length := by
    have := size_eq_of_keys m1.tbl.vars _ hnd hkeys
    simpa [Mgr.nvars, Tbl.nvars] using this
  -- 2. `reorder(order)`
  let order : List (String × Int) := f.levelOfVar.map fun x => (x.1, (x.2 : Int))
  have hlook : ∀ v l, (v, l) ∈ f.levelOfVar → order.lookup v = some (l : Int) :=
    fun v l h => lookup_map_of_nodup f.levelOfVar hnd v l h
  have hlookinv : ∀ v p, order.lookup v = some p → ∃ l : Nat, p = (l : Int) ∧ (v, l) ∈ f.levelOfVar := by
    intro v p hp
    have hm := lookup_mem order v p hp
    simp only [order, List.mem_map] at hm
    obtain ⟨⟨a, b⟩, hab, heq⟩ := hm
    simp only [Prod.mk.injEq] at heq
    obtain ⟨rfl, rfl⟩ := heq
    exact ⟨b, rfl, hab⟩
  have hreq : ReqOrder order m1 := by
    refine ⟨by simp [order, hnv], ?_, ?_, ?_⟩
    · intro i hi
      obtain ⟨v, hv⟩ := hO.total i hi
      have hvv := (hO.inv v i).mpr hv
      have hvin : v ∈ f.levelOfVar.map (·.1) :=
        (hkeys v).mp (by rw [TreeMap.contains_eq_isSome_getElem?, hvv]; rfl)
      obtain ⟨⟨a, l⟩, hal, rfl⟩ := List.mem_map.mp hvin
      exact ⟨a, l, hv, hlook a l hal⟩
    · intro v p hp
      obtain ⟨l, rfl, hl⟩ := hlookinv v p hp
      have := hwf.bound v l hl
      refine ⟨by omega, ?_⟩
      rw [hnv]
      have hlen : f.toPickle.vars.length = f.levelOfVar.length := rfl
      omega
    · intro v v' p h1 h2
      obtain ⟨l, rfl, hl⟩ := hlookinv v _ h1
      obtain ⟨l', hl'e, hl'⟩ := hlookinv v' _ h2
      have hll : l' = l := by omega
      rw [hll] at hl'
      have a := hwf.names v l hl
      have b := hwf.names v' l hl'
      rw [a] at b; cases b; rfl
  have hRI : ReorderInv e m1 :=
    ⟨g1.inv, g1.order, g1.exact, Or.inl g1.ctx, by intro r hr; rw [r1] at hr; exact hheld r hr⟩
  obtain ⟨m2, ero, RI2, hs2, RR2, hvars2⟩ := C07_reorder_order_total e m1 hRI hsched1 order hreq
  have hpn2 : PredNodes m2 := by
    have := reorder_predNodes (some order) m1 hpn1 (by rw [ero]; exact RI2.inv)
    rw [ero] at this; exact this
  have g2 : GoodState m2 e :=
    ⟨RI2.inv, RI2.order, RI2.refExact, by rw [RR2.lastLen]; exact g1.off, by rw [RR2.ctx]; exact g1.ctx⟩
  have hv2 : ∀ v l, (v, l) ∈ f.levelOfVar → m2.tbl.vars[v]? = some l := by
    intro v l hvl
    have := (hvars2 v (l : Int) (hlook v l hvl)
      ((hkeys v).mpr (List.mem_map.mpr ⟨(v, l), hvl, rfl⟩))).1
    simpa using this
  -- 3. the tables of the loader: the level map is the identity on the levels of the file
  let vat := f.levelOfVar.foldl (fun acc (x : String × Nat) => (x.2, x.1) :: acc) []
  let lm : List (Nat × Nat) := f.levelOfVar.map fun p => (p.2, p.2)
  let succ := f.toPickle.succ
  let n := f.levelOfVar.length
  have hnames : ∀ var i, (var, i) ∈ f.levelOfVar → f.toPickle.nameAt i = some var := hwf.names
  have hsame : ∀ v v' i, (v, i) ∈ f.levelOfVar → (v', i) ∈ f.levelOfVar → v = v' := by
    intro v v' i h1 h2
    have a := hnames v i h1
    have b := hnames v' i h2
    rw [a] at b; cases b; rfl
  have hidm : ∀ i j, lm.lookup i = some j → j = i := by
    intro i j hij
    have hm := lookup_mem lm i j hij
    simp only [lm, List.mem_map] at hm
    obtain ⟨⟨v, l⟩, _, heq⟩ := hm
    simp only [Prod.mk.injEq] at heq
    omega
  have hlmdom : ∀ v i, (v, i) ∈ f.levelOfVar → lm.lookup i = some i := by
    intro v i hvi
    obtain ⟨j, hj⟩ := Option.isSome_iff_exists.mp
      (lookup_isSome_of_mem lm i i (List.mem_map.mpr ⟨(v, i), hvi, rfl⟩))
    rw [hj, hidm i j hj]
  have hvatfacts : ∀ i x, vat.lookup i = some x → (x, i) ∈ f.levelOfVar := by
    intro i x hix
    have hm := lookup_mem vat i x hix
    simp only [vat, vat_eq, List.mem_reverse, List.mem_map] at hm
    obtain ⟨⟨v, l⟩, hvl, heq⟩ := hm
    simp only [Prod.mk.injEq] at heq
    obtain ⟨rfl, rfl⟩ := heq
    exact hvl
  have hvatdom : ∀ v i, (v, i) ∈ f.levelOfVar → (vat.lookup i).isSome := by
    intro v i hvi
    apply lookup_isSome_of_mem vat i v
    simp only [vat, vat_eq, List.mem_reverse, List.mem_map]
    exact ⟨(v, i), hvi, rfl⟩
  have hdom : ∀ k en, PEntry.find succ k = some en → k ≠ 1 → (lm.lookup en.lvl).isSome := by
    intro k en he h1
    obtain ⟨var, hvar⟩ := hwf.lvls k en he h1
    rw [hlmdom var en.lvl hvar]; rfl
  have hlineOK : ∀ ln ∈ f.nodes, LineOK succ lm vat m2.tbl.vars ln := by
    intro ln hln
    obtain ⟨hid, hfind⟩ := hlines ln hln
    refine ⟨hid, hfind, ?_⟩
    obtain ⟨var, hvar⟩ := hwf.lvls ln.id _ hfind hid
    have hvar' : (var, ln.lvl) ∈ f.levelOfVar := hvar
    obtain ⟨x, hx⟩ := Option.isSome_iff_exists.mp (hvatdom var ln.lvl hvar')
    have hxv : x = var := hsame _ _ _ (hvatfacts _ _ hx) hvar'
    subst hxv
    exact ⟨x, ln.lvl, hx, hv2 x ln.lvl hvar', hlmdom x ln.lvl hvar'⟩
  -- 4. the node lines
  obtain ⟨added, m3, emk, k3, pn3, g3, c3, t3, n3, a3⟩ := makeNodesT_spec hwf.succ hdom hidm vat f.nodes [] [] m2 e
    (by simpa using hcf) hlineOK (by simp) g2 (by intro k u h; simp at h) (ShelfT.nil _ _) (by simp) hpn2
  simp only [List.nil_append] at emk g3 c3 t3 n3 a3
  -- 5. the roots
  have hks : ∀ k ∈ f.roots.values, k.natAbs = 1 ∨ (added.lookup k.natAbs).isSome := by
    intro k hk
    rcases hres k hk with h1 | ⟨en, hen, hid⟩
    · exact Or.inl h1
    · by_cases h1 : k.natAbs = 1
      · exact Or.inl h1
      right
      have hen' : en ∈ (⟨1, f.levelOfVar.length, none, none⟩ : PEntry) :: f.nodes.map JLine.entry := hen
      rcases List.mem_cons.mp hen' with h' | h'
      · subst h'; exact absurd hid.symm h1
      · obtain ⟨ln, hln, rfl⟩ := List.mem_map.mp h'
        have := a3 ln hln
        rw [← hid]; exact this
  obtain ⟨us, r4, er, g4, f4⟩ := rootsFromInts_spec hwf.succ hdom added f.roots.values m3 _ g3 c3 hks
  -- 6. the release of the shelf's references
  have g4' : GoodState { m3 with ref := r4 }
      (extAdd (extAdd e (us.map Int.natAbs)) (added.map (·.2.natAbs) ++ (none : Option Int).toList.map Int.natAbs)) := by
    rw [extAdd_append] at g4 ⊢
    have hp : (added.map (·.2.natAbs) ++ us.map Int.natAbs).Perm
        (us.map Int.natAbs ++ (added.map (·.2.natAbs) ++ (none : Option Int).toList.map Int.natAbs)) := by
      simp only [Option.toList, List.map_nil, List.append_nil]
      exact List.perm_append_comm
    rw [← extAdd_perm e hp]; exact g4
  have hjust : JustL m3.tbl (extAdd e (us.map Int.natAbs)) added := by
    apply justL_of_shelf added n3 t3 ?_ added [] (by simp)
    intro k u hku
    have hlk := dmp_lookup_of_mem_nodup added n3 k u hku
    obtain ⟨_, _, hk1, hfk, _⟩ := c3 k u hlk
    -- the line of `k`
    have hkline : ∃ ln ∈ f.nodes, ln.id = k := by
      obtain ⟨en, hen⟩ := Option.isSome_iff_exists.mp hfk
      have hmem := List.mem_of_find?_eq_some hen
      have hid := PEntry.find_id hen
      have hmem' : en ∈ (⟨1, f.levelOfVar.length, none, none⟩ : PEntry) :: f.nodes.map JLine.entry := hmem
      rcases List.mem_cons.mp hmem' with h' | h'
      · subst h'; exact absurd hid.symm hk1
      · obtain ⟨ln, hln, rfl⟩ := List.mem_map.mp h'
        exact ⟨ln, hln, hid⟩
    obtain ⟨ln, hln, rfl⟩ := hkline
    rcases hrt ln hln with ⟨r, hr, hrid⟩ | ⟨ln', hln', hch⟩
    · -- a root `Function` is alive
      left
      have key : ∀ (ks : List Int) (us : List Int),
          Forall2 (fun k u => (m3.tbl.Mem u ∧ ∀ a, den m3.tbl u a = evalL succ lm (n + 1) k a) ∧
            (k.natAbs ≠ 1 → added.lookup k.natAbs = some (if k < 0 then -u else u))) ks us →
          r ∈ ks → ∃ ur ∈ us, added.lookup r.natAbs = some (if r < 0 then -ur else ur) := by
        intro ks us hf2
        induction hf2 with
        | nil => intro h; simp at h
        | cons hab _ ih =>
          intro hmem
          rcases List.mem_cons.mp hmem with h' | h'
          · subst h'
            exact ⟨_, List.mem_cons_self, hab.2 (by rw [hrid]; exact hk1)⟩
          · obtain ⟨ur, hur, hl⟩ := ih h'
            exact ⟨ur, List.mem_cons_of_mem _ hur, hl⟩
      obtain ⟨ur, hur, hl⟩ := key _ _ f4 hr
      rw [hrid, hlk] at hl
      have habs : ur.natAbs = u.natAbs := by
        simp only [Option.some.injEq] at hl
        rw [hl]; split <;> simp
      have : 0 < (us.map Int.natAbs).count u.natAbs := by
        rw [List.count_pos_iff]
        exact List.mem_map.mpr ⟨ur, hur, habs⟩
      simp only [extAdd]; omega
    · right
      obtain ⟨hid', hfind'⟩ := hlines ln' hln'
      obtain ⟨u', hu'⟩ := Option.isSome_iff_exists.mp (a3 ln' hln')
      rcases hch with hc' | hc'
      · exact ⟨ln'.id, u', _, ln'.lo, hu', hfind', Or.inl rfl, hc', hk1⟩
      · exact ⟨ln'.id, u', _, ln'.hi, hu', hfind', Or.inr rfl, hc', hk1⟩
  obtain ⟨last0, r0, eck, g0⟩ := checkLoopT_spec added n3 added none { m3 with ref := r4 }
    (extAdd e (us.map Int.natAbs)) (List.suffix_refl _) c3 hjust (by simpa [shelfRefs] using g4')
  obtain ⟨last, r5, erl, g5⟩ := releaseFailed_spec (extAdd e (us.map Int.natAbs)) added n3 (shelfOK_ids n3 c3)
    added last0 { m3 with ref := r0 } [] (fun _ h => h) (by simpa using g0)
  simp only [List.append_nil] at g5
  obtain ⟨r6, ed6, g6⟩ : ∃ r6, dropOpt last { m3 with ref := r5 } = { m3 with ref := r6 } ∧
      GoodState { m3 with ref := r6 } (extAdd e (us.map Int.natAbs)) := by
    cases last with
    | none => exact ⟨r5, rfl, by simpa [extAdd_nil] using g5⟩
    | some p =>
      simp only [Option.toList, List.map_cons, List.map_nil] at g5
      obtain ⟨r6, hd, hg6⟩ := dmp_drop_spec { m3 with ref := r5 } _ g5 p (extAdd_pos _ _ _)
      rw [extDec_extAdd, extAdd_nil] at hg6
      exact ⟨r6, hd, hg6⟩
  -- `assert_consistent`, `configure(reordering=…)`
  have K23 : Kept m2 m3 := k3
  have heldMem2 : ∀ u : Nat, 0 < e u → m2.tbl.Mem (u : Int) := fun u hu => RI2.held_mem hu
  have hroots3 : ∀ r ∈ ({ m3 with ref := r5 } : Mgr).roots, ({ m3 with ref := r5 } : Mgr).tbl.Mem r := by
    intro r hr
    have hr' : r ∈ m3.roots := hr
    rw [K23.frame.roots, RR2.roots, r1] at hr'
    have := heldMem2 r.natAbs (hheld r hr')
    have h2 : m2.tbl.Mem r := by
      unfold Tbl.Mem at this ⊢
      simpa using this
    exact K23.ext.mem h2
  have hac := assertConsistent_ok { m3 with ref := r5 } g5.inv (pn3.congr rfl rfl) hroots3
  obtain ⟨hrel, hvals⟩ := Roots.rebuild_rel (P := fun k u => m3.tbl.Mem u ∧
      ∀ a, den m3.tbl u a = evalL succ lm (n + 1) k a) f.roots hsome us (f4.imp fun _ _ h => h.1)
  have hl : LMOK succ lm m3.tbl.nvars := by
    constructor
    intro k en he h1
    obtain ⟨var, hvar⟩ := hwf.lvls k en he h1
    refine ⟨en.lvl, hlmdom var en.lvl hvar, ?_⟩
    rw [← K23.ext.nvars]
    exact g2.order.lt var en.lvl (hv2 var en.lvl hvar)
  have hn : NameOK f.toPickle lm m3.tbl := by
    intro i j hij
    obtain rfl := hidm i j hij
    have hm := lookup_mem lm j j hij
    simp only [lm, List.mem_map] at hm
    obtain ⟨⟨v, l⟩, hvl, heq⟩ := hm
    simp only [Prod.mk.injEq] at heq
    obtain ⟨rfl, _⟩ := heq
    exact ⟨v, hnames v l hvl, by rw [K23.frame.l2v]; exact (g2.order.inv v l).mp (hv2 v l hvl)⟩
  let newLen : Option Nat := some (max Gen.reorderStarts ({ m3 with ref := r5 } : Mgr).len)
  let mz : Mgr := { m3 with ref := r5, lastLen := newLen }
  let mf : Mgr := { m3 with ref := r6, lastLen := newLen }
  refine ⟨f.roots.rebuild us, mf, ?_, ?_, ?_, ?_, pn3.congr rfl rfl, rfl, ?_, ?_, ?_, ?_⟩
  · rw [loadJson_true_eq, h0, jsonTry_ok f true hsome tgt m2 m3 { m3 with ref := r4 } { m3 with ref := r0 }
      added us last0 (jsonHeader_true f tgt m1 m2 ed ero) emk er eck]
    unfold jsonFinish
    simp only [erl, if_true]
    have hfin : (liftE (Except.ok ()) >>= fun _ => dmpAssertConsistent >>= fun _ =>
        configure (some true) >>= fun _ => (pure () : M Unit))
        { m3 with ref := r5 } = (.ok (), mz) := by
      refine (M.bind_eq_ok (show liftE (Except.ok ()) { m3 with ref := r5 } = (.ok (), { m3 with ref := r5 }) from rfl)).trans ?_
      refine (M.bind_eq_ok hac).trans ?_
      refine (M.bind_eq_ok (configure_true_eq _)).trans ?_
      rfl
    rw [hfin]
    simp only
    -- the last `Function` dies after `configure`
    have : dropOpt last mz = mf := by
      show dropOpt last { ({ m3 with ref := r5 } : Mgr) with lastLen := newLen } = mf
      rw [dropOpt_setLastLen, ed6]
    rw [this]
  · exact ⟨g6.inv.wf, g6.inv.pred, g6.inv.freeGe, g6.inv.free, g6.inv.refOne, g6.inv.refDom, g6.inv.cache⟩
  · exact g6.order
  · rw [hvals]; exact ⟨g6.exact.dom, g6.exact.cnt, g6.exact.extZero⟩
  · exact g6.ctx
  · intro v l hvl
    show m3.tbl.vars[v]? = some l
    rw [K23.frame.vars]; exact hv2 v l hvl
  · intro u hu
    exact K23.ext.mem (heldMem2 u hu)
  · apply hrel.imp
    intro k u ⟨h1, h2⟩
    refine ⟨h1, fun α => ?_⟩
    unfold denBy evalJson evalPickle
    show den m3.tbl u (m3.tbl.asg α) = _
    rw [h2, evalL_eq_evalN f.toPickle lm m3.tbl _ hl hn]
    rfl


/-! ### the statements for both values of `load_order` -/

theorem dumpJson_names_nodup {m : Mgr} {roots : Roots} {f : JsonFile} (h : dumpJson m roots = .ok f) :
    (f.levelOfVar.map (·.1)).Nodup := by
  obtain ⟨hv, _⟩ := dumpJson_parts h
  rw [hv]
  have := TreeMap.distinct_keys_toList (t := m.tbl.vars)
  rw [List.Nodup, List.pairwise_map]
  exact this.imp (fun hne heq => hne (by rw [heq]; exact compare_self))

/-- what `load_order=True` needs in addition: every line belongs to a root or is the child of
another line (else the `ref < 3` assertion of the loader fails), the names of the file are
distinct, the manager declares no other variable (else `reorder(order)` refuses), every
element of `bdd.roots` is held by the user (what `reorder` requires), and the model's default
iteration orders for the swaps (`sched = []`) -/
structure LoadOrderOK (f : JsonFile) (tgt : Mgr) (e : Nat → Nat) : Prop where
  rooted : Rooted f
  names : (f.levelOfVar.map (·.1)).Nodup
  sched : tgt.sched = []
  held : ∀ r ∈ tgt.roots, 0 < e r.natAbs
  vars : ∀ v : String, tgt.tbl.vars.contains v = true → v ∈ f.levelOfVar.map (·.1)

/-- the state after a JSON load: invariant, consistent order tables, EXACT reference counts
for the ledger "`e` plus one reference per returned `Function`", no stray unique-table entry;
dynamic reordering is enabled afterwards exactly when `load_order=True` (the dict returned by
`configure` is passed back as the value of `reordering`) -/
structure JsonLoaded (f : JsonFile) (e : Nat → Nat) (lo : Bool) (roots' : Roots) (m' : Mgr) : Prop where
  inv : Inv m'
  order : OrderOK m'.tbl
  counts : RefExact m' (extAdd e (roots'.values.map Int.natAbs))
  pred : PredNodes m'
  ctx : m'.ctx = false
  reordering : m'.lastLen.isSome = lo
  held : ∀ u : Nat, 0 < e u → m'.tbl.Mem (u : Int)
  fileOrder : lo = true → ∀ v l, (v, l) ∈ f.levelOfVar → m'.tbl.vars[v]? = some l
  roots : RootsRel (fun u r => m'.tbl.Mem r ∧ ∀ α, denBy m'.tbl r α = evalJson f u α) f.roots roots'

/-- C12 for `_copy.load_json` on a `dd.autoref.BDD`, either value of `load_order`.
The one restriction: dynamic reordering is NOT ENABLED in the receiving manager
(`GoodState tgt e`: `tgt.lastLen = none`); for `load_order=True` see `LoadOrderOK`. -/
def json_load_statement : Prop :=
  ∀ (f : JsonFile) (lo : Bool) (tgt : Mgr) (e : Nat → Nat), JsonWF f → GoodState tgt e →
    PredNodes tgt → (∀ r ∈ tgt.roots, tgt.tbl.Mem r) → (lo = true → LoadOrderOK f tgt e) →
    ∃ roots' m', loadJson f lo tgt = (.ok roots', m') ∧ JsonLoaded f e lo roots' m'

theorem json_load_holds : json_load_statement := by
  intro f lo tgt e hf hg hpn hroots hlo
  cases lo with
  | false =>
    obtain ⟨roots', m', el, g, pn, N, R⟩ := loadJson_false_spec f hf tgt e hg hpn hroots
    refine ⟨roots', m', el, g.inv, g.order, g.exact, pn, g.ctx, by rw [g.off]; rfl, ?_,
      (fun h => by cases h), R⟩
    intro u hu
    have hm := hg.exact.mem_of_ext_pos hu
    rcases hm with h1 | h1
    · exact Or.inl (by simpa using h1)
    · obtain ⟨n, hn⟩ := Option.isSome_iff_exists.mp h1
      exact Or.inr (by simp [N u n hn])
  | true =>
    obtain ⟨hrt, hnd, hs0, hheld, hvars⟩ := hlo rfl
    obtain ⟨roots', m', el, I, O, X, pn, L, C, FO, H, R⟩ :=
      loadJson_true_spec f hf hrt hnd tgt e hg hpn hheld hs0 hvars
    exact ⟨roots', m', el, I, O, X, pn, C, L, H, fun _ => FO, R⟩

/-- C12, JSON round trip, either value of `load_order`; reordering not enabled in the target -/
def json_roundtrip_statement : Prop :=
  ∀ (src : Mgr) (roots : Roots) (f : JsonFile) (lo : Bool) (tgt : Mgr) (e : Nat → Nat),
    Inv src → DmpVarsOK src.tbl → dumpJson src roots = .ok f →
    GoodState tgt e → PredNodes tgt → (∀ r ∈ tgt.roots, tgt.tbl.Mem r) →
    (lo = true → tgt.sched = [] ∧ (∀ r ∈ tgt.roots, 0 < e r.natAbs) ∧
      ∀ v : String, tgt.tbl.vars.contains v = true → src.tbl.vars.contains v = true) →
    ∃ roots' m', loadJson f lo tgt = (.ok roots', m') ∧ JsonLoaded f e lo roots' m' ∧
      LoadedAs src.tbl roots m'.tbl roots'

theorem json_roundtrip_holds : json_roundtrip_statement := by
  intro src roots f lo tgt e hIs hvs hd hg hpn hroots hlo
  have hf := dumpJson_jsonWF hIs hvs hd
  obtain ⟨hlov, hroots', _⟩ := dumpJson_parts hd
  obtain ⟨_, _, hev⟩ := dumpJson_spec hIs hvs hd
  obtain ⟨roots', m', el, L⟩ := json_load_holds f lo tgt e hf hg hpn hroots (by
    intro h
    obtain ⟨a, b, c⟩ := hlo h
    refine ⟨dumpJson_rooted hd, dumpJson_names_nodup hd, a, b, ?_⟩
    intro v hv
    have := c v hv
    rw [TreeMap.contains_eq_isSome_getElem?] at this
    obtain ⟨l, hl⟩ := Option.isSome_iff_exists.mp this
    rw [hlov]
    exact List.mem_map.mpr ⟨(v, l), TreeMap.mem_toList_iff_getElem?_eq_some.mpr hl, rfl⟩)
  refine ⟨roots', m', el, L, ?_⟩
  have R := L.roots
  rw [hroots'] at R
  apply R.imp_mem
  intro u hu r ⟨h1, h2⟩
  exact ⟨h1, fun α => by rw [h2 α, hev α u hu]⟩


end DD
