/-
  DDProofs.XCopyValue — the VALUE of `dd._copy.copy_bdd` over `dd.autoref` (`DD.aXCopyRun`), the
  target in BOTH modes (`off = false`: dynamic reordering possibly enabled; it may fire inside any
  `target.var` / `target.ite` of the recursion): when every variable of a node reachable from the
  root is declared in the target, the call RETURNS, the new `Function` sits on the result, and the
  result denotes — by variable NAME — the function of the root in the source.

  The induction is the one of the JSON loader (DDProofs.DumpJsonDyn): the memo maps each copied
  source node to a LIVE `Function` of the target that denotes it; every step is an autoref
  operation whose value theorem (`VarDoc`, `IteDoc`: C09 transparency with reordering enabled, the
  abort-aware body lemmas without) keeps every live `Function` and its meaning, so the memo stays
  valid whatever the target does to its order; the temporaries that die were created by the call.
-/
import DDProofs.XCopyAuto
import DDProofs.SmallSupport
open Std

namespace DD

variable {off : Bool}

/-! ### `var` and `ite` of the target: value, names, number of variables -/

theorem tryToReorder_off_doc' {α} (f : M α) (ops : List Int) (Pre : Tbl → Prop)
    (Doc : Tbl → α → Tbl → Prop)
    (hbody : ∀ m0 : Mgr, Inv m0 → m0.ctx = true → OrderOK m0.tbl → Pre m0.tbl →
      (∀ u ∈ ops, m0.tbl.Mem u) → Outcome m0 (fun r m1 => Doc m0.tbl r m1.tbl) (f m0))
    (m : Mgr) (hI : Inv m) (hO : OrderOK m.tbl) (hoff : m.lastLen = none)
    (hops : ∀ u ∈ ops, m.tbl.Mem u) (hpre0 : Pre m.tbl) :
    ∃ r m', tryToReorder f m = (.ok r, m') ∧ Doc m.tbl r m'.tbl ∧
      ∀ s, m'.tbl.vars.contains s = m.tbl.vars.contains s := by
  have h1 := hbody { m with ctx := true } (hI.setCtx true) rfl hO hpre0 hops
  rcases h1.cases with ⟨r, m1, he, hs, hd⟩ | ⟨m1, _, _, ha⟩
  · exact ⟨r, { m1 with ctx := m.ctx }, tryToReorder_ok f m r m1 he, hd, fun s => hs.names s⟩
  · exfalso
    have := ha.2
    rw [show ({ m with ctx := true } : Mgr).lastLen = m.lastLen from rfl, hoff] at this
    exact Bool.noConfusion this

/-- the names and (mode `off = false`) the two variables are still there -/
def KeepsVars (off : Bool) (m m' : Mgr) : Prop :=
  (∀ s, m'.tbl.vars.contains s = m.tbl.vars.contains s) ∧ (off = false → 2 ≤ m'.nvars)

theorem var_doc2 : ∀ (off : Bool) (a : AMgr), AInv off a → Two off a → ∀ (name : String),
    a.m.tbl.vars.contains name = true →
    ∃ r m', var name a.m = (.ok r, m') ∧ VarDoc name a.m.tbl r m'.tbl ∧ KeepsVars off a.m m'
  | false => fun a hi ht name hd => by
    obtain ⟨r, m', he, hp⟩ := C09_var_transparent (hext a) a.m (hi.minv.dynInv (ht rfl)) name hd
    exact ⟨r, m', he, hp.doc, hp.names, fun _ => hp.inv.nvars⟩
  | true => fun a hi _ name hdecl => by
    rw [var_eq_dynVarBody]
    obtain ⟨r, m', he, hd, hn⟩ := tryToReorder_off_doc' (dynVarBody name) []
      (fun t => t.vars.contains name = true) (VarDoc name) (by
        intro m0 hI0 _ hO hpre _
        obtain ⟨j, hj⟩ := (vars_contains_iff m0.tbl name).mp hpre
        have hb : dynVarBody name m0 = findOrAdd (j : Int) (-1) 1 m0 := by
          simp [dynVarBody, bind, M.bind', M.get, hj]
        rw [hb]
        refine (varNode_out m0 hI0 j (hO.lt name j hj)).mono ?_
        intro g m1 hs ⟨hg, _, hd⟩
        refine ⟨hg, fun σ => ?_⟩
        unfold denN
        rw [hd]
        show σ (m1.tbl.nameOf j) = σ name
        have hl : m1.tbl.l2v = m0.tbl.l2v := hs.frame.l2v
        have : m1.tbl.nameOf j = name := by
          unfold Tbl.nameOf; rw [hl]; exact hO.nameOf_level hj
        rw [this])
      a.m hi.inv hi.order (hi.mode rfl) (fun _ h => by cases h) hdecl
    exact ⟨r, m', he, hd, hn, fun h => nomatch h⟩

theorem ite_doc2 : ∀ (off : Bool) (a : AMgr), AInv off a → Two off a → ∀ (g u v : Int) (jg ju jv : Nat),
    a.handles[jg]? = some g → a.handles[ju]? = some u → a.handles[jv]? = some v →
    ∃ r m', ite g u v a.m = (.ok r, m') ∧ IteDoc g u v a.m.tbl r m'.tbl ∧ KeepsVars off a.m m'
  | false => fun a hi ht g u v jg ju jv hg hu hv => by
    obtain ⟨r, m', he, hp⟩ := C09_ite_transparent (hext a) a.m (hi.minv.dynInv (ht rfl)) g u v
      (heldX_of_handle a hg) (heldX_of_handle a hu) (heldX_of_handle a hv)
    exact ⟨r, m', he, hp.doc, hp.names, fun _ => hp.inv.nvars⟩
  | true => fun a hi _ g u v jg ju jv hg hu hv => by
    unfold ite
    obtain ⟨r, m', he, hd, hn⟩ := tryToReorder_off_doc' (iteRaw g u v) [g, u, v] (fun _ => True)
      (IteDoc g u v) (by
        intro m0 hI0 _ _ _ hmem
        have mg := hmem g (by simp)
        have mu := hmem u (by simp)
        have mv := hmem v (by simp)
        rw [iteRaw_eq]
        refine (iteF_out (m0.nvars + 2) m0 g u v hI0 mg mu mv (by omega)).mono ?_
        intro r m1 _ hp
        refine ⟨hp.mem, fun σ => ?_⟩
        have hl : m1.tbl.l2v = m0.tbl.l2v := hp.frame.l2v
        unfold denN Tbl.lift Tbl.nameOf
        rw [hl, hp.den])
      a.m hi.inv hi.order (hi.mode rfl) (by
        intro w hw
        simp only [List.mem_cons, List.not_mem_nil, or_false] at hw
        rcases hw with rfl | rfl | rfl
        · exact hi.hmem jg _ hg
        · exact hi.hmem ju _ hu
        · exact hi.hmem jv _ hv) trivial
    exact ⟨r, m', he, hd, hn, fun h => nomatch h⟩

/-- one new `Function` `t ↦ r` of a session: everything else is as it was -/
structure DStep (off : Bool) (a : AMgr) (t : Nat) (r : Int) (a' : AMgr) : Prop where
  at_t : a'.handles[t]? = some r
  same : ∀ j : Nat, j ≠ t → a'.handles[j]? = a.handles[j]?
  inv : AInv off a'
  two : Two off a'
  names : ∀ s, a'.m.tbl.vars.contains s = a.m.tbl.vars.contains s
  den : ∀ (j : Nat) (w : Int), a.handles[j]? = some w →
    a'.m.tbl.Mem w ∧ ∀ σ, denN a'.m.tbl w σ = denN a.m.tbl w σ

theorem wrap_keepsTbl (a : AMgr) (h : Nat) (r : Int) (a' : AMgr) (hw : wrap h r a = (.ok (), a')) :
    a'.m.tbl = a.m.tbl := by
  unfold wrap at hw
  split at hw
  · cases hw
  · have := wrapF_tblSame h r a
    rw [hw] at this; exact this

/-- `r = self._bdd.<op>(...); return self._wrap(r)` with the value, the names and the number of
variables -/
theorem wrapResult_step (a : AMgr) (hi : AInv off a) (h : Nat)
    (hf : a.handles.contains h = false) (core : M Int) (Doc : Tbl → Int → Tbl → Prop)
    (hk : CoreKeepsAt off a.m core) (hmem : ∀ t r t', Doc t r t' → t'.Mem r)
    (hd : ∃ r m', core a.m = (.ok r, m') ∧ Doc a.m.tbl r m'.tbl ∧ KeepsVars off a.m m') :
    ∃ r a', wrapResult h core a = (.ok r, a') ∧ DStep off a h r a' ∧ Doc a.m.tbl r a'.m.tbl := by
  obtain ⟨r, m', he, hdoc, hn, h2⟩ := hd
  have h1 := liftM_eval (a := a) he
  obtain ⟨i1, _, _⟩ := liftM_total a hk hi _ _ h1
  obtain ⟨a', hw, _, ht, hh, _⟩ := wrap_spec { a with m := m' } h r i1 hf (hmem _ _ _ hdoc)
  have heq : wrapResult h core a = (.ok r, a') := by
    unfold wrapResult
    rw [AM.bind_ok h1, AM.bind_ok hw]
    rfl
  obtain ⟨i', hs', hd'⟩ := wrapResult_keepsAt a hk h hi hf _ _ heq
  refine ⟨r, a', heq, ⟨by rw [hh]; exact TreeMap.getElem?_insert_self, hs', i', ?_, ?_, hd'⟩,
    by rw [ht]; exact hdoc⟩
  · intro ho
    show 2 ≤ a'.m.tbl.nvars
    rw [ht]; exact h2 ho
  · intro s
    rw [ht]; exact hn s

theorem aVar_step (a : AMgr) (hi : AInv off a) (ht : Two off a) (name : String) (h : Nat)
    (hf : a.handles.contains h = false) (hd : a.m.tbl.vars.contains name = true) :
    ∃ r a', aVar name h a = (.ok r, a') ∧ DStep off a h r a' ∧ VarDoc name a.m.tbl r a'.m.tbl :=
  wrapResult_step a hi h hf (var name) (VarDoc name) ((var_keepsAll off name).at a.m)
    (fun _ _ _ d => d.1) (var_doc2 off a hi ht name hd)

theorem aIte_step (a : AMgr) (hi : AInv off a) (ht : Two off a) (jg ju jv h : Nat)
    (hf : a.handles.contains h = false) (g u v : Int)
    (hg : a.handles[jg]? = some g) (hu : a.handles[ju]? = some u) (hv : a.handles[jv]? = some v) :
    ∃ r a', aIte jg ju jv h a = (.ok r, a') ∧ DStep off a h r a' ∧ IteDoc g u v a.m.tbl r a'.m.tbl := by
  have heq : aIte jg ju jv h a = wrapResult h (ite g u v) a := by
    unfold aIte
    rw [AM.bind_ok (nodeIn_eval hi hg), AM.bind_ok (nodeIn_eval hi hu), AM.bind_ok (nodeIn_eval hi hv)]
  rw [heq]
  exact wrapResult_step a hi h hf (ite g u v) (IteDoc g u v) ((ite_keepsAll off g u v).at a.m)
    (fun _ _ _ d => d.1) (ite_doc2 off a hi ht g u v jg ju jv hg hu hv)

/-- a new `Function` made without touching the table (`~ f`, a constant, `u.low`) -/
theorem DStep.of_tblSame {a a' : AMgr} {t : Nat} {r : Int} (hi : AInv off a) (ht : Two off a)
    (hf : a.handles.contains t = false) {α : Type} {x : AM α} {v : Except Err α} (hk : AKeeps off t x)
    (he : x a = (v, a')) (htb : a'.m.tbl = a.m.tbl) (hat : a'.handles[t]? = some r) :
    DStep off a t r a' := by
  obtain ⟨i', hs', hd'⟩ := hk a hi hf _ _ he
  refine ⟨hat, hs', i', ht.of_tbl htb, fun s => by rw [htb], hd'⟩

/-! ### the steps of the recursion, evaluated -/

theorem XM.bind_ok {α β : Type} {x : XM α} {f : α → XM β} {st st1 : XSt} {v : α}
    (h : x st = (.ok v, st1)) : (x >>= f) st = f v st1 := by
  change XM.bind' x f st = _
  unfold XM.bind'
  rw [h]

/-- the death of a live `Function`: the table, the names and every other `Function` stay -/
theorem dropQ_live {off : Bool} (a : AMgr) (hi : AInv off a) (t : Nat) (w : Int)
    (hl : a.handles[t]? = some w) :
    AInv off (dropQ t a).2 ∧ (dropQ t a).2.m.tbl = a.m.tbl ∧ (dropQ t a).2.handles[t]? = none ∧
    ∀ j : Nat, j ≠ t → (dropQ t a).2.handles[j]? = a.handles[j]? := by
  obtain ⟨a2, h2, i2, t2, hh2, _⟩ := drop_spec a t w hi hl
  show AInv off (drop t a).2 ∧ (drop t a).2.m.tbl = a.m.tbl ∧ (drop t a).2.handles[t]? = none ∧
    ∀ j : Nat, j ≠ t → (drop t a).2.handles[j]? = a.handles[j]?
  rw [h2]
  refine ⟨i2, t2, ?_, fun j hj => ?_⟩
  · show a2.handles[t]? = none
    rw [hh2]; exact TreeMap.getElem?_erase_self
  · show a2.handles[j]? = _
    rw [hh2]; exact getElem?_erase_ne _ _ _ hj

/-- `~ u` / `u.low` / `u.high`: a new `Function` of the SOURCE -/
theorem newSrc_not {offS : Bool} (st : XSt) (hi : AInv offS st.src) (hu : Nat) (u : Int)
    (hl : st.src.handles[hu]? = some u) :
    ∃ z s1, XM.newSrc (fApply "not" hu none) st = (.ok z, { st with src := s1 }) ∧
      st.src.handles[z]? = none ∧ AInv offS s1 ∧ s1.m.tbl = st.src.m.tbl ∧
      s1.handles[z]? = some (-u) ∧ ∀ j : Nat, j ≠ z → s1.handles[j]? = st.src.handles[j]? := by
  obtain ⟨z, hf, hn⟩ := freshH_spec st.src
  obtain ⟨s1, he, ht, hh⟩ := fApply_not_eval st.src hi "not" (by decide) (by decide) hu z
    (contains_false_of_none hn) u hl
  obtain ⟨i1, _, _⟩ := fApply_keepsAll offS "not" hu none z st.src hi (contains_false_of_none hn) _ _ he
  refine ⟨z, s1, ?_, hn, i1, ht, by rw [hh]; exact TreeMap.getElem?_insert_self,
    fun j hj => by rw [hh]; exact getElem?_insert_ne _ _ _ _ hj⟩
  unfold XM.newSrc
  rw [hf]
  simp only
  rw [he]

theorem newSrc_child {offS : Bool} (st : XSt) (hi : AInv offS st.src) (high : Bool) (hu : Nat)
    (u : Int) (n : Nd) (hl : st.src.handles[hu]? = some u) (h1 : u.natAbs ≠ 1)
    (hn : st.src.m.tbl.succ[u.natAbs]? = some n) :
    ∃ z s1, xChild high hu st = (.ok z, { st with src := s1 }) ∧
      st.src.handles[z]? = none ∧ AInv offS s1 ∧ s1.m.tbl = st.src.m.tbl ∧
      s1.handles[z]? = some (if high then n.hi else n.lo) ∧
      ∀ j : Nat, j ≠ z → s1.handles[j]? = st.src.handles[j]? := by
  obtain ⟨z, hf, hnn⟩ := freshH_spec st.src
  obtain ⟨s1, he, ht, hh⟩ := fChild_eval st.src hi high hu z u n (contains_false_of_none hnn) hl h1 hn
  obtain ⟨i1, _, _⟩ := fChild_keeps high hu z st.src hi (contains_false_of_none hnn) _ _ he
  refine ⟨z, s1, ?_, hnn, i1, ht, by rw [hh]; exact TreeMap.getElem?_insert_self,
    fun j hj => by rw [hh]; exact getElem?_insert_ne _ _ _ _ hj⟩
  unfold xChild XM.newSrc
  rw [hf]
  simp only
  rw [he]

/-- a new `Function` of the TARGET from a step lemma -/
theorem newDst_eval {α : Type} (st : XSt) (x : Nat → AM α) (t : Nat) (v : α) (d' : AMgr)
    (hf : freshH st.dst = (.ok t, st.dst)) (he : x t st.dst = (.ok v, d')) :
    XM.newDst x st = (.ok t, { st with dst := d' }) := by
  unfold XM.newDst
  rw [hf]
  simp only
  rw [he]

/-- the same with the state spelled out (for rewriting) -/
theorem newDst_eval' {α : Type} {s : AMgr} {c : List (Nat × Nat)} {l : List (List (Nat × Nat))}
    (d : AMgr) (x : Nat → AM α) (t : Nat) (v : α) (d' : AMgr)
    (hf : freshH d = (.ok t, d)) (he : x t d = (.ok v, d')) :
    XM.newDst x ⟨s, d, c, l⟩ = (.ok t, ⟨s, d', c, l⟩) :=
  newDst_eval ⟨s, d, c, l⟩ x t v d' hf he

/-- `~ c` in the target -/
theorem dst_not (d : AMgr) (hi : AInv off d) (ht : Two off d) (c : Nat) (rc : Int)
    (hl : d.handles[c]? = some rc) (t : Nat) (hn : d.handles[t]? = none) :
    ∃ d', fApply "not" c none t d = (.ok (-rc), d') ∧ DStep off d t (-rc) d' ∧ d'.m.tbl = d.m.tbl := by
  obtain ⟨d', he, htb, hh⟩ := fApply_not_eval d hi "not" (by decide) (by decide) c t
    (contains_false_of_none hn) rc hl
  exact ⟨d', he, DStep.of_tblSame hi ht (contains_false_of_none hn)
    (fApply_keepsAll off "not" c none t) he htb (by rw [hh]; exact TreeMap.getElem?_insert_self), htb⟩

/-- `bdd.true` / `bdd.false` in the target -/
theorem dst_const (d : AMgr) (hi : AInv off d) (ht : Two off d) (b : Bool) (t : Nat)
    (hn : d.handles[t]? = none) :
    ∃ d', aConst b t d = (.ok (if b then 1 else -1), d') ∧ DStep off d t (if b then 1 else -1) d' ∧
      d'.m.tbl = d.m.tbl := by
  have hm : d.m.tbl.Mem (if b then 1 else -1) := by cases b <;> exact Or.inl rfl
  obtain ⟨d', hw, _, htb, hh, _⟩ := wrap_spec d t (if b then 1 else -1) hi (contains_false_of_none hn) hm
  have he : aConst b t d = (.ok (if b then 1 else -1), d') := by
    unfold aConst wrapResult
    have h1 : AM.liftM (pure (if b then (1 : Int) else -1) : M Int) d = (.ok (if b then 1 else -1), d) := rfl
    rw [AM.bind_ok h1, AM.bind_ok hw]
    rfl
  exact ⟨d', he, DStep.of_tblSame hi ht (contains_false_of_none hn) (aConst_keeps b t) he htb
    (by rw [hh]; exact TreeMap.getElem?_insert_self), htb⟩

/-! ### the invariant of the recursion -/

/-- the memo is valid: each entry is a LIVE `Function` of the target that denotes the source node -/
def XCacheOK (S : Tbl) (d : AMgr) (cache : List (Nat × Nat)) : Prop :=
  ∀ p ∈ cache, ∃ r, d.handles[p.2]? = some r ∧ ∀ σ, denN d.m.tbl r σ = denN S (p.1 : Int) σ

structure XI (offS off : Bool) (S T0 : Tbl) (st : XSt) : Prop where
  sinv : AInv offS st.src
  stbl : st.src.m.tbl = S
  dinv : AInv off st.dst
  two : Two off st.dst
  names : ∀ s, st.dst.m.tbl.vars.contains s = T0.vars.contains s
  cache : XCacheOK S st.dst st.cache

/-- every `Function` of `d` is one of `d'`, with the same meaning -/
def Pres (d d' : AMgr) : Prop :=
  ∀ (j : Nat) (w : Int), d.handles[j]? = some w →
    d'.handles[j]? = some w ∧ ∀ σ, denN d'.m.tbl w σ = denN d.m.tbl w σ

theorem Pres.refl (d : AMgr) : Pres d d := fun _ _ h => ⟨h, fun _ => rfl⟩

theorem Pres.trans {a b c : AMgr} (h1 : Pres a b) (h2 : Pres b c) : Pres a c := fun j w hj =>
  let ⟨l1, d1⟩ := h1 j w hj
  let ⟨l2, d2⟩ := h2 j w l1
  ⟨l2, fun σ => (d2 σ).trans (d1 σ)⟩

theorem DStep.pres {d d' : AMgr} {t : Nat} {r : Int} (h : DStep off d t r d')
    (hn : d.handles[t]? = none) : Pres d d' := fun j w hj => by
  have hne : j ≠ t := fun e => by rw [e, hn] at hj; cases hj
  exact ⟨by rw [h.same j hne]; exact hj, (h.den j w hj).2⟩

theorem XCacheOK.pres {S : Tbl} {d d' : AMgr} {c : List (Nat × Nat)} (h : XCacheOK S d c)
    (hp : Pres d d') : XCacheOK S d' c := fun p hpm => by
  obtain ⟨r, hl, hd⟩ := h p hpm
  obtain ⟨l2, d2⟩ := hp p.2 r hl
  exact ⟨r, l2, fun σ => (d2 σ).trans (hd σ)⟩

/-- the death of `t` keeps every other `Function` and its meaning (the table is not touched) -/
theorem dropQ_any (a : AMgr) (hi : AInv off a) (t : Nat) :
    AInv off (dropQ t a).2 ∧ (dropQ t a).2.m.tbl = a.m.tbl ∧
    ∀ j : Nat, j ≠ t → (dropQ t a).2.handles[j]? = a.handles[j]? := by
  cases hl : a.handles[t]? with
  | none =>
    have : (dropQ t a).2 = a := by
      show (drop t a).2 = a
      unfold drop; rw [hl]
    rw [this]
    exact ⟨hi, rfl, fun _ _ => rfl⟩
  | some w =>
    obtain ⟨i, tb, _, s⟩ := dropQ_live a hi t w hl
    exact ⟨i, tb, s⟩

theorem dropQ_pres (a : AMgr) (hi : AInv off a) (t : Nat) (j : Nat) (w : Int) (hj : a.handles[j]? = some w)
    (hne : j ≠ t) :
    (dropQ t a).2.handles[j]? = some w ∧ ∀ σ, denN (dropQ t a).2.m.tbl w σ = denN a.m.tbl w σ := by
  obtain ⟨_, tb, s⟩ := dropQ_any a hi t
  exact ⟨by rw [s j hne]; exact hj, fun σ => by rw [tb]⟩

/-- what a call of `_copy_bdd` on the source `Function` `hu ↦ u` establishes -/
structure XPost (S : Tbl) (u : Int) (st st' : XSt) (t : Nat) (ow : Bool) : Prop where
  /-- the answer is a live `Function` of the target that denotes `u` by name -/
  res : ∃ r, st'.dst.handles[t]? = some r ∧ ∀ σ, denN st'.dst.m.tbl r σ = denN S u σ
  /-- a new object was not there when the call started, and is not in the memo -/
  new : ow = true → st.dst.handles[t]? = none
  notCache : ow = true → ∀ p ∈ st'.cache, p.2 ≠ t
  /-- the `Function`s of the source are back -/
  srcSame : ∀ j : Nat, st'.src.handles[j]? = st.src.handles[j]?
  /-- every `Function` of the target that was alive is, with its meaning -/
  frame : Pres st.dst st'.dst
  cacheMono : ∀ p ∈ st.cache, p ∈ st'.cache
  cacheNew : ∀ p ∈ st'.cache, p ∈ st.cache ∨ st.dst.handles[p.2]? = none

/-- every variable of a node reachable from `u` in the source is declared in the target -/
def XDecl (S : Tbl) (u : Int) (T : Tbl) : Prop :=
  ∀ (v : Nat) (n : Nd), Reach S u.natAbs v → S.succ[v]? = some n →
    T.vars.contains (S.nameOf n.lvl) = true

/-- a constant root -/
theorem xTerm_value {offS : Bool} {S T0 : Tbl} (st : XSt) (hx : XI offS off S T0 st) (b : Bool) :
    ∃ t st', xTerm b st = (.ok (t, true), st') ∧ XI offS off S T0 st' ∧
      XPost S (if b then 1 else -1) st st' t true := by
  obtain ⟨t, hf, hn⟩ := freshH_spec st.dst
  obtain ⟨d', he, hs, htb⟩ := dst_const st.dst hx.dinv hx.two b t hn
  have hp := hs.pres hn
  refine ⟨t, { st with dst := d' }, ?_, ⟨hx.sinv, hx.stbl, hs.inv, hs.two,
    fun s => (hs.names s).trans (hx.names s), hx.cache.pres hp⟩,
    ⟨⟨_, hs.at_t, fun σ => ?_⟩, fun _ => hn, fun _ p hp' e => ?_, fun _ => rfl, hp,
      fun _ h => h, fun _ h => Or.inl h⟩⟩
  · unfold xTerm
    rw [XM.bind_ok (newDst_eval st _ t _ d' hf he)]
    rfl
  · cases b
    · exact (den_neg_one _ _).trans (den_neg_one _ _).symm
    · exact (den_one _ _).trans (den_one _ _).symm
  · obtain ⟨r, hl, _⟩ := hx.cache p hp'
    rw [e, hn] at hl; cases hl

/-- `_flip(r, u)` for the memo's `Function` `c ↦ rc` of the unsigned node of `u` -/
theorem xFlip_value {offS : Bool} {S T0 : Tbl} (st : XSt) (hx : XI offS off S T0 st) (hS : WF S)
    (c : Nat) (rc : Int) (u : Int) (hmem : S.Mem u) (hl : st.dst.handles[c]? = some rc)
    (hd : ∀ σ, denN st.dst.m.tbl rc σ = denN S (u.natAbs : Int) σ) :
    ∃ t ow d', xFlip c (decide (u < 0)) st = (.ok (t, ow), { st with dst := d' }) ∧
      XI offS off S T0 { st with dst := d' } ∧
      (∃ r, d'.handles[t]? = some r ∧ ∀ σ, denN d'.m.tbl r σ = denN S u σ) ∧
      (ow = true → st.dst.handles[t]? = none) ∧ (ow = false → t = c) ∧ Pres st.dst d' := by
  by_cases hneg : u < 0
  · obtain ⟨t, hf, hn⟩ := freshH_spec st.dst
    obtain ⟨d', he, hs, htb⟩ := dst_not st.dst hx.dinv hx.two c rc hl t hn
    have hp := hs.pres hn
    refine ⟨t, true, d', ?_, ⟨hx.sinv, hx.stbl, hs.inv, hs.two,
      fun s => (hs.names s).trans (hx.names s), hx.cache.pres hp⟩,
      ⟨-rc, hs.at_t, fun σ => ?_⟩, fun _ => hn, fun h => (by cases h), hp⟩
    · unfold xFlip
      simp only [hneg, decide_true, if_true]
      rw [XM.bind_ok (newDst_eval st _ t _ d' hf he)]
      rfl
    · have hu : u = -((u.natAbs : Nat) : Int) := by omega
      have hmk : S.Mem (u.natAbs : Int) := mem_natAbs hmem
      have h1 : denN d'.m.tbl (-rc) σ = !denN st.dst.m.tbl rc σ := by
        rw [htb]
        exact den_neg st.dst.m.tbl hx.dinv.inv.wf.toWF rc _ (hx.dinv.hmem c rc hl)
      have h2 : denN S u σ = !denN S (u.natAbs : Int) σ := by
        conv => lhs; rw [hu]
        exact den_neg S hS _ _ hmk
      rw [h1, h2, hd σ]
  · refine ⟨c, false, st.dst, ?_, hx, ⟨rc, hl, fun σ => ?_⟩, fun h => (by cases h), fun _ => rfl,
      Pres.refl _⟩
    · unfold xFlip
      simp only [hneg, decide_false, Bool.false_eq_true, if_false]
      rfl
    · have hu : (u.natAbs : Int) = u := by omega
      rw [hd σ, hu]

theorem xDropIf_eval (b : Bool) (t : Nat) (st : XSt) :
    xDropIf b t st = (.ok (), { st with dst := if b then (dropQ t st.dst).2 else st.dst }) := by
  unfold xDropIf
  cases b <;> rfl

/-- the source after `z` (if any) died -/
def undoOpt (o : Option Nat) (s : AMgr) : AMgr :=
  match o with
  | none => s
  | some z => (dropQ z s).2

theorem xDropOpt_eval (o : Option Nat) (st : XSt) :
    xDropOpt o st = (.ok (), { st with src := undoOpt o st.src }) := by
  cases o <;> rfl

/-! ### the temporaries of the source: created, and undone -/

/-- dropping the temporary `z` (created on a state where it was not in use) from any later state
with the same `Function`s gives back the `Function`s of before -/
theorem undo_temp {offS : Bool} {s0 s1 : AMgr} {z : Nat}
    (hn : s0.handles[z]? = none) (hsame : ∀ j : Nat, j ≠ z → s1.handles[j]? = s0.handles[j]?)
    (s' : AMgr) (hi : AInv offS s') (he : ∀ j : Nat, s'.handles[j]? = s1.handles[j]?) :
    AInv offS (dropQ z s').2 ∧ (dropQ z s').2.m.tbl = s'.m.tbl ∧
    ∀ j : Nat, (dropQ z s').2.handles[j]? = s0.handles[j]? := by
  obtain ⟨i, tb, sm⟩ := dropQ_any s' hi z
  refine ⟨i, tb, fun j => ?_⟩
  by_cases hj : j = z
  · subst hj
    rw [hn]
    cases hl : s'.handles[j]? with
    | none =>
      have : (dropQ j s').2 = s' := by
        show (drop j s').2 = s'
        unfold drop; rw [hl]
      rw [this]; exact hl
    | some w => exact (dropQ_live s' hi j w hl).2.2.1
  · rw [sm j hj, he j, hsame j hj]

/-- `z = _flip(u, u)` and how it is undone -/
theorem xZ_value {offS : Bool} (st : XSt) (hi : AInv offS st.src) (hu : Nat) (u : Int)
    (hl : st.src.handles[hu]? = some u) :
    ∃ hz s1, xZ hu (decide (u < 0)) st = (.ok hz, { st with src := s1 }) ∧ AInv offS s1 ∧
      s1.m.tbl = st.src.m.tbl ∧ s1.handles[hu]? = some u ∧
      ∀ s' : AMgr, AInv offS s' → (∀ j : Nat, s'.handles[j]? = s1.handles[j]?) →
        AInv offS (undoOpt hz s') ∧ (undoOpt hz s').m.tbl = s'.m.tbl ∧
        ∀ j : Nat, (undoOpt hz s').handles[j]? = st.src.handles[j]? := by
  by_cases hneg : u < 0
  · obtain ⟨z, s1, he, hn, i1, tb, _, hsame⟩ := newSrc_not st hi hu u hl
    have hne : hu ≠ z := ne_of_some_none hl hn
    refine ⟨some z, s1, ?_, i1, tb, by rw [hsame hu hne]; exact hl, fun s' hi' he' => ?_⟩
    · unfold xZ
      simp only [hneg, decide_true, if_true]
      rw [XM.bind_ok he]
      rfl
    · exact undo_temp hn hsame s' hi' he'
  · refine ⟨none, st.src, ?_, hi, rfl, hl, fun s' hi' he' => ⟨hi', rfl, he'⟩⟩
    unfold xZ
    simp only [hneg, decide_false, Bool.false_eq_true, if_false]
    rfl

/-- `u.low` / `u.high` and how it is undone -/
theorem xChild_value {offS : Bool} (st : XSt) (hi : AInv offS st.src) (high : Bool) (hu : Nat)
    (u : Int) (n : Nd) (hl : st.src.handles[hu]? = some u) (h1 : u.natAbs ≠ 1)
    (hn : st.src.m.tbl.succ[u.natAbs]? = some n) :
    ∃ z s1, xChild high hu st = (.ok z, { st with src := s1 }) ∧ AInv offS s1 ∧
      s1.m.tbl = st.src.m.tbl ∧ s1.handles[z]? = some (if high then n.hi else n.lo) ∧
      ∀ s' : AMgr, AInv offS s' → (∀ j : Nat, s'.handles[j]? = s1.handles[j]?) →
        AInv offS (dropQ z s').2 ∧ (dropQ z s').2.m.tbl = s'.m.tbl ∧
        ∀ j : Nat, (dropQ z s').2.handles[j]? = st.src.handles[j]? := by
  obtain ⟨z, s1, he, hnn, i1, tb, hz, hsame⟩ := newSrc_child st hi high hu u n hl h1 hn
  exact ⟨z, s1, he, i1, tb, hz, fun s' hi' he' => undo_temp hnn hsame s' hi' he'⟩

/-! ### the recursion -/

theorem Two.of_tbl' {a b : AMgr} (h : Two off a) (ht : b.m.tbl = a.m.tbl) : Two off b := h.of_tbl ht

/-- `_copy_bdd(u, bdd, cache)` over autoref RETURNS a live `Function` of the target that denotes
`u` by name — target in either mode, the reordering firing wherever it may -/
theorem xcF_value {offS : Bool} {S T0 : Tbl} (hS : WF S) (hO : OrderOK S) :
    ∀ (fu hu : Nat) (st : XSt) (u : Int), XI offS off S T0 st → st.src.handles[hu]? = some u →
      S.nvars + 1 ≤ fu + S.levelOf u → XDecl S u T0 →
      ∃ t ow st', xcF fu hu st = (.ok (t, ow), st') ∧ XI offS off S T0 st' ∧ XPost S u st st' t ow
  | 0, hu, st, u, _, _, hfu, _ => by
    have := levelOf_le S hS u
    omega
  | fu+1, hu, st, u, hx, hl, hfu, hdecl => by
    have hmu : S.Mem u := by
      have := hx.sinv.hmem hu u hl
      rw [hx.stbl] at this; exact this
    have h0 : XM.onSrc (nodeOwn hu) st = (.ok u, st) := by
      unfold XM.onSrc; rw [nodeOwn_eval hl]
    unfold xcF
    rw [XM.bind_ok h0]
    by_cases h1 : u = 1
    · rw [if_pos h1]
      obtain ⟨t, st', he, hx', hp⟩ := xTerm_value st hx true
      subst h1
      exact ⟨t, true, st', he, hx', hp⟩
    rw [if_neg h1]
    by_cases hm1 : u = -1
    · rw [if_pos hm1]
      obtain ⟨t, st', he, hx', hp⟩ := xTerm_value st hx false
      subst hm1
      exact ⟨t, true, st', he, hx', hp⟩
    rw [if_neg hm1]
    have hnt : u.natAbs ≠ 1 := by omega
    obtain ⟨n, hn⟩ := node_of_mem hmu hnt
    -- z
    obtain ⟨hz, s1, hzE, i1, tb1, hl1, undoZ⟩ := xZ_value st hx.sinv hu u hl
    rw [XM.bind_ok hzE, XM.bind_ok (show XM.get { st with src := s1 } = (.ok _, _) from rfl)]
    have hx1 : XI offS off S T0 { st with src := s1 } :=
      ⟨i1, tb1.trans hx.stbl, hx.dinv, hx.two, hx.names, hx.cache⟩
    cases hlk : st.cache.lookup u.natAbs with
    | some c =>
      -- memoized
      simp only [hlk]
      have hmemc : (u.natAbs, c) ∈ st.cache := lookup_some_mem _ _ _ hlk
      obtain ⟨rc, hlc, hdc⟩ := hx.cache _ hmemc
      obtain ⟨t, ow, d', hfE, hx2, hres, hnew, _, hpres⟩ :=
        xFlip_value { st with src := s1 } hx1 hS c rc u hmu hlc hdc
      rw [XM.bind_ok hfE, XM.bind_ok (xDropOpt_eval hz _)]
      obtain ⟨iF, tbF, sF⟩ := undoZ s1 i1 (fun _ => rfl)
      refine ⟨t, ow, _, rfl, ⟨iF, tbF.trans (tb1.trans hx.stbl), hx2.dinv, hx2.two, hx2.names,
        hx2.cache⟩, ⟨hres, hnew, fun how p hp e => ?_, sF, hpres, fun _ h => h, fun _ h => Or.inl h⟩⟩
      obtain ⟨r, hlp, _⟩ := hx.cache p hp
      rw [e, hnew how] at hlp; cases hlp
    | none =>
      simp only [hlk]
      -- the two children of the node, in the source
      have hnS1 : s1.m.tbl.succ[u.natAbs]? = some n := by rw [tb1, hx.stbl]; exact hn
      have hlvl : S.levelOf u = n.lvl := levelOf_node S u n hnt hn
      -- low
      obtain ⟨hl', s2, hcE, i2, tb2, hl2, undoL⟩ :=
        xChild_value { st with src := s1 } i1 false hu u n hl1 hnt hnS1
      rw [XM.bind_ok hcE]
      have hx2 : XI offS off S T0 { st with src := s2 } :=
        ⟨i2, tb2.trans (tb1.trans hx.stbl), hx.dinv, hx.two, hx.names, hx.cache⟩
      have hdeclL : XDecl S n.lo T0 := fun v nv hr hv => hdecl v nv (.lo hn hr) hv
      have hfuL : S.nvars + 1 ≤ fu + S.levelOf n.lo := by
        have := hS.lo_lt _ _ hn
        omega
      obtain ⟨tl, owl, st3, hE3, hx3, hp3⟩ :=
        xcF_value hS hO fu hl' { st with src := s2 } n.lo hx2 (by simpa using hl2) hfuL hdeclL
      rw [XM.bind_ok hE3]
      obtain ⟨i4, tb4, s4⟩ := undoL st3.src hx3.sinv hp3.srcSame
      rw [XM.bind_ok (show XM.onSrc (dropQ hl') st3 =
        (.ok (), { st3 with src := (dropQ hl' st3.src).2 }) from rfl)]
      -- high
      have hl4 : (dropQ hl' st3.src).2.handles[hu]? = some u := by rw [s4 hu]; exact hl1
      have hn4 : (dropQ hl' st3.src).2.m.tbl.succ[u.natAbs]? = some n := by
        rw [tb4, hx3.stbl]; exact hn
      obtain ⟨hh', s5, hcE5, i5, tb5, hl5, undoH⟩ :=
        xChild_value { st3 with src := (dropQ hl' st3.src).2 } i4 true hu u n hl4 hnt hn4
      rw [XM.bind_ok hcE5]
      have hx5 : XI offS off S T0 { st3 with src := s5 } :=
        ⟨i5, tb5.trans (tb4.trans hx3.stbl), hx3.dinv, hx3.two, hx3.names, hx3.cache⟩
      have hdeclH : XDecl S n.hi T0 := fun v nv hr hv => hdecl v nv (.hi hn hr) hv
      have hfuH : S.nvars + 1 ≤ fu + S.levelOf n.hi := by
        have := hS.hi_lt _ _ hn
        omega
      obtain ⟨th, owh, st6, hE6, hx6, hp6⟩ :=
        xcF_value hS hO fu hh' { st3 with src := s5 } n.hi hx5 (by simpa using hl5) hfuH hdeclH
      rw [XM.bind_ok hE6]
      obtain ⟨i7, tb7, s7⟩ := undoH st6.src hx6.sinv hp6.srcSame
      rw [XM.bind_ok (show XM.onSrc (dropQ hh') st6 =
        (.ok (), { st6 with src := (dropQ hh' st6.src).2 }) from rfl)]
      -- `u.var`
      have hl7 : (dropQ hh' st6.src).2.handles[hu]? = some u := by rw [s7 hu, s4 hu]; exact hl1
      have tbS7 : (dropQ hh' st6.src).2.m.tbl = S := tb7.trans hx6.stbl
      have hn7 : (dropQ hh' st6.src).2.m.tbl.succ[u.natAbs]? = some n := by rw [tbS7]; exact hn
      have hvE := fVar_eval (dropQ hh' st6.src).2 i7 hu u n hl7 hnt hn7
      rw [tbS7] at hvE
      rw [XM.bind_ok (show XM.onSrc (fVar hu) { st6 with src := (dropQ hh' st6.src).2 } =
        (.ok (some (S.nameOf n.lvl)), { st6 with src := (dropQ hh' st6.src).2 }) from by
          unfold XM.onSrc; rw [hvE])]
      simp only
      rw [XM.bind_ok (show XM.logSrc { st6 with src := (dropQ hh' st6.src).2 } = (.ok (), _) from rfl)]
      -- g = bdd.var(u.var)
      have hdn : st6.dst.m.tbl.vars.contains (S.nameOf n.lvl) = true := by
        rw [hx6.names]; exact hdecl u.natAbs n (.refl _) hn
      obtain ⟨g, hfg, hng⟩ := freshH_spec st6.dst
      obtain ⟨rg, d9, hEg, hsg, hdg⟩ := aVar_step st6.dst hx6.dinv hx6.two (S.nameOf n.lvl) g
        (contains_false_of_none hng) hdn
      dsimp only
      rw [XM.bind_ok (newDst_eval' st6.dst _ g rg d9 hfg hEg)]
      have p69 : Pres st6.dst d9 := hsg.pres hng
      -- the two results are still alive in `d9`
      obtain ⟨rl, hll3, hdl3⟩ := hp3.res
      obtain ⟨rh, hlh6, hdh6⟩ := hp6.res
      obtain ⟨hll6, hdl6⟩ := hp6.frame tl rl hll3
      obtain ⟨hll9, hdl9⟩ := p69 tl rl hll6
      obtain ⟨hlh9, hdh9⟩ := p69 th rh hlh6
      -- r = bdd.ite(g, high, low)
      obtain ⟨r, hfr, hnr⟩ := freshH_spec d9
      obtain ⟨rr, d10, hEr, hsr, hdr⟩ := aIte_step d9 hsg.inv hsg.two g th tl r
        (contains_false_of_none hnr) rg rh rl hsg.at_t hlh9 hll9
      rw [XM.bind_ok (newDst_eval' d9 _ r rr d10 hfr hEr)]
      have p910 : Pres d9 d10 := hsr.pres hnr
      rw [XM.bind_ok (show XM.memo u.natAbs r _ = (.ok (), _) from rfl)]
      -- what `r` denotes: the unsigned node
      have hden_r : ∀ σ, denN d10.m.tbl rr σ = denN S (u.natAbs : Int) σ := by
        intro σ
        have hk1 : ((u.natAbs : Nat) : Int).natAbs ≠ 1 := by simpa using hnt
        have hkn : S.succ[((u.natAbs : Nat) : Int).natAbs]? = some n := by simpa using hn
        have hsh := (C18_expand_spec S hS (u.natAbs : Int) n hk1 hkn).2.1 σ
        have hpos : decide (((u.natAbs : Nat) : Int) < 0) = false := by
          simp
        rw [hsh, hpos, Bool.false_xor, hdr.2 σ, hdg.2 σ, hdh9 σ, hdh6 σ, hdl9 σ, hdl6 σ, hdl3 σ]
      -- the state after the memo
      have hx11 : XI offS off S T0 (⟨(dropQ hh' st6.src).2, d10, (u.natAbs, r) :: st6.cache,
          st6.log ++ [(dropQ hh' st6.src).2.m.ref.toList]⟩ : XSt) := by
        refine ⟨i7, tbS7, hsr.inv, hsr.two, fun s => ((hsr.names s).trans (hsg.names s)).trans (hx6.names s), ?_⟩
        intro p hp
        rcases List.mem_cons.mp hp with rfl | hp
        · exact ⟨rr, hsr.at_t, hden_r⟩
        · exact (hx6.cache.pres (p69.trans p910)) p hp
      obtain ⟨t, ow, d12, hfE, hx12, hres, hnew, hold, p1012⟩ :=
        xFlip_value _ hx11 hS r rr u hmu hsr.at_t hden_r
      rw [XM.bind_ok hfE, XM.bind_ok (xDropOpt_eval hz _), XM.bind_ok (xDropIf_eval owl tl _),
        XM.bind_ok (xDropIf_eval owh th _),
        XM.bind_ok (show XM.onDst (dropQ g) _ = (.ok (), _) from rfl)]
      -- the source is back
      obtain ⟨iF, tbF, sF⟩ := undoZ (dropQ hh' st6.src).2 i7 (fun j => by rw [s7 j, s4 j])
      -- the three deaths in the target
      let dA : AMgr := if owl then (dropQ tl d12).2 else d12
      let dB : AMgr := if owh then (dropQ th dA).2 else dA
      have hA : AInv off dA ∧ dA.m.tbl = d12.m.tbl ∧
          ∀ j : Nat, (owl = true → j ≠ tl) → dA.handles[j]? = d12.handles[j]? := by
        cases owl with
        | false => exact ⟨hx12.dinv, rfl, fun _ _ => rfl⟩
        | true =>
          obtain ⟨i, tb, sm⟩ := dropQ_any d12 hx12.dinv tl
          exact ⟨i, tb, fun j hj => sm j (hj rfl)⟩
      have hB : AInv off dB ∧ dB.m.tbl = dA.m.tbl ∧
          ∀ j : Nat, (owh = true → j ≠ th) → dB.handles[j]? = dA.handles[j]? := by
        cases owh with
        | false => exact ⟨hA.1, rfl, fun _ _ => rfl⟩
        | true =>
          obtain ⟨i, tb, sm⟩ := dropQ_any dA hA.1 th
          exact ⟨i, tb, fun j hj => sm j (hj rfl)⟩
      obtain ⟨iC, tbC, smC⟩ := dropQ_any dB hB.1 g
      have tbAll : (dropQ g dB).2.m.tbl = d12.m.tbl := tbC.trans (hB.2.1.trans hA.2.1)
      -- a `Function` of `d12` other than the three survives, with its meaning
      have survive : ∀ (j : Nat) (w : Int), d12.handles[j]? = some w → (owl = true → j ≠ tl) →
          (owh = true → j ≠ th) → j ≠ g →
          (dropQ g dB).2.handles[j]? = some w ∧
            ∀ σ, denN (dropQ g dB).2.m.tbl w σ = denN d12.m.tbl w σ := by
        intro j w hj h1' h2' h3'
        refine ⟨?_, fun σ => by rw [tbAll]⟩
        rw [smC j h3', hB.2.2 j h2', hA.2.2 j h1']; exact hj
      -- liveness facts in `d10` (and `d12`)
      have pst3 : Pres st.dst st3.dst := hp3.frame
      have pst6 : Pres st.dst st6.dst := pst3.trans hp6.frame
      have pst10 : Pres st.dst d10 := (pst6.trans p69).trans p910
      have hll10 := (p910 tl rl hll9).1
      have hlh10 := (p910 th rh hlh9).1
      have hlg10 := (p910 g rg hsg.at_t).1
      have hr_ne_g : r ≠ g := fun e => by rw [e, hsg.at_t] at hnr; cases hnr
      have hr_ne_tl : r ≠ tl := fun e => by rw [e, hll9] at hnr; cases hnr
      have hr_ne_th : r ≠ th := fun e => by rw [e, hlh9] at hnr; cases hnr
      -- the answer is none of the three
      have ht_ne : (owl = true → t ≠ tl) ∧ (owh = true → t ≠ th) ∧ t ≠ g := by
        cases how : ow with
        | true =>
          have hnt10 := hnew how
          refine ⟨fun _ e => ?_, fun _ e => ?_, fun e => ?_⟩
          · rw [e, hll10] at hnt10; cases hnt10
          · rw [e, hlh10] at hnt10; cases hnt10
          · rw [e, hlg10] at hnt10; cases hnt10
        | false =>
          have := hold how
          subst this
          exact ⟨fun _ => hr_ne_tl, fun _ => hr_ne_th, hr_ne_g⟩
      -- an entry of the memo is none of the three
      have hcache_ne : ∀ p ∈ (u.natAbs, r) :: st6.cache,
          (owl = true → p.2 ≠ tl) ∧ (owh = true → p.2 ≠ th) ∧ p.2 ≠ g := by
        intro p hp
        rcases List.mem_cons.mp hp with rfl | hp
        · exact ⟨fun _ => hr_ne_tl, fun _ => hr_ne_th, hr_ne_g⟩
        · obtain ⟨rp, hlp, _⟩ := hx6.cache p hp
          refine ⟨fun how e => ?_, fun how => hp6.notCache how p hp, fun e => ?_⟩
          · rcases hp6.cacheNew p hp with h3 | h3
            · exact hp3.notCache how p h3 e
            · rw [e, hll3] at h3; cases h3
          · rw [e, hng] at hlp; cases hlp
      obtain ⟨rt, hlt12, hdt12⟩ := hres
      refine ⟨t, ow, ⟨undoOpt hz (dropQ hh' st6.src).2, (dropQ g dB).2, (u.natAbs, r) :: st6.cache,
          st6.log ++ [(dropQ hh' st6.src).2.m.ref.toList]⟩, rfl, ⟨iF, tbF.trans tbS7, iC,
        hx12.two.of_tbl tbAll,
        fun s => (congrArg (fun tb : Tbl => tb.vars.contains s) tbAll).trans (hx12.names s),
        fun p hp => ?_⟩,
        ⟨?_, fun how => ?_, fun how p hp e => ?_, sF, fun j w hj => ?_, fun p hp => ?_, fun p hp => ?_⟩⟩
      · -- the memo is valid in the final target
        obtain ⟨rp, hlp, hdp⟩ := hx12.cache p hp
        obtain ⟨c1, c2, c3⟩ := hcache_ne p hp
        obtain ⟨l, dd⟩ := survive p.2 rp hlp c1 c2 c3
        exact ⟨rp, l, fun σ => (dd σ).trans (hdp σ)⟩
      · -- the answer
        obtain ⟨l, dd⟩ := survive t rt hlt12 ht_ne.1 ht_ne.2.1 ht_ne.2.2
        exact ⟨rt, l, fun σ => (dd σ).trans (hdt12 σ)⟩
      · -- new
        have hnt10 := hnew how
        cases hst : st.dst.handles[t]? with
        | none => rfl
        | some w => rw [(pst10 t w hst).1] at hnt10; cases hnt10
      · -- not in the memo
        obtain ⟨rp, hlp, _⟩ := hx11.cache p hp
        have hnt10 := hnew how
        rw [e, hnt10] at hlp; cases hlp
      · -- frame
        obtain ⟨l12, d12'⟩ := (pst10.trans p1012) j w hj
        have c1 : owl = true → j ≠ tl := fun how e => by
          have := hp3.new how
          rw [← e] at this
          rw [this] at hj; cases hj
        have c2 : owh = true → j ≠ th := fun how e => by
          have := hp6.new how
          rw [← e, (pst3 j w hj).1] at this; cases this
        have c3 : j ≠ g := fun e => by
          have := (pst6 j w hj).1
          rw [e, hng] at this; cases this
        obtain ⟨l, dd⟩ := survive j w l12 c1 c2 c3
        exact ⟨l, fun σ => (dd σ).trans (d12' σ)⟩
      · exact List.mem_cons_of_mem _ (hp6.cacheMono p (hp3.cacheMono p hp))
      · rcases List.mem_cons.mp hp with rfl | hp
        · right
          cases hst : st.dst.handles[r]? with
          | none => rfl
          | some w =>
            have := ((pst6.trans p69) r w hst).1
            rw [hnr] at this; cases this
        · rcases hp6.cacheNew p hp with h3 | h3
          · rcases hp3.cacheNew p h3 with h2 | h2
            · exact Or.inl h2
            · exact Or.inr h2
          · right
            cases hst : st.dst.handles[p.2]? with
            | none => rfl
            | some w => rw [(pst3 p.2 w hst).1] at h3; cases h3

/-! ### the whole call -/

/-- the usual hypothesis of a copy (`CopyPre`: every variable of the support of `u` is declared in
the target) gives the hypothesis of the recursion -/
theorem xdecl_of_copyPre {S T : Tbl} (hw : WF S) (hO : OrderOK S) (u : Int) (h : CopyPre S u T) :
    XDecl S u T := by
  intro v n hr hn
  have hin := inSupp_of_reach hw hr n hn u rfl
  obtain ⟨x, hx⟩ := hO.total n.lvl (hw.lvl_lt _ _ hn)
  have : S.nameOf n.lvl = x := by unfold Tbl.nameOf; rw [hx]; rfl
  rw [this]
  exact h n.lvl x hin hx

/-- `dd._copy.copy_bdd(u, target)` over `dd.autoref`, the target in EITHER mode (in the mode
`off = false` with at least two variables, dynamic reordering possibly enabled and firing inside
any `target.var` / `target.ite` of the recursion): when `u` is a live `Function` of the source and
every variable of a node reachable from it is declared in the target, the call RETURNS `r`, the
new `Function` `h` sits on `r`, and `r` denotes in the target — by variable NAME — the function of
`u` in the source -/
theorem aXCopyRun_value {offS : Bool} (src dst : AMgr) (hs : AInv offS src) (hd : AInv off dst)
    (h2 : Two off dst) (hu h : Nat) (hf : dst.handles.contains h = false) (u : Int)
    (hl : src.handles[hu]? = some u) (hdecl : XDecl src.m.tbl u dst.m.tbl) :
    ∃ r, (aXCopyRun src dst hu h).1 = .ok r ∧
      (aXCopyRun src dst hu h).2.dst.handles[h]? = some r ∧
      ∀ σ, denN (aXCopyRun src dst hu h).2.dst.m.tbl r σ = denN src.m.tbl u σ := by
  have hS := hs.inv.wf.toWF
  have hx0 : XI offS off src.m.tbl dst.m.tbl { src := src, dst := dst } :=
    ⟨hs, rfl, hd, h2, fun _ => rfl, fun _ hp => by cases hp⟩
  have hfu : src.m.tbl.nvars + 1 ≤ (src.m.nvars + 2) + src.m.tbl.levelOf u := by
    show src.m.tbl.nvars + 1 ≤ (src.m.tbl.nvars + 2) + _
    omega
  obtain ⟨t, ow, st', hE, hx', hp⟩ :=
    xcF_value hS hs.order (src.m.nvars + 2) hu { src := src, dst := dst } u hx0 hl hfu hdecl
  obtain ⟨r, hlr, hdr⟩ := hp.res
  -- the run, with the facts of the every-outcome theorem
  have hxr0 : XR offS off src dst { src := src, dst := dst } := ⟨.refl _, .refl _, rfl⟩
  obtain ⟨hxr, _⟩ := xcF_keeps hs hd (src.m.nvars + 2) hu _ hxr0 _ st' hE
  obtain ⟨rd, hdh, _, _, _, _⟩ := xCleanup_spec hs hd st' hxr
  obtain ⟨ic, _, _⟩ := reach_live hd rd
  have htbc : (xCleanup src dst st').dst.m.tbl = st'.dst.m.tbl := dropKeys_tbl _ _
  have hmr : (xCleanup src dst st').dst.m.tbl.Mem r := by
    rw [htbc]; exact hx'.dinv.hmem t r hlr
  have hfree : (xCleanup src dst st').dst.handles.contains h = false := by
    rw [TreeMap.contains_eq_isSome_getElem?, hdh h, ← TreeMap.contains_eq_isSome_getElem?]
    exact hf
  obtain ⟨d', hw, _, htb, hh, _⟩ := wrapF_spec (xCleanup src dst st').dst h r ic hfree hmr
  have hrun : aXCopyRun src dst hu h = (.ok r, { xCleanup src dst st' with dst := d' }) := by
    unfold aXCopyRun
    rw [hE]
    simp only [hlr, hw]
  rw [hrun]
  refine ⟨r, rfl, by show d'.handles[h]? = some r; rw [hh]; exact TreeMap.getElem?_insert_self,
    fun σ => ?_⟩
  show denN d'.m.tbl r σ = _
  rw [htb, htbc]
  exact hdr σ

end DD
