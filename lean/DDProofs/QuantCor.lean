/-
  DDProofs.QuantCor — corollaries of the specification of `quantify`: independence from the
  quantified levels, the no-op cases (via canonicity), and the quantifier rows of `apply`
  (read from the regenerated table).
-/
import DDProofs.LetCopy
open Std

namespace DD

theorem agreeOff_upd_right {Q : List Nat} {b a : Asg} {j : Nat} (hj : j ∈ Q) (x : Bool) :
    AgreeOff Q b (upd a j x) ↔ AgreeOff Q b a := by
  constructor
  · intro h i hi
    have hne : i ≠ j := by intro he; subst he; exact hi hj
    have := h i hi
    rwa [upd_other _ _ _ _ hne] at this
  · intro h i hi
    have hne : i ≠ j := by intro he; subst he; exact hi hj
    rw [upd_other _ _ _ _ hne]
    exact h i hi

/-- the quantified function does not depend on a quantified level -/
theorem qsem_indep (fa : Bool) (Q : List Nat) (f : Asg → Bool) (a : Asg) (j : Nat) (hj : j ∈ Q)
    (x : Bool) : qsem fa Q f (upd a j x) ↔ qsem fa Q f a := by
  cases fa with
  | true =>
    simp only [qsem]
    constructor
    · intro h b hb; exact h b ((agreeOff_upd_right hj x).mpr hb)
    · intro h b hb; exact h b ((agreeOff_upd_right hj x).mp hb)
  | false =>
    simp only [qsem]
    constructor
    · rintro ⟨b, hb, hf⟩; exact ⟨b, (agreeOff_upd_right hj x).mp hb, hf⟩
    · rintro ⟨b, hb, hf⟩; exact ⟨b, (agreeOff_upd_right hj x).mpr hb, hf⟩

/-- quantification only looks at which levels are in `Q` -/
theorem qsem_congr (fa : Bool) (Q Q' : List Nat) (h : ∀ j, j ∈ Q ↔ j ∈ Q') (f : Asg → Bool)
    (a : Asg) : qsem fa Q f a ↔ qsem fa Q' f a := by
  have hA : ∀ b, AgreeOff Q b a ↔ AgreeOff Q' b a := by
    intro b
    constructor
    · intro hb j hj; exact hb j (fun hq => hj ((h j).mp hq))
    · intro hb j hj; exact hb j (fun hq => hj ((h j).mpr hq))
  cases fa with
  | true =>
    simp only [qsem]
    constructor
    · intro hq b hb; exact hq b ((hA b).mpr hb)
    · intro hq b hb; exact hq b ((hA b).mp hb)
  | false =>
    simp only [qsem]
    constructor
    · rintro ⟨b, hb, hf⟩; exact ⟨b, (hA b).mp hb, hf⟩
    · rintro ⟨b, hb, hf⟩; exact ⟨b, (hA b).mpr hb, hf⟩

theorem bool_eq_of_iff {x y : Bool} (h : x = true ↔ y = true) : x = y := by
  cases x <;> cases y <;> simp_all

/-- the result of `quantify` does not depend on any quantified level -/
theorem quantify_indep (fa : Bool) (Q : List Nat) (f : Asg → Bool) (t : Tbl) (r : Int)
    (hr : ∀ a, den t r a = true ↔ qsem fa Q f a) (j : Nat) (hj : j ∈ Q) (a : Asg) (x : Bool) :
    den t r (upd a j x) = den t r a :=
  bool_eq_of_iff (by rw [hr, hr]; exact qsem_indep fa Q f a j hj x)

/-- quantifying over levels outside the support (in particular over no level) returns the
operand itself -/
theorem quantify_noop (fa : Bool) (Q : List Nat) (m t : Tbl) (hwm : WF m) (hwt : WFU t)
    (he : Ext m t) (u r : Int) (hu : m.Mem u) (hrm : t.Mem r)
    (hr : ∀ a, den t r a = true ↔ qsem fa Q (den m u) a)
    (hdisj : ∀ j, j ∈ Q → ¬ InSupp m u j) : r = u := by
  apply (canonical t hwt r u hrm (he.mem hu)).mp
  intro a
  apply bool_eq_of_iff
  rw [hr a, den_ext he hwm u a hu]
  apply qsem_noop
  intro b hb
  apply den_agree_supp m hwm u hu
  intro i hi
  exact hb i (fun hq => hdisj i hq hi)

/-! ### the quantifier rows of `apply` -/

/-- what the regenerated table says about a quantifier alias: `\A` / `\E` take the variables
from the support of the FIRST operand and quantify the SECOND -/
theorem table_quant (op : String) (c : Conn) (hc : docConn op = some c)
    (hq : c = .forall_ ∨ c = .exists_) (hall : Gen.allOps.contains op = true) :
    ∃ row, findRow op Gen.applyTable = some row ∧
      row.templ = .quant (decide (c = .forall_)) .u .v := by
  have hv := vocab_complete
  unfold vocabComplete at hv
  simp only [Bool.and_eq_true, List.all_eq_true] at hv
  have hmem : op ∈ Gen.allOps := by simpa using hall
  have hone := hv.1.1 op hmem
  obtain ⟨row, hrow⟩ := findRow_isSome_of_filter (by simpa using hone)
  obtain ⟨hin, hal⟩ := findRow_some hrow
  have hs := applyTable_sound
  unfold tableSound at hs
  simp only [List.all_eq_true] at hs
  have hrs := hs row hin op (by simpa using hal)
  unfold rowSound at hrs
  rw [hc] at hrs
  refine ⟨row, hrow, ?_⟩
  rcases hq with h | h <;> subst h <;> cases ht : row.templ <;> rw [ht] at hrs <;> simp_all
  all_goals (split at hrs <;> simp_all)

/-- `apply('\A' | '\E' | 'forall' | 'exists', u, v)`, reordering not enabled: with `names` the
answer of `support(u)` (every name declared), the result is `v` quantified over the levels of
these names. -/
theorem apply_quant_spec (m : Mgr) (hI : Inv m) (hoff : m.lastLen = none)
    (op : String) (c : Conn) (hc : docConn op = some c) (hq : c = .forall_ ∨ c = .exists_)
    (hall : Gen.allOps.contains op = true)
    (u v : Int) (hu : m.tbl.Mem u) (hv : m.tbl.Mem v)
    (names : List String) (hsupp : support m.tbl u = .ok names)
    (hdecl : ∀ s, s ∈ names → m.tbl.vars.contains s = true) :
    ∃ r m', apply op u (some v) none m = (.ok r, m') ∧ Inv m' ∧ Ext m.tbl m'.tbl ∧
      m'.tbl.Mem r ∧ Frame m m' ∧
      ∀ a, den m'.tbl r a = true ↔
        qsem (decide (c = .forall_)) (names.map (lvlOf m.tbl)) (den m.tbl v) a := by
  obtain ⟨row, hrow, ht⟩ := table_quant op c hc hq hall
  have hv' := vocab_complete
  unfold vocabComplete at hv'
  simp only [Bool.and_eq_true, List.all_eq_true] at hv'
  have hmem : op ∈ Gen.allOps := by simpa using hall
  have har := hv'.2 op hmem
  rw [hc] at har
  have h2 : c.arity = 2 := by rcases hq with h | h <;> subst h <;> rfl
  simp only [h2, Bool.and_eq_true, beq_iff_eq] at har
  have hun : Gen.unaryOps.contains op = false := by
    have := har.1.1; simpa using this.symm
  have hbi : Gen.binaryOps.contains op = true := by
    have := har.1.2; simpa using this.symm
  have harity : assertOperatorArity op (some v) none = .ok () := by
    unfold assertOperatorArity
    rw [hall, hun, hbi]
    rfl
  obtain ⟨r, m', hres, h1, h2', h3, h4, _, h6⟩ := quantify_spec m hI hoff v hv
    (names.map Key.name) (decide (c = .forall_)) (names.map (lvlOf m.tbl))
    (mapToLevelE_names m.tbl names hdecl)
  refine ⟨r, m', ?_, h1, h2', h3, h4, h6⟩
  unfold apply
  have hmu : m.mem u = true := (Mgr.mem_iff m u).mpr hu
  have hmv : m.mem v = true := (Mgr.mem_iff m v).mpr hv
  simp only [harity, hmu, hmv, optNotMem, Bool.not_true, Bool.false_eq_true, if_false, hrow, ht,
    atomVal, hsupp]
  exact hres

end DD
