/-
  DDProofs.Capacity3Expr — `BDD.add_expr` with `max_nodes = cap`: the twin is the model; the
  evaluation of ANY syntax tree (and of the sub-formulas reduced before a syntax error) is a
  sequence of nested decorated calls, each total on arbitrary arguments.
-/
import DD.Capacity3Expr
import DDProofs.Capacity3Cube
import DDProofs.DynRejectedExpr
open Std

namespace DD

theorem evalAstG_model : ∀ t, evalAstG var apply quantify rename t = evalAst t
  | .var x => rfl
  | .bool b => rfl
  | .num neg d => rfl
  | .not e => by unfold evalAstG evalAst; rw [evalAstG_model e]
  | .bin o l r => by unfold evalAstG evalAst; rw [evalAstG_model l, evalAstG_model r]
  | .ite a b c => by
    unfold evalAstG evalAst; rw [evalAstG_model a, evalAstG_model b, evalAstG_model c]
  | .quant fa ns e => by unfold evalAstG evalAst; rw [evalAstG_model e]
  | .subst ss e => by unfold evalAstG evalAst; rw [evalAstG_model e]

theorem evalForestG_model : ∀ ts, evalForestG evalAst ts = evalForest ts
  | [] => rfl
  | t :: ts => by unfold evalForestG evalForest; rw [evalForestG_model ts]

theorem addExprG_model : addExprG (evalAstG var apply quantify rename) = addExpr := by
  funext s
  have : evalAstG var apply quantify rename = evalAst := funext evalAstG_model
  unfold addExprG addExpr addExprToksG addExprToks
  rw [this]
  simp only [evalForestG_model]
  rfl

def QuantNestedTot (quantX : Int → List Key → Bool → M Int) : Prop :=
  ∀ (m : Mgr), Inv m → m.ctx = true → ∀ b q fa, TotE m (quantX b q fa m)

def RenameNestedTot (renameX : Int → List (String × String) → M Int) : Prop :=
  ∀ (m : Mgr), Inv m → m.ctx = true → ∀ u d, TotE m (renameX u d m)

theorem evalAstG_totE (varX : String → M Int) (applyX : String → Int → Option Int → Option Int → M Int)
    (quantX : Int → List Key → Bool → M Int) (renameX : Int → List (String × String) → M Int)
    (hv : VarNestedTot varX) (ha : ApplyNestedTot applyX) (hq : QuantNestedTot quantX)
    (hr : RenameNestedTot renameX) :
    ∀ (t : Ast) (m : Mgr), Inv m → m.ctx = true → TotE m (evalAstG varX applyX quantX renameX t m)
  | .var x, m, hI, hc => by
    unfold evalAstG; exact hv m hI hc x
  | .bool b, m, hI, _ => by
    unfold evalAstG; exact TotE.ok (StepK.refl hI) _
  | .num neg d, m, hI, _ => by
    unfold evalAstG; exact addInt_totE m hI _
  | .not e, m, hI, hc => by
    unfold evalAstG
    refine TotE.bind (evalAstG_totE varX applyX quantX renameX hv ha hq hr e m hI hc) ?_
    intro u m1 hs
    exact ha m1 hs.inv (by rw [hs.frame.ctx]; exact hc) _ _ _ _
  | .bin o l r, m, hI, hc => by
    unfold evalAstG
    refine TotE.bind (evalAstG_totE varX applyX quantX renameX hv ha hq hr l m hI hc) ?_
    intro u m1 hs1
    have hc1 : m1.ctx = true := by rw [hs1.frame.ctx]; exact hc
    refine TotE.bind (evalAstG_totE varX applyX quantX renameX hv ha hq hr r m1 hs1.inv hc1) ?_
    intro v m2 hs2
    exact ha m2 hs2.inv (by rw [hs2.frame.ctx]; exact hc1) _ _ _ _
  | .ite a b c, m, hI, hc => by
    unfold evalAstG
    refine TotE.bind (evalAstG_totE varX applyX quantX renameX hv ha hq hr a m hI hc) ?_
    intro u m1 hs1
    have hc1 : m1.ctx = true := by rw [hs1.frame.ctx]; exact hc
    refine TotE.bind (evalAstG_totE varX applyX quantX renameX hv ha hq hr b m1 hs1.inv hc1) ?_
    intro v m2 hs2
    have hc2 : m2.ctx = true := by rw [hs2.frame.ctx]; exact hc1
    refine TotE.bind (evalAstG_totE varX applyX quantX renameX hv ha hq hr c m2 hs2.inv hc2) ?_
    intro w m3 hs3
    exact ha m3 hs3.inv (by rw [hs3.frame.ctx]; exact hc2) _ _ _ _
  | .quant fa ns e, m, hI, hc => by
    unfold evalAstG
    refine TotE.bind (evalAstG_totE varX applyX quantX renameX hv ha hq hr e m hI hc) ?_
    intro u m1 hs
    exact hq m1 hs.inv (by rw [hs.frame.ctx]; exact hc) _ _ _
  | .subst ss e, m, hI, hc => by
    unfold evalAstG
    refine TotE.bind (evalAstG_totE varX applyX quantX renameX hv ha hq hr e m hI hc) ?_
    intro u m1 hs
    exact hr m1 hs.inv (by rw [hs.frame.ctx]; exact hc) _ _

theorem evalForestG_totE (ev : Ast → M Int)
    (hev : ∀ (t : Ast) (m : Mgr), Inv m → m.ctx = true → TotE m (ev t m)) :
    ∀ (ts : List Ast) (m : Mgr), Inv m → m.ctx = true → TotE m (evalForestG ev ts m)
  | [], m, hI, _ => by
    unfold evalForestG; exact TotE.ok (StepK.refl hI) _
  | t :: ts, m, hI, hc => by
    unfold evalForestG
    refine TotE.bind (hev t m hI hc) ?_
    intro _ m1 hs
    exact evalForestG_totE ev hev ts m1 hs.inv (by rw [hs.frame.ctx]; exact hc)

theorem addExprToksG_totE (ev : Ast → M Int)
    (hev : ∀ (t : Ast) (m : Mgr), Inv m → m.ctx = true → TotE m (ev t m))
    (toks : List Tok) (m : Mgr) (hI : Inv m) (hc : m.ctx = true) :
    TotE m (addExprToksG ev toks m) := by
  unfold addExprToksG
  cases hp : parseE toks with
  | ok t => exact hev t m hI hc
  | error fe =>
    obtain ⟨forest, e⟩ := fe
    show TotE m ((evalForestG ev forest >>= fun _ => M.throw e.toErr) m)
    refine TotE.bind (evalForestG_totE ev hev forest m hI hc) ?_
    intro _ m1 hs
    exact TotE.err (StepK.refl hs.inv) _ (PErr.toErr_noNR e)

theorem quantifyCap_nestedTot (cap : Nat) : QuantNestedTot (quantifyCap cap) :=
  fun m hI hc b q fa => TotE.nested hc
    (quantifyBodyG_totE _ _ _ (findOrAddCap_foaX cap) (iteCap_nestedX cap) m hI hc b q fa)

theorem renameCap_nestedTot (cap : Nat) : RenameNestedTot (renameCap cap) :=
  fun m hI hc u d => TotE.nested hc
    (renameBodyG_totE _ _ (findOrAddCap_varTotX cap) (iteCap_totX cap) m hI hc u d)

/-- `BDD.add_expr` with capacity: ANY text (syntax error at any token, undeclared variable, unknown
`@n`), whatever it returns or raises — refused half-way through the formula included -/
theorem addExprCap_total_dyn (cap : Nat) (ext : Nat → Nat) (m : Mgr) (hD : DynInv ext m)
    (s : String) : DynTotal ext m (addExprCap cap s m) :=
  tryToReorder_total_dyn ext (siftContract ext) _
    (fun m0 hI hc _ => addExprToksG_totE _
      (evalAstG_totE _ _ _ _ (varCap_nestedTot cap) (applyCapQ_nestedTot cap)
        (quantifyCap_nestedTot cap) (renameCap_nestedTot cap)) (tokenize s) m0 hI hc) m hD

end DD
