/-
  DDProofs.CapacityFoa — `find_or_add` of a manager with `max_nodes = cap` against the
  capacity-free `findOrAddCore`:

  * `nextFreeCap_eq`           the bounded search finds the number the unbounded one finds, or
                               nothing when that number is not below the capacity;
  * `findOrAddCapWith_cases`   one case analysis for the three variants (literal, un-repaired,
                               abstract): the call IS the capacity-free call (nothing created,
                               or the new `_min_free` below the capacity), or it is refused
                               after the store, and the `except` handler decides what is left;
  * `findOrAddCapCore_full`    the refusal leaves the manager of the call (abstract variant);
  * `findOrAddCapLit_full`     the literal variant (store, `del` three times) leaves a manager
                               with the same CONTENT (`Mgr.SameContent`: every lookup, sizes, every
                               other field; hence the same canonical dump), provided the free
                               number was not a stale key of `_ref`;
  * `findOrAddCapOld_full`     what the un-repaired code leaves, and `capOld_*` a concrete run.
-/
import DD.Capacity
import DD.Driver
import DDProofs.RefCount
import DDProofs.Ite
open Std

namespace DD

/-! ### `_next_free_int` with a bound -/

theorem nextFree_succ_pos (s : TreeMap Nat Nd) (f i : Nat) (h : i = 1 ∨ s.contains i = true) :
    nextFree s (f+1) i = nextFree s f (i+1) := by
  simp only [nextFree]; rw [if_pos h]

theorem nextFree_succ_neg (s : TreeMap Nat Nd) (f i : Nat) (h : ¬ (i = 1 ∨ s.contains i = true)) :
    nextFree s (f+1) i = i := by
  simp only [nextFree]; rw [if_neg h]

theorem nextFreeCap_eq (s : TreeMap Nat Nd) (cap : Nat) : ∀ f i,
    nextFreeCap s cap f i = if nextFree s f i < cap then some (nextFree s f i) else none := by
  intro f
  induction f with
  | zero => intro i; rfl
  | succ f ih =>
    intro i
    simp only [nextFreeCap]
    by_cases hc : cap ≤ i
    · have hge := nextFree_ge s (f+1) i
      rw [if_pos hc, if_neg (by omega)]
    · rw [if_neg hc]
      by_cases hk : i = 1 ∨ s.contains i = true
      · rw [if_pos hk, nextFree_succ_pos s f i hk]; exact ih (i+1)
      · rw [if_neg hk, nextFree_succ_neg s f i hk, if_pos (by omega)]

/-- the number found after an occupied start is strictly larger -/
theorem nextFree_gt (s : TreeMap Nat Nd) (f i : Nat) (h : s.contains i = true) :
    i < nextFree s (f+1) i := by
  simp only [nextFree]
  rw [if_pos (Or.inr h)]
  exact Nat.lt_of_lt_of_le (Nat.lt_succ_self i) (nextFree_ge s f (i+1))

/-! ### the three variants against the capacity-free call -/

/-- the manager after `self._pred[t] = u; self._succ[u] = t; self._ref[u] = 0` -/
def storeNode (m : Mgr) (t : Nd) : Mgr :=
  { m with
    tbl := { m.tbl with succ := m.tbl.succ.insert m.minFree t }
    pred := m.pred.insert t.key m.minFree
    ref := m.ref.insert m.minFree 0 }

theorem incref_minFree (u : Int) (m : Mgr) : (incref u m).2.minFree = m.minFree := by
  unfold incref
  cases m.ref[u.natAbs]? <;> rfl

theorem incref_err_key (u : Int) (m : Mgr) (e : Err) (m' : Mgr) (h : incref u m = (.error e, m')) :
    e = .key := by
  unfold incref at h
  cases hr : m.ref[u.natAbs]? with
  | none => rw [hr] at h; simp at h; exact h.1.symm
  | some c => rw [hr] at h; simp at h

/-- the tail of `find_or_add` after the store: the two `incref`s -/
def increfTwo (r : Int) (v w : Int) (m1 : Mgr) : Except Err Int × Mgr :=
  match incref v m1 with
  | (.error e, m2) => (.error e, m2)
  | (.ok _, m2) =>
    match incref w m2 with
    | (.error e, m3) => (.error e, m3)
    | (.ok _, m3) => (.ok r, m3)

theorem increfTwo_minFree (r v w : Int) (m1 : Mgr) : (increfTwo r v w m1).2.minFree = m1.minFree := by
  unfold increfTwo
  have h1 := incref_minFree v m1
  generalize incref v m1 = x at h1
  obtain ⟨r1, m2⟩ := x
  cases r1 with
  | error e => exact h1
  | ok a =>
    simp only
    have h2 := incref_minFree w m2
    generalize incref w m2 = y at h2
    obtain ⟨r2, m3⟩ := y
    cases r2 with
    | error e => exact h2.trans h1
    | ok b => exact h2.trans h1

theorem increfTwo_ne_runtime (r v w : Int) (m1 : Mgr) :
    (increfTwo r v w m1).1 ≠ .error .runtime := by
  unfold increfTwo
  generalize hx : incref v m1 = x
  obtain ⟨r1, m2⟩ := x
  cases r1 with
  | error e =>
    have := incref_err_key v m1 e m2 hx
    subst this
    simp
  | ok a =>
    simp only
    generalize hy : incref w m2 = y
    obtain ⟨r2, m3⟩ := y
    cases r2 with
    | error e =>
      have := incref_err_key w m2 e m3 hy
      subst this
      simp
    | ok b => simp

/-- the node `find_or_add(i, v, w)` looks up: complemented high edge normalised -/
def foaNode (i : Nat) (v w : Int) : Nd := ⟨i, if w < 0 then -v else v, if w < 0 then -w else w⟩

/-- the number `_next_free_int(u)` returns in a manager without capacity, with `t` stored at
`u = _min_free` -/
def newMinFree (m : Mgr) (t : Nd) : Nat :=
  nextFree (m.tbl.succ.insert m.minFree t) ((m.tbl.succ.insert m.minFree t).size + 2) m.minFree

/-- the call gets as far as storing a new node: valid level, known children, not eliminated,
not in the unique table, and the two assertions on `_min_free` pass -/
def FoaStores (m : Mgr) (i : Nat) (v w : Int) : Prop :=
  ¬ m.nvars ≤ i ∧ m.mem v = true ∧ m.mem w = true ∧
  ¬ (if w < 0 then -v else v) = (if w < 0 then -w else w) ∧
  m.pred[(foaNode i v w).key]? = none ∧ ¬ m.minFree ≤ 1 ∧ ¬ m.tbl.succ.contains m.minFree = true

theorem newMinFree_gt (m : Mgr) (t : Nd) : m.minFree < newMinFree m t :=
  nextFree_gt _ _ _ (contains_insert_self' _ _ _)

/-- the capacity-free call that stores a node -/
theorem findOrAddCore_stores (m : Mgr) (i : Nat) (v w : Int) (h : FoaStores m i v w) :
    findOrAddCore i v w m =
      increfTwo ((if w < 0 then -1 else 1) * (m.minFree : Int)) (foaNode i v w).lo (foaNode i v w).hi
        { storeNode m (foaNode i v w) with minFree := newMinFree m (foaNode i v w) } := by
  obtain ⟨c1, c2, c3, c4, hp, c5, c6⟩ := h
  unfold foaNode at hp
  unfold findOrAddCore
  simp only [c1, if_false, c2, c3, Bool.not_true, Bool.false_eq_true, c4, hp, c5, c6]
  rfl

/-- any variant of the call with capacity that stores a node -/
theorem findOrAddCapWith_stores (onFull : Mgr → Mgr → Nd → Mgr) (cap : Nat) (m : Mgr) (i : Nat)
    (v w : Int) (h : FoaStores m i v w) :
    findOrAddCapWith onFull cap i v w m =
      if newMinFree m (foaNode i v w) < cap then
        increfTwo ((if w < 0 then -1 else 1) * (m.minFree : Int)) (foaNode i v w).lo (foaNode i v w).hi
          { storeNode m (foaNode i v w) with minFree := newMinFree m (foaNode i v w) }
      else (.error .runtime, onFull m (storeNode m (foaNode i v w)) (foaNode i v w)) := by
  obtain ⟨c1, c2, c3, c4, hp, c5, c6⟩ := h
  unfold foaNode at hp
  unfold findOrAddCapWith
  simp only [c1, if_false, c2, c3, Bool.not_true, Bool.false_eq_true, c4, hp, c5, c6]
  rw [nextFreeCap_eq]
  by_cases hlt : newMinFree m (foaNode i v w) < cap
  · rw [if_pos hlt]
    have hlt' := hlt
    unfold newMinFree foaNode at hlt'
    rw [if_pos hlt']
    rfl
  · rw [if_neg hlt]
    have hlt' := hlt
    unfold newMinFree foaNode at hlt'
    rw [if_neg hlt']
    rfl

/-- a call that does not get to the store is the same with and without capacity, and changes
nothing -/
theorem findOrAddCapWith_not_stores (onFull : Mgr → Mgr → Nd → Mgr) (cap : Nat) (m : Mgr) (i : Nat)
    (v w : Int) (h : ¬ FoaStores m i v w) :
    findOrAddCapWith onFull cap i v w m = findOrAddCore i v w m ∧ (findOrAddCore i v w m).2 = m := by
  unfold FoaStores foaNode at h
  unfold findOrAddCapWith findOrAddCore
  by_cases c1 : m.nvars ≤ i
  · simp [c1]
  · simp only [c1, if_false]
    by_cases c2 : m.mem v = true
    · simp only [c2, Bool.not_true, Bool.false_eq_true, if_false]
      by_cases c3 : m.mem w = true
      · simp only [c3, Bool.not_true, Bool.false_eq_true, if_false]
        by_cases c4 : (if w < 0 then -v else v) = (if w < 0 then -w else w)
        · simp [c4]
        · simp only [c4, if_false]
          cases hp : m.pred[(⟨i, if w < 0 then -v else v, if w < 0 then -w else w⟩ : Nd).key]? with
          | some u => simp
          | none =>
            simp only
            by_cases c5 : m.minFree ≤ 1
            · simp [c5]
            · simp only [c5, if_false]
              by_cases c6 : m.tbl.succ.contains m.minFree = true
              · simp [c6]
              · exact absurd ⟨c1, c2, c3, c4, hp, c5, c6⟩ h
      · simp [c3]
    · simp [c2]

/-- ONE case analysis for the three variants.  A call of `find_or_add` on a manager with
`max_nodes = cap` either (A) is the capacity-free call — and then that call created nothing
(`_min_free` unchanged) or moved `_min_free` to a number below the capacity — or (B) found the
unique-table entry missing, stored the node `t` at `_min_free`, and was refused because the
next free number is not below the capacity: the answer is `RuntimeError` and the state is what
the `except` clause makes of the manager of the call and the manager with the node stored. -/
theorem findOrAddCapWith_cases (onFull : Mgr → Mgr → Nd → Mgr) (cap i : Nat) (v w : Int) (m : Mgr) :
    (findOrAddCapWith onFull cap i v w m = findOrAddCore i v w m ∧
      m.minFree ≤ (findOrAddCore i v w m).2.minFree ∧
      ((findOrAddCore i v w m).2.minFree = m.minFree ∨ (findOrAddCore i v w m).2.minFree < cap)) ∨
    (∃ t : Nd, m.pred[t.key]? = none ∧ 2 ≤ m.minFree ∧ m.tbl.succ.contains m.minFree = false ∧
      findOrAddCapWith onFull cap i v w m = (.error .runtime, onFull m (storeNode m t) t) ∧
      cap ≤ (findOrAddCore i v w m).2.minFree ∧ m.minFree < (findOrAddCore i v w m).2.minFree) := by
  by_cases hs : FoaStores m i v w
  · have hcore := findOrAddCore_stores m i v w hs
    have hcap := findOrAddCapWith_stores onFull cap m i v w hs
    have hmf : (findOrAddCore i v w m).2.minFree = newMinFree m (foaNode i v w) := by
      rw [hcore, increfTwo_minFree]
    have hgt := newMinFree_gt m (foaNode i v w)
    by_cases hlt : newMinFree m (foaNode i v w) < cap
    · left
      rw [if_pos hlt] at hcap
      exact ⟨hcap.trans hcore.symm, by omega, Or.inr (by omega)⟩
    · right
      rw [if_neg hlt] at hcap
      obtain ⟨_, _, _, _, hp, c5, c6⟩ := hs
      exact ⟨foaNode i v w, hp, by omega, Bool.eq_false_iff.mpr c6, hcap, by omega, by omega⟩
  · obtain ⟨h1, h2⟩ := findOrAddCapWith_not_stores onFull cap m i v w hs
    left
    exact ⟨h1, by rw [h2]; exact Nat.le_refl _, Or.inl (by rw [h2])⟩

/-- the capacity-free `find_or_add` never raises `RuntimeError` -/
theorem findOrAddCore_ne_runtime (i : Nat) (v w : Int) (m : Mgr) :
    (findOrAddCore i v w m).1 ≠ .error .runtime := by
  by_cases hs : FoaStores m i v w
  · rw [findOrAddCore_stores m i v w hs]
    exact increfTwo_ne_runtime _ _ _ _
  · unfold FoaStores foaNode at hs
    unfold findOrAddCore
    by_cases c1 : m.nvars ≤ i
    · simp [c1]
    · simp only [c1, if_false]
      by_cases c2 : m.mem v = true
      · simp only [c2, Bool.not_true, Bool.false_eq_true, if_false]
        by_cases c3 : m.mem w = true
        · simp only [c3, Bool.not_true, Bool.false_eq_true, if_false]
          by_cases c4 : (if w < 0 then -v else v) = (if w < 0 then -w else w)
          · simp [c4]
          · simp only [c4, if_false]
            cases hp : m.pred[(⟨i, if w < 0 then -v else v, if w < 0 then -w else w⟩ : Nd).key]? with
            | some u => simp
            | none =>
              simp only
              by_cases c5 : m.minFree ≤ 1
              · simp [c5]
              · simp only [c5, if_false]
                by_cases c6 : m.tbl.succ.contains m.minFree = true
                · simp [c6]
                · exact absurd ⟨c1, c2, c3, c4, hp, c5, c6⟩ hs
        · simp [c3]
      · simp [c2]

/-- `_min_free` never decreases in a capacity-free `find_or_add` -/
theorem findOrAddCore_minFree_mono (i : Nat) (v w : Int) (m : Mgr) :
    m.minFree ≤ (findOrAddCore i v w m).2.minFree := by
  rcases findOrAddCapWith_cases (fun m _ _ => m) 0 i v w m with ⟨_, h, _⟩ | ⟨_, _, _, _, _, _, h⟩
  · exact h
  · exact Nat.le_of_lt h

/-! ### (b) the refusal -/

/-- what a `RuntimeError` of any variant is: case (B) of `findOrAddCapWith_cases` -/
theorem findOrAddCapWith_full (onFull : Mgr → Mgr → Nd → Mgr) (cap i : Nat) (v w : Int) (m m' : Mgr)
    (h : findOrAddCapWith onFull cap i v w m = (.error .runtime, m')) :
    ∃ t : Nd, m.pred[t.key]? = none ∧ 2 ≤ m.minFree ∧ m.tbl.succ.contains m.minFree = false ∧
      m' = onFull m (storeNode m t) t ∧
      cap ≤ (findOrAddCore i v w m).2.minFree ∧ m.minFree < (findOrAddCore i v w m).2.minFree := by
  rcases findOrAddCapWith_cases onFull cap i v w m with ⟨he, _, _⟩ | ⟨t, h1, h2, h3, he, h4, h5⟩
  · rw [he] at h
    exact absurd (by rw [h]) (findOrAddCore_ne_runtime i v w m)
  · rw [he] at h
    exact ⟨t, h1, h2, h3, (by injection h with _ h'; exact h'.symm), h4, h5⟩

/-- (b), abstract variant: the `RuntimeError` of a full manager leaves the manager EXACTLY as
it was — node table, unique table, counts, `_min_free`, computed table, every other field -/
theorem findOrAddCapCore_full (cap i : Nat) (v w : Int) (m m' : Mgr)
    (h : findOrAddCapCore cap i v w m = (.error .runtime, m')) : m' = m := by
  obtain ⟨t, _, _, _, he, _, _⟩ := findOrAddCapWith_full _ cap i v w m m' h
  exact he

/-- the same through the wrapper with the reordering request: only the harness trigger of the
request may have been consumed (`requestReordering` touches no other field) -/
theorem findOrAddCap_full (cap : Nat) (i v w : Int) (m m' : Mgr)
    (h : findOrAddCap cap i v w m = (.error .runtime, m')) :
    ∃ f, m' = { m with fireIn := f } := by
  unfold findOrAddCap findOrAddOver at h
  by_cases hc : m.ctx = true
  · rw [if_pos hc] at h
    rcases requestReordering_cases m with ⟨f, hr⟩ | ⟨f, hr, _⟩
    · rw [hr] at h
      simp only at h
      by_cases hi : i < 0
      · rw [if_pos hi] at h; simp at h
      · rw [if_neg hi] at h
        exact ⟨f, findOrAddCapCore_full cap _ v w _ _ h⟩
    · rw [hr] at h; simp at h
  · rw [if_neg hc] at h
    simp only at h
    by_cases hi : i < 0
    · rw [if_pos hi] at h; simp at h
    · rw [if_neg hi] at h
      refine ⟨m.fireIn, ?_⟩
      rw [findOrAddCapCore_full cap _ v w _ _ h]

/-- two managers with the same CONTENT: every lookup in the three dictionaries of nodes, the
number of nodes, and every other field — what `state` dumps, and everything the model reads -/
structure Mgr.SameContent (a b : Mgr) : Prop where
  succ : ∀ k : Nat, a.tbl.succ[k]? = b.tbl.succ[k]?
  pred : ∀ k : List Int, a.pred[k]? = b.pred[k]?
  ref : ∀ k : Nat, a.ref[k]? = b.ref[k]?
  vars : a.tbl.vars = b.tbl.vars
  l2v : a.tbl.l2v = b.tbl.l2v
  minFree : a.minFree = b.minFree
  cache : a.cache = b.cache
  lastLen : a.lastLen = b.lastLen
  ctx : a.ctx = b.ctx
  fireIn : a.fireIn = b.fireIn
  sched : a.sched = b.sched
  roots : a.roots = b.roots

theorem Mgr.SameContent.refl (m : Mgr) : Mgr.SameContent m m :=
  ⟨fun _ => rfl, fun _ => rfl, fun _ => rfl, rfl, rfl, rfl, rfl, rfl, rfl, rfl, rfl, rfl⟩

/-- same content ⇒ same listing of every dictionary ⇒ same canonical dump (the answer of the
protocol op `state`), same `len` -/
theorem Mgr.SameContent.dump {a b : Mgr} (h : Mgr.SameContent a b) :
    dumpState a = dumpState b ∧ a.len = b.len := by
  have h1 : a.tbl.succ.toList = b.tbl.succ.toList :=
    TreeMap.equiv_iff_toList_eq.mp (TreeMap.Equiv.of_forall_constGet?_eq h.succ)
  have h2 : a.pred.toList = b.pred.toList :=
    TreeMap.equiv_iff_toList_eq.mp (TreeMap.Equiv.of_forall_constGet?_eq h.pred)
  have h3 : a.ref.toList = b.ref.toList :=
    TreeMap.equiv_iff_toList_eq.mp (TreeMap.Equiv.of_forall_constGet?_eq h.ref)
  have h4 : a.tbl.succ.size = b.tbl.succ.size :=
    (TreeMap.Equiv.of_forall_constGet?_eq h.succ).size_eq
  refine ⟨?_, by unfold Mgr.len; rw [h4]⟩
  unfold dumpState
  rw [h1, h2, h3, h.vars, h.l2v, h.minFree, h.cache, h.lastLen, h.ctx, h.roots]

/-- deleting the three entries just stored gives back the content of the manager, when the
free number was a key of none of the three dictionaries -/
theorem undoStore_same (m : Mgr) (t : Nd) (hp : m.pred[t.key]? = none)
    (hs : m.tbl.succ.contains m.minFree = false) (hr : m.ref[m.minFree]? = none) :
    Mgr.SameContent (undoStore m (storeNode m t) t) m := by
  have hs' : m.tbl.succ[m.minFree]? = none := by
    rw [TreeMap.contains_eq_isSome_getElem?] at hs
    cases hh : m.tbl.succ[m.minFree]? with
    | none => rfl
    | some x => rw [hh] at hs; cases hs
  refine ⟨?_, ?_, ?_, rfl, rfl, rfl, rfl, rfl, rfl, rfl, rfl, rfl⟩
  · intro k
    show ((m.tbl.succ.insert m.minFree t).erase m.minFree)[k]? = m.tbl.succ[k]?
    rw [TreeMap.getElem?_erase, TreeMap.getElem?_insert]
    by_cases hk : compare m.minFree k = .eq
    · have : m.minFree = k := LawfulEqOrd.eq_of_compare hk
      subst this
      simp [hs']
    · simp [hk]
  · intro k
    show ((m.pred.insert t.key m.minFree).erase t.key)[k]? = m.pred[k]?
    rw [TreeMap.getElem?_erase, TreeMap.getElem?_insert]
    by_cases hk : compare t.key k = .eq
    · have : t.key = k := LawfulEqOrd.eq_of_compare hk
      subst this
      simp [hp]
    · simp [hk]
  · intro k
    show ((m.ref.insert m.minFree 0).erase m.minFree)[k]? = m.ref[k]?
    rw [TreeMap.getElem?_erase, TreeMap.getElem?_insert]
    by_cases hk : compare m.minFree k = .eq
    · have : m.minFree = k := LawfulEqOrd.eq_of_compare hk
      subst this
      simp [hr]
    · simp [hk]

/-- (b), the code as it is: after `RuntimeError('full')` the manager has the content it had
before the call (hence the same dump and `len`).  The hypothesis says that `_min_free` is not a
stale key of `_ref`; it holds whenever the counts are exact (`findOrAddCapLit_full_exact`). -/
theorem findOrAddCapLit_full (cap i : Nat) (v w : Int) (m m' : Mgr)
    (hr : m.ref[m.minFree]? = none)
    (h : findOrAddCapLit cap i v w m = (.error .runtime, m')) : Mgr.SameContent m' m := by
  obtain ⟨t, hp, _, hs, he, _, _⟩ := findOrAddCapWith_full _ cap i v w m m' h
  rw [he]
  exact undoStore_same m t hp hs hr

theorem findOrAddCapLit_full_exact (cap i : Nat) (v w : Int) (m m' : Mgr) (ext : Nat → Nat)
    (hI : Inv m) (hx : RefExact m ext)
    (h : findOrAddCapLit cap i v w m = (.error .runtime, m')) :
    Mgr.SameContent m' m ∧ dumpState m' = dumpState m ∧ m'.len = m.len := by
  have hr : m.ref[m.minFree]? = none := by
    cases hh : m.ref[m.minFree]? with
    | none => rfl
    | some c =>
      exfalso
      rcases (hx.dom m.minFree).mp (by rw [hh]; rfl) with h1 | h1
      · have := hI.freeGe; omega
      · rw [hI.free] at h1; cases h1
  have hs := findOrAddCapLit_full cap i v w m m' hr h
  exact ⟨hs, hs.dump.1, hs.dump.2⟩

/-- the literal and the abstract variant: equal whenever the call is not refused; both refused
together, and then the literal one leaves the content of what the abstract one leaves -/
theorem findOrAddCapLit_same (cap i : Nat) (v w : Int) (m : Mgr) (hr : m.ref[m.minFree]? = none) :
    findOrAddCapLit cap i v w m = findOrAddCapCore cap i v w m ∨
    (findOrAddCapCore cap i v w m = (.error .runtime, m) ∧
      ∃ m', findOrAddCapLit cap i v w m = (.error .runtime, m') ∧ Mgr.SameContent m' m) := by
  rcases findOrAddCapWith_cases undoStore cap i v w m with ⟨he, _, h3⟩ | ⟨t, hp, _, hs, he, h4, h5⟩
  · left
    rcases findOrAddCapWith_cases (fun m _ _ => m) cap i v w m with ⟨he', _, _⟩ | ⟨_, _, _, _, _, h4, h5⟩
    · exact he.trans he'.symm
    · rcases h3 with h3 | h3 <;> omega
  · right
    rcases findOrAddCapWith_cases (fun m _ _ => m) cap i v w m with ⟨_, _, h3⟩ | ⟨_, _, _, _, he', _, _⟩
    · rcases h3 with h3 | h3 <;> omega
    · exact ⟨he', _, he, undoStore_same m t hp hs hr⟩

/-- what the code BEFORE 9f1005b leaves after `RuntimeError('full')`: the node is stored under
the number `_min_free` still names, with count 0, and the counts of its successors are the old
ones — NOT the manager of the call -/
theorem findOrAddCapOld_full (cap i : Nat) (v w : Int) (m m' : Mgr)
    (h : findOrAddCapOld cap i v w m = (.error .runtime, m')) :
    ∃ t : Nd, m' = storeNode m t ∧ m'.tbl.node? m'.minFree = some t ∧ m'.ref[m'.minFree]? = some 0 ∧
      (∀ k, k ≠ m.minFree → m'.ref[k]? = m.ref[k]?) ∧ m' ≠ m := by
  obtain ⟨t, _, _, hs, he, _, _⟩ := findOrAddCapWith_full _ cap i v w m m' h
  subst he
  have hnode : (storeNode m t).tbl.node? (storeNode m t).minFree = some t := by
    show (m.tbl.succ.insert m.minFree t)[m.minFree]? = some t
    simp
  refine ⟨t, rfl, hnode, ?_, ?_, ?_⟩
  · show (m.ref.insert m.minFree 0)[m.minFree]? = some 0
    simp
  · intro k hk
    show (m.ref.insert m.minFree 0)[k]? = m.ref[k]?
    rw [TreeMap.getElem?_insert]
    have : compare m.minFree k ≠ .eq := fun hc => hk (LawfulEqOrd.eq_of_compare hc).symm
    simp [this]
  · intro heq
    have h1 : m.tbl.node? m.minFree = some t := by
      have := hnode
      rw [heq] at this
      exact this
    have h2 := node?_none_of_not_contains m.tbl m.minFree hs
    rw [h2] at h1
    cases h1

end DD
