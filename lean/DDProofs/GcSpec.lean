/-
  DDProofs.GcSpec — `collect_garbage` as a whole (C06, part 4): it terminates without
  error, what it leaves is exactly what is reachable from the nodes the user holds,
  counts stay exact, the computed table is empty, remaining nodes are unchanged and
  denote what they denoted.
-/
import DDProofs.GcLoop
open Std

namespace DD

theorem unusedOf_state (m : Mgr) : ∀ rs : List Int, (unusedOf rs m).2 = m := by
  intro rs
  induction rs with
  | nil => rfl
  | cons r rest ih =>
    simp only [unusedOf, bind, M.bind', refOf]
    cases hr : m.ref[r.natAbs]? with
    | none => rfl
    | some c =>
      simp only []
      revert ih
      cases unusedOf rest m with
      | mk res m1 =>
        intro ih
        simp only at ih
        subst ih
        cases res with
        | error e => rfl
        | ok L => simp only []; split <;> rfl

theorem unusedOf_spec (m : Mgr) : ∀ rs : List Int, (∀ r ∈ rs, (m.ref[r.natAbs]?).isSome) →
    ∃ L, unusedOf rs m = (.ok L, m) ∧ L.Nodup ∧
      ∀ k, k ∈ L ↔ ∃ r ∈ rs, r.natAbs = k ∧ m.ref[k]? = some 0 ∧ k ≠ 1 := by
  intro rs
  induction rs with
  | nil => intro _; exact ⟨[], rfl, List.nodup_nil, by simp⟩
  | cons r rest ih =>
    intro hall
    obtain ⟨L, hL, hnd, hmem⟩ := ih (fun r hr => hall r (by simp [hr]))
    obtain ⟨c, hc⟩ := Option.isSome_iff_exists.mp (hall r (by simp))
    simp only [unusedOf, bind, M.bind', refOf_eq m r c hc, hL]
    by_cases hcond : c = 0 ∧ r.natAbs ≠ 1
    · have : (decide (c = 0) && decide (r.natAbs ≠ 1)) = true := by simpa using hcond
      simp only [this, if_true]
      refine ⟨_, rfl, gc_nodup_pushNew _ _ hnd, ?_⟩
      intro k
      rw [gc_mem_pushNew, hmem]
      constructor
      · rintro (⟨r', hr', h⟩ | h)
        · exact ⟨r', by simp [hr'], h⟩
        · exact ⟨r, by simp, h.symm, by rw [h, hc, hcond.1], by rw [h]; exact hcond.2⟩
      · rintro ⟨r', hr', h1, h2, h3⟩
        rcases List.mem_cons.mp hr' with h | h
        · right; rw [← h1, h]
        · left; exact ⟨r', h, h1, h2, h3⟩
    · have : ¬ (decide (c = 0) && decide (r.natAbs ≠ 1)) = true := by simpa using hcond
      simp only [this]
      refine ⟨_, rfl, hnd, ?_⟩
      intro k
      rw [hmem]
      constructor
      · rintro ⟨r', hr', h⟩
        exact ⟨r', by simp [hr'], h⟩
      · rintro ⟨r', hr', h1, h2, h3⟩
        rcases List.mem_cons.mp hr' with h | h
        · exfalso; subst h; subst h1
          rw [hc] at h2; cases h2
          exact hcond ⟨rfl, h3⟩
        · exact ⟨r', h, h1, h2, h3⟩

/-- the end of `collect_garbage`: `self._ite_table = dict()` -/
def gcFinish (mf : Mgr) : Mgr := { mf with cache := {} }

/-- the list of candidate roots scanned by `collect_garbage` -/
def gcRoots (roots : Option (List Int)) (m : Mgr) : List Int :=
  match roots with
  | some r => r
  | none => m.ref.keys.map (fun (k : Nat) => (k : Int))

/-- `collect_garbage` without the monadic notation -/
def gcBody (rs : List Int) (m : Mgr) : Except Err Unit × Mgr :=
  match unusedOf rs m with
  | (.error e, m1) => (.error e, m1)
  | (.ok unused, m1) =>
    match gcLoop (m.tbl.succ.size + 1) unused m1 with
    | (.error e, mf) => (.error e, mf)
    | (.ok _, mf) =>
      if (gcFinish mf).len ≤ m.len then (.ok (), gcFinish mf)
      else (.error .assertion, gcFinish mf)

theorem collectGarbage_eq (roots : Option (List Int)) (m : Mgr) :
    collectGarbage roots m = gcBody (gcRoots roots m) m := by
  cases roots <;>
  · simp only [collectGarbage, gcRoots, gcBody, bind, M.bind', M.get, M.modify, M.assert, pure]
    generalize unusedOf _ m = r1
    rcases r1 with ⟨(e|L), m1⟩
    · rfl
    simp only []
    generalize gcLoop (m.tbl.succ.size + 1) L m1 = r2
    rcases r2 with ⟨(e|x), mf⟩
    · rfl
    simp only []
    by_cases h : (gcFinish mf).len ≤ m.len
    · rw [if_pos h]; simp only [gcFinish] at h ⊢; simp [h, M.pure']
    · rw [if_neg h]; simp only [gcFinish] at h ⊢; simp [h, M.throw]

theorem collectGarbage_run (roots : Option (List Int)) (m : Mgr) (ext : Nat → Nat)
    (hs : InvS m) (hr : RefExact m ext)
    (hroots : ∀ r ∈ gcRoots roots m, (m.ref[r.natAbs]?).isSome) :
    ∃ unused mf, collectGarbage roots m = (.ok (), gcFinish mf) ∧ GcRun m unused mf ∧ GcInv m ext unused ∧
      (∀ k, k ∈ unused ↔ (m.ref[k]? = some 0 ∧ ∃ r ∈ gcRoots roots m, r.natAbs = k)) := by
  obtain ⟨L, hL, hnd, hmem⟩ := unusedOf_spec m _ hroots
  have hk1 : ∀ k : Nat, m.ref[k]? = some 0 → k ≠ 1 := by
    intro k hk h1; subst h1
    have := hr.cnt 1 0 hk; simp at this
  have hzero : ∀ w ∈ L, m.ref[w]? = some 0 := fun w hw => by
    obtain ⟨r, -, -, h, -⟩ := (hmem w).mp hw; exact h
  have hinv : GcInv m ext L := ⟨hs, hr, hzero, hnd⟩
  obtain ⟨mf, hloop, hrun⟩ := gcLoop_run (m.tbl.succ.size + 1) m ext L hinv (by omega)
  obtain ⟨-, hsub, -, -⟩ := hrun.spec hinv
  refine ⟨L, mf, ?_, hrun, hinv, ?_⟩
  · rw [collectGarbage_eq]
    simp only [gcBody, hL, hloop]
    have := hsub.size
    rw [if_pos (by simp only [gcFinish, Mgr.len]; omega)]
  · intro k
    rw [hmem]
    constructor
    · rintro ⟨r, hr', h1, h2, -⟩
      exact ⟨h2, r, hr', h1⟩
    · rintro ⟨h1, r, hr', h3⟩
      exact ⟨r, hr', h3, h1, hk1 k h1⟩

theorem gcRoots_none_mem (m : Mgr) (k : Nat) : (∃ r ∈ gcRoots none m, r.natAbs = k) ↔ (m.ref[k]?).isSome := by
  simp only [gcRoots, List.mem_map]
  constructor
  · rintro ⟨r, ⟨j, hj, rfl⟩, h⟩
    rw [TreeMap.mem_keys, TreeMap.mem_iff_isSome_getElem?] at hj
    simp only [Int.natAbs_natCast] at h
    rw [← h]; exact hj
  · intro h
    refine ⟨(k : Int), ⟨k, ?_, rfl⟩, by simp⟩
    rw [TreeMap.mem_keys, TreeMap.mem_iff_isSome_getElem?]; exact h

/-! ### reachability -/

/-- nodes reachable from a set `S` of node numbers through stored edges of `t` -/
inductive GcReach (t : Tbl) (S : Nat → Prop) : Nat → Prop
  | root {u : Nat} : S u → GcReach t S u
  | lo {k : Nat} {n : Nd} : GcReach t S k → t.node? k = some n → GcReach t S n.lo.natAbs
  | hi {k : Nat} {n : Nd} : GcReach t S k → t.node? k = some n → GcReach t S n.hi.natAbs

/-- the user holds a reference to `u` -/
def GcHeld (ext : Nat → Nat) (u : Nat) : Prop := 0 < ext u

theorem GcSub.ext {m0 m : Mgr} (h : GcSub m0 m) : Ext m.tbl m0.tbl :=
  ⟨by simp only [Tbl.nvars, h.vars], h.sub⟩

/-- denotations in a sub-table whose nodes have their children: unchanged -/
theorem den_sub {m0 m : Mgr} (h : GcSub m0 m) (hw : WF m.tbl) (u : Int) (hu : m.tbl.Mem u) (a : Asg) :
    den m.tbl u a = den m0.tbl u a :=
  (den_ext h.ext hw u a hu).symm

/-- everything reachable from a held node survives any sequence of collection steps -/
theorem reach_survives {m0 m : Mgr} {ext : Nat → Nat} (hsub : GcSub m0 m) (hs : InvS m) (hr : RefExact m ext)
    (h0 : InvS m0) {u : Nat} (hu : GcReach m0.tbl (GcHeld ext) u) : u = 1 ∨ (m.tbl.node? u).isSome := by
  induction hu with
  | root h => exact hr.mem_of_ext_pos h
  | @lo k n _ hn ih =>
    have hk2 := h0.wf.ge_two _ _ hn
    rcases ih with h1 | h1
    · omega
    · obtain ⟨x, hx⟩ := Option.isSome_iff_exists.mp h1
      have : x = n := by have := hsub.sub k x hx; rw [hn] at this; cases this; rfl
      subst this
      exact hs.wf.lo_mem _ _ hx
  | @hi k n _ hn ih =>
    have hk2 := h0.wf.ge_two _ _ hn
    rcases ih with h1 | h1
    · omega
    · obtain ⟨x, hx⟩ := Option.isSome_iff_exists.mp h1
      have : x = n := by have := hsub.sub k x hx; rw [hn] at this; cases this; rfl
      subst this
      exact hs.wf.hi_mem _ _ hx

/-- if no node has count 0, every node is reachable from a held node -/
theorem survivor_reachable {m0 m : Mgr} {ext : Nat → Nat} (hsub : GcSub m0 m) (hs : InvS m) (hr : RefExact m ext)
    (hnz : ∀ k : Nat, m.ref[k]? ≠ some 0) :
    ∀ (l u : Nat) (n : Nd), m.tbl.node? u = some n → n.lvl = l → GcReach m0.tbl (GcHeld ext) u := by
  intro l
  induction l using Nat.strongRecOn with
  | _ l ih =>
    intro u n hn hl
    have hu2 := hs.wf.ge_two _ _ hn
    have hg := hr.get (u := (u : Int)) (Or.inr (by simp [hn]))
    simp only [Int.natAbs_natCast] at hg
    have hu1 : ¬ u = 1 := by omega
    simp only [hu1, if_false, Nat.add_zero] at hg
    by_cases he : 0 < ext u
    · exact GcReach.root he
    · have hpos : 0 < indeg m.tbl u := by
        cases hz : indeg m.tbl u with
        | zero =>
          exfalso
          have : ext u = 0 := by omega
          rw [hz, this] at hg
          exact hnz u hg
        | succ z => omega
      obtain ⟨k, x, hk, hch⟩ := indeg_pos hpos
      have hlev : ∀ e : Int, e.natAbs = u → m.tbl.levelOf e = n.lvl := by
        intro e he'
        apply levelOf_node
        · rw [he']; exact hu1
        · rw [he']; exact hn
      rcases hch with hc | hc
      · have hlt := hs.wf.lo_lt _ _ hk
        rw [hlev _ hc] at hlt
        have := ih x.lvl (by omega) k x hk rfl
        rw [← hc]
        exact GcReach.lo this (hsub.sub _ _ hk)
      · have hlt := hs.wf.hi_lt _ _ hk
        rw [hlev _ hc] at hlt
        have := ih x.lvl (by omega) k x hk rfl
        rw [← hc]
        exact GcReach.hi this (hsub.sub _ _ hk)

/-! ### the full collection -/

/-- what a full collection establishes (for ANY pop order, see `GcRun.fullPost`) -/
structure GcFullPost (m : Mgr) (ext : Nat → Nat) (m' : Mgr) : Prop where
  inv : Inv m'
  refExact : RefExact m' ext
  sub : GcSub m m'
  cacheEmpty : m'.cache = {}
  noZero : ∀ k : Nat, m'.ref[k]? ≠ some 0

theorem gcFinish_post {m mf : Mgr} {ext : Nat → Nat} (hi : GcInv mf ext []) (hsub : GcSub m mf) :
    Inv (gcFinish mf) ∧ RefExact (gcFinish mf) ext ∧ GcSub m (gcFinish mf) := by
  have hs : InvS (gcFinish mf) := ⟨hi.invS.wf, hi.invS.pred, hi.invS.freeGe, hi.invS.free⟩
  have hr : RefExact (gcFinish mf) ext := ⟨hi.refExact.dom, hi.refExact.cnt, hi.refExact.extZero⟩
  refine ⟨Inv.of_parts hs hr ?_, hr, ?_⟩
  · intro g u v w h
    simp [gcFinish] at h
  · exact ⟨hsub.sub, hsub.vars, hsub.l2v, hsub.lastLen, hsub.ctx, hsub.fireIn, hsub.sched, hsub.roots,
      hsub.predKeep, hsub.predGone, hsub.minLe, hsub.minRemoved, hsub.minIs, hsub.size⟩

/-- every run of the loop from a complete worklist, followed by the cache reset -/
theorem GcRun.fullPost {m mf : Mgr} {ext : Nat → Nat} {work : List Nat} (hrun : GcRun m work mf)
    (hi : GcInv m ext work) (hc : GcComplete m work) : GcFullPost m ext (gcFinish mf) := by
  obtain ⟨h1, h2, -, h4⟩ := hrun.spec hi
  obtain ⟨a, b, c⟩ := gcFinish_post h1 h2
  exact ⟨a, b, c, rfl, h4 hc⟩

/-- the remaining nodes are exactly the nodes reachable from a held node, each unchanged -/
theorem GcFullPost.nodes {m m' : Mgr} {ext : Nat → Nat} (h : GcFullPost m ext m') (h0 : InvS m)
    (u : Nat) (n : Nd) :
    m'.tbl.node? u = some n ↔ (m.tbl.node? u = some n ∧ GcReach m.tbl (GcHeld ext) u) := by
  constructor
  · intro hn
    exact ⟨h.sub.sub u n hn, survivor_reachable h.sub h.inv.toInvS h.refExact h.noZero n.lvl u n hn rfl⟩
  · rintro ⟨hn, hre⟩
    rcases reach_survives h.sub h.inv.toInvS h.refExact h0 hre with h1 | h1
    · have := h0.wf.ge_two _ _ hn; omega
    · obtain ⟨x, hx⟩ := Option.isSome_iff_exists.mp h1
      have := h.sub.sub u x hx
      rw [hn] at this; cases this; exact hx

/-- `nodes m' = {1} ∪ reach m {u | ext u > 0}` -/
theorem GcFullPost.mem_iff {m m' : Mgr} {ext : Nat → Nat} (h : GcFullPost m ext m') (h0 : InvS m) (u : Nat) :
    (u = 1 ∨ (m'.tbl.node? u).isSome) ↔ (u = 1 ∨ GcReach m.tbl (GcHeld ext) u) := by
  constructor
  · rintro (h1 | h1)
    · exact Or.inl h1
    · obtain ⟨x, hx⟩ := Option.isSome_iff_exists.mp h1
      exact Or.inr ((h.nodes h0 u x).mp hx).2
  · rintro (h1 | h1)
    · exact Or.inl h1
    · exact reach_survives h.sub h.inv.toInvS h.refExact h0 h1

/-- `collect_garbage()` (full): terminates without error and establishes `GcFullPost` -/
theorem collectGarbage_spec (m : Mgr) (ext : Nat → Nat) (hi : Inv m) (hr : RefExact m ext) :
    ∃ m', collectGarbage none m = (.ok (), m') ∧ GcFullPost m ext m' := by
  have hroots : ∀ r ∈ gcRoots none m, (m.ref[r.natAbs]?).isSome := by
    intro r hr'
    exact (gcRoots_none_mem m r.natAbs).mp ⟨r, hr', rfl⟩
  obtain ⟨unused, mf, hrun, hgr, hinv, hmem⟩ := collectGarbage_run none m ext hi.toInvS hr hroots
  refine ⟨gcFinish mf, hrun, hgr.fullPost hinv ?_⟩
  intro k hk
  rw [hmem]
  exact ⟨hk, (gcRoots_none_mem m k).mpr (by simp [hk])⟩

/-- whenever `collect_garbage` returns normally the computed table is empty (no hypothesis) -/
theorem collectGarbage_ok_cache (roots : Option (List Int)) (m m' : Mgr)
    (h : collectGarbage roots m = (.ok (), m')) : ∀ key : List Int, m'.cache[key]? = none := by
  rw [collectGarbage_eq] at h
  simp only [gcBody] at h
  revert h
  cases unusedOf (gcRoots roots m) m with
  | mk r1 m1 =>
    cases r1 with
    | error e => intro h; cases h
    | ok L =>
      simp only []
      cases gcLoop (m.tbl.succ.size + 1) L m1 with
      | mk r2 mf =>
        cases r2 with
        | error e => intro h; cases h
        | ok x =>
          simp only []
          split
          · intro h
            cases h
            intro key
            simp [gcFinish]
          · intro h; cases h

/-- `_min_free` is the least unused node number ≥ 2 -/
def LeastFree (m : Mgr) : Prop := ∀ k, 2 ≤ k → k < m.minFree → (m.tbl.node? k).isSome

theorem GcSub.leastFree {m m' : Mgr} (h : GcSub m m') (hl : LeastFree m) : LeastFree m' := by
  intro k hk2 hk
  have hle := h.minLe
  obtain ⟨x, hx⟩ := Option.isSome_iff_exists.mp (hl k hk2 (by omega))
  cases hk' : m'.tbl.node? k with
  | some y => rfl
  | none => have := h.minRemoved k x hx hk'; omega

end DD
