/-
  DDProofs.AutoDyn — discharge of the autoref hypotheses that involve REORDERING:
    * explicit `reorder()` / `reorder(order)` (C07), in every mode;
    * the decorated operations with dynamic reordering ENABLED (C09 transparency
      theorems), mode `off = false`, for held operands and declared names.
-/
import DDProofs.AutoCore
import DDProofs.AutoDyn
import DDProofs.DynSchedTotalOps
import DDProofs.SchedAutoCore
import DDProps.C09
open Std

namespace DD.S

/-! ### explicit reordering (C07) -/

/-- what C07 gives for a reordering that returned — or reported a schedule mismatch
(DDProofs.DynSchedKeep) -/
theorem minv_of_reorder {off : Bool} {ext : Nat → Nat} {m m' : Mgr} (hm : AutoMInv off ext m)
    (hR : ReorderInv ext m') (hrel : ReorderRel ext m m') :
    AutoMInv off ext m' ∧ HeldExt m.tbl m'.tbl ext := by
  refine ⟨⟨hR.inv, hR.order, hR.refExact, by rw [hrel.ctx]; exact hm.ctx,
    by rw [hrel.roots]; exact hm.roots, hm.mode.transfer hrel.lastLen (by rw [hrel.nvars]; exact Nat.le_refl _)⟩, ?_⟩
  intro u _ hpos
  have hx : HeldX ext u := Or.inr hpos
  exact ⟨hx.mem hR.refExact, fun σ =>
    heldX_denN_of_heldSame hm.inv hR.inv hm.counts hR.refExact hrel.held hx σ⟩

/-- `reorder(bdd)` (sifting) with at least two variables, ANY recorded schedule, every outcome -/
theorem reorder_sift_keepsAt {off : Bool} (m : Mgr) (h2 : 2 ≤ m.nvars) :
    CoreKeepsAt off m (reorder none) := by
  intro ext hm r m' he
  obtain ⟨r2, m2, hrun, _, hR, hrel⟩ := sift_every_outcome ext m hm.reorderInv h2
  rw [hrun] at he
  cases he
  exact minv_of_reorder hm hR hrel.toRel

/-- `reorder(bdd, order)` for a complete order of the declared variables, ANY recorded schedule,
every outcome (returned, or the model's schedule mismatch) -/
theorem reorder_order_keepsAt {off : Bool} (m : Mgr) (o : List (String × Int)) (ho : ReqOrder o m) :
    CoreKeepsAt off m (reorder (some o)) := by
  intro ext hm r m' he
  have hk := reorder_keepS ext m hm.reorderInv (some o)
  have hn := C07_reorder_order ext m hm.reorderInv o ho
  rw [he] at hk hn
  cases r with
  | ok u => exact minv_of_reorder hm hk.1 hk.2.toRel
  | error e =>
    have hes : e = Err.sched := hn
    exact minv_of_reorder hm (hk hes).1 (hk hes).2.toRel

theorem aReorder_sift_keepsAt {off : Bool} (a : AMgr) (h2 : 2 ≤ a.m.nvars) (h : Nat) :
    AKeepsAt off a h (aReorder none) :=
  aReorder_keepsAt a none (reorder_sift_keepsAt a.m h2) h

theorem aReorder_order_keepsAt {off : Bool} (a : AMgr) (o : List (String × Int)) (ho : ReqOrder o a.m)
    (h : Nat) : AKeepsAt off a h (aReorder (some o)) :=
  aReorder_keepsAt a (some o) (reorder_order_keepsAt a.m o ho) h

/-! ### dynamic reordering ENABLED (mode `off = false`) -/

/-- the ledger of exact counts is unique -/
theorem RefExact.ext_unique {m : Mgr} {ext ext' : Nat → Nat} (h : RefExact m ext) (h' : RefExact m ext') :
    ext = ext' := by
  funext k
  cases hr : m.ref[k]? with
  | none => rw [h.extZero k hr, h'.extZero k hr]
  | some c =>
    have h1 := h.cnt k c hr
    have h2 := h'.cnt k c hr
    omega

theorem AutoMInv.dynInvS {ext : Nat → Nat} {m : Mgr} (h : AutoMInv false ext m) : DynInvS ext m :=
  ⟨h.inv, h.order, h.counts, h.ctx, (fun r hr => by rw [h.roots] at hr; cases hr), h.mode.2 rfl⟩

theorem heldX_of_handle (a : AMgr) {j : Nat} {u : Int} (hj : a.handles[j]? = some u) : HeldX (hext a) u :=
  Or.inr (hext_pos_of_handle a j u hj)

theorem nodeIn_handle (hu : Nat) (a : AMgr) (u : Int) (h : (nodeIn hu a).1 = .ok u) :
    a.handles[hu]? = some u := by
  unfold nodeIn at h
  change (AM.bind' (nodeSame hu) _ a).1 = _ at h
  unfold AM.bind' at h
  have h1 := nodeSame_read hu a
  cases hx : nodeSame hu a with
  | mk r1 a1 =>
    rw [hx] at h h1
    simp only at h1
    subst h1
    cases r1 with
    | error e => simp only at h; cases h
    | ok u' =>
      have hh := nodeSame_handle hu a1 u' (by rw [hx])
      simp only at h
      change (AM.bind' AM.get _ a1).1 = _ at h
      unfold AM.bind' AM.get at h
      simp only at h
      change (AM.bind' (AM.check (a1.m.mem u') .value) _ a1).1 = _ at h
      unfold AM.bind' AM.check at h
      cases hm : a1.m.mem u' with
      | false => rw [hm] at h; simp [AM.throw] at h
      | true =>
        rw [hm] at h
        simp only [if_true, AM.pure'] at h
        change (Except.ok u' : Except Err Int) = _ at h
        cases h
        exact hh

/-- an operation with a single operand (`~`, `not`, `!`, or a refused call) never changes the manager -/
theorem apply_unary_state (op : String) (u : Int) (m : Mgr) : (apply op u none none m).2 = m := by
  unfold apply
  cases assertOperatorArity op none none with
  | error e => rfl
  | ok _ =>
    simp only
    repeat' split
    all_goals rfl

theorem apply_unary_keeps {off : Bool} (op : String) (u : Int) : CoreKeeps off (apply op u none none) :=
  CoreKeeps.of_read (apply_unary_state op u)

theorem optNode_some_handle (hv : Nat) (a : AMgr) (vo : Option Int)
    (h : (optNode nodeIn (some hv) a).1 = .ok vo) : ∃ v, vo = some v ∧ a.handles[hv]? = some v := by
  unfold optNode at h
  change (AM.bind' (nodeIn hv) _ a).1 = _ at h
  unfold AM.bind' at h
  have h1 := nodeIn_read hv a
  cases hx : nodeIn hv a with
  | mk r1 a1 =>
    rw [hx] at h h1
    simp only at h1
    subst h1
    cases r1 with
    | error e => simp only at h; cases h
    | ok v =>
      simp only at h
      change (Except.ok (some v) : Except Err (Option Int)) = _ at h
      cases h
      exact ⟨v, rfl, nodeIn_handle hv a1 v (by rw [hx])⟩

theorem optNode_none_val (a : AMgr) (wo : Option Int) (f : Nat → AM Int)
    (h : (optNode f none a).1 = .ok wo) : wo = none := by
  unfold optNode at h
  change (Except.ok none : Except Err (Option Int)) = _ at h
  cases h; rfl

/-- `~f` (any unary alias): never changes the manager, any mode -/
theorem fApply_unary_keeps {off : Bool} (op : String) (hs h : Nat) : AKeeps off h (fApply op hs none h) := by
  intro a
  show AKeepsAt off a h (fApply op hs none h)
  unfold fApply
  refine AKeepsAt.bind_read a (nodeOwn_read hs) (fun s _ => ?_)
  refine AKeepsAt.bind_read a (optNode_read nodeSame_read none) (fun o ho => ?_)
  have := optNode_none_val a o nodeSame ho
  subst this
  exact liftM_wrapF_keepsAt a ((apply_unary_keeps op s).at a.m) h

/-! ### `apply` with a quantifier alias, `let` with `Function` values, `declare` — reordering
possibly enabled -/

theorem varsOK_of_orderOK {t : Tbl} (h : OrderOK t) : VarsOK t := by
  refine ⟨h.total, fun i j hi hj he => ?_⟩
  obtain ⟨v, hv⟩ := h.total i hi
  obtain ⟨w, hw⟩ := h.total j hj
  have e1 : t.nameOf i = v := by simp [Tbl.nameOf, hv]
  have e2 : t.nameOf j = w := by simp [Tbl.nameOf, hw]
  rw [e1, e2] at he
  subst he
  have a := (h.inv v i).mpr hv
  have b := (h.inv v j).mpr hw
  rw [a] at b
  cases b; rfl

/-- `support(u)` of a stored node succeeds and returns declared names -/
theorem support_declared (m : Mgr) (hI : Inv m) (hO : OrderOK m.tbl) (u : Int) (hu : m.tbl.Mem u) :
    ∃ names, support m.tbl u = .ok names ∧ ∀ s ∈ names, m.tbl.vars.contains s = true := by
  obtain ⟨ls, _, _, hdep, hs⟩ := support_spec' hI.wf (varsOK_of_orderOK hO) u hu
  refine ⟨_, hs, fun s hs' => ?_⟩
  obtain ⟨i, hi, rfl⟩ := List.mem_map.mp hs'
  have hlt : i < m.tbl.nvars := dependsOn_lt_nvars hI.wf hu ((hdep i).mp hi)
  have hl := (varsOK_of_orderOK hO).l2v_eq hlt
  have hv := (hO.inv _ i).mpr hl
  rw [TreeMap.contains_eq_isSome_getElem?, hv]; rfl

/-- the values of `let` that are `Function`s of this manager -/
theorem nodesAny_own (a : AMgr) : ∀ (d : List (String × Nat)) (l : List (String × Int)),
    (∀ p ∈ d, ∃ v, a.handles[p.2]? = some v) → (nodesAny d a).1 = .ok l →
    l.map (·.1) = d.map (·.1) ∧ ∀ p ∈ l, HeldX (hext a) p.2
  | [], l, _, h => by
    change (Except.ok [] : Except Err (List (String × Int))) = .ok l at h
    cases h
    exact ⟨rfl, fun p hp => nomatch hp⟩
  | (k, hv) :: rest, l, hown, h => by
    unfold nodesAny at h
    change (AM.bind' (nodeAny hv) _ a).1 = _ at h
    unfold AM.bind' at h
    have hr := nodeAny_read hv a
    obtain ⟨v, hvh⟩ := hown (k, hv) List.mem_cons_self
    have hx : nodeAny hv a = (.ok v, a) := by unfold nodeAny; rw [hvh]
    rw [hx] at h
    simp only at h
    change (AM.bind' (nodesAny rest) _ a).1 = _ at h
    unfold AM.bind' at h
    have hr2 := nodesAny_read rest a
    cases hx2 : nodesAny rest a with
    | mk r2 a2 =>
      rw [hx2] at h hr2
      simp only at hr2
      subst hr2
      cases r2 with
      | error e => simp only at h; cases h
      | ok l' =>
        simp only at h
        change (Except.ok ((k, v) :: l') : Except Err (List (String × Int))) = .ok l at h
        cases h
        obtain ⟨e1, e2⟩ := nodesAny_own a2 rest l'
          (fun p hp => hown p (List.mem_cons_of_mem _ hp)) (by rw [hx2])
        refine ⟨by simp [e1], fun p hp => ?_⟩
        rcases List.mem_cons.mp hp with rfl | hp'
        · exact heldX_of_handle a2 hvh
        · exact e2 p hp'

/-- sequencing of core operations, one start state -/
theorem CoreKeepsAt.bind {off : Bool} {α β : Type} {x : M α} {f : α → M β} {m : Mgr}
    (hx : CoreKeepsAt off m x)
    (hf : ∀ v m1, x m = (.ok v, m1) → CoreKeepsAt off m1 (f v)) : CoreKeepsAt off m (x >>= f) := by
  intro ext hm r m' he
  have e : (x >>= f) m = M.bind' x f m := rfl
  rw [e] at he
  unfold M.bind' at he
  cases hxm : x m with
  | mk r1 m1 =>
    rw [hxm] at he
    obtain ⟨i1, h1⟩ := hx ext hm r1 m1 hxm
    cases r1 with
    | error e' => simp only at he; cases he; exact ⟨i1, h1⟩
    | ok v =>
      simp only at he
      obtain ⟨i2, h2⟩ := hf v m1 hxm ext i1 r m' he
      exact ⟨i2, h1.trans h2⟩

theorem CoreKeepsAt.pure {off : Bool} {α : Type} (v : α) (m : Mgr) : CoreKeepsAt off m (pure v : M α) := by
  intro ext hm r m' he
  cases he
  exact ⟨hm, HeldExt.refl _ _⟩

/-- `declare(*names)` in EVERY mode (`add_var` never reorders) -/
theorem declare_keeps {off : Bool} (names : List String) : CoreKeeps off (declare names) := by
  refine ⟨fun m => ?_⟩
  unfold declare
  refine CoreKeepsAt.bind ?_ (fun _ m1 _ => CoreKeepsAt.pure _ m1)
  induction names generalizing m with
  | nil => exact CoreKeepsAt.pure _ m
  | cons v rest ih =>
    rw [List.forIn_cons]
    refine CoreKeepsAt.bind (CoreKeepsAt.bind (addVar_keepsAt m v none (fun l hl => nomatch hl))
      (fun _ m1 _ => CoreKeepsAt.pure _ m1)) (fun s m1 _ => ?_)
    cases s with
    | done b => exact CoreKeepsAt.pure _ m1
    | yield b => exact ih m1

theorem aDeclare_keepsAll {off : Bool} (ns : List String) (h : Nat) : AKeeps off h (aDeclare ns) :=
  aDeclare_keeps ns (declare_keeps ns) h

end DD.S
