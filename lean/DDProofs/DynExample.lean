/-
  DDProofs.DynExample — non-vacuity of the hypotheses of the transparency theorems on the
  concrete manager `exM` of DDProofs.GcExample (variables `a`, `b`; nodes 2 = `a`, 3 = `b`,
  4 = `a ∧ b`; the user holds node 4):
  * `exM` (with dynamic reordering switched on) satisfies `DynInv`;
  * the conclusion of `SiftContract.run` HOLDS for `exM` (by evaluation of the model's
    `reorder`): the contract is satisfiable on a concrete state;
  * on that state a reordering request does fire inside the decorated `ite`, sifting runs,
    the retry succeeds — the retry path of the theorems is inhabited.
-/
import DDProofs.DynApply
open Std

namespace DD

/-! ### `exM` between two calls -/

theorem exM_orderOK : OrderOK exM.tbl := by
  have hk : exM.tbl.vars.keys = ["a", "b"] := by decide
  have hl : exM.tbl.l2v.keys = [0, 1] := by decide
  have ha : exM.tbl.vars["a"]? = some 0 := by decide
  have hb : exM.tbl.vars["b"]? = some 1 := by decide
  have h0 : exM.tbl.l2v[0]? = some "a" := by decide
  have h1 : exM.tbl.l2v[1]? = some "b" := by decide
  have hn : exM.tbl.nvars = 2 := by decide
  refine ⟨?_, ?_, ?_⟩
  · intro v i
    constructor
    · intro h
      have := getElem?_mem_keys _ _ _ h
      rw [hk] at this
      simp only [List.mem_cons, List.not_mem_nil, or_false] at this
      rcases this with rfl | rfl
      · rw [ha] at h; cases h; exact h0
      · rw [hb] at h; cases h; exact h1
    · intro h
      have := getElem?_mem_keys _ _ _ h
      rw [hl] at this
      simp only [List.mem_cons, List.not_mem_nil, or_false] at this
      rcases this with rfl | rfl
      · rw [h0] at h; cases h; exact ha
      · rw [h1] at h; cases h; exact hb
  · intro v i h
    have := getElem?_mem_keys _ _ _ h
    rw [hk] at this
    simp only [List.mem_cons, List.not_mem_nil, or_false] at this
    rw [hn]
    rcases this with rfl | rfl
    · rw [ha] at h; cases h; omega
    · rw [hb] at h; cases h; omega
  · intro i hi
    rw [hn] at hi
    match i, hi with
    | 0, _ => exact ⟨"a", h0⟩
    | 1, _ => exact ⟨"b", h1⟩

theorem exM_dynInv : DynInv exExt exM :=
  ⟨exM_inv, exM_orderOK, exM_refExact, by decide, by decide, (by intro r hr; cases hr), by decide⟩

/-- `exM` with dynamic reordering switched on and a request due at the next `find_or_add` -/
def exDyn : Mgr := { exM with lastLen := some 1, fireIn := some 1 }

theorem exDyn_dynInv : DynInv exExt exDyn :=
  ⟨⟨exM_inv.wf, exM_inv.pred, exM_inv.freeGe, exM_inv.free, exM_inv.refOne, exM_inv.refDom,
    exM_inv.cache⟩, exM_orderOK, exM_refExact.congr rfl rfl, exM_dynInv.ctx, exM_dynInv.sched,
   exM_dynInv.roots, exM_dynInv.nvars⟩

theorem exExt_held4 : HeldX exExt 4 := Or.inr (by decide)

/-! ### the state after sifting `exM` -/

/-- the state `reorder(bdd)` leaves (node 2 collected; the order happens to be unchanged) -/
@[irreducible] def exS : Mgr := (reorder none exM).2

theorem exS_run : reorder none exM = (.ok (), exS) := by
  have h : (reorder none exM).1.toOption = some () := by decide +kernel
  unfold exS
  generalize reorder none exM = res at h
  obtain ⟨r, m'⟩ := res
  cases r with
  | ok x => rfl
  | error e => cases h

theorem exS_nodes (u : Nat) (n : Nd) (h : exS.tbl.node? u = some n) :
    (u = 3 ∧ n = ⟨1, -1, 1⟩) ∨ (u = 4 ∧ n = ⟨0, -1, 3⟩) := by
  have hb : exS.tbl.bound = 5 := by decide +kernel
  have := exS.tbl.lt_bound h
  rw [hb] at this
  have h0 : exS.tbl.node? 0 = none := by decide +kernel
  have h1 : exS.tbl.node? 1 = none := by decide +kernel
  have h2 : exS.tbl.node? 2 = none := by decide +kernel
  have h3 : exS.tbl.node? 3 = some ⟨1, -1, 1⟩ := by decide +kernel
  have h4 : exS.tbl.node? 4 = some ⟨0, -1, 3⟩ := by decide +kernel
  match u, this with
  | 0, _ => rw [h0] at h; cases h
  | 1, _ => rw [h1] at h; cases h
  | 2, _ => rw [h2] at h; cases h
  | 3, _ => rw [h3] at h; cases h; exact Or.inl ⟨rfl, rfl⟩
  | 4, _ => rw [h4] at h; cases h; exact Or.inr ⟨rfl, rfl⟩

theorem exS_inv : Inv exS := by
  have hwf : WF exS.tbl := by
    refine ⟨?_, ?_, ?_, ?_, ?_, ?_, ?_, ?_⟩ <;> intro u n h <;>
      rcases exS_nodes u n h with ⟨rfl, rfl⟩ | ⟨rfl, rfl⟩ <;> decide +kernel
  refine ⟨⟨hwf, ?_⟩, ?_, by decide +kernel, by decide +kernel, by decide +kernel, ?_, ?_⟩
  · intro u u' n h h'
    rcases exS_nodes u n h with ⟨rfl, rfl⟩ | ⟨rfl, rfl⟩ <;>
      rcases exS_nodes u' _ h' with ⟨rfl, h2⟩ | ⟨rfl, h2⟩ <;> first | rfl | cases h2
  · intro n u
    constructor
    · intro h
      have hk := getElem?_mem_keys _ _ _ h
      have hkeys : exS.pred.keys = [[0, -1, 3], [1, -1, 1]] := by decide +kernel
      rw [hkeys] at hk
      simp only [List.mem_cons, List.not_mem_nil, or_false] at hk
      rcases hk with hk | hk
      · have : n = ⟨0, -1, 3⟩ := Nd.key_inj (by rw [hk]; rfl)
        subst this
        have : exS.pred[(⟨0, -1, 3⟩ : Nd).key]? = some 4 := by decide +kernel
        rw [this] at h; cases h; decide +kernel
      · have : n = ⟨1, -1, 1⟩ := Nd.key_inj (by rw [hk]; rfl)
        subst this
        have : exS.pred[(⟨1, -1, 1⟩ : Nd).key]? = some 3 := by decide +kernel
        rw [this] at h; cases h; decide +kernel
    · intro h
      rcases exS_nodes u n h with ⟨rfl, rfl⟩ | ⟨rfl, rfl⟩ <;> decide +kernel
  · intro u n h
    rcases exS_nodes u n h with ⟨rfl, rfl⟩ | ⟨rfl, rfl⟩ <;> decide +kernel
  · intro g u v w h
    have hk := getElem?_mem_keys _ _ _ h
    have hkeys : exS.cache.keys = [] := by decide +kernel
    rw [hkeys] at hk; cases hk

theorem exS_orderOK : OrderOK exS.tbl := by
  have hk : exS.tbl.vars.keys = ["a", "b"] := by decide +kernel
  have hl : exS.tbl.l2v.keys = [0, 1] := by decide +kernel
  have ha : exS.tbl.vars["a"]? = some 0 := by decide +kernel
  have hb : exS.tbl.vars["b"]? = some 1 := by decide +kernel
  have h0 : exS.tbl.l2v[0]? = some "a" := by decide +kernel
  have h1 : exS.tbl.l2v[1]? = some "b" := by decide +kernel
  have hn : exS.tbl.nvars = 2 := by decide +kernel
  refine ⟨?_, ?_, ?_⟩
  · intro v i
    constructor
    · intro h
      have := getElem?_mem_keys _ _ _ h
      rw [hk] at this
      simp only [List.mem_cons, List.not_mem_nil, or_false] at this
      rcases this with rfl | rfl
      · rw [ha] at h; cases h; exact h0
      · rw [hb] at h; cases h; exact h1
    · intro h
      have := getElem?_mem_keys _ _ _ h
      rw [hl] at this
      simp only [List.mem_cons, List.not_mem_nil, or_false] at this
      rcases this with rfl | rfl
      · rw [h0] at h; cases h; exact ha
      · rw [h1] at h; cases h; exact hb
  · intro v i h
    have := getElem?_mem_keys _ _ _ h
    rw [hk] at this
    simp only [List.mem_cons, List.not_mem_nil, or_false] at this
    rw [hn]
    rcases this with rfl | rfl
    · rw [ha] at h; cases h; omega
    · rw [hb] at h; cases h; omega
  · intro i hi
    rw [hn] at hi
    match i, hi with
    | 0, _ => exact ⟨"a", h0⟩
    | 1, _ => exact ⟨"b", h1⟩

theorem exS_refExact : RefExact exS exExt := by
  have hkeys : exS.ref.keys = [1, 3, 4] := by decide +kernel
  have hmem : ∀ u c, exS.ref[u]? = some c → u = 1 ∨ u = 3 ∨ u = 4 := by
    intro u c h
    have hk := getElem?_mem_keys _ _ _ h
    rw [hkeys] at hk
    simpa using hk
  refine ⟨?_, ?_, ?_⟩
  · intro u
    constructor
    · intro h
      obtain ⟨c, hc⟩ := Option.isSome_iff_exists.mp h
      rcases hmem u c hc with rfl | rfl | rfl <;> decide +kernel
    · rintro (rfl | h)
      · decide +kernel
      · obtain ⟨n, hn⟩ := Option.isSome_iff_exists.mp h
        rcases exS_nodes u n hn with ⟨rfl, rfl⟩ | ⟨rfl, rfl⟩ <;> decide +kernel
  · intro u c hc
    rcases hmem u c hc with rfl | rfl | rfl
    · have : exS.ref[1]? = some 4 := by decide +kernel
      rw [this] at hc; cases hc; decide +kernel
    · have : exS.ref[3]? = some 1 := by decide +kernel
      rw [this] at hc; cases hc; decide +kernel
    · have : exS.ref[4]? = some 1 := by decide +kernel
      rw [this] at hc; cases hc; decide +kernel
  · intro u h
    by_cases h4 : u = 4
    · subst h4
      have : exS.ref[4]? = some 1 := by decide +kernel
      rw [this] at h; cases h
    · simp [exExt, h4]

theorem exS_dynInv : DynInv exExt exS :=
  ⟨exS_inv, exS_orderOK, exS_refExact, by decide +kernel, by decide +kernel, (by
    have : exS.roots = [] := by decide +kernel
    intro r hr; rw [this] at hr; cases hr), by decide +kernel⟩

/-- every node the sifting kept is the node it was -/
theorem exS_sub : Ext exS.tbl exM.tbl := by
  refine ⟨by decide +kernel, ?_⟩
  intro u n h
  rcases exS_nodes u n h with ⟨rfl, rfl⟩ | ⟨rfl, rfl⟩ <;> decide +kernel

theorem contains_of_keys {t : TreeMap String Nat} {ks : List String} (hk : t.keys = ks) (s : String) :
    t.contains s = ks.contains s := by
  rw [← hk, TreeMap.contains_keys]

/-- the CONCLUSION of `SiftContract.run` holds for the concrete state `exM`: sifting returns
normally in a state satisfying `DynInv` for the same ledger, with requests still disabled, the
same variables, and the user's references denote the same functions of the variable names.
(`SiftContract` is therefore satisfiable at least here; in general it is the statement of C07.) -/
theorem siftContract_conclusion_exM :
    ∃ m', reorder none exM = (.ok (), m') ∧ DynInv exExt m' ∧ m'.lastLen = none ∧
      m'.nvars = exM.nvars ∧
      (∀ s, m'.tbl.vars.contains s = exM.tbl.vars.contains s) ∧
      ∀ u : Int, HeldX exExt u → ∀ σ, denN m'.tbl u σ = denN exM.tbl u σ := by
  refine ⟨exS, exS_run, exS_dynInv, by decide +kernel, by decide +kernel, ?_, ?_⟩
  · intro s
    rw [contains_of_keys (ks := ["a", "b"]) (by decide +kernel) s,
      contains_of_keys (ks := ["a", "b"]) (by decide +kernel) s]
  · intro u hu σ
    have hm : exS.tbl.Mem u := hu.mem exS_refExact
    have hl : exM.tbl.l2v[0]? = exS.tbl.l2v[0]? ∧ exM.tbl.l2v[1]? = exS.tbl.l2v[1]? := by decide +kernel
    -- same value under every level assignment (the kept nodes are unchanged), and the two
    -- tables name the two levels alike
    unfold denN
    rw [den_ext exS_sub exS_inv.wf.toWF u _ hm]
    apply den_agree_ge exS.tbl exS_inv.wf.toWF u hm
    intro i _ hi
    have hn : exS.tbl.nvars = 2 := by decide +kernel
    rw [hn] at hi
    show σ (exS.tbl.nameOf i) = σ (exM.tbl.nameOf i)
    unfold Tbl.nameOf
    match i, hi with
    | 0, _ => rw [← hl.1]
    | 1, _ => rw [← hl.2]

/-! ### the retry path is inhabited -/

/-- inside the context the first attempt of `ite(4, 3, -1)` on `exDyn` is aborted by the request -/
theorem exDyn_first_attempt_aborts :
    (iteRaw 4 3 (-1) { exDyn with ctx := true }).1.toOption = none := by decide +kernel

/-- and the decorated call returns normally (request served: sifting, retry) with the reference
of `a ∧ b`, reordering still enabled -/
theorem exDyn_ite_ok :
    (ite 4 3 (-1) exDyn).1.toOption = some 4 ∧ (ite 4 3 (-1) exDyn).2.lastLen = some 6 ∧
      (ite 4 3 (-1) exDyn).2.ctx = false := by decide +kernel

end DD
