/-
  DDProofs.DynExpr — `BDD.add_expr` with dynamic reordering enabled.

  `add_expr` is decorated with `_try_to_reorder`; its body parses the text and evaluates the
  tree bottom-up by calling the PUBLIC decorated operations (`var`, `apply`, `quantify`,
  `rename`).  Those calls are NESTED in the context of `add_expr`: their own decorators run the
  body and re-raise every exception, the reordering signal included (`Outcome.nested`).  So the
  whole evaluation has an abort-aware outcome — the reference of the documented meaning of the
  tree (`evalFormula`, by variable NAME), or an abort by a reordering request having only added
  nodes — proved here by induction on the tree (`evalAst_out`).  The decorated `add_expr` is then
  an instance of the generic transparency theorem: the request may fire at whichever
  `find_or_add` of whichever nested operation; sifting runs in the wrapper of `add_expr`, and the
  evaluation is retried from the start.

  The intermediate results of the evaluation are not referenced (the translator holds plain
  integers).  That is harmless: no sifting (hence no collection) happens in the middle of an
  evaluation — an abort leaves only unreferenced nodes behind, sifting collects them, and the
  retry starts from the `@n` operands, which the user holds.
-/
import DDProofs.DynCube
import DDProofs.ParseSem
open Std

namespace DD

/-! ### name assignments read through `asgOf` and through `Tbl.lift` -/

/-- the two readings of a name assignment as a level assignment agree on the declared levels -/
theorem denN_eq_asgOf {t : Tbl} (hw : WF t) (hO : OrderOK t) (u : Int) (hu : t.Mem u) (σ : AsgN) :
    denN t u σ = den t u (asgOf t σ) := by
  unfold denN
  apply den_agree_ge t hw u hu
  intro i _ hi
  obtain ⟨v, hv⟩ := hO.total i hi
  simp [Tbl.lift, Tbl.nameOf, asgOf, hv]

/-! ### quantification over names: the predicate of `QuantDoc` is the expansion of `evalFormula` -/

theorem qsemN_nil (fa : Bool) (F : AsgN → Bool) (σ : AsgN) : qsemN fa [] F σ ↔ F σ = true := by
  have heq : ∀ τ : AsgN, (∀ s, s ∉ ([] : List String) → τ s = σ s) → τ = σ :=
    fun τ h => funext fun s => h s (by simp)
  cases fa with
  | true =>
    simp only [qsemN]
    exact ⟨fun h => h σ (fun _ _ => rfl), fun h τ hτ => by rw [heq τ hτ]; exact h⟩
  | false =>
    simp only [qsemN]
    exact ⟨fun ⟨τ, hτ, h⟩ => by rw [← heq τ hτ]; exact h, fun h => ⟨σ, fun _ _ => rfl, h⟩⟩

theorem agree_upd_of_cons {x : String} {xs : List String} {τ σ : AsgN} (b : Bool)
    (h : ∀ s, s ∉ xs → τ s = updName σ x b s) : ∀ s, s ∉ x :: xs → τ s = σ s := by
  intro s hs
  have hx : s ≠ x := fun e => hs (by simp [e])
  have hxs : s ∉ xs := fun e => hs (by simp [e])
  rw [h s hxs]
  simp [updName, hx]

theorem agree_cons_upd {x : String} {xs : List String} {τ σ : AsgN}
    (h : ∀ s, s ∉ x :: xs → τ s = σ s) : ∀ s, s ∉ xs → τ s = updName σ x (τ x) s := by
  intro s hs
  by_cases hx : s = x
  · subst hx; simp [updName]
  · rw [h s (by simp [hx, hs])]
    simp [updName, hx]

theorem qsemN_cons (fa : Bool) (x : String) (xs : List String) (F : AsgN → Bool) (σ : AsgN) :
    qsemN fa (x :: xs) F σ ↔
      (match fa with
       | true => qsemN true xs F (updName σ x false) ∧ qsemN true xs F (updName σ x true)
       | false => qsemN false xs F (updName σ x false) ∨ qsemN false xs F (updName σ x true)) := by
  cases fa with
  | true =>
    simp only [qsemN]
    constructor
    · intro h
      exact ⟨fun τ hτ => h τ (agree_upd_of_cons false hτ), fun τ hτ => h τ (agree_upd_of_cons true hτ)⟩
    · intro ⟨h0, h1⟩ τ hτ
      have := agree_cons_upd hτ
      cases hb : τ x with
      | false => rw [hb] at this; exact h0 τ this
      | true => rw [hb] at this; exact h1 τ this
  | false =>
    simp only [qsemN]
    constructor
    · intro ⟨τ, hτ, hF⟩
      have := agree_cons_upd hτ
      cases hb : τ x with
      | false => rw [hb] at this; exact Or.inl ⟨τ, this, hF⟩
      | true => rw [hb] at this; exact Or.inr ⟨τ, this, hF⟩
    · intro h
      rcases h with ⟨τ, hτ, hF⟩ | ⟨τ, hτ, hF⟩
      · exact ⟨τ, agree_upd_of_cons false hτ, hF⟩
      · exact ⟨τ, agree_upd_of_cons true hτ, hF⟩

/-- quantification over a list of names (the predicate of `QuantDoc`) is the expansion over the
two values of each name (what `evalFormula` computes for `\A` / `\E`) -/
theorem qsemN_iff_quantNames (fa : Bool) (F : AsgN → Bool) :
    ∀ (ns : List String) (σ : AsgN), qsemN fa ns F σ ↔ quantNames fa ns F σ = true := by
  intro ns
  induction ns with
  | nil => intro σ; simp only [quantNames]; exact qsemN_nil fa F σ
  | cons x xs ih =>
    intro σ
    rw [qsemN_cons]
    simp only [quantNames]
    cases fa with
    | true =>
      simp only [if_true, Bool.and_eq_true]
      rw [ih, ih]
    | false =>
      simp only [Bool.false_eq_true, if_false, Bool.or_eq_true]
      rw [ih, ih]

/-! ### the operations the translator calls, NESTED in the context of `add_expr` -/

/-- `apply('ite', u, v, w)` inside a context or with requests disabled: the conditional, or abort
having only added nodes -/
theorem apply_ite_out (m : Mgr) (hI : Inv m) (hq : Quiet m) (op : String)
    (hc : docConn op = some .ite) (hall : Gen.allOps.contains op = true) (u v w : Int)
    (mu : m.tbl.Mem u) (mv : m.tbl.Mem v) (mw : m.tbl.Mem w) :
    Outcome m (fun r m' => m'.tbl.Mem r ∧
        ∀ a, den m'.tbl r a = if den m.tbl u a then den m.tbl v a else den m.tbl w a)
      (apply op u (some v) (some w) m) := by
  have hW := hI.wf.toWF
  obtain ⟨row, a, b, d, hrow, ht, hoa, hob, hod, husesw, htab⟩ := table_ternary op hc hall
  have hv' := vocab_complete
  unfold vocabComplete at hv'
  simp only [Bool.and_eq_true, List.all_eq_true] at hv'
  have hmem : op ∈ Gen.allOps := by simpa using hall
  have har := hv'.2 op hmem
  rw [hc] at har
  simp only [Conn.arity, Bool.and_eq_true, beq_iff_eq] at har
  have hun : Gen.unaryOps.contains op = false := by
    have := har.1.1; simpa using this.symm
  have hbi : Gen.binaryOps.contains op = false := by
    have := har.1.2; simpa using this.symm
  have hte : Gen.ternaryOps.contains op = true := by
    have := har.2; simpa using this.symm
  have harity : assertOperatorArity op (some v) (some w) = .ok () := by
    unfold assertOperatorArity
    rw [hall, hun, hbi, hte]
    rfl
  obtain ⟨xa, hxa, mxa, dxa⟩ := atomVal_den3 m.tbl hW u v w mu mv mw a hoa
  obtain ⟨xb, hxb, mxb, dxb⟩ := atomVal_den3 m.tbl hW u v w mu mv mw b hob
  obtain ⟨xd, hxd, mxd, dxd⟩ := atomVal_den3 m.tbl hW u v w mu mv mw d hod
  have heq : apply op u (some v) (some w) m = ite xa xb xd m := by
    unfold apply
    have hmu : m.mem u = true := (Mgr.mem_iff m u).mpr mu
    have hmv : m.mem v = true := (Mgr.mem_iff m v).mpr mv
    have hmw : m.mem w = true := (Mgr.mem_iff m w).mpr mw
    simp only [harity, hmu, hmv, hmw, optNotMem, Bool.not_true, Bool.false_eq_true, if_false, hrow, ht,
      husesw, if_true, hxa, hxb, hxd]
  rw [heq]
  refine (ite_nested_spec m hI hq xa xb xd mxa mxb mxd).mono ?_
  intro r m' _ hp
  refine ⟨hp.mem, fun asg => ?_⟩
  rw [hp.den asg, dxa asg, dxb asg, dxd asg]
  exact htab _ _ _

/-- `m'.lift` is `m.lift` along a step (the name maps are untouched) -/
theorem StepK.lift {m m' : Mgr} (hs : StepK m m') (σ : AsgN) : m'.tbl.lift σ = m.tbl.lift σ := by
  unfold Tbl.lift Tbl.nameOf; rw [hs.frame.l2v]

theorem StepK.ctx {m m' : Mgr} (hs : StepK m m') (hc : m.ctx = true) : m'.ctx = true := by
  rw [hs.frame.ctx]; exact hc

/-! ### the bottom-up evaluation: abort-aware, by induction on the tree -/

/-- what the evaluation of the tree `t` started in `m` returns: a reference that denotes, by
variable name, the documented meaning of `t` (the `@n` read in `m`) -/
def EvPost (m : Mgr) (t : Ast) (r : Int) (m' : Mgr) : Prop :=
  m'.tbl.Mem r ∧ ∀ σ, denN m'.tbl r σ = evalFormula m.tbl t σ

/-- the evaluation of a meaningful tree inside a reordering context: every node of the tree is a
decorated operation nested in the context (= the outcome of its body), so the whole evaluation
either returns the reference of `evalFormula`, or is aborted by a reordering request — fired at
whichever `find_or_add` of whichever operation — having only added nodes. -/
theorem evalAst_out : ∀ (t : Ast) (m : Mgr), Inv m → m.ctx = true → OrderOK m.tbl →
    Meaningful m.tbl t → Outcome m (EvPost m t) (evalAst t m) := by
  intro t
  induction t with
  | var x =>
    intro m hI hc hO hM
    simp only [evalAst]
    refine (var_nested_out m hI hc hO x hM).mono ?_
    intro g m' _ hp
    exact ⟨hp.1, fun σ => hp.2 σ⟩
  | bool b =>
    intro m hI _ _ _
    cases b
    · exact ⟨StepK.refl hI, mem_neg_one _, fun σ => den_neg_one _ _⟩
    · exact ⟨StepK.refl hI, mem_one _, fun σ => den_one _ _⟩
  | num neg d =>
    intro m hI _ hO hM
    rw [C05_at_n_aux]
    simp only [(Mgr.mem_iff m _).mpr hM, if_true]
    exact ⟨StepK.refl hI, hM, fun σ => denN_eq_asgOf hI.wf.toWF hO _ hM σ⟩
  | not e ih =>
    intro m hI hc hO hM
    simp only [evalAst]
    refine Outcome.bind (ih m hI hc hO hM) ?_
    intro u m1 hs1 ⟨hu, hd⟩
    obtain ⟨ha, hmn, hdn⟩ := apply_not_spec m1 hs1.inv "!" (by decide) (by decide) u hu
    rw [ha]
    refine ⟨StepK.refl hs1.inv, fun _ => ⟨hmn, fun σ => ?_⟩⟩
    unfold denN
    rw [hdn]
    have := hd σ
    unfold denN at this
    rw [this]
    rfl
  | bin o l r ihl ihr =>
    intro m hI hc hO hM
    obtain ⟨ho, hMl, hMr⟩ := hM
    have hW := hI.wf.toWF
    simp only [evalAst]
    refine Outcome.bind (ihl m hI hc hO hMl) ?_
    intro u m1 hs1 ⟨hu, hdu⟩
    have hW1 := hs1.inv.wf.toWF
    refine Outcome.bind (ihr m1 hs1.inv (hs1.ctx hc) (hO.frame hs1.frame) (hMr.step hs1.step)) ?_
    intro v m2 hs2 ⟨hv, hdv⟩
    obtain ⟨c, hcn, h2, hq1, hq2, hall, hsem⟩ := binop_conn o ho
    refine (apply_binary_out m2 hs2.inv (Or.inl (hs2.ctx (hs1.ctx hc))) o.value c hcn h2 hq1 hq2 hall
      u v (hs2.ext.mem hu) hv).mono ?_
    intro w m3 hs3 ⟨hw, hdw⟩ _ _
    refine ⟨hw, fun σ => ?_⟩
    unfold denN
    rw [hdw, hsem, hs3.lift σ]
    have e1 : den m2.tbl u (m2.tbl.lift σ) = evalFormula m.tbl l σ := by
      have := hs2.denN hW1 hu σ
      unfold denN at this
      rw [this]
      exact hdu σ
    have e2 : den m2.tbl v (m2.tbl.lift σ) = evalFormula m.tbl r σ := by
      have := hdv σ
      unfold denN at this
      rw [this, evalFormula_step hI hs1.step r hMr]
    rw [e1, e2]
    rfl
  | ite a b c iha ihb ihc =>
    intro m hI hc hO hM
    obtain ⟨hMa, hMb, hMc⟩ := hM
    have hW := hI.wf.toWF
    simp only [evalAst]
    refine Outcome.bind (iha m hI hc hO hMa) ?_
    intro u m1 hs1 ⟨hu, hdu⟩
    have hW1 := hs1.inv.wf.toWF
    have hc1 := hs1.ctx hc
    refine Outcome.bind (ihb m1 hs1.inv hc1 (hO.frame hs1.frame) (hMb.step hs1.step)) ?_
    intro v m2 hs2 ⟨hv, hdv⟩
    have hW2 := hs2.inv.wf.toWF
    have hc2 := hs2.ctx hc1
    have hs12 := hs1.trans hs2
    refine Outcome.bind (ihc m2 hs2.inv hc2 (hO.frame hs12.frame) (hMc.step hs12.step)) ?_
    intro w m3 hs3 ⟨hw, hdw⟩
    have hu2 : m2.tbl.Mem u := hs2.ext.mem hu
    refine (apply_ite_out m3 hs3.inv (Or.inl (hs3.ctx hc2)) "ite" (by decide) (by decide) u v w
      (hs3.ext.mem hu2) (hs3.ext.mem hv) hw).mono ?_
    intro x m4 hs4 ⟨hx, hdx⟩ _ _ _
    refine ⟨hx, fun σ => ?_⟩
    unfold denN
    rw [hdx, hs4.lift σ]
    have e1 : den m3.tbl u (m3.tbl.lift σ) = evalFormula m.tbl a σ := by
      have h3 := hs3.denN hW2 hu2 σ
      have h2 := hs2.denN hW1 hu σ
      unfold denN at h3 h2
      rw [h3, h2]
      exact hdu σ
    have e2 : den m3.tbl v (m3.tbl.lift σ) = evalFormula m.tbl b σ := by
      have h3 := hs3.denN hW2 hv σ
      have h2 := hdv σ
      unfold denN at h3 h2
      rw [h3, h2, evalFormula_step hI hs1.step b hMb]
    have e3 : den m3.tbl w (m3.tbl.lift σ) = evalFormula m.tbl c σ := by
      have h3 := hdw σ
      unfold denN at h3
      rw [h3, evalFormula_step hI hs12.step c hMc]
    rw [e1, e2, e3]
    rfl
  | quant fa ns e ih =>
    intro m hI hc hO hM
    obtain ⟨hns, hMe⟩ := hM
    simp only [evalAst]
    refine Outcome.bind (ih m hI hc hO hMe) ?_
    intro u m1 hs1 ⟨hu, hdu⟩
    have hc1 := hs1.ctx hc
    have hns1 : ∀ s ∈ ns, m1.tbl.vars.contains s = true := by
      intro s hs; rw [hs1.names s]; exact hns s hs
    unfold quantify
    refine (Outcome.nested hc1 (quantifyBody_out m1 hs1.inv (Or.inl hc1) (hO.frame hs1.frame) u hu fa
      ns hns1)).mono ?_
    intro r m2 _ ⟨hr, hd⟩ _
    refine ⟨hr, fun σ => ?_⟩
    have hfun : denN m1.tbl u = evalFormula m.tbl e := funext hdu
    have hq := hd σ
    rw [hfun, qsemN_iff_quantNames] at hq
    simp only [evalFormula]
    cases hb : quantNames fa ns (evalFormula m.tbl e) σ with
    | true => exact hq.mpr hb
    | false =>
      cases hr' : denN m2.tbl r σ with
      | false => rfl
      | true => rw [hq.mp hr'] at hb; cases hb
  | subst ss e ih =>
    intro m hI hc hO hM
    obtain ⟨hss, hMe⟩ := hM
    simp only [evalAst]
    refine Outcome.bind (ih m hI hc hO hMe) ?_
    intro u m1 hs1 ⟨hu, hdu⟩
    have hc1 := hs1.ctx hc
    have hd : ∀ p ∈ (ss.map fun s => (s.2, s.1)), m1.tbl.vars.contains p.2 = true := by
      intro p hp
      obtain ⟨s, hs, rfl⟩ := List.mem_map.mp hp
      rw [hs1.names s.1]; exact hss s hs
    unfold rename
    refine (Outcome.nested hc1 (renameBody_out m1 hs1.inv (Or.inl hc1) (hO.frame hs1.frame) u hu
      (ss.map fun s => (s.2, s.1)) hd)).mono ?_
    intro r m2 _ ⟨hr, hdr⟩ _
    refine ⟨hr, fun σ => ?_⟩
    rw [hdr σ, hdu]
    rfl

/-! ### `Meaningful` and `evalFormula` across a change of order -/

/-- the references `@n` of a tree: the operands of `add_expr` that live in the manager -/
def Ast.atNodes : Ast → List Int
  | .var _ => []
  | .bool _ => []
  | .num neg d => [if neg then -(digitsToNat d : Int) else (digitsToNat d : Int)]
  | .not e => e.atNodes
  | .bin _ l r => l.atNodes ++ r.atNodes
  | .ite a b c => a.atNodes ++ (b.atNodes ++ c.atNodes)
  | .quant _ _ e => e.atNodes
  | .subst _ e => e.atNodes

/-- `Meaningful` only reads the declared NAMES and the membership of the `@n` nodes -/
theorem Meaningful.transfer {T T' : Tbl} (hn : ∀ s, T'.vars.contains s = T.vars.contains s) :
    ∀ (t : Ast), (∀ u ∈ t.atNodes, T'.Mem u) → Meaningful T t → Meaningful T' t := by
  intro t
  induction t with
  | var x => intro _ h; simp only [Meaningful] at h ⊢; rw [hn]; exact h
  | bool b => intro _ _; trivial
  | num neg d => intro hm _; exact hm _ (by simp [Ast.atNodes])
  | not e ih => intro hm h; exact ih hm h
  | bin o l r ihl ihr =>
    intro hm h
    exact ⟨h.1, ihl (fun u hu => hm u (by simp [Ast.atNodes, hu])) h.2.1,
      ihr (fun u hu => hm u (by simp [Ast.atNodes, hu])) h.2.2⟩
  | ite a b c iha ihb ihc =>
    intro hm h
    exact ⟨iha (fun u hu => hm u (by simp [Ast.atNodes, hu])) h.1,
      ihb (fun u hu => hm u (by simp [Ast.atNodes, hu])) h.2.1,
      ihc (fun u hu => hm u (by simp [Ast.atNodes, hu])) h.2.2⟩
  | quant fa ns e ih =>
    intro hm h
    exact ⟨fun x hx => by rw [hn]; exact h.1 x hx, ih hm h.2⟩
  | subst ss e ih =>
    intro hm h
    exact ⟨fun x hx => by rw [hn]; exact h.1 x hx, ih hm h.2⟩

/-- `evalFormula` reads the table only through the functions, by name, of the `@n` nodes -/
theorem evalFormula_congr {T T' : Tbl} :
    ∀ (t : Ast), (∀ u ∈ t.atNodes, ∀ σ, den T' u (asgOf T' σ) = den T u (asgOf T σ)) →
      ∀ σ, evalFormula T' t σ = evalFormula T t σ := by
  intro t
  induction t with
  | var x => intro _ σ; rfl
  | bool b => intro _ σ; rfl
  | num neg d =>
    intro h σ
    simp only [evalFormula]
    exact h _ (by simp [Ast.atNodes]) σ
  | not e ih => intro h σ; simp only [evalFormula, ih h]
  | bin o l r ihl ihr =>
    intro h σ
    simp only [evalFormula, ihl (fun u hu => h u (by simp [Ast.atNodes, hu])),
      ihr (fun u hu => h u (by simp [Ast.atNodes, hu]))]
  | ite a b c iha ihb ihc =>
    intro h σ
    simp only [evalFormula, iha (fun u hu => h u (by simp [Ast.atNodes, hu])),
      ihb (fun u hu => h u (by simp [Ast.atNodes, hu])),
      ihc (fun u hu => h u (by simp [Ast.atNodes, hu]))]
  | quant fa ns e ih =>
    intro h σ
    simp only [evalFormula]
    have : evalFormula T' e = evalFormula T e := funext (ih h)
    rw [this]
  | subst ss e ih => intro h σ; simp only [evalFormula, ih h]

/-! ### the decorated `add_expr` -/

/-- documented result of `add_expr(s)` for a text that reads as the tree `ast`: a reference that
denotes, by variable name, the value the independent evaluator `evalFormula` gives to the tree,
the `@n` being the functions of those nodes in the table `t` of the call -/
def ExprDoc (ast : Ast) (t : Tbl) (r : Int) (t' : Tbl) : Prop :=
  t'.Mem r ∧ ∀ σ, denN t' r σ = evalFormula t ast σ

theorem addExprToks_of_parse {toks : List Tok} {t : Ast} (hp : parse toks = some t) :
    addExprToks toks = evalAst t := by
  simp only [parse] at hp
  unfold addExprToks
  split at hp
  · rename_i t' ht'
    simp only [Option.some.injEq] at hp
    subst hp
    rw [ht']
  · simp at hp

/-- C09 for `add_expr`: with dynamic reordering enabled or not, at whichever `find_or_add` of
whichever nested operation the request fires -/
theorem addExpr_transparent (ext : Nat → Nat) (hS : SiftContract ext) (m : Mgr) (hD : DynInv ext m)
    (s : String) (t : Ast) (hp : parse (tokenize s) = some t) (hM : Meaningful m.tbl t)
    (hheld : ∀ u ∈ t.atNodes, HeldX ext u) :
    ∃ r m', addExpr s m = (.ok r, m') ∧ DynPostG ext (ExprDoc t) m r m' := by
  unfold addExpr
  rw [addExprToks_of_parse hp]
  refine tryToReorder_transparent ext hS (evalAst t) t.atNodes (fun T => Meaningful T t) (ExprDoc t)
    ?_ ?_ ?_ m hD hheld hM
  · intro m0 hI0 hc hO hpre _
    exact evalAst_out t m0 hI0 hc hO hpre
  · intro T T' hB hpre
    exact Meaningful.transfer hB.names t (fun u hu => (hB.ops u hu).1) hpre
  · intro T T' r T'' hB _ hdoc
    refine ⟨hdoc.1, fun σ => ?_⟩
    rw [hdoc.2 σ]
    apply evalFormula_congr t
    intro u hu τ
    rw [← denN_eq_asgOf hB.wf' hB.order' u (hB.ops u hu).1 τ,
      ← denN_eq_asgOf hB.wf hB.order u (hB.mem u hu) τ]
    exact (hB.ops u hu).2 τ

end DD
