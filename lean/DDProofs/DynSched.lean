/-
  DDProofs.DynSched — the decorator `_try_to_reorder` under EVERY recorded iteration schedule.

  `DynInv` (DDProofs.DynGeneric) contains `m.sched = []`: the theorems stated with it cover the
  sifting that runs inside the decorator only for the model's DEFAULT iteration order of the
  Python sets (`for var in set(bdd.vars)` in `_apply_sifting`, the level sets iterated inside
  `swap`).  The differential check, however, runs the decorated operations with RECORDED orders:
  `DD.stepLine` puts the schedule field `S:sift=…;swap=…` of the protocol line into `m.sched`
  before the operation runs.  This file removes the restriction.

  * `DynInvS` is `DynInv` without the clause on the schedule.
  * `SiftContractS` is the contract of sifting for every schedule: `reorder none m` returns
    normally with the post-condition, or fails with the model's own `.sched` error
    (`MODEL-SCHEDULE-MISMATCH`), the latter only when a schedule is present.  It is PROVED
    (`siftContractS`) from C07's theorem for every schedule (`applySifting_never_raises`, i.e.
    `applySifting_total` for the environment `siftEnv2`) and `applySifting_total_default`.
  * `tryToReorder_transparentS` / `tryToReorder_rejectedS` / `tryToReorder_total_dynS` are the
    generic theorems of DDProofs.DynGeneric / DDProofs.DynRejected with `DynInvS` and the extra
    outcome `.error .sched`.

  What the schedule is.  `m.sched : List SchedItem` is the list of iteration orders of Python
  `set`s that the run of the REAL code took, in the order in which they were taken, as recorded
  by the harness (`harness/impl.py`: `BDD.swap`, `BDD._levels`, `_reorder_var` are wrapped):
  `.sift names` is the order of `for var in set(bdd.vars)` of one `_apply_sifting`, `.swap lv`
  the orders of the level sets `all_levels[j]` handed to one `swap`.  The model consumes one item
  at each such loop (`takeSiftOrder`, `takeSwapOrders`), checks that it is a permutation of the
  set the model has at that point, and iterates in that order; with no item left it iterates in
  ascending order.  `.sched` is raised exactly when the head item is of the wrong kind or is not
  such a permutation.

  Why `.sched` cannot occur for a schedule recorded from a real run — this is the HARNESS's tie,
  not a theorem: the model is deterministic given the schedule, and the differential check
  compares, call by call, the model's answers and states with the real code's.  As long as they
  agree, the sets the real code iterates over are the sets the model has, so every recorded order
  is a permutation of the model's set and items are consumed in step.  A `.sched` answer is
  printed as `MODEL-SCHEDULE-MISMATCH`, which no real run answers, so it is reported as a
  disagreement between model and code; so is a successful call that leaves items unconsumed
  (`SCHED-LEFT`).  The theorems below say: for every list whatsoever in `m.sched`, `.sched` is
  the ONLY way a decorated call can deviate from its documented outcome.
-/
import DDProofs.DynSift
import DDProofs.DynRejected
open Std

namespace DD

/-! ### the state between two decorated calls, any recorded schedule -/

/-- `DynInv` without the clause `m.sched = []`: what holds between two decorated calls of a
manager, whatever iteration schedule has been recorded for the coming call -/
structure DynInvS (ext : Nat → Nat) (m : Mgr) : Prop where
  inv : Inv m
  order : OrderOK m.tbl
  refs : RefExact m ext
  ctx : m.ctx = false
  roots : ∀ r ∈ m.roots, 0 < ext r.natAbs
  nvars : 2 ≤ m.nvars

theorem DynInv.toS {ext : Nat → Nat} {m : Mgr} (h : DynInv ext m) : DynInvS ext m :=
  ⟨h.inv, h.order, h.refs, h.ctx, h.roots, h.nvars⟩

theorem DynInvS.toDynInv {ext : Nat → Nat} {m : Mgr} (h : DynInvS ext m) (hs : m.sched = []) :
    DynInv ext m :=
  ⟨h.inv, h.order, h.refs, h.ctx, hs, h.roots, h.nvars⟩

theorem dynInv_iff (ext : Nat → Nat) (m : Mgr) : DynInv ext m ↔ DynInvS ext m ∧ m.sched = [] :=
  ⟨fun h => ⟨h.toS, h.sched⟩, fun h => h.1.toDynInv h.2⟩

/-- `DynInvS` does not depend on the recorded schedule -/
theorem DynInvS.setSched {ext : Nat → Nat} {m : Mgr} (h : DynInvS ext m) (s : List SchedItem) :
    DynInvS ext { m with sched := s } :=
  ⟨h.inv.setSched s, h.order, h.refs.congr rfl rfl, h.ctx, h.roots, h.nvars⟩

/-- what the driver does after each line (`{ m' with sched := [] }`) gives `DynInv` back -/
theorem DynInvS.clear {ext : Nat → Nat} {m : Mgr} (h : DynInvS ext m) :
    DynInv ext { m with sched := [] } :=
  (h.setSched []).toDynInv rfl

/-- what the driver does before each line (`{ m with sched := sch }`) -/
theorem DynInv.withSched {ext : Nat → Nat} {m : Mgr} (h : DynInv ext m) (sch : List SchedItem) :
    DynInvS ext { m with sched := sch } :=
  h.toS.setSched sch

theorem DynInvS.reorderInv {ext : Nat → Nat} {m : Mgr} (h : DynInvS ext m) : ReorderInv ext m :=
  ⟨h.inv, h.order, h.refs, Or.inl h.ctx, h.roots⟩

theorem DynInvS.step {ext : Nat → Nat} {m m' : Mgr} (h : DynInvS ext m) (hs : StepK m m') :
    DynInvS ext m' :=
  ⟨hs.inv, h.order.frame hs.frame, (hs.keep ext h.refs).1, by rw [hs.frame.ctx]; exact h.ctx,
   by rw [hs.frame.roots]; exact h.roots, by rw [hs.nvars]; exact h.nvars⟩

/-- `_last_len` is not part of the invariant -/
theorem DynInvS.setLastLen {ext : Nat → Nat} {m : Mgr} (h : DynInvS ext m) (l : Option Nat) :
    DynInvS ext { m with lastLen := l } :=
  ⟨⟨h.inv.wf, h.inv.pred, h.inv.freeGe, h.inv.free, h.inv.refOne, h.inv.refDom, h.inv.cache⟩,
    h.order, h.refs.congr rfl rfl, h.ctx, h.roots, h.nvars⟩

/-! ### the contract of sifting, for every schedule -/

/-- the CONTRACT of `reorder(bdd)` (sifting) for EVERY recorded schedule: from a state
satisfying `DynInvS` with requests disabled, it returns normally in such a state, with the same
declared variables, the same roots, every reference the user holds denoting the same function of
the variable NAMES, and no schedule left if there was none — or the model reports that the
recorded schedule does not fit (`.sched`), which requires a recorded schedule.  (Equivalently:
for every `m` with `DynInv ext m` and every `sch`, about `reorder none { m with sched := sch }`:
`SiftContractS.run_recorded`.) -/
structure SiftContractS (ext : Nat → Nat) : Prop where
  run : ∀ (m : Mgr), DynInvS ext m → m.lastLen = none →
    (∃ m', reorder none m = (.ok (), m') ∧ DynInvS ext m' ∧ m'.lastLen = none ∧
      m'.nvars = m.nvars ∧
      (∀ s, m'.tbl.vars.contains s = m.tbl.vars.contains s) ∧
      (∀ u : Int, HeldX ext u → ∀ σ, denN m'.tbl u σ = denN m.tbl u σ) ∧
      m'.roots = m.roots ∧ (m.sched = [] → m'.sched = [])) ∨
    (∃ m', reorder none m = (.error .sched, m') ∧ m.sched ≠ [])

/-- the contract of sifting holds for every ledger and every schedule: C07's theorem that
sifting never raises (`applySifting_never_raises` = `applySifting_total (siftEnv2 ext)`, the
statement behind `C07_sift`), and its totality for the empty schedule -/
theorem siftContractS (ext : Nat → Nat) : SiftContractS ext := by
  refine ⟨fun m hD hoff => ?_⟩
  have hR := hD.reorderInv
  have h := applySifting_never_raises ext m hR hD.nvars
  change OkOrSched _ (reorder none m) at h
  generalize hres : reorder none m = res at h
  obtain ⟨r, m'⟩ := res
  cases r with
  | ok u =>
    obtain ⟨⟨hR', _⟩, hrel⟩ := h
    refine Or.inl ⟨m', rfl, ⟨hR'.inv, hR'.order, hR'.refExact, by rw [hrel.ctx]; exact hD.ctx,
      hR'.rootsHeld, by rw [hrel.nvars]; exact hD.nvars⟩, by rw [hrel.lastLen]; exact hoff,
      hrel.nvars, hrel.names, ?_, hrel.roots, hrel.sched⟩
    intro u hu σ
    exact heldX_denN_of_heldSame hD.inv hR'.inv hD.refs hR'.refExact hrel.held hu σ
  | error e =>
    have he : e = Err.sched := h
    subst he
    refine Or.inr ⟨m', rfl, fun hs => ?_⟩
    obtain ⟨m'', hrun, _⟩ := applySifting_total_default ext m hR hD.nvars hs
    have hrun' : reorder none m = (.ok (), m'') := hrun
    rw [hres] at hrun'
    cases hrun'

/-- the contract in the form of the driver: a state between two calls, any schedule put in -/
theorem SiftContractS.run_recorded {ext : Nat → Nat} (hS : SiftContractS ext) (m : Mgr)
    (hD : DynInv ext m) (hoff : m.lastLen = none) (sch : List SchedItem) :
    (∃ m', reorder none { m with sched := sch } = (.ok (), m') ∧ DynInvS ext m' ∧
      m'.lastLen = none ∧ m'.nvars = m.nvars ∧
      (∀ s, m'.tbl.vars.contains s = m.tbl.vars.contains s) ∧
      (∀ u : Int, HeldX ext u → ∀ σ, denN m'.tbl u σ = denN m.tbl u σ) ∧
      m'.roots = m.roots ∧ (sch = [] → m'.sched = [])) ∨
    (∃ m', reorder none { m with sched := sch } = (.error .sched, m') ∧ sch ≠ []) :=
  hS.run { m with sched := sch } (hD.withSched sch) hoff

/-- the contract for every schedule contains the contract for the default schedule -/
theorem SiftContractS.toDefault {ext : Nat → Nat} (hS : SiftContractS ext) : SiftContract ext := by
  refine ⟨fun m hD hoff => ?_, fun m m' hD hoff hrun => ?_⟩
  · rcases hS.run m hD.toS hoff with ⟨m', hrun, hD', hl, hn, hnm, hh, _, hsc⟩ | ⟨_, _, hne⟩
    · exact ⟨m', hrun, hD'.toDynInv (hsc hD.sched), hl, hn, hnm, hh⟩
    · exact absurd hD.sched hne
  · rcases hS.run m hD.toS hoff with ⟨m'', hrun'', _, _, _, _, _, hr, _⟩ | ⟨_, _, hne⟩
    · rw [hrun] at hrun''
      cases hrun''
      exact hr
    · exact absurd hD.sched hne

/-! ### the path of the decorator when sifting reports a schedule mismatch -/

/-- first attempt aborted by a request, then `reorder(bdd)` fails: its exception reaches the
caller (in the model the only such exception is `.sched`; the real `reorder` never raises here,
C07) -/
theorem tryToReorder_reorder_raises {α} (f : M α) (m m1 m3 : Mgr) (e : Err)
    (hctx : m.ctx = false)
    (h1 : f { m with ctx := true } = (.error .needsReordering, m1))
    (h2 : reorder none { m1 with ctx := m.ctx, lastLen := none } = (.error e, m3)) :
    tryToReorder f m = (.error e, m3) := by
  unfold tryToReorder
  have hw1 : withCtx f m = (.ok none, { m1 with ctx := m.ctx }) := by
    unfold withCtx
    rw [h1]
    simp [hctx]
  simp only [bind, M.bind', hw1, M.modify]
  rw [h2]

/-! ### what the caller observes -/

/-- what the caller of a decorated operation observes when it returns `.ok r` in a state `m'`,
any schedule: `DynPostG` with `DynInvS`, plus "no schedule left if there was none" -/
structure DynPostS {α} (ext : Nat → Nat) (Doc : Tbl → α → Tbl → Prop) (m : Mgr) (r : α) (m' : Mgr) :
    Prop where
  /-- the state is again as between two calls (counts exact for the same ledger, flag cleared) -/
  inv : DynInvS ext m'
  /-- the documented result, relative to the operands as they were -/
  doc : Doc m.tbl r m'.tbl
  /-- reordering is enabled afterwards iff it was -/
  enabled : m'.lastLen.isSome = m.lastLen.isSome
  /-- the declared variables are the same -/
  names : ∀ s, m'.tbl.vars.contains s = m.tbl.vars.contains s
  /-- every reference the user holds is still there and denotes the same function by name -/
  held : ∀ w, HeldX ext w → m'.tbl.Mem w ∧ ∀ σ, denN m'.tbl w σ = denN m.tbl w σ
  /-- the recorded roots are untouched -/
  roots : m'.roots = m.roots
  /-- with no recorded schedule, none is left -/
  sched : m.sched = [] → m'.sched = []

theorem DynPostS.mono {α} {ext : Nat → Nat} {D D' : Tbl → α → Tbl → Prop} {m : Mgr} {r : α}
    {m' : Mgr} (h : DynPostS ext D m r m') (hd : D m.tbl r m'.tbl → D' m.tbl r m'.tbl) :
    DynPostS ext D' m r m' :=
  ⟨h.inv, hd h.doc, h.enabled, h.names, h.held, h.roots, h.sched⟩

/-- with the default schedule the post-condition is the one of DDProofs.DynGeneric -/
theorem DynPostS.toG {α} {ext : Nat → Nat} {D : Tbl → α → Tbl → Prop} {m : Mgr} {r : α}
    {m' : Mgr} (h : DynPostS ext D m r m') (hs : m.sched = []) : DynPostG ext D m r m' :=
  ⟨h.inv.toDynInv (h.sched hs), h.doc, h.enabled, h.names, h.held, h.roots⟩

theorem DynPostG.toS {α} {ext : Nat → Nat} {D : Tbl → α → Tbl → Prop} {m : Mgr} {r : α}
    {m' : Mgr} (h : DynPostG ext D m r m') : DynPostS ext D m r m' :=
  ⟨h.inv.toS, h.doc, h.enabled, h.names, h.held, h.roots, fun _ => h.inv.sched⟩

/-- the driver's view (`DD.stepLine`): the manager `m` it stores has no schedule, the recorded
schedule `sch` is put in for the call and whatever is left is dropped afterwards; between `m` and
`{ m' with sched := [] }` the post-condition is literally the one of DDProofs.DynGeneric -/
theorem DynPostS.driver {α} {ext : Nat → Nat} {D : Tbl → α → Tbl → Prop} {m : Mgr}
    {sch : List SchedItem} {r : α} {m' : Mgr} (h : DynPostS ext D { m with sched := sch } r m') :
    DynPostG ext D m r { m' with sched := [] } :=
  ⟨h.inv.clear, h.doc, h.enabled, h.names, h.held, h.roots⟩

/-- the outcome of a decorated call under an arbitrary recorded schedule: it returns `.ok r` with
`DynPostS`, or the model reports `.sched` (`MODEL-SCHEDULE-MISMATCH`: the recorded schedule does
not describe a run of the code from this state) — the latter only if a schedule was recorded -/
abbrev DynOutS {α} (ext : Nat → Nat) (Doc : Tbl → α → Tbl → Prop) (m : Mgr) :
    Except Err α × Mgr → Prop :=
  OkOr (fun e => e = Err.sched ∧ m.sched ≠ []) (fun r m' => DynPostS ext Doc m r m')

theorem DynOutS.mono {α} {ext : Nat → Nat} {D D' : Tbl → α → Tbl → Prop} {m : Mgr}
    {res : Except Err α × Mgr} (h : DynOutS ext D m res)
    (hd : ∀ r t', D m.tbl r t' → D' m.tbl r t') : DynOutS ext D' m res :=
  OkOr.mono (fun r m' hp => DynPostS.mono hp (hd r m'.tbl)) h

theorem DynOutS.cases {α} {ext : Nat → Nat} {D : Tbl → α → Tbl → Prop} {m : Mgr}
    {res : Except Err α × Mgr} (h : DynOutS ext D m res) :
    (∃ r m', res = (.ok r, m') ∧ DynPostS ext D m r m') ∨
    (∃ m', res = (.error .sched, m') ∧ m.sched ≠ []) := by
  obtain ⟨r, m'⟩ := res
  cases r with
  | ok r => exact Or.inl ⟨r, m', rfl, h⟩
  | error e =>
    obtain ⟨he, hs⟩ := h
    subst he
    exact Or.inr ⟨m', rfl, hs⟩

/-- in `OkOrSched` form (the vocabulary of C07) -/
theorem DynOutS.okOrSched {α} {ext : Nat → Nat} {D : Tbl → α → Tbl → Prop} {m : Mgr}
    {res : Except Err α × Mgr} (h : DynOutS ext D m res) :
    OkOrSched (fun r m' => DynPostS ext D m r m') res :=
  OkOr.monoE (fun _ he => he.1) h

/-- with the default schedule the call returns normally: the theorems of DDProofs.DynGeneric
are the special case `m.sched = []` -/
theorem DynOutS.default {α} {ext : Nat → Nat} {D : Tbl → α → Tbl → Prop} {m : Mgr}
    {res : Except Err α × Mgr} (h : DynOutS ext D m res) (hs : m.sched = []) :
    ∃ r m', res = (.ok r, m') ∧ DynPostG ext D m r m' := by
  rcases h.cases with ⟨r, m', he, hp⟩ | ⟨_, _, hne⟩
  · exact ⟨r, m', he, hp.toG hs⟩
  · exact absurd hs hne

/-- the driver's view of the outcome -/
theorem DynOutS.driver {α} {ext : Nat → Nat} {D : Tbl → α → Tbl → Prop} {m : Mgr}
    {sch : List SchedItem} {res : Except Err α × Mgr}
    (h : DynOutS ext D { m with sched := sch } res) :
    (∃ r m', res = (.ok r, m') ∧ DynPostG ext D m r { m' with sched := [] }) ∨
    (∃ m', res = (.error .sched, m') ∧ sch ≠ []) := by
  rcases h.cases with ⟨r, m', he, hp⟩ | h
  · exact Or.inl ⟨r, m', he, hp.driver⟩
  · exact Or.inr h

/-! ### the generic theorem, every schedule -/

/-- GENERIC transparency of `_try_to_reorder` for EVERY recorded schedule.  Hypotheses on the
body `f` exactly as in `tryToReorder_transparent` (they do not mention the schedule: no body
reads or writes it).  The decorated `f`, from `DynInvS ext m` — whatever is in `m.sched` —
returns the documented result relative to the operands as they were, with `DynPostS`; the only
other outcome is the model's own `.sched` error, raised by the sifting between the two attempts
when the recorded schedule does not fit, and only if a schedule was recorded. -/
theorem tryToReorder_transparentS {α} (ext : Nat → Nat) (hS : SiftContractS ext) (f : M α)
    (ops : List Int) (Pre : Tbl → Prop) (Doc : Tbl → α → Tbl → Prop)
    (hbody : ∀ m0 : Mgr, Inv m0 → m0.ctx = true → OrderOK m0.tbl → Pre m0.tbl →
      (∀ u ∈ ops, m0.tbl.Mem u) → Outcome m0 (fun r m1 => Doc m0.tbl r m1.tbl) (f m0))
    (hpre : ∀ t t', Bridge ops t t' → Pre t → Pre t')
    (hdoc : ∀ t t' r t'', Bridge ops t t' → Pre t → Doc t' r t'' → Doc t r t'')
    (m : Mgr) (hD : DynInvS ext m) (hops : ∀ u ∈ ops, HeldX ext u) (hpre0 : Pre m.tbl) :
    DynOutS ext Doc m (tryToReorder f m) := by
  have hI := hD.inv
  have hW := hI.wf.toWF
  have hmem0 : ∀ u ∈ ops, m.tbl.Mem u := fun u hu => (hops u hu).mem hD.refs
  have h1 := hbody { m with ctx := true } (hI.setCtx true) rfl hD.order hpre0 hmem0
  rcases h1.cases with ⟨r, m1, he, hs, hdoc1⟩ | ⟨m1, he, hs, ha⟩
  · -- no request fired
    rw [tryToReorder_ok f m r m1 he]
    have hs' : StepK m { m1 with ctx := m.ctx } := hs.ofCtx true
    refine ⟨hD.step hs', hdoc1, ?_, hs'.names, ?_, ?_, ?_⟩
    · show m1.lastLen.isSome = m.lastLen.isSome
      rw [hs.frame.lastLen]
    · intro w hw
      have hmw := hw.mem hD.refs
      exact ⟨hs'.ext.mem hmw, fun σ => hs'.denN hW hmw σ⟩
    · show m1.roots = m.roots
      rw [hs.frame.roots]
    · intro h0
      show m1.sched = []
      rw [hs.frame.sched]; exact h0
  · -- the attempt was aborted by a request: only nodes were added
    let m2 : Mgr := { m1 with ctx := m.ctx, lastLen := none }
    have hs2 : StepK m { m1 with ctx := m.ctx } := hs.ofCtx true
    have hD2 : DynInvS ext m2 := (hD.step hs2).setLastLen none
    have hsch2 : m2.sched = m.sched := hs.frame.sched
    rcases hS.run m2 hD2 rfl with
      ⟨m3, hre, hD3, hl3, hnv3, hnames3, hden3, hroots3, hsch3⟩ | ⟨m3, hre, hne⟩
    rotate_left
    · -- sifting reports that the recorded schedule does not fit
      rw [tryToReorder_reorder_raises f m m1 m3 .sched hD.ctx he hre]
      exact ⟨rfl, by rw [← hsch2]; exact hne⟩
    have hW3 := hD3.inv.wf.toWF
    -- the bridge from the table of the call to the table after sifting
    have hB : Bridge ops m.tbl m3.tbl := by
      refine ⟨hW, hW3, hD.order, hD3.order, ?_, ?_, hmem0, ?_⟩
      · show m3.nvars = m.nvars
        rw [hnv3]; exact hs2.nvars
      · intro s; rw [hnames3 s]; exact hs2.names s
      · intro u hu
        refine ⟨(hops u hu).mem hD3.refs, fun σ => ?_⟩
        rw [hden3 u (hops u hu) σ]
        exact hs2.denN hW (hmem0 u hu) σ
    -- second attempt: requests are disabled, so it cannot abort
    have h2 := hbody { m3 with ctx := true } (hD3.inv.setCtx true) rfl hD3.order
      (hpre _ _ hB hpre0) (fun u hu => (hB.ops u hu).1)
    rcases h2.cases with ⟨r, m4, he4, hs4, hdoc4⟩ | ⟨m4, _, _, ha4⟩
    rotate_left
    · exfalso
      have := ha4.2
      rw [show ({ m3 with ctx := true } : Mgr).lastLen = m3.lastLen from rfl, hl3] at this
      exact Bool.noConfusion this
    rw [tryToReorder_retry f m m1 m3 m4 r hD.ctx he hre he4]
    have hs5 : StepK m3 { m4 with ctx := m3.ctx } := hs4.ofCtx true
    refine ⟨(hD3.step hs5).setLastLen _, hdoc _ _ _ _ hB hpre0 hdoc4, ?_, ?_, ?_, ?_, ?_⟩
    · show (some (Gen.growthFactor * m3.len)).isSome = m.lastLen.isSome
      have := ha.2
      rw [show ({ m with ctx := true } : Mgr).lastLen = m.lastLen from rfl] at this
      rw [this]; rfl
    · intro s
      show m4.tbl.vars.contains s = _
      rw [hs5.names s, hnames3 s]; exact hs2.names s
    · intro w hw
      have hm3 := hw.mem hD3.refs
      refine ⟨hs5.ext.mem hm3, fun σ => ?_⟩
      show denN m4.tbl w σ = _
      rw [hs5.denN hW3 hm3 σ, hden3 w hw σ]
      exact hs2.denN hW (hw.mem hD.refs) σ
    · show m4.roots = m.roots
      rw [hs4.frame.roots]
      show m3.roots = m.roots
      rw [hroots3]
      show m1.roots = m.roots
      rw [hs.frame.roots]
    · intro h0
      show m4.sched = []
      rw [hs4.frame.sched]
      show m3.sched = []
      exact hsch3 (by rw [hsch2]; exact h0)

/-! ### bodies that may FAIL, every schedule -/

/-- what EVERY decorated call — returning or raising an exception of the code — leaves behind,
any schedule -/
structure DynKeptS (ext : Nat → Nat) (m m' : Mgr) : Prop where
  inv : DynInvS ext m'
  enabled : m'.lastLen.isSome = m.lastLen.isSome
  names : ∀ s, m'.tbl.vars.contains s = m.tbl.vars.contains s
  held : ∀ w, HeldX ext w → m'.tbl.Mem w ∧ ∀ σ, denN m'.tbl w σ = denN m.tbl w σ
  roots : m'.roots = m.roots
  sched : m.sched = [] → m'.sched = []

theorem DynPostS.kept {α} {ext : Nat → Nat} {Doc : Tbl → α → Tbl → Prop} {m : Mgr} {r : α}
    {m' : Mgr} (h : DynPostS ext Doc m r m') : DynKeptS ext m m' :=
  ⟨h.inv, h.enabled, h.names, h.held, h.roots, h.sched⟩

theorem DynKeptS.refl {ext : Nat → Nat} {m : Mgr} (h : DynInvS ext m) : DynKeptS ext m m :=
  ⟨h, rfl, fun _ => rfl, fun w hw => ⟨hw.mem h.refs, fun _ => rfl⟩, rfl, fun h0 => h0⟩

theorem DynKeptS.ofStep {ext : Nat → Nat} {m m' : Mgr} (hD : DynInvS ext m) (hs : StepK m m') :
    DynKeptS ext m m' := by
  have hW := hD.inv.wf.toWF
  refine ⟨hD.step hs, by rw [hs.frame.lastLen], hs.names, fun w hw => ?_, hs.frame.roots,
    fun h0 => by rw [hs.frame.sched]; exact h0⟩
  have hmw := hw.mem hD.refs
  exact ⟨hs.ext.mem hmw, fun σ => hs.denN hW hmw σ⟩

theorem DynKeptS.toKept {ext : Nat → Nat} {m m' : Mgr} (h : DynKeptS ext m m') (hs : m.sched = []) :
    DynKept ext m m' :=
  ⟨h.inv.toDynInv (h.sched hs), h.enabled, h.names, h.held, h.roots⟩

/-- the driver's view -/
theorem DynKeptS.driver {ext : Nat → Nat} {m m' : Mgr} {sch : List SchedItem}
    (h : DynKeptS ext { m with sched := sch } m') : DynKept ext m { m' with sched := [] } :=
  ⟨h.inv.clear, h.enabled, h.names, h.held, h.roots⟩

/-- the observable outcome of a decorated call that may be REJECTED, any schedule: the documented
result; or an exception that is not the internal signal, the manager and every held reference
intact; or the model's report that the recorded schedule does not fit (only with a schedule) -/
def DynResultS {α} (ext : Nat → Nat) (Doc : Tbl → α → Tbl → Prop) (m : Mgr) :
    Except Err α × Mgr → Prop
  | (.ok r, m') => DynPostS ext Doc m r m'
  | (.error e, m') => (e ≠ .needsReordering ∧ DynKeptS ext m m') ∨ (e = .sched ∧ m.sched ≠ [])

/-- what the caller of a decorated call with arbitrary arguments observes, any schedule -/
def DynTotalS {α} (ext : Nat → Nat) (m : Mgr) (res : Except Err α × Mgr) : Prop :=
  (res.1 ≠ .error .needsReordering ∧ DynKeptS ext m res.2) ∨
  (res.1 = .error .sched ∧ m.sched ≠ [])

/-- whatever the result: never the internal signal -/
theorem DynTotalS.noSignal {α} {ext : Nat → Nat} {m : Mgr} {res : Except Err α × Mgr}
    (h : DynTotalS ext m res) : res.1 ≠ .error .needsReordering := by
  rcases h with h | h
  · exact h.1
  · rw [h.1]; intro hc; cases hc

theorem DynResultS.total {α} {ext : Nat → Nat} {Doc : Tbl → α → Tbl → Prop} {m : Mgr}
    {res : Except Err α × Mgr} (h : DynResultS ext Doc m res) : DynTotalS ext m res := by
  obtain ⟨r, m'⟩ := res
  cases r with
  | ok r => exact Or.inl ⟨fun h' => (by cases h'), DynPostS.kept h⟩
  | error e =>
    rcases h with h | h
    · exact Or.inl ⟨fun h' => h.1 (by cases h'; rfl), h.2⟩
    · exact Or.inr ⟨by rw [h.1], h.2⟩

/-- with the default schedule: the outcome of DDProofs.DynRejected -/
theorem DynResultS.default {α} {ext : Nat → Nat} {Doc : Tbl → α → Tbl → Prop} {m : Mgr}
    {res : Except Err α × Mgr} (h : DynResultS ext Doc m res) (hs : m.sched = []) :
    DynResult ext Doc m res := by
  obtain ⟨r, m'⟩ := res
  cases r with
  | ok r => exact DynPostS.toG h hs
  | error e =>
    rcases h with h | h
    · exact ⟨h.1, h.2.toKept hs⟩
    · exact absurd hs h.2

theorem DynTotalS.default {α} {ext : Nat → Nat} {m : Mgr} {res : Except Err α × Mgr}
    (h : DynTotalS ext m res) (hs : m.sched = []) : DynTotal ext m res := by
  rcases h with h | h
  · exact ⟨h.1, h.2.toKept hs⟩
  · exact absurd hs h.2

/-- the driver's view of a call with arbitrary arguments -/
theorem DynTotalS.driver {α} {ext : Nat → Nat} {m : Mgr} {sch : List SchedItem}
    {res : Except Err α × Mgr} (h : DynTotalS ext { m with sched := sch } res) :
    (res.1 ≠ .error .needsReordering ∧ DynKept ext m { res.2 with sched := [] }) ∨
    (res.1 = .error .sched ∧ sch ≠ []) := by
  rcases h with h | h
  · exact Or.inl ⟨h.1, h.2.driver⟩
  · exact Or.inr h

theorem DynTotalS.same {α} {ext : Nat → Nat} {m : Mgr} (hD : DynInvS ext m) (r : Except Err α)
    (h : r ≠ .error .needsReordering) : DynTotalS ext m (r, m) := Or.inl ⟨h, DynKeptS.refl hD⟩

/-- GENERIC, every schedule: `_try_to_reorder` around a body that may FAIL (hypotheses as in
`tryToReorder_rejected`).  From `DynInvS ext m`, whatever is in `m.sched`: the decorated call
returns the documented result, or raises an exception that is NOT the internal signal, in both
cases in a state `DynInvS ext m'` with the names, the roots, the enabled flag and every held
reference kept — also when the failure happens in the retry after sifting; the only other
outcome is the model's own `.sched` error from the sifting, and only if a schedule was recorded. -/
theorem tryToReorder_rejectedS {α} (ext : Nat → Nat) (hS : SiftContractS ext) (f : M α)
    (ops : List Int) (Pre : Tbl → Prop) (Doc : Tbl → α → Tbl → Prop)
    (hbody : ∀ m0 : Mgr, Inv m0 → m0.ctx = true → OrderOK m0.tbl → Pre m0.tbl →
      (∀ u ∈ ops, m0.tbl.Mem u) → OutcomeE m0 (fun r m1 => Doc m0.tbl r m1.tbl) (f m0))
    (hpre : ∀ t t', Bridge ops t t' → Pre t → Pre t')
    (hdoc : ∀ t t' r t'', Bridge ops t t' → Pre t → Doc t' r t'' → Doc t r t'')
    (m : Mgr) (hD : DynInvS ext m) (hops : ∀ u ∈ ops, HeldX ext u) (hpre0 : Pre m.tbl) :
    DynResultS ext Doc m (tryToReorder f m) := by
  have hI := hD.inv
  have hW := hI.wf.toWF
  have hmem0 : ∀ u ∈ ops, m.tbl.Mem u := fun u hu => (hops u hu).mem hD.refs
  have h1 := hbody { m with ctx := true } (hI.setCtx true) rfl hD.order hpre0 hmem0
  rcases h1.cases with ⟨r, m1, he, hs, hdoc1⟩ | ⟨m1, he, hs, ha⟩ | ⟨e, m1, he, hne, hs⟩
  · -- no request fired, the body returned
    rw [tryToReorder_ok f m r m1 he]
    have hs' : StepK m { m1 with ctx := m.ctx } := hs.ofCtx true
    have hk := DynKeptS.ofStep hD hs'
    exact ⟨hk.inv, hdoc1, hk.enabled, hk.names, hk.held, hk.roots, hk.sched⟩
  · -- the attempt was aborted by a request: only nodes were added
    let m2 : Mgr := { m1 with ctx := m.ctx, lastLen := none }
    have hs2 : StepK m { m1 with ctx := m.ctx } := hs.ofCtx true
    have hD2 : DynInvS ext m2 := (hD.step hs2).setLastLen none
    have hsch2 : m2.sched = m.sched := hs.frame.sched
    rcases hS.run m2 hD2 rfl with
      ⟨m3, hre, hD3, hl3, hnv3, hnames3, hden3, hroots3, hsch3⟩ | ⟨m3, hre, hne⟩
    rotate_left
    · rw [tryToReorder_reorder_raises f m m1 m3 .sched hD.ctx he hre]
      exact Or.inr ⟨rfl, by rw [← hsch2]; exact hne⟩
    have hW3 := hD3.inv.wf.toWF
    have hB : Bridge ops m.tbl m3.tbl := by
      refine ⟨hW, hW3, hD.order, hD3.order, ?_, ?_, hmem0, ?_⟩
      · show m3.nvars = m.nvars
        rw [hnv3]; exact hs2.nvars
      · intro s; rw [hnames3 s]; exact hs2.names s
      · intro u hu
        refine ⟨(hops u hu).mem hD3.refs, fun σ => ?_⟩
        rw [hden3 u (hops u hu) σ]
        exact hs2.denN hW (hmem0 u hu) σ
    -- second attempt: requests are disabled, so it cannot be aborted — but it may be rejected
    have h2 := hbody { m3 with ctx := true } (hD3.inv.setCtx true) rfl hD3.order
      (hpre _ _ hB hpre0) (fun u hu => (hB.ops u hu).1)
    have hoff3 : ¬ Armed { m3 with ctx := true } := by
      intro ha4
      have := ha4.2
      rw [show ({ m3 with ctx := true } : Mgr).lastLen = m3.lastLen from rfl, hl3] at this
      exact Bool.noConfusion this
    -- what holds of the final state, whichever way the second attempt ends
    have hfinal : ∀ m4 : Mgr, StepK { m3 with ctx := true } m4 →
        DynKeptS ext m
          { m4 with ctx := m3.ctx, lastLen := some (Gen.growthFactor * m3.len) } := by
      intro m4 hs4
      have hs5 : StepK m3 { m4 with ctx := m3.ctx } := hs4.ofCtx true
      refine ⟨(hD3.step hs5).setLastLen _, ?_, ?_, ?_, ?_, ?_⟩
      · show (some (Gen.growthFactor * m3.len)).isSome = m.lastLen.isSome
        have := ha.2
        rw [show ({ m with ctx := true } : Mgr).lastLen = m.lastLen from rfl] at this
        rw [this]; rfl
      · intro s
        show m4.tbl.vars.contains s = _
        rw [hs5.names s, hnames3 s]; exact hs2.names s
      · intro w hw
        have hm3 := hw.mem hD3.refs
        refine ⟨hs5.ext.mem hm3, fun σ => ?_⟩
        show denN m4.tbl w σ = _
        rw [hs5.denN hW3 hm3 σ, hden3 w hw σ]
        exact hs2.denN hW (hw.mem hD.refs) σ
      · show m4.roots = m.roots
        rw [hs4.frame.roots]
        show m3.roots = m.roots
        rw [hroots3]
        show m1.roots = m.roots
        rw [hs.frame.roots]
      · intro h0
        show m4.sched = []
        rw [hs4.frame.sched]
        show m3.sched = []
        exact hsch3 (by rw [hsch2]; exact h0)
    rcases h2.cases with ⟨r, m4, he4, hs4, hdoc4⟩ | ⟨m4, _, _, ha4⟩ | ⟨e, m4, he4, hne4, hs4⟩
    · rw [tryToReorder_retry f m m1 m3 m4 r hD.ctx he hre he4]
      have hk := hfinal m4 hs4
      exact ⟨hk.inv, hdoc _ _ _ _ hB hpre0 hdoc4, hk.enabled, hk.names, hk.held, hk.roots, hk.sched⟩
    · exact absurd ha4 hoff3
    · -- the failure happens in the retry, after sifting
      rw [tryToReorder_retry_err f m m1 m3 m4 e hD.ctx he hre he4 hne4]
      exact Or.inl ⟨hne4, hfinal m4 hs4⟩
  · -- the first attempt is rejected (before or after some nodes were added)
    rw [tryToReorder_err f m e m1 he hne]
    exact Or.inl ⟨hne, DynKeptS.ofStep hD (hs.ofCtx true)⟩

/-- the generic theorem for bodies that accept ARBITRARY arguments, every schedule -/
theorem tryToReorder_total_dynS {α} (ext : Nat → Nat) (hS : SiftContractS ext) (f : M α)
    (hbody : ∀ m0 : Mgr, Inv m0 → m0.ctx = true → OrderOK m0.tbl → TotE m0 (f m0))
    (m : Mgr) (hD : DynInvS ext m) : DynTotalS ext m (tryToReorder f m) :=
  (tryToReorder_rejectedS ext hS f [] (fun _ => True) (fun _ _ _ => True)
    (fun m0 hI hc hO _ _ => (hbody m0 hI hc hO).toE) (fun _ _ _ _ => trivial)
    (fun _ _ _ _ _ _ _ => trivial) m hD (fun _ h => by cases h) trivial).total

end DD
