/-
  DDProofs.ShiftAbs — `_shift`, `reorder_to_pairs`, `_reorder_var`, `_apply_sifting` against the
  abstract swap contract `SwapOK` of DDProofs.OrderAbs.
-/
import DDProofs.OrderAbs
open Std

namespace DD

/-- where the name now at level `j` was before `_shift(start, end)`: the variable at `start`
moved to `end`, those in between moved one level towards `start` -/
def shiftPerm (s e j : Nat) : Nat :=
  if s < e then (if j = e then s else if s ≤ j ∧ j < e then j + 1 else j)
  else if e < s then (if j = e then s else if e < j ∧ j ≤ s then j - 1 else j)
  else j

theorem shiftPerm_self (s j : Nat) : shiftPerm s s j = j := by simp [shiftPerm]

/-- shifting back undoes the shift -/
theorem shiftPerm_inv (s e j : Nat) : shiftPerm s e (shiftPerm e s j) = j := by
  unfold shiftPerm
  repeat' split
  all_goals omega

theorem shiftPerm_lt {s e n j : Nat} (hs : s < n) (he : e < n) : shiftPerm s e j < n ↔ j < n := by
  unfold shiftPerm
  by_cases h1 : s < e
  · simp only [h1, if_true]
    split
    · omega
    · split <;> omega
  · by_cases h2 : e < s
    · simp only [h1, h2, if_true, if_false]
      split
      · omega
      · split <;> omega
    · simp [h1, h2]

/-- one step towards the bottom followed by the rest of the shift -/
theorem shiftPerm_step_up (i d j : Nat) :
    swp i (i + 1) (shiftPerm (i + 1) (i + 1 + d) j) = shiftPerm i (i + 1 + d) j := by
  unfold shiftPerm swp
  repeat' split
  all_goals omega

/-- one step towards the top followed by the rest of the shift -/
theorem shiftPerm_step_down (i d j : Nat) :
    swp (i + d) (i + d + 1) (shiftPerm (i + d) i j) = shiftPerm (i + d + 1) i j := by
  unfold shiftPerm swp
  repeat' split
  all_goals omega

section Abs
variable {E : Err → Prop} {P : Mgr → Prop} {R : Mgr → Mgr → Prop}

/-- postcondition shared by the drivers: `P`, `R`, same variables, names permuted by `f` -/
def MovedBy (m : Mgr) (f : Nat → Nat) (m' : Mgr) : Prop :=
  m'.nvars = m.nvars ∧ m'.roots = m.roots ∧ ∀ j, m'.tbl.l2v[j]? = m.tbl.l2v[f j]?

/-- `_shift` towards the bottom: `dist` swaps starting at `i` -/
theorem shiftLoop_up (S : SwapOK E P R) : ∀ (dist f i : Nat) (sizes : List (Nat × Nat)) (m : Mgr),
    P m → i + dist < m.nvars → dist ≤ f →
    OkOr E (fun _ m' => P m' ∧ R m m' ∧ MovedBy m (shiftPerm i (i + dist)) m')
      (shiftLoop f (i : Int) ((i + dist : Nat) : Int) 1 sizes m) := by
  intro dist
  induction dist with
  | zero =>
    intro f i sizes m hP _ _
    have : shiftLoop f (i : Int) ((i + 0 : Nat) : Int) 1 sizes m = (.ok sizes, m) := by
      cases f <;> simp [shiftLoop, M.pure_eq]
    rw [this]
    exact ⟨hP, S.refl m, rfl, rfl, fun j => by rw [Nat.add_zero, shiftPerm_self]⟩
  | succ dist ih =>
    intro f i sizes m hP hlt hf
    obtain ⟨f', rfl⟩ : ∃ f', f = f' + 1 := ⟨f - 1, by omega⟩
    have hne : ¬ ((i : Int) = ((i + (dist + 1) : Nat) : Int)) := by omega
    unfold shiftLoop
    simp only [hne, if_false]
    rw [M.bind_eq, swap_levels_eq m i (by omega)]
    have hs := S.step m i hP (by omega)
    generalize swapBody i (i + 1) m = res at hs
    obtain ⟨r, m1⟩ := res
    cases r with
    | error e => exact hs
    | ok r =>
      obtain ⟨hP1, hR1, he1, _⟩ := hs
      simp only
      have e1 : (i : Int) + 1 = ((i + 1 : Nat) : Int) := by omega
      have e2 : ((i + (dist + 1) : Nat) : Int) = ((i + 1 + dist : Nat) : Int) := by omega
      rw [e1, e2]
      have h2 := ih f' (i + 1) (assocSet (assocSet sizes (i : Int).toNat r.1) ((i + 1 : Nat) : Int).toNat r.2) m1
        hP1 (by rw [he1.nvars]; omega) (by omega)
      refine OkOr.mono ?_ h2
      intro _ m2 ⟨hP2, hR2, hn2, hr2, hl2⟩
      refine ⟨hP2, S.trans _ _ _ hR1 hR2, hn2.trans he1.nvars, hr2.trans he1.roots, ?_⟩
      intro j
      rw [hl2 j, he1.l2v, shiftPerm_step_up]
      congr 2; omega

/-- `_shift` towards the top: `dist` swaps starting at `i + dist` -/
theorem shiftLoop_down (S : SwapOK E P R) : ∀ (dist f i : Nat) (sizes : List (Nat × Nat)) (m : Mgr),
    P m → i + dist < m.nvars → dist ≤ f →
    OkOr E (fun _ m' => P m' ∧ R m m' ∧ MovedBy m (shiftPerm (i + dist) i) m')
      (shiftLoop f ((i + dist : Nat) : Int) (i : Int) (-1) sizes m) := by
  intro dist
  induction dist with
  | zero =>
    intro f i sizes m hP _ _
    have : shiftLoop f ((i + 0 : Nat) : Int) (i : Int) (-1) sizes m = (.ok sizes, m) := by
      cases f <;> simp [shiftLoop, M.pure_eq]
    rw [this]
    exact ⟨hP, S.refl m, rfl, rfl, fun j => by rw [Nat.add_zero, shiftPerm_self]⟩
  | succ dist ih =>
    intro f i sizes m hP hlt hf
    obtain ⟨f', rfl⟩ : ∃ f', f = f' + 1 := ⟨f - 1, by omega⟩
    have hne : ¬ (((i + (dist + 1) : Nat) : Int) = (i : Int)) := by omega
    unfold shiftLoop
    simp only [hne, if_false]
    have e0 : ((i + (dist + 1) : Nat) : Int) = ((i + dist : Nat) : Int) + 1 := by omega
    have e1 : ((i + (dist + 1) : Nat) : Int) + -1 = ((i + dist : Nat) : Int) := by omega
    rw [e1, M.bind_eq, e0, swap_levels_eq' m (i + dist) (by omega)]
    have hs := S.step m (i + dist) hP (by omega)
    generalize swapBody (i + dist) (i + dist + 1) m = res at hs
    obtain ⟨r, m1⟩ := res
    cases r with
    | error e => exact hs
    | ok r =>
      obtain ⟨hP1, hR1, he1, _⟩ := hs
      simp only
      have h2 := ih f' i (assocSet (assocSet sizes (((i + dist : Nat) : Int) + 1).toNat r.1)
        ((i + dist : Nat) : Int).toNat r.2) m1 hP1 (by rw [he1.nvars]; omega) (by omega)
      refine OkOr.mono ?_ h2
      intro _ m2 ⟨hP2, hR2, hn2, hr2, hl2⟩
      refine ⟨hP2, S.trans _ _ _ hR1 hR2, hn2.trans he1.nvars, hr2.trans he1.roots, ?_⟩
      intro j
      rw [hl2 j, he1.l2v, shiftPerm_step_down]
      rfl

/-- **`_shift(start, end)`**: succeeds for valid levels; afterwards the variable that was at `start`
is at `end`, the variables in between moved one level towards `start`, all others stayed. -/
theorem shift_order (S : SwapOK E P R) (m : Mgr) (hP : P m) (s e : Nat) (hs : s < m.nvars)
    (he : e < m.nvars) :
    OkOr E (fun _ m' => P m' ∧ R m m' ∧ MovedBy m (shiftPerm s e) m') (shift s e m) := by
  unfold shift
  simp only [M.bind_eq, M.get_eq, hs, he, decide_true, M.assert_true]
  by_cases hlt : s < e
  · simp only [hlt, if_true]
    obtain ⟨d, rfl⟩ : ∃ d, e = s + d := ⟨e - s, by omega⟩
    exact shiftLoop_up S d (m.nvars + 1) s [] m hP he (by omega)
  · simp only [hlt, if_false]
    obtain ⟨d, rfl⟩ : ∃ d, s = e + d := ⟨s - e, by omega⟩
    exact shiftLoop_down S d (m.nvars + 1) e [] m hP hs (by omega)

/-- a successful `_shift` (whatever its arguments) keeps `P` and `R` -/
theorem shift_partial (S : SwapOK E P R) (m : Mgr) (hP : P m) (s e : Nat) (r : List (Nat × Nat))
    (m' : Mgr) (h : shift s e m = (.ok r, m')) : P m' ∧ R m m' ∧ m'.nvars = m.nvars := by
  by_cases hs : s < m.nvars
  · by_cases he : e < m.nvars
    · have := shift_order S m hP s e hs he
      rw [h] at this
      exact ⟨this.1, this.2.1, this.2.2.1⟩
    · exfalso
      unfold shift at h
      simp [M.bind_eq, M.get_eq, hs, he, M.assert_true, M.assert_false] at h
  · exfalso
    unfold shift at h
    simp [M.bind_eq, M.get_eq, hs, M.assert_false] at h

/-- where the variables are after a shift: `level_of_var` follows `_level_to_var` -/
theorem moved_vars (S : SwapOK E P R) {m m' : Mgr} (hP : P m) (hP' : P m') {f g : Nat → Nat}
    (hfg : ∀ a, f (g a) = a) (h : MovedBy m f m') {v : String} {i : Nat}
    (hv : m.tbl.vars[v]? = some i) : m'.tbl.vars[v]? = some (g i) := by
  have hV := S.vars m hP
  have hV' := S.vars m' hP'
  apply (hV'.inv v (g i)).mpr
  rw [h.2.2, hfg]
  exact (hV.inv v i).mp hv

/-! ### `reorder_to_pairs` -/

/-- the two variables are declared and sit at adjacent levels -/
def Adj (m : Mgr) (x y : String) : Prop :=
  ∃ i j, m.tbl.vars[x]? = some i ∧ m.tbl.vars[y]? = some j ∧ (i + 1 = j ∨ j + 1 = i)

theorem pairStep_spec (S : SwapOK E P R) (m : Mgr) (hP : P m) (x y : String) (hxy : x ≠ y)
    (hx : m.tbl.vars.contains x = true) (hy : m.tbl.vars.contains y = true) :
    OkOr E (fun _ m' => P m' ∧ R m m' ∧ m'.nvars = m.nvars ∧ Adj m' x y ∧
        (∀ v, m.tbl.vars.contains v = true → m'.tbl.vars.contains v = true) ∧
        (∀ a b, a ≠ x → a ≠ y → b ≠ x → b ≠ y → Adj m a b → Adj m' a b))
      (pairStep x y m) := by
  have hV := S.vars m hP
  rw [TreeMap.contains_eq_isSome_getElem?] at hx hy
  obtain ⟨jx, hjx⟩ := Option.isSome_iff_exists.mp hx
  obtain ⟨jy, hjy⟩ := Option.isSome_iff_exists.mp hy
  have hne : jx ≠ jy := fun e => hxy (hV.vars_inj hjx (e ▸ hjy))
  have lx := hV.lvl_lt hjx
  have ly := hV.lvl_lt hjy
  unfold pairStep
  rw [M.bind_ok (levelOfVar_ok m x jx hjx), M.bind_ok (levelOfVar_ok m y jy hjy)]
  have hk : (0 < if jx ≤ jy then jy - jx else jx - jy) := by split <;> omega
  simp only [hk, decide_true, M.bind_eq, M.assert_true]
  by_cases h1 : (if jx ≤ jy then jy - jx else jx - jy) = 1
  · simp only [h1, ne_eq, not_true_eq_false, if_false]
    refine ⟨hP, S.refl m, rfl, ⟨jx, jy, hjx, hjy, ?_⟩, fun _ h => h, fun _ _ _ _ _ _ h => h⟩
    split at h1 <;> omega
  · simp only [h1, ne_eq, not_false_eq_true, if_true]
    -- `lo` moves to `hi - 1`
    have key : ∀ (lo hi : Nat) (vlo vhi : String), m.tbl.vars[vlo]? = some lo →
        m.tbl.vars[vhi]? = some hi → lo + 2 ≤ hi → hi < m.nvars →
        ((vlo = x ∧ vhi = y) ∨ (vlo = y ∧ vhi = x)) →
        OkOr E (fun _ m' => P m' ∧ R m m' ∧ m'.nvars = m.nvars ∧ Adj m' x y ∧
            (∀ v, m.tbl.vars.contains v = true → m'.tbl.vars.contains v = true) ∧
            (∀ a b, a ≠ x → a ≠ y → b ≠ x → b ≠ y → Adj m a b → Adj m' a b))
          ((shift lo (hi - 1) >>= fun _ => pure ()) m) := by
      intro lo hi vlo vhi hlo hhi hgap hhn hwho
      rw [M.bind_eq]
      have hsh := shift_order S m hP lo (hi - 1) (by omega) (by omega)
      generalize shift lo (hi - 1) m = res at hsh
      obtain ⟨r, m'⟩ := res
      cases r with
      | error e => exact hsh
      | ok r =>
        obtain ⟨hP', hR', hmv⟩ := hsh
        have hvars : ∀ {v : String} {i : Nat}, m.tbl.vars[v]? = some i →
            m'.tbl.vars[v]? = some (shiftPerm (hi - 1) lo i) :=
          fun hv => moved_vars S hP hP' (shiftPerm_inv lo (hi - 1)) hmv hv
        have hplo : shiftPerm (hi - 1) lo lo = hi - 1 := by
          unfold shiftPerm
          have : ¬ (hi - 1 < lo) := by omega
          have : lo < hi - 1 := by omega
          simp [*]
        have phi : shiftPerm (hi - 1) lo hi = hi := by
          unfold shiftPerm
          have : ¬ (hi - 1 < lo) := by omega
          have : lo < hi - 1 := by omega
          have : ¬ (hi = lo) := by omega
          have : ¬ (lo < hi ∧ hi ≤ hi - 1) := by omega
          simp [*]
        refine ⟨hP', hR', hmv.1, ?_, ?_, ?_⟩
        · have a1 := hvars hlo
          have a2 := hvars hhi
          rw [hplo] at a1
          rw [phi] at a2
          rcases hwho with ⟨rfl, rfl⟩ | ⟨rfl, rfl⟩
          · exact ⟨_, _, a1, a2, Or.inl (by omega)⟩
          · exact ⟨_, _, a2, a1, Or.inr (by omega)⟩
        · intro v hv
          rw [TreeMap.contains_eq_isSome_getElem?] at hv ⊢
          obtain ⟨i, hi⟩ := Option.isSome_iff_exists.mp hv
          rw [hvars hi]; rfl
        · intro a b hax hay hbx hby ⟨ia, ib, hia, hib, hadj⟩
          refine ⟨_, _, hvars hia, hvars hib, ?_⟩
          have n1 : ia ≠ lo := fun e => by
            have := hV.vars_inj hia (e ▸ hlo)
            rcases hwho with ⟨rfl, _⟩ | ⟨rfl, _⟩ <;> contradiction
          have n2 : ia ≠ hi := fun e => by
            have := hV.vars_inj hia (e ▸ hhi)
            rcases hwho with ⟨_, rfl⟩ | ⟨_, rfl⟩ <;> contradiction
          have n3 : ib ≠ lo := fun e => by
            have := hV.vars_inj hib (e ▸ hlo)
            rcases hwho with ⟨rfl, _⟩ | ⟨rfl, _⟩ <;> contradiction
          have n4 : ib ≠ hi := fun e => by
            have := hV.vars_inj hib (e ▸ hhi)
            rcases hwho with ⟨_, rfl⟩ | ⟨_, rfl⟩ <;> contradiction
          unfold shiftPerm
          have c1 : ¬ (hi - 1 < lo) := by omega
          have c2 : lo < hi - 1 := by omega
          simp only [c1, c2, if_false, if_true, n1, n3]
          split <;> split <;> omega
    by_cases hgt : jx > jy
    · simp only [hgt, if_true]
      exact key jy jx y x hjy hjx (by split at h1 <;> omega) lx (Or.inr ⟨rfl, rfl⟩)
    · simp only [hgt, if_false]
      exact key jx jy x y hjx hjy (by split at h1 <;> omega) ly (Or.inl ⟨rfl, rfl⟩)

/-- all names occurring in a pairing -/
def pairNames : List (String × String) → List String
  | [] => []
  | (x, y) :: rest => x :: y :: pairNames rest

/-- **`reorder_to_pairs`**: for a pairing of pairwise distinct declared variables the call
succeeds and afterwards every requested pair is adjacent. -/
theorem reorderToPairs_adjacent (S : SwapOK E P R) : ∀ (pairs : List (String × String)) (m : Mgr),
    P m → (∀ v ∈ pairNames pairs, m.tbl.vars.contains v = true) → (pairNames pairs).Nodup →
    OkOr E (fun _ m' => P m' ∧ R m m' ∧ m'.nvars = m.nvars ∧
        (∀ p ∈ pairs, Adj m' p.1 p.2) ∧
        (∀ v, m.tbl.vars.contains v = true → m'.tbl.vars.contains v = true) ∧
        (∀ a b, a ∉ pairNames pairs → b ∉ pairNames pairs → Adj m a b → Adj m' a b))
      (reorderToPairs pairs m) := by
  intro pairs
  induction pairs with
  | nil =>
    intro m hP _ _
    exact ⟨hP, S.refl m, rfl, fun _ h => absurd h List.not_mem_nil, fun _ h => h, fun _ _ _ _ h => h⟩
  | cons pq rest ih =>
    obtain ⟨x, y⟩ := pq
    intro m hP hdecl hnd
    simp only [pairNames, List.nodup_cons, List.mem_cons, not_or] at hnd
    obtain ⟨⟨hxy, hxr⟩, hyr, hrest⟩ := hnd
    unfold reorderToPairs
    have h1 := pairStep_spec S m hP x y hxy (hdecl x (by simp [pairNames]))
      (hdecl y (by simp [pairNames]))
    refine OkOr.bind h1 ?_
    intro _ m1 ⟨hP1, hR1, hn1, hadj1, hdec1, hpres1⟩
    have h2 := ih m1 hP1 (fun v hv => hdec1 v (hdecl v (by simp [pairNames, hv]))) hrest
    refine OkOr.mono ?_ h2
    intro _ m2 ⟨hP2, hR2, hn2, hadj2, hdec2, hpres2⟩
    refine ⟨hP2, S.trans _ _ _ hR1 hR2, hn2.trans hn1, ?_, fun v hv => hdec2 v (hdec1 v hv), ?_⟩
    · intro p hp
      rcases List.mem_cons.mp hp with rfl | hp
      · exact hpres2 x y hxr hyr hadj1
      · exact hadj2 p hp
    · intro a b ha hb hab
      simp only [pairNames, List.mem_cons, not_or] at ha hb
      exact hpres2 a b ha.2.2 hb.2.2 (hpres1 a b ha.1 ha.2.1 hb.1 hb.2.1 hab)

/-! ### sifting: what a successful run guarantees -/

theorem levelOfVar_inv {v : String} {m m' : Mgr} {i : Nat} (h : levelOfVar v m = (.ok i, m')) :
    m = m' ∧ m.tbl.vars[v]? = some i := by
  unfold levelOfVar at h
  obtain ⟨_, _, h1, h⟩ := M.bind_ok_inv h
  obtain ⟨rfl, rfl⟩ := M.get_ok_inv h1
  obtain ⟨h2, rfl⟩ := M.ofOption_ok_inv h
  exact ⟨rfl, h2⟩

theorem reorderVar_partial (S : SwapOK E P R) (m : Mgr) (hP : P m) (var : String) (k : Nat) (m' : Mgr)
    (h : reorderVar var m = (.ok k, m')) : P m' ∧ R m m' ∧ m'.nvars = m.nvars ∧ m'.len ≤ m.len := by
  unfold reorderVar at h
  obtain ⟨m0, m0', g0, h0⟩ := M.bind_ok_inv h
  obtain ⟨e1, e2⟩ := M.get_ok_inv g0
  subst e1; subst e2
  by_cases hc : (!m.tbl.vars.contains var) = true
  · rw [if_pos hc] at h0; cases h0
  · rw [if_neg hc] at h0
    obtain ⟨_, ma, ga, ha⟩ := M.bind_ok_inv h0
    obtain ⟨_, e⟩ := M.assert_ok_inv ga
    subst e
    obtain ⟨level, mb, gb, hb⟩ := M.bind_ok_inv ha
    obtain ⟨e, _⟩ := levelOfVar_inv gb
    subst e
    generalize (if 2 * level ≥ m.nvars - 1 then (m.nvars - 1, 0) else (0, m.nvars - 1)) = se at hb
    obtain ⟨start, end_⟩ := se
    dsimp only at hb
    obtain ⟨s1, m1, g1, h1⟩ := M.bind_ok_inv hb
    obtain ⟨hP1, hR1, hn1⟩ := shift_partial S _ hP _ _ s1 m1 g1
    obtain ⟨sizes, m2, g2, h2⟩ := M.bind_ok_inv h1
    obtain ⟨hP2, hR2, hn2⟩ := shift_partial S _ hP1 _ _ sizes m2 g2
    obtain ⟨kk, mc, g3, h3⟩ := M.bind_ok_inv h2
    obtain ⟨_, e⟩ := M.ofOption_ok_inv g3
    subst e
    obtain ⟨s3, m3, g4, h4⟩ := M.bind_ok_inv h3
    obtain ⟨hP3, hR3, hn3⟩ := shift_partial S _ hP2 _ _ s3 m3 g4
    obtain ⟨md, md', g5, h5⟩ := M.bind_ok_inv h4
    obtain ⟨e1, e2⟩ := M.get_ok_inv g5
    subst e1; subst e2
    obtain ⟨_, me, g6, h6⟩ := M.bind_ok_inv h5
    obtain ⟨_, e⟩ := M.assert_ok_inv g6
    subst e
    obtain ⟨_, mf, g7, h7⟩ := M.bind_ok_inv h6
    obtain ⟨hle, e⟩ := M.assert_ok_inv g7
    subst e
    cases h7
    exact ⟨hP3, S.trans _ _ _ (S.trans _ _ _ hR1 hR2) hR3, hn3.trans (hn2.trans hn1),
      of_decide_eq_true hle⟩

theorem siftVars_partial (S : SwapOK E P R) : ∀ (names : List String) (m m' : Mgr), P m →
    siftVars names m = (.ok (), m') → P m' ∧ R m m' ∧ m'.nvars = m.nvars ∧ m'.len ≤ m.len := by
  intro names
  induction names with
  | nil =>
    intro m m' hP h
    cases h
    exact ⟨hP, S.refl m, rfl, Nat.le_refl _⟩
  | cons v rest ih =>
    intro m m' hP h
    unfold siftVars at h
    rw [M.bind_eq] at h
    generalize h1 : reorderVar v m = r1 at h
    obtain ⟨r1, m1⟩ := r1
    cases r1 with
    | error e => cases h
    | ok k =>
      obtain ⟨hP1, hR1, hn1, hl1⟩ := reorderVar_partial S m hP v k m1 h1
      obtain ⟨hP2, hR2, hn2, hl2⟩ := ih m1 m' hP1 h
      exact ⟨hP2, S.trans _ _ _ hR1 hR2, hn2.trans hn1, Nat.le_trans hl2 hl1⟩

/-! ### the `sizes` dict is not empty after a shift between different levels -/

theorem assocSet_ne_nil (l : List (Nat × Nat)) (k v : Nat) : assocSet l k v ≠ [] := by
  unfold assocSet
  split
  · next h =>
    intro e
    have := List.map_eq_nil_iff.mp e
    subst this
    simp at h
  · simp

/-- `_shift` between two different levels records at least one size -/
theorem shiftLoop_sizes_ne : ∀ (f : Nat) (i e d : Int) (sizes : List (Nat × Nat)) (m : Mgr)
    (sz : List (Nat × Nat)) (m' : Mgr), shiftLoop f i e d sizes m = (.ok sz, m') →
    (sizes ≠ [] ∨ i ≠ e) → sz ≠ [] := by
  intro f
  induction f with
  | zero =>
    intro i e d sizes m sz m' h hne
    unfold shiftLoop at h
    by_cases hie : i = e
    · rw [if_pos hie] at h
      cases h
      rcases hne with h1 | h1
      · exact h1
      · exact absurd hie h1
    · rw [if_neg hie] at h; cases h
  | succ f ih =>
    intro i e d sizes m sz m' h hne
    unfold shiftLoop at h
    by_cases hie : i = e
    · rw [if_pos hie] at h
      cases h
      rcases hne with h1 | h1
      · exact h1
      · exact absurd hie h1
    · rw [if_neg hie] at h
      obtain ⟨r, m1, _, h2⟩ := M.bind_ok_inv h
      exact ih _ _ _ _ _ _ _ h2 (Or.inl (assocSet_ne_nil _ _ _))

theorem shift_sizes_ne (s e : Nat) (m : Mgr) (sz : List (Nat × Nat)) (m' : Mgr)
    (h : shift s e m = (.ok sz, m')) (hse : s ≠ e) : sz ≠ [] := by
  unfold shift at h
  obtain ⟨m0, m0', g0, h0⟩ := M.bind_ok_inv h
  obtain ⟨e1, e2⟩ := M.get_ok_inv g0
  subst e1; subst e2
  obtain ⟨_, ma, ga, ha⟩ := M.bind_ok_inv h0
  obtain ⟨_, ea⟩ := M.assert_ok_inv ga
  subst ea
  obtain ⟨_, mb, gb, hb⟩ := M.bind_ok_inv ha
  obtain ⟨_, eb⟩ := M.assert_ok_inv gb
  subst eb
  exact shiftLoop_sizes_ne _ _ _ _ _ _ _ _ hb (Or.inr (by omega))

theorem argMin_some (l : List (Nat × Nat)) (h : l ≠ []) : ∃ k, argMin l = some k := by
  cases l with
  | nil => exact absurd rfl h
  | cons a rest => obtain ⟨k, v⟩ := a; exact ⟨_, rfl⟩

/-- what sifting needs beyond the swap: the initial full collection and the consumption of the
recorded iteration order keep `P` and `R` -/
structure SiftEnv (E : Err → Prop) (P : Mgr → Prop) (R : Mgr → Mgr → Prop) : Prop
    extends SwapOK E P R where
  gc : ∀ m, P m → ∃ m', collectGarbage none m = (.ok (), m') ∧ P m' ∧ R m m' ∧
    m'.tbl.vars = m.tbl.vars
  sched : ∀ m s, P m → (m.sched = [] → s = []) → P { m with sched := s } ∧ R m { m with sched := s }

theorem takeSiftOrder_inv {m m' : Mgr} {names : List String}
    (h : takeSiftOrder m = (.ok names, m')) : ∃ s, m' = { m with sched := s } ∧ (m.sched = [] → s = []) := by
  unfold takeSiftOrder at h
  obtain ⟨m0, m0', g0, h0⟩ := M.bind_ok_inv h
  obtain ⟨e1, e2⟩ := M.get_ok_inv g0
  subst e1; subst e2
  split at h0
  · cases h0; exact ⟨m.sched, rfl, fun h => h⟩
  · next names' rest hs =>
    obtain ⟨_, m1, g1, h1⟩ := M.bind_ok_inv h0
    cases g1
    split at h1
    · cases h1; exact ⟨_, rfl, fun h => by rw [hs] at h; cases h⟩
    · cases h1
  · cases h0

/-- **Sifting, partial correctness**: if `_apply_sifting` returns normally then `P` holds, the
final state is `R`-related to the initial one, and there are no more nodes than after the
initial collection (the code's own final check). -/
theorem applySifting_partial (E : SiftEnv E P R) (m m' : Mgr) (hP : P m)
    (h : applySifting m = (.ok (), m')) :
    ∃ mg, collectGarbage none m = (.ok (), mg) ∧ P m' ∧ R m m' ∧ m'.nvars = mg.nvars ∧
      m'.len ≤ mg.len := by
  have S := E.toSwapOK
  unfold applySifting at h
  obtain ⟨_, mg, g0, h0⟩ := M.bind_ok_inv h
  obtain ⟨mg', hrg, hPg, hRg, _⟩ := E.gc m hP
  rw [g0] at hrg
  cases hrg
  refine ⟨mg, g0, ?_⟩
  obtain ⟨ma, ma', g1, h1⟩ := M.bind_ok_inv h0
  obtain ⟨e1, e2⟩ := M.get_ok_inv g1
  subst e1; subst e2
  obtain ⟨names, mb, g2, h2⟩ := M.bind_ok_inv h1
  obtain ⟨s, rfl, hs0⟩ := takeSiftOrder_inv g2
  obtain ⟨hPb, hRb⟩ := E.sched mg s hPg hs0
  by_cases hc : names.isEmpty = true
  · rw [if_pos hc] at h2; cases h2
  · rw [if_neg hc] at h2
    obtain ⟨_, mc, g3, h3⟩ := M.bind_ok_inv h2
    obtain ⟨hPc, hRc, hnc, hlc⟩ := siftVars_partial S names _ mc hPb g3
    obtain ⟨md, md', g4, h4⟩ := M.bind_ok_inv h3
    obtain ⟨e1, e2⟩ := M.get_ok_inv g4
    subst e1; subst e2
    obtain ⟨hle, e⟩ := M.assert_ok_inv h4
    subst e
    exact ⟨hPc, S.trans _ _ _ hRg (S.trans _ _ _ hRb hRc), hnc, of_decide_eq_true hle⟩

theorem takeSiftOrder_outcome (m : Mgr) :
    OkOrSched (fun names m' => (∃ s, m' = { m with sched := s } ∧ (m.sched = [] → s = [])) ∧
        names.length = m.tbl.vars.size ∧
        ∀ v ∈ names, m.tbl.vars.contains v = true) (takeSiftOrder m) := by
  have hkeys : ∀ v ∈ m.tbl.vars.keys, m.tbl.vars.contains v = true := by
    intro v hv
    rw [TreeMap.mem_keys] at hv
    exact TreeMap.contains_iff_mem.mpr hv
  unfold takeSiftOrder
  rw [M.bind_ok (M.get_eq m)]
  cases hs : m.sched with
  | nil => exact ⟨⟨m.sched, rfl, fun _ => hs⟩, TreeMap.length_keys, hkeys⟩
  | cons it rest =>
    cases it with
    | swap lv => exact rfl
    | sift names =>
      simp only
      rw [M.bind_ok (M.set_eq _ _)]
      split
      · next hc =>
        simp only [Bool.and_eq_true, beq_iff_eq, List.all_eq_true, List.contains_iff_mem] at hc
        refine ⟨⟨rest, rfl, fun h => by cases h⟩, ?_, ?_⟩
        · rw [hc.1.1]; exact TreeMap.length_keys
        · intro v hv; exact hkeys v (hc.1.2 v hv)
      · exact rfl

end Abs

end DD
