/-
  DDProofs.AutoLedger — counting over finite maps with natural-number keys:
  `msum t w = Σ_{(k ↦ b) ∈ t} w b`, defined as a sum over `List.range`-like
  recursion up to a bound above every key, so that `insert` / `erase` change
  exactly one summand.  Used for
    * `hcount handles k` : number of live handles on node `k`
  (the in-degree `indeg` of a node is defined the same way in DDProofs.RefCount).
-/
import DD.Auto
import Std.Data.TreeMap.Lemmas
open Std

namespace DD

/-- `Σ_{i < n} f i` -/
def sumTo (f : Nat → Nat) : Nat → Nat
  | 0 => 0
  | n + 1 => sumTo f n + f n

theorem sumTo_congr {f g : Nat → Nat} : ∀ n, (∀ i, i < n → f i = g i) → sumTo f n = sumTo g n
  | 0, _ => rfl
  | n + 1, h => by
    rw [sumTo, sumTo, sumTo_congr n (fun i hi => h i (by omega)), h n (by omega)]

/-- summands beyond `n` that vanish do not count -/
theorem sumTo_extend {f : Nat → Nat} (n : Nat) : ∀ n', n ≤ n' → (∀ i, n ≤ i → i < n' → f i = 0) →
    sumTo f n' = sumTo f n
  | 0, h, _ => by
    have : n = 0 := by omega
    subst this; rfl
  | n' + 1, h, hz => by
    by_cases he : n = n' + 1
    · subst he; rfl
    · rw [sumTo, sumTo_extend n n' (by omega) (fun i h1 h2 => hz i h1 (by omega)), hz n' (by omega) (by omega)]
      rfl

/-- changing one summand -/
theorem sumTo_update {f g : Nat → Nat} (j : Nat) : ∀ n, j < n → (∀ i, i ≠ j → g i = f i) →
    sumTo g n + f j = sumTo f n + g j
  | 0, h, _ => by omega
  | n + 1, h, hfg => by
    rw [sumTo, sumTo]
    by_cases hj : j = n
    · subst hj
      rw [sumTo_congr j (fun i hi => hfg i (by omega))]
      omega
    · have := sumTo_update j n (by omega) hfg
      rw [hfg n (by omega)]
      omega

theorem sumTo_pos {f : Nat → Nat} : ∀ n, 0 < sumTo f n → ∃ i, i < n ∧ 0 < f i
  | 0, h => by simp [sumTo] at h
  | n + 1, h => by
    rw [sumTo] at h
    by_cases hn : 0 < f n
    · exact ⟨n, by omega, hn⟩
    · obtain ⟨i, hi, hf⟩ := sumTo_pos (f := f) n (by omega)
      exact ⟨i, by omega, hf⟩

theorem sumTo_zero {f : Nat → Nat} : ∀ n, (∀ i, i < n → f i = 0) → sumTo f n = 0
  | 0, _ => rfl
  | n + 1, h => by rw [sumTo, sumTo_zero n (fun i hi => h i (by omega)), h n (by omega)]

/-- a bound above every element of a list -/
def listBound : List Nat → Nat
  | [] => 0
  | a :: l => max (a + 1) (listBound l)

theorem lt_listBound : ∀ (l : List Nat) (a : Nat), a ∈ l → a < listBound l
  | [], _, h => by simp at h
  | b :: l, a, h => by
    rw [listBound]
    rcases List.mem_cons.mp h with h | h
    · subst h; omega
    · have := lt_listBound l a h; omega

section msum
variable {β : Type}

/-- a bound above every key of the map -/
def mbound (t : TreeMap Nat β) : Nat := listBound t.keys

theorem lt_mbound (t : TreeMap Nat β) (i : Nat) (h : t.contains i = true) : i < mbound t :=
  lt_listBound _ _ (TreeMap.mem_keys.mpr (TreeMap.contains_iff_mem.mp h))

/-- the summand of key `i` -/
def mterm (t : TreeMap Nat β) (w : β → Nat) (i : Nat) : Nat :=
  match t[i]? with
  | some b => w b
  | none => 0

/-- `Σ_{(k ↦ b) ∈ t} w b` -/
def msum (t : TreeMap Nat β) (w : β → Nat) : Nat := sumTo (mterm t w) (mbound t)

theorem mterm_of_not_contains (t : TreeMap Nat β) (w : β → Nat) (i : Nat) (h : t.contains i = false) :
    mterm t w i = 0 := by
  unfold mterm
  rw [TreeMap.getElem?_eq_none_of_contains_eq_false h]

/-- the sum may be taken up to any bound above the keys -/
theorem msum_eq_of_bound (t : TreeMap Nat β) (w : β → Nat) (B : Nat)
    (hB : ∀ i, t.contains i = true → i < B) : msum t w = sumTo (mterm t w) B := by
  unfold msum
  have hz : ∀ (n : Nat), (∀ i, t.contains i = true → i < n) → ∀ i, n ≤ i → mterm t w i = 0 := by
    intro n hn i hi
    apply mterm_of_not_contains
    cases hc : t.contains i
    · rfl
    · have := hn i hc; omega
  by_cases hle : mbound t ≤ B
  · exact (sumTo_extend (mbound t) B hle (fun i h1 _ => hz _ (lt_mbound t) i h1)).symm
  · exact sumTo_extend B (mbound t) (by omega) (fun i h1 _ => hz _ hB i h1)

theorem getElem?_insert_ne (t : TreeMap Nat β) (j i : Nat) (b : β) (h : i ≠ j) :
    (t.insert j b)[i]? = t[i]? := by
  rw [TreeMap.getElem?_insert]
  have : compare j i ≠ .eq := fun hc => h (Nat.compare_eq_eq.mp hc).symm
  simp [this]

theorem getElem?_erase_ne (t : TreeMap Nat β) (j i : Nat) (h : i ≠ j) :
    (t.erase j)[i]? = t[i]? := by
  rw [TreeMap.getElem?_erase]
  have : compare j i ≠ .eq := fun hc => h (Nat.compare_eq_eq.mp hc).symm
  simp [this]

theorem msum_insert_new (t : TreeMap Nat β) (w : β → Nat) (j : Nat) (b : β)
    (hj : t.contains j = false) : msum (t.insert j b) w = msum t w + w b := by
  let B := max (mbound t) (max (mbound (t.insert j b)) (j + 1))
  rw [msum_eq_of_bound t w B (fun i h => by have := lt_mbound t i h; omega),
      msum_eq_of_bound (t.insert j b) w B (fun i h => by have := lt_mbound _ i h; omega)]
  have h := sumTo_update (f := mterm t w) (g := mterm (t.insert j b) w) j B (by omega) (by
    intro i hi
    unfold mterm
    rw [getElem?_insert_ne t j i b hi])
  rw [mterm_of_not_contains t w j hj] at h
  have h2 : mterm (t.insert j b) w j = w b := by
    unfold mterm; rw [TreeMap.getElem?_insert_self]
  omega

theorem msum_erase (t : TreeMap Nat β) (w : β → Nat) (j : Nat) (b : β)
    (hj : t[j]? = some b) : msum (t.erase j) w + w b = msum t w := by
  let B := max (mbound t) (max (mbound (t.erase j)) (j + 1))
  rw [msum_eq_of_bound t w B (fun i h => by have := lt_mbound t i h; omega),
      msum_eq_of_bound (t.erase j) w B (fun i h => by have := lt_mbound _ i h; omega)]
  have h := sumTo_update (f := mterm t w) (g := mterm (t.erase j) w) j B (by omega) (by
    intro i hi
    unfold mterm
    rw [getElem?_erase_ne t j i hi])
  have h1 : mterm t w j = w b := by unfold mterm; rw [hj]
  have h2 : mterm (t.erase j) w j = 0 := by
    unfold mterm; rw [TreeMap.getElem?_erase_self]
  omega

theorem msum_pos (t : TreeMap Nat β) (w : β → Nat) (h : 0 < msum t w) :
    ∃ (i : Nat) (b : β), t[i]? = some b ∧ 0 < w b := by
  obtain ⟨i, _, hi⟩ := sumTo_pos _ h
  unfold mterm at hi
  cases hb : t[i]? with
  | none => rw [hb] at hi; simp at hi
  | some b => rw [hb] at hi; exact ⟨i, b, hb, hi⟩

theorem msum_of_isEmpty (t : TreeMap Nat β) (w : β → Nat) (h : t.isEmpty = true) : msum t w = 0 := by
  apply sumTo_zero
  intro i _
  apply mterm_of_not_contains
  cases hc : t.contains i
  · rfl
  · have := TreeMap.isEmpty_eq_false_of_contains hc
    rw [h] at this; cases this

/-- two maps with the same lookups have the same sum -/
theorem msum_congr (t t' : TreeMap Nat β) (w : β → Nat) (h : ∀ i : Nat, t'[i]? = t[i]?) : msum t' w = msum t w := by
  let B := max (mbound t) (mbound t')
  rw [msum_eq_of_bound t w B (fun i h => by have := lt_mbound t i h; omega),
      msum_eq_of_bound t' w B (fun i h => by have := lt_mbound _ i h; omega)]
  apply sumTo_congr
  intro i _
  unfold mterm; rw [h]

end msum

/-! ### the two instances -/

/-- number of live handles that point to node `k` -/
def hcount (h : TreeMap Nat Int) (k : Nat) : Nat := msum h (fun u => if u.natAbs = k then 1 else 0)

theorem hcount_insert (h : TreeMap Nat Int) (j : Nat) (u : Int) (k : Nat) (hj : h.contains j = false) :
    hcount (h.insert j u) k = hcount h k + (if u.natAbs = k then 1 else 0) :=
  msum_insert_new h _ j u hj

theorem hcount_erase (h : TreeMap Nat Int) (j : Nat) (u : Int) (k : Nat) (hj : h[j]? = some u) :
    hcount (h.erase j) k + (if u.natAbs = k then 1 else 0) = hcount h k :=
  msum_erase h _ j u hj

theorem hcount_of_isEmpty (h : TreeMap Nat Int) (k : Nat) (he : h.isEmpty = true) : hcount h k = 0 :=
  msum_of_isEmpty h _ he

/-- a live handle is counted -/
theorem hcount_pos_of_handle (h : TreeMap Nat Int) (j : Nat) (u : Int) (hj : h[j]? = some u) :
    0 < hcount h u.natAbs := by
  have := hcount_erase h j u u.natAbs hj
  simp at this
  omega

end DD
