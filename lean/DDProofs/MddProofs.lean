/-
  DDProofs.MddProofs — umbrella of the MDD proof development (property C15):
  MddSem (denotation `denM`, structural invariant), MddCanon (canonicity), MddInv (manager
  invariant, allocator, counters), MddFoa (`find_or_add`), MddIte (`ite`), MddApply (`apply`
  over the regenerated table), MddGc (`collect_garbage`).
-/
import DDProofs.MddSem
import DDProofs.MddCanon
import DDProofs.MddInv
import DDProofs.MddFoa
import DDProofs.MddIte
import DDProofs.MddApply
import DDProofs.MddGc
import DDProofs.MddConv
import DDProofs.MddReach
import DDProofs.MddGcReach
import DDProofs.MddCount
import DDProofs.MddFuel

namespace DD
/-! names used in the design document -/
theorem mddFindOrAdd_spec := @mFindOrAddCore_spec
theorem mddIte_spec := @mIte_spec
theorem mddApply_spec := @mApply_spec
theorem mdd_canonical := @mcanonical
theorem mddGc_exactly_reachable := @gc_exactly_reachable
end DD
