/-
  DDProofs.MddProofs — umbrella of the MDD proof development (property C15):
  MddSem (denotation `denM`, structural invariant), MddCanon (canonicity), MddInv (manager
  invariant, allocator, counters), MddFoa (`find_or_add`), MddIte (`ite`), MddApply (`apply`
  over the regenerated table), MddGc (`collect_garbage`).
-/
import DDProofs.MddSem
import DDProofs.MddCanon
import DDProofs.MddInv
import DDProofs.MddFoa
import DDProofs.MddIte
import DDProofs.MddApply
import DDProofs.MddGc
import DDProofs.MddConv
import DDProofs.MddReach
import DDProofs.MddGcReach
import DDProofs.MddCount
import DDProofs.MddFuel

/-! Names used in the design document: `mddFindOrAdd_spec` = `DD.mFindOrAddCore_spec`,
`mddIte_spec` = `DD.mIte_spec`, `mddApply_spec` = `DD.mApply_spec`, `mdd_canonical` =
`DD.mcanonical`, `mddGc_spec` = `DD.mddGc_spec` (+ `DD.gc_exactly_reachable`),
`bddToMdd_spec` = `DD.bddToMdd_statement` (statement) / `DD.C15_bddToMdd_partial_call`. -/
