/-
  DDProofs.DynSift — the contract of sifting assumed by the transparency theorems
  (`SiftContract`, DDProofs.DynGeneric) is the totality theorem of C07
  (`applySifting_total_default`, DDProofs.SiftFinal): `SiftContract ext` holds for every ledger.
-/
import DDProofs.DynApply
import DDProofs.SiftFinal
open Std

namespace DD

theorem DynInv.reorderInv {ext : Nat → Nat} {m : Mgr} (h : DynInv ext m) : ReorderInv ext m :=
  ⟨h.inv, h.order, h.refs, Or.inl h.ctx, h.roots⟩

/-- a signed reference the user holds keeps its meaning by name when the unsigned node does -/
theorem heldX_denN_of_heldSame {ext : Nat → Nat} {m m' : Mgr} (hI : Inv m) (hI' : Inv m')
    (hR : RefExact m ext) (hR' : RefExact m' ext) (hs : HeldSame ext m m') {u : Int}
    (hu : HeldX ext u) (σ : AsgN) : denN m'.tbl u σ = denN m.tbl u σ := by
  have hm : m.tbl.Mem u := hu.mem hR
  have hm' : m'.tbl.Mem u := hu.mem hR'
  unfold denN
  rw [den_abs_sign m'.tbl hI'.wf.toWF u hm', den_abs_sign m.tbl hI.wf.toWF u hm]
  congr 1
  rcases hu with h1 | h1
  · rw [h1]
    show den m'.tbl 1 _ = den m.tbl 1 _
    rw [den_one, den_one]
  · exact hs u.natAbs h1 σ

/-- the contract of sifting holds: C07's totality theorem for the default schedule -/
theorem siftContract (ext : Nat → Nat) : SiftContract ext := by
  refine ⟨fun m hD hoff => ?_, fun m m'' hD _ hrun'' => ?_⟩
  rotate_left
  · obtain ⟨m', hrun, _, _, hrel⟩ :=
      applySifting_total_default ext m hD.reorderInv hD.nvars hD.sched
    have hrun2 : applySifting m = (.ok (), m'') := hrun''
    rw [hrun] at hrun2
    have : m' = m'' := by injection hrun2
    subst this
    exact hrel.roots
  obtain ⟨m', hrun, ⟨hR', _⟩, hs', hrel⟩ :=
    applySifting_total_default ext m hD.reorderInv hD.nvars hD.sched
  refine ⟨m', hrun, ⟨hR'.inv, hR'.order, hR'.refExact, by rw [hrel.ctx]; exact hD.ctx, hs',
    hR'.rootsHeld, by rw [hrel.nvars]; exact hD.nvars⟩, by rw [hrel.lastLen]; exact hoff,
    hrel.nvars, hrel.names, ?_⟩
  intro u hu σ
  exact heldX_denN_of_heldSame hD.inv hR'.inv hD.refs hR'.refExact hrel.held hu σ

end DD
