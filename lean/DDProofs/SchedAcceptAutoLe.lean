/-
  DDProofs.SchedAcceptAutoLe — `Function.__le__` / `__lt__` accept every valid choice of iteration
  orders.  `__le__` makes the temporary `Function` `~self` (no reordering: `apply('not', …)` only
  negates the reference), then calls the decorated `other | ~self` in a session state that still
  satisfies the invariant (`wrap_step`), then releases its temporaries (steps that do not look at
  the schedule).
-/
import DD.AutoChoiceLe
import DDProofs.SchedAcceptAutoMore
open Std

namespace DD

theorem applyEnd_not (s : Int) (m : Mgr) :
    (∃ e, applyEnd "not" s none none m = .err e) ∨ applyEnd "not" s none none m = .neg := by
  have hrow : ∃ r, findRow "not" Gen.applyTable = some r ∧ r.templ = .neg := ⟨_, rfl, rfl⟩
  obtain ⟨r, hr, ht⟩ := hrow
  unfold applyEnd
  simp only [hr, ht]
  repeat' split
  all_goals first | exact Or.inl ⟨_, rfl⟩ | exact Or.inr rfl

/-- `apply('not', s)` does not reorder: natural in the schedule -/
theorem applyNot_asn (s : Int) : ASN (AM.liftM (apply "not" s none none)) := by
  refine ASN.liftM (fun sc m => ?_) (fun m => ?_)
  · rw [apply_eq_end, apply_eq_end, applyEnd_setS]
    rcases applyEnd_not s m with ⟨e, he⟩ | he <;> rw [he]
  · rw [apply_eq_end]
    rcases applyEnd_not s m with ⟨e, he⟩ | he
    · rw [he]; exact ns_triv (applyEnd_err_ne he)
    · rw [he]; exact fun h => by cases h

theorem applyNot_state (s : Int) (a a1 : AMgr) (r : Int)
    (h : AM.liftM (apply "not" s none none) a = (.ok r, a1)) : a1 = a := by
  have e : AM.liftM (apply "not" s none none) a =
      ((apply "not" s none none a.m).1, { a with m := (apply "not" s none none a.m).2 }) := rfl
  rw [e, apply_eq_end] at h
  rcases applyEnd_not s a.m with ⟨er, he⟩ | he <;> rw [he] at h <;> cases h
  rfl

theorem freshH_asn : ASN freshH := fun _ _ => ⟨rfl, fun h => by cases h⟩
theorem freshH_read : ARead freshH := fun _ => rfl

theorem AAccepts.finally' {α} {XC : AM (α × List SchedItem)} {X : AM α} {a : AMgr}
    (h : AAccepts XC X a) {cl : AM Unit} (hc : ASN cl) :
    AAccepts (AM.finally' XC cl) (AM.finally' X cl) a := by
  obtain ⟨sch, h1, h2, h3⟩ := h
  refine ⟨sch, fun r log' hh => h1 r log' hh, fun rest => ?_, fun rest => h3 rest⟩
  show ((X (setSA (sch ++ rest) a)).1, (cl (X (setSA (sch ++ rest) a)).2).2) = _
  rw [h2 rest]
  show (dropLog (XC a).1, (cl (setSA rest (XC a).2)).2) = _
  rw [(hc rest (XC a).2).1]
  rfl

theorem fEq_asn (hs ho : Nat) : ASN (fEq hs ho) := by
  unfold fEq
  exact ASN.bind (nodeOwn_asn hs) (fun s => ASN.bind (nodeSame_asn ho) (fun o => ASN.pure _))

theorem fNe_asn (hs ho : Nat) : ASN (fNe hs ho) := by
  unfold fNe
  exact ASN.bind (nodeSame_asn ho) (fun _ => ASN.bind (fEq_asn hs ho) (fun r => ASN.pure _))

theorem fLeTail_asn (t2 : Nat) (n2 : Int) : ASN (fLeTail t2 n2) := by
  unfold fLeTail
  refine ASN.bind freshH_asn (fun t3 => ?_)
  refine ASN.bind (ASN.onErr (wrap_asn t3 1) (drop_asn t2)) (fun _ => ?_)
  exact ASN.bind (drop_asn t2) (fun _ => ASN.bind (drop_asn t3) (fun _ => ASN.pure _))

theorem fLeOr_accepts (ext : Nat → Nat) (c : Choice) (hc : c.Valid) (a : AMgr) (hD : DynInvS ext a.m)
    (ho : Nat) (n1 : Int) (t2 : Nat) : AAccepts (fLeOrC c ho n1 t2) (fLeOr ho n1 t2) a := by
  unfold fLeOrC fLeOr
  refine AAccepts.pre_read (nodeSame_asn ho) (nodeSame_read ho) (fun o _ => ?_)
  exact liftWrap_accepts (wrapF t2) (wrapF_asn t2) (apply_accepts ext c hc a.m hD "or" o (some n1) none)

/-- `Function.__le__` accepts every valid choice -/
theorem fLe_accepts (c : Choice) (hc : c.Valid) (a : AMgr) (hi : AInv false a) (h2 : Two false a)
    (hs ho : Nat) : AAccepts (fLeC c hs ho) (fLe hs ho) a := by
  unfold fLeC
  show AAccepts _ (nodeOwn hs >>= fun s => freshH >>= fun t1 =>
    AM.liftM (apply "not" s none none) >>= fun n1 => wrapF t1 n1 >>= fun _ => freshH >>= fun t2 =>
    AM.finally' (fLeOr ho n1 t2) (drop t1) >>= fun n2 => fLeTail t2 n2) a
  refine AAccepts.pre_read (nodeOwn_asn hs) (nodeOwn_read hs) (fun s _ => ?_)
  refine AAccepts.pre_read freshH_asn freshH_read (fun t1 ht1 => ?_)
  obtain ⟨t, hft, hfree⟩ := freshH_spec a
  have et : t1 = t := by rw [hft] at ht1; cases ht1; rfl
  subst et
  refine AAccepts.pre (applyNot_asn s) (fun n1 a1 hn => ?_)
  have ea := applyNot_state s a a1 n1 hn
  subst ea
  refine AAccepts.pre (wrapF_asn t1 n1) (fun _ a2 hw => ?_)
  obtain ⟨i2, htbl, _, _⟩ := wrap_step a1 t1 n1 hi hfree _ a2 (Or.inr hw)
  have h22 : Two false a2 := h2.of_tbl htbl
  refine AAccepts.pre_read freshH_asn freshH_read (fun t2 _ => ?_)
  have hD2 : DynInvS (hext a2) a2.m :=
    ⟨i2.minv.inv, i2.minv.order, i2.minv.counts, i2.minv.ctx,
      (fun r hr => by rw [i2.minv.roots] at hr; cases hr), h22 rfl⟩
  exact ((fLeOr_accepts (hext a2) c hc a2 hD2 ho n1 t2).finally' (drop_asn t1)).post
    (q := fLeTail t2) (fLeTail_asn t2)

/-- `Function.__lt__` accepts every valid choice -/
theorem fLt_accepts (c : Choice) (hc : c.Valid) (a : AMgr) (hi : AInv false a) (h2 : Two false a)
    (hs ho : Nat) : AAccepts (fLtC c hs ho) (fLt hs ho) a :=
  (fLe_accepts c hc a hi h2 hs ho).post (q := fun le => if le then fNe hs ho else Pure.pure false)
    (fun le => by cases le <;> first | exact ASN.pure _ | exact fNe_asn hs ho)

end DD
