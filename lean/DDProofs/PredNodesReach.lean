/-
  DDProofs.PredNodesReach — the unique table has no stray key in ANY reachable state
  (audit gap 14).

  `PredNodes m` ("every entry of `_pred` is the triple of the node it names") is a hypothesis of
  `C12_json_load` (it is what `assert_consistent` compares) and, as `PredShape`, of
  `C12_manager_roundtrip`.  `Inv` does not say it: `Inv.pred` constrains only the keys that ARE
  triples.  Every operation of the model inserts into `_pred` only the key of the node it
  stores (`find_or_add`, the swaps) and deletes whole entries: `KSM x` for every user operation
  `x` (the Gc/Order operations in DDProofs.PredNodesOrder, the rest here), hence `KeysOK` — and
  with `Inv`, `PredNodes` — in every state reached from the empty manager.
-/
import DDProofs.DumpJsonDyn
open Std
namespace DD

theorem KSM.step_eq {α : Type} {x : M α} {m m1 : Mgr} {r : Except Err α}
    (e : x m = (r, m1)) (hx : KSM x) (hk : KeysOK m) : KeysOK m1 := by
  have := hx m hk; rw [e] at this; exact this

/-- after a `split`: the newest equation `x m = (r, m1)` gives `KeysOK m1` (`t`: the induction
hypothesis, or any lemma `… → KSM (…)`) -/
syntax "ksm_next" term : tactic
macro_rules
  | `(tactic| ksm_next $t) => `(tactic|
      (have hnew := KSM.step_eq ‹_ = (_, _)›
          (by first
            | (with_reducible exact ($t _ _ _ _ _ _))
            | (with_reducible exact ($t _ _ _ _ _))
            | (with_reducible exact ($t _ _ _ _))
            | (with_reducible exact ($t _ _ _))
            | (with_reducible exact ($t _ _))
            | (with_reducible exact ($t _))
            | (with_reducible exact $t)
            | (with_reducible exact (ksm_findOrAdd _ _ _))
            | (with_reducible exact (ksm_iteRaw _ _ _))
            | (with_reducible exact (ksm_bddIte _ _ _)))
          (by assumption)))

macro "ksm_leaf" : tactic => `(tactic| first | assumption | (dsimp only; assumption))

/-- the whole case analysis of a function written as nested `match` / `if` -/
syntax "ksm_cases" term : tactic
macro_rules
  | `(tactic| ksm_cases $t) => `(tactic| repeat' (first | ksm_leaf | (split <;> try ksm_next $t)))

theorem ksm_cofactorF (values : List (Nat × Bool)) :
    ∀ (f : Nat) (u : Int) (ordvar : List Nat) (cache : HashMap Int Int),
      KSM (cofactorF values f u ordvar cache) := by
  intro f
  induction f with
  | zero => intro u o c m h; exact h
  | succ f ih =>
    intro u o c m h
    unfold cofactorF
    try dsimp only
    ksm_cases ih

theorem KeysOK.of_eq' {α : Type} {x y : Except Err α × Mgr} (e : x = y) (h : KeysOK x.2) :
    KeysOK y.2 := e ▸ h

theorem ksm_qstep (c fa : Bool) (l : Int) (p q : Int) :
    KSM (fun m => if c = true then (if fa = true then ite p q (-1) m else ite p 1 q m)
      else findOrAdd l p q m) := by
  intro m h
  dsimp only
  split
  · split
    · exact ksm_bddIte _ _ _ m h
    · exact ksm_bddIte _ _ _ m h
  · exact ksm_findOrAdd _ _ _ m h

theorem ksm_quantifyF (qvars : List Nat) (fa : Bool) :
    ∀ (f : Nat) (u : Int) (ordvar : List Nat) (cache : HashMap Int Int),
      KSM (quantifyF qvars fa f u ordvar cache) := by
  intro f
  induction f with
  | zero => intro u o c m h; exact h
  | succ f ih =>
    intro u o c m h
    unfold quantifyF
    try dsimp only
    ksm_cases ih
    all_goals (
      have hq := KeysOK.of_eq' ‹_ = (_, _)› (ksm_qstep _ _ _ _ _ _ (by assumption))
      ksm_leaf)

theorem ksm_composeF (j : Nat) :
    ∀ (fu : Nat) (f g : Int) (cache : HashMap (Int × Int) Int), KSM (composeF j fu f g cache) := by
  intro fu
  induction fu with
  | zero => intro f g c m h; exact h
  | succ fu ih =>
    intro f g c m h
    unfold composeF
    try dsimp only
    ksm_cases ih

theorem ksm_subOrVar (sub : List (Nat × Int)) (i : Nat) : KSM (subOrVar sub i) := by
  intro m h
  unfold subOrVar
  split
  · exact h
  · exact ksm_findOrAdd _ _ _ m h

theorem ksm_vectorComposeF (sub : List (Nat × Int)) :
    ∀ (fu : Nat) (f : Int) (cache : HashMap Nat Int), KSM (vectorComposeF sub fu f cache) := by
  intro fu
  induction fu with
  | zero => intro f c m h; exact h
  | succ fu ih =>
    intro f c m h
    unfold vectorComposeF
    try dsimp only
    repeat' (first | ksm_leaf | (split <;> first | ksm_next ih | ksm_next (ksm_subOrVar sub) | skip))

theorem ksm_copyBddF (src : Option Tbl) (lm : List (Nat × Nat)) :
    ∀ (fu : Nat) (u : Int) (cache : HashMap Nat Int), KSM (copyBddF src lm fu u cache) := by
  intro fu
  induction fu with
  | zero => intro u c m h; exact h
  | succ fu ih =>
    intro u c m h
    unfold copyBddF
    try dsimp only
    ksm_cases ih

theorem ksm_cofactor (u : Int) (values : List (Key × Bool)) : KSM (cofactor u values) := by
  unfold cofactor
  apply ksm_tryToReorder
  intro m h
  unfold cofactorBody
  try dsimp only
  ksm_cases (ksm_cofactorF)

theorem ksm_quantify (u : Int) (qvars : List Key) (fa : Bool) : KSM (quantify u qvars fa) := by
  unfold quantify
  apply ksm_tryToReorder
  intro m h
  unfold quantifyBody
  try dsimp only
  ksm_cases (ksm_quantifyF)

theorem ksm_compose (f : Int) (varSub : List (String × Int)) : KSM (compose f varSub) := by
  unfold compose
  apply ksm_tryToReorder
  intro m h
  unfold composeBody
  try dsimp only
  repeat' (first | ksm_leaf | (split <;> first | ksm_next ksm_composeF | ksm_next ksm_vectorComposeF | skip))

theorem ksm_rename (u : Int) (dvars : List (String × String)) : KSM (rename u dvars) := by
  unfold rename
  apply ksm_tryToReorder
  intro m h
  unfold renameBody
  try dsimp only
  ksm_cases (ksm_copyBddF)

theorem ksm_letOp (d : LetArg) (u : Int) : KSM (letOp d u) := by
  unfold letOp
  split
  · exact ksm_pure _
  · exact ksm_pure _
  · exact ksm_pure _
  · exact ksm_cofactor _ _
  · exact ksm_compose _ _
  · exact ksm_rename _ _

theorem ksm_apply (op : String) (u : Int) (v w : Option Int) : KSM (apply op u v w) := by
  intro m h
  unfold apply
  repeat' (first | ksm_leaf | exact ksm_bddIte _ _ _ m h | exact ksm_quantify _ _ _ m h | split)

theorem ksm_addVar (name : String) (level : Option Int) : KSM (addVar name level) := by
  intro m h
  cases hr : addVar name level m with
  | mk r m' =>
    cases r with
    | error e =>
      have : m' = m := by
        unfold addVar at hr
        simp only [bind, M.bind', M.get, pure] at hr
        cases hv : m.tbl.vars[name]? with
        | some vl =>
          simp only [hv] at hr
          cases level with
          | none => simp [M.pure'] at hr
          | some l =>
            by_cases hl : l = (vl : Int)
            · simp [M.pure', hl] at hr
            · simp [M.throw, hl] at hr
              exact hr.2.symm
        | none =>
          simp only [hv] at hr
          by_cases hneg : level.getD (m.nvars : Int) < 0
          · simp [hneg, M.bind', M.throw] at hr
            exact hr.2.symm
          · simp only [hneg, if_false] at hr
            cases hl : m.tbl.l2v[(level.getD (m.nvars : Int)).toNat]? with
            | some x =>
              simp [hl, M.throw] at hr
              exact hr.2.symm
            | none => simp [hl, M.bind', M.set, M.pure'] at hr
      subst this; exact h
    | ok j =>
      rcases dmp_addVar_cases hr with ⟨_, h2, _⟩ | ⟨_, _, _, h4⟩
      · subst h2; exact h
      · subst h4; exact h.congr rfl

/-- every user operation of the every-history theorems keeps the unique table free of stray keys -/
theorem runOp_keysOK (op : UOp) (m : Mgr) (h : KeysOK m) : KeysOK (runOp op m).2 := by
  cases op with
  | declare name level => exact ksm_addVar name level m h
  | var name => exact ksm_bddVar name m h
  | findOrAdd i v w => exact ksm_findOrAdd i v w m h
  | ite g u v => exact ksm_bddIte g u v m h
  | apply op u v w => exact ksm_apply op u v w m h
  | neg u => exact ksm_apply "not" u none none m h
  | cofactor u values => exact ksm_cofactor u values m h
  | quantify u qvars fa => exact ksm_quantify u qvars fa m h
  | compose f varSub => exact ksm_compose f varSub m h
  | rename u dvars => exact ksm_rename u dvars m h
  | let_ d u => exact ksm_letOp d u m h
  | incref u => exact ksm_incref u m h
  | decref u => exact ksm_decref u m h
  | collectGarbage => exact ksm_collectGarbage none m h

theorem run_keysOK (ops : List UOp) (s : St) (h : KeysOK s.m) : KeysOK (run ops s).m := by
  induction ops generalizing s with
  | nil => exact h
  | cons op ops ih => exact ih (step op s) (runOp_keysOK op s.m h)

/-- **`reachable_predNodes`**: in every state reached from the empty manager by a guarded history
of user operations the unique table has exactly the entries of the nodes — the hypothesis
`PredNodes` of `C12_json_load` / `C12_json_roundtrip` holds in every reachable state -/
theorem reachable_predNodes (ops : List UOp) (hg : OpsGuarded ops St.init) :
    PredNodes (run ops St.init).m :=
  (run_keysOK ops St.init (by intro k u hk; simp [St.init] at hk)).predNodes (reachable_inv ops hg).inv

/-- the same fact under the name used by `C12_manager_roundtrip` -/
theorem reachable_predShape (ops : List UOp) : PredShape (run ops St.init).m :=
  run_keysOK ops St.init (by intro k u hk; simp [St.init] at hk)

end DD
