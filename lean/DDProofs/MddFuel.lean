/-
  DDProofs.MddFuel — the fuel argument of the model's `ite` is never exhausted:
  `MDD.ite` (fuel `len(vars) + 2`) never reports `MODEL-OUT-OF-FUEL` on nodes of a manager
  that satisfies the invariant.
-/
import DDProofs.MddGcReach
open Std

namespace DD

theorem mAllocate_not_fuel (m : MddMgr) (e : Err) (m' : MddMgr)
    (h : mAllocate m = (.error e, m')) : e ≠ .fuel := by
  unfold mAllocate at h
  split at h
  · cases h
  · split at h
    · cases h
    · split at h
      · cases h
      · cases h; decide

theorem mIncrefAll_not_fuel : ∀ (l : List Int) (m : MddMgr) (e : Err) (m' : MddMgr),
    mIncrefAll l m = (.error e, m') → e ≠ .fuel := by
  intro l
  induction l with
  | nil => intro m e m' h; simp [mIncrefAll] at h
  | cons k rest ih =>
    intro m e m' h
    unfold mIncrefAll at h
    split at h
    · next m1 _ => exact ih m1 e m' h
    · next e1 m1 h1 =>
      cases h
      unfold mIncref at h1
      split at h1
      · cases h1; decide
      · cases h1

theorem mFindOrMake_not_fuel (i : Nat) (L : List Int) (m : MddMgr) (e : Err) (m' : MddMgr)
    (h : mFindOrMake i L m = (.error e, m')) : e ≠ .fuel := by
  unfold mFindOrMake at h
  simp only at h
  split at h
  · cases h
  · split at h
    · next e1 m1 ha =>
      cases h
      exact mAllocate_not_fuel m _ _ ha
    · split at h
      · cases h; decide
      · split at h
        · next e1 m3 hinc =>
          cases h
          exact mIncrefAll_not_fuel _ _ _ _ hinc
        · cases h

theorem mFindOrAddCore_not_fuel (i : Nat) (nodes : List Int) (m : MddMgr) (e : Err) (m' : MddMgr)
    (h : mFindOrAddCore i nodes m = (.error e, m')) : e ≠ .fuel := by
  unfold mFindOrAddCore at h
  split at h
  · cases h; decide
  · split at h
    · cases h; decide
    · split at h
      · cases h; decide
      · split at h
        · cases h; decide
        · split at h
          · cases h; decide
          · split at h
            · dsimp only at h
              split at h
              · cases h
              · split at h
                · next e1 m1 hmk =>
                  cases h
                  exact mFindOrMake_not_fuel i _ m _ _ hmk
                · cases h
            · split at h
              · cases h
              · split at h
                · next e1 m1 hmk =>
                  cases h
                  exact mFindOrMake_not_fuel i _ m _ _ hmk
                · cases h

theorem mTopCofactor_not_fuel (t : MTbl) (u : Int) (z : Nat) (e : Err)
    (h : mTopCofactor t u z = .error e) : e ≠ .fuel := by
  unfold mTopCofactor at h
  split at h
  · cases h; decide
  · split at h
    · cases h
    · split at h
      · cases h; decide
      · split at h
        · cases h
        · split at h
          · split at h
            · cases h; decide
            · split at h
              · cases h
              · split at h
                · cases h
                · cases h; decide
          · cases h; decide

/-- enough fuel for the levels that remain -/
def FuelOK (rec : Int → Int → Int → MM Int) (nv bound : Nat) : Prop :=
  ∀ m g u v, MInv m → m.tbl.nvars = nv → m.tbl.Mem g → m.tbl.Mem u → m.tbl.Mem v →
    bound ≤ min (m.tbl.levelOf g) (min (m.tbl.levelOf u) (m.tbl.levelOf v)) →
    ∀ e m', rec g u v m = (.error e, m') → e ≠ .fuel

theorem mIteList_not_fuel (rec : Int → Int → Int → MM Int) (hs : IteSound rec) (nv bound : Nat)
    (hf : FuelOK rec nv bound) :
    ∀ (gs us vs : List Int) (m : MddMgr), MInv m → m.tbl.nvars = nv →
      (∀ x ∈ gs, m.tbl.Mem x ∧ bound ≤ m.tbl.levelOf x) →
      (∀ x ∈ us, m.tbl.Mem x ∧ bound ≤ m.tbl.levelOf x) →
      (∀ x ∈ vs, m.tbl.Mem x ∧ bound ≤ m.tbl.levelOf x) →
      ∀ e m', mIteList rec gs us vs m = (.error e, m') → e ≠ .fuel := by
  intro gs
  induction gs with
  | nil => intro us vs m _ _ _ _ _ e m' hr; unfold mIteList at hr; cases hr
  | cons g0 gs ih =>
    intro us vs m h hnv hg hu hv e m' hr
    unfold mIteList at hr
    simp only at hr
    split at hr
    · next u0 us' v0 vs' =>
      have mg := hg g0 (by simp)
      have mu := hu u0 (by simp)
      have mv := hv v0 (by simp)
      split at hr
      · next e1 m1 hr1 =>
        cases hr
        exact hf m g0 u0 v0 h hnv mg.1 mu.1 mv.1 (by omega) _ _ hr1
      · next w m1 hr1 =>
        have R := hs m g0 u0 v0 h mg.1 mu.1 mv.1 w m1 hr1
        have tr : ∀ x, (m.tbl.Mem x ∧ bound ≤ m.tbl.levelOf x) →
            (m1.tbl.Mem x ∧ bound ≤ m1.tbl.levelOf x) := by
          intro x hx
          exact ⟨R.ext.mem hx.1, by rw [R.ext.levelOf hx.1]; exact hx.2⟩
        split at hr
        · next e2 m2 hrest =>
          cases hr
          exact ih us' vs' m1 R.inv (by rw [← R.ext.nvars]; exact hnv)
            (fun x hx => tr x (hg x (List.mem_cons_of_mem _ hx)))
            (fun x hx => tr x (hu x (List.mem_cons_of_mem _ hx)))
            (fun x hx => tr x (hv x (List.mem_cons_of_mem _ hx))) _ _ hrest
        · cases hr
    · cases hr

/-- `ite` with fuel `f` never runs out of fuel on operands whose top level `μ` satisfies
`len(vars) + 1 ≤ f + μ` -/
theorem mIteF_not_fuel : ∀ (f : Nat) (m : MddMgr) (g u v : Int), MInv m →
    m.tbl.Mem g → m.tbl.Mem u → m.tbl.Mem v →
    m.tbl.nvars + 1 ≤ f + min (m.tbl.levelOf g) (min (m.tbl.levelOf u) (m.tbl.levelOf v)) →
    ∀ e m', mIteF f g u v m = (.error e, m') → e ≠ .fuel := by
  intro f
  induction f with
  | zero =>
    intro m g u v h mg mu mv hb
    have := m.tbl.levelOf_le h.wf.toMWF g
    omega
  | succ f ih =>
    intro m g u v h mg mu mv hb e m' hr
    have hW := h.wf.toMWF
    unfold mIteF at hr
    split at hr
    · cases hr
    · split at hr
      · cases hr
      · next hg1 hg2 =>
        split at hr
        · cases hr
        · rw [MTbl.levelOf?_eq m.tbl h.term g mg, MTbl.levelOf?_eq m.tbl h.term u mu,
            MTbl.levelOf?_eq m.tbl h.term v mv] at hr
          simp only at hr
          have hgn : g.natAbs ≠ 1 := by omega
          obtain ⟨ng, hng⟩ : ∃ n, m.tbl.node? g.natAbs = some n := by
            rcases mg with h1 | h1
            · exact absurd h1 hgn
            · exact Option.isSome_iff_exists.mp h1
          have hlg := m.tbl.levelOf_node g ng hgn hng
          have hzn : min (m.tbl.levelOf g) (min (m.tbl.levelOf u) (m.tbl.levelOf v)) < m.tbl.nvars := by
            have := hW.lvl_lt _ _ hng
            omega
          generalize hz : min (m.tbl.levelOf g) (min (m.tbl.levelOf u) (m.tbl.levelOf v)) = z at hzn hb hr
          have hzg : z ≤ m.tbl.levelOf g := by omega
          have hzu : z ≤ m.tbl.levelOf u := by omega
          have hzv : z ≤ m.tbl.levelOf v := by omega
          split at hr
          · next e1 hgc => cases hr; exact mTopCofactor_not_fuel _ _ _ _ hgc
          · next gc hgc =>
            split at hr
            · next e1 huc => cases hr; exact mTopCofactor_not_fuel _ _ _ _ huc
            · next uc huc =>
              split at hr
              · next e1 hvc => cases hr; exact mTopCofactor_not_fuel _ _ _ _ hvc
              · next vc hvc =>
                obtain ⟨_, memg, _⟩ := mTopCofactor_spec m.tbl hW g z mg hzg hzn gc hgc
                obtain ⟨_, memu, _⟩ := mTopCofactor_spec m.tbl hW u z mu hzu hzn uc huc
                obtain ⟨_, memv, _⟩ := mTopCofactor_spec m.tbl hW v z mv hzv hzn vc hvc
                have hfuel : FuelOK (mIteF f) m.tbl.nvars (z + 1) := by
                  intro m2 g2 u2 v2 h2 hnv2 a b c hb2
                  apply ih m2 g2 u2 v2 h2 a b c
                  rw [hnv2]; omega
                split at hr
                · next e1 m1 hl =>
                  cases hr
                  exact mIteList_not_fuel (mIteF f) (mIteF_sound f) m.tbl.nvars (z + 1) hfuel
                    gc uc vc m h rfl
                    (fun x hx => ⟨(memg x hx).1, (memg x hx).2⟩)
                    (fun x hx => ⟨(memu x hx).1, (memu x hx).2⟩)
                    (fun x hx => ⟨(memv x hx).1, (memv x hx).2⟩) _ _ hl
                · next nodes m1 hl =>
                  split at hr
                  · next e2 m2 hfo =>
                    cases hr
                    exact mFindOrAddCore_not_fuel z nodes m1 _ _ hfo
                  · cases hr

/-- `MDD.ite` never reports `MODEL-OUT-OF-FUEL` -/
theorem mIte_not_fuel (m : MddMgr) (h : MInv m) (g u v : Int)
    (mg : m.tbl.Mem g) (mu : m.tbl.Mem u) (mv : m.tbl.Mem v) (e : Err) (m' : MddMgr)
    (hr : mIte g u v m = (.error e, m')) : e ≠ .fuel := by
  unfold mIte at hr
  exact mIteF_not_fuel (m.tbl.nvars + 2) m g u v h mg mu mv (by omega) e m' hr

/-! ### the worklist loop of `collect_garbage` -/

theorem mGcKids_tbl : ∀ (kids work : List Int) (m : MddMgr) (r : Except Err (List Int)) (m' : MddMgr),
    mGcKids kids work m = (r, m') → m'.tbl = m.tbl ∧ (∀ e, r = .error e → e ≠ .fuel) := by
  intro kids
  induction kids with
  | nil =>
    intro work m r m' h
    simp only [mGcKids, Prod.mk.injEq] at h
    obtain ⟨h1, h2⟩ := h
    subst h1 h2
    exact ⟨rfl, fun e he => by cases he⟩
  | cons k rest ih =>
    intro work m r m' h
    unfold mGcKids at h
    split at h
    · next e1 m1 hd =>
      have R := mDecref_refOnly k m _ m1 hd
      cases h
      refine ⟨R.tbl, ?_⟩
      intro e he
      cases he
      unfold mDecref at hd
      split at hd
      · cases hd; decide
      · split at hd <;> cases hd
    · next m1 hd =>
      have R := mDecref_refOnly k m _ m1 hd
      split at h
      · cases h
        exact ⟨R.tbl, fun e he => by cases he; decide⟩
      · obtain ⟨h1, h2⟩ := ih _ m1 r m' h
        exact ⟨h1.trans R.tbl, h2⟩

theorem mGcStep_size (u : Int) (work : List Int) (m : MddMgr) (r : Except Err (List Int)) (m' : MddMgr)
    (h : mGcStep u work m = (r, m')) :
    (∀ e, r = .error e → e ≠ .fuel) ∧ (∀ w, r = .ok w → m'.tbl.succ.size + 1 = m.tbl.succ.size) := by
  unfold mGcStep at h
  split at h
  · cases h; exact ⟨fun e he => by cases he; decide, fun w hw => by cases hw⟩
  · split at h
    · cases h; exact ⟨fun e he => by cases he; decide, fun w hw => by cases hw⟩
    · split at h
      · cases h; exact ⟨fun e he => by cases he; decide, fun w hw => by cases hw⟩
      · next t ht =>
        try dsimp only at h
        split at h
        · cases h; exact ⟨fun e he => by cases he; decide, fun w hw => by cases hw⟩
        · try dsimp only at h
          split at h
          · cases h; exact ⟨fun e he => by cases he; decide, fun w hw => by cases hw⟩
          · try dsimp only at h
            split at h
            · next e1 m4 hrel =>
              cases h
              refine ⟨?_, fun w hw => by cases hw⟩
              intro e he
              cases he
              unfold mRelease at hrel
              split at hrel
              · cases hrel; decide
              · split at hrel
                · cases hrel; decide
                · split at hrel
                  · cases hrel; decide
                  · split at hrel
                    · cases hrel; decide
                    · cases hrel
            · next m4 hrel =>
              have htbl4 : m4.tbl.succ = m.tbl.succ.erase u.toNat := by
                unfold mRelease at hrel
                split at hrel
                · cases hrel
                · split at hrel
                  · cases hrel
                  · split at hrel
                    · cases hrel
                    · split at hrel
                      · cases hrel
                      · cases hrel; rfl
              split at h
              · cases h; exact ⟨fun e he => by cases he; decide, fun w hw => by cases hw⟩
              · split at h
                · cases h; exact ⟨fun e he => by cases he; decide, fun w hw => by cases hw⟩
                · split at h
                  · cases h; exact ⟨fun e he => by cases he; decide, fun w hw => by cases hw⟩
                  · obtain ⟨k1, k2⟩ := mGcKids_tbl _ _ _ _ _ h
                    refine ⟨k2, ?_⟩
                    intro w _
                    rw [k1, htbl4, TreeMap.size_erase]
                    have hc : m.tbl.succ.contains u.toNat = true := by
                      rw [TreeMap.contains_eq_isSome_getElem?, ht]; rfl
                    have hne := TreeMap.isEmpty_eq_false_of_contains hc
                    rw [TreeMap.isEmpty_eq_size_eq_zero] at hne
                    simp only [hc, if_true]
                    have : m.tbl.succ.size ≠ 0 := by simpa using hne
                    omega

theorem mGcLoop_not_fuel : ∀ (f : Nat) (work : List Int) (m : MddMgr) (e : Err) (m' : MddMgr),
    m.tbl.succ.size + 1 ≤ f → mGcLoop f work m = (.error e, m') → e ≠ .fuel := by
  intro f
  induction f with
  | zero => intro work m e m' hf; omega
  | succ f ih =>
    intro work m e m' hf h
    cases work with
    | nil => simp [mGcLoop] at h
    | cons u rest =>
      simp only [mGcLoop] at h
      split at h
      · next e1 m1 hstep =>
        cases h
        exact (mGcStep_size u rest m _ _ hstep).1 _ rfl
      · next w m1 hstep =>
        have := (mGcStep_size u rest m _ _ hstep).2 w rfl
        exact ih w m1 e m' (by omega) h

/-- `collect_garbage` never reports `MODEL-OUT-OF-FUEL` -/
theorem mCollectGarbage_not_fuel (roots : Option (List Int)) (m : MddMgr) (e : Err) (m' : MddMgr)
    (h : mCollectGarbage roots m = (.error e, m')) : e ≠ .fuel := by
  unfold mCollectGarbage at h
  dsimp only at h
  split at h
  · next e1 m1 hun =>
    cases h
    -- `mUnusedOf` only raises KeyError
    have : ∀ (rs : List Int) (m : MddMgr) (e : Err) (m1 : MddMgr),
        mUnusedOf rs m = (.error e, m1) → e ≠ .fuel := by
      intro rs
      induction rs with
      | nil => intro m e m1 h; simp [mUnusedOf] at h
      | cons u rest ih =>
        intro m e m1 h
        unfold mUnusedOf at h
        split at h
        · cases h; decide
        · split at h
          · next e2 m2 hrest => cases h; exact ih m _ _ hrest
          · split at h <;> cases h
    exact this _ m _ _ hun
  · next unused m1 hun =>
    obtain ⟨hm1, _⟩ := mUnusedOf_spec _ m unused m1 hun
    split at h
    · next e2 m2 hloop =>
      cases h
      exact mGcLoop_not_fuel _ _ m1 _ _ (by omega) hloop
    · cases h

end DD
