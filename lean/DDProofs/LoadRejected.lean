/-
  DDProofs.LoadRejected — `BDD.load` / `load_json` on ANY content (C17).

  A readable file whose content is ill-formed makes the loader fail half-way.  What is true for
  every outcome: the invariant holds, every node that was in the manager is still there and
  denotes the same function, declared variables keep their level, the switches are what they
  were.  Variables of the file may have been declared (`loadVars` / `declare` run first) and
  nodes may have been added: "nothing changed" is false.
-/
import DDProofs.DumpJson
import DDProofs.Total
import DDProofs.ReachTotal
import DDProofs.DynRef
import DDProofs.LoadVarsOrder
open Std
namespace DD

/-- what a load leaves behind, whether it returned or raised: as `Kept`, but variables may have
been declared -/
structure KeptV (m m' : Mgr) : Prop where
  inv : Inv m'
  nodes : ∀ u n, m.tbl.node? u = some n → m'.tbl.node? u = some n
  den : ∀ u, m.tbl.Mem u → ∀ a, den m'.tbl u a = den m.tbl u a
  vars : ∀ (v : String) (i : Nat), m.tbl.vars[v]? = some i → m'.tbl.vars[v]? = some i
  lastLen : m'.lastLen = m.lastLen
  ctx : m'.ctx = m.ctx
  sched : m'.sched = m.sched
  roots : m'.roots = m.roots

theorem KeptV.refl {m : Mgr} (h : Inv m) : KeptV m m :=
  ⟨h, fun _ _ h => h, fun _ _ _ => rfl, fun _ _ h => h, rfl, rfl, rfl, rfl⟩

theorem KeptV.mem {m m' : Mgr} (h : KeptV m m') {u : Int} (hu : m.tbl.Mem u) : m'.tbl.Mem u := by
  rcases hu with h1 | h1
  · exact Or.inl h1
  · obtain ⟨n, hn⟩ := Option.isSome_iff_exists.mp h1
    exact Or.inr (by rw [h.nodes _ n hn]; rfl)

theorem KeptV.trans {a b c : Mgr} (h1 : KeptV a b) (h2 : KeptV b c) : KeptV a c :=
  ⟨h2.inv, fun u n h => h2.nodes u n (h1.nodes u n h),
    fun u hu x => (h2.den u (h1.mem hu) x).trans (h1.den u hu x),
    fun v i h => h2.vars v i (h1.vars v i h), h2.lastLen.trans h1.lastLen, h2.ctx.trans h1.ctx,
    h2.sched.trans h1.sched, h2.roots.trans h1.roots⟩

theorem Kept.toV {m m' : Mgr} (h : Kept m m') (hI : Inv m) : KeptV m m' :=
  ⟨h.inv, h.ext.nodes, fun u hu => (h.den hI u hu).2, fun v i hv => by rw [h.frame.vars]; exact hv,
    h.frame.lastLen, h.frame.ctx, h.frame.sched, h.frame.roots⟩

/-- `add_var(var, level)`, any arguments, any outcome (a free level beyond the next one — the
transient gap of `levels=True`, F7 — included) -/
theorem addVar_keptV (m : Mgr) (hI : Inv m) (var : String) (lvl : Option Int) :
    KeptV m (addVar var lvl m).2 := by
  cases h : addVar var lvl m with
  | mk r m' =>
    cases r with
    | error e =>
      have : m' = m := by
        unfold addVar at h
        simp only [bind, M.bind', M.get, pure] at h
        cases hv : m.tbl.vars[var]? with
        | some vl =>
          simp only [hv] at h
          cases lvl with
          | none => simp [M.pure'] at h
          | some l =>
            by_cases hl : l = (vl : Int)
            · simp [M.pure', hl] at h
            · simp [M.throw, hl] at h
              exact h.2.symm
        | none =>
          simp only [hv] at h
          by_cases hneg : lvl.getD (m.nvars : Int) < 0
          · simp [hneg, M.bind', M.throw] at h
            exact h.2.symm
          · simp only [hneg, if_false] at h
            cases hl : m.tbl.l2v[(lvl.getD (m.nvars : Int)).toNat]? with
            | some x =>
              simp [hl, M.throw] at h
              exact h.2.symm
            | none => simp [hl, M.bind', M.set, M.pure'] at h
      subst this
      exact KeptV.refl hI
    | ok j =>
      have hI' := addVar_inv hI h
      rcases dmp_addVar_cases h with ⟨_, h2, _⟩ | ⟨h1, _, _, h4⟩
      · subst h2; exact KeptV.refl hI
      · subst h4
        have hW := hI.wf.toWF
        have hn : (m.tbl.vars.insert var j).size = m.tbl.vars.size + 1 := by
          rw [TreeMap.size_insert]
          have : ¬ var ∈ m.tbl.vars := by
            intro hc
            rw [TreeMap.mem_iff_isSome_getElem?, h1] at hc
            cases hc
          simp [this]
        refine ⟨hI', fun _ _ h => h, ?_, ?_, rfl, rfl, rfl, rfl⟩
        · intro u hu a
          unfold den
          show denF _ ((m.tbl.vars.insert var j).size + 1) u a = denF m.tbl (m.tbl.vars.size + 1) u a
          rw [hn]
          exact (denF_succ_eq (t := m.tbl) (t' := { m.tbl with vars := m.tbl.vars.insert var j, l2v := m.tbl.l2v.insert j var }) rfl _ u a).trans
            (denF_stable m.tbl hW (m.tbl.nvars + 1) u a hu (by omega)).symm
        · intro v i hv
          show (m.tbl.vars.insert var j)[v]? = some i
          rw [TreeMap.getElem?_insert]
          by_cases hvv : var = v
          · subst hvv; rw [h1] at hv; cases hv
          · simp [hvv, hv]

/-! ### the pickle loader: any content -/

theorem findOrAdd_noCtx (m : Mgr) (hc : m.ctx = false) (i : Int) (v w : Int) :
    findOrAdd i v w m = if i < 0 then (.error .value, m) else findOrAddCore i.toNat v w m := by
  unfold findOrAdd
  simp only [hc, Bool.false_eq_true, if_false]

theorem varNode_kept_noCtx (m : Mgr) (hI : Inv m) (hc : m.ctx = false) (j : Nat) :
    Kept m (findOrAdd (j : Int) (-1) 1 m).2 := by
  rw [findOrAdd_noCtx m hc]
  split
  · exact Kept.refl hI
  · rw [Int.toNat_natCast]
    exact findOrAddCore_total m hI j (-1) 1 (foaGuard_var m j)

theorem iteRaw_kept (m : Mgr) (hI : Inv m) (g u v : Int) : Kept m (iteRaw g u v m).2 := by
  rw [dmp_iteRaw_eq]; exact iteF_total m hI g u v

/-- `Kept`, and the counts stay exact for whatever ledger they were exact for -/
structure KeptR (m m' : Mgr) : Prop where
  kept : Kept m m'
  refs : ∀ ext : Nat → Nat, RefExact m ext → RefExact m' ext

theorem KeptR.refl {m : Mgr} (h : Inv m) : KeptR m m := ⟨Kept.refl h, fun _ h => h⟩
theorem KeptR.trans {a b c : Mgr} (h1 : KeptR a b) (h2 : KeptR b c) : KeptR a c :=
  ⟨h1.kept.trans h2.kept, fun ext h => h2.refs ext (h1.refs ext h)⟩
theorem KeptR.inv {m m' : Mgr} (h : KeptR m m') : Inv m' := h.kept.inv
theorem KeptR.frame {m m' : Mgr} (h : KeptR m m') : Frame m m' := h.kept.frame

theorem varNode_keptR_noCtx (m : Mgr) (hI : Inv m) (hc : m.ctx = false) (j : Nat) :
    KeptR m (findOrAdd (j : Int) (-1) 1 m).2 :=
  ⟨varNode_kept_noCtx m hI hc j, fun ext hr => findOrAdd_refExact m ext j (-1) 1 hI.wf.toWF hr⟩

/-- `_ite` with an operand that is not a node changes nothing -/
theorem iteF_notMem_same (m : Mgr) (hI : Inv m) (g u v : Int)
    (hall : ¬ (m.tbl.Mem g ∧ m.tbl.Mem u ∧ m.tbl.Mem v)) : (iteF (m.nvars + 2) g u v m).2 = m := by
  show (iteF (m.nvars + 1 + 1) g u v m).2 = m
  unfold iteF
  by_cases hg1 : g = 1
  · simp [hg1]
  · simp only [hg1, if_false]
    by_cases hgm : g = -1
    · simp [hgm]
    · simp only [hgm, if_false]
      cases hc : m.cache[iteKey g u v]? with
      | some w =>
        exfalso
        have he := hI.cache g u v w hc
        exact hall ⟨he.mg, he.mu, he.mv⟩
      | none =>
        simp only
        by_cases hg : m.tbl.Mem g
        · by_cases hu : m.tbl.Mem u
          · have hv : ¬ m.tbl.Mem v := fun hv => hall ⟨hg, hu, hv⟩
            rw [levelOf?_none_of_not_mem _ _ hv]
            split <;> simp_all
          · rw [levelOf?_none_of_not_mem _ _ hu]
            split <;> simp_all
        · rw [levelOf?_none_of_not_mem _ _ hg]

theorem iteRaw_keptR (m : Mgr) (hI : Inv m) (g u v : Int) : KeptR m (iteRaw g u v m).2 := by
  refine ⟨iteRaw_kept m hI g u v, fun ext hr => ?_⟩
  rw [dmp_iteRaw_eq]
  by_cases hall : m.tbl.Mem g ∧ m.tbl.Mem u ∧ m.tbl.Mem v
  · exact iteF_refExact (m.nvars + 2) m ext g u v hI hr hall.1 hall.2.1 hall.2.2 (by omega)
  · rw [iteF_notMem_same m hI g u v hall]; exact hr

/-- `_load(u, succ, umap, level_map)` on ANY table of the file, any fuel -/
theorem loadNodeF_keptR (succ : List PEntry) (lm : List (Nat × Nat)) :
    ∀ (fuel : Nat) (u : Int) (umap : TreeMap Int Int) (m : Mgr), Inv m → m.ctx = false →
      KeptR m (loadNodeF succ lm fuel u umap m).2 := by
  intro fuel
  induction fuel with
  | zero => intro u umap m hI _; exact KeptR.refl hI
  | succ f ih =>
    intro u umap m hI hc
    simp only [loadNodeF]
    split
    · exact KeptR.refl hI
    split
    · split
      · exact KeptR.refl hI
      · split <;> exact KeptR.refl hI
    split
    · exact KeptR.refl hI
    split
    · exact KeptR.refl hI
    split
    · -- both children
      rename_i _ _ _ j _ _ _ v w _ _
      have k1 := ih v umap m hI hc
      cases h1 : loadNodeF succ lm f v umap m with
      | mk r1 m1 =>
        rw [h1] at k1
        cases r1 with
        | error e => exact k1
        | ok pr =>
          obtain ⟨p, umap1⟩ := pr
          dsimp only
          have c1 : m1.ctx = false := by rw [k1.frame.ctx]; exact hc
          have k2 := ih w umap1 m1 k1.inv c1
          cases h2 : loadNodeF succ lm f w umap1 m1 with
          | mk r2 m2 =>
            rw [h2] at k2
            cases r2 with
            | error e => exact k1.trans k2
            | ok qr =>
              obtain ⟨q, umap2⟩ := qr
              dsimp only
              have c2 : m2.ctx = false := by rw [k2.frame.ctx]; exact c1
              have k3 := varNode_keptR_noCtx m2 k2.inv c2 j
              cases h3 : findOrAdd (j : Int) (-1) 1 m2 with
              | mk r3 m3 =>
                rw [h3] at k3
                cases r3 with
                | error e => exact (k1.trans k2).trans k3
                | ok g =>
                  dsimp only
                  have k4 := iteRaw_keptR m3 k3.inv g q p
                  cases h4 : iteRaw g q p m3 with
                  | mk r4 m4 =>
                    rw [h4] at k4
                    have K := ((k1.trans k2).trans k3).trans k4
                    cases r4 with
                    | error e => exact K
                    | ok r =>
                      dsimp only
                      split <;> exact K
    · exact KeptR.refl hI
    · rename_i v _ _
      have k1 := ih v umap m hI hc
      cases h1 : loadNodeF succ lm f v umap m with
      | mk r1 m1 =>
        rw [h1] at k1
        cases r1 <;> exact k1

theorem loadAll_keptR (succ : List PEntry) (lm : List (Nat × Nat)) (fuel : Nat) :
    ∀ (es : List PEntry) (umap : TreeMap Int Int) (m : Mgr), Inv m → m.ctx = false →
      KeptR m (loadAll succ lm fuel es umap m).2 := by
  intro es
  induction es with
  | nil => intro umap m hI _; exact KeptR.refl hI
  | cons e rest ih =>
    intro umap m hI hc
    simp only [loadAll]
    split
    · exact ih umap m hI hc
    · have k1 := loadNodeF_keptR succ lm fuel (e.id : Int) umap m hI hc
      cases h1 : loadNodeF succ lm fuel (e.id : Int) umap m with
      | mk r1 m1 =>
        rw [h1] at k1
        cases r1 with
        | error er => exact k1
        | ok pr =>
          dsimp only
          exact k1.trans (ih pr.2 m1 k1.inv (by rw [k1.frame.ctx]; exact hc))

theorem addVar_refs_any (m : Mgr) (var : String) (lvl : Option Int) (ext : Nat → Nat)
    (hr : RefExact m ext) : RefExact (addVar var lvl m).2 ext := by
  cases h : addVar var lvl m with
  | mk r m' =>
    cases r with
    | error e => rw [addVar_err_same m m' var lvl e h]; exact hr
    | ok j =>
      rcases dmp_addVar_cases h with ⟨_, h2, _⟩ | ⟨_, _, _, h4⟩
      · subst h2; exact hr
      · subst h4; exact hr.congr_nodes (fun _ => rfl) rfl

/-- the first loop of `_load_pickle`, any pairs, any `levels`, any outcome -/
theorem loadVars_keptV (levels : Bool) (n : Nat) :
    ∀ (vs : List (String × Nat)) (lm : List (Nat × Nat)) (m : Mgr), Inv m →
      KeptV m (loadVars levels n vs lm m).2 ∧
      ∀ ext, RefExact m ext → RefExact (loadVars levels n vs lm m).2 ext := by
  intro vs
  induction vs with
  | nil => intro lm m hI; exact ⟨KeptV.refl hI, fun _ h => h⟩
  | cons x rest ih =>
    intro lm m hI
    obtain ⟨var, i⟩ := x
    simp only [loadVars]
    split
    · exact ⟨KeptV.refl hI, fun _ h => h⟩
    · have k1 := addVar_keptV m hI var (if levels = true then some (i : Int) else none)
      have r1 := addVar_refs_any m var (if levels = true then some (i : Int) else none)
      cases h1 : addVar var (if levels = true then some (i : Int) else none) m with
      | mk r1' m1 =>
        rw [h1] at k1 r1
        cases r1' with
        | error e => exact ⟨k1, r1⟩
        | ok j =>
          obtain ⟨k2, r2⟩ := ih ((i, j) :: lm) m1 k1.inv
          exact ⟨k1.trans k2, fun ext h => r2 ext (r1 ext h)⟩

/-- what `BDD.load` leaves behind, for ANY content and EVERY outcome: `KeptV`; the counts exact
for the ledger they were exact for (the loader holds nothing when it returns or raises); the
order still a bijection onto `0..n-1`.  (`levels=True`: by the two pre-checks of `_load_pickle`
— the file's levels are a permutation of `0..n-1`, every pair agrees with the manager — the
load is refused before anything is declared, or every variable gets declared.  The hypothesis
"distinct names" says that `vars` is a dict: the model keeps its items as a list.) -/
structure LoadLeaves (f : PickleFile) (levels : Bool) (m m' : Mgr) : Prop where
  kept : KeptV m m'
  counts : ∀ ext : Nat → Nat, RefExact m ext → RefExact m' ext
  order : OrderOK m.tbl → (levels = true → (f.vars.map (·.1)).Nodup) → OrderOK m'.tbl

theorem LoadLeaves.same (f : PickleFile) (levels : Bool) {m : Mgr} (hI : Inv m) : LoadLeaves f levels m m :=
  ⟨KeptV.refl hI, fun _ h => h, fun h _ => h⟩

/-- `BDD.load(file, levels)` on ANY content of a pickle file, any outcome -/
theorem loadPickle_leaves (f : PickleFile) (levels : Bool) (m : Mgr) (hI : Inv m) (hc : m.ctx = false) :
    LoadLeaves f levels m (loadPickle f levels m).2 := by
  rw [loadPickle_eq]
  split
  · exact LoadLeaves.same f levels hI
  rename_i hperm
  split
  · exact LoadLeaves.same f levels hI
  rename_i hcomp
  unfold loadPickleBody
  obtain ⟨k1, r1⟩ := loadVars_keptV levels f.vars.length f.vars [] m hI
  -- the order tables after the declaration loop
  have o1 : OrderOK m.tbl → (levels = true → (f.vars.map (·.1)).Nodup) →
      OrderOK (loadVars levels f.vars.length f.vars [] m).2.tbl := by
    intro hO hW
    cases levels with
    | false => exact loadVars_false_orderOK _ _ _ m hI hO
    | true =>
      have hcp : levelsCompatible m.tbl f.vars = true := by
        simpa using hcomp
      have hpp : levelsPermutation f.vars = true := by simpa using hperm
      obtain ⟨lm, m1, e1, O1, _⟩ := loadVars_true_total f.vars (VarsWF.of_perm (hW rfl) hpp) m hO hcp
      rw [e1]; exact O1
  cases h1 : loadVars levels f.vars.length f.vars [] m with
  | mk r m1 =>
    rw [h1] at k1 r1 o1
    cases r with
    | error e => exact ⟨k1, r1, o1⟩
    | ok lm =>
      dsimp only
      have c1 : m1.ctx = false := by rw [k1.ctx]; exact hc
      have k2 := loadAll_keptR f.succ lm (f.vars.length + f.succ.length + 2) f.succ {} m1 k1.inv c1
      have fin : ∀ m2, KeptR m1 m2 → LoadLeaves f levels m m2 := fun m2 k2 =>
        ⟨k1.trans (k2.kept.toV k1.inv), fun ext h => k2.refs ext (r1 ext h),
          fun hO hW => (o1 hO hW).congr k2.frame.vars k2.frame.l2v⟩
      cases h2 : loadAll f.succ lm (f.vars.length + f.succ.length + 2) f.succ {} m1 with
      | mk r2 m2 =>
        rw [h2] at k2
        cases r2 with
        | error e => exact fin m2 k2
        | ok umap => exact fin m2 k2

theorem loadPickle_keptV (f : PickleFile) (levels : Bool) (m : Mgr) (hI : Inv m) (hc : m.ctx = false) :
    KeptV m (loadPickle f levels m).2 := (loadPickle_leaves f levels m hI hc).kept

/-- `wrapList` (the `Function`s of the result) on anything -/
theorem wrapList_kept : ∀ (us : List Int) (m : Mgr), Inv m → Kept m (wrapList us m).2 := by
  intro us
  induction us with
  | nil => intro m hI; exact Kept.refl hI
  | cons u rest ih =>
    intro m hI
    simp only [wrapList]
    have k1 : Kept m (dmpWrap u m).2 := by
      unfold dmpWrap
      split
      · exact Kept.refl hI
      · exact incref_kept m hI u
    cases h1 : dmpWrap u m with
    | mk r m1 =>
      rw [h1] at k1
      cases r with
      | error e => exact k1
      | ok _ => exact k1.trans (ih m1 k1.inv)

/-- a successful `wrapList` wrapped nodes -/
theorem wrapList_ok_mem : ∀ (us : List Int) (m m' : Mgr), wrapList us m = (.ok (), m') →
    ∀ u ∈ us, m.tbl.Mem u := by
  intro us
  induction us with
  | nil => intro m m' _ u hu; cases hu
  | cons x rest ih =>
    intro m m' h u hu
    simp only [wrapList] at h
    have hx : m.mem x = true := by
      cases hmx : m.mem x with
      | true => rfl
      | false => simp [dmpWrap, hmx] at h
    cases h1 : dmpWrap x m with
    | mk r m1 =>
      rw [h1] at h
      cases r with
      | error e => simp at h
      | ok _ =>
        dsimp only at h
        have ht : m1.tbl = m.tbl := by
          simp only [dmpWrap, hx, Bool.not_true, Bool.false_eq_true, if_false] at h1
          unfold incref at h1
          split at h1
          · cases h1
          · simp only [Prod.mk.injEq] at h1; rw [← h1.2]
        rcases List.mem_cons.mp hu with rfl | hu'
        · exact (Mgr.mem_iff m u).mp hx
        · rw [← ht]; exact ih m1 m' h u hu'

/-- `dd.autoref.BDD.load(file, levels)` on ANY content of a pickle file, any outcome: as
`loadPickle_leaves`, and the counts are exact for the caller's ledger plus ONE reference per
returned `Function` — for the caller's ledger itself when the call raised -/
theorem loadPickleAutoref_leaves (f : PickleFile) (levels : Bool) (m : Mgr) (hI : Inv m)
    (hc : m.ctx = false) :
    KeptV m (loadPickleAutoref f levels m).2 ∧
    (OrderOK m.tbl → (levels = true → (f.vars.map (·.1)).Nodup) → OrderOK (loadPickleAutoref f levels m).2.tbl) ∧
    ∀ ext, RefExact m ext →
      match (loadPickleAutoref f levels m).1 with
      | .ok roots => RefExact (loadPickleAutoref f levels m).2 (extAdd ext (roots.values.map Int.natAbs))
      | .error _ => RefExact (loadPickleAutoref f levels m).2 ext := by
  unfold loadPickleAutoref
  have L := loadPickle_leaves f levels m hI hc
  cases h1 : loadPickle f levels m with
  | mk r m1 =>
    rw [h1] at L
    cases r with
    | error e => exact ⟨L.kept, L.order, fun ext h => L.counts ext h⟩
    | ok roots =>
      dsimp only
      have k2 := wrapList_kept roots.values m1 L.kept.inv
      cases h2 : wrapList roots.values m1 with
      | mk r2 m2 =>
        rw [h2] at k2
        cases r2 with
        | error e => exact ⟨L.kept, L.order, fun ext h => L.counts ext h⟩
        | ok _ =>
          refine ⟨L.kept.trans (k2.toV L.kept.inv),
            fun hO hW => (L.order hO hW).congr k2.frame.vars k2.frame.l2v, fun ext h => ?_⟩
          obtain ⟨r, e2, _, R2⟩ := wrapList_spec roots.values m1 ext L.kept.inv (L.counts ext h)
            (wrapList_ok_mem _ _ _ h2)
          rw [h2] at e2
          simp only [Prod.mk.injEq, true_and] at e2
          rw [e2]; exact R2

theorem loadPickleAutoref_keptV (f : PickleFile) (levels : Bool) (m : Mgr) (hI : Inv m)
    (hc : m.ctx = false) : KeptV m (loadPickleAutoref f levels m).2 :=
  (loadPickleAutoref_leaves f levels m hI hc).1

/-! ### the JSON loader, reordering not enabled: the operations it calls, any arguments -/

/-- the operation keeps the manager whatever it is given and whatever it returns, dynamic
reordering not enabled -/
def TotK {α : Type} (x : M α) : Prop := ∀ m, Inv m → m.lastLen = none → Kept m (x m).2

theorem TotK.pure {α : Type} (a : α) : TotK (pure a : M α) := fun _ hI _ => Kept.refl hI
theorem TotK.throw {α : Type} (e : Err) : TotK (M.throw e : M α) := fun _ hI _ => Kept.refl hI

theorem TotK.bind {α β : Type} {x : M α} {f : α → M β} (hx : TotK x) (hf : ∀ a, TotK (f a)) :
    TotK (x >>= f) := by
  intro m hI hoff
  have k1 := hx m hI hoff
  show Kept m (M.bind' x f m).2
  unfold M.bind'
  cases h1 : x m with
  | mk r m1 =>
    rw [h1] at k1
    cases r with
    | error e => exact k1
    | ok a => exact k1.trans (hf a m1 k1.inv (by rw [k1.frame.lastLen]; exact hoff))

theorem TotK.assert (b : Bool) : TotK (M.assert b) := by
  unfold M.assert; split
  · exact TotK.pure ()
  · exact TotK.throw _

theorem TotK.ofOption {α : Type} (e : Err) (o : Option α) : TotK (M.ofOption e o) := by
  cases o with
  | none => exact TotK.throw _
  | some a => exact TotK.pure a

theorem TotK.ite' {α : Type} {c : Prop} [Decidable c] {x y : M α} (hx : TotK x) (hy : TotK y) :
    TotK (if c then x else y) := by
  split
  · exact hx
  · exact hy

theorem dropList_kept : ∀ (us : List Int) (m : Mgr), Inv m → Kept m (dropList us m) := by
  intro us
  induction us with
  | nil => intro m hI; exact Kept.refl hI
  | cons u rest ih =>
    intro m hI
    have k1 : Kept m (dmpDrop u m).2 := decref_kept m hI u
    exact k1.trans (ih _ k1.inv)

theorem TotK.withTemps {α : Type} (us : List Int) {x : M α} (hx : TotK x) : TotK (withTemps us x) := by
  intro m hI hoff
  have k1 := hx m hI hoff
  unfold DD.withTemps
  exact k1.trans (dropList_kept us _ k1.inv)

theorem TotK.incref (u : Int) : TotK (incref u) := fun m hI _ => incref_kept m hI u
theorem TotK.decref (u : Int) : TotK (decref u) := fun m hI _ => decref_kept m hI u

theorem TotK.wrap (u : Int) : TotK (dmpWrap u) := by
  intro m hI _
  unfold dmpWrap
  split
  · exact Kept.refl hI
  · exact incref_kept m hI u

theorem TotK.containsCheck (u : Int) : TotK (containsCheck u) := by
  unfold DD.containsCheck
  exact TotK.bind (fun _ hI _ => Kept.refl hI) fun _ => TotK.ite' (TotK.throw _) (TotK.pure _)

theorem TotK.bddIte (g u v : Int) : TotK (ite g u v) := fun m hI hoff => ite_total m hI hoff g u v

/-- `BDD.var(name)` for ANY name, reordering not enabled: no hypothesis on the counts -/
theorem TotK.bddVar (name : String) : TotK (var name) := by
  intro m hI hoff
  have h : Kept { m with ctx := true } (varBody name { m with ctx := true }).2 :=
    varBody_kept _ (hI.setCtx true) hoff name
  generalize hres : varBody name { m with ctx := true } = res at h
  obtain ⟨r, m1⟩ := res
  have hk : Kept m { m1 with ctx := m.ctx } := by
    have h' : Kept { m with ctx := true } m1 := h
    exact ⟨h'.inv.setCtx _, h'.ext,
      ⟨h'.frame.vars, h'.frame.l2v, h'.frame.lastLen, rfl, h'.frame.sched, h'.frame.roots⟩⟩
  cases r with
  | ok r =>
    rw [var_eq, tryToReorder_ok _ m r m1 hres]; exact hk
  | error e =>
    have hne : e ≠ .needsReordering := by
      intro he
      subst he
      rw [varBody_eq] at hres
      cases hv : m.tbl.vars[name]? with
      | none =>
        rw [show ({ m with ctx := true } : Mgr).tbl = m.tbl from rfl, hv] at hres
        cases hres
      | some j =>
        rw [show ({ m with ctx := true } : Mgr).tbl = m.tbl from rfl, hv] at hres
        simp only at hres
        have e := findOrAdd_off_eq { m with ctx := true } hoff (j : Int) (-1) 1
        have hj : ¬ ((j : Int) < 0) := by omega
        simp only [hj, if_false] at e
        have := findOrAddCore_noNR { m with ctx := true } (j : Int).toNat (-1) 1
        rw [← e, hres] at this
        exact this rfl
    rw [var_eq, tryToReorder_err _ m e m1 hres hne]; exact hk

theorem applyNot_hnq : ∀ row, findRow "not" Gen.applyTable = some row →
    ∀ fa f b, row.templ ≠ .quant fa f b := by
  intro row hr fa f b h
  have h1 : (findRow "not" Gen.applyTable).map (fun r => match r.templ with | .quant _ _ _ => true | _ => false)
      = some false := by decide
  rw [hr] at h1
  simp [h] at h1

theorem TotK.applyNot (u : Int) : TotK (apply "not" u none none) :=
  fun m hI hoff => apply_total m hI hoff "not" u none none applyNot_hnq

/-- the shelf gets one more entry, held once more -/
def PostT (cache : List (Nat × Int)) (id : Nat) (T : List Nat) (c' : List (Nat × Int)) (l' : List Nat) : Prop :=
  ∃ u : Int, c' = cache ++ [(id, u)] ∧ l' = u.natAbs :: T

theorem declare_keptV (names : List String) : ∀ m : Mgr, Inv m → KeptV m (declare names m).2 := by
  induction names with
  | nil => intro m hI; rw [declare_nil]; exact KeptV.refl hI
  | cons v vs ih =>
    intro m hI
    rw [declare_cons]
    have k1 := addVar_keptV m hI v none
    cases h1 : addVar v none m with
    | mk r m1 =>
      rw [h1] at k1
      cases r with
      | error e => exact k1
      | ok j => exact k1.trans (ih m1 k1.inv)

theorem dmpAssertConsistent_state (m : Mgr) : (dmpAssertConsistent m).2 = m := by
  unfold dmpAssertConsistent
  dsimp only
  split
  · rfl
  split
  · rfl
  split
  · rfl
  split <;> rfl

/-- what `load_json` leaves behind: `KeptV`, and a between-calls state with the counts exact for
the caller's ledger plus ONE reference per returned `Function` — for the caller's ledger itself
when the call raised (the `except` clause gave the shelf's references back) -/
def JsonLeaves (e : Nat → Nat) (m : Mgr) (out : Except Err Roots × Mgr) : Prop :=
  KeptV m out.2 ∧
  match out.1 with
  | .ok roots => GoodState out.2 (extAdd e (roots.values.map Int.natAbs))
  | .error _ => GoodState out.2 e

/-! The ledger calculus over every raising path of `_load_json` (`Safe`) and the theorem
`loadJson_false_any` are in DDProofs.LoadJson2Calc / DDProofs.LoadJson2Off: the calculus is
generic there (`SafeC`), so that it also serves a manager with dynamic reordering enabled. -/

end DD
