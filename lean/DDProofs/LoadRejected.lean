/-
  DDProofs.LoadRejected — `BDD.load` / `load_json` on ANY content (C17).

  A readable file whose content is ill-formed makes the loader fail half-way.  What is true for
  every outcome: the invariant holds, every node that was in the manager is still there and
  denotes the same function, declared variables keep their level, the switches are what they
  were.  Variables of the file may have been declared (`loadVars` / `declare` run first) and
  nodes may have been added: "nothing changed" is false.
-/
import DDProofs.DumpJson
import DDProofs.Total
import DDProofs.ReachTotal
import DDProofs.DynRef
import DDProofs.LoadVarsOrder
open Std
namespace DD

/-- what a load leaves behind, whether it returned or raised: as `Kept`, but variables may have
been declared -/
structure KeptV (m m' : Mgr) : Prop where
  inv : Inv m'
  nodes : ∀ u n, m.tbl.node? u = some n → m'.tbl.node? u = some n
  den : ∀ u, m.tbl.Mem u → ∀ a, den m'.tbl u a = den m.tbl u a
  vars : ∀ (v : String) (i : Nat), m.tbl.vars[v]? = some i → m'.tbl.vars[v]? = some i
  lastLen : m'.lastLen = m.lastLen
  ctx : m'.ctx = m.ctx
  sched : m'.sched = m.sched
  roots : m'.roots = m.roots

theorem KeptV.refl {m : Mgr} (h : Inv m) : KeptV m m :=
  ⟨h, fun _ _ h => h, fun _ _ _ => rfl, fun _ _ h => h, rfl, rfl, rfl, rfl⟩

theorem KeptV.mem {m m' : Mgr} (h : KeptV m m') {u : Int} (hu : m.tbl.Mem u) : m'.tbl.Mem u := by
  rcases hu with h1 | h1
  · exact Or.inl h1
  · obtain ⟨n, hn⟩ := Option.isSome_iff_exists.mp h1
    exact Or.inr (by rw [h.nodes _ n hn]; rfl)

theorem KeptV.trans {a b c : Mgr} (h1 : KeptV a b) (h2 : KeptV b c) : KeptV a c :=
  ⟨h2.inv, fun u n h => h2.nodes u n (h1.nodes u n h),
    fun u hu x => (h2.den u (h1.mem hu) x).trans (h1.den u hu x),
    fun v i h => h2.vars v i (h1.vars v i h), h2.lastLen.trans h1.lastLen, h2.ctx.trans h1.ctx,
    h2.sched.trans h1.sched, h2.roots.trans h1.roots⟩

theorem Kept.toV {m m' : Mgr} (h : Kept m m') (hI : Inv m) : KeptV m m' :=
  ⟨h.inv, h.ext.nodes, fun u hu => (h.den hI u hu).2, fun v i hv => by rw [h.frame.vars]; exact hv,
    h.frame.lastLen, h.frame.ctx, h.frame.sched, h.frame.roots⟩

/-- `add_var(var, level)`, any arguments, any outcome (a free level beyond the next one — the
transient gap of `levels=True`, F7 — included) -/
theorem addVar_keptV (m : Mgr) (hI : Inv m) (var : String) (lvl : Option Int) :
    KeptV m (addVar var lvl m).2 := by
  cases h : addVar var lvl m with
  | mk r m' =>
    cases r with
    | error e =>
      have : m' = m := by
        unfold addVar at h
        simp only [bind, M.bind', M.get, pure] at h
        cases hv : m.tbl.vars[var]? with
        | some vl =>
          simp only [hv] at h
          cases lvl with
          | none => simp [M.pure'] at h
          | some l =>
            by_cases hl : l = (vl : Int)
            · simp [M.pure', hl] at h
            · simp [M.throw, hl] at h
              exact h.2.symm
        | none =>
          simp only [hv] at h
          by_cases hneg : lvl.getD (m.nvars : Int) < 0
          · simp [hneg, M.bind', M.throw] at h
            exact h.2.symm
          · simp only [hneg, if_false] at h
            cases hl : m.tbl.l2v[(lvl.getD (m.nvars : Int)).toNat]? with
            | some x =>
              simp [hl, M.throw] at h
              exact h.2.symm
            | none => simp [hl, M.bind', M.set, M.pure'] at h
      subst this
      exact KeptV.refl hI
    | ok j =>
      have hI' := addVar_inv hI h
      rcases dmp_addVar_cases h with ⟨_, h2, _⟩ | ⟨h1, _, _, h4⟩
      · subst h2; exact KeptV.refl hI
      · subst h4
        have hW := hI.wf.toWF
        have hn : (m.tbl.vars.insert var j).size = m.tbl.vars.size + 1 := by
          rw [TreeMap.size_insert]
          have : ¬ var ∈ m.tbl.vars := by
            intro hc
            rw [TreeMap.mem_iff_isSome_getElem?, h1] at hc
            cases hc
          simp [this]
        refine ⟨hI', fun _ _ h => h, ?_, ?_, rfl, rfl, rfl, rfl⟩
        · intro u hu a
          unfold den
          show denF _ ((m.tbl.vars.insert var j).size + 1) u a = denF m.tbl (m.tbl.vars.size + 1) u a
          rw [hn]
          exact (denF_succ_eq (t := m.tbl) (t' := { m.tbl with vars := m.tbl.vars.insert var j, l2v := m.tbl.l2v.insert j var }) rfl _ u a).trans
            (denF_stable m.tbl hW (m.tbl.nvars + 1) u a hu (by omega)).symm
        · intro v i hv
          show (m.tbl.vars.insert var j)[v]? = some i
          rw [TreeMap.getElem?_insert]
          by_cases hvv : var = v
          · subst hvv; rw [h1] at hv; cases hv
          · simp [hvv, hv]

/-! ### the pickle loader: any content -/

theorem findOrAdd_noCtx (m : Mgr) (hc : m.ctx = false) (i : Int) (v w : Int) :
    findOrAdd i v w m = if i < 0 then (.error .value, m) else findOrAddCore i.toNat v w m := by
  unfold findOrAdd
  simp only [hc, Bool.false_eq_true, if_false]

theorem varNode_kept_noCtx (m : Mgr) (hI : Inv m) (hc : m.ctx = false) (j : Nat) :
    Kept m (findOrAdd (j : Int) (-1) 1 m).2 := by
  rw [findOrAdd_noCtx m hc]
  split
  · exact Kept.refl hI
  · rw [Int.toNat_natCast]
    exact findOrAddCore_total m hI j (-1) 1 (foaGuard_var m j)

theorem iteRaw_kept (m : Mgr) (hI : Inv m) (g u v : Int) : Kept m (iteRaw g u v m).2 := by
  rw [dmp_iteRaw_eq]; exact iteF_total m hI g u v

/-- `Kept`, and the counts stay exact for whatever ledger they were exact for -/
structure KeptR (m m' : Mgr) : Prop where
  kept : Kept m m'
  refs : ∀ ext : Nat → Nat, RefExact m ext → RefExact m' ext

theorem KeptR.refl {m : Mgr} (h : Inv m) : KeptR m m := ⟨Kept.refl h, fun _ h => h⟩
theorem KeptR.trans {a b c : Mgr} (h1 : KeptR a b) (h2 : KeptR b c) : KeptR a c :=
  ⟨h1.kept.trans h2.kept, fun ext h => h2.refs ext (h1.refs ext h)⟩
theorem KeptR.inv {m m' : Mgr} (h : KeptR m m') : Inv m' := h.kept.inv
theorem KeptR.frame {m m' : Mgr} (h : KeptR m m') : Frame m m' := h.kept.frame

theorem varNode_keptR_noCtx (m : Mgr) (hI : Inv m) (hc : m.ctx = false) (j : Nat) :
    KeptR m (findOrAdd (j : Int) (-1) 1 m).2 :=
  ⟨varNode_kept_noCtx m hI hc j, fun ext hr => findOrAdd_refExact m ext j (-1) 1 hI.wf.toWF hr⟩

/-- `_ite` with an operand that is not a node changes nothing -/
theorem iteF_notMem_same (m : Mgr) (hI : Inv m) (g u v : Int)
    (hall : ¬ (m.tbl.Mem g ∧ m.tbl.Mem u ∧ m.tbl.Mem v)) : (iteF (m.nvars + 2) g u v m).2 = m := by
  show (iteF (m.nvars + 1 + 1) g u v m).2 = m
  unfold iteF
  by_cases hg1 : g = 1
  · simp [hg1]
  · simp only [hg1, if_false]
    by_cases hgm : g = -1
    · simp [hgm]
    · simp only [hgm, if_false]
      cases hc : m.cache[iteKey g u v]? with
      | some w =>
        exfalso
        have he := hI.cache g u v w hc
        exact hall ⟨he.mg, he.mu, he.mv⟩
      | none =>
        simp only
        by_cases hg : m.tbl.Mem g
        · by_cases hu : m.tbl.Mem u
          · have hv : ¬ m.tbl.Mem v := fun hv => hall ⟨hg, hu, hv⟩
            rw [levelOf?_none_of_not_mem _ _ hv]
            split <;> simp_all
          · rw [levelOf?_none_of_not_mem _ _ hu]
            split <;> simp_all
        · rw [levelOf?_none_of_not_mem _ _ hg]

theorem iteRaw_keptR (m : Mgr) (hI : Inv m) (g u v : Int) : KeptR m (iteRaw g u v m).2 := by
  refine ⟨iteRaw_kept m hI g u v, fun ext hr => ?_⟩
  rw [dmp_iteRaw_eq]
  by_cases hall : m.tbl.Mem g ∧ m.tbl.Mem u ∧ m.tbl.Mem v
  · exact iteF_refExact (m.nvars + 2) m ext g u v hI hr hall.1 hall.2.1 hall.2.2 (by omega)
  · rw [iteF_notMem_same m hI g u v hall]; exact hr

/-- `_load(u, succ, umap, level_map)` on ANY table of the file, any fuel -/
theorem loadNodeF_keptR (succ : List PEntry) (lm : List (Nat × Nat)) :
    ∀ (fuel : Nat) (u : Int) (umap : TreeMap Int Int) (m : Mgr), Inv m → m.ctx = false →
      KeptR m (loadNodeF succ lm fuel u umap m).2 := by
  intro fuel
  induction fuel with
  | zero => intro u umap m hI _; exact KeptR.refl hI
  | succ f ih =>
    intro u umap m hI hc
    simp only [loadNodeF]
    split
    · exact KeptR.refl hI
    split
    · split
      · exact KeptR.refl hI
      · split <;> exact KeptR.refl hI
    split
    · exact KeptR.refl hI
    split
    · exact KeptR.refl hI
    split
    · -- both children
      rename_i _ _ _ j _ _ _ v w _ _
      have k1 := ih v umap m hI hc
      cases h1 : loadNodeF succ lm f v umap m with
      | mk r1 m1 =>
        rw [h1] at k1
        cases r1 with
        | error e => exact k1
        | ok pr =>
          obtain ⟨p, umap1⟩ := pr
          dsimp only
          have c1 : m1.ctx = false := by rw [k1.frame.ctx]; exact hc
          have k2 := ih w umap1 m1 k1.inv c1
          cases h2 : loadNodeF succ lm f w umap1 m1 with
          | mk r2 m2 =>
            rw [h2] at k2
            cases r2 with
            | error e => exact k1.trans k2
            | ok qr =>
              obtain ⟨q, umap2⟩ := qr
              dsimp only
              have c2 : m2.ctx = false := by rw [k2.frame.ctx]; exact c1
              have k3 := varNode_keptR_noCtx m2 k2.inv c2 j
              cases h3 : findOrAdd (j : Int) (-1) 1 m2 with
              | mk r3 m3 =>
                rw [h3] at k3
                cases r3 with
                | error e => exact (k1.trans k2).trans k3
                | ok g =>
                  dsimp only
                  have k4 := iteRaw_keptR m3 k3.inv g q p
                  cases h4 : iteRaw g q p m3 with
                  | mk r4 m4 =>
                    rw [h4] at k4
                    have K := ((k1.trans k2).trans k3).trans k4
                    cases r4 with
                    | error e => exact K
                    | ok r =>
                      dsimp only
                      split <;> exact K
    · exact KeptR.refl hI
    · rename_i v _ _
      have k1 := ih v umap m hI hc
      cases h1 : loadNodeF succ lm f v umap m with
      | mk r1 m1 =>
        rw [h1] at k1
        cases r1 <;> exact k1

theorem loadAll_keptR (succ : List PEntry) (lm : List (Nat × Nat)) (fuel : Nat) :
    ∀ (es : List PEntry) (umap : TreeMap Int Int) (m : Mgr), Inv m → m.ctx = false →
      KeptR m (loadAll succ lm fuel es umap m).2 := by
  intro es
  induction es with
  | nil => intro umap m hI _; exact KeptR.refl hI
  | cons e rest ih =>
    intro umap m hI hc
    simp only [loadAll]
    split
    · exact ih umap m hI hc
    · have k1 := loadNodeF_keptR succ lm fuel (e.id : Int) umap m hI hc
      cases h1 : loadNodeF succ lm fuel (e.id : Int) umap m with
      | mk r1 m1 =>
        rw [h1] at k1
        cases r1 with
        | error er => exact k1
        | ok pr =>
          dsimp only
          exact k1.trans (ih pr.2 m1 k1.inv (by rw [k1.frame.ctx]; exact hc))

theorem addVar_refs_any (m : Mgr) (var : String) (lvl : Option Int) (ext : Nat → Nat)
    (hr : RefExact m ext) : RefExact (addVar var lvl m).2 ext := by
  cases h : addVar var lvl m with
  | mk r m' =>
    cases r with
    | error e => rw [addVar_err_same m m' var lvl e h]; exact hr
    | ok j =>
      rcases dmp_addVar_cases h with ⟨_, h2, _⟩ | ⟨_, _, _, h4⟩
      · subst h2; exact hr
      · subst h4; exact hr.congr_nodes (fun _ => rfl) rfl

/-- the first loop of `_load_pickle`, any pairs, any `levels`, any outcome -/
theorem loadVars_keptV (levels : Bool) (n : Nat) :
    ∀ (vs : List (String × Nat)) (lm : List (Nat × Nat)) (m : Mgr), Inv m →
      KeptV m (loadVars levels n vs lm m).2 ∧
      ∀ ext, RefExact m ext → RefExact (loadVars levels n vs lm m).2 ext := by
  intro vs
  induction vs with
  | nil => intro lm m hI; exact ⟨KeptV.refl hI, fun _ h => h⟩
  | cons x rest ih =>
    intro lm m hI
    obtain ⟨var, i⟩ := x
    simp only [loadVars]
    split
    · exact ⟨KeptV.refl hI, fun _ h => h⟩
    · have k1 := addVar_keptV m hI var (if levels = true then some (i : Int) else none)
      have r1 := addVar_refs_any m var (if levels = true then some (i : Int) else none)
      cases h1 : addVar var (if levels = true then some (i : Int) else none) m with
      | mk r1' m1 =>
        rw [h1] at k1 r1
        cases r1' with
        | error e => exact ⟨k1, r1⟩
        | ok j =>
          obtain ⟨k2, r2⟩ := ih ((i, j) :: lm) m1 k1.inv
          exact ⟨k1.trans k2, fun ext h => r2 ext (r1 ext h)⟩

/-- what `BDD.load` leaves behind, for ANY content and EVERY outcome: `KeptV`; the counts exact
for the ledger they were exact for (the loader holds nothing when it returns or raises); the
order still a bijection onto `0..n-1`.  (`levels=True`: by the two pre-checks of `_load_pickle`
— the file's levels are a permutation of `0..n-1`, every pair agrees with the manager — the
load is refused before anything is declared, or every variable gets declared.  The hypothesis
"distinct names" says that `vars` is a dict: the model keeps its items as a list.) -/
structure LoadLeaves (f : PickleFile) (levels : Bool) (m m' : Mgr) : Prop where
  kept : KeptV m m'
  counts : ∀ ext : Nat → Nat, RefExact m ext → RefExact m' ext
  order : OrderOK m.tbl → (levels = true → (f.vars.map (·.1)).Nodup) → OrderOK m'.tbl

theorem LoadLeaves.same (f : PickleFile) (levels : Bool) {m : Mgr} (hI : Inv m) : LoadLeaves f levels m m :=
  ⟨KeptV.refl hI, fun _ h => h, fun h _ => h⟩

/-- `BDD.load(file, levels)` on ANY content of a pickle file, any outcome -/
theorem loadPickle_leaves (f : PickleFile) (levels : Bool) (m : Mgr) (hI : Inv m) (hc : m.ctx = false) :
    LoadLeaves f levels m (loadPickle f levels m).2 := by
  rw [loadPickle_eq]
  split
  · exact LoadLeaves.same f levels hI
  rename_i hperm
  split
  · exact LoadLeaves.same f levels hI
  rename_i hcomp
  unfold loadPickleBody
  obtain ⟨k1, r1⟩ := loadVars_keptV levels f.vars.length f.vars [] m hI
  -- the order tables after the declaration loop
  have o1 : OrderOK m.tbl → (levels = true → (f.vars.map (·.1)).Nodup) →
      OrderOK (loadVars levels f.vars.length f.vars [] m).2.tbl := by
    intro hO hW
    cases levels with
    | false => exact loadVars_false_orderOK _ _ _ m hI hO
    | true =>
      have hcp : levelsCompatible m.tbl f.vars = true := by
        simpa using hcomp
      have hpp : levelsPermutation f.vars = true := by simpa using hperm
      obtain ⟨lm, m1, e1, O1, _⟩ := loadVars_true_total f.vars (VarsWF.of_perm (hW rfl) hpp) m hO hcp
      rw [e1]; exact O1
  cases h1 : loadVars levels f.vars.length f.vars [] m with
  | mk r m1 =>
    rw [h1] at k1 r1 o1
    cases r with
    | error e => exact ⟨k1, r1, o1⟩
    | ok lm =>
      dsimp only
      have c1 : m1.ctx = false := by rw [k1.ctx]; exact hc
      have k2 := loadAll_keptR f.succ lm (f.vars.length + f.succ.length + 2) f.succ {} m1 k1.inv c1
      have fin : ∀ m2, KeptR m1 m2 → LoadLeaves f levels m m2 := fun m2 k2 =>
        ⟨k1.trans (k2.kept.toV k1.inv), fun ext h => k2.refs ext (r1 ext h),
          fun hO hW => (o1 hO hW).congr k2.frame.vars k2.frame.l2v⟩
      cases h2 : loadAll f.succ lm (f.vars.length + f.succ.length + 2) f.succ {} m1 with
      | mk r2 m2 =>
        rw [h2] at k2
        cases r2 with
        | error e => exact fin m2 k2
        | ok umap => exact fin m2 k2

theorem loadPickle_keptV (f : PickleFile) (levels : Bool) (m : Mgr) (hI : Inv m) (hc : m.ctx = false) :
    KeptV m (loadPickle f levels m).2 := (loadPickle_leaves f levels m hI hc).kept

/-- `wrapList` (the `Function`s of the result) on anything -/
theorem wrapList_kept : ∀ (us : List Int) (m : Mgr), Inv m → Kept m (wrapList us m).2 := by
  intro us
  induction us with
  | nil => intro m hI; exact Kept.refl hI
  | cons u rest ih =>
    intro m hI
    simp only [wrapList]
    have k1 : Kept m (dmpWrap u m).2 := by
      unfold dmpWrap
      split
      · exact Kept.refl hI
      · exact incref_kept m hI u
    cases h1 : dmpWrap u m with
    | mk r m1 =>
      rw [h1] at k1
      cases r with
      | error e => exact k1
      | ok _ => exact k1.trans (ih m1 k1.inv)

/-- a successful `wrapList` wrapped nodes -/
theorem wrapList_ok_mem : ∀ (us : List Int) (m m' : Mgr), wrapList us m = (.ok (), m') →
    ∀ u ∈ us, m.tbl.Mem u := by
  intro us
  induction us with
  | nil => intro m m' _ u hu; cases hu
  | cons x rest ih =>
    intro m m' h u hu
    simp only [wrapList] at h
    have hx : m.mem x = true := by
      cases hmx : m.mem x with
      | true => rfl
      | false => simp [dmpWrap, hmx] at h
    cases h1 : dmpWrap x m with
    | mk r m1 =>
      rw [h1] at h
      cases r with
      | error e => simp at h
      | ok _ =>
        dsimp only at h
        have ht : m1.tbl = m.tbl := by
          simp only [dmpWrap, hx, Bool.not_true, Bool.false_eq_true, if_false] at h1
          unfold incref at h1
          split at h1
          · cases h1
          · simp only [Prod.mk.injEq] at h1; rw [← h1.2]
        rcases List.mem_cons.mp hu with rfl | hu'
        · exact (Mgr.mem_iff m u).mp hx
        · rw [← ht]; exact ih m1 m' h u hu'

/-- `dd.autoref.BDD.load(file, levels)` on ANY content of a pickle file, any outcome: as
`loadPickle_leaves`, and the counts are exact for the caller's ledger plus ONE reference per
returned `Function` — for the caller's ledger itself when the call raised -/
theorem loadPickleAutoref_leaves (f : PickleFile) (levels : Bool) (m : Mgr) (hI : Inv m)
    (hc : m.ctx = false) :
    KeptV m (loadPickleAutoref f levels m).2 ∧
    (OrderOK m.tbl → (levels = true → (f.vars.map (·.1)).Nodup) → OrderOK (loadPickleAutoref f levels m).2.tbl) ∧
    ∀ ext, RefExact m ext →
      match (loadPickleAutoref f levels m).1 with
      | .ok roots => RefExact (loadPickleAutoref f levels m).2 (extAdd ext (roots.values.map Int.natAbs))
      | .error _ => RefExact (loadPickleAutoref f levels m).2 ext := by
  unfold loadPickleAutoref
  have L := loadPickle_leaves f levels m hI hc
  cases h1 : loadPickle f levels m with
  | mk r m1 =>
    rw [h1] at L
    cases r with
    | error e => exact ⟨L.kept, L.order, fun ext h => L.counts ext h⟩
    | ok roots =>
      dsimp only
      have k2 := wrapList_kept roots.values m1 L.kept.inv
      cases h2 : wrapList roots.values m1 with
      | mk r2 m2 =>
        rw [h2] at k2
        cases r2 with
        | error e => exact ⟨L.kept, L.order, fun ext h => L.counts ext h⟩
        | ok _ =>
          refine ⟨L.kept.trans (k2.toV L.kept.inv),
            fun hO hW => (L.order hO hW).congr k2.frame.vars k2.frame.l2v, fun ext h => ?_⟩
          obtain ⟨r, e2, _, R2⟩ := wrapList_spec roots.values m1 ext L.kept.inv (L.counts ext h)
            (wrapList_ok_mem _ _ _ h2)
          rw [h2] at e2
          simp only [Prod.mk.injEq, true_and] at e2
          rw [e2]; exact R2

theorem loadPickleAutoref_keptV (f : PickleFile) (levels : Bool) (m : Mgr) (hI : Inv m)
    (hc : m.ctx = false) : KeptV m (loadPickleAutoref f levels m).2 :=
  (loadPickleAutoref_leaves f levels m hI hc).1

/-! ### the JSON loader (`load_order=False`, reordering not enabled): any content -/

/-- the operation keeps the manager whatever it is given and whatever it returns, dynamic
reordering not enabled -/
def TotK {α : Type} (x : M α) : Prop := ∀ m, Inv m → m.lastLen = none → Kept m (x m).2

theorem TotK.pure {α : Type} (a : α) : TotK (pure a : M α) := fun _ hI _ => Kept.refl hI
theorem TotK.throw {α : Type} (e : Err) : TotK (M.throw e : M α) := fun _ hI _ => Kept.refl hI

theorem TotK.bind {α β : Type} {x : M α} {f : α → M β} (hx : TotK x) (hf : ∀ a, TotK (f a)) :
    TotK (x >>= f) := by
  intro m hI hoff
  have k1 := hx m hI hoff
  show Kept m (M.bind' x f m).2
  unfold M.bind'
  cases h1 : x m with
  | mk r m1 =>
    rw [h1] at k1
    cases r with
    | error e => exact k1
    | ok a => exact k1.trans (hf a m1 k1.inv (by rw [k1.frame.lastLen]; exact hoff))

theorem TotK.assert (b : Bool) : TotK (M.assert b) := by
  unfold M.assert; split
  · exact TotK.pure ()
  · exact TotK.throw _

theorem TotK.ofOption {α : Type} (e : Err) (o : Option α) : TotK (M.ofOption e o) := by
  cases o with
  | none => exact TotK.throw _
  | some a => exact TotK.pure a

theorem TotK.ite' {α : Type} {c : Prop} [Decidable c] {x y : M α} (hx : TotK x) (hy : TotK y) :
    TotK (if c then x else y) := by
  split
  · exact hx
  · exact hy

theorem dropList_kept : ∀ (us : List Int) (m : Mgr), Inv m → Kept m (dropList us m) := by
  intro us
  induction us with
  | nil => intro m hI; exact Kept.refl hI
  | cons u rest ih =>
    intro m hI
    have k1 : Kept m (dmpDrop u m).2 := decref_kept m hI u
    exact k1.trans (ih _ k1.inv)

theorem TotK.withTemps {α : Type} (us : List Int) {x : M α} (hx : TotK x) : TotK (withTemps us x) := by
  intro m hI hoff
  have k1 := hx m hI hoff
  unfold DD.withTemps
  exact k1.trans (dropList_kept us _ k1.inv)

theorem TotK.incref (u : Int) : TotK (incref u) := fun m hI _ => incref_kept m hI u
theorem TotK.decref (u : Int) : TotK (decref u) := fun m hI _ => decref_kept m hI u

theorem TotK.wrap (u : Int) : TotK (dmpWrap u) := by
  intro m hI _
  unfold dmpWrap
  split
  · exact Kept.refl hI
  · exact incref_kept m hI u

theorem TotK.containsCheck (u : Int) : TotK (containsCheck u) := by
  unfold DD.containsCheck
  exact TotK.bind (fun _ hI _ => Kept.refl hI) fun _ => TotK.ite' (TotK.throw _) (TotK.pure _)

theorem TotK.bddIte (g u v : Int) : TotK (ite g u v) := fun m hI hoff => ite_total m hI hoff g u v

/-- `BDD.var(name)` for ANY name, reordering not enabled: no hypothesis on the counts -/
theorem TotK.bddVar (name : String) : TotK (var name) := by
  intro m hI hoff
  have h : Kept { m with ctx := true } (varBody name { m with ctx := true }).2 :=
    varBody_kept _ (hI.setCtx true) hoff name
  generalize hres : varBody name { m with ctx := true } = res at h
  obtain ⟨r, m1⟩ := res
  have hk : Kept m { m1 with ctx := m.ctx } := by
    have h' : Kept { m with ctx := true } m1 := h
    exact ⟨h'.inv.setCtx _, h'.ext,
      ⟨h'.frame.vars, h'.frame.l2v, h'.frame.lastLen, rfl, h'.frame.sched, h'.frame.roots⟩⟩
  cases r with
  | ok r =>
    rw [var_eq, tryToReorder_ok _ m r m1 hres]; exact hk
  | error e =>
    have hne : e ≠ .needsReordering := by
      intro he
      subst he
      rw [varBody_eq] at hres
      cases hv : m.tbl.vars[name]? with
      | none =>
        rw [show ({ m with ctx := true } : Mgr).tbl = m.tbl from rfl, hv] at hres
        cases hres
      | some j =>
        rw [show ({ m with ctx := true } : Mgr).tbl = m.tbl from rfl, hv] at hres
        simp only at hres
        have e := findOrAdd_off_eq { m with ctx := true } hoff (j : Int) (-1) 1
        have hj : ¬ ((j : Int) < 0) := by omega
        simp only [hj, if_false] at e
        have := findOrAddCore_noNR { m with ctx := true } (j : Int).toNat (-1) 1
        rw [← e, hres] at this
        exact this rfl
    rw [var_eq, tryToReorder_err _ m e m1 hres hne]; exact hk

theorem applyNot_hnq : ∀ row, findRow "not" Gen.applyTable = some row →
    ∀ fa f b, row.templ ≠ .quant fa f b := by
  intro row hr fa f b h
  have h1 : (findRow "not" Gen.applyTable).map (fun r => match r.templ with | .quant _ _ _ => true | _ => false)
      = some false := by decide
  rw [hr] at h1
  simp [h] at h1

theorem TotK.applyNot (u : Int) : TotK (apply "not" u none none) :=
  fun m hI hoff => apply_total m hI hoff "not" u none none applyNot_hnq

/-! ### every outcome, with the ledger: `Safe`

`Safe e l lerr x post`: started between two calls with the counts exact for the ledger
`e + l` (`l` lists the references the loader's live `Function`s and its shelf hold), `x` keeps
the manager (`Kept`) and ends — when it returns `a` — in such a state for a ledger `l'` with
`post a l'`, and — when it raises — in such a state for the ledger `e + lerr`. -/

def Safe {α : Type} (e : Nat → Nat) (l lerr : List Nat) (x : M α) (post : α → List Nat → Prop) : Prop :=
  ∀ m, GoodState m (extAdd e l) →
    Kept m (x m).2 ∧
    match (x m).1 with
    | .ok a => ∃ l', post a l' ∧ GoodState (x m).2 (extAdd e l')
    | .error _ => GoodState (x m).2 (extAdd e lerr)

theorem GoodState.permL {e : Nat → Nat} {l l' : List Nat} {m : Mgr} (h : GoodState m (extAdd e l))
    (hp : l.Perm l') : GoodState m (extAdd e l') := by rw [← extAdd_perm e hp]; exact h

theorem Safe.mono {α : Type} {e : Nat → Nat} {l lerr : List Nat} {x : M α} {P Q : α → List Nat → Prop}
    (h : Safe e l lerr x P) (hpq : ∀ a l', P a l' → Q a l') : Safe e l lerr x Q := by
  intro m hg
  obtain ⟨k, ho⟩ := h m hg
  refine ⟨k, ?_⟩
  cases hr : (x m).1 with
  | ok a =>
    rw [hr] at ho
    obtain ⟨l', p, g⟩ := ho
    exact ⟨l', hpq a l' p, g⟩
  | error er => rw [hr] at ho; exact ho

theorem Safe.perm {α : Type} {e : Nat → Nat} {l l2 lerr lerr2 : List Nat} {x : M α}
    {P : α → List Nat → Prop} (h : Safe e l lerr x P) (h1 : l2.Perm l) (h2 : lerr.Perm lerr2) :
    Safe e l2 lerr2 x P := by
  intro m hg
  obtain ⟨k, ho⟩ := h m (hg.permL h1)
  refine ⟨k, ?_⟩
  cases hr : (x m).1 with
  | ok a => rw [hr] at ho; exact ho
  | error er => rw [hr] at ho; exact ho.permL h2

theorem Safe.bind {α β : Type} {e : Nat → Nat} {l lerr : List Nat} {x : M α} {f : α → M β}
    {P : α → List Nat → Prop} {Q : β → List Nat → Prop}
    (hx : Safe e l lerr x P) (hf : ∀ a l1, P a l1 → Safe e l1 lerr (f a) Q) :
    Safe e l lerr (x >>= f) Q := by
  intro m hg
  obtain ⟨k1, ho⟩ := hx m hg
  cases h1 : x m with
  | mk r m1 =>
    rw [h1] at k1 ho
    cases r with
    | error er =>
      rw [M.bind_eq_err h1]
      exact ⟨k1, ho⟩
    | ok a =>
      obtain ⟨l1, p, g1⟩ := ho
      obtain ⟨k2, ho2⟩ := hf a l1 p m1 g1
      rw [M.bind_eq_ok h1]
      exact ⟨k1.trans k2, ho2⟩

theorem Safe.pure {α : Type} {e : Nat → Nat} {l lerr : List Nat} (a : α) {P : α → List Nat → Prop}
    (h : P a l) : Safe e l lerr (pure a : M α) P :=
  fun _ hg => ⟨Kept.refl hg.inv, l, h, hg⟩

theorem Safe.throw {α : Type} {e : Nat → Nat} {l : List Nat} (er : Err) {P : α → List Nat → Prop} :
    Safe e l l (M.throw er : M α) P :=
  fun _ hg => ⟨Kept.refl hg.inv, hg⟩

theorem Safe.assert {e : Nat → Nat} {l : List Nat} (b : Bool) :
    Safe e l l (M.assert b) (fun _ l' => l' = l) := by
  unfold M.assert; split
  · exact Safe.pure () rfl
  · exact Safe.throw _

theorem Safe.ofOption {α : Type} {e : Nat → Nat} {l : List Nat} (er : Err) (o : Option α) :
    Safe e l l (M.ofOption er o) (fun _ l' => l' = l) := by
  cases o with
  | none => exact Safe.throw _
  | some a => exact Safe.pure a rfl

/-- an operation that keeps the manager and the counts for the same ledger, whatever it returns -/
theorem Safe.ofKeeps {α : Type} {e : Nat → Nat} {l : List Nat} {x : M α}
    (hk : ∀ m, Inv m → m.lastLen = none → Kept m (x m).2)
    (hr : ∀ m ext, Lite ext m → RefExact (x m).2 ext) :
    Safe e l l x (fun _ l' => l' = l) := by
  intro m hg
  have k := hk m hg.inv hg.off
  have g : GoodState (x m).2 (extAdd e l) := hg.of_kept k (hr m _ hg.lite)
  refine ⟨k, ?_⟩
  cases (x m).1 with
  | ok a => exact ⟨l, rfl, g⟩
  | error er => exact g

theorem Safe.bddVar {e : Nat → Nat} {l : List Nat} (name : String) :
    Safe e l l (var name) (fun _ l' => l' = l) :=
  Safe.ofKeeps (TotK.bddVar name) (fun m ext h => (var_lite ext name m h).1.exact)

theorem Safe.bddIte {e : Nat → Nat} {l : List Nat} (g u v : Int) :
    Safe e l l (ite g u v) (fun _ l' => l' = l) :=
  Safe.ofKeeps (TotK.bddIte g u v) (fun m ext h => (ite_lite ext g u v m h).1.exact)

theorem Safe.applyNot {e : Nat → Nat} {l : List Nat} (u : Int) :
    Safe e l l (apply "not" u none none) (fun _ l' => l' = l) :=
  Safe.ofKeeps (TotK.applyNot u) (fun m ext h => (apply_lite ext "not" u none none m h).exact)

theorem Safe.containsCheck {e : Nat → Nat} {l : List Nat} (u : Int) :
    Safe e l l (containsCheck u) (fun _ l' => l' = l) := by
  unfold DD.containsCheck
  refine Safe.bind (P := fun _ l' => l' = l) (fun m hg => ⟨Kept.refl hg.inv, l, rfl, hg⟩) fun a l1 h1 => ?_
  subst h1
  split
  · exact Safe.throw _
  · exact Safe.pure _ rfl

/-- `Function(u, bdd)` on ANY integer: refused (`ValueError`) with nothing changed, or one more
reference -/
theorem Safe.wrap {e : Nat → Nat} {l : List Nat} (u : Int) :
    Safe e l l (dmpWrap u) (fun _ l' => l' = u.natAbs :: l) := by
  intro m hg
  by_cases hu : m.tbl.Mem u
  · obtain ⟨r', hw, g⟩ := dmp_wrap_spec m _ hg u hu
    rw [extInc_extAdd] at g
    have hk : Kept m (dmpWrap u m).2 := TotK.wrap u m hg.inv hg.off
    rw [hw] at hk ⊢
    exact ⟨hk, _, rfl, g⟩
  · have hm : m.mem u = false := (Tbl.mem_false_iff _ _).mpr hu
    have : dmpWrap u m = (.error .value, m) := by unfold dmpWrap; simp [hm]
    rw [this]
    exact ⟨Kept.refl hg.inv, hg⟩

/-- `bdd.incref(u)` on ANY integer -/
theorem Safe.incref {e : Nat → Nat} {l : List Nat} (u : Int) :
    Safe e l l (incref u) (fun _ l' => l' = u.natAbs :: l) := by
  intro m hg
  have hk := incref_kept m hg.inv u
  by_cases hu : m.tbl.Mem u
  · obtain ⟨c, _, he, _⟩ := incref_spec m _ u hg.exact hu
    have g := (incref_good m _ hg u).1
    have hm : m.mem u = true := (Mgr.mem_iff m u).mpr hu
    simp only [hm, if_true] at g
    rw [extInc_extAdd] at g
    rw [he] at hk g ⊢
    exact ⟨hk, _, rfl, g⟩
  · have g := (incref_good m _ hg u).1
    have hm : m.mem u = false := (Tbl.mem_false_iff _ _).mpr hu
    simp only [hm, Bool.false_eq_true, if_false] at g
    have hn := incref_not_mem m u (ref_none_of_not_mem hg.exact hu)
    rw [hn] at hk g ⊢
    exact ⟨hk, g⟩

/-- the temporaries die whether the block returned or raised -/
theorem Safe.withTemps {α : Type} {e : Nat → Nat} {l lerr : List Nat} (a : Int) {x : M α}
    {P Q : α → List Nat → Prop} (hx : Safe e l (a.natAbs :: lerr) x P)
    (hq : ∀ b l', P b l' → ∃ L, l'.Perm (a.natAbs :: L) ∧ Q b L) :
    Safe e l lerr (withTemps [a] x) Q := by
  intro m hg
  obtain ⟨k1, ho⟩ := hx m hg
  unfold DD.withTemps
  cases h1 : x m with
  | mk r m1 =>
    rw [h1] at k1 ho
    have kd : Kept m1 (dropList [a] m1) := dropList_kept [a] m1 k1.inv
    cases r with
    | error er =>
      obtain ⟨r', hd, g⟩ := dmp_drop_spec m1 _ ho a (extAdd_pos _ _ _)
      rw [extDec_extAdd] at g
      refine ⟨k1.trans kd, ?_⟩
      show GoodState (dropList [a] m1) _
      simp only [dropList]; rw [hd]; exact g
    | ok b =>
      obtain ⟨l', p, g1⟩ := ho
      obtain ⟨L, hp, q⟩ := hq b l' p
      obtain ⟨r', hd, g⟩ := dmp_drop_spec m1 _ (g1.permL hp) a (extAdd_pos _ _ _)
      rw [extDec_extAdd] at g
      refine ⟨k1.trans kd, L, q, ?_⟩
      show GoodState (dropList [a] m1) _
      simp only [dropList]; rw [hd]; exact g


/-- `_node_from_int` on ANY shelf and ANY id: one reference on the returned node, or an
exception with every temporary released -/
theorem Safe.nodeFromInt {e : Nat → Nat} {l : List Nat} (cache : List (Nat × Int)) (uid : Int) :
    Safe e l l (nodeFromInt cache uid) (fun r l' => l' = r.natAbs :: l) := by
  unfold DD.nodeFromInt
  by_cases hm1 : uid = -1
  · simp only [hm1, if_true]
    exact Safe.bind (Safe.wrap _) fun _ l1 h1 => by rw [h1]; exact Safe.pure _ rfl
  by_cases h1 : uid = 1
  · simp only [hm1, h1, if_false, if_true]
    exact Safe.bind (Safe.wrap _) fun _ l1 h1 => by rw [h1]; exact Safe.pure _ rfl
  simp only [hm1, h1, if_false]
  refine Safe.bind (Safe.ofOption _ _) fun k l1 hl1 => ?_
  rw [hl1]
  refine Safe.bind (Safe.wrap k) fun _ l1 hl1 => ?_
  rw [hl1]
  split
  · refine Safe.withTemps (lerr := l) k
      (P := fun r l' => l' = r.natAbs :: k.natAbs :: l) ?_ ?_
    · refine Safe.bind (Safe.applyNot k) fun r l1 hl1 => ?_
      rw [hl1]
      refine Safe.bind (Safe.wrap r) fun _ l1 hl1 => ?_
      rw [hl1]
      exact Safe.pure _ rfl
    · intro r l' hl'
      rw [hl']
      exact ⟨r.natAbs :: l, List.Perm.swap _ _ _, rfl⟩
  · exact Safe.pure k rfl

/-- the shelf gets one more entry, held once more -/
def PostT (cache : List (Nat × Int)) (id : Nat) (T : List Nat) (c' : List (Nat × Int)) (l' : List Nat) : Prop :=
  ∃ u : Int, c' = cache ++ [(id, u)] ∧ l' = u.natAbs :: T

/-- `_make_node` (`load_order=False`) on ANY line and ANY shelf: the line is skipped, or its node
is put on the shelf with one reference, or an exception leaves the counts as they were — every
temporary `Function` has been released -/
theorem Safe.makeNode {e : Nat → Nat} {l : List Nat} (vat : List (Nat × String)) (ln : JLine)
    (cache : List (Nat × Int)) :
    Safe e l l (makeNode false vat ln cache)
      (fun c' l' => (c' = cache ∧ l' = l) ∨ (cache.lookup ln.id = none ∧ PostT cache ln.id l c' l')) := by
  unfold DD.makeNode
  refine Safe.bind (Safe.assert _) fun _ l1 hl1 => ?_
  rw [hl1]
  by_cases hin : (cache.lookup ln.id).isSome = true
  · simp only [hin, if_true]
    exact Safe.pure _ (Or.inl ⟨rfl, rfl⟩)
  simp only [hin, Bool.false_eq_true, if_false]
  have hnew : cache.lookup ln.id = none := by
    cases hh : cache.lookup ln.id with
    | none => rfl
    | some x => simp [hh] at hin
  refine Safe.mono (P := PostT cache ln.id l) ?_ (fun c' l' h => Or.inr ⟨hnew, h⟩)
  refine Safe.bind (Safe.nodeFromInt cache ln.lo) fun low l1 hl1 => ?_
  rw [hl1]
  refine Safe.withTemps (lerr := l) low (P := PostT cache ln.id (low.natAbs :: l)) ?_
    (fun c' l' ⟨u, hc, hl'⟩ => ⟨u.natAbs :: l, by rw [hl']; exact List.Perm.swap _ _ _, u, hc, rfl⟩)
  refine Safe.bind (Safe.nodeFromInt cache ln.hi) fun high l1 hl1 => ?_
  rw [hl1]
  refine Safe.withTemps (lerr := low.natAbs :: l) high
    (P := PostT cache ln.id (high.natAbs :: low.natAbs :: l)) ?_
    (fun c' l' ⟨u, hc, hl'⟩ => ⟨u.natAbs :: low.natAbs :: l, by rw [hl']; exact List.Perm.swap _ _ _, u, hc, rfl⟩)
  refine Safe.bind (Safe.ofOption _ _) fun name l1 hl1 => ?_
  rw [hl1]
  refine Safe.bind (Safe.bddVar name) fun g l1 hl1 => ?_
  rw [hl1]
  refine Safe.bind (Safe.wrap g) fun _ l1 hl1 => ?_
  rw [hl1]
  refine Safe.withTemps (lerr := high.natAbs :: low.natAbs :: l) g
    (P := PostT cache ln.id (g.natAbs :: high.natAbs :: low.natAbs :: l)) ?_
    (fun c' l' ⟨u, hc, hl'⟩ => ⟨u.natAbs :: high.natAbs :: low.natAbs :: l,
      by rw [hl']; exact List.Perm.swap _ _ _, u, hc, rfl⟩)
  refine Safe.bind (Safe.containsCheck g) fun _ l1 hl1 => ?_
  rw [hl1]
  refine Safe.bind (Safe.containsCheck high) fun _ l1 hl1 => ?_
  rw [hl1]
  refine Safe.bind (Safe.containsCheck low) fun _ l1 hl1 => ?_
  rw [hl1]
  refine Safe.bind (Safe.bddIte g high low) fun u l1 hl1 => ?_
  rw [hl1]
  refine Safe.bind (Safe.wrap u) fun _ l1 hl1 => ?_
  rw [hl1]
  refine Safe.withTemps (lerr := g.natAbs :: high.natAbs :: low.natAbs :: l) u
    (P := fun c' l' => c' = cache ++ [(ln.id, u)] ∧
      l' = u.natAbs :: u.natAbs :: g.natAbs :: high.natAbs :: low.natAbs :: l) ?_
    (fun c' l' ⟨hc, hl'⟩ => ⟨u.natAbs :: g.natAbs :: high.natAbs :: low.natAbs :: l,
      by rw [hl'], u, hc, rfl⟩)
  refine Safe.bind (Safe.assert _) fun _ l1 hl1 => ?_
  rw [hl1]
  refine Safe.bind (Safe.incref u) fun _ l1 hl1 => ?_
  rw [hl1]
  exact Safe.pure _ ⟨rfl, rfl⟩

/-- the references the shelf holds -/
def shelfRefs (c : List (Nat × Int)) : List Nat := c.map (·.2.natAbs)

/-- the loop over the node lines (`load_order=False`), ANY lines: however it is left, the counts
are exact for the caller's ledger plus one reference per shelf entry -/
theorem makeNodesE_any (e : Nat → Nat) (vat : List (Nat × String)) :
    ∀ (ls : List JLine) (cache : List (Nat × Int)) (m : Mgr), (cache.map (·.1)).Nodup →
      (∀ p ∈ cache, p.1 ≠ 1) → (∀ ln ∈ ls, ln.id ≠ 1) →
      GoodState m (extAdd e (shelfRefs cache)) →
      Kept m (makeNodesE false vat ls cache m).2.2 ∧
      ((makeNodesE false vat ls cache m).2.1.map (·.1)).Nodup ∧
      (∀ p ∈ (makeNodesE false vat ls cache m).2.1, p.1 ≠ 1) ∧
      GoodState (makeNodesE false vat ls cache m).2.2
        (extAdd e (shelfRefs (makeNodesE false vat ls cache m).2.1)) := by
  intro ls
  induction ls with
  | nil => intro cache m hn h1 _ hg; exact ⟨Kept.refl hg.inv, hn, h1, hg⟩
  | cons ln rest ih =>
    intro cache m hn h1 hl1 hg
    obtain ⟨k1, ho⟩ := Safe.makeNode (e := e) (l := shelfRefs cache) vat ln cache m hg
    rw [makeNodesE]
    cases hmk : makeNode false vat ln cache m with
    | mk r m1 =>
      rw [hmk] at k1 ho
      cases r with
      | error er => exact ⟨k1, hn, h1, ho⟩
      | ok c1 =>
        dsimp only
        obtain ⟨l', hp, g1⟩ := ho
        have hrest : ∀ ln' ∈ rest, ln'.id ≠ 1 := fun x hx => hl1 x (List.mem_cons_of_mem _ hx)
        rcases hp with ⟨rfl, rfl⟩ | ⟨hnew, u, rfl, rfl⟩
        · obtain ⟨k2, n2, i2, g2⟩ := ih c1 m1 hn h1 hrest g1
          exact ⟨k1.trans k2, n2, i2, g2⟩
        · have hn' : ((cache ++ [(ln.id, u)]).map (·.1)).Nodup := by
            rw [List.map_append, List.nodup_append]
            refine ⟨hn, by simp, ?_⟩
            intro a ha b hb hab
            simp at hb
            subst hb hab
            have := (dmp_lookup_isSome_of_mem_keys cache _).mpr ha
            rw [hnew] at this; cases this
          have h1' : ∀ p ∈ cache ++ [(ln.id, u)], p.1 ≠ 1 := by
            intro p hp
            rcases List.mem_append.mp hp with h | h
            · exact h1 p h
            · simp at h; subst h; exact hl1 ln List.mem_cons_self
          have g1' : GoodState m1 (extAdd e (shelfRefs (cache ++ [(ln.id, u)]))) := by
            apply g1.permL
            simp only [shelfRefs, List.map_append, List.map_cons, List.map_nil]
            exact (List.perm_append_singleton _ _).symm
          obtain ⟨k2, n2, i2, g2⟩ := ih _ m1 hn' h1' hrest g1'
          exact ⟨k1.trans k2, n2, i2, g2⟩

/-- the roots of the result on ANY ids -/
theorem Safe.rootsFromInts {e : Nat → Nat} (cache : List (Nat × Int)) :
    ∀ (ks : List Int) (l : List Nat),
      Safe e l l (rootsFromInts cache ks)
        (fun us l' => l'.Perm (us.map Int.natAbs ++ l) ∧ us.length = ks.length) := by
  intro ks
  induction ks with
  | nil => intro l; unfold DD.rootsFromInts; exact Safe.pure _ ⟨List.Perm.refl _, rfl⟩
  | cons k rest ih =>
    intro l
    unfold DD.rootsFromInts
    refine Safe.bind (Safe.nodeFromInt cache k) fun u l1 hl1 => ?_
    rw [hl1]
    intro m hg
    obtain ⟨k1, ho⟩ := ih (u.natAbs :: l) m hg
    dsimp only
    cases h1 : DD.rootsFromInts cache rest m with
    | mk r m1 =>
      rw [h1] at k1 ho
      cases r with
      | ok us =>
        obtain ⟨l', ⟨hp, hlen⟩, g⟩ := ho
        refine ⟨k1, l', ⟨?_, by simp [hlen]⟩, g⟩
        refine hp.trans ?_
        simp only [List.map_cons, List.cons_append]
        exact List.perm_middle
      | error er =>
        obtain ⟨r', hd, g⟩ := dmp_drop_spec m1 _ ho u (extAdd_pos _ _ _)
        rw [extDec_extAdd] at g
        have kd : Kept m1 (dmpDrop u m1).2 := decref_kept m1 k1.inv u
        refine ⟨k1.trans kd, ?_⟩
        show GoodState (dmpDrop u m1).2 _
        rw [hd]; exact g

theorem Safe.jsonRoots {e : Nat → Nat} {l : List Nat} (f : JsonFile) (cache : List (Nat × Int)) :
    Safe e l l (jsonRoots f cache)
      (fun us l' => l'.Perm (us.map Int.natAbs ++ l) ∧ (f.roots.rebuild us).values = us) := by
  unfold DD.jsonRoots
  cases hr : f.roots with
  | none => exact Safe.bind (P := fun _ _ => False) (Safe.throw _) fun _ _ h => h.elim
  | list ks =>
    refine Safe.bind (P := fun a l' => l' = l ∧ a = ks) (Safe.pure _ ⟨rfl, rfl⟩) fun a l1 hl1 => ?_
    obtain ⟨rfl, rfl⟩ := hl1
    exact (Safe.rootsFromInts cache _ _).mono (fun us l' h => ⟨h.1, rfl⟩)
  | dict d =>
    refine Safe.bind (P := fun a l' => l' = l ∧ a = d.map (·.2)) (Safe.pure _ ⟨rfl, rfl⟩) fun a l1 hl1 => ?_
    obtain ⟨rfl, rfl⟩ := hl1
    refine (Safe.rootsFromInts cache _ _).mono (fun us l' h => ⟨h.1, ?_⟩)
    show ((d.map (·.1)).zip us).map (·.2) = us
    apply List.map_snd_zip
    have := h.2
    simp at this ⊢
    omega

/-- a shelf entry is fetched: one more reference on its node -/
theorem fetch_shelf (e : Nat → Nat) (cache : List (Nat × Int)) (hn : (cache.map (·.1)).Nodup)
    (k : Nat) (u0 : Int) (hm : (k, u0) ∈ cache) (hk1 : k ≠ 1) (m : Mgr) (L : List Nat)
    (hg : GoodState m (extAdd e L)) (hin : u0.natAbs ∈ L) :
    ∃ r, nodeFromInt cache (k : Int) m = (.ok u0, { m with ref := r }) ∧
      GoodState { m with ref := r } (extAdd e (u0.natAbs :: L)) := by
  have hlk := dmp_lookup_of_mem_nodup cache hn k u0 hm
  have hpos : 0 < extAdd e L u0.natAbs := by
    have : 0 < L.count u0.natAbs := List.count_pos_iff.mpr hin
    simp only [extAdd]; omega
  have hmem : m.tbl.Mem u0 := hg.exact.mem_of_ext_pos hpos
  obtain ⟨r, hw, g⟩ := dmp_wrap_spec m _ hg u0 hmem
  rw [extInc_extAdd] at g
  refine ⟨r, ?_, g⟩
  unfold DD.nodeFromInt
  have a1 : ¬ ((k : Int) = -1) := by omega
  have a2 : ¬ ((k : Int) = 1) := by omega
  have a3 : ¬ ((k : Int) < 0) := by omega
  have a4 : ((k : Int)).natAbs = k := by simp
  simp only [a1, a2, a3, a4, if_false]
  have hlook : (M.ofOption Err.key (cache.lookup k) : M Int) m = (.ok u0, m) := by rw [hlk]; rfl
  refine (M.bind_eq_ok hlook).trans ?_
  refine (M.bind_eq_ok hw).trans ?_
  rfl

theorem dropOpt_spec (e : Nat → Nat) (prev : Option Int) (m : Mgr) (L : List Nat)
    (hg : GoodState m (extAdd e (prev.toList.map Int.natAbs ++ L))) :
    ∃ r, dropOpt prev m = { m with ref := r } ∧ GoodState { m with ref := r } (extAdd e L) := by
  cases prev with
  | none => exact ⟨m.ref, rfl, by simpa using hg⟩
  | some p =>
    simp only [Option.toList, List.map_cons, List.map_nil, List.cons_append, List.nil_append] at hg
    obtain ⟨r, hd, g⟩ := dmp_drop_spec m _ hg p (extAdd_pos _ _ _)
    rw [extDec_extAdd] at g
    exact ⟨r, hd, g⟩

/-- `except BaseException:` — the shelf's references are given back -/
theorem releaseFailed_spec (e : Nat → Nat) (cache : List (Nat × Int)) (hn : (cache.map (·.1)).Nodup)
    (h1 : ∀ p ∈ cache, p.1 ≠ 1) :
    ∀ (ents : List (Nat × Int)) (prev : Option Int) (m : Mgr) (L : List Nat),
      (∀ p ∈ ents, p ∈ cache) →
      GoodState m (extAdd e (prev.toList.map Int.natAbs ++ (shelfRefs ents ++ L))) →
      ∃ last r, releaseFailed cache ents prev m = (.ok (), last, { m with ref := r }) ∧
        GoodState { m with ref := r } (extAdd e (last.toList.map Int.natAbs ++ L)) := by
  intro ents
  induction ents with
  | nil =>
    intro prev m L _ hg
    exact ⟨prev, m.ref, rfl, by simpa [shelfRefs] using hg⟩
  | cons p rest ih =>
    intro prev m L hsub hg
    obtain ⟨k, u0⟩ := p
    have hmem := hsub _ List.mem_cons_self
    obtain ⟨r1, e1, g1⟩ := fetch_shelf e cache hn k u0 hmem (h1 _ hmem) m _ hg
      (by simp [shelfRefs])
    have g1' : GoodState { m with ref := r1 }
        (extAdd e (prev.toList.map Int.natAbs ++ (u0.natAbs :: u0.natAbs :: (shelfRefs rest ++ L)))) := by
      apply g1.permL
      simp only [shelfRefs, List.map_cons, List.cons_append]
      exact List.perm_middle.symm
    obtain ⟨r2, ed, g2⟩ := dropOpt_spec e prev { m with ref := r1 } _ g1'
    obtain ⟨r3, hd3, g3⟩ := decref_ok_spec { m with ref := r2 } _ g2 u0 (extAdd_pos _ _ _)
    rw [extDec_extAdd] at g3
    obtain ⟨last, r4, e4, g4⟩ := ih (some u0) { m with ref := r3 } L
      (fun p hp => hsub p (List.mem_cons_of_mem _ hp))
      (by simpa using g3)
    refine ⟨last, r4, ?_, g4⟩
    rw [releaseFailed]
    simp only [e1, ed, hd3]
    exact e4

/-- the release loop of the successful path on ANY shelf that is held: its assertions pass -/
theorem releaseLoop_any (e : Nat → Nat) (cache : List (Nat × Int)) (hn : (cache.map (·.1)).Nodup)
    (h1 : ∀ p ∈ cache, p.1 ≠ 1) :
    ∀ (ents : List (Nat × Int)) (prev : Option Int) (m : Mgr) (L : List Nat),
      (∀ p ∈ ents, p ∈ cache) →
      GoodState m (extAdd e (prev.toList.map Int.natAbs ++ (shelfRefs ents ++ L))) →
      ∃ last r, releaseLoop false cache ents prev m = (.ok (), last, { m with ref := r }) ∧
        GoodState { m with ref := r } (extAdd e (last.toList.map Int.natAbs ++ L)) := by
  intro ents
  induction ents with
  | nil =>
    intro prev m L _ hg
    exact ⟨prev, m.ref, rfl, by simpa [shelfRefs] using hg⟩
  | cons p rest ih =>
    intro prev m L hsub hg
    obtain ⟨k, u0⟩ := p
    have hmem := hsub _ List.mem_cons_self
    obtain ⟨r1, e1, g1⟩ := fetch_shelf e cache hn k u0 hmem (h1 _ hmem) m _ hg
      (by simp [shelfRefs])
    have g1' : GoodState { m with ref := r1 }
        (extAdd e (prev.toList.map Int.natAbs ++ (u0.natAbs :: u0.natAbs :: (shelfRefs rest ++ L)))) := by
      apply g1.permL
      simp only [shelfRefs, List.map_cons, List.cons_append]
      exact List.perm_middle.symm
    obtain ⟨r2, ed, g2⟩ := dropOpt_spec e prev { m with ref := r1 } _ g1'
    have u0mem : ({ m with ref := r2 } : Mgr).tbl.Mem u0 := g2.exact.mem_of_ext_pos (extAdd_pos _ _ _)
    obtain ⟨c, hc1, hc2⟩ := refOf_ge { m with ref := r2 } _ g2 u0 u0mem
    have hc3 : 2 ≤ c := by
      have : 2 ≤ extAdd e (u0.natAbs :: u0.natAbs :: (shelfRefs rest ++ L)) u0.natAbs := by
        simp [extAdd]; omega
      omega
    obtain ⟨r3, hd3, g3⟩ := decref_ok_spec { m with ref := r2 } _ g2 u0 (extAdd_pos _ _ _)
    rw [extDec_extAdd] at g3
    have hbody : (refOf u0 >>= fun c => M.assert (decide (2 ≤ c)) >>= fun _ =>
        if false = true then (M.assert (decide (3 ≤ c)) >>= fun _ => decref u0) else decref u0)
        { m with ref := r2 } = (.ok (), { m with ref := r3 }) := by
      refine (M.bind_eq_ok hc1).trans ?_
      refine (M.bind_eq_ok (assert_ok _ _ (by simpa using hc3))).trans ?_
      simp only [Bool.false_eq_true, if_false]
      exact hd3
    obtain ⟨last, r4, e4, g4⟩ := ih (some u0) { m with ref := r3 } L
      (fun p hp => hsub p (List.mem_cons_of_mem _ hp))
      (by simpa using g3)
    refine ⟨last, r4, ?_, g4⟩
    rw [releaseLoop]
    simp only [e1, ed]
    rw [hbody]
    exact e4

theorem dropList_spec (e : Nat → Nat) : ∀ (us : List Int) (m : Mgr) (L : List Nat),
    GoodState m (extAdd e (us.map Int.natAbs ++ L)) →
    ∃ r, dropList us m = { m with ref := r } ∧ GoodState { m with ref := r } (extAdd e L) := by
  intro us
  induction us with
  | nil => intro m L hg; exact ⟨m.ref, rfl, by simpa using hg⟩
  | cons u rest ih =>
    intro m L hg
    simp only [List.map_cons, List.cons_append] at hg
    obtain ⟨r, hd, g⟩ := dmp_drop_spec m _ hg u (extAdd_pos _ _ _)
    rw [extDec_extAdd] at g
    obtain ⟨r2, hd2, g2⟩ := ih { m with ref := r } L g
    exact ⟨r2, by rw [dropList, hd, hd2], g2⟩

theorem declare_keptV (names : List String) : ∀ m : Mgr, Inv m → KeptV m (declare names m).2 := by
  induction names with
  | nil => intro m hI; rw [declare_nil]; exact KeptV.refl hI
  | cons v vs ih =>
    intro m hI
    rw [declare_cons]
    have k1 := addVar_keptV m hI v none
    cases h1 : addVar v none m with
    | mk r m1 =>
      rw [h1] at k1
      cases r with
      | error e => exact k1
      | ok j => exact k1.trans (ih m1 k1.inv)

theorem dmpAssertConsistent_state (m : Mgr) : (dmpAssertConsistent m).2 = m := by
  unfold dmpAssertConsistent
  dsimp only
  split
  · rfl
  split
  · rfl
  split
  · rfl
  split <;> rfl

/-- what `load_json` leaves behind: `KeptV`, and a between-calls state with the counts exact for
the caller's ledger plus ONE reference per returned `Function` — for the caller's ledger itself
when the call raised (the `except` clause gave the shelf's references back) -/
def JsonLeaves (e : Nat → Nat) (m : Mgr) (out : Except Err Roots × Mgr) : Prop :=
  KeptV m out.2 ∧
  match out.1 with
  | .ok roots => GoodState out.2 (extAdd e (roots.values.map Int.natAbs))
  | .error _ => GoodState out.2 e

/-- `_copy.load_json(file, bdd, load_order=False)` on ANY content whose node lines do not use the
terminal's id `1`, dynamic reordering not enabled, EVERY outcome -/
theorem loadJson_false_any (f : JsonFile) (hid : ∀ ln ∈ f.nodes, ln.id ≠ 1) (m : Mgr) (e : Nat → Nat)
    (hg : GoodState m e) : JsonLeaves e m (loadJson f false m) := by
  rw [loadJson_false_eq]
  unfold jsonTry
  -- the line `level_of_var`
  obtain ⟨m1, ed, g1, -, -, -, -, -⟩ := declare_spec (f.levelOfVar.map (·.1)) m e hg
  have kv1 : KeptV m m1 := by
    have := declare_keptV (f.levelOfVar.map (·.1)) m hg.inv
    rw [ed] at this; exact this
  rw [jsonHeader_false f m m1 ed]
  dsimp only
  -- the node lines
  generalize hvat : (f.levelOfVar.foldl (fun acc (x : String × Nat) => (x.2, x.1) :: acc) []) = vat
  obtain ⟨k2, n2, i2, g2⟩ := makeNodesE_any e vat f.nodes [] m1 (by simp) (by simp) hid
    (by simpa [shelfRefs, extAdd_nil] using g1)
  generalize makeNodesE false vat f.nodes [] m1 = res at k2 n2 i2 g2
  obtain ⟨r2, cache, m2⟩ := res
  dsimp only at k2 n2 i2 g2
  have kv2 : KeptV m m2 := kv1.trans (k2.toV kv1.inv)
  -- the handler
  have handler : ∀ (er : Err) (m3 : Mgr), Kept m2 m3 → GoodState m3 (extAdd e (shelfRefs cache)) →
      JsonLeaves e m (jsonFinish f false (.error er, cache, m3)) := by
    intro er m3 k3 g3
    obtain ⟨last, r4, e4, g4⟩ := releaseFailed_spec e cache n2 i2 cache none m3 []
      (fun _ h => h) (by simpa using g3)
    obtain ⟨r5, e5, g5⟩ := dropOpt_spec e last { m3 with ref := r4 } [] (by simpa using g4)
    rw [extAdd_nil] at g5
    unfold jsonFinish
    simp only [e4, e5]
    exact ⟨kv2.trans ((GoodState.setRef_kept k3 g5).toV kv2.inv), g5⟩
  cases r2 with
  | error er => exact handler er m2 (Kept.refl kv2.inv) g2
  | ok _ =>
    dsimp only
    -- the roots
    obtain ⟨k3, ho⟩ := Safe.jsonRoots (e := e) (l := shelfRefs cache) f cache m2 g2
    cases h3 : jsonRoots f cache m2 with
    | mk r3 m3 =>
      rw [h3] at k3 ho
      cases r3 with
      | error er => exact handler er m3 k3 ho
      | ok us =>
        dsimp only
        obtain ⟨l', ⟨hp, hvals⟩, g3⟩ := ho
        have kv3 : KeptV m m3 := kv2.trans (k3.toV kv2.inv)
        -- the release loop
        obtain ⟨last, r4, e4, g4⟩ := releaseLoop_any e cache n2 i2 cache none m3 (us.map Int.natAbs)
          (fun _ h => h) (by
            apply g3.permL
            refine hp.trans ?_
            simp only [Option.toList, List.map_nil, List.nil_append]
            exact List.perm_append_comm)
        unfold jsonFinish
        simp only [e4, Bool.false_eq_true, if_false]
        let m4 : Mgr := { m3 with ref := r4 }
        have g4' : GoodState m4 (extAdd e (last.toList.map Int.natAbs ++ us.map Int.natAbs)) := g4
        have k4 : Kept m3 m4 := GoodState.setRef_kept (Kept.refl k3.inv) g4'
        obtain ⟨r5, e5, g5⟩ := dropOpt_spec e last m4 (us.map Int.natAbs) g4'
        cases hac : dmpAssertConsistent m4 with
        | mk ra ma =>
          have hma : ma = m4 := by have := dmpAssertConsistent_state m4; rw [hac] at this; exact this
          subst hma
          cases ra with
          | ok _ =>
            have hfin : (liftE (Except.ok ()) >>= fun _ => dmpAssertConsistent >>= fun _ => (pure () : M Unit)) m4
                = (.ok (), m4) := by
              refine (M.bind_eq_ok (show liftE (Except.ok ()) m4 = (.ok (), m4) from rfl)).trans ?_
              exact (M.bind_eq_ok hac).trans rfl
            rw [hfin]
            simp only [e5]
            refine ⟨kv3.trans ((GoodState.setRef_kept (Kept.refl k3.inv) g5).toV kv3.inv), ?_⟩
            show GoodState _ (extAdd e ((f.roots.rebuild us).values.map Int.natAbs))
            rw [hvals]; exact g5
          | error er =>
            have hfin : (liftE (Except.ok ()) >>= fun _ => dmpAssertConsistent >>= fun _ => (pure () : M Unit)) m4
                = (.error er, m4) := by
              refine (M.bind_eq_ok (show liftE (Except.ok ()) m4 = (.ok (), m4) from rfl)).trans ?_
              exact M.bind_eq_err hac
            rw [hfin]
            simp only [e5]
            obtain ⟨r6, e6, g6⟩ := dropList_spec e us { m3 with ref := r5 } [] (by simpa using g5)
            rw [extAdd_nil] at g6
            rw [e6]
            exact ⟨kv3.trans ((GoodState.setRef_kept (Kept.refl k3.inv) g6).toV kv3.inv), g6⟩


end DD
