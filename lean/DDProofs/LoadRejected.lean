/-
  DDProofs.LoadRejected — `BDD.load` / `load_json` on ANY content (C17).

  A readable file whose content is ill-formed makes the loader fail half-way.  What is true for
  every outcome: the invariant holds, every node that was in the manager is still there and
  denotes the same function, declared variables keep their level, the switches are what they
  were.  Variables of the file may have been declared (`loadVars` / `declare` run first) and
  nodes may have been added: "nothing changed" is false.
-/
import DDProofs.DumpJson
import DDProofs.Total
import DDProofs.ReachTotal
open Std
namespace DD

/-- what a load leaves behind, whether it returned or raised: as `Kept`, but variables may have
been declared -/
structure KeptV (m m' : Mgr) : Prop where
  inv : Inv m'
  nodes : ∀ u n, m.tbl.node? u = some n → m'.tbl.node? u = some n
  den : ∀ u, m.tbl.Mem u → ∀ a, den m'.tbl u a = den m.tbl u a
  vars : ∀ (v : String) (i : Nat), m.tbl.vars[v]? = some i → m'.tbl.vars[v]? = some i
  lastLen : m'.lastLen = m.lastLen
  ctx : m'.ctx = m.ctx
  sched : m'.sched = m.sched
  roots : m'.roots = m.roots

theorem KeptV.refl {m : Mgr} (h : Inv m) : KeptV m m :=
  ⟨h, fun _ _ h => h, fun _ _ _ => rfl, fun _ _ h => h, rfl, rfl, rfl, rfl⟩

theorem KeptV.mem {m m' : Mgr} (h : KeptV m m') {u : Int} (hu : m.tbl.Mem u) : m'.tbl.Mem u := by
  rcases hu with h1 | h1
  · exact Or.inl h1
  · obtain ⟨n, hn⟩ := Option.isSome_iff_exists.mp h1
    exact Or.inr (by rw [h.nodes _ n hn]; rfl)

theorem KeptV.trans {a b c : Mgr} (h1 : KeptV a b) (h2 : KeptV b c) : KeptV a c :=
  ⟨h2.inv, fun u n h => h2.nodes u n (h1.nodes u n h),
    fun u hu x => (h2.den u (h1.mem hu) x).trans (h1.den u hu x),
    fun v i h => h2.vars v i (h1.vars v i h), h2.lastLen.trans h1.lastLen, h2.ctx.trans h1.ctx,
    h2.sched.trans h1.sched, h2.roots.trans h1.roots⟩

theorem Kept.toV {m m' : Mgr} (h : Kept m m') (hI : Inv m) : KeptV m m' :=
  ⟨h.inv, h.ext.nodes, fun u hu => (h.den hI u hu).2, fun v i hv => by rw [h.frame.vars]; exact hv,
    h.frame.lastLen, h.frame.ctx, h.frame.sched, h.frame.roots⟩

/-- `add_var(var, level)`, any arguments, any outcome (a free level beyond the next one — the
transient gap of `levels=True`, F7 — included) -/
theorem addVar_keptV (m : Mgr) (hI : Inv m) (var : String) (lvl : Option Int) :
    KeptV m (addVar var lvl m).2 := by
  cases h : addVar var lvl m with
  | mk r m' =>
    cases r with
    | error e =>
      have : m' = m := by
        unfold addVar at h
        simp only [bind, M.bind', M.get, pure] at h
        cases hv : m.tbl.vars[var]? with
        | some vl =>
          simp only [hv] at h
          cases lvl with
          | none => simp [M.pure'] at h
          | some l =>
            by_cases hl : l = (vl : Int)
            · simp [M.pure', hl] at h
            · simp [M.throw, hl] at h
              exact h.2.symm
        | none =>
          simp only [hv] at h
          by_cases hneg : lvl.getD (m.nvars : Int) < 0
          · simp [hneg, M.bind', M.throw] at h
            exact h.2.symm
          · simp only [hneg, if_false] at h
            cases hl : m.tbl.l2v[(lvl.getD (m.nvars : Int)).toNat]? with
            | some x =>
              simp [hl, M.throw] at h
              exact h.2.symm
            | none => simp [hl, M.bind', M.set, M.pure'] at h
      subst this
      exact KeptV.refl hI
    | ok j =>
      have hI' := addVar_inv hI h
      rcases dmp_addVar_cases h with ⟨_, h2, _⟩ | ⟨h1, _, _, h4⟩
      · subst h2; exact KeptV.refl hI
      · subst h4
        have hW := hI.wf.toWF
        have hn : (m.tbl.vars.insert var j).size = m.tbl.vars.size + 1 := by
          rw [TreeMap.size_insert]
          have : ¬ var ∈ m.tbl.vars := by
            intro hc
            rw [TreeMap.mem_iff_isSome_getElem?, h1] at hc
            cases hc
          simp [this]
        refine ⟨hI', fun _ _ h => h, ?_, ?_, rfl, rfl, rfl, rfl⟩
        · intro u hu a
          unfold den
          show denF _ ((m.tbl.vars.insert var j).size + 1) u a = denF m.tbl (m.tbl.vars.size + 1) u a
          rw [hn]
          exact (denF_succ_eq (t := m.tbl) (t' := { m.tbl with vars := m.tbl.vars.insert var j, l2v := m.tbl.l2v.insert j var }) rfl _ u a).trans
            (denF_stable m.tbl hW (m.tbl.nvars + 1) u a hu (by omega)).symm
        · intro v i hv
          show (m.tbl.vars.insert var j)[v]? = some i
          rw [TreeMap.getElem?_insert]
          by_cases hvv : var = v
          · subst hvv; rw [h1] at hv; cases hv
          · simp [hvv, hv]

/-! ### the pickle loader: any content -/

theorem findOrAdd_noCtx (m : Mgr) (hc : m.ctx = false) (i : Int) (v w : Int) :
    findOrAdd i v w m = if i < 0 then (.error .value, m) else findOrAddCore i.toNat v w m := by
  unfold findOrAdd
  simp only [hc, Bool.false_eq_true, if_false]

theorem varNode_kept_noCtx (m : Mgr) (hI : Inv m) (hc : m.ctx = false) (j : Nat) :
    Kept m (findOrAdd (j : Int) (-1) 1 m).2 := by
  rw [findOrAdd_noCtx m hc]
  split
  · exact Kept.refl hI
  · rw [Int.toNat_natCast]
    exact findOrAddCore_total m hI j (-1) 1 (foaGuard_var m j)

theorem iteRaw_kept (m : Mgr) (hI : Inv m) (g u v : Int) : Kept m (iteRaw g u v m).2 := by
  rw [dmp_iteRaw_eq]; exact iteF_total m hI g u v

/-- `_load(u, succ, umap, level_map)` on ANY table of the file, any fuel -/
theorem loadNodeF_kept (succ : List PEntry) (lm : List (Nat × Nat)) :
    ∀ (fuel : Nat) (u : Int) (umap : TreeMap Int Int) (m : Mgr), Inv m → m.ctx = false →
      Kept m (loadNodeF succ lm fuel u umap m).2 := by
  intro fuel
  induction fuel with
  | zero => intro u umap m hI _; exact Kept.refl hI
  | succ f ih =>
    intro u umap m hI hc
    simp only [loadNodeF]
    split
    · exact Kept.refl hI
    split
    · split
      · exact Kept.refl hI
      · split <;> exact Kept.refl hI
    split
    · exact Kept.refl hI
    split
    · exact Kept.refl hI
    split
    · -- both children
      rename_i _ _ _ j _ _ _ v w _ _
      have k1 := ih v umap m hI hc
      cases h1 : loadNodeF succ lm f v umap m with
      | mk r1 m1 =>
        rw [h1] at k1
        cases r1 with
        | error e => exact k1
        | ok pr =>
          obtain ⟨p, umap1⟩ := pr
          dsimp only
          have c1 : m1.ctx = false := by rw [k1.frame.ctx]; exact hc
          have k2 := ih w umap1 m1 k1.inv c1
          cases h2 : loadNodeF succ lm f w umap1 m1 with
          | mk r2 m2 =>
            rw [h2] at k2
            cases r2 with
            | error e => exact k1.trans k2
            | ok qr =>
              obtain ⟨q, umap2⟩ := qr
              dsimp only
              have c2 : m2.ctx = false := by rw [k2.frame.ctx]; exact c1
              have k3 := varNode_kept_noCtx m2 k2.inv c2 j
              cases h3 : findOrAdd (j : Int) (-1) 1 m2 with
              | mk r3 m3 =>
                rw [h3] at k3
                cases r3 with
                | error e => exact (k1.trans k2).trans k3
                | ok g =>
                  dsimp only
                  have k4 := iteRaw_kept m3 k3.inv g q p
                  cases h4 : iteRaw g q p m3 with
                  | mk r4 m4 =>
                    rw [h4] at k4
                    have K := ((k1.trans k2).trans k3).trans k4
                    cases r4 with
                    | error e => exact K
                    | ok r =>
                      dsimp only
                      split <;> exact K
    · exact Kept.refl hI
    · rename_i v _ _
      have k1 := ih v umap m hI hc
      cases h1 : loadNodeF succ lm f v umap m with
      | mk r1 m1 =>
        rw [h1] at k1
        cases r1 <;> exact k1

theorem loadAll_kept (succ : List PEntry) (lm : List (Nat × Nat)) (fuel : Nat) :
    ∀ (es : List PEntry) (umap : TreeMap Int Int) (m : Mgr), Inv m → m.ctx = false →
      Kept m (loadAll succ lm fuel es umap m).2 := by
  intro es
  induction es with
  | nil => intro umap m hI _; exact Kept.refl hI
  | cons e rest ih =>
    intro umap m hI hc
    simp only [loadAll]
    split
    · exact ih umap m hI hc
    · have k1 := loadNodeF_kept succ lm fuel (e.id : Int) umap m hI hc
      cases h1 : loadNodeF succ lm fuel (e.id : Int) umap m with
      | mk r1 m1 =>
        rw [h1] at k1
        cases r1 with
        | error er => exact k1
        | ok pr =>
          dsimp only
          exact k1.trans (ih pr.2 m1 k1.inv (by rw [k1.frame.ctx]; exact hc))

theorem loadVars_keptV (levels : Bool) (n : Nat) :
    ∀ (vs : List (String × Nat)) (lm : List (Nat × Nat)) (m : Mgr), Inv m →
      KeptV m (loadVars levels n vs lm m).2 := by
  intro vs
  induction vs with
  | nil => intro lm m hI; exact KeptV.refl hI
  | cons x rest ih =>
    intro lm m hI
    obtain ⟨var, i⟩ := x
    simp only [loadVars]
    split
    · exact KeptV.refl hI
    · have k1 := addVar_keptV m hI var (if levels = true then some (i : Int) else none)
      cases h1 : addVar var (if levels = true then some (i : Int) else none) m with
      | mk r1 m1 =>
        rw [h1] at k1
        cases r1 with
        | error e => exact k1
        | ok j => exact k1.trans (ih _ m1 k1.inv)

/-- `BDD.load(file, levels)` on ANY content of a pickle file, any outcome -/
theorem loadPickle_keptV (f : PickleFile) (levels : Bool) (m : Mgr) (hI : Inv m) (hc : m.ctx = false) :
    KeptV m (loadPickle f levels m).2 := by
  unfold loadPickle
  have k1 := loadVars_keptV levels f.vars.length f.vars [] m hI
  cases h1 : loadVars levels f.vars.length f.vars [] m with
  | mk r1 m1 =>
    rw [h1] at k1
    cases r1 with
    | error e => exact k1
    | ok lm =>
      dsimp only
      have c1 : m1.ctx = false := by rw [k1.ctx]; exact hc
      have k2 := loadAll_kept f.succ lm (f.vars.length + f.succ.length + 2) f.succ {} m1 k1.inv c1
      cases h2 : loadAll f.succ lm (f.vars.length + f.succ.length + 2) f.succ {} m1 with
      | mk r2 m2 =>
        rw [h2] at k2
        cases r2 with
        | error e => exact k1.trans (k2.toV k1.inv)
        | ok umap => exact k1.trans (k2.toV k1.inv)


/-- `wrapList` (the `Function`s of the result) on anything -/
theorem wrapList_kept : ∀ (us : List Int) (m : Mgr), Inv m → Kept m (wrapList us m).2 := by
  intro us
  induction us with
  | nil => intro m hI; exact Kept.refl hI
  | cons u rest ih =>
    intro m hI
    simp only [wrapList]
    have k1 : Kept m (dmpWrap u m).2 := by
      unfold dmpWrap
      split
      · exact Kept.refl hI
      · exact incref_kept m hI u
    cases h1 : dmpWrap u m with
    | mk r m1 =>
      rw [h1] at k1
      cases r with
      | error e => exact k1
      | ok _ => exact k1.trans (ih m1 k1.inv)

/-- `dd.autoref.BDD.load(file, levels)` on ANY content of a pickle file, any outcome -/
theorem loadPickleAutoref_keptV (f : PickleFile) (levels : Bool) (m : Mgr) (hI : Inv m)
    (hc : m.ctx = false) : KeptV m (loadPickleAutoref f levels m).2 := by
  unfold loadPickleAutoref
  have k1 := loadPickle_keptV f levels m hI hc
  cases h1 : loadPickle f levels m with
  | mk r m1 =>
    rw [h1] at k1
    cases r with
    | error e => exact k1
    | ok roots =>
      dsimp only
      have k2 := wrapList_kept roots.values m1 k1.inv
      cases h2 : wrapList roots.values m1 with
      | mk r2 m2 =>
        rw [h2] at k2
        cases r2 with
        | ok _ => exact k1.trans (k2.toV k1.inv)
        | error e => exact k1

/-! ### the JSON loader (`load_order=False`, reordering not enabled): any content -/

/-- the operation keeps the manager whatever it is given and whatever it returns, dynamic
reordering not enabled -/
def TotK {α : Type} (x : M α) : Prop := ∀ m, Inv m → m.lastLen = none → Kept m (x m).2

theorem TotK.pure {α : Type} (a : α) : TotK (pure a : M α) := fun _ hI _ => Kept.refl hI
theorem TotK.throw {α : Type} (e : Err) : TotK (M.throw e : M α) := fun _ hI _ => Kept.refl hI

theorem TotK.bind {α β : Type} {x : M α} {f : α → M β} (hx : TotK x) (hf : ∀ a, TotK (f a)) :
    TotK (x >>= f) := by
  intro m hI hoff
  have k1 := hx m hI hoff
  show Kept m (M.bind' x f m).2
  unfold M.bind'
  cases h1 : x m with
  | mk r m1 =>
    rw [h1] at k1
    cases r with
    | error e => exact k1
    | ok a => exact k1.trans (hf a m1 k1.inv (by rw [k1.frame.lastLen]; exact hoff))

theorem TotK.assert (b : Bool) : TotK (M.assert b) := by
  unfold M.assert; split
  · exact TotK.pure ()
  · exact TotK.throw _

theorem TotK.ofOption {α : Type} (e : Err) (o : Option α) : TotK (M.ofOption e o) := by
  cases o with
  | none => exact TotK.throw _
  | some a => exact TotK.pure a

theorem TotK.ite' {α : Type} {c : Prop} [Decidable c] {x y : M α} (hx : TotK x) (hy : TotK y) :
    TotK (if c then x else y) := by
  split
  · exact hx
  · exact hy

theorem dropList_kept : ∀ (us : List Int) (m : Mgr), Inv m → Kept m (dropList us m) := by
  intro us
  induction us with
  | nil => intro m hI; exact Kept.refl hI
  | cons u rest ih =>
    intro m hI
    have k1 : Kept m (dmpDrop u m).2 := decref_kept m hI u
    exact k1.trans (ih _ k1.inv)

theorem TotK.withTemps {α : Type} (us : List Int) {x : M α} (hx : TotK x) : TotK (withTemps us x) := by
  intro m hI hoff
  have k1 := hx m hI hoff
  unfold DD.withTemps
  exact k1.trans (dropList_kept us _ k1.inv)

theorem TotK.incref (u : Int) : TotK (incref u) := fun m hI _ => incref_kept m hI u
theorem TotK.decref (u : Int) : TotK (decref u) := fun m hI _ => decref_kept m hI u

theorem TotK.wrap (u : Int) : TotK (dmpWrap u) := by
  intro m hI _
  unfold dmpWrap
  split
  · exact Kept.refl hI
  · exact incref_kept m hI u

theorem TotK.containsCheck (u : Int) : TotK (containsCheck u) := by
  unfold DD.containsCheck
  exact TotK.bind (fun _ hI _ => Kept.refl hI) fun _ => TotK.ite' (TotK.throw _) (TotK.pure _)

theorem TotK.bddIte (g u v : Int) : TotK (ite g u v) := fun m hI hoff => ite_total m hI hoff g u v

/-- `BDD.var(name)` for ANY name, reordering not enabled: no hypothesis on the counts -/
theorem TotK.bddVar (name : String) : TotK (var name) := by
  intro m hI hoff
  have h : Kept { m with ctx := true } (varBody name { m with ctx := true }).2 :=
    varBody_kept _ (hI.setCtx true) hoff name
  generalize hres : varBody name { m with ctx := true } = res at h
  obtain ⟨r, m1⟩ := res
  have hk : Kept m { m1 with ctx := m.ctx } := by
    have h' : Kept { m with ctx := true } m1 := h
    exact ⟨h'.inv.setCtx _, h'.ext,
      ⟨h'.frame.vars, h'.frame.l2v, h'.frame.lastLen, rfl, h'.frame.sched, h'.frame.roots⟩⟩
  cases r with
  | ok r =>
    rw [var_eq, tryToReorder_ok _ m r m1 hres]; exact hk
  | error e =>
    have hne : e ≠ .needsReordering := by
      intro he
      subst he
      rw [varBody_eq] at hres
      cases hv : m.tbl.vars[name]? with
      | none =>
        rw [show ({ m with ctx := true } : Mgr).tbl = m.tbl from rfl, hv] at hres
        cases hres
      | some j =>
        rw [show ({ m with ctx := true } : Mgr).tbl = m.tbl from rfl, hv] at hres
        simp only at hres
        have e := findOrAdd_off_eq { m with ctx := true } hoff (j : Int) (-1) 1
        have hj : ¬ ((j : Int) < 0) := by omega
        simp only [hj, if_false] at e
        have := findOrAddCore_noNR { m with ctx := true } (j : Int).toNat (-1) 1
        rw [← e, hres] at this
        exact this rfl
    rw [var_eq, tryToReorder_err _ m e m1 hres hne]; exact hk

theorem applyNot_hnq : ∀ row, findRow "not" Gen.applyTable = some row →
    ∀ fa f b, row.templ ≠ .quant fa f b := by
  intro row hr fa f b h
  have h1 : (findRow "not" Gen.applyTable).map (fun r => match r.templ with | .quant _ _ _ => true | _ => false)
      = some false := by decide
  rw [hr] at h1
  simp [h] at h1

theorem TotK.applyNot (u : Int) : TotK (apply "not" u none none) :=
  fun m hI hoff => apply_total m hI hoff "not" u none none applyNot_hnq

theorem TotK.nodeFromInt (cache : List (Nat × Int)) (uid : Int) : TotK (nodeFromInt cache uid) := by
  unfold DD.nodeFromInt
  by_cases hm1 : uid = -1
  · simp only [hm1, if_true]
    exact TotK.bind (TotK.wrap _) fun _ => TotK.pure _
  by_cases h1 : uid = 1
  · simp only [hm1, h1, if_false, if_true]
    exact TotK.bind (TotK.wrap _) fun _ => TotK.pure _
  simp only [hm1, h1, if_false]
  refine TotK.bind (TotK.ofOption _ _) fun k => TotK.bind (TotK.wrap _) fun _ => ?_
  split
  · exact TotK.withTemps _ (TotK.bind (TotK.applyNot _) fun r => TotK.bind (TotK.wrap _) fun _ => TotK.pure _)
  · exact TotK.pure _

theorem TotK.makeNode (vat : List (Nat × String)) (ln : JLine) (cache : List (Nat × Int)) :
    TotK (makeNode false vat ln cache) := by
  unfold DD.makeNode
  refine TotK.bind (TotK.assert _) fun _ => ?_
  by_cases hin : (cache.lookup ln.id).isSome = true
  · simp only [hin, if_true]
    exact TotK.pure _
  simp only [hin, Bool.false_eq_true, if_false]
  refine TotK.bind (TotK.nodeFromInt _ _) fun low => TotK.withTemps _ ?_
  refine TotK.bind (TotK.nodeFromInt _ _) fun high => TotK.withTemps _ ?_
  refine TotK.bind (TotK.ofOption _ _) fun name => ?_
  refine TotK.bind (TotK.bddVar _) fun g => TotK.bind (TotK.wrap _) fun _ => TotK.withTemps _ ?_
  refine TotK.bind (TotK.containsCheck _) fun _ => TotK.bind (TotK.containsCheck _) fun _ =>
    TotK.bind (TotK.containsCheck _) fun _ => TotK.bind (TotK.bddIte _ _ _) fun u =>
    TotK.bind (TotK.wrap _) fun _ => TotK.withTemps _ ?_
  exact TotK.bind (TotK.assert _) fun _ => TotK.bind (TotK.incref _) fun _ => TotK.pure _

theorem TotK.makeNodes (vat : List (Nat × String)) :
    ∀ (lines : List JLine) (cache : List (Nat × Int)), TotK (makeNodes false vat lines cache) := by
  intro lines
  induction lines with
  | nil => intro cache; unfold DD.makeNodes; exact TotK.pure _
  | cons ln rest ih =>
    intro cache
    unfold DD.makeNodes
    exact TotK.bind (TotK.makeNode vat ln cache) fun c => ih c

theorem dmpDrop_kept (u : Int) (m : Mgr) (hI : Inv m) : Kept m (dmpDrop u m).2 := decref_kept m hI u

theorem dropOpt_kept (o : Option Int) (m : Mgr) (hI : Inv m) : Kept m (dropOpt o m) := by
  cases o with
  | none => exact Kept.refl hI
  | some u => exact dmpDrop_kept u m hI

theorem TotK.rootsFromInts (cache : List (Nat × Int)) : ∀ ks : List Int, TotK (rootsFromInts cache ks) := by
  intro ks
  induction ks with
  | nil => unfold DD.rootsFromInts; exact TotK.pure _
  | cons k rest ih =>
    unfold DD.rootsFromInts
    refine TotK.bind (TotK.nodeFromInt _ _) fun u => ?_
    intro m hI hoff
    have k1 := ih m hI hoff
    dsimp only
    cases h1 : DD.rootsFromInts cache rest m with
    | mk r m1 =>
      rw [h1] at k1
      cases r with
      | ok us => exact k1
      | error e => exact k1.trans (dmpDrop_kept u m1 k1.inv)

theorem releaseLoop_kept (cache : List (Nat × Int)) :
    ∀ (ents : List (Nat × Int)) (prev : Option Int) (m : Mgr), Inv m → m.lastLen = none →
      Kept m (releaseLoop false cache ents prev m).2.2 := by
  intro ents
  induction ents with
  | nil => intro prev m hI _; exact Kept.refl hI
  | cons p rest ih =>
    intro prev m hI hoff
    obtain ⟨k, u0⟩ := p
    unfold releaseLoop
    have k1 := TotK.nodeFromInt cache (k : Int) m hI hoff
    cases h1 : nodeFromInt cache (k : Int) m with
    | mk r m1 =>
      rw [h1] at k1
      cases r with
      | error e => exact k1
      | ok u =>
        dsimp only
        have k2 : Kept m1 (dropOpt prev m1) := dropOpt_kept prev m1 k1.inv
        have hoff2 : (dropOpt prev m1).lastLen = none := by
          rw [k2.frame.lastLen, k1.frame.lastLen]; exact hoff
        have hbody : TotK (refOf u >>= fun c => M.assert (decide (2 ≤ c)) >>= fun _ =>
            if false = true then (M.assert (decide (3 ≤ c)) >>= fun _ => decref u) else decref u) := by
          refine TotK.bind ?_ fun c => TotK.bind (TotK.assert _) fun _ => ?_
          · intro m hI _
            have : (refOf u m).2 = m := by unfold refOf; split <;> rfl
            rw [this]; exact Kept.refl hI
          · simp only [Bool.false_eq_true, if_false]
            exact TotK.decref u
        have k3 := hbody (dropOpt prev m1) k2.inv hoff2
        cases h3 : (refOf u >>= fun c => M.assert (decide (2 ≤ c)) >>= fun _ =>
            if false = true then (M.assert (decide (3 ≤ c)) >>= fun _ => decref u) else decref u)
            (dropOpt prev m1) with
        | mk r3 m3 =>
          rw [h3] at k3
          have K := (k1.trans k2).trans k3
          cases r3 with
          | error e => exact K
          | ok _ =>
            exact K.trans (ih (some u) m3 K.inv (by rw [K.frame.lastLen]; exact hoff))

theorem declare_keptV (names : List String) : ∀ m : Mgr, Inv m → KeptV m (declare names m).2 := by
  induction names with
  | nil => intro m hI; rw [declare_nil]; exact KeptV.refl hI
  | cons v vs ih =>
    intro m hI
    rw [declare_cons]
    have k1 := addVar_keptV m hI v none
    cases h1 : addVar v none m with
    | mk r m1 =>
      rw [h1] at k1
      cases r with
      | error e => exact k1
      | ok j => exact k1.trans (ih m1 k1.inv)

theorem dmpAssertConsistent_state (m : Mgr) : (dmpAssertConsistent m).2 = m := by
  unfold dmpAssertConsistent
  dsimp only
  split
  · rfl
  split
  · rfl
  split
  · rfl
  split <;> rfl

/-- `_copy.load_json(file, bdd, load_order=False)` on ANY content, reordering not enabled, any
outcome -/
theorem loadJson_keptV (f : JsonFile) (m : Mgr) (hI : Inv m) (hoff : m.lastLen = none) :
    KeptV m (loadJson f false m).2 := by
  unfold loadJson
  simp only [Bool.false_eq_true, if_false]
  have k1 := declare_keptV (f.levelOfVar.map (·.1)) m hI
  show KeptV m (M.bind' _ _ m).2
  unfold M.bind'
  cases h1 : declare (f.levelOfVar.map (·.1)) m with
  | mk r m1 =>
    rw [h1] at k1
    cases r with
    | error e => exact k1
    | ok _ =>
      dsimp only
      refine k1.trans (Kept.toV ?_ k1.inv)
      have hoff1 : m1.lastLen = none := by rw [k1.lastLen]; exact hoff
      refine TotK.bind (TotK.makeNodes _ _ _) (fun cache => TotK.bind ?_ fun ks =>
        TotK.bind (TotK.rootsFromInts cache ks) fun us => ?_) m1 k1.inv hoff1
      · split
        · exact TotK.throw _
        · exact TotK.pure _
      · intro m2 hI2 hoff2
        have k2 := releaseLoop_kept cache cache none m2 hI2 hoff2
        dsimp only
        generalize releaseLoop false cache cache none m2 = res at k2
        obtain ⟨r, last, m3⟩ := res
        dsimp only at k2 ⊢
        have hoff3 : m3.lastLen = none := by rw [k2.frame.lastLen]; exact hoff2
        have hTot : TotK (liftE r >>= fun _ => dmpAssertConsistent >>= fun _ => (pure () : M Unit)) := by
          refine TotK.bind ?_ fun _ => TotK.bind ?_ fun _ => TotK.pure _
          · intro m hI _
            have : (liftE r m).2 = m := by unfold liftE; split <;> rfl
            rw [this]; exact Kept.refl hI
          · intro m hI _
            rw [dmpAssertConsistent_state]; exact Kept.refl hI
        have k3 := hTot m3 k2.inv hoff3
        generalize (liftE r >>= fun _ => dmpAssertConsistent >>= fun _ => (pure () : M Unit)) m3 = res3 at k3 ⊢
        obtain ⟨r3, m4⟩ := res3
        have k4 : Kept m4 (dropOpt last m4) := dropOpt_kept last m4 k3.inv
        cases r3 with
        | ok _ => exact (k2.trans k3).trans k4
        | error e => exact ((k2.trans k3).trans k4).trans (dropList_kept us _ k4.inv)


end DD
