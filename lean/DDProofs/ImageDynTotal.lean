/-
  DDProofs.ImageDynTotal — `image` / `preimage` with ARBITRARY arguments (nodes that are not
  stored, renamings with undeclared names or levels that do not exist, overlapping renamings,
  quantified names that are not declared, …) and dynamic reordering possibly ENABLED.

  The code validates and NAMES its arguments first (`_image_args_by_name`, outside the
  decorator: a rejection there changes nothing), then runs the decorated `_image_of` /
  `_preimage_of`.  Both bodies are total in the sense `TotE` (DDProofs.DynRejected): whatever they
  return or raise — in the fused traversal `_image`, or, for `_preimage_of`, in the fallback
  `_copy_bdd` / `ite` / `quantify` — only nodes were added and the reordering signal comes only
  from an armed context.  By `tryToReorder_total_dyn` the decorated call never lets the signal
  escape and leaves `DynKept`: `DynInv` for the same ledger, reordering enabled iff it was, the
  same names and roots, every held reference with its meaning by name.
  (The documented RESULT of a well-formed call is `C09_image_transparent` /
  `C09_preimage_transparent`.)
-/
import DDProofs.DynRejectedOps
import DDProofs.AutoImage
open Std

namespace DD

/-! ### the two ways `_image` / `_copy_bdd` make the node of a variable -/

/-- `find_or_add(i, -1, 1)` for ANY integer `i` (negative, or not a level: refused) -/
theorem findOrAddI_totE (m : Mgr) (hI : Inv m) (i : Int) : TotE m (findOrAdd i (-1) 1 m) := by
  by_cases hi : 0 ≤ i
  · have := varNode_totE m hI i.toNat
    rwa [Int.toNat_of_nonneg hi] at this
  · have hneg : i < 0 := by omega
    unfold findOrAdd
    by_cases hc : m.ctx = true
    · rw [if_pos hc]
      have hsk : ∀ f, StepK m { m with fireIn := f } := fun f =>
        ⟨hI.setFire f, Ext.refl _, ⟨rfl, rfl, rfl, rfl, rfl, rfl⟩, RefKeep.of_eq rfl rfl⟩
      rcases requestReordering_cases m with ⟨f, hr⟩ | ⟨f, hr, harm⟩
      · rw [hr]
        simp only [hneg, if_true]
        exact TotE.err (hsk f) .value (by simp)
      · rw [hr]
        exact ⟨hsk f, fun _ => ⟨hc, harm⟩⟩
    · rw [if_neg hc]
      simp only [hneg, if_true]
      exact TotE.same hI (.error .value) (by simp)

/-- `find_or_add(name, -1, 1)` with an undeclared NAME in place of the level: the request, then
a `TypeError` -/
theorem findOrAddNonInt_totE (m : Mgr) (hI : Inv m) : TotE m (findOrAddNonInt m) := by
  unfold findOrAddNonInt
  by_cases hc : m.ctx = true
  · rw [if_pos hc]
    have hsk : ∀ f, StepK m { m with fireIn := f } := fun f =>
      ⟨hI.setFire f, Ext.refl _, ⟨rfl, rfl, rfl, rfl, rfl, rfl⟩, RefKeep.of_eq rfl rfl⟩
    rcases requestReordering_cases m with ⟨f, hr⟩ | ⟨f, hr, harm⟩
    · rw [hr]
      exact TotE.err (hsk f) .type (by simp)
    · rw [hr]
      exact ⟨hsk f, fun _ => ⟨hc, harm⟩⟩
  · rw [if_neg hc]
    exact TotE.same hI (.error .type) (by simp)

/-! ### `_image` -/

/-- `_image` on ARBITRARY arguments, inside the decorator's context -/
theorem imageF_totE (umap vmap : Option (List (Int × Int))) (ubad vbad : List Int)
    (Q : List Nat) (fa : Bool) :
    ∀ (f : Nat) (u v : Int) (cache : HashMap (Int × Int) Int) (m : Mgr), Inv m → m.ctx = true →
      TotE m (imageF umap vmap ubad vbad Q fa f u v cache m) := by
  intro f
  induction f with
  | zero =>
    intro u v cache m hI _
    exact TotE.same hI _ (by simp)
  | succ f ih =>
    intro u v cache m hI hc
    have base : ∀ {β : Type} (r : Except Err β), r ≠ .error .needsReordering →
        TotE m ((r, m) : Except Err β × Mgr) := fun r hr => TotE.same hI r hr
    unfold imageF
    split
    · exact base _ (by simp)
    split
    · exact base _ (by simp)
    split
    · exact base _ (by simp)
    split
    · exact base _ (by simp)
    split
    · exact base _ (by simp)
    split
    · exact base _ (by simp)
    dsimp only
    split
    · next e heq => exact base _ (fun h => topCofactorI_noNR _ _ _ (by rw [heq]; simpa using h))
    split
    · next e heq => exact base _ (fun h => topCofactorI_noNR _ _ _ (by rw [heq]; simpa using h))
    next iu _ _ jv _ _ _ u0 u1 _ _ v0 v1 _ =>
    have t1 := ih u0 v0 cache m hI hc
    generalize imageF umap vmap ubad vbad Q fa f u0 v0 cache m = res1 at t1 ⊢
    obtain ⟨r1, m1⟩ := res1
    cases r1 with
    | error e => exact t1.err_of rfl
    | ok pc =>
      obtain ⟨p, c1⟩ := pc
      simp only
      have s1 : StepK m m1 := t1.1
      have hc1 : m1.ctx = true := by rw [s1.frame.ctx]; exact hc
      have t2 := ih u1 v1 c1 m1 s1.inv hc1
      generalize imageF umap vmap ubad vbad Q fa f u1 v1 c1 m1 = res2 at t2 ⊢
      obtain ⟨r2, m2⟩ := res2
      cases r2 with
      | error e => exact (t2.err_of rfl).trans s1
      | ok qc =>
        obtain ⟨q, c2⟩ := qc
        simp only
        have s2 : StepK m1 m2 := t2.1
        have s12 : StepK m m2 := s1.trans s2
        have hI2 := s2.inv
        have hc2 : m2.ctx = true := by rw [s12.frame.ctx]; exact hc
        -- the last step: quantify (an `ite`) or rebuild on the renamed variable
        have h3 : ∀ (z : Int), TotE m2
            (if 0 ≤ z ∧ Q.contains z.toNat = true then
              (if fa then ite p q (-1) m2 else ite p 1 q m2)
            else
              match (if ubad.contains z then findOrAddNonInt m2
                  else findOrAdd (mapLvl umap z) (-1) 1 m2) with
              | (.error e, m3) => (.error e, m3)
              | (.ok g, m3) => ite g q p m3) := by
          intro z
          split
          · split
            · exact ite_nested_totE m2 hI2 hc2 _ _ _
            · exact ite_nested_totE m2 hI2 hc2 _ _ _
          · have tg : TotE m2 (if ubad.contains z then findOrAddNonInt m2
                else findOrAdd (mapLvl umap z) (-1) 1 m2) := by
              split
              · exact findOrAddNonInt_totE m2 hI2
              · exact findOrAddI_totE m2 hI2 _
            generalize (if ubad.contains z then findOrAddNonInt m2
                else findOrAdd (mapLvl umap z) (-1) 1 m2) = resg at tg ⊢
            obtain ⟨rg, m3⟩ := resg
            cases rg with
            | error e => exact tg.err_of rfl
            | ok g =>
              simp only
              have s3 : StepK m2 m3 := tg.1
              have hc3 : m3.ctx = true := by rw [s3.frame.ctx]; exact hc2
              exact (ite_nested_totE m3 s3.inv hc3 _ _ _).trans s3
        have t3 := h3 (min (iu : Int) (mapLvl vmap jv))
        generalize (if 0 ≤ min (iu : Int) (mapLvl vmap jv) ∧ Q.contains (min (iu : Int) (mapLvl vmap jv)).toNat = true then
              (if fa then ite p q (-1) m2 else ite p 1 q m2)
            else
              match (if ubad.contains (min (iu : Int) (mapLvl vmap jv)) then findOrAddNonInt m2
                  else findOrAdd (mapLvl umap (min (iu : Int) (mapLvl vmap jv))) (-1) 1 m2) with
              | (.error e, m3) => (.error e, m3)
              | (.ok g, m3) => ite g q p m3) = res3 at t3 ⊢
        obtain ⟨r3, m3⟩ := res3
        cases r3 with
        | error e => exact (t3.err_of rfl).trans s12
        | ok r => exact TotE.ok (s12.trans t3.1) _

/-- the body `_image_of` for ANY arguments -/
theorem imageBody_totE (t s : Int) (rn : List (Key × Key)) (q : List Key) (fa : Bool)
    (m : Mgr) (hI : Inv m) (hc : m.ctx = true) : TotE m (imageBody t s rn q fa m) := by
  have base : ∀ (r : Except Err Int), r ≠ .error .needsReordering →
      TotE m ((r, m) : Except Err Int × Mgr) := fun r hr => TotE.same hI r hr
  unfold imageBody
  cases hq : mapToLevelE m.tbl q with
  | error e => exact base _ (fun h => mapToLevelE_noNR m.tbl q (by rw [hq]; simpa using h))
  | ok lv =>
    simp only
    split
    · exact base _ (by simp)
    obtain ⟨ha, hn⟩ := adjacentWarn_read (resolveRename m.tbl rn) m
    generalize adjacentWarn (resolveRename m.tbl rn) m = r1 at ha hn
    obtain ⟨x1, m1⟩ := r1
    simp only at ha
    subst ha
    cases x1 with
    | error e => exact base _ (by simpa using hn)
    | ok _ =>
      simp only
      split
      · next e heq => exact base _ (fun h => supportLevels_noNR _ _ (by rw [heq]; simpa using h))
      split
      · next e heq => exact base _ (fun h => supportLevels_noNR _ _ (by rw [heq]; simpa using h))
      split
      · exact base _ (by simp)
      have tt := imageF_totE (some (intPairs (resolveRename m1.tbl rn))) none
        (badKeys (resolveRename m1.tbl rn)) [] lv fa (2 * m1.nvars + 4) t s {} m1 hI hc
      generalize imageF (some (intPairs (resolveRename m1.tbl rn))) none
        (badKeys (resolveRename m1.tbl rn)) [] lv fa (2 * m1.nvars + 4) t s {} m1 = res at tt ⊢
      obtain ⟨r, m2⟩ := res
      cases r with
      | error e => simp only; exact tt.err_of rfl
      | ok rc => simp only; exact TotE.ok tt.1 _

/-! ### the fallback of `_preimage_of` -/

/-- `_copy_bdd` as `_preimage_of` calls it: ANY node, ANY level map, any memo -/
theorem copyBddK_totE (lm : List (Nat × Key)) :
    ∀ (fu : Nat) (u : Int) (cache : HashMap Nat Int) (m : Mgr), Inv m → m.ctx = true →
      TotE m (copyBddK lm fu u cache m) := by
  intro fu
  induction fu with
  | zero =>
    intro u cache m hI _
    exact TotE.same hI _ (by simp)
  | succ fu ih =>
    intro u cache m hI hc
    have base : ∀ {β : Type} (r : Except Err β), r ≠ .error .needsReordering →
        TotE m ((r, m) : Except Err β × Mgr) := fun r hr => TotE.same hI r hr
    unfold copyBddK
    split
    · exact base _ (by simp)
    split
    · split
      · exact base _ (by simp)
      · exact base _ (by simp)
    split
    · exact base _ (by simp)
    split
    · exact base _ (by simp)
    next n _ _ =>
    have t1 := ih n.lo cache m hI hc
    generalize copyBddK lm fu n.lo cache m = res1 at t1 ⊢
    obtain ⟨r1, m1⟩ := res1
    cases r1 with
    | error e => exact t1.err_of rfl
    | ok pc =>
      obtain ⟨p, c1⟩ := pc
      simp only
      have s1 : StepK m m1 := t1.1
      have hc1 : m1.ctx = true := by rw [s1.frame.ctx]; exact hc
      have t2 := ih n.hi c1 m1 s1.inv hc1
      generalize copyBddK lm fu n.hi c1 m1 = res2 at t2 ⊢
      obtain ⟨r2, m2⟩ := res2
      cases r2 with
      | error e => exact (t2.err_of rfl).trans s1
      | ok qc =>
        obtain ⟨q, c2⟩ := qc
        simp only
        have s12 : StepK m m2 := s1.trans t2.1
        have hI2 := s12.inv
        have hc2 : m2.ctx = true := by rw [s12.frame.ctx]; exact hc
        have base2 : ∀ {β : Type} (e : Err), e ≠ .needsReordering →
            TotE m ((.error e, m2) : Except Err β × Mgr) := fun e he => TotE.err s12 e he
        split
        · exact base2 _ (by simp)
        split
        · exact base2 _ (by simp)
        split
        · exact base2 _ (by simp)
        next jnew _ =>
        have fin : ∀ (resg : Except Err Int × Mgr), TotE m2 resg →
            TotE m (match resg with
              | (.error e, m3) => (.error e, m3)
              | (.ok g, m3) =>
                match ite g q p m3 with
                | (.error e, m4) => (.error e, m4)
                | (.ok r, m4) =>
                  if ¬ 0 < r then (.error .assertion, m4) else
                  (.ok ((if u < 0 then -r else r), c2.insert u.natAbs r), m4)) := by
          intro resg tg
          obtain ⟨rg, m3⟩ := resg
          cases rg with
          | error e => exact (tg.err_of rfl).trans s12
          | ok g =>
            simp only
            have s3 : StepK m m3 := s12.trans tg.1
            have hc3 : m3.ctx = true := by rw [s3.frame.ctx]; exact hc
            have t4 := ite_nested_totE m3 s3.inv hc3 g q p
            generalize ite g q p m3 = res4 at t4 ⊢
            obtain ⟨r4, m4⟩ := res4
            cases r4 with
            | error e => exact (t4.err_of rfl).trans s3
            | ok r =>
              simp only
              have s4 : StepK m m4 := s3.trans t4.1
              split
              · exact TotE.err s4 _ (by simp)
              · exact TotE.ok s4 _
        cases jnew with
        | name nm => exact fin _ (findOrAddNonInt_totE m2 hI2)
        | lvl i => exact fin _ (findOrAddI_totE m2 hI2 i)

/-- rename the target, conjoin, quantify: ANY arguments -/
theorem preimageFallback_totE (t s : Int) (rn : List (Key × Key)) (q : List Nat) (fa : Bool)
    (m : Mgr) (hI : Inv m) (hc : m.ctx = true) : TotE m (preimageFallback t s rn q fa m) := by
  unfold preimageFallback
  have t1 := copyBddK_totE (preimageLevelMap m.nvars rn) (m.nvars + 2) s {} m hI hc
  generalize copyBddK (preimageLevelMap m.nvars rn) (m.nvars + 2) s {} m = res1 at t1 ⊢
  obtain ⟨r1, m1⟩ := res1
  cases r1 with
  | error e => exact t1.err_of rfl
  | ok rc =>
    obtain ⟨r, c⟩ := rc
    simp only
    have s1 : StepK m m1 := t1.1
    have hc1 : m1.ctx = true := by rw [s1.frame.ctx]; exact hc
    have t2 := ite_nested_totE m1 s1.inv hc1 t r (-1)
    generalize ite t r (-1) m1 = res2 at t2 ⊢
    obtain ⟨r2, m2⟩ := res2
    cases r2 with
    | error e => exact (t2.err_of rfl).trans s1
    | ok r2 =>
      simp only
      have s2 : StepK m m2 := s1.trans t2.1
      have hc2 : m2.ctx = true := by rw [s2.frame.ctx]; exact hc
      exact (quantify_nested_totE m2 s2.inv hc2 r2 _ fa).trans s2

/-- the body `_preimage_of` for ANY arguments: the fused traversal or the fallback -/
theorem preimageBody_totE (t s : Int) (rn : List (Key × Key)) (q : List Key) (fa : Bool)
    (m : Mgr) (hI : Inv m) (hc : m.ctx = true) : TotE m (preimageBody t s rn q fa m) := by
  have base : ∀ (r : Except Err Int), r ≠ .error .needsReordering →
      TotE m ((r, m) : Except Err Int × Mgr) := fun r hr => TotE.same hI r hr
  unfold preimageBody
  cases hq : mapToLevelE m.tbl q with
  | error e => exact base _ (fun h => mapToLevelE_noNR m.tbl q (by rw [hq]; simpa using h))
  | ok lv =>
    simp only
    obtain ⟨ha, hn⟩ := assertValidRename_read (resolveRename m.tbl rn) m
    generalize assertValidRename (resolveRename m.tbl rn) m = r1 at ha hn
    obtain ⟨x1, m1⟩ := r1
    simp only at ha
    subst ha
    cases x1 with
    | error e => exact base _ (by simpa using hn)
    | ok _ =>
      simp only
      split
      · next e heq =>
        refine base _ (fun h => ?_)
        simp only [Except.error.injEq] at h
        subst h
        unfold preimageFused at heq
        split at heq
        · cases heq
        split at heq
        · cases heq
        split at heq
        · next e' hs =>
          simp only [Except.error.injEq] at heq
          subst heq
          exact supportLevels_noNR _ _ hs
        · cases heq
      split
      · have tt := imageF_totE none (some (intPairs (resolveRename m1.tbl rn))) []
          (badKeys (resolveRename m1.tbl rn)) lv fa (2 * m1.nvars + 4) t s {} m1 hI hc
        generalize imageF none (some (intPairs (resolveRename m1.tbl rn))) []
          (badKeys (resolveRename m1.tbl rn)) lv fa (2 * m1.nvars + 4) t s {} m1 = res at tt ⊢
        obtain ⟨r, m2⟩ := res
        cases r with
        | error e =>
          simp only
          refine ⟨tt.1, fun he => tt.2 ?_⟩
          by_cases hf : e = .fuel
          · simp [hf] at he
          · simpa [hf] using he
        | ok rc => simp only; exact TotE.ok tt.1 _
      · exact preimageFallback_totE t s _ lv fa m1 hI hc

/-! ### the public functions -/

theorem qvarsByName_noNR (t : Tbl) (q : List Key) : qvarsByName t q ≠ .error .needsReordering := by
  unfold qvarsByName
  split
  · next e heq => intro h; cases h; exact mapToLevelE_noNR t q heq
  · exact mapME_noNR _ (fun j => by split <;> simp) _

/-- `image(trans, source, rename, qvars, bdd, forall)`, ARBITRARY arguments, reordering possibly
enabled: returns or raises — never the internal signal — and leaves `DynKept` -/
theorem image_total_dyn (ext : Nat → Nat) (hS : SiftContract ext) (m : Mgr) (hD : DynInv ext m)
    (t s : Int) (rn : List (Key × Key)) (q : List Key) (fa : Bool) :
    DynTotal ext m (image t s rn q fa m) := by
  unfold image
  cases hq : qvarsByName m.tbl q with
  | error e =>
    exact DynTotal.same hD _ (fun h => qvarsByName_noNR m.tbl q (by rw [hq]; simpa using h))
  | ok qn =>
    exact tryToReorder_total_dyn ext hS _
      (fun m0 hI hc _ => imageBody_totE t s _ qn fa m0 hI hc) m hD

/-- `preimage(trans, target, rename, qvars, bdd, forall)`, ARBITRARY arguments -/
theorem preimage_total_dyn (ext : Nat → Nat) (hS : SiftContract ext) (m : Mgr) (hD : DynInv ext m)
    (t s : Int) (rn : List (Key × Key)) (q : List Key) (fa : Bool) :
    DynTotal ext m (preimage t s rn q fa m) := by
  unfold preimage
  cases hq : qvarsByName m.tbl q with
  | error e =>
    exact DynTotal.same hD _ (fun h => qvarsByName_noNR m.tbl q (by rw [hq]; simpa using h))
  | ok qn =>
    exact tryToReorder_total_dyn ext hS _
      (fun m0 hI hc _ => preimageBody_totE t s _ qn fa m0 hI hc) m hD

end DD
