/-
  DDProofs.SwapLevelsDrivers — the callers of `swap` with the dict of level sets threaded
  (DD.OrderLevels: `swapL`, `shiftL`, `reorderVarL`, `applySiftingL`, `sortToOrderL`, `reorderL`,
  `reorderToPairsL`) do what the recomputing functions of DD.Order do.

  `SimL ext a b` (DDProofs.SwapLevelsEq): the threaded computation `a` returns what `b` returns —
  same result, same state, same exception — and on success the dict it hands back holds exactly
  the level sets of the final state (`LevelsOK`), the state satisfying the reordering invariant.
  The invariant `LevelsOK` is established by `levels = bdd._levels()` (`levelSets_ok`), kept by
  every `swap` (`swapBodyL_sim`), hence by every loop over swaps.
-/
import DDProofs.SwapLevelsEq
open Std

namespace DD

/-! ### composing agreements -/

theorem SimL.bind {α β} {ext : Nat → Nat} {a : M (α × LevelSets)} {b : M α}
    {fa : α × LevelSets → M (β × LevelSets)} {fb : α → M β} {m : Mgr}
    (h : SimL ext (a m) (b m))
    (hf : ∀ r al' m', ReorderInv ext m' → LevelsOK al' m' → SimL ext (fa (r, al') m') (fb r m')) :
    SimL ext ((a >>= fa) m) ((b >>= fb) m) := by
  rw [M.bind_eq, M.bind_eq]
  generalize b m = rb at h
  obtain ⟨rb, mb⟩ := rb
  cases rb with
  | ok r =>
    obtain ⟨al', ha, hR, hal⟩ := h
    rw [ha]
    exact hf r al' mb hR hal
  | error e =>
    have ha : a m = (.error e, mb) := h
    rw [ha]
    exact rfl

/-- a step common to both sides -/
theorem SimL.bind_same {γ β} {ext : Nat → Nat} (c : M γ) {fa : γ → M (β × LevelSets)}
    {fb : γ → M β} {m : Mgr}
    (hf : ∀ r m', c m = (.ok r, m') → SimL ext (fa r m') (fb r m')) :
    SimL ext ((c >>= fa) m) ((c >>= fb) m) := by
  rw [M.bind_eq, M.bind_eq]
  generalize hc : c m = rc at hf
  obtain ⟨rc, mc⟩ := rc
  cases rc with
  | ok r => exact hf r mc rfl
  | error e => exact rfl

theorem SimL.pure {α} {ext : Nat → Nat} (r : α) (al : LevelSets) (m : Mgr) (h : ReorderInv ext m)
    (hal : LevelsOK al m) : SimL ext ((pure (r, al) : M (α × LevelSets)) m) ((pure r : M α) m) :=
  ⟨al, rfl, h, hal⟩

theorem SimL.throw {α} {ext : Nat → Nat} (e : Err) (m : Mgr) :
    SimL ext ((M.throw e : M (α × LevelSets)) m) ((M.throw e : M α) m) := rfl

theorem SimL.of_eq {α} {ext : Nat → Nat} {a a' : Except Err (α × LevelSets) × Mgr}
    {b b' : Except Err α × Mgr} (h : SimL ext a b) (ea : a' = a) (eb : b' = b) : SimL ext a' b' := by
  rw [ea, eb]; exact h

/-- dropping the dict: a continuation that does not use it runs alike on both sides -/
theorem SimL.drop {α γ} {ext : Nat → Nat} {a : M (α × LevelSets)} {b : M α} {m : Mgr}
    (h : SimL ext (a m) (b m)) (k : α → M γ) : (a >>= fun p => k p.1) m = (b >>= k) m := by
  rw [M.bind_eq, M.bind_eq]
  generalize b m = rb at h
  obtain ⟨rb, mb⟩ := rb
  cases rb with
  | ok r =>
    obtain ⟨al', ha, _, _⟩ := h
    rw [ha]
  | error e =>
    have ha : a m = (.error e, mb) := h
    rw [ha]

/-! ### the public `swap` -/

theorem resolveVL_state (a : VarOrLevel) (m : Mgr) : (resolveVL a m).2 = m := by
  unfold resolveVL
  cases a with
  | name s =>
    simp only [M.bind_eq, M.get_eq]
    cases m.tbl.vars[s]? with
    | none => rfl
    | some l => rfl
  | level i => rfl

/-- normal form of `swap … all_levels` with a dict given: an argument error of the public entry
point (the same for the threaded version, whatever the dict), or the body on two adjacent levels -/
theorem swap_given_normal_form (xa ya : VarOrLevel) (m : Mgr) :
    (∃ e, swap xa ya true m = (.error e, m) ∧ ∀ al, swapL xa ya (some al) m = (.error e, m)) ∨
    (∃ x, x + 1 < m.nvars ∧ swap xa ya true m = swapBody x (x + 1) m ∧
      ∀ al, swapL xa ya (some al) m = swapBodyL al x (x + 1) m) := by
  unfold swap swapL
  simp only [Bool.not_true, Bool.false_eq_true, if_false, M.bind_eq, M.pure_eq, M.get_eq]
  have hs1 := resolveVL_state xa m
  generalize resolveVL xa m = r1 at hs1
  obtain ⟨r1, m1⟩ := r1
  simp only at hs1
  subst hs1
  cases r1 with
  | error e => exact Or.inl ⟨e, rfl, fun _ => rfl⟩
  | ok x =>
    simp only
    have hs2 := resolveVL_state ya m1
    generalize resolveVL ya m1 = r2 at hs2
    obtain ⟨r2, m2⟩ := r2
    simp only at hs2
    subst hs2
    cases r2 with
    | error e => exact Or.inl ⟨e, rfl, fun _ => rfl⟩
    | ok y =>
      simp only
      by_cases h1 : (decide (0 ≤ x) && decide (x < (m2.nvars : Int))) = true
      · by_cases h2 : (decide (0 ≤ y) && decide (y < (m2.nvars : Int))) = true
        · simp only [h1, h2, Bool.not_true, Bool.false_eq_true, if_false]
          by_cases h3 : (if x > y then y else x) ≥ (if x > y then x else y)
          · simp only [if_pos h3]
            exact Or.inl ⟨_, rfl, fun _ => rfl⟩
          · simp only [if_neg h3]
            by_cases h4 : (if x > y then x else y) - (if x > y then y else x) ≠ 1
            · simp only [if_pos h4]
              exact Or.inl ⟨_, rfl, fun _ => rfl⟩
            · simp only [if_neg h4]
              simp only [Bool.and_eq_true, decide_eq_true_eq] at h1 h2
              refine Or.inr ⟨(if x > y then y else x).toNat, ?_, ?_, fun al => ?_⟩
              · split at h4 <;> split <;> omega
              · have : (if x > y then x else y).toNat = (if x > y then y else x).toNat + 1 := by
                  split at h4 <;> split <;> omega
                rw [this]
              · have : (if x > y then x else y).toNat = (if x > y then y else x).toNat + 1 := by
                  split at h4 <;> split <;> omega
                rw [this]
        · simp only [h1, h2, Bool.not_true, Bool.false_eq_true, if_false, Bool.not_false, if_true]
          exact Or.inl ⟨_, rfl, fun _ => rfl⟩
      · simp only [h1, Bool.not_false, if_true]
        exact Or.inl ⟨_, rfl, fun _ => rfl⟩

/-- `swap(x, y, all_levels)` with the caller's dict: ANY arguments -/
theorem swapL_some_sim (ext : Nat → Nat) (m : Mgr) (h : ReorderInv ext m) (xa ya : VarOrLevel)
    (al : LevelSets) (hal : LevelsOK al m) :
    SimL ext (swapL xa ya (some al) m) (swap xa ya true m) := by
  rcases swap_given_normal_form xa ya m with ⟨e, h1, h2⟩ | ⟨x, hx, h1, h2⟩
  · rw [h1, h2 al]; exact rfl
  · rw [h1, h2 al]; exact swapBodyL_sim ext m h x hx al hal

/-- `swap(x, y)` with `all_levels is None`: full collection, `all_levels = self._levels()` -/
theorem swapL_none_sim (ext : Nat → Nat) (m : Mgr) (h : ReorderInv ext m) (xa ya : VarOrLevel) :
    SimL ext (swapL xa ya none m) (swap xa ya false m) := by
  obtain ⟨mg, hrun, hp⟩ := collectGarbage_spec m ext h.inv h.refExact
  obtain ⟨hg, _⟩ := gcSub_keeps h hp.inv hp.refExact hp.sub
  have e1 : swap xa ya false m = swap xa ya true mg := by
    unfold swap
    simp only [Bool.not_false, if_true, Bool.not_true, Bool.false_eq_true, if_false]
    rw [M.bind_ok hrun]
  have e2 : swapL xa ya none m = swapL xa ya (some (levelSets mg)) mg := by
    unfold swapL
    simp only
    rw [M.bind_eq, M.bind_eq, hrun]
    rfl
  rw [e1, e2]
  exact swapL_some_sim ext mg hg xa ya _ (levelSets_ok mg hg.order)

/-! ### `_shift` -/

theorem shiftLoopL_sim (ext : Nat → Nat) : ∀ (f : Nat) (i e d : Int) (sizes : List (Nat × Nat))
    (al : LevelSets) (m : Mgr), ReorderInv ext m → LevelsOK al m →
    SimL ext (shiftLoopL f i e d sizes al m) (shiftLoop f i e d sizes m) := by
  intro f
  induction f with
  | zero =>
    intro i e d sizes al m h hal
    unfold shiftLoopL shiftLoop
    split
    · exact SimL.pure sizes al m h hal
    · exact rfl
  | succ f ih =>
    intro i e d sizes al m h hal
    unfold shiftLoopL shiftLoop
    split
    · exact SimL.pure sizes al m h hal
    · refine SimL.bind (swapL_some_sim ext m h _ _ al hal) ?_
      rintro ⟨oldn, n⟩ al' m' h' hal'
      exact ih _ _ _ _ al' m' h' hal'

theorem shiftL_sim (ext : Nat → Nat) (m : Mgr) (h : ReorderInv ext m) (s e : Nat) (al : LevelSets)
    (hal : LevelsOK al m) : SimL ext (shiftL s e al m) (shift s e m) := by
  unfold shiftL shift
  refine SimL.bind_same M.get (fun m0 m1 h0 => ?_)
  obtain ⟨rfl, rfl⟩ := M.get_ok_inv h0
  refine SimL.bind_same _ (fun _ m1 h1 => ?_)
  obtain ⟨_, rfl⟩ := M.assert_ok_inv h1
  refine SimL.bind_same _ (fun _ m1 h1 => ?_)
  obtain ⟨_, rfl⟩ := M.assert_ok_inv h1
  exact shiftLoopL_sim ext _ _ _ _ _ al _ h hal

/-! ### sifting -/

theorem levelOfVar_state {v : String} {m m' : Mgr} {l : Nat} (h : levelOfVar v m = (.ok l, m')) :
    m' = m := by
  unfold levelOfVar at h
  rw [M.bind_ok (M.get_eq m)] at h
  exact (M.ofOption_ok_inv h).2.symm

theorem reorderVarL_sim (ext : Nat → Nat) (m : Mgr) (h : ReorderInv ext m) (var : String)
    (al : LevelSets) (hal : LevelsOK al m) :
    SimL ext (reorderVarL var al m) (reorderVar var m) := by
  unfold reorderVarL reorderVar
  refine SimL.bind_same M.get (fun m0 m1 h0 => ?_)
  obtain ⟨rfl, rfl⟩ := M.get_ok_inv h0
  split
  · exact rfl
  refine SimL.bind_same _ (fun _ m1 h1 => ?_)
  obtain ⟨_, rfl⟩ := M.assert_ok_inv h1
  refine SimL.bind_same _ (fun level m1 h1 => ?_)
  have := levelOfVar_state h1; subst this
  refine SimL.bind (shiftL_sim ext _ h _ _ al hal) ?_
  rintro _ al1 m1 h1' hal1
  refine SimL.bind (shiftL_sim ext m1 h1' _ _ al1 hal1) ?_
  rintro sizes al2 m2 h2' hal2
  refine SimL.bind_same _ (fun k m3 h3 => ?_)
  have := (M.ofOption_ok_inv h3).2; subst this
  refine SimL.bind (shiftL_sim ext m2 h2' _ _ al2 hal2) ?_
  rintro _ al3 m3 h3' hal3
  refine SimL.bind_same M.get (fun m4 m5 h4 => ?_)
  obtain ⟨rfl, rfl⟩ := M.get_ok_inv h4
  refine SimL.bind_same _ (fun _ m5 h5 => ?_)
  obtain ⟨_, rfl⟩ := M.assert_ok_inv h5
  refine SimL.bind_same _ (fun _ m5 h5 => ?_)
  obtain ⟨_, rfl⟩ := M.assert_ok_inv h5
  exact SimL.pure k al3 _ h3' hal3

theorem siftVarsL_sim (ext : Nat → Nat) : ∀ (names : List String) (al : LevelSets) (m : Mgr),
    ReorderInv ext m → LevelsOK al m → SimL ext (siftVarsL names al m) (siftVars names m) := by
  intro names
  induction names with
  | nil => intro al m h hal; exact SimL.pure () al m h hal
  | cons v rest ih =>
    intro al m h hal
    unfold siftVarsL siftVars
    refine SimL.bind (reorderVarL_sim ext m h v al hal) ?_
    rintro _ al' m' h' hal'
    exact ih al' m' h' hal'

/-- a step that keeps `ReorderInv`: setting the schedule -/
theorem ReorderInv.setSched' {ext : Nat → Nat} {m : Mgr} (h : ReorderInv ext m) (s : List SchedItem) :
    ReorderInv ext { m with sched := s } :=
  ⟨h.inv.setSched s, h.order, h.refExact.congr rfl rfl, h.off, h.rootsHeld⟩

theorem LevelsOK.setSched {al : LevelSets} {m : Mgr} (h : LevelsOK al m) (s : List SchedItem) :
    LevelsOK al { m with sched := s } := h

/-- **`_apply_sifting` with `levels` computed once and patched by the swaps is `_apply_sifting`
with the level sets recomputed at every swap** -/
theorem applySiftingL_eq (ext : Nat → Nat) (m : Mgr) (h : ReorderInv ext m) :
    applySiftingL m = applySifting m := by
  obtain ⟨mg, hrun, hp⟩ := collectGarbage_spec m ext h.inv h.refExact
  obtain ⟨hg, _⟩ := gcSub_keeps h hp.inv hp.refExact hp.sub
  unfold applySiftingL applySifting
  rw [M.bind_ok hrun, M.bind_ok hrun, M.bind_ok (M.get_eq mg), M.bind_ok (M.get_eq mg),
    M.bind_eq, M.bind_eq]
  generalize hts : takeSiftOrder mg = rt
  obtain ⟨rt, mt⟩ := rt
  cases rt with
  | error e => rfl
  | ok names =>
    simp only
    obtain ⟨s, rfl, _⟩ := takeSiftOrder_inv hts
    split
    · rfl
    · exact SimL.drop (siftVarsL_sim ext names (levelSets mg) _ (hg.setSched' s)
        ((levelSets_ok mg hg.order).setSched s)) (fun _ => do
          let m ← M.get
          M.assert (m.len ≤ mg.len))

/-! ### `_sort_to_order`, `reorder` -/

theorem checkRoots_state {m m' : Mgr} {u : Unit} (h : checkRoots m = (.ok u, m')) : m' = m := by
  unfold checkRoots at h
  rw [M.bind_ok (M.get_eq m)] at h
  have : ∀ (l : List Int) (m1 m2 : Mgr) (u : Unit), checkRootsL m l m1 = (.ok u, m2) → m2 = m1 := by
    intro l
    induction l with
    | nil => intro m1 m2 u h; cases h; rfl
    | cons r rest ih =>
      intro m1 m2 u h
      unfold checkRootsL at h
      split at h
      · cases h
      · exact ih m1 m2 u h
  exact this _ _ _ _ h

theorem varAtLevel_state {i : Int} {m m' : Mgr} {v : String} (h : varAtLevel i m = (.ok v, m')) :
    m' = m := by
  unfold varAtLevel at h
  rw [M.bind_ok (M.get_eq m)] at h
  split at h
  · cases h
  · exact (M.ofOption_ok_inv h).2.symm

theorem sortStepL_sim (ext : Nat → Nat) (m : Mgr) (h : ReorderInv ext m) (order : List (String × Int))
    (i : Nat) (al : LevelSets) (hal : LevelsOK al m) :
    SimL ext (sortStepL order i al m) (sortStep order i m) := by
  unfold sortStepL sortStep
  refine SimL.bind_same _ (fun _ m1 h1 => ?_)
  have := checkRoots_state h1; subst this
  refine SimL.bind_same _ (fun x m1 h1 => ?_)
  have := varAtLevel_state h1; subst this
  refine SimL.bind_same _ (fun y m1 h1 => ?_)
  have := varAtLevel_state h1; subst this
  refine SimL.bind_same _ (fun p m1 h1 => ?_)
  have := (M.ofOption_ok_inv h1).2; subst this
  refine SimL.bind_same _ (fun q m1 h1 => ?_)
  have := (M.ofOption_ok_inv h1).2; subst this
  split
  · refine SimL.bind (swapL_some_sim ext _ h _ _ al hal) ?_
    rintro _ al' m' h' hal'
    exact SimL.pure () al' m' h' hal'
  · exact SimL.pure () al _ h hal

theorem sortInnerL_sim (ext : Nat → Nat) (order : List (String × Int)) : ∀ (l : List Nat)
    (al : LevelSets) (m : Mgr), ReorderInv ext m → LevelsOK al m →
    SimL ext (sortInnerL order l al m) (sortInner order l m) := by
  intro l
  induction l with
  | nil => intro al m h hal; exact SimL.pure () al m h hal
  | cons i rest ih =>
    intro al m h hal
    unfold sortInnerL sortInner
    refine SimL.bind (sortStepL_sim ext m h order i al hal) ?_
    rintro _ al' m' h' hal'
    exact ih al' m' h' hal'

theorem sortOuterL_sim (ext : Nat → Nat) (order : List (String × Int)) (n : Nat) : ∀ (k : Nat)
    (al : LevelSets) (m : Mgr), ReorderInv ext m → LevelsOK al m →
    SimL ext (sortOuterL order n k al m) (sortOuter order n k m) := by
  intro k
  induction k with
  | zero => intro al m h hal; exact SimL.pure () al m h hal
  | succ k ih =>
    intro al m h hal
    unfold sortOuterL sortOuter
    refine SimL.bind (sortInnerL_sim ext order _ al m h hal) ?_
    rintro _ al' m' h' hal'
    exact ih al' m' h' hal'

/-- **`_sort_to_order` with `levels` computed once is `_sort_to_order` with the level sets
recomputed at every swap** -/
theorem sortToOrderL_eq (ext : Nat → Nat) (m : Mgr) (h : ReorderInv ext m)
    (order : List (String × Int)) : sortToOrderL order m = sortToOrder order m := by
  unfold sortToOrderL sortToOrder
  rw [M.bind_ok (M.get_eq m), M.bind_ok (M.get_eq m)]
  split
  · rfl
  · have := SimL.drop (sortOuterL_sim ext order order.length order.length (levelSets m) m h
      (levelSets_ok m h.order)) (fun _ => (pure () : M Unit))
    refine Eq.trans this ?_
    rw [M.bind_eq]
    generalize sortOuter order order.length order.length m = r
    obtain ⟨r, m'⟩ := r
    cases r <;> rfl

/-- **`reorder(bdd, order)` / `reorder(bdd)`** -/
theorem reorderL_eq (ext : Nat → Nat) (m : Mgr) (h : ReorderInv ext m)
    (order : Option (List (String × Int))) : reorderL order m = reorder order m := by
  cases order with
  | none => exact applySiftingL_eq ext m h
  | some o => exact sortToOrderL_eq ext m h o

/-! ### `reorder_to_pairs` -/

theorem pairStepL_sim (ext : Nat → Nat) (m : Mgr) (h : ReorderInv ext m) (x y : String)
    (al : LevelSets) (hal : LevelsOK al m) : SimL ext (pairStepL x y al m) (pairStep x y m) := by
  unfold pairStepL pairStep
  refine SimL.bind_same _ (fun jx m1 h1 => ?_)
  have := levelOfVar_state h1; subst this
  refine SimL.bind_same _ (fun jy m1 h1 => ?_)
  have := levelOfVar_state h1; subst this
  simp only
  generalize (if jx ≤ jy then jy - jx else jx - jy) = k
  refine SimL.bind_same _ (fun _ m1 h1 => ?_)
  obtain ⟨_, rfl⟩ := M.assert_ok_inv h1
  by_cases hk : k ≠ 1
  · simp only [if_pos hk]
    by_cases hgt : jx > jy
    · simp only [if_pos hgt]
      refine SimL.bind (shiftL_sim ext _ h _ _ al hal) ?_
      rintro _ al' m' h' hal'
      exact SimL.pure () al' m' h' hal'
    · simp only [if_neg hgt]
      refine SimL.bind (shiftL_sim ext _ h _ _ al hal) ?_
      rintro _ al' m' h' hal'
      exact SimL.pure () al' m' h' hal'
  · simp only [if_neg hk]
    exact SimL.pure () al _ h hal

theorem pairsLoopL_sim (ext : Nat → Nat) : ∀ (pairs : List (String × String)) (al : LevelSets)
    (m : Mgr), ReorderInv ext m → LevelsOK al m →
    SimL ext (pairsLoopL pairs al m) (reorderToPairs pairs m) := by
  intro pairs
  induction pairs with
  | nil => intro al m h hal; exact SimL.pure () al m h hal
  | cons p rest ih =>
    intro al m h hal
    obtain ⟨x, y⟩ := p
    unfold pairsLoopL reorderToPairs
    refine SimL.bind (pairStepL_sim ext m h x y al hal) ?_
    rintro _ al' m' h' hal'
    exact ih al' m' h' hal'

/-- **`reorder_to_pairs` with `levels` computed once** -/
theorem reorderToPairsL_eq (ext : Nat → Nat) (m : Mgr) (h : ReorderInv ext m)
    (pairs : List (String × String)) : reorderToPairsL pairs m = reorderToPairs pairs m := by
  unfold reorderToPairsL
  rw [M.bind_ok (M.get_eq m)]
  have := SimL.drop (pairsLoopL_sim ext pairs (levelSets m) m h (levelSets_ok m h.order))
    (fun _ => (pure () : M Unit))
  refine Eq.trans this ?_
  rw [M.bind_eq]
  generalize reorderToPairs pairs m = r
  obtain ⟨r, m'⟩ := r
  cases r <;> rfl

end DD
