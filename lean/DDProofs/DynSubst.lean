/-
  DDProofs.DynSubst — abort-aware specifications of `_compose`, `_vector_compose` and
  `_copy_bdd`: inside a reordering context (or with requests disabled) each recursion returns its
  documented result or is aborted by a reordering request (from `find_or_add` or re-raised by the
  nested decorated `ite`), having only added nodes.  The `lastLen = none` specifications
  (`composeF_spec`, `vectorComposeF_spec`, `copyBddF_spec`) are the corollaries `*_spec_off'`.
-/
import DDProofs.DynQuantify
open Std

namespace DD

/-! ### `_compose` -/

theorem composeF_out (j : Nat) :
    ∀ (fu : Nat) (m : Mgr) (f g : Int) (cache : HashMap (Int × Int) Int),
    Inv m → Quiet m → m.tbl.Mem f → m.tbl.Mem g → KMemo j m.tbl cache →
    2 * m.nvars + 1 ≤ fu + m.tbl.levelOf f + m.tbl.levelOf g →
    Outcome2 m (fun r c m' => KMemo j m'.tbl c ∧ KPost j m'.tbl f g r)
      (composeF j fu f g cache m) := by
  intro fu
  induction fu with
  | zero =>
    intro m f g cache hI _ hf hg _ hfu
    have := levelOf_le m.tbl hI.wf.toWF f
    have := levelOf_le m.tbl hI.wf.toWF g
    have : m.nvars = m.tbl.nvars := rfl
    omega
  | succ fu ih =>
    intro m f g cache hI hq hf hg hmemo hfu
    have hW := hI.wf.toWF
    have hnv : m.nvars = m.tbl.nvars := rfl
    unfold composeF
    by_cases h1 : f.natAbs = 1
    · simp only [h1, if_true]
      exact Outcome2.ok (StepK.refl hI) ⟨hmemo, hf, hg, hf, Nat.min_le_left _ _,
        fun a => den_term_any _ f h1 _ _⟩
    · simp only [h1, if_false]
      cases hc : cache[(f, g)]? with
      | some r => exact Outcome2.ok (StepK.refl hI) ⟨hmemo, hmemo f g r hc⟩
      | none =>
        simp only
        obtain ⟨n, hn⟩ := mem_node hf h1
        have hn' : m.tbl.succ[f.natAbs]? = some n := hn
        rw [hn']
        simp only [node_succ_ne_zero hW hn, if_false]
        have hlf := levelOf_node m.tbl f n h1 hn
        have hlo := hW.lo_lt _ _ hn
        have hhi := hW.hi_lt _ _ hn
        have hlom := hW.lo_mem _ _ hn
        have hhim := hW.hi_mem _ _ hn
        have hltn := hW.lvl_lt _ _ hn
        by_cases hjlt : j < n.lvl
        · simp only [hjlt, if_true]
          refine Outcome2.ok (StepK.refl hI) ⟨hmemo, hf, hg, hf, Nat.min_le_left _ _, ?_⟩
          intro a
          exact (den_indep' m.tbl hW f hf j _ a (by omega)).symm
        · simp only [hjlt, if_false]
          by_cases hjeq : n.lvl = j
          · simp only [hjeq, if_true]
            rcases (ite_nested_spec m hI hq g n.hi n.lo hg hhim hlom).cases with
              ⟨r0, m1, he1, hs1, hp1⟩ | ⟨m1, he1, hs1, ha1⟩
            rotate_left
            · rw [he1]; exact Outcome2.abort0 hs1 ha1
            rw [he1]
            simp only
            have hW1 := hp1.inv.wf.toWF
            have hn1 : m1.tbl.node? f.natAbs = some n := hs1.ext.nodes _ _ hn
            have hent : KPost j m1.tbl f g (if f < 0 then -r0 else r0) := by
              refine ⟨hs1.ext.mem hf, hs1.ext.mem hg, mem_flip f hp1.mem, ?_, ?_⟩
              · rw [levelOf_flip, hs1.ext.levelOf hf, hs1.ext.levelOf hg, hlf]
                have := hp1.lvl
                omega
              · intro a
                rw [den_flip m1.tbl hW1 r0 f a hp1.mem, hp1.den a,
                  den_node m1.tbl hW1 f n _ h1 hn1, hjeq, upd_same,
                  den_ext hs1.ext hW g a hg, den_ext hs1.ext hW n.hi _ hhim,
                  den_ext hs1.ext hW n.lo _ hlom,
                  den_indep' m.tbl hW n.hi hhim j _ a (by omega),
                  den_indep' m.tbl hW n.lo hlom j _ a (by omega)]
            exact Outcome2.ok hs1 ⟨(hmemo.ext hW hs1.ext).insert hent, hent⟩
          · simp only [hjeq, if_false]
            have hnj : n.lvl < j := by omega
            rw [Tbl.levelOf?_eq _ _ hg]
            simp only
            generalize hz : min n.lvl (m.tbl.levelOf g) = z
            have hzf : z ≤ m.tbl.levelOf f := by omega
            have hzg : z ≤ m.tbl.levelOf g := by omega
            have hzn : z < m.tbl.nvars := by omega
            obtain ⟨f0, f1, hcf, mf0, mf1, lf0, lf1, df⟩ := topCofactor_spec m.tbl hW f hf z hzf hzn
            obtain ⟨g0, g1, hcg, mg0, mg1, lg0, lg1, dg⟩ := topCofactor_spec m.tbl hW g hg z hzg hzn
            obtain ⟨lf0', lf1'⟩ := topCofactor_lvl m.tbl hW f z f0 f1 hcf
            obtain ⟨lg0', lg1'⟩ := topCofactor_lvl m.tbl hW g z g0 g1 hcg
            rw [hcf, hcg]
            simp only
            rcases (ih m f0 g0 cache hI hq mf0 mg0 hmemo (by omega)).cases with
              ⟨p, c1, m1, he1, hs1, hm1, hp1⟩ | ⟨m1, he1, hs1, ha1⟩
            rotate_left
            · rw [he1]; exact Outcome2.abort0 hs1 ha1
            rw [he1]
            simp only
            have hW1 := hs1.inv.wf.toWF
            rcases (ih m1 f1 g1 c1 hs1.inv (hq.step hs1)
              (hs1.ext.mem mf1) (hs1.ext.mem mg1) hm1
              (by rw [hs1.nvars, hs1.ext.levelOf mf1, hs1.ext.levelOf mg1]; omega)).cases with
              ⟨q, c2, m2, he2, hs2, hm2, hp2⟩ | ⟨m2, he2, hs2, ha2⟩
            rotate_left
            · rw [he2]; exact Outcome2.abort hs1 hs2 ha2
            rw [he2]
            simp only
            have hW2 := hs2.inv.wf.toWF
            have hs12 := hs1.trans hs2
            have hp1_2 := hp1.ext hW1 hs2.ext
            have hlp : z < m2.tbl.levelOf p := by
              have := hp1_2.lvl
              rw [hs12.ext.levelOf mf0, hs12.ext.levelOf mg0] at this
              omega
            have hlq : z < m2.tbl.levelOf q := by
              have := hp2.lvl
              rw [hs12.ext.levelOf mf1, hs12.ext.levelOf mg1] at this
              omega
            rcases (findOrAdd_out m2 hs2.inv z p q
              (by rw [hs12.nvars]; exact hzn) hp1_2.mr hp2.mr hlp hlq).cases with
              ⟨r, m3, he3, hk3, hp3⟩ | ⟨m3, he3, hk3, ha3⟩
            rotate_left
            · rw [he3]; exact Outcome2.abort hs12 hk3 ha3
            rw [he3]
            simp only
            have hs3 := hs12.trans hk3
            have hW3 := hp3.inv.wf.toWF
            have hp1_3 := hp1_2.ext hW2 hp3.ext
            have hp2_3 := hp2.ext hW2 hp3.ext
            have hzj : z ≠ j := by omega
            have hent : KPost j m3.tbl f g r := by
              refine ⟨hs3.ext.mem hf, hs3.ext.mem hg, hp3.mem, ?_, ?_⟩
              · rw [hs3.ext.levelOf hf, hs3.ext.levelOf hg]
                have := hp3.lvl
                omega
              · intro a
                rw [hp3.den a, ← den_ext hp3.ext hW2 q a hp2.mr,
                  ← den_ext hp3.ext hW2 p a hp1_2.mr, hp1_3.den a, hp2_3.den a,
                  den_ext hs3.ext hW f _ hf, den_ext hs3.ext hW g a hg,
                  den_ext hs3.ext hW f1 _ mf1, den_ext hs3.ext hW g1 a mg1,
                  den_ext hs3.ext hW f0 _ mf0, den_ext hs3.ext hW g0 a mg0,
                  df, dg a, upd_other _ _ _ _ hzj]
                cases a z <;> simp
            exact Outcome2.ok hs3 ⟨(hm2.ext hW2 hp3.ext).insert hent, hent⟩

theorem composeF_spec_off' (j : Nat) (fu : Nat) (m : Mgr) (f g : Int)
    (cache : HashMap (Int × Int) Int) (hI : Inv m) (hoff : m.lastLen = none)
    (hf : m.tbl.Mem f) (hg : m.tbl.Mem g) (hmemo : KMemo j m.tbl cache)
    (hfu : 2 * m.nvars + 1 ≤ fu + m.tbl.levelOf f + m.tbl.levelOf g) :
    ∃ r c' m', composeF j fu f g cache m = (.ok (r, c'), m') ∧ Step m m' ∧
      KMemo j m'.tbl c' ∧ KPost j m'.tbl f g r := by
  obtain ⟨r, c', m', he, hs, hm, hp⟩ :=
    (composeF_out j fu m f g cache hI (Or.inr hoff) hf hg hmemo hfu).off hoff
  exact ⟨r, c', m', he, hs.step, hm, hp⟩

/-! ### `_vector_compose` -/

/-- `level_sub.get(i)` or the variable's own node -/
theorem subOrVar_out (m : Mgr) (hI : Inv m) (sub : List (Nat × Int))
    (hs : SubMem m.tbl sub) (i : Nat) (hi : i < m.nvars) :
    Outcome m (fun g m' => m'.tbl.Mem g ∧ ∀ a, den m'.tbl g a = vsub m.tbl sub a i)
      (subOrVar sub i m) := by
  unfold subOrVar
  cases hl : sub.lookup i with
  | some g =>
    refine ⟨StepK.refl hI, hs i g hl, ?_⟩
    intro a; simp [vsub, hl]
  | none =>
    refine (varNode_out m hI i hi).mono ?_
    intro g m' _ ⟨hg, _, hd⟩
    refine ⟨hg, ?_⟩
    intro a; rw [hd a]; simp [vsub, hl]

theorem vectorComposeF_out (sub : List (Nat × Int)) :
    ∀ (fu : Nat) (m : Mgr) (f : Int) (cache : HashMap Nat Int),
    Inv m → Quiet m → m.tbl.Mem f → SubMem m.tbl sub → VMemo sub m.tbl cache →
    m.nvars + 1 ≤ fu + m.tbl.levelOf f →
    Outcome2 m (fun r c m' => VMemo sub m'.tbl c ∧ VPost sub m'.tbl f r)
      (vectorComposeF sub fu f cache m) := by
  intro fu
  induction fu with
  | zero =>
    intro m f cache hI _ hf _ _ hfu
    have := levelOf_le m.tbl hI.wf.toWF f
    have : m.nvars = m.tbl.nvars := rfl
    omega
  | succ fu ih =>
    intro m f cache hI hq hf hsub hmemo hfu
    have hW := hI.wf.toWF
    unfold vectorComposeF
    by_cases h1 : f.natAbs = 1
    · simp only [h1, if_true]
      exact Outcome2.ok (StepK.refl hI) ⟨hmemo, hf, hf, fun a => den_term_any _ f h1 _ _⟩
    · simp only [h1, if_false]
      cases hc : cache[f.natAbs]? with
      | some r =>
        simp only
        have hp := hmemo _ r hc
        have hr0 : r ≠ 0 := mem_ne_zero hW hp.mr
        simp only [hr0, if_false]
        exact Outcome2.ok (StepK.refl hI) ⟨hmemo, hp.flip hW hf⟩
      | none =>
        simp only
        obtain ⟨n, hn⟩ := mem_node hf h1
        have hn' : m.tbl.succ[f.natAbs]? = some n := hn
        rw [hn']
        simp only [node_succ_ne_zero hW hn, if_false]
        have hlu := levelOf_node m.tbl f n h1 hn
        have hlo := hW.lo_lt _ _ hn
        have hhi := hW.hi_lt _ _ hn
        have hltn := hW.lvl_lt _ _ hn
        have hnv : m.nvars = m.tbl.nvars := rfl
        rcases (ih m n.lo cache hI hq (hW.lo_mem _ _ hn) hsub hmemo (by omega)).cases with
          ⟨p, c1, m1, he1, hs1, hm1, hp1⟩ | ⟨m1, he1, hs1, ha1⟩
        rotate_left
        · rw [he1]; exact Outcome2.abort0 hs1 ha1
        rw [he1]
        simp only
        have hW1 := hs1.inv.wf.toWF
        have hsub1 := hsub.ext hs1.ext
        have hhim := hW.hi_mem _ _ hn
        rcases (ih m1 n.hi c1 hs1.inv (hq.step hs1)
          (hs1.ext.mem hhim) hsub1 hm1 (by rw [hs1.nvars, hs1.ext.levelOf hhim]; omega)).cases with
          ⟨q, c2, m2, he2, hs2, hm2, hp2⟩ | ⟨m2, he2, hs2, ha2⟩
        rotate_left
        · rw [he2]; exact Outcome2.abort hs1 hs2 ha2
        rw [he2]
        simp only
        have hW2 := hs2.inv.wf.toWF
        have hs12 := hs1.trans hs2
        have hsub2 := hsub1.ext hs2.ext
        rcases (subOrVar_out m2 hs2.inv sub hsub2
          n.lvl (by rw [hs12.nvars]; exact hltn)).cases with
          ⟨g, m3, he3, hs3, hg3, hd3⟩ | ⟨m3, he3, hs3, ha3⟩
        rotate_left
        · rw [he3]; exact Outcome2.abort hs12 hs3 ha3
        rw [he3]
        simp only
        have hW3 := hs3.inv.wf.toWF
        have hs123 := hs12.trans hs3
        have hsub3 := hsub2.ext hs3.ext
        have hp1_3 := (hp1.ext hW1 hs2.ext hsub1).ext hW2 hs3.ext hsub2
        have hp2_3 := hp2.ext hW2 hs3.ext hsub2
        rcases (ite_nested_spec m3 hs3.inv (hq.step hs123) g q p
          hg3 hp2_3.mr hp1_3.mr).cases with
          ⟨r, m4, he4, hk4, hp4⟩ | ⟨m4, he4, hk4, ha4⟩
        rotate_left
        · rw [he4]; exact Outcome2.abort hs123 hk4 ha4
        rw [he4]
        simp only
        have hs4 := hs123.trans hk4
        have hW4 := hp4.inv.wf.toWF
        have hp1_4 := hp1_3.ext hW3 hp4.ext hsub3
        have hp2_4 := hp2_3.ext hW3 hp4.ext hsub3
        have hn4 : m4.tbl.node? ((f.natAbs : Int)).natAbs = some n := by
          simpa using hs4.ext.nodes _ _ hn
        have hpos : VPost sub m4.tbl (f.natAbs : Int) r := by
          refine ⟨mem_abs (hs4.ext.mem hf), hp4.mem, ?_⟩
          intro a
          rw [hp4.den a, den_node m4.tbl hW4 (f.natAbs : Int) n _ (by simpa using h1) hn4,
            ← den_ext hp4.ext hW3 q a hp2_3.mr, ← den_ext hp4.ext hW3 p a hp1_3.mr,
            hp1_4.den a, hp2_4.den a, hd3 a,
            vsub_ext (hs3.trans hk4).ext hW2 hsub2 a]
          have : ¬ ((f.natAbs : Int) < 0) := by omega
          simp [this]
        exact Outcome2.ok hs4
          ⟨(((hm2.ext hW2 hs3.ext hsub2).ext hW3 hp4.ext hsub3).insert hpos),
           hpos.flip hW4 (hs4.ext.mem hf)⟩

theorem vectorComposeF_spec_off' (sub : List (Nat × Int)) (fu : Nat) (m : Mgr) (f : Int)
    (cache : HashMap Nat Int) (hI : Inv m) (hoff : m.lastLen = none) (hf : m.tbl.Mem f)
    (hsub : SubMem m.tbl sub) (hmemo : VMemo sub m.tbl cache)
    (hfu : m.nvars + 1 ≤ fu + m.tbl.levelOf f) :
    ∃ r c' m', vectorComposeF sub fu f cache m = (.ok (r, c'), m') ∧ Step m m' ∧
      VMemo sub m'.tbl c' ∧ VPost sub m'.tbl f r := by
  obtain ⟨r, c', m', he, hs, hm, hp⟩ :=
    (vectorComposeF_out sub fu m f cache hI (Or.inr hoff) hf hsub hmemo hfu).off hoff
  exact ⟨r, c', m', he, hs.step, hm, hp⟩

/-! ### `_copy_bdd` -/

theorem copyBddF_out (src : Option Tbl) (lm : List (Nat × Nat)) (S : Tbl) (hS : WF S) :
    ∀ (fu : Nat) (m : Mgr) (u : Int) (cache : HashMap Nat Int),
    Inv m → Quiet m → SrcOK src S m.tbl → S.Mem u → CMemo lm S m.tbl cache →
    (∀ i, InSupp S u i → ∃ j, lm.lookup i = some j ∧ j < m.nvars) →
    S.nvars + 1 ≤ fu + S.levelOf u →
    Outcome2 m (fun r c m' => CMemo lm S m'.tbl c ∧ CPost lm S m'.tbl u r)
      (copyBddF src lm fu u cache m) := by
  intro fu
  induction fu with
  | zero =>
    intro m u cache _ _ _ hu _ _ hfu
    have := levelOf_le S hS u
    omega
  | succ fu ih =>
    intro m u cache hI hq hsrc hu hmemo hlm hfu
    have hW := hI.wf.toWF
    unfold copyBddF
    by_cases h1 : u.natAbs = 1
    · simp only [h1, if_true]
      refine Outcome2.ok (StepK.refl hI) ⟨hmemo, Or.inl h1, Iff.rfl, ?_⟩
      intro a
      rcases abs_one h1 with h | h <;> subst h
      · rw [den_one, den_one]
      · rw [den_neg_one, den_neg_one]
    · simp only [h1, if_false]
      cases hc : cache[u.natAbs]? with
      | some r =>
        simp only
        obtain ⟨_, hp⟩ := hmemo _ r hc
        have hrpos : 0 < r := hp.sign.mpr (by omega)
        simp only [hrpos, not_true_eq_false, if_false]
        exact Outcome2.ok (StepK.refl hI) ⟨hmemo, hp.flip hS hW hu hrpos⟩
      | none =>
        simp only
        obtain ⟨n, hn⟩ := mem_node hu h1
        rw [hsrc.node hn]
        simp only [node_succ_ne_zero hS hn, if_false]
        have hlu := levelOf_node S u n h1 hn
        have hlo := hS.lo_lt _ _ hn
        have hhi := hS.hi_lt _ _ hn
        have hlom := hS.lo_mem _ _ hn
        have hhim := hS.hi_mem _ _ hn
        rcases (ih m n.lo cache hI hq hsrc hlom hmemo
          (fun i hi => hlm i (.lo h1 hn hi)) (by omega)).cases with
          ⟨p, c1, m1, he1, hs1, hm1, hp1⟩ | ⟨m1, he1, hs1, ha1⟩
        rotate_left
        · rw [he1]; exact Outcome2.abort0 hs1 ha1
        rw [he1]
        simp only
        have hW1 := hs1.inv.wf.toWF
        rcases (ih m1 n.hi c1 hs1.inv (hq.step hs1)
          (hsrc.ext hs1.ext) hhim hm1
          (fun i hi => by rw [hs1.nvars]; exact hlm i (.hi h1 hn hi)) (by omega)).cases with
          ⟨q, c2, m2, he2, hs2, hm2, hp2⟩ | ⟨m2, he2, hs2, ha2⟩
        rotate_left
        · rw [he2]; exact Outcome2.abort hs1 hs2 ha2
        rw [he2]
        simp only
        have hW2 := hs2.inv.wf.toWF
        have hs12 := hs1.trans hs2
        have hp1_2 := hp1.ext hW1 hs2.ext
        have hlo0 : n.lo ≠ 0 := mem_ne_zero hS hlom
        have hp0 : p ≠ 0 := mem_ne_zero hW2 hp1_2.mr
        have hplo : 0 < p * n.lo := mul_pos_of_same_sign p n.lo hp0 hlo0 hp1.sign
        have hqpos : 0 < q := hp2.sign.mpr (hS.hi_pos _ _ hn)
        simp only [hplo, hqpos, not_true_eq_false, if_false]
        obtain ⟨jnew, hj, hjlt⟩ := hlm n.lvl (.here h1 hn)
        rw [hj]
        simp only
        rcases (varNode_out m2 hs2.inv jnew (by rw [hs12.nvars]; exact hjlt)).cases with
          ⟨g, m3, he3, hs3, hg3, _, hd3⟩ | ⟨m3, he3, hs3, ha3⟩
        rotate_left
        · rw [he3]; exact Outcome2.abort hs12 hs3 ha3
        rw [he3]
        simp only
        have hW3 := hs3.inv.wf.toWF
        have hs123 := hs12.trans hs3
        have hp1_3 := hp1_2.ext hW2 hs3.ext
        have hp2_3 := hp2.ext hW2 hs3.ext
        rcases (ite_nested_spec m3 hs3.inv (hq.step hs123) g q p
          hg3 hp2_3.mr hp1_3.mr).cases with
          ⟨r, m4, he4, hk4, hp4⟩ | ⟨m4, he4, hk4, ha4⟩
        rotate_left
        · rw [he4]; exact Outcome2.abort hs123 hk4 ha4
        rw [he4]
        simp only
        have hs4 := hs123.trans hk4
        have hW4 := hp4.inv.wf.toWF
        have hrpos : 0 < r := by
          apply pos_of_den_alltrue m4.tbl hW4 r hp4.mem
          rw [hp4.den, hd3]
          simp only [if_true]
          have := den_alltrue m3.tbl hW3 m3.tbl.nvars q hp2_3.mr (by omega)
          rw [this]; simpa using hqpos
        simp only [hrpos, not_true_eq_false, if_false]
        have hn' : S.node? ((u.natAbs : Int)).natAbs = some n := by simpa using hn
        have hu0 := mem_ne_zero hS hu
        have hpos : CPost lm S m4.tbl (u.natAbs : Int) r := by
          refine ⟨hp4.mem, ?_, ?_⟩
          · have : 0 < u.natAbs := by omega
            constructor
            · intro _; omega
            · intro _; exact hrpos
          · intro a
            rw [hp4.den a, den_node S hS (u.natAbs : Int) n _ (by simpa using h1) hn',
              hp1_3.den a, hp2_3.den a, hd3 a]
            have h2 : ¬ ((u.natAbs : Int) < 0) := by omega
            have h3 : cmap lm a n.lvl = a jnew := by simp [cmap, hj]
            simp [h2, h3]
        have hk : 0 < u.natAbs := by omega
        exact Outcome2.ok hs4
          ⟨(((hm2.ext hW2 hs3.ext).ext hW3 hp4.ext).insert hk hpos),
           hpos.flip hS hW4 hu hrpos⟩

theorem copyBddF_spec_off' (src : Option Tbl) (lm : List (Nat × Nat)) (S : Tbl) (hS : WF S)
    (fu : Nat) (m : Mgr) (u : Int) (cache : HashMap Nat Int) (hI : Inv m)
    (hoff : m.lastLen = none) (hsrc : SrcOK src S m.tbl) (hu : S.Mem u)
    (hmemo : CMemo lm S m.tbl cache)
    (hlm : ∀ i, InSupp S u i → ∃ j, lm.lookup i = some j ∧ j < m.nvars)
    (hfu : S.nvars + 1 ≤ fu + S.levelOf u) :
    ∃ r c' m', copyBddF src lm fu u cache m = (.ok (r, c'), m') ∧ Step m m' ∧
      CMemo lm S m'.tbl c' ∧ CPost lm S m'.tbl u r := by
  obtain ⟨r, c', m', he, hs, hm, hp⟩ :=
    (copyBddF_out src lm S hS fu m u cache hI (Or.inr hoff) hsrc hu hmemo hlm hfu).off hoff
  exact ⟨r, c', m', he, hs.step, hm, hp⟩

end DD
