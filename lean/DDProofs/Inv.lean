/-
  DDProofs.Inv — the manager invariant `Inv` (everything the correctness theorems
  need except exact reference counts, which live in DDProofs.RefCount) and the
  bridge between the Boolean tests of the model and the propositions of Sem.
-/
import DD.Core
import DDProofs.Ext
import DDProofs.Canon
open Std

namespace DD

theorem Nd.key_inj {a b : Nd} (h : a.key = b.key) : a = b := by
  cases a; cases b
  simp only [Nd.key, List.cons.injEq, and_true] at h
  obtain ⟨h1, h2, h3⟩ := h
  have h1' := Int.ofNat.inj h1
  subst h1' h2 h3
  rfl

theorem Tbl.mem_iff (t : Tbl) (u : Int) : t.mem u = true ↔ t.Mem u := by
  unfold Tbl.mem Tbl.Mem Tbl.node?
  rw [TreeMap.contains_eq_isSome_getElem?]
  simp

theorem Tbl.mem_false_iff (t : Tbl) (u : Int) : t.mem u = false ↔ ¬ t.Mem u := by
  rw [← Tbl.mem_iff]; simp

theorem Mgr.mem_iff (m : Mgr) (u : Int) : m.mem u = true ↔ m.tbl.Mem u := Tbl.mem_iff _ _

theorem Tbl.levelOf?_eq (t : Tbl) (u : Int) (h : t.Mem u) : t.levelOf? u = some (t.levelOf u) := by
  unfold Tbl.levelOf? Tbl.levelOf
  by_cases h1 : u.natAbs = 1
  · simp [h1]
  · rcases h with h | h
    · exact absurd h h1
    · obtain ⟨n, hn⟩ := Option.isSome_iff_exists.mp h
      simp only [Tbl.node?] at hn
      simp [h1, Tbl.node?, hn]

/-- what a computed-table entry `(g, u, v) ↦ w` must satisfy -/
structure CacheEntryOK (t : Tbl) (g u v w : Int) : Prop where
  gnt : g.natAbs ≠ 1
  mg : t.Mem g
  mu : t.Mem u
  mv : t.Mem v
  mw : t.Mem w
  lvl : min (t.levelOf g) (min (t.levelOf u) (t.levelOf v)) ≤ t.levelOf w
  den : ∀ a, den t w a = if den t g a then den t u a else den t v a

/-- the invariant of a manager (without exact counts) -/
structure Inv (m : Mgr) : Prop where
  wf : WFU m.tbl
  pred : ∀ (n : Nd) (u : Nat), m.pred[n.key]? = some u ↔ m.tbl.node? u = some n
  freeGe : 2 ≤ m.minFree
  free : m.tbl.node? m.minFree = none
  refOne : m.ref.contains 1 = true
  refDom : ∀ u n, m.tbl.node? u = some n → m.ref.contains u = true
  cache : ∀ g u v w, m.cache[iteKey g u v]? = some w → CacheEntryOK m.tbl g u v w

theorem Inv.refMem {m : Mgr} (h : Inv m) {u : Int} (hu : m.tbl.Mem u) : m.ref.contains u.natAbs = true := by
  rcases hu with h1 | h1
  · rw [h1]; exact h.refOne
  · obtain ⟨n, hn⟩ := Option.isSome_iff_exists.mp h1
    exact h.refDom _ _ hn

theorem CacheEntryOK.ext {m t : Tbl} (hw : WF m) (he : Ext m t) {g u v w : Int}
    (h : CacheEntryOK m g u v w) : CacheEntryOK t g u v w := by
  refine ⟨h.gnt, he.mem h.mg, he.mem h.mu, he.mem h.mv, he.mem h.mw, ?_, ?_⟩
  · rw [he.levelOf h.mg, he.levelOf h.mu, he.levelOf h.mv, he.levelOf h.mw]; exact h.lvl
  · intro a
    rw [den_ext he hw w a h.mw, den_ext he hw g a h.mg, den_ext he hw u a h.mu, den_ext he hw v a h.mv]
    exact h.den a

/-- the empty manager (no variables) satisfies the invariant -/
theorem Inv.init : Inv ({} : Mgr) := by
  refine ⟨⟨⟨?_, ?_, ?_, ?_, ?_, ?_, ?_, ?_⟩, ?_⟩, ?_, ?_, ?_, ?_, ?_, ?_⟩ <;>
    simp [Tbl.node?] <;> try decide

end DD
