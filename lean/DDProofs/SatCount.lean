/-
  DDProofs.SatCount — model counting: the reference `cnt`, its algebra, and `count`.
-/
import DDProofs.SatSupport
import Std.Data.HashMap.Lemmas
open Std

namespace DD

/-! ### reference model count -/

/-- number of assignments to the variables `vs` (the others fixed by `a`) satisfying `p` -/
def cnt (p : Asg → Bool) : List Nat → Asg → Nat
  | [], a => if p a then 1 else 0
  | v :: vs, a => cnt p vs (upd a v false) + cnt p vs (upd a v true)

/-- all assignments that differ from `a` only on the variables `vs` -/
def allAsg : List Nat → Asg → List Asg
  | [], a => [a]
  | v :: vs, a => allAsg vs (upd a v false) ++ allAsg vs (upd a v true)

/-- `cnt` counts the satisfying ones among the `2^|vs|` assignments over `vs` -/
theorem cnt_eq_filter (p : Asg → Bool) : ∀ vs a, cnt p vs a = ((allAsg vs a).filter p).length := by
  intro vs
  induction vs with
  | nil => intro a; by_cases h : p a <;> simp [cnt, allAsg, h]
  | cons v vs ih => intro a; simp [cnt, allAsg, ih, List.filter_append]

theorem allAsg_length : ∀ vs a, (allAsg vs a).length = 2 ^ vs.length := by
  intro vs
  induction vs with
  | nil => intro a; rfl
  | cons v vs ih => intro a; simp [allAsg, ih, Nat.pow_succ]; omega

theorem cnt_le (p : Asg → Bool) : ∀ vs a, cnt p vs a ≤ 2 ^ vs.length := by
  intro vs a
  rw [cnt_eq_filter, ← allAsg_length vs a]
  exact List.length_filter_le _ _

theorem cnt_compl (p : Asg → Bool) : ∀ vs a, cnt (fun b => !p b) vs a = 2 ^ vs.length - cnt p vs a := by
  intro vs
  induction vs with
  | nil => intro a; by_cases h : p a <;> simp [cnt, h]
  | cons v vs ih =>
    intro a
    have h1 := cnt_le p vs (upd a v false)
    have h2 := cnt_le p vs (upd a v true)
    simp only [cnt, ih, List.length_cons, Nat.pow_succ]
    omega

theorem cnt_congr {p q : Asg → Bool} : ∀ vs a, (∀ b, (∀ i, i ∉ vs → b i = a i) → p b = q b) →
    cnt p vs a = cnt q vs a := by
  intro vs
  induction vs with
  | nil => intro a h; simp [cnt, h a (fun _ _ => rfl)]
  | cons v vs ih =>
    intro a h
    simp only [cnt]
    rw [ih (upd a v false), ih (upd a v true)]
    · intro b hb; apply h; intro i hi
      rw [hb i (fun hc => hi (List.mem_cons_of_mem _ hc))]
      exact upd_other _ _ _ _ (fun hc => hi (hc ▸ List.mem_cons_self))
    · intro b hb; apply h; intro i hi
      rw [hb i (fun hc => hi (List.mem_cons_of_mem _ hc))]
      exact upd_other _ _ _ _ (fun hc => hi (hc ▸ List.mem_cons_self))

theorem upd_upd_same (a : Asg) (v : Nat) (x y : Bool) : upd (upd a v x) v y = upd a v y := by
  funext k; unfold upd; by_cases h : k = v <;> simp [h]

/-- the base assignment is irrelevant at a variable `p` ignores -/
theorem cnt_indep_base {p : Asg → Bool} {v : Nat} (hp : ∀ b x, p (upd b v x) = p b) :
    ∀ vs a x, cnt p vs (upd a v x) = cnt p vs a := by
  intro vs
  induction vs with
  | nil => intro a x; simp [cnt, hp]
  | cons w vs ih =>
    intro a x
    simp only [cnt]
    by_cases hwv : w = v
    · subst hwv
      rw [upd_upd_same, upd_upd_same]
    · rw [upd_comm a v w x false (Ne.symm hwv), upd_comm a v w x true (Ne.symm hwv), ih, ih]

/-- ignored variables double the count -/
theorem cnt_skip {p : Asg → Bool} : ∀ (mid vs : List Nat) a, (∀ v ∈ mid, ∀ b x, p (upd b v x) = p b) →
    cnt p (mid ++ vs) a = 2 ^ mid.length * cnt p vs a := by
  intro mid
  induction mid with
  | nil => intro vs a _; simp
  | cons v mid ih =>
    intro vs a h
    have hv := h v (by simp)
    have hmid : ∀ w ∈ mid, ∀ b x, p (upd b w x) = p b := fun w hw => h w (List.mem_cons_of_mem _ hw)
    simp only [List.cons_append, cnt, List.length_cons]
    rw [cnt_indep_base hv, cnt_indep_base hv, ih vs a hmid, Nat.pow_succ, Nat.mul_right_comm]
    omega

/-! ### segments of a sorted list of levels -/

/-- the levels of `ls` from `l` on -/
def lvGe (ls : List Nat) (l : Nat) : List Nat := ls.filter (fun x => decide (l ≤ x))

/-- the levels of `ls` in `[l, l')` -/
def lvMid (ls : List Nat) (l l' : Nat) : List Nat := ls.filter (fun x => decide (l ≤ x) && decide (x < l'))

theorem lvGe_zero (ls : List Nat) : lvGe ls 0 = ls := by
  unfold lvGe; apply List.filter_eq_self.mpr; simp

theorem lvGe_top {ls : List Nat} {n : Nat} (h : ∀ x ∈ ls, x < n) : lvGe ls n = [] := by
  unfold lvGe; apply List.filter_eq_nil_iff.mpr
  intro x hx; have := h x hx; simp; omega

theorem lvGe_split {ls : List Nat} (hs : ls.Pairwise (· < ·)) {l l' : Nat} (hl : l ≤ l') :
    lvGe ls l = lvMid ls l l' ++ lvGe ls l' := by
  induction ls with
  | nil => rfl
  | cons x xs ih =>
    rw [List.pairwise_cons] at hs
    have ih := ih hs.2
    unfold lvGe lvMid at *
    by_cases h1 : l ≤ x
    · by_cases h2 : x < l'
      · rw [List.filter_cons_of_pos (by simpa using h1), List.filter_cons_of_pos (by simp [h1, h2]),
          List.filter_cons_of_neg (by simp; omega), ih]; rfl
      · rw [List.filter_cons_of_pos (by simpa using h1), List.filter_cons_of_neg (by simp [h2]),
          List.filter_cons_of_pos (by simp; omega)]
        have e1 : xs.filter (fun x => decide (l ≤ x)) = xs :=
          List.filter_eq_self.mpr (fun y hy => by have := hs.1 y hy; simp; omega)
        have e2 : xs.filter (fun x => decide (l' ≤ x)) = xs :=
          List.filter_eq_self.mpr (fun y hy => by have := hs.1 y hy; simp; omega)
        have e3 : xs.filter (fun x => decide (l ≤ x) && decide (x < l')) = [] :=
          List.filter_eq_nil_iff.mpr (fun y hy => by have := hs.1 y hy; simp; omega)
        rw [e1, e2, e3]; rfl
    · rw [List.filter_cons_of_neg (by simpa using h1), List.filter_cons_of_neg (by simp [h1]),
        List.filter_cons_of_neg (by simp; omega), ih]

theorem lvGe_mem {ls : List Nat} (hs : ls.Pairwise (· < ·)) {l : Nat} (hl : l ∈ ls) :
    lvGe ls l = l :: lvGe ls (l + 1) := by
  induction ls with
  | nil => simp at hl
  | cons x xs ih =>
    rw [List.pairwise_cons] at hs
    unfold lvGe at *
    by_cases hx : x = l
    · subst hx
      rw [List.filter_cons_of_pos (by simp), List.filter_cons_of_neg (by simp)]
      congr 1
      apply List.filter_congr
      intro y hy; have := hs.1 y hy; simp; omega
    · have hl' : l ∈ xs := by
        rcases List.mem_cons.mp hl with h | h
        · exact absurd h.symm hx
        · exact h
      have := hs.1 l hl'
      rw [List.filter_cons_of_neg (by simp; omega), List.filter_cons_of_neg (by simp; omega)]
      exact ih hs.2 hl'

theorem lvGe_length_le (ls : List Nat) (l : Nat) : (lvGe ls l).length ≤ ls.length :=
  List.length_filter_le _ _

end DD

namespace DD

/-! ### the count of a reference over the support levels from its own level on -/

section
variable (t : Tbl) (ls : List Nat) (a0 : Asg)

def cntFrom (v : Int) : Nat := cnt (den t v) (lvGe ls (t.levelOf v)) a0

theorem cntFrom_le (v : Int) : cntFrom t ls a0 v ≤ 2 ^ (lvGe ls (t.levelOf v)).length := cnt_le _ _ _

theorem cntFrom_neg (hw : WF t) {v : Int} (hm : t.Mem v) :
    cntFrom t ls a0 (-v) = 2 ^ (lvGe ls (t.levelOf v)).length - cntFrom t ls a0 v := by
  unfold cntFrom
  rw [levelOf_neg, ← cnt_compl]
  congr 1
  funext b
  exact den_neg t hw v b hm

theorem cntFrom_one (hb : ∀ x ∈ ls, x < t.nvars) : cntFrom t ls a0 1 = 1 := by
  unfold cntFrom
  rw [levelOf_term t 1 rfl, lvGe_top hb]
  simp [cnt, den_one]

theorem cntFrom_neg_one (hb : ∀ x ∈ ls, x < t.nvars) : cntFrom t ls a0 (-1) = 0 := by
  unfold cntFrom
  rw [levelOf_term t (-1) rfl, lvGe_top hb]
  simp [cnt, den_neg_one]

theorem not_mem_lvGe_succ (l : Nat) : l ∉ lvGe ls (l + 1) := by
  unfold lvGe; intro h
  have := (List.mem_filter.mp h).2
  simp at this
  omega

/-- one child's share of a node's count -/
theorem cnt_child (hw : WF t) (hs : ls.Pairwise (· < ·)) {u : Nat} {n : Nd} (hn : t.succ[u]? = some n)
    (c : Int) (x : Bool) (hc : c = if x then n.hi else n.lo) :
    cnt (den t (u : Int)) (lvGe ls (n.lvl + 1)) (upd a0 n.lvl x) =
      cntFrom t ls a0 c * 2 ^ (lvMid ls (n.lvl + 1) (t.levelOf c)).length := by
  have hmc : t.Mem c := by
    cases x
    · simp at hc; rw [hc]; exact hw.lo_mem _ _ hn
    · simp at hc; rw [hc]; exact hw.hi_mem _ _ hn
  have hlt : n.lvl < t.levelOf c := by
    cases x
    · simp at hc; rw [hc]; exact hw.lo_lt _ _ hn
    · simp at hc; rw [hc]; exact hw.hi_lt _ _ hn
  have h1 : cnt (den t (u : Int)) (lvGe ls (n.lvl + 1)) (upd a0 n.lvl x) =
      cnt (den t c) (lvGe ls (n.lvl + 1)) (upd a0 n.lvl x) := by
    apply cnt_congr
    intro b hb
    have hbl : b n.lvl = x := by
      rw [hb n.lvl (not_mem_lvGe_succ ls n.lvl)]; exact upd_same _ _ _
    have h1' : (u : Int).natAbs ≠ 1 := by simpa using hw.node_ne_one hn
    rw [den_node t hw (u : Int) n b h1' (by simpa [Tbl.node?] using hn), hbl]
    have : ¬ ((u : Int) < 0) := by omega
    simp only [this, decide_false, Bool.false_bne]
    cases x <;> simp [hc]
  have hind : ∀ v, v < t.levelOf c → ∀ b y, den t c (upd b v y) = den t c b :=
    fun v hv b y => den_indep' t hw c hmc v y b hv
  rw [h1, cnt_indep_base (hind n.lvl hlt), lvGe_split hs (show n.lvl + 1 ≤ t.levelOf c by omega),
    cnt_skip, Nat.mul_comm]
  · rfl
  · intro v hv
    have := (List.mem_filter.mp hv).2
    simp at this
    exact hind v this.2

theorem cntFrom_node (hw : WF t) (hs : ls.Pairwise (· < ·)) {u : Nat} {n : Nd} (hn : t.succ[u]? = some n)
    (hl : n.lvl ∈ ls) :
    cntFrom t ls a0 (u : Int) =
      cntFrom t ls a0 n.lo * 2 ^ (lvMid ls (n.lvl + 1) (t.levelOf n.lo)).length +
      cntFrom t ls a0 n.hi * 2 ^ (lvMid ls (n.lvl + 1) (t.levelOf n.hi)).length := by
  have hlu : t.levelOf (u : Int) = n.lvl :=
    levelOf_node t (u : Int) n (by simpa using hw.node_ne_one hn) (by simpa [Tbl.node?] using hn)
  rw [← cnt_child t ls a0 hw hs hn n.lo false rfl, ← cnt_child t ls a0 hw hs hn n.hi true rfl]
  unfold cntFrom
  rw [hlu, lvGe_mem hs hl]
  rfl

/-- lengths of the segments under a node -/
theorem lvGe_len_child (hs : ls.Pairwise (· < ·)) {l l' : Nat} (hl : l ∈ ls) (hlt : l < l') :
    (lvGe ls l).length = 1 + (lvMid ls (l + 1) l').length + (lvGe ls l').length := by
  rw [lvGe_mem hs hl, lvGe_split hs (show l + 1 ≤ l' by omega)]
  simp only [List.length_cons, List.length_append]; omega

end

end DD

namespace DD

/-! ### `_sat_len` -/

theorem pow2_nat (e : Nat) : pow2 (e : Int) = .ok (2 ^ e) := by
  unfold pow2
  have : ¬ ((e : Int) < 0) := by omega
  simp [this]

/-- the level compaction map of `count`: the `j`-th support level goes to `j + slack`, the
terminal's level to `n = k + slack`; written with the length of the segment from the level on -/
def MapOK (t : Tbl) (ls : List Nat) (slack : Nat) (mapLevel : List (Nat × Nat)) : Prop :=
  ∀ l, (l ∈ ls ∨ l = t.nvars) → mapLevel.lookup l = some (ls.length - (lvGe ls l).length + slack)

def MemoOK (t : Tbl) (ls : List Nat) (a0 : Asg) (d : HashMap Nat Nat) : Prop :=
  ∀ (x c : Nat), d[x]? = some c → c = cntFrom t ls a0 (x : Int)

/-- CORE LEMMA of `count`: `_sat_len(u)` is the number of models of `u` over the compacted
levels from `u`'s own level on (complement arithmetic and memo on the unsigned node included) -/
theorem satLenF_spec {t : Tbl} (hw : WF t) {ls : List Nat} (hs : ls.Pairwise (· < ·))
    (hb : ∀ x ∈ ls, x < t.nvars) (a0 : Asg) {slack : Nat} {mapLevel : List (Nat × Nat)}
    (hmap : MapOK t ls slack mapLevel) :
    ∀ f u d, t.Mem u → t.nvars + 1 ≤ f + t.levelOf u →
      (∀ x n, Reach t u.natAbs x → t.succ[x]? = some n → n.lvl ∈ ls) → MemoOK t ls a0 d →
      ∃ d', satLenF mapLevel (ls.length + slack) f t u d = .ok (cntFrom t ls a0 u, d') ∧
        MemoOK t ls a0 d' := by
  intro f
  induction f with
  | zero => intro u _ _ hf; have := levelOf_le t hw u; omega
  | succ f ih =>
    intro u d hm hf hreach hd
    rcases hm.cases with h1 | ⟨h1, n, hn⟩
    · rcases abs_one h1 with hu | hu <;> subst hu
      · exact ⟨d, by simp [satLenF, cntFrom_one t ls a0 hb], hd⟩
      · exact ⟨d, by simp [satLenF, cntFrom_neg_one t ls a0 hb], hd⟩
    · have hu1 : u ≠ 1 := by intro h; subst h; simp at h1
      have hum1 : u ≠ -1 := by intro h; subst h; simp at h1
      have hl := levelOf_node t u n h1 hn
      have h2 := hw.lo_lt _ _ hn
      have h3 := hw.hi_lt _ _ hn
      have hmlo := hw.lo_mem _ _ hn
      have hmhi := hw.hi_mem _ _ hn
      have hlin : n.lvl ∈ ls := hreach _ n (Reach.refl _) hn
      -- positions
      have hgle := lvGe_length_le ls n.lvl
      have hlen1 := lvGe_len_child ls hs hlin h2
      have hlen2 := lvGe_len_child ls hs hlin h3
      have hlook := hmap n.lvl (Or.inl hlin)
      have hin : ∀ c : Int, t.Mem c → (∀ x n', Reach t c.natAbs x → t.succ[x]? = some n' → n'.lvl ∈ ls) →
          (t.levelOf c ∈ ls ∨ t.levelOf c = t.nvars) := by
        intro c hc hr
        rcases hc.cases with hc1 | ⟨hc1, nc, hnc⟩
        · exact Or.inr (levelOf_term t c hc1)
        · rw [levelOf_node t c nc hc1 hnc]; exact Or.inl (hr _ nc (Reach.refl _) hnc)
      have hrlo : ∀ x n', Reach t n.lo.natAbs x → t.succ[x]? = some n' → n'.lvl ∈ ls :=
        fun x n' hr hn' => hreach x n' (Reach.lo hn hr) hn'
      have hrhi : ∀ x n', Reach t n.hi.natAbs x → t.succ[x]? = some n' → n'.lvl ∈ ls :=
        fun x n' hr hn' => hreach x n' (Reach.hi hn hr) hn'
      have hlooklo := hmap _ (hin n.lo hmlo hrlo)
      have hlookhi := hmap _ (hin n.hi hmhi hrhi)
      -- the count of the regular node
      have hpos : cntFrom t ls a0 (u.natAbs : Int) =
          cntFrom t ls a0 n.lo * 2 ^ (lvMid ls (n.lvl + 1) (t.levelOf n.lo)).length +
          cntFrom t ls a0 n.hi * 2 ^ (lvMid ls (n.lvl + 1) (t.levelOf n.hi)).length :=
        cntFrom_node t ls a0 hw hs hn hlin
      have hlabs : t.levelOf (u.natAbs : Int) = n.lvl := by rw [levelOf_natAbs]; exact hl
      have hcle : cntFrom t ls a0 (u.natAbs : Int) ≤ 2 ^ (lvGe ls n.lvl).length := by
        have := cntFrom_le t ls a0 (u.natAbs : Int); rwa [hlabs] at this
      -- the complement step
      have hp : pow2 (((ls.length + slack : Nat) : Int) -
          ((ls.length - (lvGe ls n.lvl).length + slack : Nat) : Int)) = .ok (2 ^ (lvGe ls n.lvl).length) := by
        rw [← pow2_nat]; congr 1; omega
      have hsign : cntFrom t ls a0 u =
          if u < 0 then 2 ^ (lvGe ls n.lvl).length - cntFrom t ls a0 (u.natAbs : Int)
          else cntFrom t ls a0 (u.natAbs : Int) := by
        by_cases hneg : u < 0
        · have e : u = -((u.natAbs : Nat) : Int) := by omega
          rw [if_pos hneg]
          conv => lhs; rw [e]
          rw [cntFrom_neg t ls a0 hw (mem_natAbs hm), hlabs]
        · have e : ((u.natAbs : Nat) : Int) = u := by omega
          rw [if_neg hneg, e]
      rw [satLenF]
      simp only [hu1, hum1, if_false, hn, hw.zero_test hn, Bool.false_eq_true, hlook, hp]
      cases hdu : d[u.natAbs]? with
      | some c =>
        have hc := hd _ _ hdu
        subst hc
        refine ⟨d, ?_, hd⟩
        rw [hsign]
        by_cases hneg : u < 0
        · simp [hneg, Nat.not_lt.mpr hcle, Except.map]
        · simp [hneg, Except.map]
      | none =>
        obtain ⟨d1, e1, hd1⟩ := ih n.lo d hmlo (by omega) hrlo hd
        obtain ⟨d2, e2, hd2⟩ := ih n.hi d1 hmhi (by omega) hrhi hd1
        have hhi : ¬ (n.hi < 0) := by have := hw.hi_pos _ _ hn; omega
        have hpa : pow2 (((ls.length - (lvGe ls (t.levelOf n.lo)).length + slack : Nat) : Int) -
            ((ls.length - (lvGe ls n.lvl).length + slack : Nat) : Int) - 1) =
            .ok (2 ^ (lvMid ls (n.lvl + 1) (t.levelOf n.lo)).length) := by
          rw [← pow2_nat]; congr 1; omega
        have hpb : pow2 (((ls.length - (lvGe ls (t.levelOf n.hi)).length + slack : Nat) : Int) -
            ((ls.length - (lvGe ls n.lvl).length + slack : Nat) : Int) - 1) =
            .ok (2 ^ (lvMid ls (n.lvl + 1) (t.levelOf n.hi)).length) := by
          rw [← pow2_nat]; congr 1; omega
        simp only [e1, e2, Tbl.levelOf?_eq t _ hmlo, Tbl.levelOf?_eq t _ hmhi, hhi, if_false,
          hlooklo, hlookhi, hpa, hpb]
        rw [← hpos]
        refine ⟨d2.insert u.natAbs (cntFrom t ls a0 (u.natAbs : Int)), ?_, ?_⟩
        · rw [hsign]
          by_cases hneg : u < 0
          · simp [hneg, Nat.not_lt.mpr hcle, Except.map]
          · simp [hneg, Except.map]
        · intro x c hx
          rw [HashMap.getElem?_insert] at hx
          split at hx
          · next heq =>
            have : u.natAbs = x := by simpa using heq
            subst this; cases hx; rfl
          · exact hd2 x c hx

end DD

namespace DD

/-! ### `count` -/

theorem lookup_filter_ne (L : List (Nat × Nat)) {l m : Nat} (h : l ≠ m) :
    (L.filter (fun p => decide (p.1 ≠ m))).lookup l = L.lookup l := by
  induction L with
  | nil => rfl
  | cons p L ih =>
    obtain ⟨k, v⟩ := p
    by_cases hk : k = m
    · subst hk
      rw [List.filter_cons_of_neg (by simp), ih, List.lookup_cons]
      have : (l == k) = false := by simpa using h
      rw [this]
    · rw [List.filter_cons_of_pos (by simpa using hk), List.lookup_cons, List.lookup_cons, ih]

theorem lookup_zipIdx {ls : List Nat} (hs : ls.Pairwise (· < ·)) (slack : Nat) {l : Nat} (hl : l ∈ ls) :
    ∀ start, ((ls.zipIdx start).map fun (p : Nat × Nat) => (p.1, p.2 + slack)).lookup l =
      some (start + (ls.length - (lvGe ls l).length) + slack) := by
  induction ls with
  | nil => simp at hl
  | cons x xs ih =>
    intro start
    rw [List.pairwise_cons] at hs
    rw [List.zipIdx_cons, List.map_cons, List.lookup_cons]
    by_cases hx : l = x
    · subst hx
      have : lvGe (l :: xs) l = l :: xs := by
        unfold lvGe; apply List.filter_eq_self.mpr
        intro y hy
        rcases List.mem_cons.mp hy with h | h
        · simp [h]
        · have := hs.1 y h; simp; omega
      simp [this]
    · have hl' : l ∈ xs := by
        rcases List.mem_cons.mp hl with h | h
        · exact absurd h hx
        · exact h
      have hlt := hs.1 l hl'
      have hne : (l == x) = false := by simpa using hx
      have : lvGe (x :: xs) l = lvGe xs l := by
        unfold lvGe; rw [List.filter_cons_of_neg (by simp; omega)]
      simp only [hne]
      rw [ih hs.2 hl' (start + 1), this]
      have := lvGe_length_le xs l
      simp only [List.length_cons]
      congr 1; omega

theorem count_main {t : Tbl} (hw : WFU t) (u : Int) (hm : t.Mem u) :
    ∃ ls, supportLevels t u = .ok ls ∧ ls.Pairwise (· < ·) ∧ (∀ i, i ∈ ls ↔ dependsOn t u i) ∧
      (∀ (n : Nat) (a0 : Asg), ls.length ≤ n →
        count t u (some (n : Int)) = .ok (cnt (den t u) ls a0 * 2 ^ (n - ls.length))) ∧
      (∀ a0 : Asg, count t u none = .ok (cnt (den t u) ls a0)) ∧
      (∀ n : Int, n < ls.length → count t u (some n) = .error .value) := by
  have hW := hw.toWF
  obtain ⟨ls, e, hs, hdep⟩ := supportLevels_spec' hw u hm
  have hb : ∀ x ∈ ls, x < t.nvars := fun x hx => dependsOn_lt_nvars hw hm ((hdep x).mp hx)
  have hreach : ∀ x n, Reach t u.natAbs x → t.succ[x]? = some n → n.lvl ∈ ls := by
    intro x n hr hn
    exact (hdep _).mpr ((dependsOn_iff_reach hw _ u hm).mpr ⟨x, n, hr, hn, rfl⟩)
  have main : ∀ (n : Nat) (a0 : Asg), ls.length ≤ n →
      count t u (some (n : Int)) = .ok (cnt (den t u) ls a0 * 2 ^ (n - ls.length)) := by
    intro n a0 hn
    have hslack : ¬ ((n : Int) - (ls.length : Int) < 0) := by omega
    have htn : ((n : Int) - (ls.length : Int)).toNat = n - ls.length := by omega
    have hmap : MapOK t ls (n - ls.length)
        ((t.nvars, n) :: ((ls.zipIdx.map fun (p : Nat × Nat) => (p.1, p.2 + (n - ls.length))).filter
          (fun p => decide (p.1 ≠ t.nvars)))) := by
      intro l hl
      rcases hl with hl | hl
      · have hne : l ≠ t.nvars := by have := hb l hl; omega
        have hne' : (l == t.nvars) = false := by simpa using hne
        rw [List.lookup_cons, hne', lookup_filter_ne _ hne, lookup_zipIdx hs _ hl 0]
        simp
      · subst hl
        rw [List.lookup_cons]
        simp [lvGe_top hb]; omega
    obtain ⟨d', e', _⟩ := satLenF_spec hW hs hb a0 hmap (t.nvars + 2) u {} hm (by omega) hreach
      (by intro x c h; simp at h)
    have hall : ls.length + (n - ls.length) = n := by omega
    rw [hall] at e'
    have hlu : t.levelOf u ∈ ls ∨ t.levelOf u = t.nvars := by
      rcases hm.cases with h1 | ⟨h1, nd, hnd⟩
      · exact Or.inr (levelOf_term t u h1)
      · rw [levelOf_node t u nd h1 hnd]; exact Or.inl (hreach _ nd (Reach.refl _) hnd)
    have hlook := hmap _ hlu
    unfold count
    simp only [(Tbl.mem_iff t u).mpr hm, e, Bool.not_true, Bool.false_eq_true, if_false,
      Option.getD_some, hslack, htn, Int.toNat_natCast, ne_eq, decide_not]
    simp only [ne_eq, decide_not] at e' hlook
    rw [e']
    simp only [Tbl.levelOf?_eq t u hm, hlook]
    -- arithmetic: the skipped levels above `u`
    congr 1
    have hsplit := lvGe_split hs (Nat.zero_le (t.levelOf u))
    rw [lvGe_zero] at hsplit
    have hcnt : cnt (den t u) ls a0 = 2 ^ (lvMid ls 0 (t.levelOf u)).length * cntFrom t ls a0 u := by
      conv => lhs; rw [hsplit]
      rw [cnt_skip]
      · rfl
      · intro v hv b x
        have := (List.mem_filter.mp hv).2
        simp at this
        exact den_indep' t hW u hm v x b this
    have hlen : ls.length = (lvMid ls 0 (t.levelOf u)).length + (lvGe ls (t.levelOf u)).length := by
      conv => lhs; rw [hsplit]
      rw [List.length_append]
    rw [hcnt]
    have : ls.length - (lvGe ls (t.levelOf u)).length + (n - ls.length) =
        (lvMid ls 0 (t.levelOf u)).length + (n - ls.length) := by omega
    rw [this, Nat.pow_add, Nat.mul_comm (2 ^ _) (cntFrom t ls a0 u), Nat.mul_assoc]
  refine ⟨ls, e, hs, hdep, main, ?_, ?_⟩
  · intro a0
    have := main ls.length a0 (Nat.le_refl _)
    simp only [Nat.sub_self, Nat.pow_zero, Nat.mul_one] at this
    rw [← this]
    unfold count
    simp only [e, Option.getD_some, Option.getD_none]
  · intro n hn
    unfold count
    have : (n - (ls.length : Int) < 0) := by omega
    simp [(Tbl.mem_iff t u).mpr hm, e, this]

end DD
