/-
  DDProofs.DynProofs — `_try_to_reorder` around `_ite`: dynamic reordering is invisible,
  GIVEN a specification of sifting (`SiftSpec`, the subject of C07).  What is proved
  outright: an aborted attempt only adds nodes; the signal never reaches the caller; the
  retry runs with requests disabled and therefore cannot abort; reordering is enabled again
  afterwards with the re-armed threshold; the flag is restored.
-/
import DD.Dyn
import DDProofs.Total
import DDProofs.SatPick
open Std

namespace DD

/-- a node the user (or a parent) holds a reference on: sifting must keep it -/
def Held (m : Mgr) (u : Int) : Prop :=
  u.natAbs = 1 ∨ ∃ c, m.ref[u.natAbs]? = some c ∧ 0 < c

/-- functions by variable NAME depend on the table only through `succ` and `l2v` -/
theorem denN_of_same_l2v {t t' : Tbl} (hl : t'.l2v = t.l2v) (u : Int) (σ : AsgN)
    (hden : ∀ a, den t' u a = den t u a) : denN t' u σ = denN t u σ := by
  unfold denN Tbl.lift Tbl.nameOf
  rw [hl]; exact hden _

/-- the specification of `reorder(bdd)` (sifting) that dynamic reordering was first stated
against.  SUPERSEDED: it quantifies over every state satisfying `Inv`, which constrains neither
the recorded schedule nor the name maps nor exact counts, and is FALSE (`not_siftSpec` in
DDProofs.DynApply).  The C09 theorems use `SiftContract` (DDProofs.DynGeneric) instead. -/
structure SiftSpec : Prop where
  run : ∀ (m : Mgr), Inv m → m.lastLen = none → 2 ≤ m.nvars →
    ∃ m', reorder none m = (.ok (), m') ∧ Inv m' ∧ m'.lastLen = none ∧ m'.ctx = m.ctx ∧
      m'.nvars = m.nvars ∧
      ∀ u, m.tbl.Mem u → Held m u →
        m'.tbl.Mem u ∧ Held m' u ∧ ∀ σ, denN m'.tbl u σ = denN m.tbl u σ

/-- what the caller of the decorated `ite` observes -/
structure DynPost (m : Mgr) (g u v r : Int) (m' : Mgr) : Prop where
  inv : Inv m'
  mem : m'.tbl.Mem r
  den : ∀ σ, denN m'.tbl r σ =
    if denN m.tbl g σ then denN m.tbl u σ else denN m.tbl v σ
  enabled : m'.lastLen.isSome = m.lastLen.isSome
  ctx : m'.ctx = m.ctx
  operands : ∀ w, m.tbl.Mem w → Held m w →
    m'.tbl.Mem w ∧ ∀ σ, denN m'.tbl w σ = denN m.tbl w σ

/-- the path of the decorator when the first attempt is aborted by a request -/
theorem tryToReorder_retry {α} (f : M α) (m m1 m3 m4 : Mgr) (a : α)
    (hctx : m.ctx = false)
    (h1 : f { m with ctx := true } = (.error .needsReordering, m1))
    (h2 : reorder none { m1 with ctx := m.ctx, lastLen := none } = (.ok (), m3))
    (h3 : f { m3 with ctx := true } = (.ok a, m4)) :
    tryToReorder f m =
      (.ok a, { m4 with ctx := m3.ctx, lastLen := some (Gen.growthFactor * m3.len) }) := by
  unfold tryToReorder
  have hw1 : withCtx f m = (.ok none, { m1 with ctx := m.ctx }) := by
    unfold withCtx
    rw [h1]
    simp [hctx]
  have hw2 : withCtx f m3 = (.ok (some a), { m4 with ctx := m3.ctx }) := by
    unfold withCtx
    rw [h3]
  simp only [bind, M.bind', hw1, M.modify]
  rw [h2]
  simp only [M.get, hw2, M.modify, M.bind', pure, M.pure']

/-- C09 core: the decorated `ite` with dynamic reordering ENABLED, at whichever node creation
the request fires (the trigger is any predicate on the state: `requestReordering` is not
unfolded), returns the if-then-else of the operands BY NAME, never raises the signal, keeps
the operands' meaning and leaves reordering enabled. Conditional on `SiftSpec` and on the
counts of nodes never decreasing while an attempt only adds nodes (`hmono`, discharged in
DDProofs.RefCount). -/
theorem ite_dyn_spec (hS : SiftSpec) (m : Mgr) (hI : Inv m) (hctx : m.ctx = false)
    (hn : 2 ≤ m.nvars) (g u v : Int)
    (hg : m.tbl.Mem g) (hu : m.tbl.Mem u) (hv : m.tbl.Mem v)
    (hhg : Held m g) (hhu : Held m u) (hhv : Held m v)
    (hmono : ∀ (m0 m1 : Mgr) (e : Err), iteRaw g u v m0 = (.error e, m1) →
      ∀ w, Held m0 w → Held m1 w) :
    ∃ r m', ite g u v m = (.ok r, m') ∧ DynPost m g u v r m' := by
  have hW := hI.wf.toWF
  -- first attempt, inside the context
  have hraw : ∀ m0 : Mgr, iteRaw g u v m0 = iteF (m0.nvars + 2) g u v m0 := by
    intro m0; simp [iteRaw, bind, M.bind', M.get]
  have h1 := iteF_spec (m.nvars + 2) { m with ctx := true } g u v (hI.setCtx true) hg hu hv
    (by show m.nvars + 1 ≤ _; omega)
  generalize hres : iteF (m.nvars + 2) g u v { m with ctx := true } = res at h1
  obtain ⟨r1, m1⟩ := res
  cases r1 with
  | ok r =>
    -- no request fired
    have hp : ItePost { m with ctx := true } g u v r m1 := h1
    refine ⟨r, { m1 with ctx := m.ctx }, ?_, ?_⟩
    · unfold ite
      exact tryToReorder_ok _ m r m1 (by rw [hraw]; exact hres)
    · refine ⟨hp.inv.setCtx _, hp.mem, ?_, ?_, rfl, ?_⟩
      · intro σ
        have hl : m1.tbl.l2v = m.tbl.l2v := hp.frame.l2v
        unfold denN Tbl.lift Tbl.nameOf
        show den m1.tbl r _ = _
        rw [hl, hp.den]
      · show m1.lastLen.isSome = _
        rw [hp.frame.lastLen]
      · intro w hw _
        refine ⟨hp.ext.mem hw, fun σ => ?_⟩
        exact denN_of_same_l2v hp.frame.l2v w σ (fun a => den_ext hp.ext hW w a hw)
  | error e =>
    -- the attempt was aborted by a request: only nodes were added
    have he : e = .needsReordering := h1.1
    have ha : AbortPost { m with ctx := true } m1 := h1.2
    subst he
    -- state seen by `reorder`: flag restored, requests disabled
    let m2 : Mgr := { m1 with ctx := m.ctx, lastLen := none }
    have hI2 : Inv m2 := ⟨ha.inv.wf, ha.inv.pred, ha.inv.freeGe, ha.inv.free, ha.inv.refOne,
      ha.inv.refDom, ha.inv.cache⟩
    have hnv2 : m2.nvars = m.nvars := ha.ext.nvars.symm
    obtain ⟨m3, hre, hI3, hl3, hc3, hnv3, hkeep⟩ := hS.run m2 hI2 rfl (by omega)
    -- held operands survive: first through the aborted attempt, then through sifting
    have hheld1 : ∀ w, Held m w → Held m2 w := by
      intro w hw
      have : Held m1 w := hmono { m with ctx := true } m1 .needsReordering
        (by rw [hraw]; exact hres) w hw
      exact this
    have hmem2 : ∀ w, m.tbl.Mem w → m2.tbl.Mem w := fun w hw => ha.ext.mem hw
    have hden2 : ∀ w, m.tbl.Mem w → ∀ σ, denN m2.tbl w σ = denN m.tbl w σ := by
      intro w hw σ
      exact denN_of_same_l2v ha.frame.l2v w σ (fun a => den_ext ha.ext hW w a hw)
    have kg := hkeep g (hmem2 g hg) (hheld1 g hhg)
    have ku := hkeep u (hmem2 u hu) (hheld1 u hhu)
    have kv := hkeep v (hmem2 v hv) (hheld1 v hhv)
    -- second attempt: requests are disabled, so it cannot abort
    have h2 := iteF_spec (m3.nvars + 2) { m3 with ctx := true } g u v (hI3.setCtx true)
      kg.1 ku.1 kv.1 (by show m3.nvars + 1 ≤ _; omega)
    generalize hres2 : iteF (m3.nvars + 2) g u v { m3 with ctx := true } = res2 at h2
    obtain ⟨r2, m4⟩ := res2
    cases r2 with
    | error e2 =>
      exfalso
      have := h2.2.armed.2
      rw [show ({ m3 with ctx := true } : Mgr).lastLen = m3.lastLen from rfl, hl3] at this
      exact Bool.noConfusion this
    | ok r =>
      have hp : ItePost { m3 with ctx := true } g u v r m4 := h2
      let m5 : Mgr := { m4 with ctx := m3.ctx, lastLen := some (Gen.growthFactor * m3.len) }
      refine ⟨r, m5, ?_, ?_⟩
      · unfold ite
        exact tryToReorder_retry (iteRaw g u v) m m1 m3 m4 r hctx
          (by rw [hraw]; exact hres) hre (by rw [hraw]; exact hres2)
      · have hW3 := hI3.wf.toWF
        refine ⟨⟨hp.inv.wf, hp.inv.pred, hp.inv.freeGe, hp.inv.free, hp.inv.refOne, hp.inv.refDom,
          hp.inv.cache⟩, hp.mem, ?_, ?_, ?_, ?_⟩
        · intro σ
          have hl : m4.tbl.l2v = m3.tbl.l2v := hp.frame.l2v
          have e1 : denN m4.tbl r σ =
              if denN m3.tbl g σ then denN m3.tbl u σ else denN m3.tbl v σ := by
            unfold denN Tbl.lift Tbl.nameOf
            rw [hl, hp.den]
          show denN m4.tbl r σ = _
          rw [e1, kg.2.2 σ, ku.2.2 σ, kv.2.2 σ, hden2 g hg σ, hden2 u hu σ, hden2 v hv σ]
        · -- enabled before (the request fired), enabled after
          show (some (Gen.growthFactor * m3.len)).isSome = m.lastLen.isSome
          have := ha.armed.2
          rw [show ({ m with ctx := true } : Mgr).lastLen = m.lastLen from rfl] at this
          rw [this]; rfl
        · show m3.ctx = m.ctx
          rw [hc3]
        · intro w hw hhw
          have kw := hkeep w (hmem2 w hw) (hheld1 w hhw)
          refine ⟨hp.ext.mem kw.1, fun σ => ?_⟩
          have : denN m4.tbl w σ = denN m3.tbl w σ :=
            denN_of_same_l2v hp.frame.l2v w σ (fun a => den_ext hp.ext hW3 w a kw.1)
          show denN m4.tbl w σ = _
          rw [this, kw.2.2 σ, hden2 w hw σ]

end DD
