/-
  DDProofs.DumpTotal — `dump` cannot fail on references of the manager (audit gap 13), the
  pairs a dump writes are a bijection onto `0..n-1` (`VarsWF`), and the default
  `load(levels=True)` into a fresh or compatible manager (audit gap 6).
-/
import DDProofs.DumpJsonOrder
import DDProofs.LoadRejected
import DDProofs.SatSupport
open Std
namespace DD

/-! ### `dump` is total -/

theorem mapM_total {α β : Type} {f : α → Except Err β} :
    ∀ (l : List α), (∀ x ∈ l, ∃ y, f x = .ok y) → ∃ l', l.mapM f = .ok l' := by
  intro l h
  obtain ⟨l', e, _⟩ := mapM_forall₂ (P := fun _ _ => True) l (fun x hx => by
    obtain ⟨y, hy⟩ := h x hx; exact ⟨y, hy, trivial⟩)
  exact ⟨l', e⟩

/-- `BDD.dump(file.p, roots)` (and `roots=None`): every root a reference of the manager ⇒ a
content is written -/
theorem dumpPickle_total (m : Mgr) (hI : Inv m) (roots : Roots) (hr : ∀ u ∈ roots.values, m.tbl.Mem u) :
    ∃ f, dumpPickle m roots = .ok f := by
  have hW := hI.wf.toWF
  have hnodes : ∃ nodes, dumpNodes m.tbl roots = .ok nodes ∧
      ∀ k ∈ nodes, k = 1 ∨ (m.tbl.succ[k]?).isSome := by
    cases roots with
    | none =>
      refine ⟨allNodes m.tbl, rfl, ?_⟩
      intro k hk
      rcases List.mem_cons.mp hk with h | h
      · exact Or.inl h
      · right
        rw [TreeMap.mem_keys, TreeMap.mem_iff_isSome_getElem?] at h
        exact h
    | list l =>
      obtain ⟨nodes, e, _, _⟩ := descendants_spec' hW l hr
      refine ⟨nodes, e, ?_⟩
      intro k hk
      obtain ⟨c, _, _⟩ := descendants_spec m.tbl l nodes e
      by_cases h1 : k = 1
      · exact Or.inl h1
      · obtain ⟨n, hn, _⟩ := c k hk h1
        right; rw [hn]; rfl
    | dict d =>
      obtain ⟨nodes, e, _, _⟩ := descendants_spec' hW (Roots.dict d).values hr
      refine ⟨nodes, e, ?_⟩
      intro k hk
      obtain ⟨c, _, _⟩ := descendants_spec m.tbl (Roots.dict d).values nodes e
      by_cases h1 : k = 1
      · exact Or.inl h1
      · obtain ⟨n, hn, _⟩ := c k hk h1
        right; rw [hn]; rfl
  obtain ⟨nodes, e1, hk⟩ := hnodes
  obtain ⟨succ, e2⟩ := mapM_total (f := entryOf m.tbl) nodes (fun k hkk => by
    unfold entryOf
    by_cases h1 : k = 1
    · exact ⟨⟨1, m.tbl.nvars, none, none⟩, by simp [h1]⟩
    · rcases hk k hkk with h | h
      · exact absurd h h1
      · obtain ⟨n, hn⟩ := Option.isSome_iff_exists.mp h
        exact ⟨⟨k, n.lvl, some n.lo, some n.hi⟩, by simp [h1, hn]⟩)
  exact ⟨{ vars := m.tbl.vars.toList, succ := succ, roots := roots }, by
    unfold dumpPickle; rw [e1]; simp only [e2]⟩

theorem dumpJsonF_total (t : Tbl) (hw : WF t) :
    ∀ (f : Nat) (u : Int) (cache : List Nat) (out : List JLine), t.Mem u →
      t.nvars + 1 ≤ f + t.levelOf u → ∃ r, dumpJsonF t f u cache out = .ok r := by
  intro f
  induction f with
  | zero => intro u _ _ _ hf; have := levelOf_le t hw u; omega
  | succ f ih =>
    intro u cache out hm hf
    unfold dumpJsonF
    by_cases h1 : u.natAbs = 1
    · exact ⟨(cache, out), by simp [h1]⟩
    simp only [h1, if_false]
    by_cases hc : cache.contains u.natAbs = true
    · exact ⟨(cache, out), by rw [if_pos hc]⟩
    rw [if_neg hc]
    rcases hm with h | h
    · exact absurd h h1
    obtain ⟨n, hn⟩ := Option.isSome_iff_exists.mp h
    have hn' : t.succ[u.natAbs]? = some n := hn
    simp only [hn']
    have hlv : t.levelOf u = n.lvl := by simp [Tbl.levelOf, h1, hn]
    have hlo := hw.lo_lt _ _ hn
    have hhi := hw.hi_lt _ _ hn
    obtain ⟨r1, e1⟩ := ih n.lo cache out (hw.lo_mem _ _ hn) (by omega)
    rw [e1]
    obtain ⟨c1, o1⟩ := r1
    dsimp only
    obtain ⟨r2, e2⟩ := ih n.hi c1 o1 (hw.hi_mem _ _ hn) (by omega)
    rw [e2]
    obtain ⟨c2, o2⟩ := r2
    exact ⟨(u.natAbs :: c2, o2 ++ [⟨u.natAbs, n.lvl, n.lo, n.hi⟩]), rfl⟩

theorem dumpJsonRoots_total (t : Tbl) (hw : WF t) :
    ∀ (us : List Int) (cache : List Nat) (out : List JLine), (∀ u ∈ us, t.Mem u) →
      ∃ r, dumpJsonRoots t us cache out = .ok r := by
  intro us
  induction us with
  | nil => intro cache out _; exact ⟨_, rfl⟩
  | cons u rest ih =>
    intro cache out hm
    obtain ⟨r1, e1⟩ := dumpJsonF_total t hw (t.nvars + 2) u cache out (hm u List.mem_cons_self)
      (by have := levelOf_le t hw u; omega)
    obtain ⟨c1, o1⟩ := r1
    obtain ⟨r2, e2⟩ := ih c1 o1 (fun x hx => hm x (List.mem_cons_of_mem _ hx))
    exact ⟨r2, by rw [dumpJsonRoots, e1]; exact e2⟩

/-- `autoref.BDD.dump(file.json, roots)`: a non-empty container of references of the manager ⇒
a content is written -/
theorem dumpJson_total (m : Mgr) (hI : Inv m) (roots : Roots) (hn : roots ≠ .none)
    (hne : roots.values ≠ []) (hr : ∀ u ∈ roots.values, m.tbl.Mem u) :
    ∃ f, dumpJson m roots = .ok f := by
  obtain ⟨⟨c, out⟩, e⟩ := dumpJsonRoots_total m.tbl hI.wf.toWF roots.values [] [] hr
  have h1 : roots.values.any (fun u => !m.mem u) = false := by
    rw [List.any_eq_false]
    intro u hu
    simp [(Mgr.mem_iff m u).mpr (hr u hu)]
  have h2 : roots.values.isEmpty = false := by
    cases hv : roots.values with
    | nil => exact absurd hv hne
    | cons _ _ => rfl
  refine ⟨{ levelOfVar := m.tbl.vars.toList, roots := roots, nodes := out }, ?_⟩
  unfold dumpJson
  cases roots with
  | none => exact absurd rfl hn
  | list l => simp only [h1, h2, Bool.false_eq_true, if_false, e]
  | dict d => simp only [h1, h2, Bool.false_eq_true, if_false, e]

/-! ### the pairs a dump writes -/

theorem varsWF_toList (t : Tbl) (hv : DmpVarsOK t) : VarsWF t.vars.toList := by
  have hp := toList_pairwise t hv.bij
  refine ⟨?_, ?_, ?_⟩
  · rw [List.Nodup, List.pairwise_map]; exact hp.imp (fun h => h.1)
  · rw [List.Nodup, List.pairwise_map]; exact hp.imp (fun h => h.2)
  · intro var i hm
    rw [TreeMap.mem_toList_iff_getElem?_eq_some] at hm
    have := hv.contig var i hm
    rw [TreeMap.length_toList]
    exact this

theorem dumpPickle_varsWF {m : Mgr} (hv : DmpVarsOK m.tbl) {roots : Roots} {f : PickleFile}
    (h : dumpPickle m roots = .ok f) : VarsWF f.vars := by
  rw [(dumpPickle_parts h).1]; exact varsWF_toList m.tbl hv

/-! ### `load(levels=True)`: no hypothesis about the loader's intermediate state -/

/-- `BDD.load(file, levels=True)` (the default) of ANY well-formed content whose pairs are a
bijection, into a manager with a bijective order that passes the pre-check (a fresh manager, or
one with some of the file's variables at the file's levels and the other levels free): returns;
invariant, order a bijection, counts exact for the same ledger, old nodes kept, roots by name -/
theorem pickle_load_levels (f : PickleFile) (hwf : PickleWF f) (hV : VarsWF f.vars)
    (hr : RootsResolvable f) (m : Mgr) (hI : Inv m) (hO : OrderOK m.tbl) (hc : m.ctx = false)
    (hcomp : levelsCompatible m.tbl f.vars = true) :
    ∃ roots' m', loadPickle f true m = (.ok roots', m') ∧ Inv m' ∧ OrderOK m'.tbl ∧
      (∀ ext, RefExact m ext → RefExact m' ext) ∧
      (∀ var i, (var, i) ∈ f.vars → m'.tbl.vars[var]? = some i) ∧
      (∀ u n, m.tbl.node? u = some n → m'.tbl.node? u = some n) ∧ LoadedFrom f m'.tbl roots' := by
  obtain ⟨lm, m1, hv, O1, N1, _⟩ := loadVars_true_total f.vars hV m hO hcomp
  obtain ⟨roots', m', e, I, _, _, _, N, R⟩ :=
    pickle_load f true m hI hO.inv hc hwf hr lm m1 hv O1.lt (fun _ => hV.perm)
  have L := loadPickle_leaves f true m hI hc
  rw [e] at L
  refine ⟨roots', m', e, I, L.order hO (fun _ => hV.names), L.counts, ?_, N, R⟩
  intro var i hm
  -- the tables of `m'` are those of `m1`: `KeptV` from `m1` on is `Kept`
  have hk : ∀ (v : String) (l : Nat), m1.tbl.vars[v]? = some l → m'.tbl.vars[v]? = some l := by
    rw [loadPickle_of_compat f true m (fun _ => ⟨hV.perm, hcomp⟩)] at e
    unfold loadPickleBody at e
    rw [hv] at e
    dsimp only at e
    have c1 : m1.ctx = false := by
      have := (loadVars_keptV true f.vars.length f.vars [] m hI).1
      rw [hv] at this; rw [this.ctx]; exact hc
    have I1 : Inv m1 := by
      have := (loadVars_keptV true f.vars.length f.vars [] m hI).1
      rw [hv] at this; exact this.inv
    have k2 := loadAll_keptR f.succ lm (f.vars.length + f.succ.length + 2) f.succ {} m1 I1 c1
    cases h2 : loadAll f.succ lm (f.vars.length + f.succ.length + 2) f.succ {} m1 with
    | mk r2 m2 =>
      rw [h2] at e k2
      cases r2 with
      | error er => simp at e
      | ok umap =>
        simp only [Prod.mk.injEq] at e
        obtain ⟨_, rfl⟩ := e
        intro v l hvl
        rw [k2.frame.vars]; exact hvl
  exact hk var i (N1 var i hm)

/-- C12, pickle, the DEFAULT call `dump(file, roots)` then `load(file)` (`levels=True`) — no
hypothesis that the dump or the loader's first loop succeeds: for references of `src`, into a
FRESH manager or any manager that passes the pre-check -/
theorem pickle_roundtrip_levels (src : Mgr) (hIs : Inv src) (hOs : OrderOK src.tbl) (roots : Roots)
    (hroots : ∀ u ∈ roots.values, src.tbl.Mem u)
    (tgt : Mgr) (hI : Inv tgt) (hO : OrderOK tgt.tbl) (hc : tgt.ctx = false)
    (hcomp : levelsCompatible tgt.tbl src.tbl.vars.toList = true) :
    ∃ f roots' m', dumpPickle src roots = .ok f ∧ loadPickle f true tgt = (.ok roots', m') ∧
      Inv m' ∧ OrderOK m'.tbl ∧ (∀ ext, RefExact tgt ext → RefExact m' ext) ∧
      (∀ (v : String) (i : Nat), src.tbl.vars[v]? = some i → m'.tbl.vars[v]? = some i) ∧
      (∀ u n, tgt.tbl.node? u = some n → m'.tbl.node? u = some n) ∧
      LoadedAs src.tbl roots m'.tbl roots' := by
  have hvs : DmpVarsOK src.tbl := hOs.toDmp
  obtain ⟨f, hd⟩ := dumpPickle_total src hIs roots hroots
  have hfv := (dumpPickle_parts hd).1
  obtain ⟨roots', m', e, I, O, X, V, N, R⟩ := pickle_load_levels f (dumpPickle_wf hIs hvs hd)
    (dumpPickle_varsWF hvs hd) (dumpPickle_resolvable hIs hd) tgt hI hO hc (by rw [hfv]; exact hcomp)
  refine ⟨f, roots', m', hd, e, I, O, X, ?_, N, loadedAs_of_loadedFrom hIs hvs hd R⟩
  intro v i hvi
  apply V
  rw [hfv, TreeMap.mem_toList_iff_getElem?_eq_some]; exact hvi

/-- the same into the fresh manager `BDD()` -/
theorem pickle_roundtrip_fresh (src : Mgr) (hIs : Inv src) (hOs : OrderOK src.tbl) (roots : Roots)
    (hroots : ∀ u ∈ roots.values, src.tbl.Mem u) :
    ∃ f roots' m', dumpPickle src roots = .ok f ∧ loadPickle f true {} = (.ok roots', m') ∧
      Inv m' ∧ OrderOK m'.tbl ∧ RefExact m' (fun _ => 0) ∧
      (∀ (v : String) (i : Nat), src.tbl.vars[v]? = some i → m'.tbl.vars[v]? = some i) ∧
      LoadedAs src.tbl roots m'.tbl roots' := by
  obtain ⟨f, roots', m', hd, e, I, O, X, V, _, R⟩ := pickle_roundtrip_levels src hIs hOs roots hroots {}
    Inv.init OrderOK.empty rfl (levelsCompatible_fresh _)
  exact ⟨f, roots', m', hd, e, I, O, X _ GoodState.init.exact, V, R⟩

/-- C12, JSON round trip without the hypothesis that the dump succeeds -/
theorem json_roundtrip_total (src : Mgr) (hIs : Inv src) (hOs : OrderOK src.tbl) (roots : Roots)
    (hn : roots ≠ .none) (hne : roots.values ≠ []) (hroots : ∀ u ∈ roots.values, src.tbl.Mem u)
    (lo : Bool) (tgt : Mgr) (e : Nat → Nat) (hg : GoodState tgt e) (hpn : PredNodes tgt)
    (hr : ∀ r ∈ tgt.roots, tgt.tbl.Mem r)
    (hlo : lo = true → tgt.sched = [] ∧ (∀ r ∈ tgt.roots, 0 < e r.natAbs) ∧
      ∀ v : String, tgt.tbl.vars.contains v = true → src.tbl.vars.contains v = true) :
    ∃ f roots' m', dumpJson src roots = .ok f ∧ loadJson f lo tgt = (.ok roots', m') ∧
      JsonLoaded f e lo roots' m' ∧ LoadedAs src.tbl roots m'.tbl roots' := by
  obtain ⟨f, hd⟩ := dumpJson_total src hIs roots hn hne hroots
  obtain ⟨roots', m', el, L, R⟩ := json_roundtrip_holds src roots f lo tgt e hIs hOs.toDmp hd hg hpn hr hlo
  exact ⟨f, roots', m', hd, el, L, R⟩

end DD
