/-
  DDProofs.AutoValues2 — what the METHODS OF `autoref.BDD` return (`var`, `ite`, `apply`,
  `quantify` / `exist` / `forall`, `let` in its three forms, `cube`, `add_expr`), in both modes.

  The documented results BY VARIABLE NAME are the `…Doc` predicates of the C09 development
  (`IteDoc`, `ConnDoc`, `Ite3Doc`, `VarDoc`, `QuantDoc`, `CofDoc`, `ComposeDoc`, `RenameDoc`,
  `CubeDoc`, `ExprDoc`).  With reordering possibly enabled they come from the transparency
  theorems; with reordering not enabled from the same abort-aware body lemmas through
  `tryToReorder_off_doc` (no request can fire, so the body returns) — hence for EVERY state of
  the mode, also with fewer than two variables.
-/
import DDProofs.AutoValues
import DDProofs.ImageDynTotal
open Std

namespace DD

variable {off : Bool}

/-! ### the decorator when reordering is not enabled -/

/-- counterpart of `tryToReorder_transparent` for `_last_len = None`: no request fires, the body
returns its documented result -/
theorem tryToReorder_off_doc {α} (f : M α) (ops : List Int) (Pre : Tbl → Prop)
    (Doc : Tbl → α → Tbl → Prop)
    (hbody : ∀ m0 : Mgr, Inv m0 → m0.ctx = true → OrderOK m0.tbl → Pre m0.tbl →
      (∀ u ∈ ops, m0.tbl.Mem u) → Outcome m0 (fun r m1 => Doc m0.tbl r m1.tbl) (f m0))
    (m : Mgr) (hI : Inv m) (hO : OrderOK m.tbl) (hoff : m.lastLen = none)
    (hops : ∀ u ∈ ops, m.tbl.Mem u) (hpre0 : Pre m.tbl) :
    ∃ r m', tryToReorder f m = (.ok r, m') ∧ Doc m.tbl r m'.tbl := by
  have h1 := hbody { m with ctx := true } (hI.setCtx true) rfl hO hpre0 hops
  rcases h1.cases with ⟨r, m1, he, _, hd⟩ | ⟨m1, _, _, ha⟩
  · exact ⟨r, { m1 with ctx := m.ctx }, tryToReorder_ok f m r m1 he, hd⟩
  · exfalso
    have := ha.2
    rw [show ({ m with ctx := true } : Mgr).lastLen = m.lastLen from rfl, hoff] at this
    exact Bool.noConfusion this

/-! ### the documented result of each core operation, both modes -/

theorem ite_doc : ∀ (off : Bool) (a : AMgr), AInv off a → Two off a → ∀ (g u v : Int) (jg ju jv : Nat),
    a.handles[jg]? = some g → a.handles[ju]? = some u → a.handles[jv]? = some v →
    ∃ r m', ite g u v a.m = (.ok r, m') ∧ IteDoc g u v a.m.tbl r m'.tbl
  | false => fun a hi ht g u v jg ju jv hg hu hv => by
    obtain ⟨r, m', he, hp⟩ := C09_ite_transparent (hext a) a.m (hi.minv.dynInv (ht rfl)) g u v
      (heldX_of_handle a hg) (heldX_of_handle a hu) (heldX_of_handle a hv)
    exact ⟨r, m', he, hp.doc⟩
  | true => fun a hi _ g u v jg ju jv hg hu hv => by
    unfold ite
    refine tryToReorder_off_doc (iteRaw g u v) [g, u, v] (fun _ => True) (IteDoc g u v) ?_
      a.m hi.inv hi.order (hi.mode rfl) ?_ trivial
    · intro m0 hI0 _ _ _ hmem
      have mg := hmem g (by simp)
      have mu := hmem u (by simp)
      have mv := hmem v (by simp)
      rw [iteRaw_eq]
      refine (iteF_out (m0.nvars + 2) m0 g u v hI0 mg mu mv (by omega)).mono ?_
      intro r m1 _ hp
      refine ⟨hp.mem, fun σ => ?_⟩
      have hl : m1.tbl.l2v = m0.tbl.l2v := hp.frame.l2v
      unfold denN Tbl.lift Tbl.nameOf
      rw [hl, hp.den]
    · intro w hw
      simp only [List.mem_cons, List.not_mem_nil, or_false] at hw
      rcases hw with rfl | rfl | rfl
      · exact hi.hmem jg _ hg
      · exact hi.hmem ju _ hu
      · exact hi.hmem jv _ hv

theorem var_doc : ∀ (off : Bool) (a : AMgr), AInv off a → Two off a → ∀ (name : String),
    a.m.tbl.vars.contains name = true →
    ∃ r m', var name a.m = (.ok r, m') ∧ VarDoc name a.m.tbl r m'.tbl
  | false => fun a hi ht name hd => by
    obtain ⟨r, m', he, hp⟩ := C09_var_transparent (hext a) a.m (hi.minv.dynInv (ht rfl)) name hd
    exact ⟨r, m', he, hp.doc⟩
  | true => fun a hi _ name hdecl => by
    rw [var_eq_dynVarBody]
    refine tryToReorder_off_doc (dynVarBody name) [] (fun t => t.vars.contains name = true)
      (VarDoc name) ?_ a.m hi.inv hi.order (hi.mode rfl) (fun _ h => by cases h) hdecl
    intro m0 hI0 _ hO hpre _
    obtain ⟨j, hj⟩ := (vars_contains_iff m0.tbl name).mp hpre
    have hb : dynVarBody name m0 = findOrAdd (j : Int) (-1) 1 m0 := by
      simp [dynVarBody, bind, M.bind', M.get, hj]
    rw [hb]
    refine (varNode_out m0 hI0 j (hO.lt name j hj)).mono ?_
    intro g m1 hs ⟨hg, _, hd⟩
    refine ⟨hg, fun σ => ?_⟩
    unfold denN
    rw [hd]
    show σ (m1.tbl.nameOf j) = σ name
    have hl : m1.tbl.l2v = m0.tbl.l2v := hs.frame.l2v
    have : m1.tbl.nameOf j = name := by
      unfold Tbl.nameOf; rw [hl]; exact hO.nameOf_level hj
    rw [this]

theorem quantify_doc : ∀ (off : Bool) (a : AMgr), AInv off a → Two off a → ∀ (u : Int) (ju : Nat),
    a.handles[ju]? = some u → ∀ (fa : Bool) (names : List String),
    (∀ s ∈ names, a.m.tbl.vars.contains s = true) →
    ∃ r m', quantify u (names.map Key.name) fa a.m = (.ok r, m') ∧
      QuantDoc fa names u a.m.tbl r m'.tbl
  | false => fun a hi ht u ju hu fa names hd => by
    obtain ⟨r, m', he, hp⟩ := C09_quantify_transparent (hext a) a.m (hi.minv.dynInv (ht rfl)) u
      (heldX_of_handle a hu) fa names hd
    exact ⟨r, m', he, hp.doc⟩
  | true => fun a hi _ u ju hu fa names hdecl => by
    unfold quantify
    refine tryToReorder_off_doc (quantifyBody u (names.map Key.name) fa) [u]
      (fun t => ∀ s ∈ names, t.vars.contains s = true) (QuantDoc fa names u) ?_
      a.m hi.inv hi.order (hi.mode rfl) ?_ hdecl
    · intro m0 hI0 hc hO hpre hmem
      exact quantifyBody_out m0 hI0 (Or.inl hc) hO u (hmem u (by simp)) fa names hpre
    · intro w hw
      simp only [List.mem_cons, List.not_mem_nil, or_false] at hw
      subst hw; exact hi.hmem ju _ hu

theorem cofactor_doc : ∀ (off : Bool) (a : AMgr), AInv off a → Two off a → ∀ (u : Int) (ju : Nat),
    a.handles[ju]? = some u → ∀ (vals : List (String × Bool)),
    (∀ p ∈ vals, a.m.tbl.vars.contains p.1 = true) →
    ∃ r m', cofactor u (boolKeys vals) a.m = (.ok r, m') ∧ CofDoc vals u a.m.tbl r m'.tbl
  | false => fun a hi ht u ju hu vals hd => by
    obtain ⟨r, m', he, hp⟩ := C09_cofactor_transparent (hext a) a.m (hi.minv.dynInv (ht rfl)) u
      (heldX_of_handle a hu) vals hd
    exact ⟨r, m', he, hp.doc⟩
  | true => fun a hi _ u ju hu vals hdecl => by
    unfold cofactor
    refine tryToReorder_off_doc (cofactorBody u (boolKeys vals)) [u]
      (fun t => ∀ p ∈ vals, t.vars.contains p.1 = true) (CofDoc vals u) ?_
      a.m hi.inv hi.order (hi.mode rfl) ?_ hdecl
    · intro m0 hI0 _ hO hpre hmem
      exact cofactorBody_out m0 hI0 hO u (hmem u (by simp)) vals hpre
    · intro w hw
      simp only [List.mem_cons, List.not_mem_nil, or_false] at hw
      subst hw; exact hi.hmem ju _ hu

theorem compose_doc : ∀ (off : Bool) (a : AMgr), AInv off a → Two off a → ∀ (f : Int) (jf : Nat),
    a.handles[jf]? = some f → ∀ (varSub : List (String × Int)),
    (∀ p ∈ varSub, a.m.tbl.vars.contains p.1 = true) →
    (∀ p ∈ varSub, ∃ j : Nat, a.handles[j]? = some p.2) →
    ∃ r m', compose f varSub a.m = (.ok r, m') ∧ ComposeDoc varSub f a.m.tbl r m'.tbl
  | false => fun a hi ht f jf hf varSub hd hh => by
    obtain ⟨r, m', he, hp⟩ := C09_compose_transparent (hext a) a.m (hi.minv.dynInv (ht rfl)) f
      (heldX_of_handle a hf) varSub hd
      (fun p hp => by obtain ⟨j, hj⟩ := hh p hp; exact heldX_of_handle a hj)
    exact ⟨r, m', he, hp.doc⟩
  | true => fun a hi _ f jf hf varSub hdecl hh => by
    unfold compose
    refine tryToReorder_off_doc (composeBody f varSub) (f :: varSub.map (·.2))
      (fun t => ∀ p ∈ varSub, t.vars.contains p.1 = true) (ComposeDoc varSub f) ?_
      a.m hi.inv hi.order (hi.mode rfl) ?_ hdecl
    · intro m0 hI0 hc hO hpre hmem
      exact composeBody_out m0 hI0 (Or.inl hc) hO f (hmem f List.mem_cons_self) varSub hpre
        (fun p hp => hmem p.2 (List.mem_cons_of_mem _ (List.mem_map.mpr ⟨p, hp, rfl⟩)))
    · intro w hw
      rcases List.mem_cons.mp hw with rfl | hw
      · exact hi.hmem jf _ hf
      · obtain ⟨p, hp, rfl⟩ := List.mem_map.mp hw
        obtain ⟨j, hj⟩ := hh p hp
        exact hi.hmem j _ hj

theorem rename_doc : ∀ (off : Bool) (a : AMgr), AInv off a → Two off a → ∀ (u : Int) (ju : Nat),
    a.handles[ju]? = some u → ∀ (dvars : List (String × String)),
    (∀ p ∈ dvars, a.m.tbl.vars.contains p.2 = true) →
    ∃ r m', rename u dvars a.m = (.ok r, m') ∧ RenameDoc dvars u a.m.tbl r m'.tbl
  | false => fun a hi ht u ju hu dvars hd => by
    obtain ⟨r, m', he, hp⟩ := C09_rename_transparent (hext a) a.m (hi.minv.dynInv (ht rfl)) u
      (heldX_of_handle a hu) dvars hd
    exact ⟨r, m', he, hp.doc⟩
  | true => fun a hi _ u ju hu dvars hd => by
    unfold rename
    refine tryToReorder_off_doc (renameBody u dvars) [u]
      (fun t => ∀ p ∈ dvars, t.vars.contains p.2 = true) (RenameDoc dvars u) ?_
      a.m hi.inv hi.order (hi.mode rfl) ?_ hd
    · intro m0 hI0 hc hO hpre hmem
      exact renameBody_out m0 hI0 (Or.inl hc) hO u (hmem u (by simp)) dvars hpre
    · intro w hw
      simp only [List.mem_cons, List.not_mem_nil, or_false] at hw
      subst hw; exact hi.hmem ju _ hu

theorem cube_doc : ∀ (off : Bool) (a : AMgr), AInv off a → Two off a → ∀ (dvars : List (String × Bool)),
    (∀ p ∈ dvars, a.m.tbl.vars.contains p.1 = true) →
    ∃ r m', cube dvars a.m = (.ok r, m') ∧ CubeDoc dvars a.m.tbl r m'.tbl
  | false => fun a hi ht dvars hd => by
    obtain ⟨r, m', he, hp⟩ := C09_cube_transparent (hext a) a.m (hi.minv.dynInv (ht rfl)) dvars hd
    exact ⟨r, m', he, hp.doc⟩
  | true => fun a hi _ dvars hdecl => by
    rw [cube_eq]
    refine tryToReorder_off_doc (cubeBody dvars) []
      (fun t => ∀ p ∈ dvars, t.vars.contains p.1 = true) (CubeDoc dvars) ?_
      a.m hi.inv hi.order (hi.mode rfl) (fun _ h => by cases h) hdecl
    intro m0 hI0 hc hO hpre _
    exact cubeBody_out m0 hI0 hc hO dvars hpre

theorem apply_ite_doc : ∀ (off : Bool) (a : AMgr), AInv off a → Two off a → ∀ (op : String),
    docConn op = some .ite → Gen.allOps.contains op = true → ∀ (u v w : Int) (ju jv jw : Nat),
    a.handles[ju]? = some u → a.handles[jv]? = some v → a.handles[jw]? = some w →
    ∃ r m', apply op u (some v) (some w) a.m = (.ok r, m') ∧ Ite3Doc u v w a.m.tbl r m'.tbl
  | false => fun a hi ht op hc hall u v w ju jv jw hu hv hw => by
    obtain ⟨r, m', he, hp⟩ := C09_apply_ite_transparent (hext a) a.m (hi.minv.dynInv (ht rfl)) op hc hall
      u v w (heldX_of_handle a hu) (heldX_of_handle a hv) (heldX_of_handle a hw)
    exact ⟨r, m', he, hp.doc⟩
  | true => fun a hi _ op hc hall u v w ju jv jw hu hv hw => by
    obtain ⟨r, m', he, _, _, hr, hfr, hd⟩ := apply_ite_spec a.m hi.inv (hi.mode rfl) op hc hall
      u v w (hi.hmem ju u hu) (hi.hmem jv v hv) (hi.hmem jw w hw)
    refine ⟨r, m', he, hr, fun σ => ?_⟩
    have hl : m'.tbl.lift σ = a.m.tbl.lift σ := by
      funext i; unfold Tbl.lift Tbl.nameOf; rw [hfr.l2v]
    show den m'.tbl r (m'.tbl.lift σ) = _
    rw [hd, hl]
    rfl

/-- `apply` with a quantifier alias is `quantify` of the SECOND operand over the support of the
first (any mode: a computation) -/
theorem apply_quant_eq (m : Mgr) (op : String) (c : Conn) (hc : docConn op = some c)
    (hq : c = .forall_ ∨ c = .exists_) (hall : Gen.allOps.contains op = true)
    (u v : Int) (hu : m.tbl.Mem u) (mv : m.tbl.Mem v)
    (names : List String) (hsupp : support m.tbl u = .ok names) :
    apply op u (some v) none m = quantify v (names.map Key.name) (decide (c = .forall_)) m := by
  obtain ⟨row, hrow, ht⟩ := table_quant op c hc hq hall
  have hv' := vocab_complete
  unfold vocabComplete at hv'
  simp only [Bool.and_eq_true, List.all_eq_true] at hv'
  have hmem : op ∈ Gen.allOps := by simpa using hall
  have har := hv'.2 op hmem
  rw [hc] at har
  have h2 : c.arity = 2 := by rcases hq with h | h <;> subst h <;> rfl
  simp only [h2, Bool.and_eq_true, beq_iff_eq] at har
  have hun : Gen.unaryOps.contains op = false := by
    have := har.1.1; simpa using this.symm
  have hbi : Gen.binaryOps.contains op = true := by
    have := har.1.2; simpa using this.symm
  have harity : assertOperatorArity op (some v) none = .ok () := by
    unfold assertOperatorArity
    rw [hall, hun, hbi]
    rfl
  unfold apply
  have hmu : m.mem u = true := (Mgr.mem_iff m u).mpr hu
  have hmv : m.mem v = true := (Mgr.mem_iff m v).mpr mv
  simp only [harity, hmu, hmv, optNotMem, Bool.not_true, Bool.false_eq_true, if_false, hrow, ht,
    atomVal, hsupp]

/-- `apply(op, u, v)` with `op` one of `\A`, `\E`, `forall`, `exists`: there is a list `names`
(the answer of `support(u)`, all declared) such that the result is the quantification of `v`
over `names` -/
theorem apply_quant_doc (off : Bool) (a : AMgr) (hi : AInv off a) (ht : Two off a) (op : String) (c : Conn)
    (hc : docConn op = some c) (hq : c = .forall_ ∨ c = .exists_)
    (hall : Gen.allOps.contains op = true) (u v : Int) (ju jv : Nat)
    (hu : a.handles[ju]? = some u) (hv : a.handles[jv]? = some v) :
    ∃ names, support a.m.tbl u = .ok names ∧ (∀ s ∈ names, a.m.tbl.vars.contains s = true) ∧
      ∃ r m', apply op u (some v) none a.m = (.ok r, m') ∧
        QuantDoc (decide (c = .forall_)) names v a.m.tbl r m'.tbl := by
  have mu := hi.hmem ju u hu
  have mv := hi.hmem jv v hv
  obtain ⟨names, hsupp, hdecl⟩ := support_declared a.m hi.inv hi.order u mu
  refine ⟨names, hsupp, hdecl, ?_⟩
  rw [apply_quant_eq a.m op c hc hq hall u v mu mv names hsupp]
  exact quantify_doc off a hi ht v jv hv _ names hdecl

theorem addExpr_doc : ∀ (off : Bool) (a : AMgr), AInv off a → Two off a → ∀ (s : String) (t : Ast),
    parse (tokenize s) = some t → Meaningful a.m.tbl t →
    (∀ u ∈ t.atNodes, ∃ j : Nat, a.handles[j]? = some u) →
    ∃ r m', addExpr s a.m = (.ok r, m') ∧ ExprDoc t a.m.tbl r m'.tbl
  | false => fun a hi ht s t hp hM hh => by
    obtain ⟨r, m', he, hpost⟩ := C09_addExpr_transparent (hext a) a.m (hi.minv.dynInv (ht rfl)) s t hp hM
      (fun u hu => by obtain ⟨j, hj⟩ := hh u hu; exact heldX_of_handle a hj)
    exact ⟨r, m', he, hpost.doc⟩
  | true => fun a hi _ s t hp hM _ => by
    unfold addExpr
    rw [addExprToks_of_parse hp]
    refine tryToReorder_off_doc (evalAst t) [] (fun T => Meaningful T t) (ExprDoc t) ?_
      a.m hi.inv hi.order (hi.mode rfl) (fun _ h => by cases h) hM
    intro m0 hI0 hc hO hpre _
    exact evalAst_out t m0 hI0 hc hO hpre

/-! ### every core operation keeps the invariant, both modes, arbitrary arguments -/

theorem ite_keepsAll : ∀ off g u v, CoreKeeps off (ite g u v)
  | true, g, u, v => ite_keepsOff g u v
  | false, g, u, v => ite_keepsDyn g u v
theorem apply_keepsAll : ∀ off op u v w, CoreKeeps off (apply op u v w)
  | true, op, u, v, w => apply_keepsOff op u v w
  | false, op, u, v, w => apply_keepsDyn op u v w
theorem var_keepsAll : ∀ off name, CoreKeeps off (var name)
  | true, n => var_keepsOff n
  | false, n => var_keepsDyn n
theorem quantify_keepsAll : ∀ off u q fa, CoreKeeps off (quantify u q fa)
  | true, u, q, fa => quantify_keepsOff u q fa
  | false, u, q, fa => quantify_keepsDyn u q fa
theorem letOp_keepsAll : ∀ off d u, CoreKeeps off (letOp d u)
  | true, d, u => letOp_keepsOff d u
  | false, d, u => letOp_keepsDyn d u
theorem cube_keepsAll : ∀ off d, CoreKeeps off (cube d)
  | true, d => cube_keepsOff d
  | false, d => cube_keepsDyn d
theorem addExpr_keepsAll : ∀ off s, CoreKeeps off (addExpr s)
  | true, s => addExpr_keepsOff s
  | false, s => addExpr_keepsDyn s

/-! ### from the core operation to the method of `autoref.BDD` -/

/-- what holds of the result `r` and the final state `a'` of a method that returns a new
`Function` `h`: the handle sits on `r`; `r` is documented by `Doc` relative to the table of the
call; the invariant (count equation included) holds; no other handle is touched; every
`Function` that was alive keeps its meaning by name -/
def AResult (off : Bool) (a : AMgr) (h : Nat) (Doc : Tbl → Int → Tbl → Prop) (r : Int)
    (a' : AMgr) : Prop :=
  a'.handles[h]? = some r ∧ Doc a.m.tbl r a'.m.tbl ∧ AInv off a' ∧
  (∀ j : Nat, j ≠ h → a'.handles[j]? = a.handles[j]?) ∧
  (∀ (j : Nat) (w : Int), a.handles[j]? = some w →
    a'.m.tbl.Mem w ∧ ∀ σ, denN a'.m.tbl w σ = denN a.m.tbl w σ)

/-- the method returns, and `AResult` -/
def AValue (off : Bool) (a : AMgr) (h : Nat) (x : AM Int) (Doc : Tbl → Int → Tbl → Prop) : Prop :=
  ∃ (r : Int) (a' : AMgr), x a = (.ok r, a') ∧ AResult off a h Doc r a'

theorem AValue.of_eq {a : AMgr} {h : Nat} {x y : AM Int} {Doc : Tbl → Int → Tbl → Prop}
    (he : x a = y a) (hv : AValue off a h y Doc) : AValue off a h x Doc := by
  unfold AValue at *
  rw [he]; exact hv

/-- `r = self._bdd.<op>(...); return self._wrap(r)` around a core operation that returns its
documented result -/
theorem wrapResult_value (a : AMgr) (hi : AInv off a) (h : Nat)
    (hf : a.handles.contains h = false) (core : M Int) (Doc : Tbl → Int → Tbl → Prop)
    (hk : CoreKeepsAt off a.m core) (hmem : ∀ t r t', Doc t r t' → t'.Mem r)
    (hd : ∃ r m', core a.m = (.ok r, m') ∧ Doc a.m.tbl r m'.tbl) :
    AValue off a h (wrapResult h core) Doc := by
  obtain ⟨r, m', he, hdoc⟩ := hd
  have h1 := liftM_eval (a := a) he
  obtain ⟨i1, _, _⟩ := liftM_total a hk hi _ _ h1
  obtain ⟨a', hw, _, ht, hh, _⟩ := wrap_spec { a with m := m' } h r i1 hf (hmem _ _ _ hdoc)
  have heq : wrapResult h core a = (.ok r, a') := by
    unfold wrapResult
    rw [AM.bind_ok h1, AM.bind_ok hw]
    rfl
  obtain ⟨i', hs', hd'⟩ := wrapResult_keepsAt a hk h hi hf _ _ heq
  exact ⟨r, a', heq, by rw [hh]; exact TreeMap.getElem?_insert_self, by rw [ht]; exact hdoc,
    i', hs', hd'⟩

theorem nodeIn_eval {a : AMgr} (hi : AInv off a) {h : Nat} {u : Int}
    (hu : a.handles[h]? = some u) : nodeIn h a = (.ok u, a) := by
  have hm : a.m.mem u = true := (Mgr.mem_iff a.m u).mpr (hi.hmem h u hu)
  unfold nodeIn
  rw [AM.bind_ok (nodeSame_eval hu), AM.bind_ok (show AM.get a = (.ok a, a) from rfl)]
  have hc : AM.check (a.m.mem u) .value a = (.ok (), a) := by rw [hm]; rfl
  rw [AM.bind_ok hc]
  rfl

theorem optNodeIn_eval {a : AMgr} (hi : AInv off a) {h : Nat} {u : Int}
    (hu : a.handles[h]? = some u) : optNode nodeIn (some h) a = (.ok (some u), a) := by
  show (nodeIn h >>= fun u => pure (some u)) a = _
  rw [AM.bind_ok (nodeIn_eval hi hu)]
  rfl

/-! ### the methods -/

theorem aVar_value (a : AMgr) (hi : AInv off a) (ht : Two off a) (name : String) (h : Nat)
    (hf : a.handles.contains h = false) (hd : a.m.tbl.vars.contains name = true) :
    AValue off a h (aVar name h) (VarDoc name) :=
  wrapResult_value a hi h hf (var name) (VarDoc name) ((var_keepsAll off name).at a.m)
    (fun _ _ _ d => d.1) (var_doc off a hi ht name hd)

theorem aIte_value (a : AMgr) (hi : AInv off a) (ht : Two off a) (jg ju jv h : Nat)
    (hf : a.handles.contains h = false) (g u v : Int)
    (hg : a.handles[jg]? = some g) (hu : a.handles[ju]? = some u) (hv : a.handles[jv]? = some v) :
    AValue off a h (aIte jg ju jv h) (IteDoc g u v) := by
  refine AValue.of_eq ?_ (wrapResult_value a hi h hf (ite g u v) (IteDoc g u v)
    ((ite_keepsAll off g u v).at a.m) (fun _ _ _ d => d.1) (ite_doc off a hi ht g u v jg ju jv hg hu hv))
  unfold aIte
  rw [AM.bind_ok (nodeIn_eval hi hg), AM.bind_ok (nodeIn_eval hi hu), AM.bind_ok (nodeIn_eval hi hv)]

theorem aApply_eval2 (a : AMgr) (hi : AInv off a) (op : String) (ju jv h : Nat) (u v : Int)
    (hu : a.handles[ju]? = some u) (hv : a.handles[jv]? = some v) :
    aApply op ju (some jv) none h a = wrapResult h (apply op u (some v) none) a := by
  unfold aApply
  rw [AM.bind_ok (nodeIn_eval hi hu),
    AM.bind_ok (show AM.check (!((some jv).isNone && (none : Option Nat).isSome)) .value a = (.ok (), a) from rfl),
    AM.bind_ok (optNodeIn_eval hi hv),
    AM.bind_ok (show optNode nodeIn none a = (.ok none, a) from rfl)]

theorem aApply_eval3 (a : AMgr) (hi : AInv off a) (op : String) (ju jv jw h : Nat) (u v w : Int)
    (hu : a.handles[ju]? = some u) (hv : a.handles[jv]? = some v) (hw : a.handles[jw]? = some w) :
    aApply op ju (some jv) (some jw) h a = wrapResult h (apply op u (some v) (some w)) a := by
  unfold aApply
  rw [AM.bind_ok (nodeIn_eval hi hu),
    AM.bind_ok (show AM.check (!((some jv).isNone && (some jw).isSome)) .value a = (.ok (), a) from rfl),
    AM.bind_ok (optNodeIn_eval hi hv), AM.bind_ok (optNodeIn_eval hi hw)]

theorem aApply_binary_value (a : AMgr) (hi : AInv off a) (ht : Two off a) (op : String) (c : Conn)
    (hc : docConn op = some c) (h2 : c.arity = 2) (hq1 : c ≠ .forall_) (hq2 : c ≠ .exists_)
    (hall : Gen.allOps.contains op = true) (ju jv h : Nat) (hf : a.handles.contains h = false)
    (u v : Int) (hu : a.handles[ju]? = some u) (hv : a.handles[jv]? = some v) :
    AValue off a h (aApply op ju (some jv) none h) (ConnDoc c u v) := by
  refine AValue.of_eq (aApply_eval2 a hi op ju jv h u v hu hv)
    (wrapResult_value a hi h hf _ (ConnDoc c u v) ((apply_keepsAll off op u (some v) none).at a.m)
      (fun _ _ _ d => d.1) ?_)
  obtain ⟨_, r, m', he, hr, hd⟩ := applyBin_ok off a hi ht op c hc h2 hq1 hq2 hall ju jv u v hu hv
  exact ⟨r, m', he, hr, hd⟩

theorem aApply_ite_value (a : AMgr) (hi : AInv off a) (ht : Two off a) (op : String)
    (hc : docConn op = some .ite) (hall : Gen.allOps.contains op = true) (ju jv jw h : Nat)
    (hf : a.handles.contains h = false) (u v w : Int) (hu : a.handles[ju]? = some u)
    (hv : a.handles[jv]? = some v) (hw : a.handles[jw]? = some w) :
    AValue off a h (aApply op ju (some jv) (some jw) h) (Ite3Doc u v w) :=
  AValue.of_eq (aApply_eval3 a hi op ju jv jw h u v w hu hv hw)
    (wrapResult_value a hi h hf _ (Ite3Doc u v w)
      ((apply_keepsAll off op u (some v) (some w)).at a.m) (fun _ _ _ d => d.1)
      (apply_ite_doc off a hi ht op hc hall u v w ju jv jw hu hv hw))

theorem aApply_quant_value (a : AMgr) (hi : AInv off a) (ht : Two off a) (op : String) (c : Conn)
    (hc : docConn op = some c) (hq : c = .forall_ ∨ c = .exists_)
    (hall : Gen.allOps.contains op = true) (ju jv h : Nat) (hf : a.handles.contains h = false)
    (u v : Int) (hu : a.handles[ju]? = some u) (hv : a.handles[jv]? = some v) :
    ∃ names, support a.m.tbl u = .ok names ∧
      AValue off a h (aApply op ju (some jv) none h) (QuantDoc (decide (c = .forall_)) names v) := by
  obtain ⟨names, hs, _, hd⟩ := apply_quant_doc off a hi ht op c hc hq hall u v ju jv hu hv
  exact ⟨names, hs, AValue.of_eq (aApply_eval2 a hi op ju jv h u v hu hv)
    (wrapResult_value a hi h hf _ _ ((apply_keepsAll off op u (some v) none).at a.m)
      (fun _ _ _ d => d.1) hd)⟩

theorem aQuantify_value (a : AMgr) (hi : AInv off a) (ht : Two off a) (ju h : Nat)
    (hf : a.handles.contains h = false) (u : Int) (hu : a.handles[ju]? = some u) (fa : Bool)
    (names : List String) (hd : ∀ s ∈ names, a.m.tbl.vars.contains s = true) :
    AValue off a h (aQuantify ju (names.map Key.name) fa h) (QuantDoc fa names u) := by
  refine AValue.of_eq ?_ (wrapResult_value a hi h hf _ (QuantDoc fa names u)
    ((quantify_keepsAll off u _ fa).at a.m) (fun _ _ _ d => d.1)
    (quantify_doc off a hi ht u ju hu fa names hd))
  unfold aQuantify
  rw [AM.bind_ok (nodeIn_eval hi hu)]

theorem aCube_value (a : AMgr) (hi : AInv off a) (ht : Two off a) (dvars : List (String × Bool)) (h : Nat)
    (hf : a.handles.contains h = false) (hd : ∀ p ∈ dvars, a.m.tbl.vars.contains p.1 = true) :
    AValue off a h (aCube dvars h) (CubeDoc dvars) :=
  wrapResult_value a hi h hf (cube dvars) (CubeDoc dvars) ((cube_keepsAll off dvars).at a.m)
    (fun _ _ _ d => d.1) (cube_doc off a hi ht dvars hd)

theorem aAddExpr_value (a : AMgr) (hi : AInv off a) (ht : Two off a) (s : String) (t : Ast) (h : Nat)
    (hf : a.handles.contains h = false) (hp : parse (tokenize s) = some t)
    (hM : Meaningful a.m.tbl t) (hh : ∀ u ∈ t.atNodes, ∃ j : Nat, a.handles[j]? = some u) :
    AValue off a h (aAddExpr s h) (ExprDoc t) :=
  wrapResult_value a hi h hf (addExpr s) (ExprDoc t) ((addExpr_keepsAll off s).at a.m)
    (fun _ _ _ d => d.1) (addExpr_doc off a hi ht s t hp hM hh)

/-! ### `let` -/

theorem aLet_eval (a : AMgr) (hi : AInv off a) (d : ALetArg) (ju h : Nat) (u : Int)
    (hu : a.handles[ju]? = some u) (hne : d.isEmpty = false) (d' : LetArg)
    (hargs : aLetArgs d a = (.ok d', a)) (r : Int) (a' : AMgr)
    (hw : wrapResult h (letOp d' u) a = (.ok r, a')) :
    aLet d ju h a = (.ok (r, false), a') := by
  unfold aLet
  rw [AM.bind_ok (nodeIn_eval hi hu)]
  simp only [hne, Bool.false_eq_true, if_false]
  rw [AM.bind_ok hargs, AM.bind_ok hw]
  rfl

/-- `let` with Boolean values (declared names): the cofactor, by name -/
theorem aLet_bools_value (a : AMgr) (hi : AInv off a) (ht : Two off a) (ju h : Nat)
    (hf : a.handles.contains h = false) (u : Int) (hu : a.handles[ju]? = some u)
    (vals : List (String × Bool)) (hne : vals ≠ [])
    (hd : ∀ p ∈ vals, a.m.tbl.vars.contains p.1 = true) :
    ∃ r a', aLet (.bools (boolKeys vals)) ju h a = (.ok (r, false), a') ∧
      AResult off a h (CofDoc vals u) r a' := by
  have hk : boolKeys vals ≠ [] := by
    intro h; apply hne
    cases vals with
    | nil => rfl
    | cons _ _ => simp [boolKeys] at h
  have hdoc : ∃ r m', letOp (.bools (boolKeys vals)) u a.m = (.ok r, m') ∧
      CofDoc vals u a.m.tbl r m'.tbl := by
    rw [letOp_bools _ hk]; exact cofactor_doc off a hi ht u ju hu vals hd
  obtain ⟨r, a', he, hres⟩ := wrapResult_value a hi h hf _ (CofDoc vals u)
    ((letOp_keepsAll off (.bools (boolKeys vals)) u).at a.m) (fun _ _ _ d => d.1) hdoc
  refine ⟨r, a', aLet_eval a hi _ ju h u hu ?_ _ rfl r a' he, hres⟩
  cases hb : boolKeys vals with
  | nil => exact absurd hb hk
  | cons _ _ => rfl

/-- `let` with names (targets declared): the renaming, by name -/
theorem aLet_names_value (a : AMgr) (hi : AInv off a) (ht : Two off a) (ju h : Nat)
    (hf : a.handles.contains h = false) (u : Int) (hu : a.handles[ju]? = some u)
    (dvars : List (String × String)) (hne : dvars ≠ [])
    (hd : ∀ p ∈ dvars, a.m.tbl.vars.contains p.2 = true) :
    ∃ r a', aLet (.names dvars) ju h a = (.ok (r, false), a') ∧
      AResult off a h (RenameDoc dvars u) r a' := by
  have hdoc : ∃ r m', letOp (.names dvars) u a.m = (.ok r, m') ∧
      RenameDoc dvars u a.m.tbl r m'.tbl := by
    rw [letOp_names _ hne]; exact rename_doc off a hi ht u ju hu dvars hd
  obtain ⟨r, a', he, hres⟩ := wrapResult_value a hi h hf _ (RenameDoc dvars u)
    ((letOp_keepsAll off (.names dvars) u).at a.m) (fun _ _ _ d => d.1) hdoc
  refine ⟨r, a', aLet_eval a hi _ ju h u hu ?_ _ rfl r a' he, hres⟩
  cases dvars with
  | nil => exact absurd rfl hne
  | cons _ _ => rfl

/-- the values of a `let` dictionary of `Function`s, all alive in this manager (`node j` is the
node under the `Function` `j`) -/
theorem nodesAny_eval (a : AMgr) (node : Nat → Int) : ∀ (d : List (String × Nat)),
    (∀ p ∈ d, a.handles[p.2]? = some (node p.2)) →
    nodesAny d a = (.ok (d.map fun p => (p.1, node p.2)), a)
  | [], _ => rfl
  | (k, j) :: d, h => by
    unfold nodesAny
    rw [AM.bind_ok (nodeAny_eval (h (k, j) List.mem_cons_self)),
      AM.bind_ok (nodesAny_eval a node d (fun p hp => h p (List.mem_cons_of_mem _ hp)))]
    rfl

/-- `let` with `Function` values (names declared, values alive): the composition, by name -/
theorem aLet_funs_value (a : AMgr) (hi : AInv off a) (ht : Two off a) (ju h : Nat)
    (hf : a.handles.contains h = false) (u : Int) (hu : a.handles[ju]? = some u)
    (d : List (String × Nat)) (node : Nat → Int) (hne : d ≠ [])
    (hv : ∀ p ∈ d, a.handles[p.2]? = some (node p.2))
    (hd : ∀ p ∈ d, a.m.tbl.vars.contains p.1 = true) :
    ∃ r a', aLet (.funs d) ju h a = (.ok (r, false), a') ∧
      AResult off a h (ComposeDoc (d.map fun p => (p.1, node p.2)) u) r a' := by
  have hvne : (d.map fun p => (p.1, node p.2)) ≠ [] := by
    intro h; exact hne (List.map_eq_nil_iff.mp h)
  have hdecl : ∀ q ∈ d.map (fun p => (p.1, node p.2)), a.m.tbl.vars.contains q.1 = true := by
    intro q hq
    obtain ⟨p, hp, rfl⟩ := List.mem_map.mp hq
    exact hd p hp
  have hheld : ∀ q ∈ d.map (fun p => (p.1, node p.2)), ∃ j : Nat, a.handles[j]? = some q.2 := by
    intro q hq
    obtain ⟨p, hp, rfl⟩ := List.mem_map.mp hq
    exact ⟨p.2, hv p hp⟩
  have hdoc : ∃ r m', letOp (.refs (d.map fun p => (p.1, node p.2))) u a.m = (.ok r, m') ∧
      ComposeDoc (d.map fun p => (p.1, node p.2)) u a.m.tbl r m'.tbl := by
    rw [letOp_refs _ hvne]; exact compose_doc off a hi ht u ju hu _ hdecl hheld
  obtain ⟨r, a', he, hres⟩ := wrapResult_value a hi h hf _ (ComposeDoc _ u)
    ((letOp_keepsAll off (.refs (d.map fun p => (p.1, node p.2))) u).at a.m)
    (fun _ _ _ d => d.1) hdoc
  have hargs : aLetArgs (.funs d) a = (.ok (.refs (d.map fun p => (p.1, node p.2))), a) := by
    show (nodesAny d >>= fun l => pure (LetArg.refs l)) a = _
    rw [AM.bind_ok (nodesAny_eval a node d hv)]
    rfl
  refine ⟨r, a', aLet_eval a hi _ ju h u hu ?_ _ hargs r a' he, hres⟩
  cases d with
  | nil => exact absurd rfl hne
  | cons _ _ => rfl

/-! ### `support` -/

/-- `bdd.support(f)` / `f.support`: nothing changes; the answer is the list of the names of the
levels the function depends on -/
theorem aSupport_value (a : AMgr) (hi : AInv off a) (ju : Nat) (u : Int)
    (hu : a.handles[ju]? = some u) :
    ∃ ls : List Nat, (∀ i, i ∈ ls ↔ dependsOn a.m.tbl u i) ∧
      aSupport ju a = (.ok (ls.map a.m.tbl.nameOf), a) ∧
      fSupport ju a = (.ok (ls.map a.m.tbl.nameOf), a) ∧
      ∀ s ∈ ls.map a.m.tbl.nameOf, a.m.tbl.vars.contains s = true := by
  have hm := hi.hmem ju u hu
  obtain ⟨ls, _, _, hdep, hs⟩ := support_spec' hi.inv.wf (varsOK_of_orderOK hi.order) u hm
  obtain ⟨names, hs2, hdecl⟩ := support_declared a.m hi.inv hi.order u hm
  rw [hs] at hs2; cases hs2
  have h2 : (AM.liftE fun m => support m.tbl u) a = (.ok (ls.map a.m.tbl.nameOf), a) := by
    show (support a.m.tbl u, a) = _; rw [hs]
  refine ⟨ls, hdep, ?_, ?_, hdecl⟩
  · unfold aSupport
    rw [AM.bind_ok (nodeIn_eval hi hu)]; exact h2
  · unfold fSupport
    rw [AM.bind_ok (nodeOwn_eval hu)]; exact h2

end DD
