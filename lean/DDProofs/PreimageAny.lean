/-
  DDProofs.PreimageAny — `preimage` for ANY variable order, reordering not enabled.  When some
  renamed variable is not a neighbour of its partner, `_preimage_of` renames the target, conjoins
  and quantifies (`preimageFallback`): the documented result `Q qvars. trans ∧ rename(target)`
  under the literal preconditions alone (declared levels, no key is a value, no undeclared name
  as a value) — neither "no two keys with the same value" nor "the target is independent of the
  values" is needed on that branch (findings F5 / F5b concern the recursion `_image` only).
  Together with `preimage_spec_partial` (partners neighbours): `preimage_spec_any_order`.
-/
import DDProofs.DynPreimage
open Std

namespace DD

/-- `preimage`, some partners NOT neighbours: the documented result under the literal
preconditions -/
theorem preimage_spec_fallback (m : Mgr) (hI : Inv m) (hoff : m.lastLen = none)
    (hV : VarsBij m.tbl) (trans target : Int) (hu : m.tbl.Mem trans) (hv : m.tbl.Mem target)
    (rn : List (Key × Key)) (qvars : List Key) (fa : Bool) (q : List Nat)
    (hq : mapToLevelE m.tbl qvars = .ok q)
    (hne : resolveRename m.tbl rn ≠ [] → 0 < m.nvars)
    (hov : renameOverlap (resolveRename m.tbl rn) = false)
    (hnb : badKeys (resolveRename m.tbl rn) = [])
    (hlv : ∀ p, p ∈ intPairs (resolveRename m.tbl rn) →
      0 ≤ p.1 ∧ p.1 < (m.nvars : Int) ∧ 0 ≤ p.2 ∧ p.2 < (m.nvars : Int))
    (hnadj : ¬ ∀ p, p ∈ intPairs (resolveRename m.tbl rn) → (p.1 - p.2).natAbs = 1) :
    ∃ r m', preimage trans target rn qvars fa m = (.ok r, m') ∧ Inv m' ∧ Ext m.tbl m'.tbl ∧
      m'.tbl.Mem r ∧ Frame m m' ∧
      ∀ a, den m'.tbl r a = true ↔
        qsem fa q (fun b => den m.tbl trans b && den m.tbl target
          (fun j => b (renOf (intPairs (resolveRename m.tbl rn)) j))) a := by
  have hnbr : renameNeighbors (resolveRename m.tbl rn) = false := by
    rw [← Bool.not_eq_true]
    intro h
    apply hnadj
    unfold renameNeighbors at h
    rw [List.all_eq_true] at h
    intro p hp
    simpa using h p hp
  have hbody : preimageBody trans target rn qvars fa { m with ctx := true } =
      preimageFallback trans target (resolveRename m.tbl rn) q fa { m with ctx := true } := by
    have hq' : mapToLevelE ({ m with ctx := true } : Mgr).tbl qvars = .ok q := hq
    have hav : assertValidRename (resolveRename m.tbl rn) { m with ctx := true } =
        (.ok (), { m with ctx := true }) :=
      assertValidRename_ok { m with ctx := true } hV _ hne hov
    unfold preimageBody
    simp only [hq', hav, hnbr, Bool.false_eq_true, if_false]
  have hql : ∀ i, i ∈ q → m.tbl.l2v.contains i = true := by
    intro i hi
    obtain ⟨nm, hnm⟩ := mapToLevelE_named m.tbl hV qvars q hq i hi
    rw [TreeMap.contains_eq_isSome_getElem?, hnm]
    rfl
  obtain ⟨r, m1, he, hs, hm, hd⟩ := (preimageFallback_out { m with ctx := true } (hI.setCtx true)
    rfl trans target hu hv fa (resolveRename m.tbl rn) q hnb hlv hql).off hoff
  have hs' : StepK m { m1 with ctx := m.ctx } := hs.ofCtx true
  exact ⟨r, { m1 with ctx := m.ctx },
    preimage_of_body_ok m hV trans target rn qvars fa q hq r m1 (by rw [hbody]; exact he),
    hs'.inv, hs'.ext, hm, hs'.frame, hd⟩

/-- `preimage` for ANY variable order: under the preconditions of `preimage_spec_partial` other
than adjacency (declared levels, keys disjoint from values, no two keys with the same value,
the target independent of every value) the result is `Q qvars. trans ∧ rename(target)` — through
the recursion `_image` when the partners are neighbours, through rename / conjoin / quantify
otherwise -/
theorem preimage_spec_any_order (m : Mgr) (hI : Inv m) (hoff : m.lastLen = none)
    (hV : VarsBij m.tbl) (trans target : Int) (hu : m.tbl.Mem trans) (hv : m.tbl.Mem target)
    (rn : List (Key × Key)) (qvars : List Key) (fa : Bool) (q : List Nat)
    (hq : mapToLevelE m.tbl qvars = .ok q)
    (hne : resolveRename m.tbl rn ≠ [] → 0 < m.nvars)
    (hov : renameOverlap (resolveRename m.tbl rn) = false)
    (hnb : badKeys (resolveRename m.tbl rn) = [])
    (hlv : ∀ p, p ∈ intPairs (resolveRename m.tbl rn) →
      0 ≤ p.1 ∧ p.1 < (m.nvars : Int) ∧ 0 ≤ p.2 ∧ p.2 < (m.nvars : Int))
    (hinj : ∀ p p', p ∈ intPairs (resolveRename m.tbl rn) →
      p' ∈ intPairs (resolveRename m.tbl rn) → p.2 = p'.2 → p.1 = p'.1)
    (hind : ∀ p, p ∈ intPairs (resolveRename m.tbl rn) → ∀ l : Nat, p.2 = (l : Int) →
      ¬ dependsOn m.tbl target l) :
    ∃ r m', preimage trans target rn qvars fa m = (.ok r, m') ∧ Inv m' ∧ Ext m.tbl m'.tbl ∧
      m'.tbl.Mem r ∧ Frame m m' ∧
      ∀ a, den m'.tbl r a = true ↔
        qsem fa q (fun b => den m.tbl trans b && den m.tbl target
          (fun j => b (renOf (intPairs (resolveRename m.tbl rn)) j))) a := by
  by_cases hadj : ∀ p, p ∈ intPairs (resolveRename m.tbl rn) → (p.1 - p.2).natAbs = 1
  · exact preimage_spec_partial m hI hoff hV trans target hu hv rn qvars fa q hq hne hov hnb hlv
      hadj hinj hind
  · exact preimage_spec_fallback m hI hoff hV trans target hu hv rn qvars fa q hq hne hov hnb hlv
      hadj

end DD
