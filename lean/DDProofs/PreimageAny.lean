/-
  DDProofs.PreimageAny — `preimage`, reordering not enabled: the FULL documented statement.
  Under the literal preconditions alone (pairs of declared levels, no key is a value, no
  undeclared name as a value) — any variable order, any renaming, any target — the result is
  `Q qvars. trans ∧ rename(target)`.  `_preimage_of` runs the fused recursion `_image` only when
  its test `fused` holds (partners neighbours, no two keys with the same value, no value in the
  support of the target: exactly the hypotheses under which `_image` is right for `preimage`),
  and renames / conjoins / quantifies otherwise (`preimageFallback`).  The earlier partial
  theorems (`preimage_spec_partial`, `preimage_spec_any_order`, `preimage_spec_fallback`) are
  instances.
-/
import DDProofs.DynPreimage
open Std

namespace DD

/-- `preimage(trans, target, rename, qvars, bdd, forall)`, reordering not enabled, the FULL
statement: literal preconditions only -/
theorem preimage_spec_full (m : Mgr) (hI : Inv m) (hoff : m.lastLen = none)
    (hV : VarsBij m.tbl) (trans target : Int) (hu : m.tbl.Mem trans) (hv : m.tbl.Mem target)
    (rn : List (Key × Key)) (qvars : List Key) (fa : Bool) (q : List Nat)
    (hq : mapToLevelE m.tbl qvars = .ok q)
    (hne : resolveRename m.tbl rn ≠ [] → 0 < m.nvars)
    (hov : renameOverlap (resolveRename m.tbl rn) = false)
    (hnb : badKeys (resolveRename m.tbl rn) = [])
    (hlv : ∀ p, p ∈ intPairs (resolveRename m.tbl rn) →
      0 ≤ p.1 ∧ p.1 < (m.nvars : Int) ∧ 0 ≤ p.2 ∧ p.2 < (m.nvars : Int)) :
    ∃ r m', preimage trans target rn qvars fa m = (.ok r, m') ∧ Inv m' ∧ Ext m.tbl m'.tbl ∧
      m'.tbl.Mem r ∧ Frame m m' ∧
      ∀ a, den m'.tbl r a = true ↔
        qsem fa q (fun b => den m.tbl trans b && den m.tbl target
          (fun j => b (renOf (intPairs (resolveRename m.tbl rn)) j))) a := by
  obtain ⟨fused, hfused⟩ := preimageFused_ok hI.wf (resolveRename m.tbl rn) target hv
  cases fused with
  | true =>
    -- the fused recursion: its three assumptions are what the test established
    obtain ⟨hadj, hinj, s, hs, hdis⟩ := preimageFused_true hfused
    obtain ⟨s', hs', _, hdep⟩ := supportLevels_spec' hI.wf target hv
    rw [hs] at hs'
    cases hs'
    obtain ⟨r, m1, he, h1, h2, h3, h4, h5⟩ := preimageBody_spec_fused { m with ctx := true }
      (hI.setCtx true) hoff hV trans target hu hv rn qvars fa q hq hfused hne hov hnb hlv hadj hinj
      (fun p hp l hl hd => hdis p hp l hl ((hdep l).mpr hd))
    exact ⟨r, { m1 with ctx := m.ctx },
      preimage_of_body_ok m hV trans target rn qvars fa q hq r m1 he,
      h1.setCtx _, h2, h3, ⟨h4.vars, h4.l2v, h4.lastLen, rfl, h4.sched, h4.roots⟩, h5⟩
  | false =>
    -- rename, conjoin, quantify
    have hbody : preimageBody trans target rn qvars fa { m with ctx := true } =
        preimageFallback trans target (resolveRename m.tbl rn) q fa { m with ctx := true } := by
      have hq' : mapToLevelE ({ m with ctx := true } : Mgr).tbl qvars = .ok q := hq
      have hav : assertValidRename (resolveRename m.tbl rn) { m with ctx := true } =
          (.ok (), { m with ctx := true }) :=
        assertValidRename_ok { m with ctx := true } hV _ hne hov
      have hf' : preimageFused ({ m with ctx := true } : Mgr).tbl (resolveRename m.tbl rn) target =
          .ok false := hfused
      unfold preimageBody
      simp only [hq', hav, hf', Bool.false_eq_true, if_false]
    have hql : ∀ i, i ∈ q → m.tbl.l2v.contains i = true := by
      intro i hi
      obtain ⟨nm, hnm⟩ := mapToLevelE_named m.tbl hV qvars q hq i hi
      rw [TreeMap.contains_eq_isSome_getElem?, hnm]
      rfl
    obtain ⟨r, m1, he, hs, hm, hd⟩ := (preimageFallback_out { m with ctx := true } (hI.setCtx true)
      rfl trans target hu hv fa (resolveRename m.tbl rn) q hnb hlv hql).off hoff
    have hs' : StepK m { m1 with ctx := m.ctx } := hs.ofCtx true
    exact ⟨r, { m1 with ctx := m.ctx },
      preimage_of_body_ok m hV trans target rn qvars fa q hq r m1 (by rw [hbody]; exact he),
      hs'.inv, hs'.ext, hm, hs'.frame, hd⟩

/-- `preimage`, some partners NOT neighbours (instance of `preimage_spec_full`) -/
theorem preimage_spec_fallback (m : Mgr) (hI : Inv m) (hoff : m.lastLen = none)
    (hV : VarsBij m.tbl) (trans target : Int) (hu : m.tbl.Mem trans) (hv : m.tbl.Mem target)
    (rn : List (Key × Key)) (qvars : List Key) (fa : Bool) (q : List Nat)
    (hq : mapToLevelE m.tbl qvars = .ok q)
    (hne : resolveRename m.tbl rn ≠ [] → 0 < m.nvars)
    (hov : renameOverlap (resolveRename m.tbl rn) = false)
    (hnb : badKeys (resolveRename m.tbl rn) = [])
    (hlv : ∀ p, p ∈ intPairs (resolveRename m.tbl rn) →
      0 ≤ p.1 ∧ p.1 < (m.nvars : Int) ∧ 0 ≤ p.2 ∧ p.2 < (m.nvars : Int))
    (_hnadj : ¬ ∀ p, p ∈ intPairs (resolveRename m.tbl rn) → (p.1 - p.2).natAbs = 1) :
    ∃ r m', preimage trans target rn qvars fa m = (.ok r, m') ∧ Inv m' ∧ Ext m.tbl m'.tbl ∧
      m'.tbl.Mem r ∧ Frame m m' ∧
      ∀ a, den m'.tbl r a = true ↔
        qsem fa q (fun b => den m.tbl trans b && den m.tbl target
          (fun j => b (renOf (intPairs (resolveRename m.tbl rn)) j))) a :=
  preimage_spec_full m hI hoff hV trans target hu hv rn qvars fa q hq hne hov hnb hlv

/-- `preimage` for ANY variable order under the hypotheses of `preimage_spec_partial` other than
adjacency (instance of `preimage_spec_full`) -/
theorem preimage_spec_any_order (m : Mgr) (hI : Inv m) (hoff : m.lastLen = none)
    (hV : VarsBij m.tbl) (trans target : Int) (hu : m.tbl.Mem trans) (hv : m.tbl.Mem target)
    (rn : List (Key × Key)) (qvars : List Key) (fa : Bool) (q : List Nat)
    (hq : mapToLevelE m.tbl qvars = .ok q)
    (hne : resolveRename m.tbl rn ≠ [] → 0 < m.nvars)
    (hov : renameOverlap (resolveRename m.tbl rn) = false)
    (hnb : badKeys (resolveRename m.tbl rn) = [])
    (hlv : ∀ p, p ∈ intPairs (resolveRename m.tbl rn) →
      0 ≤ p.1 ∧ p.1 < (m.nvars : Int) ∧ 0 ≤ p.2 ∧ p.2 < (m.nvars : Int))
    (_hinj : ∀ p p', p ∈ intPairs (resolveRename m.tbl rn) →
      p' ∈ intPairs (resolveRename m.tbl rn) → p.2 = p'.2 → p.1 = p'.1)
    (_hind : ∀ p, p ∈ intPairs (resolveRename m.tbl rn) → ∀ l : Nat, p.2 = (l : Int) →
      ¬ dependsOn m.tbl target l) :
    ∃ r m', preimage trans target rn qvars fa m = (.ok r, m') ∧ Inv m' ∧ Ext m.tbl m'.tbl ∧
      m'.tbl.Mem r ∧ Frame m m' ∧
      ∀ a, den m'.tbl r a = true ↔
        qsem fa q (fun b => den m.tbl trans b && den m.tbl target
          (fun j => b (renOf (intPairs (resolveRename m.tbl rn)) j))) a :=
  preimage_spec_full m hI hoff hV trans target hu hv rn qvars fa q hq hne hov hnb hlv

/-- module-level `preimage(trans, target, rename, qvars, bdd, forall)`, reordering not enabled:
when the pairs of the renaming are declared levels, adjacent (`|k - rename k| = 1`), no two keys
share a target, and THE TARGET IS INDEPENDENT OF EVERY VALUE OF THE RENAMING, the result is
`Q qvars. trans ∧ rename(target)`. -/
theorem preimage_spec_partial (m : Mgr) (hI : Inv m) (hoff : m.lastLen = none)
    (hV : VarsBij m.tbl) (trans target : Int) (hu : m.tbl.Mem trans) (hv : m.tbl.Mem target)
    (rn : List (Key × Key)) (qvars : List Key) (fa : Bool) (q : List Nat)
    (hq : mapToLevelE m.tbl qvars = .ok q)
    (hne : resolveRename m.tbl rn ≠ [] → 0 < m.nvars)
    (hov : renameOverlap (resolveRename m.tbl rn) = false)
    (hnb : badKeys (resolveRename m.tbl rn) = [])
    (hlv : ∀ p, p ∈ intPairs (resolveRename m.tbl rn) →
      0 ≤ p.1 ∧ p.1 < (m.nvars : Int) ∧ 0 ≤ p.2 ∧ p.2 < (m.nvars : Int))
    (hadj : ∀ p, p ∈ intPairs (resolveRename m.tbl rn) → (p.1 - p.2).natAbs = 1)
    (hinj : ∀ p p', p ∈ intPairs (resolveRename m.tbl rn) →
      p' ∈ intPairs (resolveRename m.tbl rn) → p.2 = p'.2 → p.1 = p'.1)
    (hind : ∀ p, p ∈ intPairs (resolveRename m.tbl rn) → ∀ l : Nat, p.2 = (l : Int) →
      ¬ dependsOn m.tbl target l) :
    ∃ r m', preimage trans target rn qvars fa m = (.ok r, m') ∧ Inv m' ∧ Ext m.tbl m'.tbl ∧
      m'.tbl.Mem r ∧ Frame m m' ∧
      ∀ a, den m'.tbl r a = true ↔
        qsem fa q (fun b => den m.tbl trans b && den m.tbl target
          (fun j => b (renOf (intPairs (resolveRename m.tbl rn)) j))) a :=
  preimage_spec_full m hI hoff hV trans target hu hv rn qvars fa q hq hne hov hnb hlv

/-- `preimage` with the renaming and the quantified variables given BY NAME (declared names,
pairwise distinct keys, no key is a value, partners adjacent, no two keys with the same value),
the target independent of every value of the renaming -/
theorem preimage_spec_partial_names (m : Mgr) (hI : Inv m) (hoff : m.lastLen = none)
    (hV : VarsBij m.tbl) (trans target : Int) (hu : m.tbl.Mem trans) (hv : m.tbl.Mem target)
    (l : List (String × String)) (qs : List String) (fa : Bool)
    (hkeys : (l.map (·.1)).Nodup)
    (hd : ∀ p, p ∈ l → m.tbl.vars.contains p.1 = true ∧ m.tbl.vars.contains p.2 = true)
    (hqd : ∀ s, s ∈ qs → m.tbl.vars.contains s = true)
    (hov : ∀ p p', p ∈ l → p' ∈ l → p.2 ≠ p'.1)
    (hadj : ∀ p, p ∈ l → ((lvlOf m.tbl p.1 : Int) - (lvlOf m.tbl p.2 : Int)).natAbs = 1)
    (hinj : ∀ p p', p ∈ l → p' ∈ l → p.2 = p'.2 → p.1 = p'.1)
    (hind : ∀ p, p ∈ l → ¬ dependsOn m.tbl target (lvlOf m.tbl p.2)) :
    ∃ r m', preimage trans target (l.map fun p => (Key.name p.1, Key.name p.2))
        (qs.map Key.name) fa m = (.ok r, m') ∧ Inv m' ∧ Ext m.tbl m'.tbl ∧
      m'.tbl.Mem r ∧ Frame m m' ∧
      ∀ a, den m'.tbl r a = true ↔
        qsem fa (qs.map (lvlOf m.tbl)) (fun b => den m.tbl trans b && den m.tbl target
          (fun j => b (renOf
            (l.map fun p => ((lvlOf m.tbl p.1 : Int), (lvlOf m.tbl p.2 : Int))) j))) a := by
  obtain ⟨hres, hip⟩ := intPairs_resolveRename_names m.tbl hV l hkeys hd
  generalize hlp : (l.map fun p => ((lvlOf m.tbl p.1 : Int), (lvlOf m.tbl p.2 : Int))) = lp at hip
  have hres' : resolveRename m.tbl (l.map fun p => (Key.name p.1, Key.name p.2)) =
      lp.map fun p => (Key.lvl p.1, Key.lvl p.2) := by
    rw [hres, ← hlp, List.map_map]; rfl
  have hip' : intPairs (lp.map fun p => (Key.lvl p.1, Key.lvl p.2)) = lp := intPairs_map_lvl lp
  have hlvl : ∀ s, m.tbl.vars.contains s = true → lvlOf m.tbl s < m.nvars := by
    intro s hs
    obtain ⟨i, hi⟩ := (vars_contains_iff _ _).mp hs
    rw [lvlOf_eq hi]; exact hV.lt _ _ hi
  have hinjv : ∀ s s', m.tbl.vars.contains s = true → m.tbl.vars.contains s' = true →
      lvlOf m.tbl s = lvlOf m.tbl s' → s = s' := by
    intro s s' hs hs' he
    obtain ⟨i, hi⟩ := (vars_contains_iff _ _).mp hs
    obtain ⟨j, hj⟩ := (vars_contains_iff _ _).mp hs'
    rw [lvlOf_eq hi, lvlOf_eq hj] at he
    subst he
    exact hV.inj hi hj
  have hmem : ∀ x, x ∈ lp → ∃ p, p ∈ l ∧ x = ((lvlOf m.tbl p.1 : Int), (lvlOf m.tbl p.2 : Int)) := by
    intro x hx
    rw [← hlp] at hx
    obtain ⟨p, hp, rfl⟩ := List.mem_map.mp hx
    exact ⟨p, hp, rfl⟩
  have := preimage_spec_partial m hI hoff hV trans target hu hv
    (l.map fun p => (Key.name p.1, Key.name p.2))
    (qs.map Key.name) fa (qs.map (lvlOf m.tbl)) (mapToLevelE_names m.tbl qs hqd)
    (by
      rw [hres']
      intro hne
      cases hl : l with
      | nil => rw [← hlp, hl] at hne; exact absurd rfl hne
      | cons p _ =>
        have := hlvl _ (hd p (by rw [hl]; exact List.mem_cons_self)).1
        omega)
    (by
      rw [hres', renameOverlap_lvls]
      intro x x' hx hx' he
      obtain ⟨p, hp, rfl⟩ := hmem x hx
      obtain ⟨p', hp', rfl⟩ := hmem x' hx'
      simp only at he
      exact hov p p' hp hp' (hinjv _ _ (hd p hp).2 (hd p' hp').1 (by omega)))
    (by rw [hres']; exact badKeys_map_lvl lp)
    (by
      rw [hres', hip']
      intro x hx
      obtain ⟨p, hp, rfl⟩ := hmem x hx
      have h1 := hlvl _ (hd p hp).1
      have h2 := hlvl _ (hd p hp).2
      simp only
      omega)
    (by
      rw [hres', hip']
      intro x hx
      obtain ⟨p, hp, rfl⟩ := hmem x hx
      exact hadj p hp)
    (by
      rw [hres', hip']
      intro x x' hx hx' he
      obtain ⟨p, hp, rfl⟩ := hmem x hx
      obtain ⟨p', hp', rfl⟩ := hmem x' hx'
      simp only at he
      have h2 := hinjv _ _ (hd p hp).2 (hd p' hp').2 (by omega)
      rw [hinj p p' hp hp' h2])
    (by
      rw [hres', hip']
      intro x hx lv hlv
      obtain ⟨p, hp, rfl⟩ := hmem x hx
      simp only at hlv
      have : lvlOf m.tbl p.2 = lv := by omega
      subst this
      exact hind p hp)
  rw [hres', hip'] at this
  exact this

end DD
