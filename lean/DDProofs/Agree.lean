/-
  DDProofs.Agree — the (syntactic) support of a reference, "agree" lemmas (the value of a
  reference only depends on the levels of its support, all of which are ≥ its own level),
  and the small-step vocabulary shared by the specifications of the substitution
  recursions (`Step`, `find_or_add` / variable nodes when reordering is not enabled).
-/
import DD.Ops
import DDProofs.ApplyProofs
open Std

namespace DD

/-- `i` is the level of a node reachable from `u` -/
inductive InSupp (t : Tbl) : Int → Nat → Prop
  | here {u : Int} {n : Nd} : u.natAbs ≠ 1 → t.node? u.natAbs = some n → InSupp t u n.lvl
  | lo {u : Int} {n : Nd} {i : Nat} : u.natAbs ≠ 1 → t.node? u.natAbs = some n →
      InSupp t n.lo i → InSupp t u i
  | hi {u : Int} {n : Nd} {i : Nat} : u.natAbs ≠ 1 → t.node? u.natAbs = some n →
      InSupp t n.hi i → InSupp t u i

theorem InSupp.ge {t : Tbl} (hw : WF t) {u : Int} {i : Nat} (h : InSupp t u i) :
    t.levelOf u ≤ i := by
  induction h with
  | here h1 hn => rw [levelOf_node t _ _ h1 hn]; exact Nat.le_refl _
  | lo h1 hn _ ih =>
    rw [levelOf_node t _ _ h1 hn]
    have := hw.lo_lt _ _ hn
    omega
  | hi h1 hn _ ih =>
    rw [levelOf_node t _ _ h1 hn]
    have := hw.hi_lt _ _ hn
    omega

theorem InSupp.lt_nvars {t : Tbl} (hw : WF t) {u : Int} {i : Nat} (h : InSupp t u i) :
    i < t.nvars := by
  induction h with
  | here h1 hn => exact hw.lvl_lt _ _ hn
  | lo _ _ _ ih => exact ih
  | hi _ _ _ ih => exact ih

theorem InSupp.neg {t : Tbl} {u : Int} {i : Nat} (h : InSupp t u i) : InSupp t (-u) i := by
  cases h with
  | here h1 hn => exact .here (by simpa using h1) (by simpa using hn)
  | lo h1 hn h => exact .lo (by simpa using h1) (by simpa using hn) h
  | hi h1 hn h => exact .hi (by simpa using h1) (by simpa using hn) h

theorem InSupp.ext {m t : Tbl} (he : Ext m t) {u : Int} {i : Nat} (h : InSupp m u i) :
    InSupp t u i := by
  induction h with
  | here h1 hn => exact .here h1 (he.nodes _ _ hn)
  | lo h1 hn _ ih => exact .lo h1 (he.nodes _ _ hn) ih
  | hi h1 hn _ ih => exact .hi h1 (he.nodes _ _ hn) ih

/-- two assignments that agree on the support give the same value -/
theorem den_agree_aux (t : Tbl) (hw : WF t) :
    ∀ k u, t.Mem u → t.nvars ≤ k + t.levelOf u → ∀ a b : Asg,
      (∀ i, InSupp t u i → a i = b i) → den t u a = den t u b := by
  intro k
  induction k with
  | zero =>
    intro u hm hk a b _
    by_cases h1 : u.natAbs = 1
    · rcases abs_one h1 with h | h <;> subst h
      · simp [den_one]
      · exact (den_neg_one t _).trans (den_neg_one t _).symm
    · rcases hm with hm | hm
      · exact absurd hm h1
      · obtain ⟨n, hn⟩ := Option.isSome_iff_exists.mp hm
        have hl := levelOf_node t u n h1 hn
        have := hw.lvl_lt _ _ hn
        omega
  | succ k ih =>
    intro u hm hk a b hab
    by_cases h1 : u.natAbs = 1
    · rcases abs_one h1 with h | h <;> subst h
      · simp [den_one]
      · exact (den_neg_one t _).trans (den_neg_one t _).symm
    · rcases hm with hm | hm
      · exact absurd hm h1
      · obtain ⟨n, hn⟩ := Option.isSome_iff_exists.mp hm
        have hl := levelOf_node t u n h1 hn
        rw [den_node t hw u n _ h1 hn, den_node t hw u n _ h1 hn]
        have h2 := hw.hi_lt _ _ hn
        have h3 := hw.lo_lt _ _ hn
        rw [ih n.hi (hw.hi_mem _ _ hn) (by omega) a b (fun i hi => hab i (.hi h1 hn hi)),
            ih n.lo (hw.lo_mem _ _ hn) (by omega) a b (fun i hi => hab i (.lo h1 hn hi)),
            hab n.lvl (.here h1 hn)]

/-- agree-lemma (support form) -/
theorem den_agree_supp (t : Tbl) (hw : WF t) (u : Int) (hm : t.Mem u) (a b : Asg)
    (hab : ∀ i, InSupp t u i → a i = b i) : den t u a = den t u b :=
  den_agree_aux t hw t.nvars u hm (by omega) a b hab

/-- agree-lemma: two assignments that agree on every level `≥ levelOf u` (and below `nvars`)
give the same value (generalises `den_indep'`) -/
theorem den_agree_ge (t : Tbl) (hw : WF t) (u : Int) (hm : t.Mem u) (a b : Asg)
    (hab : ∀ i, t.levelOf u ≤ i → i < t.nvars → a i = b i) : den t u a = den t u b :=
  den_agree_supp t hw u hm a b (fun i hi => hab i (hi.ge hw) (hi.lt_nvars hw))

/-! ### steps of a computation that only adds nodes -/

/-- what every operation of this file does to the manager: invariant kept, nodes only added,
everything else the operations can see is unchanged -/
structure Step (m m' : Mgr) : Prop where
  inv : Inv m'
  ext : Ext m.tbl m'.tbl
  frame : Frame m m'

theorem Step.refl {m : Mgr} (h : Inv m) : Step m m := ⟨h, Ext.refl _, Frame.refl _⟩
theorem Step.trans {a b c : Mgr} (h1 : Step a b) (h2 : Step b c) : Step a c :=
  ⟨h2.inv, h1.ext.trans h2.ext, h1.frame.trans h2.frame⟩
theorem Step.off {m m' : Mgr} (h : Step m m') (hoff : m.lastLen = none) : m'.lastLen = none := by
  rw [h.frame.lastLen]; exact hoff
theorem Step.nvars {m m' : Mgr} (h : Step m m') : m'.nvars = m.nvars := h.ext.nvars.symm

/-- `find_or_add` when reordering is not enabled: total -/
theorem findOrAdd_off (m : Mgr) (hI : Inv m) (hoff : m.lastLen = none) (i : Nat) (v w : Int)
    (hi : i < m.nvars) (hv : m.tbl.Mem v) (hw : m.tbl.Mem w)
    (hlv : i < m.tbl.levelOf v) (hlw : i < m.tbl.levelOf w) :
    ∃ r m', findOrAdd (i : Int) v w m = (.ok r, m') ∧ FoaPost' m i v w r m' := by
  have h := findOrAdd_spec m hI i v w hi hv hw hlv hlw
  generalize findOrAdd (i : Int) v w m = res at h
  obtain ⟨r, m'⟩ := res
  cases r with
  | ok r => exact ⟨r, m', rfl, h⟩
  | error e =>
    exfalso
    have := h.2.armed.2
    simp [hoff] at this

theorem FoaPost'.step {m : Mgr} {i : Nat} {v w r : Int} {m' : Mgr} (h : FoaPost' m i v w r m') :
    Step m m' := ⟨h.inv, h.ext, h.frame⟩

theorem ItePost.step {m : Mgr} {g u v r : Int} {m' : Mgr} (h : ItePost m g u v r m') :
    Step m m' := ⟨h.inv, h.ext, h.frame⟩

theorem mem_one (t : Tbl) : t.Mem 1 := Or.inl rfl
theorem mem_neg_one (t : Tbl) : t.Mem (-1) := Or.inl rfl
theorem levelOf_one (t : Tbl) : t.levelOf 1 = t.nvars := levelOf_term t 1 rfl
theorem levelOf_neg_one (t : Tbl) : t.levelOf (-1) = t.nvars := levelOf_term t (-1) rfl

/-- the node of the variable at level `j` (`find_or_add(j, -1, 1)`), reordering not enabled -/
theorem varNode_off (m : Mgr) (hI : Inv m) (hoff : m.lastLen = none) (j : Nat) (hj : j < m.nvars) :
    ∃ g m', findOrAdd (j : Int) (-1) 1 m = (.ok g, m') ∧ Step m m' ∧ m'.tbl.Mem g ∧
      j ≤ m'.tbl.levelOf g ∧ ∀ a, den m'.tbl g a = a j := by
  obtain ⟨g, m', he, hp⟩ := findOrAdd_off m hI hoff j (-1) 1 hj (mem_neg_one _) (mem_one _)
    (by rw [levelOf_neg_one]; exact hj) (by rw [levelOf_one]; exact hj)
  refine ⟨g, m', he, hp.step, hp.mem, hp.lvl, ?_⟩
  intro a
  rw [hp.den a, den_one, den_neg_one]
  cases a j <;> rfl

/-- a non-terminal member has a node, with non-zero successors -/
theorem mem_node {t : Tbl} {u : Int} (hm : t.Mem u) (h1 : u.natAbs ≠ 1) :
    ∃ n, t.node? u.natAbs = some n := by
  rcases hm with hm | hm
  · exact absurd hm h1
  · exact Option.isSome_iff_exists.mp hm

theorem node_succ_ne_zero {t : Tbl} (hw : WF t) {k : Nat} {n : Nd} (hn : t.node? k = some n) :
    ¬ (n.lo = 0 ∨ n.hi = 0) := by
  intro h
  rcases h with h | h
  · exact mem_ne_zero hw (hw.lo_mem _ _ hn) h
  · exact mem_ne_zero hw (hw.hi_mem _ _ hn) h

theorem levelOf_lt_of_node {t : Tbl} (hw : WF t) {u : Int} {n : Nd} (h1 : u.natAbs ≠ 1)
    (hn : t.node? u.natAbs = some n) : t.levelOf u < t.nvars := by
  rw [levelOf_node t u n h1 hn]; exact hw.lvl_lt _ _ hn

/-- signed cofactors of a node -/
theorem den_flip_node (t : Tbl) (hw : WF t) (u : Int) (n : Nd) (a : Asg)
    (h1 : u.natAbs ≠ 1) (hn : t.node? u.natAbs = some n) :
    den t u a = if a n.lvl then den t (if u < 0 then -n.hi else n.hi) a
      else den t (if u < 0 then -n.lo else n.lo) a := by
  rw [den_node t hw u n a h1 hn]
  by_cases hneg : u < 0
  · simp only [hneg, decide_true, if_true]
    rw [den_neg t hw n.hi a (hw.hi_mem _ _ hn), den_neg t hw n.lo a (hw.lo_mem _ _ hn)]
    split <;> simp
  · simp [hneg]

/-- `-r if u < 0 else r` denotes the complement exactly when `u` is complemented -/
theorem den_flip (t : Tbl) (hw : WF t) (r u : Int) (a : Asg) (hr : t.Mem r) :
    den t (if u < 0 then -r else r) a = (decide (u < 0) ^^ den t r a) := by
  by_cases hneg : u < 0
  · simp only [hneg, if_true, decide_true, Bool.true_bne]
    exact den_neg t hw r a hr
  · simp [hneg]

theorem mem_flip {t : Tbl} {r : Int} (u : Int) (hr : t.Mem r) :
    t.Mem (if u < 0 then -r else r) := by
  split
  · exact mem_neg hr
  · exact hr

theorem levelOf_flip (t : Tbl) (r u : Int) :
    t.levelOf (if u < 0 then -r else r) = t.levelOf r := by
  split
  · exact levelOf_neg t r
  · rfl

end DD
