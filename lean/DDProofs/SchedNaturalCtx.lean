/-
  DDProofs.SchedNaturalCtx — the bodies of `quantify`, `compose`, `rename` call the DECORATED `ite`;
  inside a reordering context (`ctx = true`, where the decorator puts its body) such a call is
  nested and does not reorder.  `SNK x`: started with `ctx = true`, `x` is natural in the recorded
  schedule, ends with `ctx = true`, and does not answer `.sched`.
-/
import DDProofs.SchedNaturalOps
import DDProofs.DynOutcome
open Std

namespace DD

/-- inside a reordering context: natural in the schedule, stays inside the context, never the
model's schedule error -/
def SNK {α} (x : M α) : Prop :=
  ∀ s m, m.ctx = true →
    x (setS s m) = ((x m).1, setS s (x m).2) ∧ (x m).2.ctx = true ∧ (x m).1 ≠ .error .sched

theorem SNK.snc {α} {x : M α} (h : SNK x) : SNc x := fun s m hc => (h s m hc).1
theorem SNK.nsc {α} {x : M α} (h : SNK x) : NSc x := fun m hc => (h [] m hc).2.2

theorem SNK.of {α} {x : M α} (hsn : SN x) (hns : NS x) (hctx : ∀ m, (x m).2.ctx = m.ctx) : SNK x :=
  fun s m hc => ⟨hsn s m, by rw [hctx m]; exact hc, hns m⟩

/-- one nested call in a proof of `SNK`; `hc1` names the fact that the context is still open -/
macro "snk_next " h:term " , " x:term " => " a:rcasesPat ppSpace m1:ident ppSpace hc1:ident : tactic =>
  `(tactic| (obtain ⟨h1, h2, h3⟩ := $h; rw [h1]; generalize $x = r at h2 h3 ⊢
             obtain ⟨r, $m1:ident⟩ := r; rcases r with e | $a:rcasesPat
             exact ⟨rfl, h2, fun h' => h3 (by cases h'; rfl)⟩
             have $hc1:ident : ($m1:ident).ctx = true := h2
             clear h1 h2 h3
             try simp only))

/-! ### the context flag is kept by `find_or_add` -/

theorem incref_ctx (u : Int) (m : Mgr) : (incref u m).2.ctx = m.ctx := by
  unfold incref
  split <;> rfl

theorem requestReordering_ctx (m : Mgr) : (requestReordering m).2.ctx = m.ctx := by
  unfold requestReordering
  repeat' split
  all_goals rfl

theorem foaTail_ctx (r0 v' w' : Int) (u : Nat) (m : Mgr) : (foaTail r0 v' w' u m).2.ctx = m.ctx := by
  unfold foaTail
  have h1 := incref_ctx v' m
  generalize incref v' m = r1 at h1
  obtain ⟨r1, m1⟩ := r1
  cases r1 with
  | error e => exact h1
  | ok _ =>
    simp only at h1 ⊢
    have h2 := incref_ctx w' m1
    generalize incref w' m1 = r2 at h2
    obtain ⟨r2, m2⟩ := r2
    cases r2 with
    | error e => exact h2.trans h1
    | ok _ => exact h2.trans h1

theorem findOrAddCore_ctx (i : Nat) (v w : Int) (m : Mgr) : (findOrAddCore i v w m).2.ctx = m.ctx := by
  have key : ∀ m : Mgr, findOrAddCore i v w m =
      if m.nvars ≤ i then (.error .value, m) else
      if !m.mem v then (.error .value, m) else
      if !m.mem w then (.error .value, m) else
      if (if w < 0 then -v else v) = (if w < 0 then -w else w) then
        (.ok ((if w < 0 then -1 else 1) * (if w < 0 then -v else v)), m) else
      match m.pred[(⟨i, if w < 0 then -v else v, if w < 0 then -w else w⟩ : Nd).key]? with
      | some u => (.ok ((if w < 0 then -1 else 1) * (u : Int)), m)
      | none =>
        if m.minFree ≤ 1 then (.error .assertion, m) else
        if m.tbl.succ.contains m.minFree then (.error .assertion, m) else
        foaTail (if w < 0 then -1 else 1) (if w < 0 then -v else v) (if w < 0 then -w else w) m.minFree
          (foaNew i (if w < 0 then -v else v) (if w < 0 then -w else w) m) := fun m => rfl
  rw [key m]
  generalize (if w < 0 then -v else v) = v'
  generalize (if w < 0 then -w else w) = w'
  generalize (if w < 0 then (-1 : Int) else 1) = r0
  split
  · rfl
  split
  · rfl
  split
  · rfl
  split
  · rfl
  cases m.pred[(⟨i, v', w'⟩ : Nd).key]? with
  | some u => rfl
  | none =>
    simp only
    split
    · rfl
    split
    · rfl
    exact foaTail_ctx _ _ _ _ _

theorem findOrAdd_ctx (i : Int) (v w : Int) (m : Mgr) : (findOrAdd i v w m).2.ctx = m.ctx := by
  have key : ∀ m : Mgr, findOrAdd i v w m =
      match (if m.ctx then requestReordering m else (.ok (), m)) with
      | (.error e, m1) => (.error e, m1)
      | (.ok _, m1) => if i < 0 then (.error .value, m1) else findOrAddCore i.toNat v w m1 := fun m => rfl
  rw [key m]
  cases hc : m.ctx with
  | false =>
    simp only [Bool.false_eq_true, if_false]
    split
    · exact hc
    · rw [findOrAddCore_ctx]; exact hc
  | true =>
    simp only [if_true]
    have h1 := requestReordering_ctx m
    generalize requestReordering m = r1 at h1
    obtain ⟨r1, m1⟩ := r1
    cases r1 with
    | error e => exact h1.trans hc
    | ok _ =>
      simp only at h1 ⊢
      split
      · exact h1.trans hc
      · rw [findOrAddCore_ctx]; exact h1.trans hc

theorem findOrAdd_snk (i : Int) (v w : Int) : SNK (findOrAdd i v w) :=
  SNK.of (findOrAdd_sn i v w) (findOrAdd_ns i v w) (findOrAdd_ctx i v w)

/-- the decorated `ite` nested in a context -/
theorem ite_snk (g u v : Int) : SNK (ite g u v) := by
  intro s m hc
  have e1 := tryToReorder_nested (iteRaw g u v) (setS s m) hc
  have e2 := tryToReorder_nested (iteRaw g u v) m hc
  unfold ite
  rw [e1, e2, iteRaw_sn g u v s m]
  exact ⟨rfl, rfl, iteRaw_ns g u v m⟩

/-- a leaf: the state is returned as it is, the answer is not `.sched` -/
macro "snk_leaf " hc:term : tactic =>
  `(tactic| first
    | exact ⟨rfl, $hc, fun h => by cases h⟩
    | exact ⟨trivial, $hc, fun h => by cases h⟩
    | simp [($hc)])

/-! ### `quantify` -/

theorem quantifyF_snk (qvars : List Nat) (fa : Bool) :
    ∀ (f : Nat) (u : Int) (ordvar : List Nat) (cache : HashMap Int Int),
      SNK (quantifyF qvars fa f u ordvar cache)
  | 0, _, _, _ => fun _ _ hc => by snk_leaf hc
  | f+1, u, ordvar, cache => by
    intro s m hc
    have ih := quantifyF_snk qvars fa f
    unfold quantifyF
    simp only [setS_tbl]
    split
    · snk_leaf hc
    split
    · snk_leaf hc
    split
    · snk_leaf hc
    rename_i n _
    split
    · snk_leaf hc
    split
    · snk_leaf hc
    snk_next ih _ _ _ s m hc, quantifyF qvars fa f _ _ _ m => ⟨p, c1⟩ m1 hc1
    snk_next ih _ _ c1 s m1 hc1, quantifyF qvars fa f _ _ c1 m1 => ⟨q, c2⟩ m2 hc2
    cases qvars.contains n.lvl with
    | true =>
      cases fa with
      | true =>
        simp only [↓reduceIte]
        snk_next ite_snk p q (-1) s m2 hc2, ite p q (-1) m2 => r m3 hc3
        snk_leaf hc3
      | false =>
        simp only [↓reduceIte, Bool.false_eq_true]
        snk_next ite_snk p 1 q s m2 hc2, ite p 1 q m2 => r m3 hc3
        snk_leaf hc3
    | false =>
      simp only [↓reduceIte, Bool.false_eq_true]
      snk_next findOrAdd_snk n.lvl p q s m2 hc2, findOrAdd n.lvl p q m2 => r m3 hc3
      snk_leaf hc3

/-- a leaf that re-raises an error of `_top_cofactor` -/
macro "snk_tc " hc:term : tactic =>
  `(tactic| exact ⟨rfl, $hc, ns_triv (topCofactor_ne (by assumption))⟩)

/-! ### `compose` -/

theorem composeF_snk (j : Nat) :
    ∀ (fu : Nat) (f g : Int) (cache : HashMap (Int × Int) Int), SNK (composeF j fu f g cache)
  | 0, _, _, _ => fun _ _ hc => by snk_leaf hc
  | fu+1, f, g, cache => by
    intro s m hc
    have ih := composeF_snk j fu
    unfold composeF
    simp only [setS_tbl]
    split
    · snk_leaf hc
    split
    · snk_leaf hc
    split
    · snk_leaf hc
    rename_i n _
    split
    · snk_leaf hc
    split
    · snk_leaf hc
    split
    · snk_next ite_snk g n.hi n.lo s m hc, ite g n.hi n.lo m => r m1 hc1
      snk_leaf hc1
    split
    · snk_leaf hc
    rename_i k _
    split
    · snk_tc hc
    · snk_tc hc
    rename_i f0 f1 g0 g1 _ _
    snk_next ih f0 g0 cache s m hc, composeF j fu f0 g0 cache m => ⟨p, c1⟩ m1 hc1
    snk_next ih f1 g1 c1 s m1 hc1, composeF j fu f1 g1 c1 m1 => ⟨q, c2⟩ m2 hc2
    snk_next findOrAdd_snk (min n.lvl k : Nat) p q s m2 hc2, findOrAdd _ p q m2 => r m3 hc3
    snk_leaf hc3

theorem subOrVar_snk (sub : List (Nat × Int)) (i : Nat) : SNK (subOrVar sub i) := by
  intro s m hc
  unfold subOrVar
  split
  · snk_leaf hc
  · exact findOrAdd_snk i (-1) 1 s m hc

theorem vectorComposeF_snk (sub : List (Nat × Int)) :
    ∀ (fu : Nat) (f : Int) (cache : HashMap Nat Int), SNK (vectorComposeF sub fu f cache)
  | 0, _, _ => fun _ _ hc => by snk_leaf hc
  | fu+1, f, cache => by
    intro s m hc
    have ih := vectorComposeF_snk sub fu
    unfold vectorComposeF
    simp only [setS_tbl]
    split
    · snk_leaf hc
    split
    · split
      · snk_leaf hc
      · snk_leaf hc
    split
    · snk_leaf hc
    rename_i n _
    split
    · snk_leaf hc
    snk_next ih n.lo cache s m hc, vectorComposeF sub fu n.lo cache m => ⟨p, c1⟩ m1 hc1
    snk_next ih n.hi c1 s m1 hc1, vectorComposeF sub fu n.hi c1 m1 => ⟨q, c2⟩ m2 hc2
    snk_next subOrVar_snk sub n.lvl s m2 hc2, subOrVar sub n.lvl m2 => g m3 hc3
    snk_next ite_snk g q p s m3 hc3, ite g q p m3 => r m4 hc4
    snk_leaf hc4

/-! ### `rename` / `copy_bdd` -/

theorem copyBddF_snk (src : Option Tbl) (levelMap : List (Nat × Nat)) :
    ∀ (fu : Nat) (u : Int) (cache : HashMap Nat Int), SNK (copyBddF src levelMap fu u cache)
  | 0, _, _ => fun _ _ hc => by snk_leaf hc
  | fu+1, u, cache => by
    intro s m hc
    have ih := copyBddF_snk src levelMap fu
    unfold copyBddF
    simp only [setS_tbl]
    split
    · snk_leaf hc
    split
    · split
      · snk_leaf hc
      · snk_leaf hc
    split
    · snk_leaf hc
    rename_i n _
    split
    · snk_leaf hc
    snk_next ih n.lo cache s m hc, copyBddF src levelMap fu n.lo cache m => ⟨p, c1⟩ m1 hc1
    snk_next ih n.hi c1 s m1 hc1, copyBddF src levelMap fu n.hi c1 m1 => ⟨q, c2⟩ m2 hc2
    split
    · snk_leaf hc2
    split
    · snk_leaf hc2
    split
    · snk_leaf hc2
    rename_i jnew _
    snk_next findOrAdd_snk jnew (-1) 1 s m2 hc2, findOrAdd jnew (-1) 1 m2 => g m3 hc3
    snk_next ite_snk g q p s m3 hc3, ite g q p m3 => r m4 hc4
    split
    · snk_leaf hc4
    · snk_leaf hc4

/-! ### the bodies -/

theorem quantifyBody_snk (u : Int) (qvars : List Key) (fa : Bool) : SNK (quantifyBody u qvars fa) := by
  intro s m hc
  unfold quantifyBody
  simp only [setS_tbl, setS_nvars]
  split
  · exact ⟨rfl, hc, ns_triv (mapToLevelE_ne (by assumption))⟩
  rename_i lv _
  snk_next quantifyF_snk lv fa (m.nvars + 2) u (sortNat (dedup lv)) {} s m hc,
    quantifyF lv fa (m.nvars + 2) u _ _ m => ⟨r, c⟩ m1 hc1
  snk_leaf hc1

theorem levelOfVarE_ne {t : Tbl} {v : String} {e : Err} (h : levelOfVarE t v = .error e) : e ≠ .sched := by
  unfold levelOfVarE at h
  split at h
  · cases h
  · cases h; exact fun h => by cases h

theorem subLevelE_ne (t : Tbl) (vg : String × Int) (e : Err) (h : subLevelE t vg = .error e) :
    e ≠ .sched := by
  unfold subLevelE at h
  split at h
  · cases h; exact levelOfVarE_ne (by assumption)
  · cases h

theorem composeBody_snk (f : Int) (varSub : List (String × Int)) : SNK (composeBody f varSub) := by
  intro s m hc
  unfold composeBody
  simp only [setS_tbl, setS_nvars]
  split
  · rename_i v g
    split
    · exact ⟨rfl, hc, ns_triv (levelOfVarE_ne (by assumption))⟩
    rename_i j _
    snk_next composeF_snk j (2 * m.nvars + 4) f g {} s m hc,
      composeF j (2 * m.nvars + 4) f g _ m => ⟨r, c⟩ m1 hc1
    snk_leaf hc1
  · split
    · exact ⟨rfl, hc, ns_triv (mapME_ne (subLevelE_ne m.tbl) _ _ (by assumption))⟩
    rename_i sub _
    snk_next vectorComposeF_snk sub (m.nvars + 2) f {} s m hc,
      vectorComposeF sub (m.nvars + 2) f _ m => ⟨r, c⟩ m1 hc1
    snk_leaf hc1

theorem renameMap_ne {t : Tbl} {dvars : List (String × String)} {e : Err}
    (h : renameMap t dvars = .error e) : e ≠ .sched := by
  unfold renameMap at h
  refine mapME_ne (fun vl e' h' => ?_) _ _ h
  split at h'
  · cases h'
  · cases h'; exact fun h => by cases h

theorem renameBody_snk (u : Int) (dvars : List (String × String)) : SNK (renameBody u dvars) := by
  intro s m hc
  unfold renameBody
  simp only [setS_tbl, setS_nvars]
  have hm' : (setS s m).mem u = m.mem u := rfl
  cases hm : m.mem u with
  | false =>
    simp only [hm', hm, Bool.not_false, if_true]
    snk_leaf hc
  | true =>
    simp only [hm', hm, Bool.not_true, Bool.false_eq_true, if_false]
    split
    · snk_leaf hc
    split
    · exact ⟨rfl, hc, ns_triv (renameMap_ne (by assumption))⟩
    rename_i lm _
    snk_next copyBddF_snk none lm (m.nvars + 2) u {} s m hc,
      copyBddF none lm (m.nvars + 2) u _ m => ⟨r, c⟩ m1 hc1
    snk_leaf hc1

end DD
