/-
  DDProofs.Capacity3Quantify — `_quantify` / `BDD.quantify` (and the quantifier aliases of
  `apply`) with `max_nodes = cap`:
  * `quantifyFG_model`: the twin over (`findOrAdd`, `ite`) is `quantifyF`;
  * `quantifyFG_outX`: three-outcome specification over ANY `find_or_add` / nested `ite` with
    three-outcome specifications (the proof of `quantifyF_out`, third outcome carried along);
  * instance `max_nodes = cap`; the decorated `quantifyCap`, `applyCapQ`: `DynTotal`, and the only
    exception on held operands is `RuntimeError`.
-/
import DD.Capacity3
import DDProofs.Capacity2Apply
import DDProofs.DynQuantify
import DDProofs.DynOps
open Std

namespace DD

theorem quantifyFG_model (Q : List Nat) (fa : Bool) :
    ∀ f u ov c, quantifyFG findOrAdd ite Q fa f u ov c = quantifyF Q fa f u ov c := by
  intro f
  induction f with
  | zero => intros; rfl
  | succ f ih =>
    intro u ov c
    funext m
    unfold quantifyFG quantifyF
    simp only [ih]
    rfl

theorem quantifyG_model : quantifyG findOrAdd ite = quantify := by
  funext u q fa
  unfold quantifyG quantify quantifyBodyG quantifyBody
  simp only [quantifyFG_model]
  rfl

/-! ### three outcomes for recursions that return (result, memo) -/

def OutcomeX2 {α β} (E : Err → Prop) (m : Mgr) (Post : α → β → Mgr → Prop)
    (res : Except Err (α × β) × Mgr) : Prop :=
  OutcomeX E m (fun rc m' => Post rc.1 rc.2 m') res

theorem OutcomeX.cases2 {α} {E : Err → Prop} {m : Mgr} {Post : α → Mgr → Prop}
    {res : Except Err α × Mgr} (h : OutcomeX E m Post res) :
    (∃ r m', res = (.ok r, m') ∧ StepK m m' ∧ Post r m') ∨
    (∃ e m', res = (.error e, m') ∧ StepK m m' ∧ (e = .needsReordering → Armed m) ∧
      (e = .needsReordering ∨ E e)) := by
  obtain ⟨r, m'⟩ := res
  cases r with
  | ok r => exact Or.inl ⟨r, m', rfl, h.1, h.2⟩
  | error e => exact Or.inr ⟨e, m', rfl, h.1, h.2.1, h.2.2⟩

theorem OutcomeX2.cases {α β} {E : Err → Prop} {m : Mgr} {Post : α → β → Mgr → Prop}
    {res : Except Err (α × β) × Mgr} (h : OutcomeX2 E m Post res) :
    (∃ r c m', res = (.ok (r, c), m') ∧ StepK m m' ∧ Post r c m') ∨
    (∃ e m', res = (.error e, m') ∧ StepK m m' ∧ (e = .needsReordering → Armed m) ∧
      (e = .needsReordering ∨ E e)) := by
  rcases OutcomeX.cases2 h with ⟨⟨r, c⟩, m', he, hs, hp⟩ | h
  · exact Or.inl ⟨r, c, m', he, hs, hp⟩
  · exact Or.inr h

theorem OutcomeX2.ok {α β} {E : Err → Prop} {m m' : Mgr} {Post : α → β → Mgr → Prop} {r : α} {c : β}
    (hs : StepK m m') (hp : Post r c m') : OutcomeX2 E m Post (.ok (r, c), m') := ⟨hs, hp⟩

/-- a failure (signal or exception of `E`) of an inner call after some steps -/
theorem OutcomeX2.fail {α β} {E : Err → Prop} {m m1 m' : Mgr} {Post : α → β → Mgr → Prop} {e : Err}
    (hs : StepK m m1) (hs' : StepK m1 m') (ha : e = .needsReordering → Armed m1)
    (hx : e = .needsReordering ∨ E e) : OutcomeX2 E m Post (.error e, m') :=
  ⟨hs.trans hs', fun he => (ha he).back hs.frame, hx⟩

theorem OutcomeX2.fail0 {α β} {E : Err → Prop} {m m' : Mgr} {Post : α → β → Mgr → Prop} {e : Err}
    (hs : StepK m m') (ha : e = .needsReordering → Armed m)
    (hx : e = .needsReordering ∨ E e) : OutcomeX2 E m Post (.error e, m') :=
  ⟨hs, ha, hx⟩

/-- the three-outcome specification of the decorated `ite` NESTED in a recursion (inside a
context, or with requests disabled) -/
def IteNestedX (E : Err → Prop) (iteX : Int → Int → Int → M Int) : Prop :=
  ∀ (m : Mgr), Inv m → Quiet m → ∀ (g u v : Int), m.tbl.Mem g → m.tbl.Mem u → m.tbl.Mem v →
    OutcomeX E m (fun r m' => ItePost m g u v r m') (iteX g u v m)

/-- GENERIC: `_quantify` over a `find_or_add` and a nested `ite` that have three-outcome
specifications (documented result | aborted by a request | exception of `E`, always having only
added nodes) has one: the documented quantification, or aborted, or an exception of `E` — the
text of the proof of `quantifyF_out` with the third outcome carried along -/
theorem quantifyFG_outX (E : Err → Prop) (foa iteX : Int → Int → Int → M Int)
    (hfoa : FoaX E foa) (hite : IteNestedX E iteX) (Q : List Nat) (fa : Bool) :
    ∀ (f : Nat) (m : Mgr) (u : Int) (ordvar : List Nat) (cache : HashMap Int Int),
    Inv m → Quiet m → m.tbl.Mem u → QMemo fa Q m.tbl cache →
    (∀ j, j ∈ Q → m.tbl.levelOf u ≤ j → j ∈ ordvar) →
    m.nvars + 1 ≤ f + m.tbl.levelOf u →
    OutcomeX2 E m (fun r c m' => QMemo fa Q m'.tbl c ∧ QEntry fa Q m'.tbl u r)
      (quantifyFG foa iteX Q fa f u ordvar cache m) := by
  intro f
  induction f with
  | zero =>
    intro m u ordvar cache hI _ hu _ _ hf
    have := levelOf_le m.tbl hI.wf.toWF u
    have : m.nvars = m.tbl.nvars := rfl
    omega
  | succ f ih =>
    intro m u ordvar cache hI hq hu hmemo hord hf
    have hW := hI.wf.toWF
    unfold quantifyFG
    by_cases h1 : u.natAbs = 1
    · simp only [h1, if_true]
      refine OutcomeX2.ok (StepK.refl hI) ⟨hmemo, QEntry.self fa Q m.tbl hW u hu ?_⟩
      intro j _ hle hlt
      rw [levelOf_term m.tbl u h1] at hle
      omega
    · simp only [h1, if_false]
      cases hc : cache[u]? with
      | some r => exact OutcomeX2.ok (StepK.refl hI) ⟨hmemo, hmemo u r hc⟩
      | none =>
        simp only
        obtain ⟨n, hn⟩ := mem_node hu h1
        have hn' : m.tbl.succ[u.natAbs]? = some n := hn
        rw [hn']
        simp only [node_succ_ne_zero hW hn, if_false]
        have hlu := levelOf_node m.tbl u n h1 hn
        have hlo := hW.lo_lt _ _ hn
        have hhi := hW.hi_lt _ _ hn
        have hltn := hW.lvl_lt _ _ hn
        have hnv : m.nvars = m.tbl.nvars := rfl
        have hord' : ∀ j, j ∈ Q → n.lvl ≤ j → j ∈ ordvar.dropWhile (· < n.lvl) := by
          intro j hj hle
          exact mem_dropWhile_of_not _ j ordvar (hord j hj (by omega)) (by simpa using hle)
        generalize ordvar.dropWhile (· < n.lvl) = ov at hord' ⊢
        by_cases hemp : ov.isEmpty = true
        · simp only [hemp, if_true]
          refine OutcomeX2.ok (StepK.refl hI) ⟨hmemo, QEntry.self fa Q m.tbl hW u hu ?_⟩
          intro j hj hle _
          have := hord' j hj (by omega)
          rw [List.isEmpty_iff.mp hemp] at this
          cases this
        · simp only [hemp, Bool.false_eq_true, if_false]
          generalize hv : (if u < 0 then -n.lo else n.lo) = v
          generalize hw : (if u < 0 then -n.hi else n.hi) = w
          have hvm : m.tbl.Mem v := by rw [← hv]; exact mem_flip u (hW.lo_mem _ _ hn)
          have hwm : m.tbl.Mem w := by rw [← hw]; exact mem_flip u (hW.hi_mem _ _ hn)
          have hvl : n.lvl < m.tbl.levelOf v := by rw [← hv, levelOf_flip]; exact hlo
          have hwl : n.lvl < m.tbl.levelOf w := by rw [← hw, levelOf_flip]; exact hhi
          rcases (ih m v ov cache
            hI hq hvm hmemo (fun j hj hle => hord' j hj (by omega)) (by omega)).cases with
            ⟨p, c1, m1, he1, hs1, hm1, hp1⟩ | ⟨e1, m1, he1, hs1, ha1, hx1⟩
          rotate_left
          · rw [he1]; exact OutcomeX2.fail0 hs1 ha1 hx1
          rw [he1]
          simp only
          have hW1 := hs1.inv.wf.toWF
          rcases (ih m1 w ov c1
            hs1.inv (hq.step hs1) (hs1.ext.mem hwm) hm1
            (fun j hj hle => hord' j hj (by rw [hs1.ext.levelOf hwm] at hle; omega))
            (by rw [hs1.nvars, hs1.ext.levelOf hwm]; omega)).cases with
            ⟨q, c2, m2, he2, hs2, hm2, hp2⟩ | ⟨e2, m2, he2, hs2, ha2, hx2⟩
          rotate_left
          · rw [he2]; exact OutcomeX2.fail hs1 hs2 ha2 hx2
          rw [he2]
          simp only
          have hW2 := hs2.inv.wf.toWF
          have hp1' := hp1.ext hW1 hs2.ext
          have hs12 := hs1.trans hs2
          have hq2 := hq.step hs12
          have hlp : n.lvl < m2.tbl.levelOf p := by
            have := hp1'.lvl
            rw [hs12.ext.levelOf hvm] at this
            omega
          have hlq : n.lvl < m2.tbl.levelOf q := by
            have := hp2.lvl
            rw [hs12.ext.levelOf hwm] at this
            omega
          -- common conclusion, given the combining step
          have hfin : ∀ r3 m3, StepK m2 m3 → m3.tbl.Mem r3 → n.lvl ≤ m3.tbl.levelOf r3 →
              (∀ a, den m3.tbl r3 a = true ↔ qsem fa Q (den m3.tbl u) a) →
              OutcomeX2 E m (fun r c m' => QMemo fa Q m'.tbl c ∧ QEntry fa Q m'.tbl u r)
                ((Except.ok (r3, c2.insert u r3), m3) : Except Err (Int × HashMap Int Int) × Mgr) := by
            intro r3 m3 hs3 hr3 hl3 hd3
            have hs := hs12.trans hs3
            have hent : QEntry fa Q m3.tbl u r3 :=
              ⟨hs.ext.mem hu, hr3, by rw [hs.ext.levelOf hu, hlu]; exact hl3, hd3⟩
            exact OutcomeX2.ok hs ⟨(hm2.ext hW2 hs3.ext).insert hent, hent⟩
          -- Shannon expansion of `u` in a later table
          have hexp : ∀ m3, StepK m2 m3 → (∀ a, den m3.tbl u a =
                if a n.lvl then den m3.tbl w a else den m3.tbl v a) ∧
              (∀ a x, den m3.tbl v (upd a n.lvl x) = den m3.tbl v a) ∧
              (∀ a x, den m3.tbl w (upd a n.lvl x) = den m3.tbl w a) := by
            intro m3 hs3
            have hs := hs12.trans hs3
            have hW3 := hs3.inv.wf.toWF
            refine ⟨?_, ?_, ?_⟩
            · intro a
              rw [← hv, ← hw]
              exact den_flip_node m3.tbl hW3 u n a h1 (hs.ext.nodes _ _ hn)
            · intro a x
              exact den_indep' m3.tbl hW3 v (hs.ext.mem hvm) n.lvl x a
                (by rw [hs.ext.levelOf hvm]; exact hvl)
            · intro a x
              exact den_indep' m3.tbl hW3 w (hs.ext.mem hwm) n.lvl x a
                (by rw [hs.ext.levelOf hwm]; exact hwl)
          by_cases hqn : n.lvl ∈ Q
          · have hqc : Q.contains n.lvl = true := by simpa using hqn
            simp only [hqc, if_true]
            cases fa with
            | true =>
              simp only [if_true]
              rcases (hite m2 hs2.inv hq2 p q (-1)
                hp1'.mr hp2.mr (mem_neg_one _)).cases2 with
                ⟨r3, m3, he3, hk3, hp3⟩ | ⟨e3, m3, he3, hk3, ha3, hx3⟩
              rotate_left
              · rw [he3]; exact OutcomeX2.fail hs12 hk3 ha3 hx3
              rw [he3]
              simp only
              obtain ⟨hx, h0, h1'⟩ := hexp m3 hk3
              have hp1'' := hp1'.ext hW2 hp3.ext
              have hp2'' := hp2.ext hW2 hp3.ext
              refine hfin r3 m3 hk3 hp3.mem ?_ ?_
              · have := hp3.lvl
                rw [levelOf_neg_one] at this
                have := levelOf_le m2.tbl hW2 q
                omega
              · intro a
                rw [qsem_split_in true Q _ _ _ n.lvl hqn hx h0 h1' a]
                simp only
                rw [← hp1''.den a, ← hp2''.den a, hp3.den a, den_neg_one,
                  ← den_ext hp3.ext hW2 p a hp1'.mr, ← den_ext hp3.ext hW2 q a hp2.mr]
                exact bool_and_true_iff _ _
            | false =>
              simp only [Bool.false_eq_true, if_false]
              rcases (hite m2 hs2.inv hq2 p 1 q
                hp1'.mr (mem_one _) hp2.mr).cases2 with
                ⟨r3, m3, he3, hk3, hp3⟩ | ⟨e3, m3, he3, hk3, ha3, hx3⟩
              rotate_left
              · rw [he3]; exact OutcomeX2.fail hs12 hk3 ha3 hx3
              rw [he3]
              simp only
              obtain ⟨hx, h0, h1'⟩ := hexp m3 hk3
              have hp1'' := hp1'.ext hW2 hp3.ext
              have hp2'' := hp2.ext hW2 hp3.ext
              refine hfin r3 m3 hk3 hp3.mem ?_ ?_
              · have := hp3.lvl
                rw [levelOf_one] at this
                have := levelOf_le m2.tbl hW2 q
                omega
              · intro a
                rw [qsem_split_in false Q _ _ _ n.lvl hqn hx h0 h1' a]
                simp only
                rw [← hp1''.den a, ← hp2''.den a, hp3.den a, den_one,
                  ← den_ext hp3.ext hW2 p a hp1'.mr, ← den_ext hp3.ext hW2 q a hp2.mr]
                exact bool_or_true_iff _ _
          · have hqc : Q.contains n.lvl = false := by simpa using hqn
            simp only [hqc, Bool.false_eq_true, if_false]
            rcases (hfoa m2 n.lvl p q hs2.inv
              (by rw [hs12.nvars]; exact hltn) hp1'.mr hp2.mr hlp hlq).cases2 with
              ⟨r3, m3, he3, hk3, hp3⟩ | ⟨e3, m3, he3, hk3, ha3, hx3⟩
            rotate_left
            · rw [he3]; exact OutcomeX2.fail hs12 hk3 ha3 hx3
            rw [he3]
            simp only
            obtain ⟨hx, _, _⟩ := hexp m3 hk3
            have hp1'' := hp1'.ext hW2 hp3.ext
            have hp2'' := hp2.ext hW2 hp3.ext
            refine hfin r3 m3 hk3 hp3.mem hp3.lvl ?_
            intro a
            rw [qsem_split_out fa Q _ _ _ n.lvl hqn hx a, ← hp1''.den a, ← hp2''.den a, hp3.den a,
              ← den_ext hp3.ext hW2 p a hp1'.mr, ← den_ext hp3.ext hW2 q a hp2.mr]
            cases a n.lvl <;> simp


/-! ### the bodies -/

/-- body of `quantify` over declared names: documented result by name | aborted | exception of `E` -/
theorem quantifyBodyG_outX (E : Err → Prop) (foa iteX : Int → Int → Int → M Int)
    (hfoa : FoaX E foa) (hite : IteNestedX E iteX)
    (m0 : Mgr) (hI0 : Inv m0) (hq : Quiet m0) (hO : OrderOK m0.tbl) (u : Int)
    (hu : m0.tbl.Mem u) (fa : Bool) (names : List String)
    (hdecl : ∀ s ∈ names, m0.tbl.vars.contains s = true) :
    OutcomeX E m0 (fun r m1 => QuantDoc fa names u m0.tbl r m1.tbl)
      (quantifyBodyG foa iteX u (names.map Key.name) fa m0) := by
  have hW := hI0.wf.toWF
  unfold quantifyBodyG
  rw [mapToLevelE_names m0.tbl names hdecl]
  simp only
  rcases (quantifyFG_outX E foa iteX hfoa hite (names.map (lvlOf m0.tbl)) fa (m0.nvars + 2) m0 u
    (sortNat (dedup (names.map (lvlOf m0.tbl)))) {} hI0 hq hu (QMemo.empty _ _ _)
    (fun j hj _ => (mem_ordvar j _).mpr hj) (by omega)).cases with
    ⟨r, c, m1, he, hs, _, hp⟩ | ⟨e, m1, he, hs, ha, hx⟩
  rotate_left
  · rw [he]; exact ⟨hs, ha, hx⟩
  rw [he]
  refine ⟨hs, hp.mr, fun σ => ?_⟩
  have hl : m1.tbl.lift σ = m0.tbl.lift σ := by
    unfold Tbl.lift Tbl.nameOf; rw [hs.frame.l2v]
  unfold denN
  rw [hp.den, hl, den_ext_fun hs.ext hW u hu]
  exact qsem_lift hW hO u hu fa names hdecl σ

/-- body of `quantify` for ANY node and ANY keys, inside a context -/
theorem quantifyBodyG_totE (E : Err → Prop) (foa iteX : Int → Int → Int → M Int)
    (hfoa : FoaX E foa) (hite : IteNestedX E iteX)
    (m : Mgr) (hI : Inv m) (hc : m.ctx = true) (u : Int) (qvars : List Key)
    (fa : Bool) : TotE m (quantifyBodyG foa iteX u qvars fa m) := by
  unfold quantifyBodyG
  cases hlv : mapToLevelE m.tbl qvars with
  | error e =>
    exact TotE.same hI _ (by
      intro h; cases h
      exact mapToLevelE_noNR _ _ hlv)
  | ok lv =>
    simp only
    by_cases hu : m.tbl.Mem u
    · have h := quantifyFG_outX E foa iteX hfoa hite lv fa (m.nvars + 2) m u (sortNat (dedup lv)) {}
        hI (Or.inl hc) hu (QMemo.empty _ _ _) (fun j hj _ => (mem_ordvar j _).mpr hj) (by omega)
      have ht := (OutcomeX.toE h).tot
      split
      · next heq => exact ht.err_of heq
      · next heq => exact TotE.ok (ht.step_of heq) _
    · obtain ⟨h1, h2⟩ := not_mem_cases hu
      have : quantifyFG foa iteX lv fa (m.nvars + 2) u (sortNat (dedup lv)) {} m = (.error .key, m) := by
        show quantifyFG foa iteX lv fa ((m.nvars + 1) + 1) u (sortNat (dedup lv)) {} m = _
        unfold quantifyFG
        simp only [h1, if_false, hashMap_empty_get, h2]
      rw [this]
      exact TotE.same hI _ (by simp)

/-! ### the instance `max_nodes = cap` -/

/-- the decorated `ite` with capacity, nested in a recursion -/
theorem iteCap_nestedX (cap : Nat) : IteNestedX (fun e => e = .runtime) (iteCap cap) := by
  intro m hI hq g u v hg hu hv
  have h := iteCapRaw_outX cap { m with ctx := true } g u v (hI.setCtx true) hg hu hv
  generalize hres : iteCapRaw cap g u v { m with ctx := true } = res at h
  obtain ⟨r, m1⟩ := res
  cases r with
  | ok r =>
    have e : iteCap cap g u v m = (.ok r, { m1 with ctx := m.ctx }) := tryToReorder_ok _ m r m1 hres
    rw [e]
    have hp' : ItePost { m with ctx := true } g u v r m1 := h.2
    exact ⟨h.1.ofCtx true, hp'.inv.setCtx _, hp'.ext, hp'.mem, hp'.lvl, hp'.den,
      ⟨hp'.frame.vars, hp'.frame.l2v, hp'.frame.lastLen, rfl, hp'.frame.sched, hp'.frame.roots⟩⟩
  | error e =>
    rcases OutcomeX.err h with ⟨he, ha⟩ | ⟨hne, hE⟩
    · -- the signal: only inside a context, where it is re-raised
      subst he
      have hsome : m.lastLen.isSome = true := ha.2
      have hctx : m.ctx = true := by
        rcases hq with h' | h'
        · exact h'
        · rw [h'] at hsome; exact Bool.noConfusion hsome
      have hm : ({ m with ctx := true } : Mgr) = m := Mgr.setCtx_self m hctx
      rw [hm] at hres h
      have e' : iteCap cap g u v m = (.error .needsReordering, { m1 with ctx := true }) := by
        unfold iteCap
        rw [tryToReorder_nested _ m hctx, hres]
      rw [e']
      have h1 : m1.ctx = true := by rw [h.1.frame.ctx]; exact hctx
      rw [Mgr.setCtx_self m1 h1]
      exact ⟨h.1, fun _ => ⟨hctx, hsome⟩, Or.inl rfl⟩
    · have e' : iteCap cap g u v m = (.error e, { m1 with ctx := m.ctx }) :=
        tryToReorder_err _ m e m1 hres hne
      rw [e']
      exact ⟨h.1.ofCtx true, fun he => absurd he hne, Or.inr hE⟩

/-- `_quantify` of a manager with `max_nodes = cap`: the documented quantification | aborted by a
request | `RuntimeError` — always having only added nodes, counts exact -/
theorem quantifyCapF_outX (cap : Nat) (Q : List Nat) (fa : Bool) (f : Nat) (m : Mgr) (u : Int)
    (ordvar : List Nat) (cache : HashMap Int Int) (hI : Inv m) (hq : Quiet m) (hu : m.tbl.Mem u)
    (hmemo : QMemo fa Q m.tbl cache) (hord : ∀ j, j ∈ Q → m.tbl.levelOf u ≤ j → j ∈ ordvar)
    (hf : m.nvars + 1 ≤ f + m.tbl.levelOf u) :
    OutcomeX2 (fun e => e = .runtime) m (fun r c m' => QMemo fa Q m'.tbl c ∧ QEntry fa Q m'.tbl u r)
      (quantifyFG (findOrAddCap cap) (iteCap cap) Q fa f u ordvar cache m) :=
  quantifyFG_outX _ _ _ (findOrAddCap_foaX cap) (iteCap_nestedX cap) Q fa f m u ordvar cache
    hI hq hu hmemo hord hf

/-- `BDD.quantify` with capacity: ANY node, ANY names or levels, reordering enabled or not,
whatever it returns or raises (`RuntimeError('full')` half-way included): `DynTotal` -/
theorem quantifyCap_total_dyn (cap : Nat) (ext : Nat → Nat) (m : Mgr) (hD : DynInv ext m)
    (u : Int) (qvars : List Key) (fa : Bool) : DynTotal ext m (quantifyCap cap u qvars fa m) :=
  tryToReorder_total_dyn ext (siftContract ext) _
    (fun m0 hI hc _ => quantifyBodyG_totE _ _ _ (findOrAddCap_foaX cap) (iteCap_nestedX cap)
      m0 hI hc u qvars fa) m hD

/-- held node, declared names: the documented result by name, or an exception — and the only
exception is `RuntimeError` -/
theorem quantifyCap_result_dyn (cap : Nat) (ext : Nat → Nat) (m : Mgr) (hD : DynInv ext m)
    (u : Int) (hu : HeldX ext u) (fa : Bool) (names : List String)
    (hdecl : ∀ s ∈ names, m.tbl.vars.contains s = true) :
    DynResult ext (QuantDoc fa names u) m (quantifyCap cap u (names.map Key.name) fa m) := by
  refine tryToReorder_rejected ext (siftContract ext) _ [u]
    (fun t => ∀ s ∈ names, t.vars.contains s = true) (QuantDoc fa names u) ?_ ?_ ?_ m hD ?_ hdecl
  · intro m0 hI0 hc hO hpre hmem
    exact (quantifyBodyG_outX _ _ _ (findOrAddCap_foaX cap) (iteCap_nestedX cap) m0 hI0 (Or.inl hc)
      hO u (hmem u (by simp)) fa names hpre).toE
  · intro t t' hB hpre s hs
    rw [hB.names s]; exact hpre s hs
  · intro t t' r t'' hB _ hd
    refine ⟨hd.1, fun σ => ?_⟩
    rw [hd.2 σ]
    exact qsemN_congr fa names _ _ (fun τ => (hB.ops u (by simp)).2 τ) σ
  · intro w hw
    simp only [List.mem_cons, List.not_mem_nil, or_false] at hw
    subst hw; exact hu

/-- `BDD.apply` with capacity, EVERY operator (quantifier aliases included), ANY arity and
operands: `DynTotal` -/
theorem applyCapQ_total_dyn (cap : Nat) (ext : Nat → Nat) (m : Mgr) (hD : DynInv ext m)
    (op : String) (u : Int) (v w : Option Int) : DynTotal ext m (applyCapQ cap op u v w m) := by
  have same : ∀ e : Err, e ≠ .needsReordering →
      DynTotal ext m ((.error e, m) : Except Err Int × Mgr) :=
    fun e he => DynTotal.same hD _ (by simpa using he)
  unfold applyCapQ applyG
  split
  · next e heq =>
    refine same e ?_
    intro he; subst he
    unfold assertOperatorArity at heq
    repeat' split at heq
    all_goals simp at heq
  split
  · exact same _ (by simp)
  split
  · exact same _ (by simp)
  split
  · exact same _ (by simp)
  split
  · exact same _ (by simp)
  split
  · exact DynTotal.same hD _ (by simp)
  · split
    · exact same _ (by simp)
    split
    · exact same _ (by simp)
    split
    · exact iteCap_total_dyn cap ext m hD _ _ _
    · exact same _ (fun he => by subst he; exact atomVal_noNR _ _ _ _ (by assumption))
    · exact same _ (fun he => by subst he; exact atomVal_noNR _ _ _ _ (by assumption))
    · exact same _ (fun he => by subst he; exact atomVal_noNR _ _ _ _ (by assumption))
  · split
    · exact same _ (by simp)
    split
    · split
      · next e heq => exact same e (fun he => by subst he; exact support_noNR _ _ heq)
      · exact quantifyCap_total_dyn cap ext m hD _ _ _
    · exact same _ (fun he => by subst he; exact atomVal_noNR _ _ _ _ (by assumption))
    · exact same _ (fun he => by subst he; exact atomVal_noNR _ _ _ _ (by assumption))
  · exact same _ (by simp)
  · exact same _ (by simp)

end DD
