/-
  DDProofs.CapacitySim — (a) REFINEMENT: a computation on a manager with `max_nodes = cap`
  against the same computation of the capacity-free model.

  `CapOK cap m m'` (about the capacity-FREE run from `m` to `m'`): nothing was created
  (`_min_free` did not move) or the final `_min_free` is below the capacity.  Between two
  collections `_min_free` only grows, and the node created at `_min_free = u` needs the next free
  number to be `< cap`, so this is exactly "every free integer the run needs is `< cap`".

  `CapSim cap xc x` — one relation, closed under `pure`, `bind`, the three layers of
  `find_or_add`, `_ite` over any such `find_or_add`:
    mono   `_min_free` never decreases in the capacity-free run;
    agree  `CapOK` ⇒ the run with capacity IS the capacity-free run (answer and state);
    full   otherwise the run with capacity raises `RuntimeError`.
  So EVERY statement about `x m` holds of `xc m` under the one side condition `CapOK`
  (`CapSim.transfer`), and the side condition is sharp (`CapSim.iff`).
-/
import DDProofs.CapacityFoa
import DDProofs.DynOutcome
open Std

namespace DD

/-- the capacity-free run from `m` to `m'` needed no number `≥ cap` -/
def CapOK (cap : Nat) (m m' : Mgr) : Prop := m'.minFree = m.minFree ∨ m'.minFree < cap

instance (cap : Nat) (m m' : Mgr) : Decidable (CapOK cap m m') := by unfold CapOK; infer_instance

/-- pointwise: results `rc` (with capacity) and `r` (capacity-free) of a call from `m` -/
structure CapSimAt {α} (cap : Nat) (rc r : Except Err α × Mgr) (m : Mgr) : Prop where
  mono : m.minFree ≤ r.2.minFree
  agree : CapOK cap m r.2 → rc = r
  full : ¬ CapOK cap m r.2 → rc.1 = .error .runtime

/-- `xc` is `x` on a manager with `max_nodes = cap` -/
def CapSim {α} (cap : Nat) (xc x : M α) : Prop := ∀ m, CapSimAt cap (xc m) (x m) m

/-- a computation that does not move `_min_free` is its own refinement -/
theorem CapSimAt.same {α} {cap : Nat} {r : Except Err α × Mgr} {m : Mgr} (h : r.2.minFree = m.minFree) :
    CapSimAt cap r r m :=
  ⟨by rw [h]; exact Nat.le_refl _, fun _ => rfl, fun hn => absurd (Or.inl h) hn⟩

/-- sequencing, pointwise (the shape of `M.bind'`) -/
theorem CapSimAt.bind {α β} {cap : Nat} {xc x : M α} {fc f : α → M β} {m : Mgr}
    (hx : CapSimAt cap (xc m) (x m) m)
    (hf : ∀ a m1, x m = (.ok a, m1) → CapSimAt cap (fc a m1) (f a m1) m1) :
    CapSimAt cap (M.bind' xc fc m) (M.bind' x f m) m := by
  unfold M.bind'
  generalize hres : x m = res at hx hf
  obtain ⟨r, m1⟩ := res
  cases r with
  | error e =>
    refine ⟨hx.mono, fun hc => ?_, fun hn => ?_⟩
    · rw [hx.agree hc]
    · have := hx.full hn
      generalize xc m = rc at this
      obtain ⟨r', m'⟩ := rc
      cases r' with
      | ok a => cases this
      | error e' =>
        have he : e' = Err.runtime := by simpa using this
        subst he
        rfl
  | ok a =>
    have h2 := hf a m1 rfl
    simp only
    refine ⟨Nat.le_trans hx.mono h2.mono, fun hc => ?_, fun hn => ?_⟩
    · -- the whole run is within the capacity: so is each half
      have hm1 := hx.mono
      have hm2 := h2.mono
      have hc1 : CapOK cap m m1 := by
        rcases hc with hc | hc
        · left; show m1.minFree = m.minFree; have : m1.minFree ≤ m.minFree := by rw [← hc]; exact hm2
          exact Nat.le_antisymm this hm1
        · right; exact Nat.lt_of_le_of_lt hm2 hc
      have hc2 : CapOK cap m1 (f a m1).2 := by
        rcases hc with hc | hc
        · left; have : m1.minFree ≤ m.minFree := by rw [← hc]; exact hm2
          have hm1' : m.minFree ≤ m1.minFree := hm1
          omega
        · right; exact hc
      rw [hx.agree hc1]
      exact h2.agree hc2
    · by_cases hc1 : CapOK cap m m1
      · rw [hx.agree hc1]
        apply h2.full
        intro hc2
        apply hn
        rcases hc2 with hc2 | hc2
        · rcases hc1 with hc1 | hc1
          · left; rw [hc2]; exact hc1
          · right; rw [hc2]; exact hc1
        · right; exact hc2
      · have := hx.full hc1
        generalize xc m = rc at this
        obtain ⟨r', m'⟩ := rc
        cases r' with
        | ok a => cases this
        | error e' =>
          have he : e' = Err.runtime := by simpa using this
          subst he
          rfl

theorem CapSim.bind {α β} {cap : Nat} {xc x : M α} {fc f : α → M β} (hx : CapSim cap xc x)
    (hf : ∀ a, CapSim cap (fc a) (f a)) : CapSim cap (xc >>= fc) (x >>= f) :=
  fun m => CapSimAt.bind (hx m) (fun a m1 _ => hf a m1)

theorem CapSim.pure {α} (cap : Nat) (a : α) : CapSim cap (pure a : M α) (pure a) :=
  fun _ => CapSimAt.same rfl

theorem CapSim.throw {α} (cap : Nat) (e : Err) : CapSim cap (M.throw e : M α) (M.throw e) :=
  fun _ => CapSimAt.same rfl

/-- any computation that leaves `_min_free` alone (reads, `incref`, `decref`, the computed
table, the context flag, the threshold) -/
theorem CapSim.same {α} (cap : Nat) (x : M α) (h : ∀ m, (x m).2.minFree = m.minFree) :
    CapSim cap x x := fun m => CapSimAt.same (h m)

/-- (a): whatever is known about the capacity-free run holds of the run with capacity, under
the side condition -/
theorem CapSim.transfer {α} {cap : Nat} {xc x : M α} (h : CapSim cap xc x) (m : Mgr)
    (P : Except Err α × Mgr → Prop) (hp : P (x m)) (hc : CapOK cap m (x m).2) : P (xc m) := by
  rw [(h m).agree hc]; exact hp

/-- the side condition is sharp: for a capacity-free run that does not itself raise
`RuntimeError`, the run with capacity agrees with it IF AND ONLY IF `CapOK` -/
theorem CapSim.iff {α} {cap : Nat} {xc x : M α} (h : CapSim cap xc x) (m : Mgr)
    (hx : (x m).1 ≠ .error .runtime) : xc m = x m ↔ CapOK cap m (x m).2 := by
  constructor
  · intro he
    apply Classical.byContradiction
    intro hn
    have := (h m).full hn
    rw [he] at this
    exact hx this
  · exact (h m).agree

/-- a run with capacity either is the capacity-free run or raises `RuntimeError` -/
theorem CapSim.dichotomy {α} {cap : Nat} {xc x : M α} (h : CapSim cap xc x) (m : Mgr) :
    xc m = x m ∨ (xc m).1 = .error .runtime := by
  by_cases hc : CapOK cap m (x m).2
  · exact Or.inl ((h m).agree hc)
  · exact Or.inr ((h m).full hc)

/-! ### `find_or_add` -/

theorem findOrAddCapCore_sim (cap i : Nat) (v w : Int) :
    CapSim cap (findOrAddCapCore cap i v w) (findOrAddCore i v w) := by
  intro m
  rcases findOrAddCapWith_cases (fun m _ _ => m) cap i v w m with ⟨he, h2, h3⟩ | ⟨t, _, _, _, he, h4, h5⟩
  · exact ⟨h2, fun _ => he, fun hn => absurd h3 hn⟩
  · refine ⟨Nat.le_of_lt h5, fun hc => ?_, fun _ => ?_⟩
    · rcases hc with hc | hc <;> omega
    · show (findOrAddCapCore cap i v w m).1 = _
      unfold findOrAddCapCore
      rw [he]

theorem requestReordering_minFree (m : Mgr) : (requestReordering m).2.minFree = m.minFree := by
  rcases requestReordering_cases m with ⟨f, h⟩ | ⟨f, h, _⟩ <;> rw [h]

/-- the wrapper (reordering request, sign of the level) over related cores -/
theorem findOrAddOver_sim (cap : Nat) (foaC foa : Nat → Int → Int → M Int)
    (h : ∀ i v w, CapSim cap (foaC i v w) (foa i v w)) (i v w : Int) :
    CapSim cap (findOrAddOver foaC i v w) (findOrAddOver foa i v w) := by
  intro m
  unfold findOrAddOver
  have hq : (if m.ctx = true then requestReordering m else (Except.ok (), m)).2.minFree = m.minFree := by
    split
    · exact requestReordering_minFree m
    · rfl
  generalize (if m.ctx = true then requestReordering m else (Except.ok (), m)) = res at hq
  obtain ⟨r, m1⟩ := res
  have hq' : m1.minFree = m.minFree := hq
  cases r with
  | error e => exact CapSimAt.same hq'
  | ok a =>
    simp only
    by_cases hi : i < 0
    · rw [if_pos hi, if_pos hi]; exact CapSimAt.same hq'
    · rw [if_neg hi, if_neg hi]
      have h1 := h i.toNat v w m1
      refine ⟨by rw [← hq']; exact h1.mono, fun hc => h1.agree ?_, fun hn => h1.full ?_⟩
      · unfold CapOK at hc ⊢; rw [hq']; exact hc
      · unfold CapOK at hn ⊢; rw [hq']; exact hn

theorem findOrAddOver_core : findOrAddOver findOrAddCore = findOrAdd := by
  funext i v w m
  rfl

/-- `find_or_add` with `max_nodes = cap` refines `find_or_add` -/
theorem findOrAddCap_sim (cap : Nat) (i v w : Int) :
    CapSim cap (findOrAddCap cap i v w) (findOrAdd i v w) := by
  have := findOrAddOver_sim cap (findOrAddCapCore cap) findOrAddCore (findOrAddCapCore_sim cap) i v w
  rw [findOrAddOver_core] at this
  exact this

/-! ### `_ite` -/

/-- the generic recursion instantiated with the capacity-free `find_or_add` is `iteF` -/
theorem iteG_findOrAdd : ∀ f g u v, iteG findOrAdd f g u v = iteF f g u v := by
  intro f
  induction f with
  | zero => intro g u v; rfl
  | succ f ih =>
    intro g u v
    funext m
    unfold iteG iteF
    simp only [ih]
    by_cases h1 : g = 1
    · simp only [h1, if_true]
    · simp only [h1, if_false]
      by_cases h2 : g = -1
      · simp only [h2, if_true]
      · simp only [h2, if_false]
        cases m.cache[iteKey g u v]? with
        | some w => rfl
        | none =>
          simp only
          cases m.tbl.levelOf? g with
          | none => rfl
          | some lg =>
            cases m.tbl.levelOf? u with
            | none => rfl
            | some lu =>
              cases m.tbl.levelOf? v with
              | none => rfl
              | some lv =>
                simp only
                cases topCofactor m.tbl g (min lg (min lu lv)) with
                | error e => rfl
                | ok pg =>
                  obtain ⟨g0, g1⟩ := pg
                  cases topCofactor m.tbl u (min lg (min lu lv)) with
                  | error e => rfl
                  | ok pu =>
                    obtain ⟨u0, u1⟩ := pu
                    cases topCofactor m.tbl v (min lg (min lu lv)) with
                    | error e => rfl
                    | ok pv =>
                      obtain ⟨v0, v1⟩ := pv
                      simp only [M.bind']
                      generalize iteF f g0 u0 v0 m = r1
                      obtain ⟨a1, m1⟩ := r1
                      cases a1 with
                      | error e => rfl
                      | ok p =>
                        simp only
                        generalize iteF f g1 u1 v1 m1 = r2
                        obtain ⟨a2, m2⟩ := r2
                        cases a2 with
                        | error e => rfl
                        | ok q =>
                          simp only
                          generalize findOrAdd (↑(min lg (min lu lv))) p q m2 = r3
                          obtain ⟨a3, m3⟩ := r3
                          cases a3 with
                          | error e => rfl
                          | ok w => rfl

theorem iteRawG_findOrAdd (g u v : Int) : iteRawG findOrAdd g u v = iteRaw g u v := by
  funext m
  rw [iteRaw_eq]
  unfold iteRawG
  rw [iteG_findOrAdd]

/-- `_ite` over related `find_or_add`s -/
theorem iteG_sim (cap : Nat) (foaC foa : Int → Int → Int → M Int)
    (h : ∀ i v w, CapSim cap (foaC i v w) (foa i v w)) :
    ∀ f g u v, CapSim cap (iteG foaC f g u v) (iteG foa f g u v) := by
  intro f
  induction f with
  | zero => intro g u v m; exact CapSimAt.same rfl
  | succ f ih =>
    intro g u v m
    unfold iteG
    split
    · exact CapSimAt.same rfl
    · split
      · exact CapSimAt.same rfl
      · split
        · exact CapSimAt.same rfl
        · split
          · simp only
            split
            · refine CapSimAt.bind (ih _ _ _ m) (fun p m1 _ => ?_)
              refine CapSimAt.bind (ih _ _ _ m1) (fun q m2 _ => ?_)
              refine CapSimAt.bind (h _ _ _ m2) (fun w m3 _ => ?_)
              exact CapSimAt.same rfl
            · exact CapSimAt.same rfl
            · exact CapSimAt.same rfl
            · exact CapSimAt.same rfl
          · exact CapSimAt.same rfl

/-- (a) for `_ite`: the recursion of a manager with `max_nodes = cap` refines `iteF` -/
theorem iteCapF_sim (cap f : Nat) (g u v : Int) : CapSim cap (iteCapF cap f g u v) (iteF f g u v) := by
  have := iteG_sim cap (findOrAddCap cap) findOrAdd (findOrAddCap_sim cap) f g u v
  rw [iteG_findOrAdd] at this
  exact this

theorem iteCapRaw_sim (cap : Nat) (g u v : Int) : CapSim cap (iteCapRaw cap g u v) (iteRaw g u v) := by
  intro m
  rw [iteRaw_eq]
  exact iteCapF_sim cap (m.nvars + 2) g u v m

/-! ### `var` -/

theorem varBodyG_findOrAdd (name : String) :
    varBodyG findOrAdd name = (do
      let m ← M.get
      match m.tbl.vars[name]? with
      | none => M.throw .value
      | some j => findOrAdd j (-1) 1) := by
  funext m
  unfold varBodyG
  simp only [bind, M.bind', M.get]
  cases m.tbl.vars[name]? <;> rfl

theorem varCapBody_sim (cap : Nat) (name : String) :
    CapSim cap (varBodyG (findOrAddCap cap) name) (varBodyG findOrAdd name) := by
  intro m
  unfold varBodyG
  cases m.tbl.vars[name]? with
  | none => exact CapSimAt.same rfl
  | some j => exact findOrAddCap_sim cap _ _ _ m

/-! ### the decorator -/

/-- the decorator around related bodies, when the first attempt of the capacity-free body is
not aborted by a reordering request (reordering disabled, or enabled and no request due): the
decorated call with capacity is the decorated capacity-free call under the same side condition,
stated on what the DECORATED call leaves -/
theorem tryToReorder_sim_first {α} (cap : Nat) (xc x : M α) (h : CapSim cap xc x) (m : Mgr)
    (hne : (x { m with ctx := true }).1 ≠ .error .needsReordering)
    (hc : CapOK cap m (tryToReorder x m).2) : tryToReorder xc m = tryToReorder x m := by
  generalize hres : x { m with ctx := true } = res at hne
  obtain ⟨r, m1⟩ := res
  cases r with
  | ok a =>
    have h1 := tryToReorder_ok x m a m1 hres
    rw [h1] at hc ⊢
    have : xc { m with ctx := true } = (.ok a, m1) := by
      rw [(h { m with ctx := true }).agree (by rw [hres]; exact hc), hres]
    exact tryToReorder_ok xc m a m1 this
  | error e =>
    have hne' : e ≠ .needsReordering := fun he => hne (by rw [he])
    have h1 := tryToReorder_err x m e m1 hres hne'
    rw [h1] at hc ⊢
    have : xc { m with ctx := true } = (.error e, m1) := by
      rw [(h { m with ctx := true }).agree (by rw [hres]; exact hc), hres]
    exact tryToReorder_err xc m e m1 this hne'

/-- and when the side condition fails (first attempt not aborted): `RuntimeError`, with the
context flag restored -/
theorem tryToReorder_sim_first_full {α} (cap : Nat) (xc x : M α) (h : CapSim cap xc x) (m : Mgr)
    (hne : (x { m with ctx := true }).1 ≠ .error .needsReordering)
    (hc : ¬ CapOK cap m (tryToReorder x m).2) :
    (tryToReorder xc m).1 = .error .runtime ∧ (tryToReorder xc m).2.ctx = m.ctx := by
  have hc' : ¬ CapOK cap { m with ctx := true } (x { m with ctx := true }).2 := by
    intro hc'
    apply hc
    generalize hres : x { m with ctx := true } = res at hne hc'
    obtain ⟨r, m1⟩ := res
    cases r with
    | ok a => rw [tryToReorder_ok x m a m1 hres]; exact hc'
    | error e =>
      have hne' : e ≠ .needsReordering := fun he => hne (by rw [he])
      rw [tryToReorder_err x m e m1 hres hne']; exact hc'
  have hf := (h { m with ctx := true }).full hc'
  generalize hres : xc { m with ctx := true } = res at hf
  obtain ⟨r, m1⟩ := res
  cases r with
  | ok a => cases hf
  | error e =>
    have he : e = Err.runtime := by simpa using hf
    subst he
    rw [tryToReorder_err xc m .runtime m1 hres (by decide)]
    exact ⟨rfl, rfl⟩

end DD
