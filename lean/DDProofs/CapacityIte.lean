/-
  DDProofs.CapacityIte — (c) the refusal of a full manager LIFTED to the recursive `_ite` and
  to the decorated entry points.

  `OutcomeX E`: the three-outcome specification `OutcomeE` (documented result | aborted by a
  reordering request | another exception — always after a step that only added nodes, counts
  kept exact) that also says WHICH other exceptions may occur (`E`).

  `iteG_outX`: `_ite` over ANY `find_or_add` that meets the three-outcome specification of
  `find_or_add` meets the three-outcome specification of `_ite`, with the same exceptions.
  Instance: `findOrAddCap cap` (exceptions: `RuntimeError` only), hence `iteCapF`, `iteCapRaw`;
  then the decorator theorems of DDProofs.DynRejected give the caller's view.
-/
import DDProofs.CapacitySim
import DDProofs.DynRejectedOps
import DDProofs.DynSift
import DDProofs.Reach
open Std

namespace DD

/-! ### three outcomes, with the set of possible exceptions -/

/-- as `OutcomeE`, and an exception that is not the reordering signal satisfies `E` -/
def OutcomeX {α} (E : Err → Prop) (m : Mgr) (Post : α → Mgr → Prop) : Except Err α × Mgr → Prop
  | (.ok r, m') => StepK m m' ∧ Post r m'
  | (.error e, m') => StepK m m' ∧ (e = .needsReordering → Armed m) ∧ (e = .needsReordering ∨ E e)

theorem OutcomeX.toE {α} {E : Err → Prop} {m : Mgr} {Post : α → Mgr → Prop}
    {res : Except Err α × Mgr} (h : OutcomeX E m Post res) : OutcomeE m Post res := by
  obtain ⟨r, m'⟩ := res
  cases r with
  | ok r => exact h
  | error e => exact ⟨h.1, h.2.1⟩

theorem OutcomeX.step {α} {E : Err → Prop} {m : Mgr} {Post : α → Mgr → Prop}
    {res : Except Err α × Mgr} (h : OutcomeX E m Post res) : StepK m res.2 := h.toE.step

/-- the exception, if any: the signal (from an armed context only) or one of `E` -/
theorem OutcomeX.err {α} {E : Err → Prop} {m : Mgr} {Post : α → Mgr → Prop} {e : Err} {m' : Mgr}
    (h : OutcomeX E m Post ((.error e, m') : Except Err α × Mgr)) :
    (e = .needsReordering ∧ Armed m) ∨ (e ≠ .needsReordering ∧ E e) := by
  by_cases he : e = .needsReordering
  · exact Or.inl ⟨he, h.2.1 he⟩
  · rcases h.2.2 with h1 | h1
    · exact absurd h1 he
    · exact Or.inr ⟨he, h1⟩

theorem Outcome.toX {α} {E : Err → Prop} {m : Mgr} {Post : α → Mgr → Prop}
    {res : Except Err α × Mgr} (h : Outcome m Post res) : OutcomeX E m Post res := by
  obtain ⟨r, m'⟩ := res
  cases r with
  | ok r => exact h
  | error e => exact ⟨h.2.1, fun _ => h.2.2, Or.inl h.1⟩

theorem OutcomeX.mono {α} {E : Err → Prop} {m : Mgr} {P Q : α → Mgr → Prop}
    {res : Except Err α × Mgr} (h : OutcomeX E m P res)
    (hpq : ∀ r m', StepK m m' → P r m' → Q r m') : OutcomeX E m Q res := by
  obtain ⟨r, m'⟩ := res
  cases r with
  | ok r => exact ⟨h.1, hpq r m' h.1 h.2⟩
  | error e => exact h

/-- sequencing: the continuation is specified from the intermediate state, with the FINAL
postcondition -/
theorem OutcomeX.bind {α β} {E : Err → Prop} {x : M α} {k : α → M β} {m : Mgr}
    {P : α → Mgr → Prop} {Q : β → Mgr → Prop} (hx : OutcomeX E m P (x m))
    (hk : ∀ a m1, StepK m m1 → P a m1 → OutcomeX E m1 Q (k a m1)) :
    OutcomeX E m Q (M.bind' x k m) := by
  unfold M.bind'
  generalize x m = res at hx
  obtain ⟨r, m1⟩ := res
  cases r with
  | error e => exact hx
  | ok a =>
    have h2 := hk a m1 hx.1 hx.2
    simp only
    generalize k a m1 = res2 at h2
    obtain ⟨r2, m2⟩ := res2
    cases r2 with
    | ok b => exact ⟨hx.1.trans h2.1, h2.2⟩
    | error e => exact ⟨hx.1.trans h2.1, fun he => (h2.2.1 he).back hx.1.frame, h2.2.2⟩

/-! ### `_ite` over any `find_or_add` -/

/-- the three-outcome specification of `find_or_add` at a valid level above both children -/
def FoaX (E : Err → Prop) (foa : Int → Int → Int → M Int) : Prop :=
  ∀ (m : Mgr) (i : Nat) (v w : Int), Inv m → i < m.nvars → m.tbl.Mem v → m.tbl.Mem w →
    i < m.tbl.levelOf v → i < m.tbl.levelOf w →
    OutcomeX E m (fun r m' => FoaPost' m i v w r m') (foa (i : Int) v w m)

/-- the capacity-free `find_or_add` meets it with no other exception at all -/
theorem findOrAdd_foaX : FoaX (fun _ => False) findOrAdd :=
  fun m i v w hI hi hv hw hlv hlw => (findOrAdd_out m hI i v w hi hv hw hlv hlw).toX

/-- storing a sound entry in the computed table is a step -/
theorem StepK.cachePut {m : Mgr} (hI : Inv m) (g u v w : Int) (he : CacheEntryOK m.tbl g u v w) :
    StepK m { m with cache := m.cache.insert (iteKey g u v) w } :=
  ⟨hI.cacheInsert g u v w he, Ext.refl _, ⟨rfl, rfl, rfl, rfl, rfl, rfl⟩, RefKeep.of_eq rfl rfl⟩

/-- GENERIC: `_ite` over a `find_or_add` that returns the documented node, or is aborted by a
reordering request, or raises an exception of `E` — always having only added nodes and kept the
counts exact — returns the if-then-else, or is aborted, or raises an exception of `E`, having
only added nodes and kept the counts exact.  (The nodes created before the failure stay, as
garbage: `StepK` is invariant + extension + frame + counts exact for the same ledger.) -/
theorem iteG_outX (E : Err → Prop) (foa : Int → Int → Int → M Int) (hfoa : FoaX E foa) :
    ∀ (f : Nat) (m : Mgr) (g u v : Int), Inv m →
    m.tbl.Mem g → m.tbl.Mem u → m.tbl.Mem v →
    m.nvars + 1 ≤ f + min (m.tbl.levelOf g) (min (m.tbl.levelOf u) (m.tbl.levelOf v)) →
    OutcomeX E m (fun r m' => ItePost m g u v r m') (iteG foa f g u v m) := by
  intro f
  induction f with
  | zero =>
    intro m g u v hI hg hu hv hf
    have := min3_le_levelOf m.tbl hI.wf.toWF g u v
    have : m.nvars = m.tbl.nvars := rfl
    omega
  | succ f ih =>
    intro m g u v hI hg hu hv hf
    have hW := hI.wf.toWF
    unfold iteG
    by_cases hg1 : g = 1
    · subst hg1
      simp only [if_true]
      refine ⟨StepK.refl hI, hI, Ext.refl _, hu, ?_, ?_, Frame.refl _⟩
      · omega
      · intro a; simp [den_one]
    · simp only [hg1, if_false]
      by_cases hgm1 : g = -1
      · subst hgm1
        simp only [if_true]
        refine ⟨StepK.refl hI, hI, Ext.refl _, hv, ?_, ?_, Frame.refl _⟩
        · omega
        · intro a; simp [den_neg_one]
      · simp only [hgm1, if_false]
        cases hc : m.cache[iteKey g u v]? with
        | some w =>
          simp only
          have he := hI.cache g u v w hc
          exact ⟨StepK.refl hI, hI, Ext.refl _, he.mw, he.lvl, he.den, Frame.refl _⟩
        | none =>
          simp only
          rw [Tbl.levelOf?_eq _ _ hg, Tbl.levelOf?_eq _ _ hu, Tbl.levelOf?_eq _ _ hv]
          simp only
          have hgn : g.natAbs ≠ 1 := by
            intro h; rcases abs_one_cases h with h | h
            · exact hg1 h
            · exact hgm1 h
          have hlg : m.tbl.levelOf g < m.tbl.nvars := by
            rcases hg with hg' | hg'
            · exact absurd hg' hgn
            · obtain ⟨n, hn⟩ := Option.isSome_iff_exists.mp hg'
              have : m.tbl.levelOf g = n.lvl := by simp [Tbl.levelOf, hgn, hn]
              rw [this]; exact hW.lvl_lt _ _ hn
          generalize hz : min (m.tbl.levelOf g) (min (m.tbl.levelOf u) (m.tbl.levelOf v)) = z at hf ⊢
          have hzg : z ≤ m.tbl.levelOf g := by omega
          have hzu : z ≤ m.tbl.levelOf u := by omega
          have hzv : z ≤ m.tbl.levelOf v := by omega
          have hzn : z < m.tbl.nvars := by omega
          obtain ⟨g0, g1, hcg, mg0, mg1, lg0, lg1, dg⟩ := topCofactor_spec m.tbl hW g hg z hzg hzn
          obtain ⟨u0, u1, hcu, mu0, mu1, lu0, lu1, du⟩ := topCofactor_spec m.tbl hW u hu z hzu hzn
          obtain ⟨v0, v1, hcv, mv0, mv1, lv0, lv1, dv⟩ := topCofactor_spec m.tbl hW v hv z hzv hzn
          rw [hcg, hcu, hcv]
          simp only
          -- first recursive call
          refine OutcomeX.bind (ih m g0 u0 v0 hI mg0 mu0 mv0 (by
            have : m.nvars = m.tbl.nvars := rfl
            omega)) ?_
          intro p m1 hs1 ih1
          have hI1 := ih1.inv
          have hW1 := hI1.wf.toWF
          have e1 := ih1.ext
          -- second recursive call, in the extended table
          refine OutcomeX.bind (ih m1 g1 u1 v1 hI1 (e1.mem mg1) (e1.mem mu1) (e1.mem mv1) (by
            rw [e1.levelOf mg1, e1.levelOf mu1, e1.levelOf mv1]
            have h1 : m1.nvars = m.tbl.nvars := e1.nvars.symm
            have h2 : m.nvars = m.tbl.nvars := rfl
            omega)) ?_
          intro q m2 hs2 ih2
          have hI2 := ih2.inv
          have hW2 := hI2.wf.toWF
          have e2 := ih2.ext
          have e12 := e1.trans e2
          have mp2 : m2.tbl.Mem p := e2.mem ih1.mem
          have lp : z < m2.tbl.levelOf p := by
            rw [e2.levelOf ih1.mem]
            have := ih1.lvl
            omega
          have lq : z < m2.tbl.levelOf q := by
            have := ih2.lvl
            rw [e1.levelOf mg1, e1.levelOf mu1, e1.levelOf mv1] at this
            omega
          -- `find_or_add`
          refine OutcomeX.bind (hfoa m2 z p q hI2 (by
            have : m2.nvars = m.tbl.nvars := e12.nvars.symm
            omega) mp2 ih2.mem lp lq) ?_
          intro w m3 hs3 hfo
          have e3 := hfo.ext
          have e123 := e12.trans e3
          have hI3 := hfo.inv
          have hden : ∀ a, den m3.tbl w a =
              if den m.tbl g a then den m.tbl u a else den m.tbl v a := by
            intro a
            rw [hfo.den a, ih2.den a, den_ext e2 hW1 p a ih1.mem, ih1.den a,
              den_ext e1 hW g1 a mg1, den_ext e1 hW u1 a mu1, den_ext e1 hW v1 a mv1,
              dg a, du a, dv a]
            split <;> rfl
          have hlvl : z ≤ m3.tbl.levelOf w := hfo.lvl
          have hentry : CacheEntryOK m3.tbl g u v w := by
            refine ⟨hgn, e123.mem hg, e123.mem hu, e123.mem hv, hfo.mem, ?_, ?_⟩
            · rw [e123.levelOf hg, e123.levelOf hu, e123.levelOf hv, hz]; exact hlvl
            · intro a
              rw [hden a, den_ext e123 hW g a hg, den_ext e123 hW u a hu,
                den_ext e123 hW v a hv]
          -- the computed-table update
          show OutcomeX E m3 _ (cachePut g u v w m3)
          unfold DD.cachePut
          refine ⟨StepK.cachePut hI3 g u v w hentry, hI3.cacheInsert g u v w hentry, e123, hfo.mem, ?_,
            hden, ?_⟩
          · show min (m.tbl.levelOf g) (min (m.tbl.levelOf u) (m.tbl.levelOf v)) ≤ m3.tbl.levelOf w
            rw [hz]; exact hlvl
          · have fr := (ih1.frame.trans ih2.frame).trans hfo.frame
            exact ⟨fr.vars, fr.l2v, fr.lastLen, fr.ctx, fr.sched, fr.roots⟩

/-- an operand that is not a node: nothing is changed and the answer is not the signal
(whatever `find_or_add`: it is not reached) -/
theorem iteG_nonmem (foa : Int → Int → Int → M Int) (m : Mgr) (hI : Inv m) (f : Nat) (g u v : Int)
    (hall : ¬ (m.tbl.Mem g ∧ m.tbl.Mem u ∧ m.tbl.Mem v)) :
    (iteG foa (f + 1) g u v m).2 = m ∧ (iteG foa (f + 1) g u v m).1 ≠ .error .needsReordering ∧
      (iteG foa (f + 1) g u v m).1 ≠ .error .runtime := by
  unfold iteG
  by_cases hg1 : g = 1
  · simp [hg1]
  · simp only [hg1, if_false]
    by_cases hgm : g = -1
    · simp [hgm]
    · simp only [hgm, if_false]
      cases hc : m.cache[iteKey g u v]? with
      | some w =>
        exfalso
        have he := hI.cache g u v w hc
        exact hall ⟨he.mg, he.mu, he.mv⟩
      | none =>
        simp only
        by_cases hg : m.tbl.Mem g
        · by_cases hu : m.tbl.Mem u
          · have hv : ¬ m.tbl.Mem v := fun hv => hall ⟨hg, hu, hv⟩
            rw [levelOf?_none_of_not_mem _ _ hv]
            split <;> simp_all
          · rw [levelOf?_none_of_not_mem _ _ hu]
            split <;> simp_all
        · rw [levelOf?_none_of_not_mem _ _ hg]
          simp

/-- `_ite` over such a `find_or_add` on ARBITRARY integers -/
theorem iteRawG_totE (E : Err → Prop) (foa : Int → Int → Int → M Int) (hfoa : FoaX E foa)
    (m : Mgr) (hI : Inv m) (g u v : Int) : TotE m (iteRawG foa g u v m) := by
  unfold iteRawG
  by_cases hall : m.tbl.Mem g ∧ m.tbl.Mem u ∧ m.tbl.Mem v
  · exact (iteG_outX E foa hfoa (m.nvars + 2) m g u v hI hall.1 hall.2.1 hall.2.2 (by omega)).toE.tot
  · obtain ⟨h1, h2, _⟩ := iteG_nonmem foa m hI (m.nvars + 1) g u v hall
    refine ⟨?_, fun he => absurd he h2⟩
    rw [h1]; exact StepK.refl hI

/-! ### the instance: `find_or_add` with `max_nodes = cap` -/

/-- changing the harness trigger of the request is a step -/
theorem StepK.setFire {m : Mgr} (hI : Inv m) (f : Option Nat) : StepK m { m with fireIn := f } :=
  ⟨hI.setFire f, Ext.refl _, ⟨rfl, rfl, rfl, rfl, rfl, rfl⟩, RefKeep.of_eq rfl rfl⟩

/-- `find_or_add` with capacity: the capacity-free call, or `RuntimeError` with nothing changed
(but the harness trigger) -/
theorem findOrAddCap_cases (cap : Nat) (i v w : Int) (m : Mgr) :
    findOrAddCap cap i v w m = findOrAdd i v w m ∨
    ∃ f, findOrAddCap cap i v w m = (.error .runtime, { m with fireIn := f }) := by
  rcases (findOrAddCap_sim cap i v w).dichotomy m with h | h
  · exact Or.inl h
  · right
    generalize hres : findOrAddCap cap i v w m = res at h
    obtain ⟨r, m'⟩ := res
    cases r with
    | ok a => cases h
    | error e =>
      have he : e = Err.runtime := by simpa using h
      subst he
      obtain ⟨f, hf⟩ := findOrAddCap_full cap i v w m m' hres
      exact ⟨f, by rw [hf]⟩

/-- `find_or_add` with capacity meets the three-outcome specification; the only other
exception is `RuntimeError` -/
theorem findOrAddCap_foaX (cap : Nat) : FoaX (fun e => e = .runtime) (findOrAddCap cap) := by
  intro m i v w hI hi hv hw hlv hlw
  rcases findOrAddCap_cases cap (i : Int) v w m with h | ⟨f, h⟩
  · rw [h]; exact (findOrAdd_out m hI i v w hi hv hw hlv hlw).toX
  · rw [h]; exact ⟨StepK.setFire hI f, (fun he => by cases he), Or.inr rfl⟩

/-- (c) `_ite` of a manager with `max_nodes = cap`, operands in the manager: the if-then-else,
or aborted by a reordering request, or `RuntimeError` — in every case only nodes were added
(the ones created before the refusal stay as garbage), the invariant holds, the variable order
and the flags are untouched, the counts are exact for the ledger they were exact for -/
theorem iteCapF_outX (cap f : Nat) (m : Mgr) (g u v : Int) (hI : Inv m)
    (hg : m.tbl.Mem g) (hu : m.tbl.Mem u) (hv : m.tbl.Mem v)
    (hf : m.nvars + 1 ≤ f + min (m.tbl.levelOf g) (min (m.tbl.levelOf u) (m.tbl.levelOf v))) :
    OutcomeX (fun e => e = .runtime) m (fun r m' => ItePost m g u v r m') (iteCapF cap f g u v m) :=
  iteG_outX _ _ (findOrAddCap_foaX cap) f m g u v hI hg hu hv hf

theorem iteCapRaw_outX (cap : Nat) (m : Mgr) (g u v : Int) (hI : Inv m)
    (hg : m.tbl.Mem g) (hu : m.tbl.Mem u) (hv : m.tbl.Mem v) :
    OutcomeX (fun e => e = .runtime) m (fun r m' => ItePost m g u v r m') (iteCapRaw cap g u v m) :=
  iteCapF_outX cap (m.nvars + 2) m g u v hI hg hu hv (by omega)

/-- `_ite` with capacity on ARBITRARY integers -/
theorem iteCapRaw_totE (cap : Nat) (m : Mgr) (hI : Inv m) (g u v : Int) :
    TotE m (iteCapRaw cap g u v m) :=
  iteRawG_totE _ _ (findOrAddCap_foaX cap) m hI g u v

/-- the body of `var` with capacity, ANY name -/
theorem varCapBody_totE (cap : Nat) (m : Mgr) (hI : Inv m) (name : String) :
    TotE m (varBodyG (findOrAddCap cap) name m) := by
  unfold varBodyG
  cases m.tbl.vars[name]? with
  | none => exact TotE.same hI _ (by simp)
  | some j =>
    simp only
    rcases findOrAddCap_cases cap (j : Int) (-1) 1 m with h | ⟨f, h⟩
    · rw [h]; exact varNode_totE m hI j
    · rw [h]; exact TotE.err (StepK.setFire hI f) _ (by decide)

/-! ### the caller's view: the decorated entry points -/

/-- (c) `BDD.ite` of a manager with `max_nodes = cap`, ARBITRARY integers, dynamic reordering
enabled or not, whatever it returns or raises — `RuntimeError('full')` half-way in particular,
in the first attempt or in the retry after sifting: the exception is never the internal signal;
the manager is again as between two calls (`DynInv`: invariant, order bijection, counts exact
for the caller's ledger, the reordering-context flag CLEARED — the `finally` of the context
manager —, no schedule left); reordering is enabled iff it was; same declared names; every
reference the caller holds is a member with the same function by name; same roots -/
theorem iteCap_total_dyn (cap : Nat) (ext : Nat → Nat) (m : Mgr) (hD : DynInv ext m) (g u v : Int) :
    DynTotal ext m (iteCap cap g u v m) :=
  tryToReorder_total_dyn ext (siftContract ext) _
    (fun m0 hI _ _ => iteCapRaw_totE cap m0 hI g u v) m hD

/-- the same for `BDD.var` -/
theorem varCap_total_dyn (cap : Nat) (ext : Nat → Nat) (m : Mgr) (hD : DynInv ext m) (name : String) :
    DynTotal ext m (varCap cap name m) :=
  tryToReorder_total_dyn ext (siftContract ext) _
    (fun m0 hI _ _ => varCapBody_totE cap m0 hI name) m hD

/-- (c) with held operands: `BDD.ite` with capacity returns the if-then-else of the operands as
they were (by name), or raises an exception that is not the signal; in both cases `DynKept` -/
theorem iteCap_result_dyn (cap : Nat) (ext : Nat → Nat) (m : Mgr) (hD : DynInv ext m) (g u v : Int)
    (hg : HeldX ext g) (hu : HeldX ext u) (hv : HeldX ext v) :
    DynResult ext (IteDoc g u v) m (iteCap cap g u v m) := by
  refine tryToReorder_rejected ext (siftContract ext) (iteCapRaw cap g u v) [g, u, v] (fun _ => True)
    (IteDoc g u v) ?_ (fun _ _ _ _ => trivial) ?_ m hD ?_ trivial
  · intro m0 hI0 _ _ _ hmem
    refine ((iteCapRaw_outX cap m0 g u v hI0 (hmem g (by simp)) (hmem u (by simp))
      (hmem v (by simp))).mono ?_).toE
    intro r m1 _ hp
    refine ⟨hp.mem, fun σ => ?_⟩
    have hl : m1.tbl.l2v = m0.tbl.l2v := hp.frame.l2v
    unfold denN Tbl.lift Tbl.nameOf
    rw [hl, hp.den]
  · intro t t' r t'' hB _ hd
    refine ⟨hd.1, fun σ => ?_⟩
    rw [hd.2 σ, (hB.ops g (by simp)).2 σ, (hB.ops u (by simp)).2 σ, (hB.ops v (by simp)).2 σ]
  · intro w hw
    simp only [List.mem_cons, List.not_mem_nil, or_false] at hw
    rcases hw with rfl | rfl | rfl
    · exact hg
    · exact hu
    · exact hv

/-- GENERIC: WHICH exception a decorated call can raise.  If the body, inside a context, on
operands in the manager, raises only the reordering signal or exceptions of `E` (and otherwise
only adds nodes), then the decorated call from `DynInv ext m` with held operands raises only
exceptions of `E` — whether the failure happens in the first attempt or in the retry after
sifting (the signal itself never escapes: `tryToReorder_rejected`). -/
theorem tryToReorder_raises {α} (ext : Nat → Nat) (hS : SiftContract ext) (E : Err → Prop) (f : M α)
    (ops : List Int)
    (hbody : ∀ m0 : Mgr, Inv m0 → m0.ctx = true → OrderOK m0.tbl → (∀ u ∈ ops, m0.tbl.Mem u) →
      OutcomeX E m0 (fun _ _ => True) (f m0))
    (m : Mgr) (hD : DynInv ext m) (hops : ∀ u ∈ ops, HeldX ext u) (e : Err) (m' : Mgr)
    (h : tryToReorder f m = (.error e, m')) : E e := by
  have hI := hD.inv
  have hmem0 : ∀ u ∈ ops, m.tbl.Mem u := fun u hu => (hops u hu).mem hD.refs
  have h1 := hbody { m with ctx := true } (hI.setCtx true) rfl hD.order hmem0
  generalize hres : f { m with ctx := true } = res at h1
  obtain ⟨r, m1⟩ := res
  cases r with
  | ok a =>
    rw [tryToReorder_ok f m a m1 hres] at h
    cases h
  | error e1 =>
    rcases OutcomeX.err h1 with ⟨he1, ha⟩ | ⟨hne, hE⟩
    · -- aborted by a request: sifting, then the retry
      subst he1
      have hs : StepK { m with ctx := true } m1 := h1.1
      let m2 : Mgr := { m1 with ctx := m.ctx, lastLen := none }
      have hs2 : StepK m { m1 with ctx := m.ctx } := hs.ofCtx true
      have hD2 : DynInv ext m2 := by
        have h := hD.step hs2
        exact ⟨⟨h.inv.wf, h.inv.pred, h.inv.freeGe, h.inv.free, h.inv.refOne, h.inv.refDom, h.inv.cache⟩,
          h.order, h.refs.congr rfl rfl, h.ctx, h.sched, h.roots, h.nvars⟩
      obtain ⟨m3, hre, hD3, hl3, _, _, _⟩ := hS.run m2 hD2 rfl
      have h2 := hbody { m3 with ctx := true } (hD3.inv.setCtx true) rfl hD3.order
        (fun u hu => (hops u hu).mem hD3.refs)
      have hoff3 : ¬ Armed { m3 with ctx := true } := by
        intro ha4
        have := ha4.2
        rw [show ({ m3 with ctx := true } : Mgr).lastLen = m3.lastLen from rfl, hl3] at this
        exact Bool.noConfusion this
      generalize hres2 : f { m3 with ctx := true } = res2 at h2
      obtain ⟨r2, m4⟩ := res2
      cases r2 with
      | ok a =>
        rw [tryToReorder_retry f m m1 m3 m4 a hD.ctx hres hre hres2] at h
        cases h
      | error e2 =>
        rcases OutcomeX.err h2 with ⟨_, ha4⟩ | ⟨hne2, hE2⟩
        · exact absurd ha4 hoff3
        · rw [tryToReorder_retry_err f m m1 m3 m4 e2 hD.ctx hres hre hres2 hne2] at h
          have : e2 = e := by injection h with h' _; injection h'
          rw [← this]; exact hE2
    · rw [tryToReorder_err f m e1 m1 hres hne] at h
      have : e1 = e := by injection h with h' _; injection h'
      rw [← this]; exact hE

/-- (c) dynamic reordering enabled or not, held operands: the ONLY exception `BDD.ite` of a
manager with `max_nodes = cap` raises is `RuntimeError` -/
theorem iteCap_raises_runtime (cap : Nat) (ext : Nat → Nat) (m : Mgr) (hD : DynInv ext m)
    (g u v : Int) (hg : HeldX ext g) (hu : HeldX ext u) (hv : HeldX ext v) (e : Err) (m' : Mgr)
    (h : iteCap cap g u v m = (.error e, m')) : e = .runtime := by
  refine tryToReorder_raises ext (siftContract ext) (fun e => e = .runtime) (iteCapRaw cap g u v)
    [g, u, v] ?_ m hD ?_ e m' h
  · intro m0 hI0 _ _ hmem
    exact (iteCapRaw_outX cap m0 g u v hI0 (hmem g (by simp)) (hmem u (by simp))
      (hmem v (by simp))).mono (fun _ _ _ _ => trivial)
  · intro w hw
    simp only [List.mem_cons, List.not_mem_nil, or_false] at hw
    rcases hw with rfl | rfl | rfl
    · exact hg
    · exact hu
    · exact hv

/-- reordering not enabled, operands in the manager: the ONLY exception `BDD.ite` with capacity
can raise is `RuntimeError`, and then the caller's `GoodState` is kept for the same ledger —
every theorem of the development applies to the state after the refusal -/
theorem iteCap_off (cap : Nat) (ext : Nat → Nat) (m : Mgr) (hG : GoodState m ext) (g u v : Int)
    (hg : m.tbl.Mem g) (hu : m.tbl.Mem u) (hv : m.tbl.Mem v) :
    (∃ r m', iteCap cap g u v m = (.ok r, m') ∧ ItePost m g u v r m' ∧ GoodState m' ext) ∨
    (∃ m', iteCap cap g u v m = (.error .runtime, m') ∧ Kept m m' ∧ GoodState m' ext) := by
  have hI := hG.inv
  have h := iteCapRaw_outX cap { m with ctx := true } g u v (hI.setCtx true) hg hu hv
  generalize hres : iteCapRaw cap g u v { m with ctx := true } = res at h
  obtain ⟨r, m1⟩ := res
  have hkept : StepK { m with ctx := true } m1 → Kept m { m1 with ctx := m.ctx } ∧
      GoodState { m1 with ctx := m.ctx } ext := by
    intro hs
    have hs' := hs.ofCtx true
    have hk : Kept m { m1 with ctx := m.ctx } := ⟨hs'.inv, hs'.ext, hs'.frame⟩
    exact ⟨hk, GoodState.of_kept hG hk (hs'.keep ext hG.exact).1⟩
  cases r with
  | ok r =>
    left
    obtain ⟨hs, hp⟩ := h
    have hp' : ItePost { m with ctx := true } g u v r m1 := hp
    refine ⟨r, { m1 with ctx := m.ctx }, tryToReorder_ok _ m r m1 hres, ?_, (hkept hs).2⟩
    exact ⟨hp'.inv.setCtx _, hp'.ext, hp'.mem, hp'.lvl, hp'.den,
      ⟨hp'.frame.vars, hp'.frame.l2v, hp'.frame.lastLen, rfl, hp'.frame.sched, hp'.frame.roots⟩⟩
  | error e =>
    right
    rcases OutcomeX.err h with ⟨_, ha⟩ | ⟨hne, he⟩
    · -- the signal needs an armed context; reordering is off
      exfalso
      have := ha.2
      rw [show ({ m with ctx := true } : Mgr).lastLen = m.lastLen from rfl, hG.off] at this
      exact Bool.noConfusion this
    · subst he
      exact ⟨{ m1 with ctx := m.ctx }, tryToReorder_err _ m .runtime m1 hres hne, hkept h.1⟩

end DD
