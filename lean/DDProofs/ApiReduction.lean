/-
  DDProofs.ApiReduction — `BDD.reduction()`: the bottom-up copy of a manager into a NEW manager
  through `find_or_add`, for EVERY iteration order of the `_succ` dict.

  From a manager in a good state: the call returns normally (none of its assertions, lookups or
  `find_or_add` checks can fail), leaves `self` exactly as it was, and the new manager
    * has the same variable order and is itself in a good state (`Inv`, `OrderOK`, counts exact
      for an EMPTY ledger, reordering not enabled, empty computed table) — hence canonical;
    * holds, for every reference `u` of the source, a reference `tr u` denoting the same function
      (by level and by name), with `tr (-u) = -tr u`;
    * its `roots` are exactly the translations of the source's `roots`.
-/
import DD.ApiCore
import DDProofs.ApiLevels
import DDProofs.MgrCopyProofs
import DDProofs.ApplyProofs
open Std

namespace DD

/-! ### the fresh manager `BDD(self.vars)` -/

theorem freshLike_node? (t : Tbl) (u : Nat) : (freshLike t).tbl.node? u = none := by
  simp [freshLike, Tbl.node?]

theorem freshLike_nvars (t : Tbl) : (freshLike t).tbl.nvars = t.nvars := rfl

theorem freshLike_inv (t : Tbl) : Inv (freshLike t) := by
  refine ⟨⟨⟨?_, ?_, ?_, ?_, ?_, ?_, ?_, ?_⟩, ?_⟩, ?_, ?_, ?_, ?_, ?_, ?_⟩
  all_goals first
    | (intro u n h; rw [freshLike_node?] at h; cases h)
    | (intro u u' n h; rw [freshLike_node?] at h; cases h)
    | skip
  · intro n u
    rw [freshLike_node?]
    simp [freshLike]
  · show 2 ≤ 2; omega
  · exact freshLike_node? t 2
  · simp [freshLike]
  · intro g u v w h
    have : (∅ : TreeMap (List Int) Int)[iteKey g u v]? = some w := h
    simp at this

theorem indeg_freshLike (t : Tbl) (u : Nat) : indeg (freshLike t).tbl u = 0 := by
  apply Nat.eq_zero_of_not_pos
  intro h
  obtain ⟨k, n, hk, _⟩ := indeg_pos h
  rw [freshLike_node?] at hk
  cases hk

theorem freshLike_refExact (t : Tbl) : RefExact (freshLike t) (fun _ => 0) := by
  have href : ∀ u, (freshLike t).ref[u]? = if u = 1 then some 1 else none := by
    intro u
    show ((∅ : TreeMap Nat Nat).insert 1 1)[u]? = _
    rw [TreeMap.getElem?_insert]
    by_cases h : u = 1
    · subst h; simp
    · have : compare 1 u ≠ .eq := by
        intro he; exact h (LawfulEqOrd.eq_of_compare he).symm
      simp [this, h]
  refine ⟨fun u => ?_, fun u c h => ?_, fun u _ => rfl⟩
  · rw [href, freshLike_node?]
    by_cases h : u = 1 <;> simp [h]
  · rw [href] at h
    by_cases h1 : u = 1
    · rw [if_pos h1] at h
      cases h
      rw [indeg_freshLike, if_pos h1]
    · rw [if_neg h1] at h; cases h

/-! ### the loop invariant -/

/-- `find_or_add` outside a reordering context is its core -/
theorem apiFoa_eq_core (i : Nat) (v w : Int) (m : Mgr) (hc : m.ctx = false) :
    findOrAdd (i : Int) v w m = findOrAddCore i v w m := by
  have hi : ¬ ((i : Int) < 0) := by omega
  simp [findOrAdd, hc, hi]

/-- what holds of the new manager `b` and of `umap` between two iterations -/
structure RedInv (t : Tbl) (b : Mgr) (umap : TreeMap Nat Int) : Prop where
  inv : Inv b
  vars : b.tbl.vars = t.vars
  l2v : b.tbl.l2v = t.l2v
  exact : RefExact b (fun _ => 0)
  off : b.lastLen = none
  ctx : b.ctx = false
  cache : b.cache = ({} : TreeMap (List Int) Int)
  roots : b.roots = []
  one : umap[1]? = some 1
  ok : ∀ u r, umap[u]? = some r →
    (u = 1 ∨ (t.node? u).isSome) ∧ 0 < r ∧ b.tbl.Mem r ∧
    t.levelOf (u : Int) ≤ b.tbl.levelOf r ∧ ∀ a, den b.tbl r a = den t (u : Int) a

theorem RedInv.nvars {t : Tbl} {b : Mgr} {umap : TreeMap Nat Int} (h : RedInv t b umap) :
    b.tbl.nvars = t.nvars := by
  simp only [Tbl.nvars, h.vars]

theorem redInv_init (t : Tbl) : RedInv t (freshLike t) (({} : TreeMap Nat Int).insert 1 1) := by
  have hget : ∀ u, ((∅ : TreeMap Nat Int).insert 1 1)[u]? = if u = 1 then some 1 else none := by
    intro u
    rw [TreeMap.getElem?_insert]
    by_cases h : u = 1
    · subst h; simp
    · have : compare 1 u ≠ .eq := by
        intro he; exact h (LawfulEqOrd.eq_of_compare he).symm
      simp [this, h]
  refine ⟨freshLike_inv t, rfl, rfl, freshLike_refExact t, rfl, rfl, rfl, rfl, ?_, ?_⟩
  · rw [hget]; simp
  · intro u r h
    rw [hget] at h
    by_cases h1 : u = 1
    · rw [if_pos h1] at h
      cases h
      subst h1
      refine ⟨Or.inl rfl, by omega, Or.inl rfl, ?_, fun a => ?_⟩
      · show t.levelOf (1 : Int) ≤ (freshLike t).tbl.levelOf 1
        rw [levelOf_term _ _ (by rfl), levelOf_term _ _ (by rfl)]
        exact Nat.le_refl _
      · show den _ 1 a = den t (1 : Int) a
        rw [den_one, den_one]
    · rw [if_neg h1] at h; cases h

/-- the translated reference `_flip(umap[abs(v)], v)` of a member `v` of the source -/
theorem RedInv.flip_ok {t : Tbl} {b : Mgr} {umap : TreeMap Nat Int} (h : RedInv t b umap)
    (hw : WF t) {v : Int} {p : Int} (hv : t.Mem v) (hp : umap[v.natAbs]? = some p) :
    b.tbl.Mem (flip p v) ∧ t.levelOf v ≤ b.tbl.levelOf (flip p v) ∧
    ∀ a, den b.tbl (flip p v) a = den t v a := by
  obtain ⟨_, hpos, hm, hl, hd⟩ := h.ok _ _ hp
  have hv0 : v ≠ 0 := mem_ne_zero hw hv
  have hWb := h.inv.wf.toWF
  unfold flip
  by_cases hneg : v < 0
  · rw [if_pos hneg]
    have hvn : v = -((v.natAbs : Nat) : Int) := by omega
    refine ⟨mem_neg hm, ?_, fun a => ?_⟩
    · rw [levelOf_neg]
      have : t.levelOf v = t.levelOf ((v.natAbs : Nat) : Int) := by
        conv => lhs; rw [hvn, levelOf_neg]
      rw [this]; exact hl
    · rw [den_neg _ hWb _ _ hm, hd a]
      have hm' : t.Mem ((v.natAbs : Nat) : Int) := by
        have := mem_neg hv
        rw [hvn] at this
        simpa using this
      conv => rhs; rw [hvn, den_neg _ hw _ _ hm']
  · rw [if_neg hneg]
    have hvn : v = ((v.natAbs : Nat) : Int) := by omega
    refine ⟨hm, ?_, fun a => ?_⟩
    · conv => lhs; rw [hvn]
      exact hl
    · rw [hd a]
      conv => rhs; rw [hvn]

/-- one iteration, for a stored node whose successors are already in `umap` -/
theorem reductionStep_spec (t : Tbl) (hw : WF t) (b : Mgr) (umap : TreeMap Nat Int)
    (h : RedInv t b umap) (u : Nat) (n : Nd) (hn : t.node? u = some n)
    (p q : Int) (hp : umap[n.lo.natAbs]? = some p) (hq : umap[n.hi.natAbs]? = some q) :
    ∃ b' r, reductionStep (u, n.lvl, some (n.lo, n.hi)) (b, umap) = .ok (b', umap.insert u r) ∧
      RedInv t b' (umap.insert u r) ∧ Ext b.tbl b'.tbl := by
  have hu2 := hw.ge_two u n hn
  have hu0 : u ≠ 0 := by omega
  obtain ⟨hmp, hlp, hdp⟩ := h.flip_ok hw (hw.lo_mem u n hn) hp
  obtain ⟨hmq, hlq, hdq⟩ := h.flip_ok hw (hw.hi_mem u n hn) hq
  have hlvl : n.lvl < b.tbl.nvars := by rw [h.nvars]; exact hw.lvl_lt u n hn
  obtain ⟨r, b', he, hpost⟩ := findOrAddCore_spec b h.inv n.lvl (flip p n.lo) (flip q n.hi) hlvl hmp hmq
    (Nat.lt_of_lt_of_le (hw.lo_lt u n hn) hlp) (Nat.lt_of_lt_of_le (hw.hi_lt u n hn) hlq)
  have hWb' := hpost.inv.wf.toWF
  -- the denotation of the new reference is that of the node `u`
  have hu1 : ((u : Nat) : Int).natAbs ≠ 1 := by simp; omega
  have hnu : t.node? ((u : Nat) : Int).natAbs = some n := by simpa using hn
  have hden : ∀ a, den b'.tbl r a = den t (u : Int) a := by
    intro a
    rw [hpost.den a, hdp a, hdq a, den_node t hw (u : Int) n a hu1 hnu]
    have : ¬ ((u : Int) < 0) := by omega
    simp [this]
  -- its sign: positive, by the all-true assignment
  have hrpos : 0 < r := by
    have h1 := den_alltrue b'.tbl hWb' b'.tbl.nvars r hpost.mem (by omega)
    have h2 := den_alltrue t hw t.nvars (u : Int) (Or.inr (by simp [hn])) (by omega)
    rw [hden, h2] at h1
    have : (0 : Int) < (u : Int) := by omega
    have h1' : decide (0 < r) = true := by rw [← h1]; exact decide_eq_true this
    exact of_decide_eq_true h1'
  refine ⟨b', r, ?_, ?_, hpost.ext⟩
  · unfold reductionStep
    simp only [if_neg hu0, hp, hq]
    rw [apiFoa_eq_core _ _ _ _ h.ctx, he]
    simp only
    rw [if_neg (by omega)]
  · have hget : ∀ k, (umap.insert u r)[k]? = if k = u then some r else umap[k]? := by
      intro k
      rw [TreeMap.getElem?_insert]
      by_cases hk : k = u
      · subst hk; simp
      · have : compare u k ≠ .eq := by
          intro he'; exact hk (LawfulEqOrd.eq_of_compare he').symm
        simp [this, hk]
    refine ⟨hpost.inv, by rw [hpost.frame.vars]; exact h.vars, by rw [hpost.frame.l2v]; exact h.l2v,
      ?_, by rw [hpost.frame.lastLen]; exact h.off, by rw [hpost.frame.ctx]; exact h.ctx,
      by rw [hpost.cacheSame]; exact h.cache, by rw [hpost.frame.roots]; exact h.roots, ?_, ?_⟩
    · have := findOrAddCore_refExact b (fun _ => 0) n.lvl (flip p n.lo) (flip q n.hi)
        h.inv.wf.toWF h.exact
      rw [he] at this
      exact this
    · rw [hget, if_neg (by omega)]; exact h.one
    · intro k r' hk
      rw [hget] at hk
      by_cases hku : k = u
      · rw [if_pos hku] at hk
        cases hk
        subst hku
        refine ⟨Or.inr (by simp [hn]), hrpos, hpost.mem, ?_, hden⟩
        rw [levelOf_node t (k : Int) n hu1 hnu]
        exact hpost.lvl
      · rw [if_neg hku] at hk
        obtain ⟨h1, h2, h3, h4, h5⟩ := h.ok k r' hk
        refine ⟨h1, h2, hpost.ext.mem h3, ?_, fun a => ?_⟩
        · rw [hpost.ext.levelOf h3]; exact h4
        · rw [den_ext hpost.ext h.inv.wf.toWF r' a h3]; exact h5 a

/-! ### the loop over a bottom-up listing -/

/-- the items of the stored nodes `us`, successors listed before their parents -/
def ItemsOf (t : Tbl) : List Nat → List LevelItem → Prop
  | [], its => its = []
  | u :: us, its => ∃ n rest, t.node? u = some n ∧ its = (u, n.lvl, some (n.lo, n.hi)) :: rest ∧
      ItemsOf t us rest

theorem reductionLoop_spec (t : Tbl) (hw : WF t) :
    ∀ (us : List Nat) (its : List LevelItem) (b : Mgr) (umap : TreeMap Nat Int),
      ItemsOf t us its → RedInv t b umap →
      -- every successor of a listed node is in `umap` already or listed earlier
      (∀ (pre post : List Nat) (u : Nat) (n : Nd), us = pre ++ u :: post → t.node? u = some n →
        ∀ c, (c = n.lo.natAbs ∨ c = n.hi.natAbs) → (umap[c]?).isSome ∨ c ∈ pre) →
      ∃ b' umap', reductionLoop its (b, umap) = .ok (b', umap') ∧ RedInv t b' umap' ∧
        (∀ k : Nat, (umap[k]?).isSome → (umap'[k]?).isSome) ∧ (∀ u ∈ us, (umap'[u]?).isSome) := by
  intro us
  induction us with
  | nil =>
    intro its b umap hits h _
    cases hits
    exact ⟨b, umap, rfl, h, fun _ hk => hk, fun _ hu => by cases hu⟩
  | cons u us ih =>
    intro its b umap hits h hch
    obtain ⟨n, rest, hn, rfl, hrest⟩ := hits
    have hlo := hch [] us u n rfl hn n.lo.natAbs (Or.inl rfl)
    have hhi := hch [] us u n rfl hn n.hi.natAbs (Or.inr rfl)
    simp only [List.not_mem_nil, or_false] at hlo hhi
    obtain ⟨p, hp⟩ := Option.isSome_iff_exists.mp hlo
    obtain ⟨q, hq⟩ := Option.isSome_iff_exists.mp hhi
    obtain ⟨b1, r, he, h1, _⟩ := reductionStep_spec t hw b umap h u n hn p q hp hq
    have hget : ∀ k : Nat, (umap[k]?).isSome → ((umap.insert u r)[k]?).isSome := by
      intro k hk
      rw [TreeMap.getElem?_insert]
      split
      · rfl
      · exact hk
    have hself : ((umap.insert u r)[u]?).isSome := by
      rw [TreeMap.getElem?_insert]; simp
    obtain ⟨b', umap', he', h', hmono, hall⟩ := ih rest b1 (umap.insert u r) hrest h1 (by
      intro pre post u' n' hsplit hn' c hc
      rcases hch (u :: pre) post u' n' (by rw [hsplit]; rfl) hn' c hc with hc' | hc'
      · exact Or.inl (hget c hc')
      · rcases List.mem_cons.mp hc' with hcu | hcp
        · left; rw [hcu]; exact hself
        · exact Or.inr hcp)
    refine ⟨b', umap', ?_, h', fun k hk => hmono k (hget k hk), fun x hx => ?_⟩
    · show reductionLoop (_ :: rest) (b, umap) = _
      rw [reductionLoop, he]
      exact he'
    · rcases List.mem_cons.mp hx with hxu | hxs
      · rw [hxu]; exact hmono u hself
      · exact hall x hxs

/-! ### the listing `levels(skip_terminals=True)` is bottom-up -/

theorem itemsOf_of_levels (t : Tbl) (hw : WF t) (ord : List Nat) (ho : SuccOrder t ord) :
    ItemsOf t ((levelsIter t true ord).map (·.1)) (levelsIter t true ord) := by
  obtain ⟨_, hterm, hall, _, _⟩ := levelsIter_spec t hw true ord ho
  have hno : (1, t.nvars, (none : Option (Int × Int))) ∉ levelsIter t true ord := by
    intro h; have := hterm.mp h; cases this
  generalize levelsIter t true ord = L at hall hno
  induction L with
  | nil => rfl
  | cons it rest ih =>
    have h0 := hall it List.mem_cons_self
    rcases h0 with ⟨_, hs⟩ | ⟨n, hn, hit⟩
    · cases hs
    · refine ⟨n, rest, hn, ?_, ih (fun x hx => hall x (List.mem_cons_of_mem _ hx))
        (fun hx => hno (List.mem_cons_of_mem _ hx))⟩
      conv => lhs; rw [hit]

/-- in a listing whose levels never increase and which contains every stored node, the successors
of a node are listed before it -/
theorem children_first (t : Tbl) (hw : WF t) (ord : List Nat) (ho : SuccOrder t ord)
    (pre post : List Nat) (u : Nat) (n : Nd)
    (hsplit : (levelsIter t true ord).map (·.1) = pre ++ u :: post) (hn : t.node? u = some n)
    (c : Nat) (hc : c = n.lo.natAbs ∨ c = n.hi.natAbs) : c = 1 ∨ c ∈ pre := by
  obtain ⟨hnodes, _, hall, hnd, hpw⟩ := levelsIter_spec t hw true ord ho
  -- the successor is a member of the source, at a deeper level
  have hcm : t.Mem (c : Int) ∧ n.lvl < t.levelOf (c : Int) := by
    rcases hc with rfl | rfl
    · have hm := hw.lo_mem u n hn
      have hl := hw.lo_lt u n hn
      rcases Int.natAbs_eq n.lo with h | h
      · rw [← h]; exact ⟨hm, hl⟩
      · have h' : ((n.lo.natAbs : Nat) : Int) = -n.lo := by omega
        rw [h']; exact ⟨mem_neg hm, by rw [levelOf_neg]; exact hl⟩
    · have hm := hw.hi_mem u n hn
      have hl := hw.hi_lt u n hn
      rcases Int.natAbs_eq n.hi with h | h
      · rw [← h]; exact ⟨hm, hl⟩
      · have h' : ((n.hi.natAbs : Nat) : Int) = -n.hi := by omega
        rw [h']; exact ⟨mem_neg hm, by rw [levelOf_neg]; exact hl⟩
  obtain ⟨hcmem, hclvl⟩ := hcm
  by_cases hc1 : c = 1
  · exact Or.inl hc1
  right
  rcases hcmem with h1 | h1
  · simp at h1; exact absurd h1 hc1
  obtain ⟨nc, hnc⟩ := Option.isSome_iff_exists.mp h1
  simp only [Int.natAbs_natCast] at hnc
  have hclvl' : n.lvl < nc.lvl := by
    rw [levelOf_node t (c : Int) nc (by simpa using hc1) (by simpa using hnc)] at hclvl
    exact hclvl
  -- both are listed; the pairwise order of levels puts `c` first
  have hcin : c ∈ (levelsIter t true ord).map (·.1) :=
    List.mem_map.mpr ⟨_, hnodes c nc hnc, rfl⟩
  rw [hsplit] at hcin
  rcases List.mem_append.mp hcin with hpre | hrest
  · exact hpre
  · exfalso
    rcases List.mem_cons.mp hrest with hcu | hpost
    · subst hcu
      rw [hn] at hnc; cases hnc; omega
    · -- `u` before `c` in the listing: level of `c` ≤ level of `u`
      have hpw' : ((levelsIter t true ord).map (·.1)).Pairwise
          (fun x y => ∀ nx ny, t.node? x = some nx → t.node? y = some ny → ny.lvl ≤ nx.lvl) := by
        rw [List.pairwise_map]
        refine List.Pairwise.imp_of_mem ?_ hpw
        intro x y hx hy hxy nx ny hnx hny
        rcases hall x hx with ⟨rfl, hs⟩ | ⟨nx', hnx', hxe⟩
        · cases hs
        rcases hall y hy with ⟨rfl, hs⟩ | ⟨ny', hny', hye⟩
        · cases hs
        rw [hnx] at hnx'; cases hnx'
        rw [hny] at hny'; cases hny'
        rw [hxe, hye] at hxy
        exact hxy
      rw [hsplit, List.pairwise_append] at hpw'
      have := (List.pairwise_cons.mp hpw'.2.1).1 c hpost n nc hn hnc
      omega

/-! ### the roots -/

/-- the translation `u ↦ _flip(umap[abs(u)], u)` of a reference -/
def trRef (umap : TreeMap Nat Int) (u : Int) : Int := flip ((umap[u.natAbs]?).getD 0) u

theorem reductionRoots_ok (umap : TreeMap Nat Int) :
    ∀ (roots : List Int), (∀ v ∈ roots, (umap[v.natAbs]?).isSome) →
      reductionRoots umap roots = .ok (roots.map (trRef umap)) := by
  intro roots
  induction roots with
  | nil => intro _; rfl
  | cons v vs ih =>
    intro h
    obtain ⟨p, hp⟩ := Option.isSome_iff_exists.mp (h v List.mem_cons_self)
    rw [reductionRoots, hp, ih (fun x hx => h x (List.mem_cons_of_mem _ hx))]
    simp [trRef, hp]

/-! ### the theorem -/

/-- what `reduction()` returns for a source table `t` with roots `roots`: a manager `b` in a good
state with the order of the source, in which every reference of the source has a translation
with the same meaning -/
structure ReductionPost (t : Tbl) (roots : List Int) (b : Mgr) (tr : Int → Int) : Prop where
  good : GoodState b (fun _ => 0)
  vars : b.tbl.vars = t.vars
  l2v : b.tbl.l2v = t.l2v
  cacheEmpty : b.cache.isEmpty = true
  /-- every reference of the source is translated to a reference of the new manager … -/
  mem : ∀ u, t.Mem u → b.tbl.Mem (tr u)
  /-- … that commutes with complementation … -/
  neg : ∀ u, t.Mem u → tr (-u) = -tr u
  /-- … and denotes the same function of the levels … -/
  den : ∀ u, t.Mem u → ∀ a, den b.tbl (tr u) a = den t u a
  /-- … and of the variable names -/
  denN : ∀ u, t.Mem u → ∀ σ, denN b.tbl (tr u) σ = denN t u σ
  /-- `bdd.roots` = the translated roots of `self` -/
  roots : ∀ r, r ∈ b.roots ↔ ∃ v ∈ roots, r = tr v
  /-- the result is canonical: equal functions ⇔ equal references -/
  canon : ∀ r r', b.tbl.Mem r → b.tbl.Mem r' → (r = r' ↔ ∀ a, DD.den b.tbl r a = DD.den b.tbl r' a)
  /-- distinct references of the source stay distinct (no two nodes are merged) -/
  inj : ∀ u v, t.Mem u → t.Mem v → tr u = tr v → u = v

theorem flip_neg_arg (p u : Int) (hu : u ≠ 0) : flip p (-u) = -flip p u := by
  unfold flip
  by_cases h : u < 0
  · have : ¬ (-u < 0) := by omega
    rw [if_pos h, if_neg this]; omega
  · have : -u < 0 := by omega
    rw [if_neg h, if_pos this]

/-- the body of `reduction()` on a good source, for every iteration order -/
theorem reductionBody_spec (t : Tbl) (hw : WFU t) (hO : OrderOK t) (roots : List Int)
    (hroots : ∀ v ∈ roots, t.Mem v) (ord : List Nat) (ho : SuccOrder t ord) :
    ∃ b tr, reductionBody t roots ord = .ok b ∧ ReductionPost t roots b tr := by
  have hW := hw.toWF
  have hloop := reductionLoop_spec t hW ((levelsIter t true ord).map (·.1)) (levelsIter t true ord)
    (freshLike t) (({} : TreeMap Nat Int).insert 1 1) (itemsOf_of_levels t hW ord ho)
    (redInv_init t) (by
      intro pre post u n hsplit hn c hc
      rcases children_first t hW ord ho pre post u n hsplit hn c hc with h1 | h1
      · left; subst h1; rw [(redInv_init t).one]; rfl
      · exact Or.inr h1)
  obtain ⟨b, umap, he, hinv, _, hall⟩ := hloop
  -- every member of the source is in `umap`
  have hdom : ∀ u : Int, t.Mem u → (umap[u.natAbs]?).isSome := by
    intro u hu
    rcases hu with h1 | h1
    · rw [h1, hinv.one]; rfl
    · obtain ⟨n, hn⟩ := Option.isSome_iff_exists.mp h1
      apply hall
      exact List.mem_map.mpr ⟨_, (levelsIter_spec t hW true ord ho).1 _ n hn, rfl⟩
  have hflip : ∀ u : Int, t.Mem u → b.tbl.Mem (trRef umap u) ∧
      ∀ a, den b.tbl (trRef umap u) a = den t u a := by
    intro u hu
    obtain ⟨p, hp⟩ := Option.isSome_iff_exists.mp (hdom u hu)
    have := hinv.flip_ok hW hu hp
    simp only [trRef, hp, Option.getD_some]
    exact ⟨this.1, this.2.2⟩
  have hOb : OrderOK b.tbl := hO.congr hinv.vars hinv.l2v
  have hcanon := fun r r' hr hr' => (canonical b.tbl hinv.inv.wf r r' hr hr')
  refine ⟨{ b with roots := dedup (roots.map (trRef umap)) }, trRef umap, ?_, ?_⟩
  · unfold reductionBody
    rw [copyValidOrdering_of_orderOK hO]
    simp only [Bool.not_true, Bool.false_eq_true, if_false]
    rw [he]
    simp only
    rw [reductionRoots_ok umap roots (fun v hv => hdom v (hroots v hv))]
  · refine ⟨⟨⟨hinv.inv.wf, hinv.inv.pred, hinv.inv.freeGe, hinv.inv.free, hinv.inv.refOne,
        hinv.inv.refDom, hinv.inv.cache⟩, hOb, ⟨hinv.exact.dom, hinv.exact.cnt, hinv.exact.extZero⟩,
        hinv.off, hinv.ctx⟩, hinv.vars, hinv.l2v, ?_, fun u hu => (hflip u hu).1, ?_,
      fun u hu => (hflip u hu).2, ?_, ?_, fun r r' hr hr' => (hcanon r r' hr hr').symm, ?_⟩
    · show b.cache.isEmpty = true
      rw [hinv.cache]; rfl
    · intro u hu
      have hu0 : u ≠ 0 := mem_ne_zero hW hu
      show flip _ (-u) = -flip _ u
      rw [Int.natAbs_neg]
      exact flip_neg_arg _ u hu0
    · intro u hu σ
      show den b.tbl (trRef umap u) (b.tbl.lift σ) = den t u (t.lift σ)
      have : b.tbl.lift σ = t.lift σ := by
        funext i
        simp only [Tbl.lift, Tbl.nameOf, hinv.l2v]
      rw [this]
      exact (hflip u hu).2 _
    · intro r
      show r ∈ dedup (roots.map (trRef umap)) ↔ _
      rw [mem_dedup, List.mem_map]
      constructor
      · rintro ⟨v, hv, rfl⟩; exact ⟨v, hv, rfl⟩
      · rintro ⟨v, hv, rfl⟩; exact ⟨v, hv, rfl⟩
    · intro u v hu hv huv
      apply (canonical t hw u v hu hv).mp
      intro a
      rw [← (hflip u hu).2 a, ← (hflip v hv).2 a, huv]

/-- `BDD.reduction()` on a manager in a good state (every reachable state), for every iteration
order of `_succ`: returns normally, `self` is unchanged, the result is as `ReductionPost` says -/
theorem reduction_spec (m : Mgr) (hI : Inv m) (hO : OrderOK m.tbl)
    (hroots : ∀ v ∈ m.roots, m.tbl.Mem v) (ord : List Nat) (ho : SuccOrder m.tbl ord) :
    ∃ b tr, reduction ord m = (.ok b, m) ∧ ReductionPost m.tbl m.roots b tr := by
  obtain ⟨b, tr, he, hp⟩ := reductionBody_spec m.tbl hI.wf hO m.roots hroots ord ho
  refine ⟨b, tr, ?_, hp⟩
  have hm : ({ ({ m with ctx := true } : Mgr) with ctx := m.ctx } : Mgr) = m := by cases m; rfl
  unfold reduction
  rw [tryToReorder_ok (fun m => (reductionBody m.tbl m.roots ord, m)) m b { m with ctx := true }
    (by show (reductionBody m.tbl m.roots ord, _) = _; rw [he]), hm]

/-- a root of `self` that is not a node makes the call raise `KeyError` (after the copy of all
nodes); `self` is unchanged -/
theorem reduction_bad_root (m : Mgr) (hI : Inv m) (hO : OrderOK m.tbl) (ord : List Nat)
    (ho : SuccOrder m.tbl ord) (v : Int) (hv : v ∈ m.roots) (hnm : ¬ m.tbl.Mem v)
    (hothers : ∀ w ∈ m.roots, w ≠ v → m.tbl.Mem w) :
    reduction ord m = (.error .key, m) := by
  -- the copy of the nodes succeeds (the statement for no roots at all)
  obtain ⟨b, tr, he, _⟩ := reductionBody_spec m.tbl hI.wf hO [] (by intro _ h; cases h) ord ho
  unfold reductionBody at he
  rw [copyValidOrdering_of_orderOK hO] at he
  simp only [Bool.not_true, Bool.false_eq_true, if_false] at he
  cases hl : reductionLoop (levelsIter m.tbl true ord)
      (freshLike m.tbl, ({} : TreeMap Nat Int).insert 1 1) with
  | error e => rw [hl] at he; cases he
  | ok st =>
    obtain ⟨b1, umap⟩ := st
    -- `umap` has exactly the members of the source
    have hW := hI.wf.toWF
    obtain ⟨b2, umap2, he2, hinv2, _, _⟩ := reductionLoop_spec m.tbl hW
      ((levelsIter m.tbl true ord).map (·.1)) (levelsIter m.tbl true ord)
      (freshLike m.tbl) (({} : TreeMap Nat Int).insert 1 1) (itemsOf_of_levels m.tbl hW ord ho)
      (redInv_init m.tbl) (by
        intro pre post u n hsplit hn c hc
        rcases children_first m.tbl hW ord ho pre post u n hsplit hn c hc with h1 | h1
        · left; subst h1; rw [(redInv_init m.tbl).one]; rfl
        · exact Or.inr h1)
    rw [hl] at he2
    cases he2
    have hnone : umap[v.natAbs]? = none := by
      cases hg : umap[v.natAbs]? with
      | none => rfl
      | some r =>
        exfalso
        apply hnm
        rcases (hinv2.ok _ _ hg).1 with h1 | h1
        · exact Or.inl h1
        · exact Or.inr h1
    have hbad : ∀ roots : List Int, v ∈ roots → ∃ e, reductionRoots umap roots = .error e ∧ e = .key := by
      intro roots
      induction roots with
      | nil => intro h; cases h
      | cons w ws ih =>
        intro hmem
        rw [reductionRoots]
        cases hw' : umap[w.natAbs]? with
        | none => exact ⟨_, rfl, rfl⟩
        | some p =>
          simp only
          have hvw : v ∈ ws := by
            rcases List.mem_cons.mp hmem with h | h
            · subst h; rw [hnone] at hw'; cases hw'
            · exact h
          obtain ⟨e, hre, hek⟩ := ih hvw
          rw [hre]
          exact ⟨e, rfl, hek⟩
    obtain ⟨e, hre, hek⟩ := hbad m.roots hv
    subst hek
    unfold reduction
    have hbody : reductionBody m.tbl m.roots ord = .error .key := by
      unfold reductionBody
      rw [copyValidOrdering_of_orderOK hO]
      simp only [Bool.not_true, Bool.false_eq_true, if_false]
      rw [hl]
      simp only
      rw [hre]
    have hm : ({ ({ m with ctx := true } : Mgr) with ctx := m.ctx } : Mgr) = m := by cases m; rfl
    rw [tryToReorder_err (fun m => (reductionBody m.tbl m.roots ord, m)) m .key { m with ctx := true }
      (by show (reductionBody m.tbl m.roots ord, _) = _; rw [hbody]) (by decide), hm]

end DD
