/-
  DDProofs.DynImage — abort-aware specification of `_image` (the recursion behind `image` and
  `preimage`): inside a reordering context (or with requests disabled) the recursion returns a
  reference — of the documented function when the level map of the second operand is strictly
  increasing on its support — or is aborted by a reordering request (raised by `find_or_add` or
  by the nested decorated `ite`, which re-raises it), having only added nodes.

  The structural half (the call returns a member, or aborts; never another exception) needs NO
  condition relating the renaming to the variable order: `preimage` stays total when sifting has
  separated the partners.  The semantic half is stated under a proposition `C` from which the
  monotonicity follows (`C = True` for `image`, whose second operand is not renamed).
-/
import DDProofs.DynSubst
import DDProofs.Image
open Std

namespace DD

/-- `ImgOK` without the monotonicity of `vmap` -/
structure ImgOKs (umap vmap : Option (List (Int × Int))) (ubad vbad : List Int) (Q : List Nat)
    (rU rV : Nat → Nat) (S : Nat → Prop) (N : Nat) : Prop where
  uval : ∀ z, z < N → z ∉ Q → mapLvl umap (z : Int) = (rU z : Int) ∧ rU z < N
  vval : ∀ j, S j → mapLvl vmap (j : Int) = (rV j : Int) ∧ rV j < N
  vterm : mapLvl vmap (N : Int) = (N : Int)
  ubad : ∀ z, z < N → z ∉ Q → ubad.contains (z : Int) = false
  vbad : ∀ j, S j ∨ j = N → vbad.contains (j : Int) = false

theorem ImgOK.toS {umap vmap : Option (List (Int × Int))} {ubad vbad : List Int} {Q : List Nat}
    {rU rV : Nat → Nat} {S : Nat → Prop} {N : Nat} (h : ImgOK umap vmap ubad vbad Q rU rV S N) :
    ImgOKs umap vmap ubad vbad Q rU rV S N := ⟨h.uval, h.vval, h.vterm, h.ubad, h.vbad⟩

/-- `vmap` is strictly increasing on `S` -/
def MonoOn (rV : Nat → Nat) (S : Nat → Prop) : Prop := ∀ j j', S j → S j' → j < j' → rV j < rV j'

/-- `IPost` with the denotation under a condition `C` -/
structure IPostC (C : Prop) (fa : Bool) (Q : List Nat) (rU rV : Nat → Nat) (t : Tbl) (u v r : Int) :
    Prop where
  mu : t.Mem u
  mv : t.Mem v
  mr : t.Mem r
  den : C → ∀ a, den t r a = true ↔ imgSem fa Q rU rV t u v a

def IMemoC (C : Prop) (fa : Bool) (Q : List Nat) (rU rV : Nat → Nat) (t : Tbl)
    (c : HashMap (Int × Int) Int) : Prop :=
  ∀ (u v r : Int), c[(u, v)]? = some r → IPostC C fa Q rU rV t u v r

theorem IPostC.ext {C : Prop} {fa : Bool} {Q : List Nat} {rU rV : Nat → Nat} {m t : Tbl} (hw : WF m)
    (he : Ext m t) {u v r : Int} (h : IPostC C fa Q rU rV m u v r) : IPostC C fa Q rU rV t u v r := by
  refine ⟨he.mem h.mu, he.mem h.mv, he.mem h.mr, ?_⟩
  intro hC a
  rw [den_ext he hw r a h.mr, imgSem_ext he hw h.mu h.mv]
  exact h.den hC a

theorem IMemoC.ext {C : Prop} {fa : Bool} {Q : List Nat} {rU rV : Nat → Nat} {m t : Tbl} (hw : WF m)
    (he : Ext m t) {c : HashMap (Int × Int) Int} (h : IMemoC C fa Q rU rV m c) :
    IMemoC C fa Q rU rV t c :=
  fun u v r hc => (h u v r hc).ext hw he

theorem IMemoC.empty (C : Prop) (fa : Bool) (Q : List Nat) (rU rV : Nat → Nat) (t : Tbl) :
    IMemoC C fa Q rU rV t {} := by
  intro u v r h
  simp at h

theorem IMemoC.insert {C : Prop} {fa : Bool} {Q : List Nat} {rU rV : Nat → Nat} {t : Tbl}
    {c : HashMap (Int × Int) Int} (h : IMemoC C fa Q rU rV t c) {u v r : Int}
    (he : IPostC C fa Q rU rV t u v r) : IMemoC C fa Q rU rV t (c.insert (u, v) r) := by
  intro u' v' r' hc
  rw [HashMap.getElem?_insert] at hc
  split at hc
  · next heq =>
    have : (u, v) = (u', v') := by simpa using heq
    cases this
    cases hc
    exact he
  · exact h u' v' r' hc

/-- the structural half of `vCofactor_spec`: no monotonicity needed -/
theorem vCofactor_struct (t : Tbl) (hw : WF t) (v : Int) (hv : t.Mem v) (iv z : Nat)
    (hivt : v.natAbs = 1 → t.nvars ≤ iv) (hz : z ≤ iv) (hzn : z < t.nvars) :
    ∃ v0 v1, topCofactorI t v ((t.levelOf v : Int) + z - iv) = .ok (v0, v1) ∧
      t.Mem v0 ∧ t.Mem v1 ∧ t.levelOf v ≤ t.levelOf v0 ∧ t.levelOf v ≤ t.levelOf v1 ∧
      (z = iv → t.levelOf v < t.levelOf v0 ∧ t.levelOf v < t.levelOf v1) ∧
      (∀ j, InSupp t v0 j → InSupp t v j) ∧ (∀ j, InSupp t v1 j → InSupp t v j) := by
  by_cases hzi : z = iv
  · have hv1 : v.natAbs ≠ 1 := by
      intro h; have := hivt h; omega
    obtain ⟨n, hn⟩ := mem_node hv hv1
    have hl := levelOf_node t v n hv1 hn
    have harg : ((t.levelOf v : Int) + z - iv) = ((t.levelOf v : Nat) : Int) := by omega
    rw [harg, topCofactorI_nat]
    obtain ⟨v0, v1, hc, m0, m1, l0, l1, _⟩ := topCofactor_spec t hw v hv (t.levelOf v)
      (Nat.le_refl _) (by rw [hl]; exact hw.lvl_lt _ _ hn)
    have hsup := topCofactor_supp t v (t.levelOf v) v0 v1 hc
    exact ⟨v0, v1, hc, m0, m1, by omega, by omega, fun _ => ⟨l0, l1⟩,
      fun j => (hsup j).1, fun j => (hsup j).2⟩
  · have harg : ((t.levelOf v : Int) + z - iv) < (t.levelOf v : Int) := by omega
    rw [topCofactorI_lt t v hv _ harg]
    exact ⟨v, v, rfl, hv, hv, Nat.le_refl _, Nat.le_refl _, fun h => absurd h hzi,
      fun _ => id, fun _ => id⟩

/-- `_image`, abort-aware.  Structural part unconditional; the returned reference denotes
`rename_U (Q qvars. u ∧ rename_V v)` under `C`, from which the monotonicity of `vmap` follows. -/
theorem imageF_out (umap vmap : Option (List (Int × Int))) (ubad vbad : List Int) (Q : List Nat)
    (fa : Bool) (rU rV : Nat → Nat) (S : Nat → Prop) (N : Nat) (C : Prop)
    (hP : ImgOKs umap vmap ubad vbad Q rU rV S N) (hmono : C → MonoOn rV S) :
    ∀ (f : Nat) (m : Mgr) (u v : Int) (cache : HashMap (Int × Int) Int),
    Inv m → Quiet m → m.nvars = N → m.tbl.Mem u → m.tbl.Mem v →
    (∀ j, InSupp m.tbl v j → S j) → IMemoC C fa Q rU rV m.tbl cache →
    2 * m.nvars + 1 ≤ f + m.tbl.levelOf u + m.tbl.levelOf v →
    Outcome2 m (fun r c m' => IMemoC C fa Q rU rV m'.tbl c ∧ IPostC C fa Q rU rV m'.tbl u v r)
      (imageF umap vmap ubad vbad Q fa f u v cache m) := by
  intro f
  induction f with
  | zero =>
    intro m u v cache hI _ _ _ _ _ _ hf
    have := levelOf_le m.tbl hI.wf.toWF u
    have := levelOf_le m.tbl hI.wf.toWF v
    have : m.nvars = m.tbl.nvars := rfl
    omega
  | succ f ih =>
    intro m u v cache hI hq hN hu hv hS hmemo hf
    have hW := hI.wf.toWF
    have hnv : m.nvars = m.tbl.nvars := rfl
    unfold imageF
    by_cases hneg : u = -1 ∨ v = -1
    · simp only [hneg, if_true]
      refine Outcome2.ok (StepK.refl hI) ⟨hmemo, hu, hv, mem_neg_one _, ?_⟩
      intro _ a
      rw [den_neg_one]
      constructor
      · intro h; cases h
      · intro h
        exfalso
        refine qsem_const_false fa Q _ _ ?_ h
        intro b
        rcases hneg with h | h <;> subst h <;> simp [den_neg_one]
    · simp only [hneg, if_false]
      by_cases hone : u = 1 ∧ v = 1
      · obtain ⟨hu1, hv1⟩ := hone
        subst hu1 hv1
        simp only [and_self, if_true]
        refine Outcome2.ok (StepK.refl hI) ⟨hmemo, hu, hv, mem_one _, ?_⟩
        intro _ a
        rw [den_one]
        refine ⟨fun _ => ?_, fun _ => rfl⟩
        refine qsem_const_true fa Q _ _ ?_
        intro b
        simp [den_one]
      · simp only [hone, if_false]
        cases hc : cache[(u, v)]? with
        | some r => exact Outcome2.ok (StepK.refl hI) ⟨hmemo, hmemo u v r hc⟩
        | none =>
          simp only
          rw [Tbl.levelOf?_eq _ _ hu, Tbl.levelOf?_eq _ _ hv]
          simp only
          -- the level the top variable of `v` is renamed to
          obtain ⟨ivN, hivE, hivnt, hivt⟩ : ∃ ivN : Nat,
              mapLvl vmap (m.tbl.levelOf v : Int) = (ivN : Int) ∧
              (v.natAbs ≠ 1 → ivN = rV (m.tbl.levelOf v) ∧ ivN < N) ∧
              (v.natAbs = 1 → ivN = N) := by
            by_cases hv1 : v.natAbs = 1
            · refine ⟨N, ?_, fun h => absurd hv1 h, fun _ => rfl⟩
              rw [levelOf_term _ _ hv1, ← hnv, hN]; exact hP.vterm
            · obtain ⟨n, hn⟩ := mem_node hv hv1
              have hl := levelOf_node m.tbl v n hv1 hn
              have hs : S n.lvl := hS _ (.here hv1 hn)
              obtain ⟨h1, h2⟩ := hP.vval _ hs
              exact ⟨rV n.lvl, by rw [hl]; exact h1, fun _ => by rw [hl]; exact ⟨rfl, h2⟩,
                fun h => absurd h hv1⟩
          have hvb : vbad.contains (m.tbl.levelOf v : Int) = false := by
            apply hP.vbad
            by_cases hv1 : v.natAbs = 1
            · right; rw [levelOf_term _ _ hv1, ← hnv, hN]
            · left
              obtain ⟨n, hn⟩ := mem_node hv hv1
              rw [levelOf_node m.tbl v n hv1 hn]
              exact hS _ (.here hv1 hn)
          simp only [hvb, Bool.false_eq_true, if_false]
          rw [hivE]
          generalize hzN : min (m.tbl.levelOf u) ivN = zN
          have hzE : min ((m.tbl.levelOf u : Nat) : Int) (ivN : Int) = (zN : Int) := by omega
          rw [hzE]
          -- not both operands are terminals
          have hzlt : zN < N := by
            by_cases hu1 : u.natAbs = 1
            · have hu' : u = 1 := by
                rcases abs_one hu1 with h | h
                · exact h
                · exact absurd (Or.inl h) hneg
              have hv1 : v.natAbs ≠ 1 := by
                intro hv1
                rcases abs_one hv1 with h | h
                · exact hone ⟨hu', h⟩
                · exact hneg (Or.inr h)
              have := (hivnt hv1).2
              omega
            · obtain ⟨n, hn⟩ := mem_node hu hu1
              have := levelOf_lt_of_node hW hu1 hn
              omega
          rw [topCofactorI_nat]
          obtain ⟨u0, u1, hcu, mu0, mu1, lu0, lu1, du⟩ := topCofactor_spec m.tbl hW u hu zN
            (by omega) (by omega)
          obtain ⟨lu0', lu1'⟩ := topCofactor_lvl m.tbl hW u zN u0 u1 hcu
          rw [hcu]
          simp only
          obtain ⟨v0, v1, hcv, mv0, mv1, lv0', lv1', lv01, sv0, sv1⟩ :=
            vCofactor_struct m.tbl hW v hv ivN zN
              (fun h => by rw [hivt h]; omega) (by omega) (by omega)
          -- the semantic facts about the cofactors of `v`, under `C`
          have hvsem : C → (∀ b : Asg, den m.tbl v (fun j => b (rV j)) =
                if b zN then den m.tbl v1 (fun j => b (rV j)) else den m.tbl v0 (fun j => b (rV j))) ∧
              (∀ (b : Asg) x, den m.tbl v0 (fun j => (upd b zN x) (rV j)) =
                den m.tbl v0 (fun j => b (rV j))) ∧
              (∀ (b : Asg) x, den m.tbl v1 (fun j => (upd b zN x) (rV j)) =
                den m.tbl v1 (fun j => b (rV j))) := by
            intro hC
            obtain ⟨v0', v1', hcv', _, _, _, _, _, _, _, dv, iv0, iv1⟩ :=
              vCofactor_spec m.tbl hW rV S (hmono hC) v hv hS ivN zN
                (fun h => (hivnt h).1) (fun h => by rw [hivt h]; omega) (by omega) (by omega)
            rw [hcv] at hcv'
            cases hcv'
            exact ⟨dv, iv0, iv1⟩
          rw [hcv]
          simp only
          rcases (ih m u0 v0 cache hI hq hN mu0 mv0
            (fun j h => hS j (sv0 j h)) hmemo
            (by
              by_cases hzi : zN = ivN
              · have := (lv01 hzi).1; omega
              · omega)).cases with
            ⟨p, c1, m1, he1, hs1, hm1, hp1⟩ | ⟨m1, he1, hs1, ha1⟩
          rotate_left
          · rw [he1]; exact Outcome2.abort0 hs1 ha1
          rw [he1]
          simp only
          have hW1 := hs1.inv.wf.toWF
          rcases (ih m1 u1 v1 c1 hs1.inv (hq.step hs1)
            (hs1.nvars.trans hN) (hs1.ext.mem mu1) (hs1.ext.mem mv1)
            (fun j h => hS j (sv1 j (h.of_ext hW hs1.ext mv1))) hm1
            (by
              rw [hs1.nvars, hs1.ext.levelOf mu1, hs1.ext.levelOf mv1]
              by_cases hzi : zN = ivN
              · have := (lv01 hzi).2; omega
              · omega)).cases with
            ⟨q, c2, m2, he2, hs2, hm2, hp2⟩ | ⟨m2, he2, hs2, ha2⟩
          rotate_left
          · rw [he2]; exact Outcome2.abort hs1 hs2 ha2
          rw [he2]
          simp only
          have hW2 := hs2.inv.wf.toWF
          have hs12 := hs1.trans hs2
          have hq2 := hq.step hs12
          have hp1' := hp1.ext hW1 hs2.ext
          -- the results of the two recursive calls, in any later table, in terms of `m.tbl`
          have hpd : C → ∀ t, Ext m2.tbl t → ∀ a, den t p a = true ↔ imgSem fa Q rU rV m.tbl u0 v0 a := by
            intro hC t he a
            rw [den_ext he hW2 p a hp1'.mr, hp1'.den hC a, imgSem_ext hs12.ext hW mu0 mv0]
          have hqd : C → ∀ t, Ext m2.tbl t → ∀ a, den t q a = true ↔ imgSem fa Q rU rV m.tbl u1 v1 a := by
            intro hC t he a
            rw [den_ext he hW2 q a hp2.mr, hp2.den hC a, imgSem_ext hs12.ext hW mu1 mv1]
          -- Shannon expansion of the conjunction at the descent level
          have hF : C → ∀ b : Asg, (den m.tbl u b && den m.tbl v (fun j => b (rV j))) =
              if b zN then (den m.tbl u1 b && den m.tbl v1 (fun j => b (rV j)))
              else (den m.tbl u0 b && den m.tbl v0 (fun j => b (rV j))) := by
            intro hC b
            rw [du b, (hvsem hC).1 b]
            cases b zN <;> simp
          -- common conclusion, given the combining step
          have hfin : ∀ r3 m3, StepK m2 m3 → m3.tbl.Mem r3 →
              (C → ∀ a, den m3.tbl r3 a = true ↔ imgSem fa Q rU rV m.tbl u v a) →
              Outcome2 m (fun r c m' => IMemoC C fa Q rU rV m'.tbl c ∧ IPostC C fa Q rU rV m'.tbl u v r)
                ((Except.ok (r3, c2.insert (u, v) r3), m3) :
                  Except Err (Int × HashMap (Int × Int) Int) × Mgr) := by
            intro r3 m3 hs3 hr3 hd3
            have hs := hs12.trans hs3
            have hent : IPostC C fa Q rU rV m3.tbl u v r3 :=
              ⟨hs.ext.mem hu, hs.ext.mem hv, hr3, fun hC a => by
                rw [hd3 hC a, imgSem_ext hs.ext hW hu hv]⟩
            exact Outcome2.ok hs ⟨(hm2.ext hW2 hs3.ext).insert hent, hent⟩
          have h0z : (0 : Int) ≤ (zN : Int) := by omega
          simp only [h0z, true_and, Int.toNat_natCast]
          by_cases hqz : zN ∈ Q
          · have hqc : Q.contains zN = true := by simpa using hqz
            simp only [hqc, if_true]
            -- the cofactors of the conjunction do not depend on the quantified level
            have hi0 : C → ∀ (b : Asg) x, (den m.tbl u0 (upd b zN x) &&
                den m.tbl v0 (fun j => (upd b zN x) (rV j))) =
                (den m.tbl u0 b && den m.tbl v0 (fun j => b (rV j))) := by
              intro hC b x
              rw [den_indep' m.tbl hW u0 mu0 zN x b lu0, (hvsem hC).2.1 b x]
            have hi1 : C → ∀ (b : Asg) x, (den m.tbl u1 (upd b zN x) &&
                den m.tbl v1 (fun j => (upd b zN x) (rV j))) =
                (den m.tbl u1 b && den m.tbl v1 (fun j => b (rV j))) := by
              intro hC b x
              rw [den_indep' m.tbl hW u1 mu1 zN x b lu1, (hvsem hC).2.2 b x]
            cases fa with
            | true =>
              simp only [if_true]
              rcases (ite_nested_spec m2 hs2.inv hq2 p q (-1)
                hp1'.mr hp2.mr (mem_neg_one _)).cases with
                ⟨r3, m3, he3, hk3, hp3⟩ | ⟨m3, he3, hk3, ha3⟩
              rotate_left
              · rw [he3]; exact Outcome2.abort hs12 hk3 ha3
              rw [he3]
              simp only
              refine hfin r3 m3 hk3 hp3.mem ?_
              intro hC a
              unfold imgSem
              rw [qsem_split_in true Q _ _ _ zN hqz (hF hC) (hi0 hC) (hi1 hC)]
              simp only
              rw [hp3.den a, den_neg_one, bool_and_true_iff]
              exact and_congr (hpd hC m2.tbl (Ext.refl _) a) (hqd hC m2.tbl (Ext.refl _) a)
            | false =>
              simp only [Bool.false_eq_true, if_false]
              rcases (ite_nested_spec m2 hs2.inv hq2 p 1 q
                hp1'.mr (mem_one _) hp2.mr).cases with
                ⟨r3, m3, he3, hk3, hp3⟩ | ⟨m3, he3, hk3, ha3⟩
              rotate_left
              · rw [he3]; exact Outcome2.abort hs12 hk3 ha3
              rw [he3]
              simp only
              refine hfin r3 m3 hk3 hp3.mem ?_
              intro hC a
              unfold imgSem
              rw [qsem_split_in false Q _ _ _ zN hqz (hF hC) (hi0 hC) (hi1 hC)]
              simp only
              rw [hp3.den a, den_one, bool_or_true_iff]
              exact or_congr (hpd hC m2.tbl (Ext.refl _) a) (hqd hC m2.tbl (Ext.refl _) a)
          · have hqc : Q.contains zN = false := by simpa using hqz
            simp only [hqc, Bool.false_eq_true, if_false]
            obtain ⟨hmE, hmlt⟩ := hP.uval zN hzlt hqz
            simp only [hP.ubad zN hzlt hqz, Bool.false_eq_true, if_false]
            rw [hmE]
            rcases (varNode_out m2 hs2.inv (rU zN)
              (by rw [hs12.nvars, hN]; exact hmlt)).cases with
              ⟨g, m3, he3, hs3, hg3, _, hd3⟩ | ⟨m3, he3, hk3, ha3⟩
            rotate_left
            · rw [he3]; exact Outcome2.abort hs12 hk3 ha3
            rw [he3]
            simp only
            have hW3 := hs3.inv.wf.toWF
            rcases (ite_nested_spec m3 hs3.inv (hq2.step hs3) g q p
              hg3 (hs3.ext.mem hp2.mr) (hs3.ext.mem hp1'.mr)).cases with
              ⟨r4, m4, he4, hk4, hp4⟩ | ⟨m4, he4, hk4, ha4⟩
            rotate_left
            · rw [he4]; exact Outcome2.abort (hs12.trans hs3) hk4 ha4
            rw [he4]
            simp only
            refine hfin r4 m4 (hs3.trans hk4) hp4.mem ?_
            intro hC a
            unfold imgSem
            rw [qsem_split_out fa Q _ _ _ zN hqz (hF hC), hp4.den a, hd3 a]
            by_cases ha : a (rU zN) = true
            · simp only [ha, if_true]
              exact hqd hC m3.tbl hs3.ext a
            · simp only [ha, Bool.false_eq_true, if_false]
              exact hpd hC m3.tbl hs3.ext a

end DD
