/-
  DDProofs.SwapPre — `swap` up to (not including) the rooted collection: after the node surgery
  and the exchange of the two names the manager satisfies the full invariant `Inv` again
  (reduced, ordered w.r.t. the NEW levels, unique, unique table in sync for ALL levels), the maps
  `vars` / `_level_to_var` are mutually inverse again with exactly the two names exchanged, and
  EVERY reference of the old table denotes the same function of variable NAMES.
-/
import DDProofs.SwapDep
import DDProofs.OrderAbs
open Std

namespace DD

/-! ### tables with the same nodes and the same number of variables -/

theorem node?_congr {t t' : Tbl} (hs : t'.succ = t.succ) (u : Nat) : t'.node? u = t.node? u := by
  unfold Tbl.node?; rw [hs]

theorem Mem_congr {t t' : Tbl} (hs : t'.succ = t.succ) (u : Int) : t'.Mem u ↔ t.Mem u := by
  unfold Tbl.Mem; rw [node?_congr hs]

theorem levelOf_congr {t t' : Tbl} (hs : t'.succ = t.succ) (hn : t'.nvars = t.nvars) (u : Int) :
    t'.levelOf u = t.levelOf u := by
  unfold Tbl.levelOf; rw [node?_congr hs, hn]

theorem WFU_congr {t t' : Tbl} (hs : t'.succ = t.succ) (hn : t'.nvars = t.nvars) (h : WFU t) : WFU t' := by
  have hW := h.toWF
  refine ⟨⟨?_, ?_, ?_, ?_, ?_, ?_, ?_, ?_⟩, ?_⟩
  · intro u n hu; rw [node?_congr hs] at hu; rw [hn]; exact hW.lvl_lt u n hu
  · intro u n hu; rw [node?_congr hs] at hu; exact (Mem_congr hs _).mpr (hW.lo_mem u n hu)
  · intro u n hu; rw [node?_congr hs] at hu; exact (Mem_congr hs _).mpr (hW.hi_mem u n hu)
  · intro u n hu; rw [node?_congr hs] at hu; rw [levelOf_congr hs hn]; exact hW.lo_lt u n hu
  · intro u n hu; rw [node?_congr hs] at hu; rw [levelOf_congr hs hn]; exact hW.hi_lt u n hu
  · intro u n hu; rw [node?_congr hs] at hu; exact hW.ge_two u n hu
  · intro u n hu; rw [node?_congr hs] at hu; exact hW.hi_pos u n hu
  · intro u n hu; rw [node?_congr hs] at hu; exact hW.lo_ne_hi u n hu
  · intro u u' n hu hu'
    rw [node?_congr hs] at hu hu'; exact h.unique u u' n hu hu'

theorem den_congr {t t' : Tbl} (hs : t'.succ = t.succ) (hn : t'.nvars = t.nvars) (u : Int) (a : Asg) :
    den t' u a = den t u a := by
  unfold den
  rw [hn]
  have : ∀ f u, denF t' f u a = denF t f u a := by
    intro f
    induction f with
    | zero => intros; rfl
    | succ f ih =>
      intro u
      rw [denF, denF]
      simp only [node?_congr hs, ih]
  exact this _ _

/-! ### the exchange of the names -/

theorem exchangeNames_spec (m : Mgr) (x : Nat) (vx vy : String)
    (hx : m.tbl.l2v[x]? = some vx) (hy : m.tbl.l2v[x + 1]? = some vy) :
    exchangeNames x (x + 1) m =
      (.ok (), { m with tbl := exchangeVars m.tbl x (x + 1) vx vy, cache := {} }) := by
  unfold exchangeNames
  rw [M.bind_ok (varAtLevel_ok m x vx hx)]
  rw [M.bind_ok (M.modify_eq _ _)]
  have hy' : varAtLevel ((x : Int) + 1)
      { m with tbl := { m.tbl with vars := m.tbl.vars.insert vx (x + 1) } } =
      (.ok vy, { m with tbl := { m.tbl with vars := m.tbl.vars.insert vx (x + 1) } }) :=
    varAtLevel_ok _ (x + 1) vy hy
  have e : ((x + 1 : Nat) : Int) = (x : Int) + 1 := by omega
  rw [e, M.bind_ok hy']
  rfl

/-! ### the state before the rooted collection -/

/-- what holds when `swap` reaches its rooted collection -/
structure SwapPrePost (m : Mgr) (x : Nat) (ox oy : List Nat) (g xf : List Nat) (m' : Mgr) : Prop where
  inv : Inv m'
  varsOK : OrderOK m'.tbl
  exch : Exch m m' x
  /-- the node table is the swapped old table -/
  rel : SwapRel m.tbl m'.tbl x (fun _ => False)
  /-- every old reference is still a reference … -/
  mem : ∀ u : Int, m.tbl.Mem u → m'.tbl.Mem u
  /-- … and denotes the same function of the variable names -/
  denN : ∀ u : Int, m.tbl.Mem u → ∀ a, denN m'.tbl u a = denN m.tbl u a
  /-- `xfresh`: nodes at the lower level -/
  fresh : ∀ r ∈ xf, ∃ nr, m'.tbl.node? r = some nr ∧ nr.lvl = x + 1
  /-- `garbage`: old references not above the lower level -/
  garbage : ∀ r ∈ g, ∃ c : Int, m.tbl.Mem c ∧ x + 1 ≤ m.tbl.levelOf c ∧ c.natAbs = r
  lastLen : m'.lastLen = m.lastLen
  ctx : m'.ctx = m.ctx
  sched : m'.sched = m.sched
  /-- reference counts: exact before, exact after (same ledger of external references) -/
  refExact : ∀ ext, RefExact m ext → RefExact m' ext
  /-- the declared names are the same -/
  names : ∀ v : String, m'.tbl.vars.contains v = m.tbl.vars.contains v
  /-- `garbage` contains the old children of every rebuilt node -/
  garbageAll : ∀ u n, IsDep m.tbl x u → m.tbl.node? u = some n → n.lo.natAbs ∈ g ∧ n.hi.natAbs ∈ g
  /-- every node created by the swap has a parent -/
  freshParent : ∀ k nk, m'.tbl.node? k = some nk → m.tbl.node? k = none →
    ∃ c nc, m'.tbl.node? c = some nc ∧ (nc.lo.natAbs = k ∨ nc.hi.natAbs = k)

theorem Mid.toInv {m0 m : Mgr} {x : Nat} (hI : Inv m0) (hx : x + 1 < m0.nvars)
    (h : Mid m0 m x (fun _ => False)) (hc : ∀ k : List Int, m.cache[k]? = none) : Inv m := by
  have hW := swapRel_wf hI.wf hx h.rel
  have huniq : ∀ u u' n, m.tbl.node? u = some n → m.tbl.node? u' = some n → u = u' := by
    intro u u' n h1 h2
    have a := (h.pred n u).mpr ⟨h1, fun hf => hf⟩
    have b := (h.pred n u').mpr ⟨h2, fun hf => hf⟩
    rw [a] at b; exact Option.some.inj b
  refine ⟨⟨hW, huniq⟩, ?_, h.freeGe, h.free, h.refOne, h.refDom, ?_⟩
  · intro n u
    rw [h.pred]
    exact ⟨fun hh => hh.1, fun hh => ⟨hh, fun hf => hf⟩⟩
  · intro g u v w hcw
    rw [hc] at hcw; cases hcw

/-- **`swap` up to the rooted collection.**  For every iteration order of the two levels the node
surgery and the exchange of the names succeed; the invariant holds again and every old reference
denotes the same function of the variable names. -/
theorem swapPre_spec (m : Mgr) (hI : Inv m) (hV : OrderOK m.tbl)
    (hoff : m.ctx = false ∨ m.lastLen = none) (x : Nat) (hx : x + 1 < m.nvars)
    (ox oy : List Nat) (hox : LevelOrder m.tbl x ox) (hoy : LevelOrder m.tbl (x + 1) oy) :
    ∃ g xf m5 m6, swapNodes x (x + 1) ox oy m =
        (.ok (ox.map (trip m.tbl), oy.map (trip m.tbl), g, xf), m5) ∧
      exchangeNames x (x + 1) m5 = (.ok (), m6) ∧ m6.ref = m5.ref ∧ m6.tbl.succ = m5.tbl.succ ∧
      Mid m m5 x (fun _ => False) ∧
      SwapPrePost m x ox oy g xf m6 := by
  obtain ⟨g, xf, m5, hrun, hM, hxf, hg, hR, hgall, hfp⟩ := swapNodes_spec m hI hoff x hx ox oy hox hoy
  obtain ⟨vx, hvx, _⟩ := hV.name_at (i := x) (by have : m.nvars = m.tbl.nvars := rfl; omega)
  obtain ⟨vy, hvy, _⟩ := hV.name_at (i := x + 1) hx
  have hl5 : m5.tbl.l2v = m.tbl.l2v := hM.frame.l2v
  have hv5 : m5.tbl.vars = m.tbl.vars := hM.frame.vars
  have hV5 : OrderOK m5.tbl := by
    have hn5 : m5.tbl.nvars = m.tbl.nvars := hM.rel.nvars
    refine ⟨fun v i => ?_, fun v i => ?_, fun i => ?_⟩
    · rw [hl5, hv5]; exact hV.inv v i
    · rw [hv5, hn5]; exact hV.lt v i
    · rw [hl5, hn5]; exact hV.total i
  have hvx5 : m5.tbl.l2v[x]? = some vx := by rw [hl5]; exact hvx
  have hvy5 : m5.tbl.l2v[x + 1]? = some vy := by rw [hl5]; exact hvy
  have hex := exchangeNames_spec m5 x vx vy hvx5 hvy5
  have hxy : x ≠ x + 1 := by omega
  have hn6 : (exchangeVars m5.tbl x (x + 1) vx vy).nvars = m5.tbl.nvars :=
    exchangeVars_nvars m5.tbl hV5 x (x + 1) vx vy hvx5 hvy5
  -- the invariant of the state with the names exchanged and the cache cleared
  have hI5' : Inv { m5 with cache := {} } := by
    have h' : Mid m { m5 with cache := {} } x (fun _ => False) :=
      ⟨hM.rel, hM.pendOK, hM.pred, hM.freeGe, hM.free, hM.refOne, hM.refDom,
        ⟨hM.frame.vars, hM.frame.l2v, hM.frame.lastLen, hM.frame.ctx, hM.frame.sched, hM.frame.roots⟩⟩
    exact h'.toInv hI hx (fun k => TreeMap.getElem?_emptyc)
  have hI6 : Inv { m5 with tbl := exchangeVars m5.tbl x (x + 1) vx vy, cache := {} } := by
    refine ⟨WFU_congr (t := m5.tbl) (t' := exchangeVars m5.tbl x (x + 1) vx vy) rfl hn6 hI5'.wf, hI5'.pred, hI5'.freeGe, hI5'.free, hI5'.refOne, hI5'.refDom, ?_⟩
    intro g u v w hcw
    have : ({} : TreeMap (List Int) Int)[iteKey g u v]? = some w := hcw
    rw [TreeMap.getElem?_emptyc] at this; cases this
  have hW5 : WF m5.tbl := swapRel_wf hI.wf hx hM.rel
  have hden5 : ∀ u : Int, m.tbl.Mem u → ∀ b : Asg, den m5.tbl u (b.swp x (x + 1)) = den m.tbl u b :=
    fun u hu b => swapRel_den hI.wf hx hM.rel hW5 m.tbl.nvars u hu (by omega) b
  refine ⟨g, xf, m5, _, hrun, hex, rfl, rfl, hM, ?_⟩
  refine ⟨hI6, hV5.exchange x (x + 1) vx vy hxy hvx5 hvy5, ⟨?_, ?_, hM.frame.roots⟩, ?_, ?_, ?_, hxf, hg,
    hM.frame.lastLen, hM.frame.ctx, hM.frame.sched,
    fun ext hr => (hR ext hr).congrSucc rfl rfl, ?_, hgall, hfp⟩
  rotate_left 5
  · intro v
    show ((m5.tbl.vars.insert vx (x + 1)).insert vy x).contains v = m.tbl.vars.contains v
    rw [TreeMap.contains_insert, TreeMap.contains_insert, hv5]
    have cx : m.tbl.vars.contains vx = true := by
      rw [TreeMap.contains_eq_isSome_getElem?, (hV.inv vx x).mpr hvx]; rfl
    have cy : m.tbl.vars.contains vy = true := by
      rw [TreeMap.contains_eq_isSome_getElem?, (hV.inv vy (x + 1)).mpr hvy]; rfl
    by_cases e1 : vy = v
    · subst e1; simp [cy]
    · by_cases e2 : vx = v
      · subst e2; simp [cx]
      · have a1 : (compare vy v == Ordering.eq) = false := by
          rw [beq_eq_false_iff_ne]; intro h; exact e1 (compare_eq_iff_eq.mp h)
        have a2 : (compare vx v == Ordering.eq) = false := by
          rw [beq_eq_false_iff_ne]; intro h; exact e2 (compare_eq_iff_eq.mp h)
        rw [a1, a2]; simp
  · intro j
    show (exchangeVars m5.tbl x (x + 1) vx vy).l2v[j]? = _
    rw [exchangeVars_l2v m5.tbl x (x + 1) vx vy hxy hvx5 hvy5, hl5]
  · show (exchangeVars m5.tbl x (x + 1) vx vy).nvars = m.tbl.nvars
    rw [hn6]; exact hM.rel.nvars
  · exact ⟨hn6.trans hM.rel.nvars, hM.rel.other, hM.rel.up, hM.rel.indep,
      fun u n hn h1 h2 hp => by
        obtain ⟨p, q, hh, hp', hq'⟩ := hM.rel.dep u n hn h1 h2 hp
        exact ⟨p, q, hh, hp'.mono (fun _ _ _ h => h), hq'.mono (fun _ _ _ h => h)⟩,
      hM.rel.pending, hM.rel.fresh⟩
  · intro u hu
    exact (Mem_congr (t := m5.tbl) rfl u).mpr (hM.mem0 hu)
  · intro u hu a
    apply denN_of_den_swp m.tbl _ x (x + 1) vx vy hxy hvx hvy
    · show (exchangeVars m5.tbl x (x + 1) vx vy).l2v = (exchangeVars m.tbl x (x + 1) vx vy).l2v
      show (m5.tbl.l2v.insert (x + 1) vx).insert x vy = (m.tbl.l2v.insert (x + 1) vx).insert x vy
      rw [hl5]
    · intro b
      rw [den_congr (t := m5.tbl) (t' := exchangeVars m5.tbl x (x + 1) vx vy) rfl hn6]
      exact hden5 u hu b

end DD
