/-
  DDProofs.DumpPerm — C12 and the ORDER of the items of a file (audit 2, gap 9).

  The model's `dumpPickle` writes `vars` sorted by name (`Tbl.vars` is a `TreeMap`: the insertion
  order of Python's `bdd.vars` dict is not part of the model state) and `succ` in ascending id
  order (Python: iteration order of the `set` returned by `descendants`).  `dump_json` writes the
  node lines in a DETERMINED order (low, high, then the node, root by root — the model's
  `dumpJsonF` is that recursion) but `level_of_var` in dict order.  So the file Python writes is
  a PERMUTATION of the model's file, and for JSON a permutation of `level_of_var` only.

  Here: permuting the items of a well-formed content changes nothing that the loaders'
  theorems speak about (`PickleWF`, `VarsWF`, `RootsResolvable`, `evalPickle`; `JsonWF` needs
  "children first" of the permuted lines, which is what `_make_node` relies on), and the round
  trips are restated for EVERY file `f'` with `f' ≈ dump(src, roots)`.  With `levels=False`
  into a fresh manager the resulting variable order IS the file's item order
  (`loadPickle_false_fresh_order`); the functions by name do not depend on it.
-/
import DDProofs.DumpTotal
import DDProofs.LoadRejected
open Std
namespace DD

/-! ### `find?` under permutation -/

theorem find?_perm_unique {α : Type} (p : α → Bool) {l l' : List α} (hp : l'.Perm l)
    (hu : ∀ a ∈ l, ∀ b ∈ l, p a = true → p b = true → a = b) : l'.find? p = l.find? p := by
  cases h : l.find? p with
  | none =>
    rw [List.find?_eq_none] at h ⊢
    intro x hx
    exact h x (hp.mem_iff.mp hx)
  | some e =>
    have he := List.find?_some h
    have hm := List.mem_of_find?_eq_some h
    cases h' : l'.find? p with
    | none =>
      rw [List.find?_eq_none] at h'
      exact absurd he (by simpa using h' e (hp.mem_iff.mpr hm))
    | some e' =>
      have he' := List.find?_some h'
      have hm' := hp.mem_iff.mp (List.mem_of_find?_eq_some h')
      rw [hu e' hm' e hm he' he]

/-- no two entries of the table have the same id (a `dict`) -/
def UniqueIds (succ : List PEntry) : Prop := ∀ a ∈ succ, ∀ b ∈ succ, a.id = b.id → a = b

theorem PEntry.find_perm {l l' : List PEntry} (hp : l'.Perm l) (hu : UniqueIds l) (k : Nat) :
    PEntry.find l' k = PEntry.find l k := by
  unfold PEntry.find
  apply find?_perm_unique _ hp
  intro a ha b hb pa pb
  have h1 : a.id = k := by simpa using pa
  have h2 : b.id = k := by simpa using pb
  exact hu a ha b hb (h1.trans h2.symm)

theorem nodup_map_injOn {α β : Type} (f : α → β) : ∀ (l : List α), (l.map f).Nodup →
    ∀ a ∈ l, ∀ b ∈ l, f a = f b → a = b := by
  intro l
  induction l with
  | nil => intro _ a ha; cases ha
  | cons x rest ih =>
    intro hn a ha b hb hab
    rw [List.map_cons, List.nodup_cons] at hn
    rcases List.mem_cons.mp ha with rfl | ha' <;> rcases List.mem_cons.mp hb with rfl | hb'
    · rfl
    · exact absurd (List.mem_map.mpr ⟨b, hb', hab.symm⟩) hn.1
    · exact absurd (List.mem_map.mpr ⟨a, ha', hab⟩) hn.1
    · exact ih hn.2 a ha' b hb' hab

theorem nameAt_perm {f f' : PickleFile} (hp : f'.vars.Perm f.vars) (hl : (f.vars.map (·.2)).Nodup)
    (i : Nat) : f'.nameAt i = f.nameAt i := by
  unfold PickleFile.nameAt
  rw [find?_perm_unique _ hp]
  intro a ha b hb pa pb
  have h1 : a.2 = i := by simpa using pa
  have h2 : b.2 = i := by simpa using pb
  exact nodup_map_injOn (·.2) f.vars hl a ha b hb (h1.trans h2.symm)

/-! ### permuted pickle contents -/

/-- the same `vars` items, the same `succ` items, in any order; the same roots container -/
structure PickleFile.Equiv (f' f : PickleFile) : Prop where
  vars : f'.vars.Perm f.vars
  succ : f'.succ.Perm f.succ
  roots : f'.roots = f.roots

theorem PickleFile.Equiv.refl (f : PickleFile) : PickleFile.Equiv f f := ⟨.refl _, .refl _, rfl⟩

theorem VarsWF.perm' {vs vs' : List (String × Nat)} (h : VarsWF vs) (hp : vs'.Perm vs) : VarsWF vs' :=
  ⟨(hp.map _).nodup_iff.mpr h.names, (hp.map _).nodup_iff.mpr h.levels,
    fun var i hm => by rw [hp.length_eq]; exact h.bound var i (hp.mem_iff.mp hm)⟩

theorem evalN_perm {f f' : PickleFile} (hs : ∀ k, PEntry.find f'.succ k = PEntry.find f.succ k)
    (hn : ∀ i, f'.nameAt i = f.nameAt i) (α : String → Bool) :
    ∀ k u, evalN f' k u α = evalN f k u α := by
  intro k
  induction k with
  | zero => intro u; rfl
  | succ k ih =>
    intro u
    rw [evalN, evalN, hs]
    split
    · rfl
    · cases PEntry.find f.succ u.natAbs with
      | none => rfl
      | some e =>
        simp only [hn]
        cases e.lo <;> cases e.hi <;> cases f.nameAt e.lvl <;> simp [ih]

theorem flevel_congr {s s' : List PEntry} (hs : ∀ k, PEntry.find s' k = PEntry.find s k) (n : Nat) (u : Int) :
    flevel s' n u = flevel s n u := by
  unfold flevel; rw [hs]

theorem fref_congr {s s' : List PEntry} (hs : ∀ k, PEntry.find s' k = PEntry.find s k) (u : Int) :
    FRef s' u ↔ FRef s u := by
  unfold FRef; rw [hs]

/-- PERMUTING the items of a pickle content whose `vars` pairs are a bijection and whose `succ`
keys are distinct (it was a `dict`) keeps everything the loader's theorems use: well-formedness,
the bijection, resolvable roots, and the function every id denotes by variable name -/
theorem pickle_perm {f f' : PickleFile} (h : PickleFile.Equiv f' f) (hV : VarsWF f.vars)
    (hu : UniqueIds f.succ) :
    (PickleWF f → PickleWF f') ∧ VarsWF f'.vars ∧ UniqueIds f'.succ ∧
    (RootsResolvable f → RootsResolvable f') ∧ ∀ u α, evalPickle f' u α = evalPickle f u α := by
  have hs : ∀ k, PEntry.find f'.succ k = PEntry.find f.succ k := PEntry.find_perm h.succ hu
  have hn : ∀ i, f'.nameAt i = f.nameAt i := nameAt_perm h.vars hV.levels
  have hlen : f'.vars.length = f.vars.length := h.vars.length_eq
  refine ⟨fun hw => ?_, hV.perm' h.vars, ?_, fun hr => ?_, fun u α => ?_⟩
  · refine ⟨fun var i hm => by rw [hlen]; exact hw.bound var i (h.vars.mem_iff.mp hm), ⟨?_⟩,
      fun var i hm => by rw [hn]; exact hw.names var i (h.vars.mem_iff.mp hm), ?_⟩
    · intro k e he h1
      rw [hs] at he
      obtain ⟨v, w, a1, a2, a3, a4, a5, a6, a7, a8, a9⟩ := hw.succ.node k e he h1
      refine ⟨v, w, a1, a2, by rw [hlen]; exact a3, a4, a5, (fref_congr hs v).mpr a6,
        (fref_congr hs w).mpr a7, ?_, ?_⟩
      · rw [flevel_congr hs, hlen]; exact a8
      · rw [flevel_congr hs, hlen]; exact a9
    · intro k e he h1
      rw [hs] at he
      obtain ⟨var, hv⟩ := hw.lvls k e he h1
      exact ⟨var, h.vars.mem_iff.mpr hv⟩
  · intro a ha b hb hab
    exact hu a (h.succ.mem_iff.mp ha) b (h.succ.mem_iff.mp hb) hab
  · intro u hu'
    rw [h.roots] at hu'
    rcases hr u hu' with h1 | ⟨e, he, hid⟩
    · exact Or.inl h1
    · exact Or.inr ⟨e, h.succ.mem_iff.mpr he, hid⟩
  · unfold evalPickle
    rw [hlen]
    exact evalN_perm hs hn α _ u

/-! ### every dump has distinct keys -/

theorem mapM_ok_mem {α β : Type} (g : α → Except Err β) : ∀ (l : List α) (l' : List β),
    l.mapM g = .ok l' → ∀ b ∈ l', ∃ a ∈ l, g a = .ok b := by
  intro l
  induction l with
  | nil =>
    intro l' h b hb
    simp [List.mapM_nil, pure, Except.pure] at h
    subst h; cases hb
  | cons x rest ih =>
    intro l' h b hb
    rw [List.mapM_cons] at h
    cases hx : g x with
    | error e => simp [hx, bind, Except.bind] at h
    | ok y =>
      cases hr : rest.mapM g with
      | error e => simp [hx, hr, bind, Except.bind] at h
      | ok ys =>
        simp [hx, hr, bind, Except.bind, pure, Except.pure] at h
        subst h
        rcases List.mem_cons.mp hb with rfl | hb'
        · exact ⟨x, List.mem_cons_self, hx⟩
        · obtain ⟨a, ha, hga⟩ := ih ys hr b hb'
          exact ⟨a, List.mem_cons_of_mem _ ha, hga⟩

theorem dumpPickle_uniqueIds {m : Mgr} {roots : Roots} {f : PickleFile}
    (h : dumpPickle m roots = .ok f) : UniqueIds f.succ := by
  obtain ⟨_, _, nodes, _, hm⟩ := dumpPickle_parts h
  intro a ha b hb hab
  obtain ⟨ka, _, ea⟩ := mapM_ok_mem _ nodes f.succ hm a ha
  obtain ⟨kb, _, eb⟩ := mapM_ok_mem _ nodes f.succ hm b hb
  have h1 := (entryOf_ok ea).1
  have h2 := (entryOf_ok eb).1
  have : ka = kb := by rw [← h1, ← h2]; exact hab
  subst this
  rw [ea] at eb
  cases eb; rfl

/-- what is known of ANY file `f'` whose items are those of `dump(src, roots)` in some order -/
theorem dumpPickle_equiv_spec {src : Mgr} (hIs : Inv src) (hvs : DmpVarsOK src.tbl) {roots : Roots}
    {f f' : PickleFile} (hd : dumpPickle src roots = .ok f) (he : PickleFile.Equiv f' f) :
    PickleWF f' ∧ VarsWF f'.vars ∧ RootsResolvable f' ∧ f'.roots = roots ∧
    (∀ α, ∀ u ∈ roots.values, evalPickle f' u α = denBy src.tbl u α) ∧
    (∀ (v : String) (i : Nat), (v, i) ∈ f'.vars ↔ src.tbl.vars[v]? = some i) := by
  obtain ⟨a, b, _, c, d⟩ := pickle_perm he (dumpPickle_varsWF hvs hd) (dumpPickle_uniqueIds hd)
  refine ⟨a (dumpPickle_wf hIs hvs hd), b, c (dumpPickle_resolvable hIs hd),
    he.roots.trans (roots_container hd), fun α u hu => ?_, fun v i => ?_⟩
  · rw [d]; exact dumpPickle_eval hIs hvs hd α u hu
  · rw [he.vars.mem_iff, (dumpPickle_parts hd).1, TreeMap.mem_toList_iff_getElem?_eq_some]

theorem loadedAs_of_loadedFrom' {src : Tbl} {roots : Roots} {f' : PickleFile} (hr : f'.roots = roots)
    (hev : ∀ α, ∀ u ∈ roots.values, evalPickle f' u α = denBy src u α) {t : Tbl} {roots' : Roots}
    (h : LoadedFrom f' t roots') : LoadedAs src roots t roots' := by
  unfold LoadedFrom at h
  rw [hr] at h
  unfold LoadedAs
  apply h.imp_mem
  intro u hu r ⟨h1, h2⟩
  exact ⟨h1, fun α => by rw [h2 α, hev α u hu]⟩

theorem levelsCompatible_perm (t : Tbl) {vs vs' : List (String × Nat)} (hp : vs'.Perm vs)
    (h : levelsCompatible t vs = true) : levelsCompatible t vs' = true := by
  rw [levelsCompatible_iff] at h ⊢
  intro var i hm
  exact h var i (hp.mem_iff.mp hm)

/-! ### the round trips, for every order of the items -/

/-- C12, pickle, the DEFAULT call (`levels=True`), for EVERY file whose items are those of the
dump in some order (Python: dict insertion order of `bdd.vars`, iteration order of a `set`): the
conclusion of `pickle_roundtrip_levels`; in particular the variables end at the SOURCE's levels
whatever the order of the items -/
theorem pickle_roundtrip_levels_perm (src : Mgr) (hIs : Inv src) (hOs : OrderOK src.tbl) (roots : Roots)
    (hroots : ∀ u ∈ roots.values, src.tbl.Mem u)
    (tgt : Mgr) (hI : Inv tgt) (hO : OrderOK tgt.tbl) (hc : tgt.ctx = false)
    (hcomp : levelsCompatible tgt.tbl src.tbl.vars.toList = true) :
    ∃ f, dumpPickle src roots = .ok f ∧ ∀ f', PickleFile.Equiv f' f →
      ∃ roots' m', loadPickle f' true tgt = (.ok roots', m') ∧
        Inv m' ∧ OrderOK m'.tbl ∧ (∀ ext, RefExact tgt ext → RefExact m' ext) ∧
        (∀ (v : String) (i : Nat), src.tbl.vars[v]? = some i → m'.tbl.vars[v]? = some i) ∧
        (∀ u n, tgt.tbl.node? u = some n → m'.tbl.node? u = some n) ∧
        LoadedAs src.tbl roots m'.tbl roots' := by
  have hvs : DmpVarsOK src.tbl := hOs.toDmp
  obtain ⟨f, hd⟩ := dumpPickle_total src hIs roots hroots
  refine ⟨f, hd, fun f' he => ?_⟩
  obtain ⟨hwf, hV, hres, hr, hev, hvars⟩ := dumpPickle_equiv_spec hIs hvs hd he
  have hfv := (dumpPickle_parts hd).1
  obtain ⟨roots', m', e, I, O, X, V, N, R⟩ := pickle_load_levels f' hwf hV hres tgt hI hO hc
    (levelsCompatible_perm _ he.vars (by rw [hfv]; exact hcomp))
  exact ⟨roots', m', e, I, O, X, fun v i hvi => V v i ((hvars v i).mpr hvi), N,
    loadedAs_of_loadedFrom' hr hev R⟩

/-- `BDD.load(file, levels=False)` of ANY well-formed content into any manager with a bijective
order: never refused; `Inv`, `OrderOK`, exact counts for the same ledger, old nodes and the
levels of declared variables kept, the roots by name -/
theorem pickle_load_false_any (f : PickleFile) (hwf : PickleWF f) (hr : RootsResolvable f)
    (tgt : Mgr) (hI : Inv tgt) (hO : OrderOK tgt.tbl) (hc : tgt.ctx = false) :
    ∃ roots' m', loadPickle f false tgt = (.ok roots', m') ∧ Inv m' ∧ OrderOK m'.tbl ∧
      (∀ ext, RefExact tgt ext → RefExact m' ext) ∧
      (∀ (v : String) (i : Nat), tgt.tbl.vars[v]? = some i → m'.tbl.vars[v]? = some i) ∧
      (∀ u n, tgt.tbl.node? u = some n → m'.tbl.node? u = some n) ∧ LoadedFrom f m'.tbl roots' := by
  obtain ⟨lm, m1, hv, O1⟩ := loadVars_false_total f.vars.length f.vars [] tgt hI hO hwf.bound
  obtain ⟨roots', m', e, I, _, _, _, N, R⟩ :=
    pickle_load f false tgt hI hO.bij hc hwf hr lm m1 hv O1.contig (fun h => by cases h)
  have L := loadPickle_leaves f false tgt hI hc
  rw [e] at L
  exact ⟨roots', m', e, I, L.order hO (fun h => by cases h), L.counts, L.kept.vars, N, R⟩

/-- C12, pickle, `levels=False`, for EVERY order of the items of the dump, into ANY manager with
a bijective order: never refused, the dumped functions by NAME -/
theorem pickle_roundtrip_any_order_perm (src : Mgr) (hIs : Inv src) (hOs : OrderOK src.tbl) (roots : Roots)
    (hroots : ∀ u ∈ roots.values, src.tbl.Mem u)
    (tgt : Mgr) (hI : Inv tgt) (hO : OrderOK tgt.tbl) (hc : tgt.ctx = false) :
    ∃ f, dumpPickle src roots = .ok f ∧ ∀ f', PickleFile.Equiv f' f →
      ∃ roots' m', loadPickle f' false tgt = (.ok roots', m') ∧ Inv m' ∧ OrderOK m'.tbl ∧
        (∀ ext, RefExact tgt ext → RefExact m' ext) ∧
        (∀ (v : String) (i : Nat), tgt.tbl.vars[v]? = some i → m'.tbl.vars[v]? = some i) ∧
        (∀ u n, tgt.tbl.node? u = some n → m'.tbl.node? u = some n) ∧
        LoadedAs src.tbl roots m'.tbl roots' := by
  have hvs : DmpVarsOK src.tbl := hOs.toDmp
  obtain ⟨f, hd⟩ := dumpPickle_total src hIs roots hroots
  refine ⟨f, hd, fun f' he => ?_⟩
  obtain ⟨hwf, _, hres, hr, hev, _⟩ := dumpPickle_equiv_spec hIs hvs hd he
  obtain ⟨roots', m', e, I, O, X, V, N, R⟩ := pickle_load_false_any f' hwf hres tgt hI hO hc
  exact ⟨roots', m', e, I, O, X, V, N, loadedAs_of_loadedFrom' hr hev R⟩

/-! ### `levels=False` into a fresh manager: the order that results IS the file's item order -/

/-- the declaration loop with `levels=False` from a manager that declares none of the names:
the `k`-th item of the file gets the `k`-th free level -/
theorem loadVars_false_positions (n : Nat) :
    ∀ (vs : List (String × Nat)) (lm : List (Nat × Nat)) (m : Mgr), Inv m → OrderOK m.tbl →
      (vs.map (·.1)).Nodup → (∀ p ∈ vs, m.tbl.vars[p.1]? = none) → (∀ p ∈ vs, p.2 < n) →
      ∃ lm' m', loadVars false n vs lm m = (.ok lm', m') ∧
        (∀ k (hk : k < vs.length), m'.tbl.vars[(vs[k]).1]? = some (m.nvars + k)) ∧
        (∀ (v : String) (i : Nat), m.tbl.vars[v]? = some i → m'.tbl.vars[v]? = some i) ∧
        m'.nvars = m.nvars + vs.length := by
  intro vs
  induction vs with
  | nil => intro lm m _ _ _ _ _; exact ⟨lm, m, rfl, (fun k hk => by cases hk), fun _ _ h => h, rfl⟩
  | cons x rest ih =>
    intro lm m hI hO hnd hnew hb
    obtain ⟨var, i⟩ := x
    rw [List.map_cons, List.nodup_cons] at hnd
    have hi : i < n := hb (var, i) List.mem_cons_self
    have hex : m.tbl.vars[var]? = none := hnew (var, i) List.mem_cons_self
    rw [loadVars]
    have hni : ¬ ¬ i < n := fun h => h hi
    simp only [hni, if_false, Bool.false_eq_true]
    rw [addVar_new m var hex hO.l2v_none]
    dsimp only
    have hv1 : ∀ (v : String), v ≠ var → (addVarState m var).tbl.vars[v]? = m.tbl.vars[v]? := by
      intro v hv
      show (m.tbl.vars.insert var m.nvars)[v]? = _
      rw [TreeMap.getElem?_insert]
      have : ¬ var = v := fun h => hv h.symm
      simp [this]
    have hv0 : (addVarState m var).tbl.vars[var]? = some m.nvars := by
      show (m.tbl.vars.insert var m.nvars)[var]? = _
      rw [TreeMap.getElem?_insert]; simp
    obtain ⟨hI', hO', -⟩ := addVar_new_spec m hI hO var hex _ rfl
    have hn' : (addVarState m var).nvars = m.nvars + 1 := addVarState_nvars m var hex
    obtain ⟨lm', m', e, P, K, N⟩ := ih ((i, m.nvars) :: lm) (addVarState m var) hI' hO' hnd.2
      (fun p hp => by
        have hne : p.1 ≠ var := fun h => hnd.1 (List.mem_map.mpr ⟨p, hp, h⟩)
        rw [hv1 p.1 hne]; exact hnew p (List.mem_cons_of_mem _ hp))
      (fun p hp => hb p (List.mem_cons_of_mem _ hp))
    refine ⟨lm', m', e, ?_, ?_, by rw [N, hn']; simp; omega⟩
    · intro k hk
      cases k with
      | zero => simpa using K var m.nvars hv0
      | succ k =>
        have := P k (by simpa using hk)
        rw [hn'] at this
        simpa [Nat.add_assoc, Nat.add_comm 1 k] using this
    · intro v i' hvi
      have hne : v ≠ var := fun h => by rw [h, hex] at hvi; cases hvi
      exact K v i' (by rw [hv1 v hne]; exact hvi)

/-- after `load(levels=False)` the tables of variables are those the declaration loop left -/
theorem loadPickle_false_vars (f : PickleFile) (tgt : Mgr) (hI : Inv tgt) (hc : tgt.ctx = false)
    (lm : List (Nat × Nat)) (m1 : Mgr)
    (hv : loadVars false f.vars.length f.vars [] tgt = (.ok lm, m1)) :
    (loadPickle f false tgt).2.tbl.vars = m1.tbl.vars := by
  rw [loadPickle_of_compat f false tgt (fun h => by cases h)]
  unfold loadPickleBody
  rw [hv]
  dsimp only
  have k1 := (loadVars_keptV false f.vars.length f.vars [] tgt hI).1
  rw [hv] at k1
  have k2 := loadAll_keptR f.succ lm (f.vars.length + f.succ.length + 2) f.succ {} m1 k1.inv
    (by rw [k1.ctx]; exact hc)
  cases h2 : loadAll f.succ lm (f.vars.length + f.succ.length + 2) f.succ {} m1 with
  | mk r2 m2 =>
    rw [h2] at k2
    cases r2 <;> exact k2.frame.vars

/-- C12, pickle, `levels=False` into the FRESH manager `BDD()`, for EVERY order of the items of
the dump: the load returns; the variable ORDER that results is the order of the ITEMS OF THE FILE
(the `k`-th item of `vars` is at level `k` — Python: the insertion order of the source's
`bdd.vars` dict, NOT the source's levels); the counts are exact; the functions by NAME are the
dumped ones whatever that order is -/
theorem pickle_roundtrip_false_fresh_perm (src : Mgr) (hIs : Inv src) (hOs : OrderOK src.tbl) (roots : Roots)
    (hroots : ∀ u ∈ roots.values, src.tbl.Mem u) :
    ∃ f, dumpPickle src roots = .ok f ∧ ∀ f', PickleFile.Equiv f' f →
      ∃ roots' m', loadPickle f' false {} = (.ok roots', m') ∧ Inv m' ∧ OrderOK m'.tbl ∧
        RefExact m' (fun _ => 0) ∧ m'.nvars = f'.vars.length ∧
        (∀ k (hk : k < f'.vars.length), m'.tbl.vars[(f'.vars[k]).1]? = some k) ∧
        LoadedAs src.tbl roots m'.tbl roots' := by
  obtain ⟨f, hd, H⟩ := pickle_roundtrip_any_order_perm src hIs hOs roots hroots {} Inv.init OrderOK.empty rfl
  refine ⟨f, hd, fun f' he => ?_⟩
  obtain ⟨roots', m', e, I, O, X, _, _, R⟩ := H f' he
  obtain ⟨hwf, hV, _⟩ := dumpPickle_equiv_spec hIs hOs.toDmp hd he
  obtain ⟨lm, m1, hv, P, _, N⟩ := loadVars_false_positions f'.vars.length f'.vars [] {} Inv.init
    OrderOK.empty hV.names (fun p _ => by show ({} : TreeMap String Nat)[p.1]? = none; simp)
    (fun p hp => hwf.bound p.1 p.2 hp)
  have hvars := loadPickle_false_vars f' {} Inv.init rfl lm m1 hv
  rw [e] at hvars
  have h0 : ({} : Mgr).nvars = 0 := rfl
  refine ⟨roots', m', e, I, O, X _ GoodState.init.exact, ?_, ?_, R⟩
  · show m'.tbl.vars.size = _
    rw [hvars]
    have : m1.tbl.vars.size = m1.nvars := rfl
    rw [this, N, h0]; simp
  · intro k hk
    rw [hvars, P k hk, h0]; simp

/-! ### JSON: `level_of_var` in any order, the node lines in any order that keeps children first -/

/-- the same `level_of_var` items and the same node lines, in any order; the same roots -/
structure JsonFile.Equiv (f' f : JsonFile) : Prop where
  vars : f'.levelOfVar.Perm f.levelOfVar
  nodes : f'.nodes.Perm f.nodes
  roots : f'.roots = f.roots

theorem JsonFile.Equiv.refl (f : JsonFile) : JsonFile.Equiv f f := ⟨.refl _, .refl _, rfl⟩

theorem JLine.entry_inj {a b : JLine} (h : a.entry = b.entry) : a = b := by
  cases a; cases b
  simp only [JLine.entry, PEntry.mk.injEq, Option.some.injEq] at h
  obtain ⟨rfl, rfl, rfl, rfl⟩ := h
  rfl

/-- a well-formed JSON content has one line per id -/
theorem JsonWF.uniqueIds {f : JsonFile} (hf : JsonWF f) : UniqueIds f.toPickle.succ := by
  have key : ∀ a ∈ f.toPickle.succ, PEntry.find f.toPickle.succ a.id = some a := by
    intro a ha
    have ha' : a ∈ (⟨1, f.levelOfVar.length, none, none⟩ : PEntry) :: f.nodes.map JLine.entry := ha
    rcases List.mem_cons.mp ha' with rfl | h
    · show List.find? _ (_ :: _) = _
      simp
    · obtain ⟨ln, hln, rfl⟩ := List.mem_map.mp h
      exact (hf.lines ln hln).2
  intro a ha b hb hab
  have h1 := key a ha
  have h2 := key b hb
  rw [hab, h2] at h1
  cases h1; rfl

theorem PickleWF.uniqueLevels {f : PickleFile} (hw : PickleWF f) :
    ∀ a ∈ f.vars, ∀ b ∈ f.vars, a.2 = b.2 → a = b := by
  intro a ha b hb hab
  have h1 := hw.names a.1 a.2 ha
  have h2 := hw.names b.1 b.2 hb
  rw [hab, h2] at h1
  cases a; cases b
  simp only at hab h1 ⊢
  cases h1; subst hab; rfl

theorem nameAt_perm' {f f' : PickleFile} (hp : f'.vars.Perm f.vars)
    (hu : ∀ a ∈ f.vars, ∀ b ∈ f.vars, a.2 = b.2 → a = b) (i : Nat) : f'.nameAt i = f.nameAt i := by
  unfold PickleFile.nameAt
  rw [find?_perm_unique _ hp]
  intro a ha b hb pa pb
  have h1 : a.2 = i := by simpa using pa
  have h2 : b.2 = i := by simpa using pb
  exact hu a ha b hb (h1.trans h2.symm)

/-- PERMUTING `level_of_var` and the node lines of a well-formed JSON content, the lines still
children-first (the one thing `_make_node` relies on): still well formed, every id denotes the
same function by name, still rooted -/
theorem json_perm {f f' : JsonFile} (h : JsonFile.Equiv f' f) (hf : JsonWF f)
    (hcf : ChildrenFirst f'.nodes) :
    JsonWF f' ∧ (∀ u α, evalJson f' u α = evalJson f u α) ∧ (Rooted f → Rooted f') := by
  have hlen : f'.levelOfVar.length = f.levelOfVar.length := h.vars.length_eq
  have hsp : f'.toPickle.succ.Perm f.toPickle.succ := by
    show ((⟨1, f'.levelOfVar.length, none, none⟩ : PEntry) :: f'.nodes.map JLine.entry).Perm
      ((⟨1, f.levelOfVar.length, none, none⟩ : PEntry) :: f.nodes.map JLine.entry)
    rw [hlen]
    exact List.Perm.cons _ (h.nodes.map _)
  have hu := hf.uniqueIds
  have hs : ∀ k, PEntry.find f'.toPickle.succ k = PEntry.find f.toPickle.succ k := PEntry.find_perm hsp hu
  have hn : ∀ i, f'.toPickle.nameAt i = f.toPickle.nameAt i :=
    nameAt_perm' (f := f.toPickle) (f' := f'.toPickle) h.vars hf.wf.uniqueLevels
  have hw := hf.wf
  have hvl : f'.toPickle.vars.length = f.toPickle.vars.length := hlen
  have hwf' : PickleWF f'.toPickle := by
    refine ⟨fun var i hm => by rw [hvl]; exact hw.bound var i (h.vars.mem_iff.mp hm), ⟨?_⟩,
      fun var i hm => by rw [hn]; exact hw.names var i (h.vars.mem_iff.mp hm), ?_⟩
    · intro k e he h1
      rw [hs] at he
      obtain ⟨v, w, a1, a2, a3, a4, a5, a6, a7, a8, a9⟩ := hw.succ.node k e he h1
      refine ⟨v, w, a1, a2, by rw [hvl]; exact a3, a4, a5, (fref_congr hs v).mpr a6,
        (fref_congr hs w).mpr a7, ?_, ?_⟩
      · rw [flevel_congr hs, hvl]; exact a8
      · rw [flevel_congr hs, hvl]; exact a9
    · intro k e he h1
      rw [hs] at he
      obtain ⟨var, hv⟩ := hw.lvls k e he h1
      exact ⟨var, h.vars.mem_iff.mpr hv⟩
  refine ⟨⟨hwf', hcf, by rw [h.roots]; exact hf.roots, ?_, ?_⟩, fun u α => ?_, fun hr => ?_⟩
  · intro u hu'
    have hu'' : u ∈ f.toPickle.roots.values := by
      show u ∈ f.roots.values
      rw [← h.roots]; exact hu'
    rcases hf.res u hu'' with h1 | ⟨e, he, hid⟩
    · exact Or.inl h1
    · exact Or.inr ⟨e, hsp.mem_iff.mpr he, hid⟩
  · intro ln hln
    obtain ⟨a, b⟩ := hf.lines ln (h.nodes.mem_iff.mp hln)
    exact ⟨a, by rw [hs]; exact b⟩
  · unfold evalJson evalPickle
    rw [hvl]
    exact evalN_perm hs hn α _ u
  · intro ln hln
    rcases hr ln (h.nodes.mem_iff.mp hln) with ⟨r, hr', hid⟩ | ⟨ln', hln', hc⟩
    · exact Or.inl ⟨r, by rw [h.roots]; exact hr', hid⟩
    · exact Or.inr ⟨ln', h.nodes.mem_iff.mpr hln', hc⟩

/-- C12, JSON round trip (either `load_order`, reordering not enabled in the target) for EVERY
file whose `level_of_var` items and node lines are those of the dump in some order — the lines
children-first (Python writes the lines in the order of the model; `level_of_var` in the
insertion order of `bdd.vars`) -/
theorem json_roundtrip_perm (src : Mgr) (hIs : Inv src) (hOs : OrderOK src.tbl) (roots : Roots)
    (hn : roots ≠ .none) (hne : roots.values ≠ []) (hroots : ∀ u ∈ roots.values, src.tbl.Mem u)
    (lo : Bool) (tgt : Mgr) (e : Nat → Nat) (hg : GoodState tgt e) (hpn : PredNodes tgt)
    (hr : ∀ r ∈ tgt.roots, tgt.tbl.Mem r)
    (hlo : lo = true → tgt.sched = [] ∧ (∀ r ∈ tgt.roots, 0 < e r.natAbs) ∧
      ∀ v : String, tgt.tbl.vars.contains v = true → src.tbl.vars.contains v = true) :
    ∃ f, dumpJson src roots = .ok f ∧ ∀ f', JsonFile.Equiv f' f → ChildrenFirst f'.nodes →
      ∃ roots' m', loadJson f' lo tgt = (.ok roots', m') ∧ JsonLoaded f' e lo roots' m' ∧
        LoadedAs src.tbl roots m'.tbl roots' := by
  obtain ⟨f, hd⟩ := dumpJson_total src hIs roots hn hne hroots
  refine ⟨f, hd, fun f' he hcf => ?_⟩
  have hvs := hOs.toDmp
  have hf := dumpJson_jsonWF hIs hvs hd
  obtain ⟨hlov, hroots', _⟩ := dumpJson_parts hd
  obtain ⟨_, _, hev⟩ := dumpJson_spec hIs hvs hd
  obtain ⟨hf', hev', hrt⟩ := json_perm he hf hcf
  obtain ⟨roots', m', el, L⟩ := json_load_holds f' lo tgt e hf' hg hpn hr (by
    intro h
    obtain ⟨a, b, c⟩ := hlo h
    refine ⟨hrt (dumpJson_rooted hd), (he.vars.map _).nodup_iff.mpr (dumpJson_names_nodup hd), a, b, ?_⟩
    intro v hv
    have := c v hv
    rw [TreeMap.contains_eq_isSome_getElem?] at this
    obtain ⟨l, hl⟩ := Option.isSome_iff_exists.mp this
    apply (he.vars.map _).mem_iff.mpr
    rw [hlov]
    exact List.mem_map.mpr ⟨(v, l), TreeMap.mem_toList_iff_getElem?_eq_some.mpr hl, rfl⟩)
  refine ⟨roots', m', el, L, ?_⟩
  have R := L.roots
  rw [he.roots, hroots'] at R
  apply R.imp_mem
  intro u hu r ⟨h1, h2⟩
  exact ⟨h1, fun α => by rw [h2 α, hev' u α, hev α u hu]⟩

/-! ### the older round-trip forms without hypotheses about the callee's intermediate results -/

/-- a manager passes the pre-check of `load(levels=True)` for a file that declares (some of) its
own variables at its own levels -/
theorem levelsCompatible_declared (t : Tbl) (vs : List (String × Nat))
    (h : ∀ var i, (var, i) ∈ vs → t.vars[var]? = some i) : levelsCompatible t vs = true := by
  rw [levelsCompatible_iff]
  intro var i hm
  have hv := h var i hm
  exact ⟨fun j hj => by rw [hv] at hj; cases hj; rfl, fun hn => by rw [hv] at hn; cases hn⟩

/-- `dump(file, roots); load(file, levels)` into a manager that already declares the source's
variables at the source's levels (possibly more variables, pre-existing nodes), either `levels`,
every order of the file's items: no hypothesis that the dump or the declaration loop succeeds
(supersedes `pickle_roundtrip_declared`) -/
theorem pickle_roundtrip_declared_total (src : Mgr) (hIs : Inv src) (hOs : OrderOK src.tbl) (roots : Roots)
    (hroots : ∀ u ∈ roots.values, src.tbl.Mem u) (levels : Bool)
    (tgt : Mgr) (hI : Inv tgt) (hO : OrderOK tgt.tbl) (hc : tgt.ctx = false)
    (hdecl : ∀ (var : String) (i : Nat), src.tbl.vars[var]? = some i → tgt.tbl.vars[var]? = some i) :
    ∃ f, dumpPickle src roots = .ok f ∧ ∀ f', PickleFile.Equiv f' f →
      ∃ roots' m', loadPickle f' levels tgt = (.ok roots', m') ∧ Inv m' ∧ OrderOK m'.tbl ∧
        (∀ ext, RefExact tgt ext → RefExact m' ext) ∧
        (∀ (v : String) (i : Nat), tgt.tbl.vars[v]? = some i → m'.tbl.vars[v]? = some i) ∧
        (∀ u n, tgt.tbl.node? u = some n → m'.tbl.node? u = some n) ∧
        LoadedAs src.tbl roots m'.tbl roots' := by
  cases levels with
  | false => exact pickle_roundtrip_any_order_perm src hIs hOs roots hroots tgt hI hO hc
  | true =>
    have hcomp : levelsCompatible tgt.tbl src.tbl.vars.toList = true :=
      levelsCompatible_declared _ _ (fun var i hm =>
        hdecl var i (TreeMap.mem_toList_iff_getElem?_eq_some.mp hm))
    obtain ⟨f, hd, H⟩ := pickle_roundtrip_levels_perm src hIs hOs roots hroots tgt hI hO hc hcomp
    refine ⟨f, hd, fun f' he => ?_⟩
    obtain ⟨roots', m', e, I, O, X, _, N, R⟩ := H f' he
    have L := loadPickle_leaves f' true tgt hI hc
    rw [e] at L
    exact ⟨roots', m', e, I, O, X, L.kept.vars, N, R⟩

/-- `dump(file, roots); load(file, levels)` into the SAME manager, either `levels`, every order of
the file's items (supersedes `pickle_roundtrip_same_manager`) -/
theorem pickle_roundtrip_same_manager_total (m : Mgr) (hI : Inv m) (hO : OrderOK m.tbl)
    (hc : m.ctx = false) (roots : Roots) (hroots : ∀ u ∈ roots.values, m.tbl.Mem u) (levels : Bool) :
    ∃ f, dumpPickle m roots = .ok f ∧ ∀ f', PickleFile.Equiv f' f →
      ∃ roots' m', loadPickle f' levels m = (.ok roots', m') ∧ Inv m' ∧ OrderOK m'.tbl ∧
        (∀ ext, RefExact m ext → RefExact m' ext) ∧
        (∀ (v : String) (i : Nat), m.tbl.vars[v]? = some i → m'.tbl.vars[v]? = some i) ∧
        (∀ u n, m.tbl.node? u = some n → m'.tbl.node? u = some n) ∧
        LoadedAs m.tbl roots m'.tbl roots' :=
  pickle_roundtrip_declared_total m hI hO roots hroots levels m hI hO hc (fun _ _ h => h)

end DD
