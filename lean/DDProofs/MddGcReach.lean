/-
  DDProofs.MddGcReach — "collection frees exactly the unreferenced nodes": after a full
  `collect_garbage()` a node remains iff it is reachable (along successor edges) from a node
  the user holds.
-/
import DDProofs.MddLedger
open Std

namespace DD

/-- nodes reachable from the nodes the user holds -/
inductive HeldReach (t : MTbl) (ext : Nat → Nat) : Nat → Prop
  | held (x : Nat) (n : MNd) : t.node? x = some n → 0 < ext x → HeldReach t ext x
  | step (p : Nat) (n : MNd) (k : Int) (nk : MNd) : HeldReach t ext p → t.node? p = some n → k ∈ n.kids →
      t.node? k.natAbs = some nk → HeldReach t ext k.natAbs

/-- with exact counts, a node with a positive count is held or has a parent -/
theorem held_or_parent (m : MddMgr) (ext : Nat → Nat) (hx : MRefExact m ext)
    (x : Nat) (n : MNd) (hn : m.tbl.node? x = some n) (c : Nat) (hc : m.ref[x]? = some c) (hpos : 0 < c) :
    0 < ext x ∨ ∃ p np k, m.tbl.node? p = some np ∧ k ∈ np.kids ∧ k.natAbs = x := by
  have hcnt := hx.cnt x (Or.inr (by rw [hn]; rfl))
  rw [hc] at hcnt
  simp only [Option.some.injEq] at hcnt
  by_cases he : 0 < ext x
  · exact Or.inl he
  · right
    have : 0 < m.tbl.indeg (m.max + 1) x := by omega
    obtain ⟨p, _, hp⟩ := sumRange_pos (f := fun q => edgesInto (m.tbl.node? q) x) _ this
    cases hnp : m.tbl.node? p with
    | none => simp [hnp, edgesInto] at hp
    | some np =>
      simp only [hnp, edgesInto] at hp
      obtain ⟨k, hk, habs⟩ := cntInto_pos_iff.mp hp
      exact ⟨p, np, k, hnp, hk, habs⟩

/-- if every node has a positive count, every node is reachable from a held node -/
theorem all_reachable_of_live (m : MddMgr) (ext : Nat → Nat) (h : MInv m) (hx : MRefExact m ext)
    (hlive : ∀ x n, m.tbl.node? x = some n → ∃ c, m.ref[x]? = some c ∧ 0 < c) :
    ∀ (l : Nat) (x : Nat) (n : MNd), m.tbl.node? x = some n → n.lvl ≤ l → HeldReach m.tbl ext x := by
  have hW := h.wf.toMWF
  intro l
  induction l with
  | zero =>
    intro x n hn hl
    obtain ⟨c, hc, hpos⟩ := hlive x n hn
    rcases held_or_parent m ext hx x n hn c hc hpos with he | ⟨p, np, k, hnp, hk, habs⟩
    · exact HeldReach.held x n hn he
    · exfalso
      have hlt := hW.kids_lt _ _ hnp k hk
      have hx2 := hW.ge_two _ _ hn
      have : m.tbl.levelOf k = n.lvl := m.tbl.levelOf_node k n (by omega) (by rw [habs]; exact hn)
      omega
  | succ l ih =>
    intro x n hn hl
    obtain ⟨c, hc, hpos⟩ := hlive x n hn
    rcases held_or_parent m ext hx x n hn c hc hpos with he | ⟨p, np, k, hnp, hk, habs⟩
    · exact HeldReach.held x n hn he
    · have hlt := hW.kids_lt _ _ hnp k hk
      have hx2 := hW.ge_two _ _ hn
      have hlv : m.tbl.levelOf k = n.lvl := m.tbl.levelOf_node k n (by omega) (by rw [habs]; exact hn)
      have hp := ih p np hnp (by omega)
      have := HeldReach.step p np k n hp hnp hk (by rw [habs]; exact hn)
      rw [habs] at this
      exact this

/-- reachability in a sub-table is reachability in the table -/
theorem HeldReach.mono {t t' : MTbl} {ext : Nat → Nat} (hs : MExt t' t) {x : Nat}
    (h : HeldReach t' ext x) : HeldReach t ext x := by
  induction h with
  | held x n hn he => exact HeldReach.held x n (hs.nodes _ _ hn) he
  | step p n k nk _ hn hk hnk ih => exact HeldReach.step p n k nk ih (hs.nodes _ _ hn) hk (hs.nodes _ _ hnk)

/-- full collection: a node of the manager remains iff it is reachable from a held node -/
theorem gcOK_exactly_reachable (m : MddMgr) (ext : Nat → Nat) (h : MInv m)
    (m' : MddMgr) (G : GcOK m ext true m') (x : Nat) (n : MNd)
    (hn : m.tbl.node? x = some n) :
    m'.tbl.node? x = some n ↔ HeldReach m.tbl ext x := by
  constructor
  · intro hn'
    have := all_reachable_of_live m' ext G.inv G.exact (G.live rfl) n.lvl x n hn' (Nat.le_refl _)
    exact this.mono G.sub
  · intro hreach
    -- every node reachable from a held node is kept, with the same tuple
    have key : ∀ y, HeldReach m.tbl ext y → ∀ ny, m.tbl.node? y = some ny → m'.tbl.node? y = some ny := by
      intro y hy
      induction hy with
      | held y n' hn' he =>
        intro ny hny
        rw [hn'] at hny
        cases hny
        exact G.held y n' hn' he
      | step p np k nk _ hnp hk hnk ih =>
        intro ny hny
        have hp' := ih np hnp
        have hkm := G.inv.wf.kids_mem _ _ hp' k hk
        have hk2 : 2 ≤ k.natAbs := h.wf.ge_two _ _ hnk
        rcases hkm with h1 | h1
        · omega
        · obtain ⟨n2, hn2⟩ := Option.isSome_iff_exists.mp h1
          have := G.sub.nodes _ _ hn2
          rw [hny] at this
          cases this
          exact hn2
    exact key x hreach n hn

theorem gc_exactly_reachable (m : MddMgr) (ext : Nat → Nat) (h : MInv m) (hx : MRefExact m ext)
    (m' : MddMgr) (hr : mCollectGarbage none m = (.ok (), m')) (x : Nat) (n : MNd)
    (hn : m.tbl.node? x = some n) :
    m'.tbl.node? x = some n ↔ HeldReach m.tbl ext x :=
  gcOK_exactly_reachable m ext h m' (mddGc_spec m ext h hx none m' hr) x n hn

end DD
