/-
  DDProofs.PredNodesOrder — the unique table `_pred` has no stray entries, and the reordering
  operations (`swap`, `_sort_to_order`, `_apply_sifting`, `collect_garbage`) keep it so.

  `PredNodes m`: every entry `(level, low, high) ↦ u` of `_pred` is the triple of the stored
  node `u`.  Under the manager invariant (`Inv.pred` fixes the entries whose key IS a triple)
  this is equivalent to `KeysOK m`: every key of `_pred` is a triple.  `KeysOK` only looks at
  the keys, and every mutation of `_pred` in the model is `insert n.key _` or `erase _`; so it
  is kept by EVERY outcome of every function, which is proved compositionally (`KSM`).
-/
import DD.Order
import DDProofs.Inv
open Std
namespace DD

/-- every entry `(level, low, high) ↦ u` of `_pred` is the triple of the stored node `u` -/
def PredNodes (m : Mgr) : Prop :=
  ∀ (k : List Int) (u : Nat), m.pred[k]? = some u → ∃ n, m.tbl.succ[u]? = some n ∧ n.key = k

/-- every key of `_pred` is a triple `(level, low, high)` -/
def KeysOK (m : Mgr) : Prop := ∀ (k : List Int) (u : Nat), m.pred[k]? = some u → ∃ n : Nd, k = n.key

theorem PredNodes.keysOK {m : Mgr} (h : PredNodes m) : KeysOK m := by
  intro k u hk
  obtain ⟨n, _, hn⟩ := h k u hk
  exact ⟨n, hn.symm⟩

theorem KeysOK.predNodes {m : Mgr} (h : KeysOK m) (hI : Inv m) : PredNodes m := by
  intro k u hk
  obtain ⟨n, rfl⟩ := h k u hk
  exact ⟨n, (hI.pred n u).mp hk, rfl⟩

theorem KeysOK.congr {m m' : Mgr} (h : KeysOK m) (hp : m'.pred = m.pred) : KeysOK m' := by
  intro k u hk; rw [hp] at hk; exact h k u hk

theorem KeysOK.insert {m : Mgr} (h : KeysOK m) (n : Nd) (u : Nat) {m' : Mgr}
    (hp : m'.pred = m.pred.insert n.key u) : KeysOK m' := by
  intro k v hk
  rw [hp, TreeMap.getElem?_insert] at hk
  by_cases hkk : n.key = k
  · exact ⟨n, hkk.symm⟩
  · have : compare n.key k ≠ .eq := fun hc => hkk (compare_eq_iff_eq.mp hc)
    simp only [this, if_false] at hk
    exact h k v hk

theorem KeysOK.erase {m : Mgr} (h : KeysOK m) (k0 : List Int) {m' : Mgr}
    (hp : m'.pred = m.pred.erase k0) : KeysOK m' := by
  intro k v hk
  rw [hp, TreeMap.getElem?_erase] at hk
  split at hk
  · cases hk
  · exact h k v hk

/-! ### compositional preservation: a computation keeps `KeysOK` in every outcome -/

def KSM {α : Type} (x : M α) : Prop := ∀ m, KeysOK m → KeysOK (x m).2

theorem ksm_pure {α : Type} (a : α) : KSM (pure a : M α) := fun _ h => h
theorem ksm_throw {α : Type} (e : Err) : KSM (M.throw e : M α) := fun _ h => h
theorem ksm_get : KSM M.get := fun _ h => h
theorem ksm_assert (b : Bool) (e : Err) : KSM (M.assert b e) := by
  intro m h; unfold M.assert; split <;> exact h
theorem ksm_ofOption {α : Type} (e : Err) (o : Option α) : KSM (M.ofOption e o) := by
  intro m h; cases o <;> exact h
theorem ksm_liftE {α : Type} (x : Except Err α) : KSM (liftE x) := by
  intro m h; cases x <;> exact h

theorem ksm_bind {α β : Type} {x : M α} {f : α → M β} (hx : KSM x) (hf : ∀ a, KSM (f a)) :
    KSM (x >>= f) := by
  intro m h
  have h1 := hx m h
  show KeysOK (M.bind' x f m).2
  unfold M.bind'
  cases hxm : x m with
  | mk r m1 =>
    rw [hxm] at h1
    cases r with
    | ok a => exact hf a m1 h1
    | error e => exact h1

theorem ksm_modify (f : Mgr → Mgr) (hf : ∀ m, KeysOK m → KeysOK (f m)) : KSM (M.modify f) :=
  fun m h => hf m h

theorem ksm_ite {α : Type} (c : Prop) [Decidable c] {x y : M α} (hx : KSM x) (hy : KSM y) :
    KSM (if c then x else y) := by
  split
  · exact hx
  · exact hy

/-! ### the reference counters, `find_or_add` -/

theorem ksm_incref (u : Int) : KSM (incref u) := by
  intro m h; unfold incref; split
  · exact h
  · exact h.congr rfl

theorem ksm_decref (u : Int) : KSM (decref u) := by
  intro m h; unfold decref; split
  · exact h
  · split
    · exact h
    · exact h.congr rfl

theorem ksm_refOf (u : Int) : KSM (refOf u) := by
  intro m h; unfold refOf; split <;> exact h

theorem ksm_requestReordering : KSM requestReordering := by
  intro m h; unfold requestReordering
  split
  · exact h
  · split
    · split
      · exact h.congr rfl
      · exact h.congr rfl
    · split <;> exact h

theorem incref_pred {u : Int} {m m' : Mgr} {r : Except Err Unit} (h : incref u m = (r, m')) :
    m'.pred = m.pred := by
  unfold incref at h
  split at h <;> (cases h; rfl)

theorem ksm_findOrAddCore (i : Nat) (v w : Int) : KSM (findOrAddCore i v w) := by
  intro m h
  unfold findOrAddCore
  dsimp only
  repeat' split
  all_goals first
    | exact h
    | (rename_i _ _ _ h1 _ _ _ h2
       exact KeysOK.insert h _ _ ((incref_pred h2).trans (incref_pred h1)))
    | (rename_i _ _ _ h1
       exact KeysOK.insert h _ _ (incref_pred h1))

theorem ksm_findOrAdd (i : Int) (v w : Int) : KSM (findOrAdd i v w) := by
  intro m h
  unfold findOrAdd
  have h1 : KeysOK (if m.ctx = true then requestReordering m else (Except.ok (), m)).2 := by
    split
    · exact ksm_requestReordering m h
    · exact h
  generalize (if m.ctx = true then requestReordering m else (Except.ok (), m)) = res at h1
  obtain ⟨r, m1⟩ := res
  cases r with
  | error e => exact h1
  | ok a =>
    dsimp only
    split
    · exact h1
    · exact ksm_findOrAddCore _ _ _ m1 h1

/-! ### `collect_garbage` -/

theorem ksm_refOfExact (w : Int) : KSM (refOfExact w) := by
  intro m h; unfold refOfExact; split
  · exact h
  · split <;> exact h

/-- one structural step of a `KSM` proof -/
macro "ksm_step" : tactic => `(tactic| first
  | with_reducible exact ksm_pure _ | with_reducible exact ksm_throw _ | with_reducible exact ksm_get
  | with_reducible exact ksm_assert _ _
  | with_reducible exact ksm_ofOption _ _ | with_reducible exact ksm_liftE _
  | with_reducible exact ksm_incref _ | with_reducible exact ksm_decref _
  | with_reducible exact ksm_refOf _ | with_reducible exact ksm_refOfExact _
  | with_reducible exact ksm_findOrAdd _ _ _
  | with_reducible assumption
  | with_reducible refine ksm_bind ?_ (fun _ => ?_)
  | with_reducible refine ksm_ite _ ?_ ?_
  | (with_reducible refine ksm_modify _ (fun _ h => ?_)
     first | exact KeysOK.congr h rfl | exact KeysOK.erase h _ rfl))

theorem ksm_gcStep (u : Nat) (work : List Nat) : KSM (gcStep u work) := by
  unfold gcStep
  dsimp only
  repeat' ksm_step

theorem ksm_gcLoop : ∀ (f : Nat) (work : List Nat), KSM (gcLoop f work) := by
  intro f
  induction f with
  | zero =>
    intro work
    cases work with
    | nil => unfold gcLoop; exact ksm_pure _
    | cons u rest => unfold gcLoop; exact ksm_throw _
  | succ f ih =>
    intro work
    cases work with
    | nil => unfold gcLoop; exact ksm_pure _
    | cons u rest =>
      unfold gcLoop
      exact ksm_bind (ksm_gcStep _ _) (fun w => ih w)

theorem ksm_unusedOf : ∀ (l : List Int), KSM (unusedOf l) := by
  intro l
  induction l with
  | nil => unfold unusedOf; exact ksm_pure _
  | cons u rest ih =>
    unfold unusedOf
    repeat' ksm_step

theorem ksm_collectGarbage (roots : Option (List Int)) : KSM (collectGarbage roots) := by
  unfold collectGarbage
  refine ksm_bind ksm_get (fun m => ?_)
  dsimp only
  refine ksm_bind (ksm_unusedOf _) (fun _ => ?_)
  refine ksm_bind (ksm_gcLoop _ _) (fun _ => ?_)
  repeat' ksm_step


/-! ### `swap` -/

theorem ksm_takeSwapOrders (x y : Nat) : KSM (takeSwapOrders x y) := by
  intro m h
  unfold takeSwapOrders
  simp only [bind, M.bind', M.get]
  rcases hs : m.sched with _ | ⟨it, rest⟩
  · exact h
  · cases it with
    | sift names => exact h
    | swap lv =>
      simp only [M.set]
      split <;> exact h.congr rfl

theorem ksm_setNode (u : Nat) (n : Nd) : KSM (setNode u n) := by
  intro m h
  unfold setNode
  simp only [bind, M.bind', M.get, M.assert]
  by_cases hb : (!m.pred.contains n.key) = true
  · simp only [hb, if_true, pure, M.pure', M.set]
    exact h.insert n u rfl
  · simp only [hb, if_false, M.throw]
    exact h

theorem ksm_lowHighLevel (u : Int) : KSM (lowHighLevel u) := by
  unfold lowHighLevel; repeat' ksm_step

theorem ksm_swapCofactor (u : Int) (y : Nat) : KSM (swapCofactor u y) := by
  unfold swapCofactor; repeat' ksm_step

theorem ksm_varAtLevel (i : Int) : KSM (varAtLevel i) := by
  unfold varAtLevel; repeat' ksm_step

theorem ksm_levelOfVar (v : String) : KSM (levelOfVar v) := by
  unfold levelOfVar; repeat' ksm_step

theorem ksm_popLevel (j : Nat) : ∀ l : List Nat, KSM (popLevel j l) := by
  intro l
  induction l with
  | nil => unfold popLevel; exact ksm_pure _
  | cons u rest ih => unfold popLevel; repeat' ksm_step

theorem ksm_moveUp (x y : Nat) : ∀ l : List (Nat × Int × Int), KSM (moveUp x y l) := by
  intro l
  induction l with
  | nil => unfold moveUp; exact ksm_pure _
  | cons p rest ih =>
    obtain ⟨u, v, w⟩ := p
    unfold moveUp
    repeat' ksm_step
    all_goals first | exact ksm_setNode _ _ | skip


/-- structural step with the lemmas of the swap primitives; splits pattern matches -/
macro "ksm_step2" : tactic => `(tactic| first
  | ksm_step
  | with_reducible exact ksm_setNode _ _ | with_reducible exact ksm_lowHighLevel _
  | with_reducible exact ksm_swapCofactor _ _ | with_reducible exact ksm_varAtLevel _
  | with_reducible exact ksm_levelOfVar _ | with_reducible exact ksm_popLevel _ _
  | with_reducible exact ksm_moveUp _ _ _ | with_reducible exact ksm_collectGarbage _
  | with_reducible exact ksm_takeSwapOrders _ _
  | split)

theorem ksm_moveIndep (x y : Nat) : ∀ l : List (Nat × Int × Int), KSM (moveIndep x y l) := by
  intro l
  induction l with
  | nil => unfold moveIndep; exact ksm_pure _
  | cons p rest ih =>
    obtain ⟨u, v, w⟩ := p
    unfold moveIndep
    repeat' ksm_step2

theorem ksm_depCofactors (v w : Int) (y : Nat) : KSM (depCofactors v w y) := by
  unfold depCofactors
  repeat' ksm_step2

theorem ksm_moveDepStep (x y u : Nat) (v w : Int) : KSM (moveDepStep x y u v w) := by
  unfold moveDepStep
  have := ksm_depCofactors v w y
  repeat' ksm_step2

theorem ksm_moveDep (x y : Nat) (done : List Nat) :
    ∀ l : List (Nat × Int × Int), KSM (moveDep x y done l) := by
  intro l
  induction l with
  | nil => unfold moveDep; exact ksm_pure _
  | cons p rest ih =>
    obtain ⟨u, v, w⟩ := p
    unfold moveDep
    have := ksm_moveDepStep x y u v w
    repeat' ksm_step2

theorem ksm_checkOld (m0 : Mgr) (ok : Nat → Bool) : ∀ l : List (Nat × Int × Int), KSM (checkOld m0 ok l) := by
  intro l
  induction l with
  | nil => unfold checkOld; exact ksm_pure _
  | cons p rest ih =>
    obtain ⟨u, v, w⟩ := p
    unfold checkOld
    repeat' ksm_step2

theorem ksm_checkFresh (m0 : Mgr) (y : Nat) : ∀ l : List Nat, KSM (checkFresh m0 y l) := by
  intro l
  induction l with
  | nil => unfold checkFresh; exact ksm_pure _
  | cons u rest ih => unfold checkFresh; repeat' ksm_step2

theorem ksm_checkNewLevels (x y : Nat) (lx ly : List (Nat × Int × Int)) (xf : List Nat) :
    KSM (checkNewLevels x y lx ly xf) := by
  unfold checkNewLevels
  refine ksm_bind ksm_get (fun m => ?_)
  refine ksm_bind (ksm_checkOld _ _ _) (fun _ => ?_)
  refine ksm_bind (ksm_checkFresh _ _ _) (fun _ => ?_)
  exact ksm_checkOld _ _ _

theorem ksm_swapNodes (x y : Nat) (ox oy : List Nat) : KSM (swapNodes x y ox oy) := by
  unfold swapNodes
  have h1 := ksm_moveIndep x y
  have h2 := ksm_moveDep x y
  refine ksm_bind (ksm_popLevel _ _) (fun lx => ?_)
  refine ksm_bind (ksm_popLevel _ _) (fun ly => ?_)
  refine ksm_bind (ksm_moveUp _ _ _) (fun _ => ?_)
  refine ksm_bind (h1 _) (fun done => ?_)
  refine ksm_bind (h2 _ _) (fun p => ?_)
  repeat' ksm_step2

theorem ksm_exchangeNames (x y : Nat) : KSM (exchangeNames x y) := by
  unfold exchangeNames
  repeat' ksm_step2

theorem ksm_swapWith (x y oldsize : Nat) (ox oy : List Nat) : KSM (swapWith x y oldsize ox oy) := by
  unfold swapWith
  refine ksm_bind (ksm_swapNodes _ _ _ _) (fun p => ?_)
  have := ksm_exchangeNames x y
  have h3 := ksm_checkNewLevels x y
  repeat' ksm_step2
  all_goals exact h3 _ _ _

theorem ksm_swapBody (x y : Nat) : KSM (swapBody x y) := by
  unfold swapBody
  have h := ksm_swapWith x y
  repeat' ksm_step2
  all_goals exact h _ _ _

theorem ksm_resolveVL (a : VarOrLevel) : KSM (resolveVL a) := by
  unfold resolveVL
  repeat' ksm_step2

theorem ksm_swap (xa ya : VarOrLevel) (given : Bool) : KSM (swap xa ya given) := by
  unfold swap
  have h1 := ksm_resolveVL
  have h2 := ksm_swapBody
  repeat' ksm_step2
  all_goals first | exact h1 _ | exact h2 _ _


/-! ### `_sort_to_order`, `_shift`, sifting -/

theorem ksm_checkRootsL (m0 : Mgr) : ∀ l : List Int, KSM (checkRootsL m0 l) := by
  intro l
  induction l with
  | nil => unfold checkRootsL; exact ksm_pure _
  | cons r rest ih => unfold checkRootsL; repeat' ksm_step2

theorem ksm_checkRoots : KSM checkRoots := by
  unfold checkRoots
  exact ksm_bind ksm_get (fun m => ksm_checkRootsL _ _)

theorem ksm_sortStep (order : List (String × Int)) (i : Nat) : KSM (sortStep order i) := by
  unfold sortStep
  have h1 := ksm_checkRoots
  have h2 := ksm_swap
  repeat' ksm_step2
  all_goals exact h2 _ _ _

theorem ksm_sortInner (order : List (String × Int)) : ∀ l : List Nat, KSM (sortInner order l) := by
  intro l
  induction l with
  | nil => unfold sortInner; exact ksm_pure _
  | cons i rest ih => unfold sortInner; exact ksm_bind (ksm_sortStep _ _) (fun _ => ih)

theorem ksm_sortOuter (order : List (String × Int)) (n : Nat) : ∀ k, KSM (sortOuter order n k) := by
  intro k
  induction k with
  | zero => unfold sortOuter; exact ksm_pure _
  | succ k ih => unfold sortOuter; exact ksm_bind (ksm_sortInner _ _) (fun _ => ih)

theorem ksm_sortToOrder (order : List (String × Int)) : KSM (sortToOrder order) := by
  unfold sortToOrder
  have h := ksm_sortOuter order
  repeat' ksm_step2
  all_goals exact h _ _

theorem ksm_shiftLoop : ∀ (f : Nat) (i e d : Int) (sizes : List (Nat × Nat)), KSM (shiftLoop f i e d sizes) := by
  intro f
  induction f with
  | zero => intro i e d sizes; unfold shiftLoop; repeat' ksm_step2
  | succ f ih =>
    intro i e d sizes
    unfold shiftLoop
    have h2 := ksm_swap
    repeat' ksm_step2
    all_goals first | exact h2 _ _ _ | exact ih _ _ _ _

theorem ksm_shift (s e : Nat) : KSM (shift s e) := by
  unfold shift
  have h := ksm_shiftLoop
  repeat' ksm_step2
  all_goals exact h _ _ _ _ _

theorem ksm_reorderVar (var : String) : KSM (reorderVar var) := by
  unfold reorderVar
  have h := ksm_shift
  repeat' ksm_step2
  all_goals first | exact h _ _ | skip

theorem ksm_takeSiftOrder : KSM takeSiftOrder := by
  intro m h
  unfold takeSiftOrder
  simp only [bind, M.bind', M.get]
  rcases hs : m.sched with _ | ⟨it, rest⟩
  · exact h
  · cases it with
    | swap lv => exact h
    | sift names =>
      simp only
      split <;> exact h.congr rfl

theorem ksm_siftVars : ∀ l : List String, KSM (siftVars l) := by
  intro l
  induction l with
  | nil => unfold siftVars; exact ksm_pure _
  | cons v rest ih => unfold siftVars; exact ksm_bind (ksm_reorderVar _) (fun _ => ih)

theorem ksm_applySifting : KSM applySifting := by
  unfold applySifting
  have h1 := ksm_takeSiftOrder
  have h2 := ksm_siftVars
  repeat' ksm_step2
  all_goals first | exact h2 _ | skip

theorem ksm_reorder (order : Option (List (String × Int))) : KSM (reorder order) := by
  unfold reorder
  cases order with
  | none => exact ksm_applySifting
  | some o => exact ksm_sortToOrder o

/-! ### the statements about `PredNodes` -/

theorem keeps_predNodes {α : Type} {x : M α} (hx : KSM x) (m : Mgr) (hp : PredNodes m)
    (hI : Inv (x m).2) : PredNodes (x m).2 :=
  (hx m hp.keysOK).predNodes hI

/-- `swap(x, y)`: whenever the resulting state satisfies the manager invariant (in particular
after every successful call, `C07_swap`), its unique table has no stray entries -/
theorem swap_predNodes (xa ya : VarOrLevel) (given : Bool) (m : Mgr) (hp : PredNodes m)
    (hI : Inv (swap xa ya given m).2) : PredNodes (swap xa ya given m).2 :=
  keeps_predNodes (ksm_swap xa ya given) m hp hI

theorem sortToOrder_predNodes (order : List (String × Int)) (m : Mgr) (hp : PredNodes m)
    (hI : Inv (sortToOrder order m).2) : PredNodes (sortToOrder order m).2 :=
  keeps_predNodes (ksm_sortToOrder order) m hp hI

theorem reorder_predNodes (order : Option (List (String × Int))) (m : Mgr) (hp : PredNodes m)
    (hI : Inv (reorder order m).2) : PredNodes (reorder order m).2 :=
  keeps_predNodes (ksm_reorder order) m hp hI

theorem collectGarbage_predNodes (roots : Option (List Int)) (m : Mgr) (hp : PredNodes m)
    (hI : Inv (collectGarbage roots m).2) : PredNodes (collectGarbage roots m).2 :=
  keeps_predNodes (ksm_collectGarbage roots) m hp hI

theorem applySifting_predNodes (m : Mgr) (hp : PredNodes m)
    (hI : Inv (applySifting m).2) : PredNodes (applySifting m).2 :=
  keeps_predNodes ksm_applySifting m hp hI


end DD
