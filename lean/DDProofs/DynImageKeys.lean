/-
  DDProofs.DynImageKeys — `image` / `preimage` under dynamic reordering with the renaming and the
  quantified variables given as ANY keys (names or LEVELS) that resolve to declared levels at the
  time of the call — the hypotheses of `C13_image` / `C13_preimage_partial`.  The wrapper
  `_image_args_by_name` turns such arguments into the names at those levels before the decorated
  body runs, so the call IS the call with these names (`image_keys_eq_names`), and the
  transparency theorems by name apply; the documented result is stated with the names the levels
  had when the call was made.
-/
import DDProofs.DynImageOps
open Std

namespace DD

/-- the names, in the order of `t`, of a renaming given by level pairs -/
def namePairs (t : Tbl) (pairs : List (Int × Int)) : List (String × String) :=
  pairs.map fun p => (t.nameOf p.1.toNat, t.nameOf p.2.toNat)

theorem resKey_idem (t : Tbl) (k : Key) : resKey t (resKey t k) = resKey t k := by
  cases k with
  | lvl i => rfl
  | name s =>
    cases hv : t.vars[s]? with
    | none => simp [resKey, hv]
    | some l => simp [resKey, hv]

/-- taking names is injective on resolved keys -/
theorem keyByName_inj_res (t : Tbl) (hV : VarsBij t) (k k' : Key)
    (h : keyByName t (resKey t k) = keyByName t (resKey t k')) : resKey t k = resKey t k' := by
  have h2 := congrArg (resKey t) h
  rw [resKey_keyByName t hV, resKey_keyByName t hV, resKey_idem, resKey_idem] at h2
  exact h2

/-- the renaming handed to the body is the resolved renaming, read by name -/
theorem renameByName_eq_map (t : Tbl) (hV : VarsBij t) (rn : List (Key × Key)) :
    renameByName t rn =
      (resolveRename t rn).map fun p => (keyByName t p.1, keyByName t p.2) := by
  rw [renameByName_eq, resolveRename_eq]
  have h1 : (rn.map fun p => (keyByName t p.1, keyByName t p.2)) =
      (rn.map fun p => (resKey t p.1, resKey t p.2)).map
        fun p => (keyByName t p.1, keyByName t p.2) := by
    rw [List.map_map]
    apply List.map_congr_left
    intro p _
    simp only [Function.comp, keyByName_resKey]
  rw [h1]
  apply renameDictOf_map_inj
  intro a ha b hb hab
  rw [List.map_map] at ha hb
  obtain ⟨p, _, rfl⟩ := List.mem_map.mp ha
  obtain ⟨p', _, rfl⟩ := List.mem_map.mp hb
  exact keyByName_inj_res t hV p.1 p'.1 hab

theorem keyByName_level {t : Tbl} (hO : OrderOK t) {i : Int} (h0 : 0 ≤ i) (hi : i < (t.nvars : Int)) :
    keyByName t (.lvl i) = .name (t.nameOf i.toNat) := by
  obtain ⟨v, hv⟩ := hO.total i.toNat (by omega)
  simp [keyByName, h0, hv, Tbl.nameOf]

/-- a renaming that resolves to pairs of declared levels is handed to the body as the pairs of
the names at these levels -/
theorem renameByName_levels {t : Tbl} (hO : OrderOK t) (rn : List (Key × Key))
    (hnl : renameNonLevel (resolveRename t rn) = false)
    (hlv : ∀ p, p ∈ intPairs (resolveRename t rn) →
      0 ≤ p.1 ∧ p.1 < (t.nvars : Int) ∧ 0 ≤ p.2 ∧ p.2 < (t.nvars : Int)) :
    renameByName t rn = (namePairs t (intPairs (resolveRename t rn))).map
      fun p => (Key.name p.1, Key.name p.2) := by
  rw [renameByName_eq_map t hO.varsBij]
  have hrn := eq_map_of_nonLevel _ hnl
  generalize intPairs (resolveRename t rn) = pairs at hlv hrn ⊢
  rw [hrn]
  unfold namePairs
  rw [List.map_map, List.map_map]
  apply List.map_congr_left
  intro p hp
  obtain ⟨h1, h2, h3, h4⟩ := hlv p hp
  simp only [Function.comp, keyByName_level hO h1 h2, keyByName_level hO h3 h4]

/-- `_image_args_by_name` on `qvars`, explicitly -/
theorem qvarsByName_eq (t : Tbl) (hV : VarsBij t) (qvars : List Key) (q : List Nat)
    (h : mapToLevelE t qvars = .ok q) :
    qvarsByName t qvars = .ok ((q.map t.nameOf).map Key.name) := by
  have hn := mapToLevelE_named t hV qvars q h
  unfold qvarsByName
  rw [h]
  simp only
  rw [List.map_map]
  apply mapME_ok
  intro j hj
  obtain ⟨nm, hnm⟩ := hn j hj
  simp [hnm, Tbl.nameOf]

/-- `image` on keys that resolve to declared levels is `image` on the names at these levels -/
theorem image_keys_eq_names (m : Mgr) (hO : OrderOK m.tbl) (trans source : Int)
    (rn : List (Key × Key)) (qvars : List Key) (fa : Bool) (q : List Nat)
    (hq : mapToLevelE m.tbl qvars = .ok q)
    (hnl : renameNonLevel (resolveRename m.tbl rn) = false)
    (hlv : ∀ p, p ∈ intPairs (resolveRename m.tbl rn) →
      0 ≤ p.1 ∧ p.1 < (m.nvars : Int) ∧ 0 ≤ p.2 ∧ p.2 < (m.nvars : Int)) :
    image trans source rn qvars fa m =
      tryToReorder (imageBody trans source
        ((namePairs m.tbl (intPairs (resolveRename m.tbl rn))).map
          fun p => (Key.name p.1, Key.name p.2))
        ((q.map m.tbl.nameOf).map Key.name) fa) m := by
  unfold image
  rw [qvarsByName_eq m.tbl hO.varsBij qvars q hq, renameByName_levels hO rn hnl hlv]

theorem preimage_keys_eq_names (m : Mgr) (hO : OrderOK m.tbl) (trans target : Int)
    (rn : List (Key × Key)) (qvars : List Key) (fa : Bool) (q : List Nat)
    (hq : mapToLevelE m.tbl qvars = .ok q)
    (hnl : renameNonLevel (resolveRename m.tbl rn) = false)
    (hlv : ∀ p, p ∈ intPairs (resolveRename m.tbl rn) →
      0 ≤ p.1 ∧ p.1 < (m.nvars : Int) ∧ 0 ≤ p.2 ∧ p.2 < (m.nvars : Int)) :
    preimage trans target rn qvars fa m =
      tryToReorder (preimageBody trans target
        ((namePairs m.tbl (intPairs (resolveRename m.tbl rn))).map
          fun p => (Key.name p.1, Key.name p.2))
        ((q.map m.tbl.nameOf).map Key.name) fa) m := by
  unfold preimage
  rw [qvarsByName_eq m.tbl hO.varsBij qvars q hq, renameByName_levels hO rn hnl hlv]

/-! ### the preconditions by level give the preconditions by name -/

theorem nameOf_inj {t : Tbl} (hO : OrderOK t) {i j : Nat} (hi : i < t.nvars) (hj : j < t.nvars)
    (h : t.nameOf i = t.nameOf j) : i = j := by
  have a := hO.lvlOf_nameOf hi
  have b := hO.lvlOf_nameOf hj
  rw [h] at a
  omega

theorem nameOf_declared {t : Tbl} (hO : OrderOK t) {i : Nat} (hi : i < t.nvars) :
    t.vars.contains (t.nameOf i) = true :=
  (vars_contains_iff t _).mpr ⟨i, hO.vars_nameOf hi⟩

/-- the keys of a resolved renaming are pairwise distinct (it is a dictionary) -/
theorem resolveRename_keys_nodup (t : Tbl) (rn : List (Key × Key)) :
    ((resolveRename t rn).map (·.1)).Nodup := by
  rw [resolveRename_eq, renameDictOf_keys]
  exact List.pairwise_reverse.mpr ((nodup_dedup _).imp fun hab => hab.symm)

/-- facts shared by `image` and `preimage`: the name pairs of a renaming that resolves to
declared levels -/
theorem namePairs_facts {t : Tbl} (hO : OrderOK t) (rn : List (Key × Key))
    (hnl : renameNonLevel (resolveRename t rn) = false)
    (hlv : ∀ p, p ∈ intPairs (resolveRename t rn) →
      0 ≤ p.1 ∧ p.1 < (t.nvars : Int) ∧ 0 ≤ p.2 ∧ p.2 < (t.nvars : Int)) :
    ((namePairs t (intPairs (resolveRename t rn))).map (·.1)).Nodup ∧
    (∀ x ∈ namePairs t (intPairs (resolveRename t rn)),
      t.vars.contains x.1 = true ∧ t.vars.contains x.2 = true) ∧
    (∀ x ∈ namePairs t (intPairs (resolveRename t rn)), ∃ p ∈ intPairs (resolveRename t rn),
      x = (t.nameOf p.1.toNat, t.nameOf p.2.toNat) ∧
      lvlOf t x.1 = p.1.toNat ∧ lvlOf t x.2 = p.2.toNat) := by
  have hkeys := resolveRename_keys_nodup t rn
  have hrn := eq_map_of_nonLevel _ hnl
  generalize intPairs (resolveRename t rn) = pairs at hlv hrn ⊢
  rw [hrn, List.map_map] at hkeys
  have hk1 : (pairs.map (·.1)).Nodup := by
    have : ((·.1) ∘ fun p : Int × Int => (Key.lvl p.1, Key.lvl p.2)) = Key.lvl ∘ (·.1) := by
      funext p; rfl
    rw [this, ← List.map_map, List.Nodup, List.pairwise_map] at hkeys
    exact hkeys.imp fun h he => h (by rw [he])
  refine ⟨?_, ?_, ?_⟩
  · unfold namePairs
    rw [List.map_map]
    rw [List.Nodup, List.pairwise_map]
    rw [List.Nodup, List.pairwise_map] at hk1
    refine hk1.imp_of_mem ?_
    intro a b ha hb hab he
    apply hab
    simp only [Function.comp] at he
    have := nameOf_inj hO (by have := hlv a ha; omega) (by have := hlv b hb; omega) he
    have h1 := (hlv a ha).1
    have h2 := (hlv b hb).1
    omega
  · intro x hx
    unfold namePairs at hx
    obtain ⟨p, hp, rfl⟩ := List.mem_map.mp hx
    have := hlv p hp
    exact ⟨nameOf_declared hO (by omega), nameOf_declared hO (by omega)⟩
  · intro x hx
    unfold namePairs at hx
    obtain ⟨p, hp, rfl⟩ := List.mem_map.mp hx
    have := hlv p hp
    exact ⟨p, hp, rfl, hO.lvlOf_nameOf (by omega), hO.lvlOf_nameOf (by omega)⟩

theorem mapToLevelE_lt {t : Tbl} (hO : OrderOK t) (qvars : List Key) (q : List Nat)
    (h : mapToLevelE t qvars = .ok q) : ∀ j ∈ q, j < t.nvars := by
  intro j hj
  obtain ⟨nm, hnm⟩ := mapToLevelE_named t hO.varsBij qvars q h j hj
  exact hO.lt nm j ((hO.inv nm j).mpr hnm)

/-- the hypotheses of `C13_image` give `ImagePre` for the names at the levels -/
theorem imagePre_of_levels (m : Mgr) (hI : Inv m) (hO : OrderOK m.tbl) (trans source : Int)
    (hu : m.tbl.Mem trans) (hv : m.tbl.Mem source) (rn : List (Key × Key)) (qvars : List Key)
    (q : List Nat) (hq : mapToLevelE m.tbl qvars = .ok q)
    (hov : renameOverlap (resolveRename m.tbl rn) = false)
    (hnl : renameNonLevel (resolveRename m.tbl rn) = false)
    (hlv : ∀ p, p ∈ intPairs (resolveRename m.tbl rn) →
      0 ≤ p.1 ∧ p.1 < (m.nvars : Int) ∧ 0 ≤ p.2 ∧ p.2 < (m.nvars : Int))
    (htg : ∀ p, p ∈ intPairs (resolveRename m.tbl rn) → ∀ l : Nat, p.2 = (l : Int) →
      l ∈ q ∨ (¬ dependsOn m.tbl trans l ∧ ¬ dependsOn m.tbl source l)) :
    ImagePre trans source (namePairs m.tbl (intPairs (resolveRename m.tbl rn)))
      (q.map m.tbl.nameOf) m.tbl := by
  have hW := hI.wf.toWF
  have hnv : m.nvars = m.tbl.nvars := rfl
  obtain ⟨hk, hd, hx⟩ := namePairs_facts hO rn hnl hlv
  have hqlt := mapToLevelE_lt hO qvars q hq
  have hov' : ∀ p p', p ∈ intPairs (resolveRename m.tbl rn) →
      p' ∈ intPairs (resolveRename m.tbl rn) → p.2 ≠ p'.1 := by
    have hrn := eq_map_of_nonLevel _ hnl
    rw [hrn] at hov
    exact (renameOverlap_lvls _).mp hov
  refine ⟨hk, hd, ?_, ?_, ?_⟩
  · intro s hs
    obtain ⟨j, hj, rfl⟩ := List.mem_map.mp hs
    exact nameOf_declared hO (hqlt j hj)
  · intro x x' hx1 hx2 he
    obtain ⟨p, hp, rfl, _, _⟩ := hx x hx1
    obtain ⟨p', hp', rfl, _, _⟩ := hx x' hx2
    simp only at he
    have h1 := hlv p hp
    have h2 := hlv p' hp'
    have := nameOf_inj hO (by omega) (by omega) he
    exact hov' p p' hp hp' (by omega)
  · intro x hx1
    obtain ⟨p, hp, rfl, _, e2⟩ := hx x hx1
    have h1 := hlv p hp
    simp only at e2 ⊢
    rcases htg p hp p.2.toNat (by omega) with h | ⟨ha, hb⟩
    · exact Or.inl (List.mem_map.mpr ⟨_, h, rfl⟩)
    · refine Or.inr ⟨fun hh => ha ?_, fun hh => hb ?_⟩
      · have := (dependsOnN_iff hW hO trans hu _ (nameOf_declared hO (by omega))).mp hh
        rwa [e2] at this
      · have := (dependsOnN_iff hW hO source hv _ (nameOf_declared hO (by omega))).mp hh
        rwa [e2] at this

/-- C09 for `image`, arguments as in `C13_image` (names or levels, resolving to declared levels
at the time of the call): the documented result, stated with the names the levels had -/
theorem image_keys_transparent (ext : Nat → Nat) (hS : SiftContract ext) (m : Mgr)
    (hD : DynInv ext m) (trans source : Int) (ht : HeldX ext trans) (hs : HeldX ext source)
    (fa : Bool) (rn : List (Key × Key)) (qvars : List Key) (q : List Nat)
    (hq : mapToLevelE m.tbl qvars = .ok q)
    (hov : renameOverlap (resolveRename m.tbl rn) = false)
    (hnl : renameNonLevel (resolveRename m.tbl rn) = false)
    (hlv : ∀ p, p ∈ intPairs (resolveRename m.tbl rn) →
      0 ≤ p.1 ∧ p.1 < (m.nvars : Int) ∧ 0 ≤ p.2 ∧ p.2 < (m.nvars : Int))
    (htg : ∀ p, p ∈ intPairs (resolveRename m.tbl rn) → ∀ l : Nat, p.2 = (l : Int) →
      l ∈ q ∨ (¬ dependsOn m.tbl trans l ∧ ¬ dependsOn m.tbl source l)) :
    ∃ r m', image trans source rn qvars fa m = (.ok r, m') ∧
      DynPostG ext (ImageDoc fa (q.map m.tbl.nameOf)
        (namePairs m.tbl (intPairs (resolveRename m.tbl rn))) trans source) m r m' := by
  have hpre := imagePre_of_levels m hD.inv hD.order trans source (ht.mem hD.refs) (hs.mem hD.refs)
    rn qvars q hq hov hnl hlv htg
  obtain ⟨r, m', he, hp⟩ := image_transparent ext hS m hD trans source ht hs fa _ _ hpre
  refine ⟨r, m', ?_, hp⟩
  rw [image_keys_eq_names m hD.order trans source rn qvars fa q hq hnl hlv,
    ← image_names_eq m rfl hD.order trans source fa _ _ hpre.keys hpre.decl hpre.qdecl]
  exact he

/-- the hypotheses of `C13_preimage_any_order` give `PreimagePreN` for the names at the levels -/
theorem preimagePreN_of_levels (m : Mgr) (hI : Inv m) (hO : OrderOK m.tbl) (target : Int)
    (hv : m.tbl.Mem target) (rn : List (Key × Key)) (qvars : List Key)
    (q : List Nat) (hq : mapToLevelE m.tbl qvars = .ok q)
    (hov : renameOverlap (resolveRename m.tbl rn) = false)
    (hnl : renameNonLevel (resolveRename m.tbl rn) = false)
    (hlv : ∀ p, p ∈ intPairs (resolveRename m.tbl rn) →
      0 ≤ p.1 ∧ p.1 < (m.nvars : Int) ∧ 0 ≤ p.2 ∧ p.2 < (m.nvars : Int))
    (hinj : ∀ p p', p ∈ intPairs (resolveRename m.tbl rn) →
      p' ∈ intPairs (resolveRename m.tbl rn) → p.2 = p'.2 → p.1 = p'.1)
    (hind : ∀ p, p ∈ intPairs (resolveRename m.tbl rn) → ∀ l : Nat, p.2 = (l : Int) →
      ¬ dependsOn m.tbl target l) :
    PreimagePreN target (namePairs m.tbl (intPairs (resolveRename m.tbl rn)))
      (q.map m.tbl.nameOf) m.tbl := by
  have hW := hI.wf.toWF
  have hnv : m.nvars = m.tbl.nvars := rfl
  obtain ⟨hk, hd, hx⟩ := namePairs_facts hO rn hnl hlv
  have hqlt := mapToLevelE_lt hO qvars q hq
  have hov' : ∀ p p', p ∈ intPairs (resolveRename m.tbl rn) →
      p' ∈ intPairs (resolveRename m.tbl rn) → p.2 ≠ p'.1 := by
    have hrn := eq_map_of_nonLevel _ hnl
    rw [hrn] at hov
    exact (renameOverlap_lvls _).mp hov
  refine ⟨hk, hd, ?_, ?_, ?_, ?_⟩
  · intro s hs
    obtain ⟨j, hj, rfl⟩ := List.mem_map.mp hs
    exact nameOf_declared hO (hqlt j hj)
  · intro x x' hx1 hx2 he
    obtain ⟨p, hp, rfl, _, _⟩ := hx x hx1
    obtain ⟨p', hp', rfl, _, _⟩ := hx x' hx2
    simp only at he
    have h1 := hlv p hp
    have h2 := hlv p' hp'
    have := nameOf_inj hO (by omega) (by omega) he
    exact hov' p p' hp hp' (by omega)
  · intro x x' hx1 hx2 he
    obtain ⟨p, hp, rfl, _, _⟩ := hx x hx1
    obtain ⟨p', hp', rfl, _, _⟩ := hx x' hx2
    simp only at he ⊢
    have h1 := hlv p hp
    have h2 := hlv p' hp'
    have := nameOf_inj hO (by omega) (by omega) he
    rw [hinj p p' hp hp' (by omega)]
  · intro x hx1 hh
    obtain ⟨p, hp, rfl, _, e2⟩ := hx x hx1
    have h1 := hlv p hp
    simp only at e2 hh
    have := (dependsOnN_iff hW hO target hv _ (nameOf_declared hO (by omega))).mp hh
    rw [e2] at this
    exact hind p hp p.2.toNat (by omega) this

/-- C09 for `preimage`, arguments as in `C13_preimage_any_order` (names or levels, resolving to
declared levels at the time of the call; no adjacency asked) -/
theorem preimage_keys_transparent (ext : Nat → Nat) (hS : SiftContract ext) (m : Mgr)
    (hD : DynInv ext m) (trans target : Int) (ht : HeldX ext trans) (hs : HeldX ext target)
    (fa : Bool) (rn : List (Key × Key)) (qvars : List Key) (q : List Nat)
    (hq : mapToLevelE m.tbl qvars = .ok q)
    (hov : renameOverlap (resolveRename m.tbl rn) = false)
    (hnl : renameNonLevel (resolveRename m.tbl rn) = false)
    (hlv : ∀ p, p ∈ intPairs (resolveRename m.tbl rn) →
      0 ≤ p.1 ∧ p.1 < (m.nvars : Int) ∧ 0 ≤ p.2 ∧ p.2 < (m.nvars : Int))
    (hinj : ∀ p p', p ∈ intPairs (resolveRename m.tbl rn) →
      p' ∈ intPairs (resolveRename m.tbl rn) → p.2 = p'.2 → p.1 = p'.1)
    (hind : ∀ p, p ∈ intPairs (resolveRename m.tbl rn) → ∀ l : Nat, p.2 = (l : Int) →
      ¬ dependsOn m.tbl target l) :
    ∃ r m', preimage trans target rn qvars fa m = (.ok r, m') ∧
      DynPostG ext (PreimageDoc fa (q.map m.tbl.nameOf)
        (namePairs m.tbl (intPairs (resolveRename m.tbl rn))) trans target) m r m' := by
  have hpre := preimagePreN_of_levels m hD.inv hD.order target (hs.mem hD.refs)
    rn qvars q hq hov hnl hlv hinj hind
  obtain ⟨r, m', he, hp⟩ := preimage_transparent ext hS m hD trans target ht hs fa _ _ hpre
  refine ⟨r, m', ?_, hp⟩
  rw [preimage_keys_eq_names m hD.order trans target rn qvars fa q hq hnl hlv,
    ← preimage_names_eq m rfl hD.order trans target fa _ _ hpre.keys hpre.decl hpre.qdecl]
  exact he

/-- the literal preconditions of `preimage` by level give `PreimagePreL` for the names at the
levels -/
theorem preimagePreL_of_levels (m : Mgr) (hO : OrderOK m.tbl) (rn : List (Key × Key))
    (qvars : List Key) (q : List Nat) (hq : mapToLevelE m.tbl qvars = .ok q)
    (hov : renameOverlap (resolveRename m.tbl rn) = false)
    (hnl : renameNonLevel (resolveRename m.tbl rn) = false)
    (hlv : ∀ p, p ∈ intPairs (resolveRename m.tbl rn) →
      0 ≤ p.1 ∧ p.1 < (m.nvars : Int) ∧ 0 ≤ p.2 ∧ p.2 < (m.nvars : Int)) :
    PreimagePreL (namePairs m.tbl (intPairs (resolveRename m.tbl rn))) (q.map m.tbl.nameOf)
      m.tbl := by
  have hnv : m.nvars = m.tbl.nvars := rfl
  obtain ⟨hk, hd, hx⟩ := namePairs_facts hO rn hnl hlv
  have hqlt := mapToLevelE_lt hO qvars q hq
  have hov' : ∀ p p', p ∈ intPairs (resolveRename m.tbl rn) →
      p' ∈ intPairs (resolveRename m.tbl rn) → p.2 ≠ p'.1 := by
    have hrn := eq_map_of_nonLevel _ hnl
    rw [hrn] at hov
    exact (renameOverlap_lvls _).mp hov
  refine ⟨hk, hd, ?_, ?_⟩
  · intro s hs
    obtain ⟨j, hj, rfl⟩ := List.mem_map.mp hs
    exact nameOf_declared hO (hqlt j hj)
  · intro x x' hx1 hx2 he
    obtain ⟨p, hp, rfl, _, _⟩ := hx x hx1
    obtain ⟨p', hp', rfl, _, _⟩ := hx x' hx2
    simp only at he
    have h1 := hlv p hp
    have h2 := hlv p' hp'
    have := nameOf_inj hO (by omega) (by omega) he
    exact hov' p p' hp hp' (by omega)

/-- C09 for `preimage` under its literal preconditions, keys as names or levels resolving to
declared levels at the time of the call: any order, any renaming, any target -/
theorem preimage_keys_literal_transparent (ext : Nat → Nat) (hS : SiftContract ext) (m : Mgr)
    (hD : DynInv ext m) (trans target : Int) (ht : HeldX ext trans) (hs : HeldX ext target)
    (fa : Bool) (rn : List (Key × Key)) (qvars : List Key) (q : List Nat)
    (hq : mapToLevelE m.tbl qvars = .ok q)
    (hov : renameOverlap (resolveRename m.tbl rn) = false)
    (hnl : renameNonLevel (resolveRename m.tbl rn) = false)
    (hlv : ∀ p, p ∈ intPairs (resolveRename m.tbl rn) →
      0 ≤ p.1 ∧ p.1 < (m.nvars : Int) ∧ 0 ≤ p.2 ∧ p.2 < (m.nvars : Int)) :
    ∃ r m', preimage trans target rn qvars fa m = (.ok r, m') ∧
      DynPostG ext (PreimageDoc fa (q.map m.tbl.nameOf)
        (namePairs m.tbl (intPairs (resolveRename m.tbl rn))) trans target) m r m' := by
  have hpre := preimagePreL_of_levels m hD.order rn qvars q hq hov hnl hlv
  obtain ⟨r, m', he, hp⟩ := preimage_literal_transparent ext hS m hD trans target ht hs fa _ _ hpre
  refine ⟨r, m', ?_, hp⟩
  rw [preimage_keys_eq_names m hD.order trans target rn qvars fa q hq hnl hlv,
    ← preimage_names_eq m rfl hD.order trans target fa _ _ hpre.keys hpre.decl hpre.qdecl]
  exact he

end DD
