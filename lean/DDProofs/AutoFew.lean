/-
  DDProofs.AutoFew — the decorated core operations in the mode `off = false` = EVERY
  configuration: dynamic reordering enabled or not, ANY number of declared variables, ARBITRARY
  arguments.  Three cases (main's `tryToReorder_step4` pattern):
    * at least two variables        : `*_total_dyn` (C17, DDProofs.DynRejected*);
    * reordering not enabled        : the theorems of the mode `off = true` (DDProofs.AutoCore);
    * enabled, fewer than two       : `tryToReorder_few` (DDProofs.Reach3) — a request that fires
      ends in the `ValueError` of sifting with reordering left DISABLED, in a state that satisfies
      the invariant for the same ledger and keeps every held reference.
  So the usual script start `b = autoref.BDD(); b.configure(reordering=True); b.declare(...)` is
  inside the mode.
-/
import DDProofs.AutoCore
import DDProofs.AutoImage
import DDProofs.ApiAutoProofs
import DDProofs.Reach3
import DDProofs.DynRejectedOps
import DDProofs.DynRejectedExpr
import DDProofs.ImageDynTotal
open Std

namespace DD

theorem AutoMInv.good3 {off : Bool} {ext : Nat → Nat} {m : Mgr} (h : AutoMInv off ext m) : Good3 m ext :=
  ⟨h.inv, h.order, h.counts, h.ctx, h.sched, h.roots⟩

theorem Good3.autoMInv {ext : Nat → Nat} {m : Mgr} (h : Good3 m ext) : AutoMInv false ext m :=
  ⟨h.inv, h.order, h.exact, h.ctx, h.sched, h.roots, fun h => nomatch h⟩

/-- with two variables: the state the C09 / C17 theorems about the decorator start from -/
theorem AutoMInv.dynInv {off : Bool} {ext : Nat → Nat} {m : Mgr} (h : AutoMInv off ext m)
    (h2 : 2 ≤ m.nvars) : DynInv ext m :=
  ⟨h.inv, h.order, h.counts, h.ctx, h.sched, (fun r hr => by rw [h.roots] at hr; cases hr), h2⟩

/-- the three sources of `CoreKeeps false` -/
theorem coreKeeps_false_of3 {α : Type} {op : M α}
    (hdyn : ∀ (ext : Nat → Nat) (m : Mgr), DynInv ext m → DynTotal ext m (op m))
    (hoff : CoreKeeps true op)
    (hfew : ∀ (ext : Nat → Nat) (m : Mgr), Good3 m ext → m.nvars < 2 → Few3 m ext (op m)) :
    CoreKeeps false op := by
  refine ⟨fun m ext hm r m' he => ?_⟩
  by_cases h2 : 2 ≤ m.nvars
  · obtain ⟨_, hk⟩ := hdyn ext m (hm.dynInv h2)
    rw [he] at hk
    exact ⟨⟨hk.inv.inv, hk.inv.order, hk.inv.refs, hk.inv.ctx, hk.inv.sched,
      by rw [hk.roots]; exact hm.roots, fun h => nomatch h⟩, fun u _ hpos => hk.held u (Or.inr hpos)⟩
  · by_cases ho : m.lastLen = none
    · have hmT : AutoMInv true ext m :=
        ⟨hm.inv, hm.order, hm.counts, hm.ctx, hm.sched, hm.roots, fun _ => ho⟩
      obtain ⟨h1, h3⟩ := hoff.keeps m ext hmT r m' he
      exact ⟨⟨h1.inv, h1.order, h1.counts, h1.ctx, h1.sched, h1.roots, fun h => nomatch h⟩, h3⟩
    · have hf := hfew ext m hm.good3 (by omega)
      rw [he] at hf
      exact ⟨hf.1.autoMInv, fun u _ hpos => hf.2.1 u hpos⟩

theorem ite_keepsDyn (g u v : Int) : CoreKeeps false (ite g u v) :=
  coreKeeps_false_of3 (fun ext m hD => ite_total_dyn ext (siftContract ext) m hD g u v)
    (ite_keepsOff g u v)
    (fun ext m h hfew => tryToReorder_few ext _ (fun m0 hI _ _ => iteRaw_totE m0 hI g u v) m h hfew)

theorem apply_keepsDyn (op : String) (u : Int) (v w : Option Int) : CoreKeeps false (apply op u v w) :=
  coreKeeps_false_of3 (fun ext m hD => apply_total_dyn ext (siftContract ext) m hD op u v w)
    (apply_keepsOff op u v w) (fun ext m h hfew => apply_few ext m h hfew op u v w)

theorem var_keepsDyn (name : String) : CoreKeeps false (var name) :=
  coreKeeps_false_of3 (fun ext m hD => var_total_dyn ext (siftContract ext) m hD name)
    (var_keepsOff name)
    (fun ext m h hfew => by
      rw [var_eq]
      exact tryToReorder_few ext _ (fun m0 hI _ _ => varBody_totE m0 hI name) m h hfew)

theorem quantify_keepsDyn (u : Int) (q : List Key) (fa : Bool) : CoreKeeps false (quantify u q fa) :=
  coreKeeps_false_of3 (fun ext m hD => quantify_total_dyn ext (siftContract ext) m hD u q fa)
    (quantify_keepsOff u q fa)
    (fun ext m h hfew => tryToReorder_few ext (quantifyBody u q fa)
      (fun m0 hI hc _ => quantifyBody_totE m0 hI hc u q fa) m h hfew)

theorem letOp_keepsDyn (d : LetArg) (u : Int) : CoreKeeps false (letOp d u) :=
  coreKeeps_false_of3 (fun ext m hD => letOp_total_dyn ext (siftContract ext) m hD d u)
    (letOp_keepsOff d u)
    (fun ext m h hfew => by
      unfold letOp
      split
      · exact Few3.same h _ (by simp)
      · exact Few3.same h _ (by simp)
      · exact Few3.same h _ (by simp)
      · exact tryToReorder_few ext (cofactorBody u _)
          (fun m0 hI _ _ => cofactorBody_totE m0 hI u _) m h hfew
      · exact tryToReorder_few ext (composeBody u _)
          (fun m0 hI hc _ => composeBody_totE m0 hI hc u _) m h hfew
      · exact tryToReorder_few ext (renameBody u _)
          (fun m0 hI hc _ => renameBody_totE m0 hI hc u _) m h hfew)

theorem cube_keepsDyn (d : List (String × Bool)) : CoreKeeps false (cube d) :=
  coreKeeps_false_of3 (fun ext m hD => cube_total_dyn ext (siftContract ext) m hD d)
    (cube_keepsOff d)
    (fun ext m h hfew => by
      rw [cube_eq]
      exact tryToReorder_few ext _ (fun m0 hI hc _ => cubeBody_totE m0 hI hc d) m h hfew)

theorem copyBdd_keepsAllOff (src : Tbl) (u : Int) : CoreKeeps true (copyBdd src u) := by
  refine ⟨fun m ext hm r m' he => ?_⟩
  obtain ⟨_, hk, hrk⟩ := tryToReorder_total_off (copyBddBody src u)
    (fun m0 hI hc => copyBddBody_totE src m0 hI hc u) m hm.inv (hm.mode rfl)
  have e : (copyBdd src u m).2 = m' := by rw [he]
  have hk' : Kept m m' := by rw [← e]; exact hk
  have hrk' : RefKeep m m' := by rw [← e]; exact hrk
  exact ⟨hm.of_kept hk' (hrk' ext hm.counts).1, heldExt_of_kept hm.inv hk' ext⟩

theorem copyBdd_keepsDyn (src : Tbl) (u : Int) : CoreKeeps false (copyBdd src u) :=
  coreKeeps_false_of3 (fun ext m hD => copyBdd_total_dyn ext (siftContract ext) m hD src u)
    (copyBdd_keepsAllOff src u)
    (fun ext m h hfew => tryToReorder_few ext (copyBddBody src u)
      (fun m0 hI hc _ => copyBddBody_totE src m0 hI hc u) m h hfew)

theorem addExpr_keepsDyn (s : String) : CoreKeeps false (addExpr s) :=
  coreKeeps_false_of3 (fun ext m hD => addExpr_total_dyn ext (siftContract ext) m hD s)
    (addExpr_keepsOff s)
    (fun ext m h hfew => tryToReorder_few ext (addExprToks (tokenize s))
      (fun m0 hI hc _ => addExprToks_totE (tokenize s) m0 hI hc) m h hfew)

theorem image_keepsDyn (t s : Int) (rn : List (Key × Key)) (q : List Key) (fa : Bool) :
    CoreKeeps false (image t s rn q fa) :=
  coreKeeps_false_of3
    (fun ext m hD => image_total_dyn ext (siftContract ext) m hD t s rn q fa)
    (image_keepsOff t s rn q fa)
    (fun ext m h hfew => by
      unfold image
      cases hq : qvarsByName m.tbl q with
      | error e => exact Few3.same h _ (fun he => qvarsByName_noNR m.tbl q (by rw [hq]; simpa using he))
      | ok qn =>
        exact tryToReorder_few ext _ (fun m0 hI hc _ => imageBody_totE t s _ qn fa m0 hI hc) m h hfew)

theorem preimage_keepsDyn (t s : Int) (rn : List (Key × Key)) (q : List Key) (fa : Bool) :
    CoreKeeps false (preimage t s rn q fa) :=
  coreKeeps_false_of3
    (fun ext m hD => preimage_total_dyn ext (siftContract ext) m hD t s rn q fa)
    (preimage_keepsOff t s rn q fa)
    (fun ext m h hfew => by
      unfold preimage
      cases hq : qvarsByName m.tbl q with
      | error e => exact Few3.same h _ (fun he => qvarsByName_noNR m.tbl q (by rw [hq]; simpa using he))
      | ok qn =>
        exact tryToReorder_few ext _ (fun m0 hI hc _ => preimageBody_totE t s _ qn fa m0 hI hc) m h hfew)

end DD
