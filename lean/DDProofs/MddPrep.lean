/-
  DDProofs.MddPrep — the first part of `bdd_to_mdd` (`b2mPrepare`: target bit order,
  `collect_garbage`, `reorder(bdd, order)`, zones, selection of the zone-entry nodes):
  for a proper `dvars` it leaves the bits in zones (`ZoneOK`), keeps the reordering invariant
  `ReorderInv` and the meaning (by variable names) of every held reference.
  Uses `collectGarbage_spec` (C06) and `sortToOrder_exact` (C07).
-/
import DDProofs.MddPrepLists
import DDProofs.SwapDrivers
import DDProofs.GcSpec
open Std

namespace DD

theorem orderOK_congr {t t' : Tbl} (h : OrderOK t) (hv : t'.vars = t.vars) (hl : t'.l2v = t.l2v) :
    OrderOK t' := by
  have hn : t'.nvars = t.nvars := by unfold Tbl.nvars; rw [hv]
  refine ⟨?_, ?_, ?_⟩
  · intro v i; rw [hv, hl]; exact h.inv v i
  · intro v i; rw [hv, hn]; exact h.lt v i
  · intro i; rw [hn, hl]; exact h.total i

theorem keys_mem_iff (t : Tbl) (v : String) : v ∈ t.vars.keys ↔ t.vars.contains v = true := by
  rw [TreeMap.mem_keys, TreeMap.mem_iff_contains]

/-- what the preparation establishes -/
structure PrepOK (ext : Nat → Nat) (dvars : List MVar) (mb : Mgr) (p : B2MPrep) (m2 : Mgr) : Prop where
  btv : p.bitToVar = b2mBitToVar dvars
  tbl : p.tbl = m2.tbl
  inv : ReorderInv ext m2
  zone : ZoneOK dvars m2.tbl
  /-- held references keep their meaning as functions of the variable names -/
  held : ∀ u : Nat, 0 < ext u → m2.tbl.Mem (u : Int) ∧
    ∀ a, denN m2.tbl (u : Int) a = denN mb.tbl (u : Int) a
  names : ∀ v : String, m2.tbl.vars.contains v = mb.tbl.vars.contains v

/-- facts about the target order -/
structure OrderFacts (mb : Mgr) (dvars : List MVar) (order : List String) (sorted : List MVar) : Prop where
  is_ : OrderIs dvars order sorted
  nd : order.Nodup
  len : order.length = mb.nvars
  mem : ∀ v, v ∈ order ↔ mb.tbl.vars.contains v = true

theorem orderFacts {mb : Mgr} {dvars : List MVar} (hd : DvarsOK mb.tbl dvars) (order : List String)
    (hord : b2mOrder dvars = .ok order) : ∃ sorted, OrderFacts mb dvars order sorted := by
  obtain ⟨sorted, hS⟩ := b2mOrder_spec hd order hord
  have hperm : order.Perm mb.tbl.vars.keys := by
    rw [hS.eq]
    exact (hS.perm.flatMap_right _).trans hd.bits
  refine ⟨sorted, hS, hperm.nodup_iff.mpr TreeMap.nodup_keys, ?_, ?_⟩
  · rw [hperm.length_eq, TreeMap.length_keys]; rfl
  · intro v; rw [hperm.mem_iff, keys_mem_iff]

/-- after the collection: the reordering invariant, the requested order is a proper request, held
references keep their meaning -/
theorem prep_gc (ext : Nat → Nat) (mb : Mgr) (h : ReorderInv ext mb) (dvars : List MVar)
    (order : List String) (sorted : List MVar) (hO : OrderFacts mb dvars order sorted)
    (m1 : Mgr) (hG : GcFullPost mb ext m1) :
    ReorderInv ext m1 ∧ (∀ k : Nat, m1.ref[k]? ≠ some 0) ∧ ReqOrder (b2mOrderDict order) m1 ∧
    m1.nvars = mb.nvars ∧
    m1.tbl.vars = mb.tbl.vars ∧ m1.sched = mb.sched ∧
    ∀ u : Nat, 0 < ext u → ∀ a, denN m1.tbl (u : Int) a = denN mb.tbl (u : Int) a := by
  have hsub := hG.sub
  have hnd := hO.nd
  have hI1 : ReorderInv ext m1 := by
    refine ⟨hG.inv, orderOK_congr h.order hsub.vars hsub.l2v, hG.refExact, ?_, ?_⟩
    · rw [hsub.ctx, hsub.lastLen]; exact h.off
    · rw [hsub.roots]; exact h.rootsHeld
  have hnv1 : m1.nvars = mb.nvars := by
    show m1.tbl.vars.size = mb.tbl.vars.size
    rw [hsub.vars]
  refine ⟨hI1, hG.noZero, ?_, hnv1, hsub.vars, hsub.sched, ?_⟩
  · refine ⟨?_, ?_, ?_, ?_⟩
    · rw [orderDict_length order hnd, hO.len, hnv1]
    · intro i hi
      obtain ⟨v, hv⟩ := hI1.order.total i hi
      have hdecl : mb.tbl.vars.contains v = true := by
        rw [← hsub.vars]
        exact (vars_contains_iff m1.tbl v).mpr ⟨i, (hI1.order.inv v i).mpr hv⟩
      obtain ⟨k, hk, hkv⟩ := List.getElem_of_mem ((hO.mem v).mpr hdecl)
      exact ⟨v, ((k : Nat) : Int), hv, by rw [← hkv]; exact orderDict_lookup order hnd k hk⟩
    · intro v p hl
      obtain ⟨k, hk, _, hp⟩ := orderDict_lookup_some order hnd v p hl
      subst hp
      constructor
      · omega
      · have : k < m1.nvars := by rw [hnv1, ← hO.len]; exact hk
        exact_mod_cast this
    · intro v v' p h1 h2
      obtain ⟨k, hk, hkv, hp⟩ := orderDict_lookup_some order hnd v p h1
      obtain ⟨k', hk', hkv', hp'⟩ := orderDict_lookup_some order hnd v' p h2
      have : k = k' := by omega
      subst this
      rw [← hkv, ← hkv']
  · intro u hu a
    have hm1 : m1.tbl.Mem (u : Int) := hI1.held_mem hu
    unfold denN
    rw [den_ext hsub.ext hG.inv.wf.toWF (u : Int) _ hm1, lift_congr hsub.l2v]

/-- after the reordering: the bits are in zones, every bit sits at its position of the order -/
theorem prep_zone (ext : Nat → Nat) (mb : Mgr) (dvars : List MVar) (hd : DvarsOK mb.tbl dvars)
    (order : List String) (sorted : List MVar) (hO : OrderFacts mb dvars order sorted)
    (m1 m2 : Mgr) (hv1 : m1.tbl.vars = mb.tbl.vars) (hnv1 : m1.nvars = mb.nvars)
    (hI2 : ReorderInv ext m2) (hR : ReorderRel ext m1 m2) (hnv2 : m2.nvars = m1.nvars)
    (hpos : ∀ v p, (b2mOrderDict order).lookup v = some p → m1.tbl.vars.contains v = true →
      m2.tbl.vars[v]? = some p.toNat ∧ m2.tbl.l2v[p.toNat]? = some v) :
    ZoneOK dvars m2.tbl ∧
    (∀ v : String, m2.tbl.vars.contains v = mb.tbl.vars.contains v) ∧
    (∀ k (hk : k < order.length),
      m2.tbl.vars[order[k]]? = some k ∧ m2.tbl.l2v[k]? = some order[k]) := by
  have hS := hO.is_
  have hnd := hO.nd
  have hposk : ∀ k (hk : k < order.length),
      m2.tbl.vars[order[k]]? = some k ∧ m2.tbl.l2v[k]? = some order[k] := by
    intro k hk
    have hdecl : m1.tbl.vars.contains order[k] = true := by
      rw [hv1]; exact (hO.mem _).mp (List.getElem_mem hk)
    have := hpos order[k] ((k : Nat) : Int) (orderDict_lookup order hnd k hk) hdecl
    simpa using this
  have hnvo : m2.tbl.nvars = order.length := by
    show m2.nvars = _
    rw [hnv2, hnv1, hO.len]
  have hflat : order = (sorted.map (·.bits)).flatten := by
    rw [hS.eq, List.flatMap_def]
  have hblock : ∀ ℓ (hℓ : ℓ < order.length),
      ∃ (hj : blockOf (sorted.map (·.bits)) ℓ < sorted.length),
        order[ℓ] ∈ (sorted[blockOf (sorted.map (·.bits)) ℓ]).bits := by
    intro ℓ hℓ
    have hℓ' : ℓ < (sorted.map (·.bits)).flatten.length := by rw [← hflat]; exact hℓ
    obtain ⟨hj, hm⟩ := blockOf_spec (sorted.map (·.bits)) ℓ hℓ'
    have hj' : blockOf (sorted.map (·.bits)) ℓ < sorted.length := by simpa using hj
    refine ⟨hj', ?_⟩
    have e : order[ℓ] = (sorted.map (·.bits)).flatten[ℓ] := by
      congr 1 <;> first | exact hflat | skip
    rw [e]
    simpa using hm
  have hbnd := hd.bits_nodup
  have hzl : ∀ ℓ (hℓ : ℓ < order.length),
      zoneLevel dvars m2.tbl ℓ = blockOf (sorted.map (·.bits)) ℓ := by
    intro ℓ hℓ
    obtain ⟨hj, hbm⟩ := hblock ℓ hℓ
    obtain ⟨hdm, hlv⟩ := hS.at_ _ hj
    unfold zoneLevel
    rw [(hposk ℓ hℓ).2]
    simp only
    rw [btv_uniq hbnd hdm hbm]
    exact hlv
  have hnames : ∀ v : String, m2.tbl.vars.contains v = mb.tbl.vars.contains v := by
    intro v; rw [hR.names v, hv1]
  refine ⟨⟨hI2.order, ?_, ?_, ?_, ?_, ?_, ?_, ?_⟩, hnames, hposk⟩
  · intro ℓ hℓ
    rw [hnvo] at hℓ
    obtain ⟨hj, hbm⟩ := hblock ℓ hℓ
    obtain ⟨hdm, _⟩ := hS.at_ _ hj
    exact ⟨order[ℓ], _, (hposk ℓ hℓ).2, btv_uniq hbnd hdm hbm, hdm, hbm⟩
  · intro a b hab hb
    rw [hnvo] at hb
    rw [hzl a (by omega), hzl b hb]
    exact blockOf_mono _ a b hab
  · intro d hdm b hb
    rw [hnames, ← keys_mem_iff, ← hd.bits.mem_iff, List.mem_flatMap]
    exact ⟨d, hdm, hb⟩
  · intro d hdm b hb; exact btv_uniq hbnd hdm hb
  · exact bits_nodup_of_flatMap hbnd
  · intro d hdm; exact hd.level_lt hdm
  · exact hd.level_inj

theorem b2mPrepare_spec (ext : Nat → Nat) (mb : Mgr) (h : ReorderInv ext mb)
    (dvars : List MVar) (hd : DvarsOK mb.tbl dvars) (p : B2MPrep) (m2 : Mgr)
    (hr : b2mPrepare dvars mb = (.ok p, m2)) : PrepOK ext dvars mb p m2 := by
  unfold b2mPrepare at hr
  split at hr
  · cases hr
  · next order hord =>
    obtain ⟨sorted, hO⟩ := orderFacts hd order hord
    obtain ⟨m1, hgc, hG⟩ := collectGarbage_spec mb ext h.inv h.refExact
    rw [hgc] at hr
    simp only at hr
    obtain ⟨hI1, _, hreq, hnv1, hv1, _, hheld1⟩ := prep_gc ext mb h dvars order sorted hO m1 hG
    have hsort := sortToOrder_exact (swapOK ext) (b2mOrderDict order) m1 hI1 hreq
    have hre : reorder (some (b2mOrderDict order)) m1 = sortToOrder (b2mOrderDict order) m1 := rfl
    rw [hre] at hr
    split at hr
    · cases hr
    · next m2' hso =>
      rw [hso] at hsort
      obtain ⟨hI2, hR, hnv2, hpos⟩ := hsort
      obtain ⟨hz, hnames, _⟩ := prep_zone ext mb dvars hd order sorted hO m1 m2' hv1 hnv1 hI2 hR hnv2 hpos
      split at hr
      · cases hr
      · next zones hzones =>
        split at hr
        · cases hr
        · split at hr
          · cases hr
          · next rm hrm =>
            simp only [Prod.mk.injEq, Except.ok.injEq] at hr
            obtain ⟨hp, hm⟩ := hr
            subst hp hm
            refine ⟨rfl, rfl, hI2, hz, ?_, hnames⟩
            intro u hu
            refine ⟨hI2.held_mem hu, ?_⟩
            intro a
            rw [hR.held u hu a, hheld1 u hu a]

end DD
