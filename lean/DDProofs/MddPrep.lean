/-
  DDProofs.MddPrep — the first part of `bdd_to_mdd` (`b2mPrepare`: target bit order,
  `collect_garbage`, `reorder(bdd, order)`, zones, selection of the zone-entry nodes):
  for a proper `dvars` it leaves the bits in zones (`ZoneOK`), keeps the reordering invariant
  `ReorderInv` and the meaning (by variable names) of every held reference.
  Uses `collectGarbage_spec` (C06) and `sortToOrder_exact` (C07).
-/
import DDProofs.MddPrepLists
import DDProofs.SwapDrivers
import DDProofs.GcSpec
open Std

namespace DD

theorem orderOK_congr {t t' : Tbl} (h : OrderOK t) (hv : t'.vars = t.vars) (hl : t'.l2v = t.l2v) :
    OrderOK t' := by
  have hn : t'.nvars = t.nvars := by unfold Tbl.nvars; rw [hv]
  refine ⟨?_, ?_, ?_⟩
  · intro v i; rw [hv, hl]; exact h.inv v i
  · intro v i; rw [hv, hn]; exact h.lt v i
  · intro i; rw [hn, hl]; exact h.total i

theorem keys_mem_iff (t : Tbl) (v : String) : v ∈ t.vars.keys ↔ t.vars.contains v = true := by
  rw [TreeMap.mem_keys, TreeMap.mem_iff_contains]

/-- what the preparation establishes -/
structure PrepOK (ext : Nat → Nat) (dvars : List MVar) (mb : Mgr) (p : B2MPrep) (m2 : Mgr) : Prop where
  btv : p.bitToVar = b2mBitToVar dvars
  tbl : p.tbl = m2.tbl
  inv : ReorderInv ext m2
  zone : ZoneOK dvars m2.tbl
  /-- held references keep their meaning as functions of the variable names -/
  held : ∀ u : Nat, 0 < ext u → m2.tbl.Mem (u : Int) ∧
    ∀ a, denN m2.tbl (u : Int) a = denN mb.tbl (u : Int) a
  names : ∀ v : String, m2.tbl.vars.contains v = mb.tbl.vars.contains v

theorem b2mPrepare_spec (ext : Nat → Nat) (mb : Mgr) (h : ReorderInv ext mb)
    (dvars : List MVar) (hd : DvarsOK mb.tbl dvars) (p : B2MPrep) (m2 : Mgr)
    (hr : b2mPrepare dvars mb = (.ok p, m2)) : PrepOK ext dvars mb p m2 := by
  unfold b2mPrepare at hr
  split at hr
  · cases hr
  · next order hord =>
    obtain ⟨sorted, hS⟩ := b2mOrder_spec hd order hord
    -- the order: a permutation of the declared variables
    have hperm : order.Perm mb.tbl.vars.keys := by
      rw [hS.eq]
      exact (hS.perm.flatMap_right _).trans hd.bits
    have hnd : order.Nodup := hperm.nodup_iff.mpr TreeMap.nodup_keys
    have hlen : order.length = mb.nvars := by
      rw [hperm.length_eq, TreeMap.length_keys]; rfl
    have hmem : ∀ v, v ∈ order ↔ mb.tbl.vars.contains v = true := by
      intro v; rw [hperm.mem_iff, keys_mem_iff]
    -- collection
    obtain ⟨m1, hgc, hG⟩ := collectGarbage_spec mb ext h.inv h.refExact
    rw [hgc] at hr
    simp only at hr
    have hsub := hG.sub
    have hI1 : ReorderInv ext m1 := by
      refine ⟨hG.inv, orderOK_congr h.order hsub.vars hsub.l2v, hG.refExact, ?_, ?_⟩
      · rw [hsub.ctx, hsub.lastLen]; exact h.off
      · rw [hsub.roots]; exact h.rootsHeld
    have hnv1 : m1.nvars = mb.nvars := by
      show m1.tbl.vars.size = mb.tbl.vars.size
      rw [hsub.vars]
    have hheld1 : ∀ u : Nat, 0 < ext u → ∀ a, denN m1.tbl (u : Int) a = denN mb.tbl (u : Int) a := by
      intro u hu a
      have hm1 : m1.tbl.Mem (u : Int) := hI1.held_mem hu
      unfold denN
      rw [den_ext hsub.ext hG.inv.wf.toWF (u : Int) _ hm1, lift_congr hsub.l2v]
    -- the requested order
    have hreq : ReqOrder (b2mOrderDict order) m1 := by
      refine ⟨?_, ?_, ?_, ?_⟩
      · rw [orderDict_length order hnd, hlen, hnv1]
      · intro i hi
        obtain ⟨v, hv⟩ := hI1.order.total i hi
        have hdecl : mb.tbl.vars.contains v = true := by
          rw [← hsub.vars]
          exact (vars_contains_iff m1.tbl v).mpr ⟨i, (hI1.order.inv v i).mpr hv⟩
        obtain ⟨k, hk, hkv⟩ := List.getElem_of_mem ((hmem v).mpr hdecl)
        exact ⟨v, ((k : Nat) : Int), hv, by rw [← hkv]; exact orderDict_lookup order hnd k hk⟩
      · intro v p hl
        obtain ⟨k, hk, _, hp⟩ := orderDict_lookup_some order hnd v p hl
        subst hp
        constructor
        · omega
        · have : k < m1.nvars := by rw [hnv1, ← hlen]; exact hk
          exact_mod_cast this
      · intro v v' p h1 h2
        obtain ⟨k, hk, hkv, hp⟩ := orderDict_lookup_some order hnd v p h1
        obtain ⟨k', hk', hkv', hp'⟩ := orderDict_lookup_some order hnd v' p h2
        have : k = k' := by omega
        subst this
        rw [← hkv, ← hkv']
    have hsort := sortToOrder_exact (swapOK ext) (b2mOrderDict order) m1 hI1 hreq
    have hre : reorder (some (b2mOrderDict order)) m1 = sortToOrder (b2mOrderDict order) m1 := rfl
    rw [hre] at hr
    split at hr
    · cases hr
    · next m2' hso =>
      rw [hso] at hsort
      obtain ⟨hI2, hR, hnv2, hpos⟩ := hsort
      split at hr
      · cases hr
      · next zones hzones =>
        split at hr
        · cases hr
        · split at hr
          · cases hr
          · next rm hrm =>
            simp only [Prod.mk.injEq, Except.ok.injEq] at hr
            obtain ⟨hp, hm⟩ := hr
            subst hp hm
            -- positions after the reordering
            have hposk : ∀ k (hk : k < order.length),
                m2'.tbl.vars[order[k]]? = some k ∧ m2'.tbl.l2v[k]? = some order[k] := by
              intro k hk
              have hdecl : m1.tbl.vars.contains order[k] = true := by
                rw [hsub.vars]; exact (hmem _).mp (List.getElem_mem hk)
              have := hpos order[k] ((k : Nat) : Int) (orderDict_lookup order hnd k hk) hdecl
              simpa using this
            have hnvo : m2'.tbl.nvars = order.length := by
              show m2'.nvars = _
              rw [hnv2, hnv1, hlen]
            have hflat : order = (sorted.map (·.bits)).flatten := by
              rw [hS.eq, List.flatMap_def]
            -- the zone of a level
            have hblock : ∀ ℓ (hℓ : ℓ < order.length),
                ∃ (hj : blockOf (sorted.map (·.bits)) ℓ < sorted.length),
                  order[ℓ] ∈ (sorted[blockOf (sorted.map (·.bits)) ℓ]).bits := by
              intro ℓ hℓ
              have hℓ' : ℓ < (sorted.map (·.bits)).flatten.length := by rw [← hflat]; exact hℓ
              obtain ⟨hj, hm⟩ := blockOf_spec (sorted.map (·.bits)) ℓ hℓ'
              have hj' : blockOf (sorted.map (·.bits)) ℓ < sorted.length := by simpa using hj
              refine ⟨hj', ?_⟩
              have e : order[ℓ] = (sorted.map (·.bits)).flatten[ℓ] := by
                congr 1 <;> first | exact hflat | skip
              rw [e]
              simpa using hm
            have hbnd := hd.bits_nodup
            have hzl : ∀ ℓ (hℓ : ℓ < order.length),
                zoneLevel dvars m2'.tbl ℓ = blockOf (sorted.map (·.bits)) ℓ := by
              intro ℓ hℓ
              obtain ⟨hj, hbm⟩ := hblock ℓ hℓ
              obtain ⟨hdm, hlv⟩ := hS.at_ _ hj
              unfold zoneLevel
              rw [(hposk ℓ hℓ).2]
              simp only
              rw [btv_uniq hbnd hdm hbm]
              exact hlv
            have hnames : ∀ v : String, m2'.tbl.vars.contains v = mb.tbl.vars.contains v := by
              intro v; rw [hR.names v, hsub.vars]
            refine ⟨rfl, rfl, hI2, ?_, ?_, hnames⟩
            · refine ⟨hI2.order, ?_, ?_, ?_, ?_, ?_, ?_, ?_⟩
              · intro ℓ hℓ
                rw [hnvo] at hℓ
                obtain ⟨hj, hbm⟩ := hblock ℓ hℓ
                obtain ⟨hdm, _⟩ := hS.at_ _ hj
                exact ⟨order[ℓ], _, (hposk ℓ hℓ).2, btv_uniq hbnd hdm hbm, hdm, hbm⟩
              · intro a b hab hb
                rw [hnvo] at hb
                rw [hzl a (by omega), hzl b hb]
                exact blockOf_mono _ a b hab
              · intro d hdm b hb
                rw [hnames, ← keys_mem_iff, ← hd.bits.mem_iff, List.mem_flatMap]
                exact ⟨d, hdm, hb⟩
              · intro d hdm b hb; exact btv_uniq hbnd hdm hb
              · exact bits_nodup_of_flatMap hbnd
              · intro d hdm; exact hd.level_lt hdm
              · exact hd.level_inj
            · intro u hu
              refine ⟨hI2.held_mem hu, ?_⟩
              intro a
              rw [hR.held u hu a, hheld1 u hu a]

end DD
