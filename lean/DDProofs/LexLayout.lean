/-
  DDProofs.LexLayout — `spellWith L toks`: the text of a token string under a layout `L`
  (a choice of spelling per token, blanks and comments before / between / after the tokens);
  `tokenize (spellWith L toks) = toks`; hence the tree that is parsed, and the result of
  `add_expr`, do not depend on the spellings, the blanks or the comments.
-/
import DDProofs.LexAll
namespace DD

/-! ### layouts -/

/-- the `i`-th spelling of a token (indices wrap around) -/
def Tok.spelling (t : Tok) (i : Nat) : String :=
  (t.spellings[i % t.spellings.length]?).getD ""

structure Layout where
  /-- blanks and comments before the first token -/
  lead : List Blank := []
  /-- which spelling is used for the token at position `i` -/
  choice : Nat → Nat := fun _ => 0
  /-- blanks and comments after the token at position `i` -/
  gap : Nat → List Blank := fun _ => [.sp]
  /-- a last `\* …` comment without newline -/
  fin : Option (List Char) := none

def Layout.pieces (L : Layout) : Nat → List Tok → List Piece
  | _, [] => []
  | i, t :: ts => ⟨t, t.spelling (L.choice i), L.gap i⟩ :: L.pieces (i + 1) ts

/-- the text of the token string `toks` under the layout `L` -/
def spellWith (L : Layout) (toks : List Tok) : String :=
  String.ofList (layoutChars L.lead (L.pieces 0 toks) (finChars L.fin))

/-- the layout is admissible for the token string: tokens have a text, comments are
well delimited, and no token text clashes with the character that follows it -/
def layoutOk (L : Layout) (toks : List Tok) : Bool :=
  L.lead.all Blank.ok && finOk L.fin && piecesOk (finChars L.fin).head? (L.pieces 0 toks)

theorem pieces_toks (L : Layout) : ∀ (i : Nat) (toks : List Tok), (L.pieces i toks).map (·.tok) = toks
  | _, [] => rfl
  | i, t :: ts => by simp [Layout.pieces, pieces_toks L (i + 1) ts]

/-- LEXER ROUND TRIP for every token string, every choice of spellings, every admissible
arrangement of blanks and comments -/
theorem tokenize_spellWith (L : Layout) (toks : List Tok) (h : layoutOk L toks = true) :
    tokenize (spellWith L toks) = toks := by
  simp only [layoutOk, Bool.and_eq_true] at h
  have := tokenize_pieces L.lead (L.pieces 0 toks) L.fin h.1.1 h.1.2 h.2
  rw [pieces_toks] at this
  exact this

/-- two admissible layouts of one token string give the same tokens -/
theorem tokenize_layout_irrelevant (L L' : Layout) (toks : List Tok)
    (h : layoutOk L toks = true) (h' : layoutOk L' toks = true) :
    tokenize (spellWith L toks) = tokenize (spellWith L' toks) := by
  rw [tokenize_spellWith L toks h, tokenize_spellWith L' toks h']

/-! ### where a blank is needed -/

theorem spellings_ne_nil (t : Tok) (h : t.lexOk = true) : t.spellings ≠ [] := by
  cases t with
  | name s => simp [Tok.spellings]
  | number d => simp [Tok.spellings]
  | bad => simp [Tok.lexOk] at h
  | op o => cases o <;> decide
  | _ => decide

theorem spelling_mem (t : Tok) (h : t.lexOk = true) (i : Nat) : t.spelling i ∈ t.spellings := by
  have hne := spellings_ne_nil t h
  have hpos : 0 < t.spellings.length := List.length_pos_iff.mpr hne
  have hlt : i % t.spellings.length < t.spellings.length := Nat.mod_lt _ hpos
  simp only [Tok.spelling, List.getElem?_eq_getElem hlt, Option.getD_some]
  exact List.getElem_mem hlt

/-- a blank that separates whatever stands before it -/
def Blank.isSep : Blank → Bool
  | .line _ => false
  | _ => true

/-- no operator spelling has a blank, `(` or `*` after its first character, and `\` only
as the second character of `/\` -/
theorem rows_tail :
    (Gen.spellings.all fun r => r.1.toList.tail.all fun y =>
      y != ' ' && y != '\t' && y != '\n' && y != '(') = true := by decide

theorem mem_extChars_tail {a : List Char} {y : Char} (ha : a ≠ []) (h : y ∈ extChars a) :
    ∃ r ∈ Gen.spellings, y ∈ r.1.toList.tail := by
  simp only [extChars, List.mem_filterMap] at h
  obtain ⟨r, hr, hy⟩ := h
  refine ⟨r, hr, ?_⟩
  split at hy
  · cases hs : r.1.toList with
    | nil => rw [hs] at hy; simp at hy
    | cons x xs =>
      rw [hs] at hy
      have hpos : 0 < a.length := List.length_pos_iff.mpr ha
      obtain ⟨n, hn⟩ : ∃ n, a.length = n + 1 := ⟨a.length - 1, by omega⟩
      rw [hn, List.getElem?_cons_succ] at hy
      exact List.mem_of_getElem? hy
  · simp at hy

/-- a space, tab, newline or `(* … *)` comment may follow ANY token text -/
theorem sepOk_blank (t : Tok) (sp : String) (hok : t.lexOk = true) (hsp : sp ∈ t.spellings)
    (b : Blank) (hb : b.isSep = true) : sepOk sp.toList (some b.first) = true := by
  have hne := spelling_ne_nil t sp hok hsp
  have hy : b.first = ' ' ∨ b.first = '\t' ∨ b.first = '\n' ∨ b.first = '(' := by
    cases b <;> simp [Blank.first, Blank.isSep] at hb ⊢
  have hn : isNameChar b.first = false := by rcases hy with h | h | h | h <;> rw [h] <;> decide
  have hd : isDigitU b.first = false := by rcases hy with h | h | h | h <;> rw [h] <;> decide
  have hstar : (b.first == '*') = false := by rcases hy with h | h | h | h <;> rw [h] <;> decide
  have hext : (extChars sp.toList).contains b.first = false := by
    cases hc : (extChars sp.toList).contains b.first with
    | false => rfl
    | true =>
      simp only [List.contains_eq_mem, decide_eq_true_eq] at hc
      obtain ⟨r, hr, hmem⟩ := mem_extChars_tail hne hc
      have := List.all_eq_true.mp (List.all_eq_true.mp rows_tail r hr) _ hmem
      simp only [Bool.and_eq_true, bne_iff_ne, ne_eq] at this
      rcases hy with h | h | h | h <;> simp [h] at this
  cases hs : sp.toList with
  | nil => exact absurd hs hne
  | cons c cs =>
    simp only [sepOk, clash, Bool.not_eq_true']
    rw [← hs]
    split
    · exact hn
    · split
      · exact hd
      · simp only [hstar, hext, Bool.and_false, Bool.or_false]

/-- every token is followed by at least one blank that is not a `\*` comment: nothing else
is demanded -/
def Layout.spaced (L : Layout) (n : Nat) : Prop :=
  L.lead.all Blank.ok = true ∧ finOk L.fin = true ∧
  ∀ i < n, (L.gap i).all Blank.ok = true ∧ ∃ b g, L.gap i = b :: g ∧ b.isSep = true

theorem piecesOk_spaced (L : Layout) (nx : Option Char) :
    ∀ (toks : List Tok) (i : Nat), (∀ t ∈ toks, t.lexOk = true) →
    (∀ j, i ≤ j → j < i + toks.length → (L.gap j).all Blank.ok = true ∧ ∃ b g, L.gap j = b :: g ∧ b.isSep = true) →
    piecesOk nx (L.pieces i toks) = true
  | [], _, _, _ => rfl
  | t :: ts, i, hok, hg => by
    obtain ⟨hgo, b, g, hgi, hb⟩ := hg i (Nat.le_refl _) (by simp)
    have ht := hok t (by simp)
    simp only [Layout.pieces, piecesOk, Bool.and_eq_true, List.contains_eq_mem, decide_eq_true_eq]
    refine ⟨⟨⟨⟨ht, spelling_mem t ht _⟩, hgo⟩, ?_⟩, ?_⟩
    · rw [hgi]
      exact sepOk_blank t _ ht (spelling_mem t ht _) b hb
    · exact piecesOk_spaced L nx ts (i + 1) (fun t' h' => hok t' (by simp [h']))
        (fun j h1 h2 => hg j (by omega) (by simp at h2 ⊢; omega))

theorem layoutOk_spaced (L : Layout) (toks : List Tok) (hok : ∀ t ∈ toks, t.lexOk = true)
    (h : L.spaced toks.length) : layoutOk L toks = true := by
  obtain ⟨h1, h2, h3⟩ := h
  simp only [layoutOk, Bool.and_eq_true]
  exact ⟨⟨h1, h2⟩, piecesOk_spaced L _ toks 0 hok (fun j _ hj => h3 j (by omega))⟩

/-- with a blank after every token, EVERY choice of spellings is read back -/
theorem tokenize_spellWith_spaced (L : Layout) (toks : List Tok) (hok : ∀ t ∈ toks, t.lexOk = true)
    (h : L.spaced toks.length) : tokenize (spellWith L toks) = toks :=
  tokenize_spellWith L toks (layoutOk_spaced L toks hok h)


/-! ### the tokens of printed formulas have texts -/

theorem lexOk_of_LexWF {t : Tok} (h : t.LexWF) : t.lexOk = true := by
  cases t with
  | name s =>
    obtain ⟨⟨c, cs, hs, hc, hcs⟩, hr⟩ := h
    simp only [Tok.lexOk, hs, wordOk, Bool.and_eq_true, List.all_eq_true, hr, Option.isNone_none, and_true]
    exact ⟨(nameStarts_ok c hc).1, fun x hx => nameTail_ok x (hcs x hx)⟩
  | number d =>
    obtain ⟨hne, hd⟩ := h
    simp only [Tok.lexOk, digitsOk, Bool.and_eq_true, Bool.not_eq_true', List.isEmpty_eq_false_iff,
      List.all_eq_true]
    exact ⟨hne, fun x hx => (asciiDigits_ok x (hd x hx)).2.2.2.2.2.1⟩
  | bad => exact absurd h (by simp [Tok.LexWF])
  | _ => rfl

theorem lexOk_printG (ex : Ast → Bool) (t : Ast) (hlex : t.LexWF) : ∀ tok ∈ printG ex t, tok.lexOk = true :=
  fun tok h => lexOk_of_LexWF (lexWF_paren (lexWF_printRaw ex t hlex) tok h)

/-- the text of a formula under ANY admissible layout (spellings, blanks, comments) is read back
as its tree -/
theorem parse_tokenize_spellWith (ex : Ast → Bool) (t : Ast) (hwf : t.WF) (L : Layout)
    (hL : layoutOk L (printG ex t) = true) :
    parse (tokenize (spellWith L (printG ex t))) = some t := by
  rw [tokenize_spellWith L _ hL, parse_printG ex t hwf]

end DD
