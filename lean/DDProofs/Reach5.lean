/-
  DDProofs.Reach5 — "for EVERY history", one more layer: `UOp5` = `UOp4` plus

    `.loadJson f`            `_copy.load_json(file, bdd, load_order=False)`   ANY content
    `.copyVars src names`    `_copy.copy_vars(other, bdd)`                     `names` = the order in
                                                                              which `other.vars` is visited

  `load_json` works with `Function` objects: each root it RETURNS holds one reference, so the
  user's ledger grows by the returned roots (`ledger5`); when it raises, the `except` clause has
  given every temporary reference back and the ledger is unchanged.

  Guards (`OpGuard5`).  `.loadJson f`: NONE — any content (a node line with the terminal's id `1`
  is refused by the loader since F18), dynamic reordering enabled or not, any number of variables
  (`loadJson_false_any_start`: with two variables the loader's `bdd.var` / `bdd.ite` calls may
  sift while it holds its shelf; with fewer a request makes sifting raise, the loader fails and
  releases — the switch is then off, as for every decorated call).
  `.copyVars src names`: the source order is a bijection, `names` is a permutation of its variables
  (else the model reports a schedule mismatch), and what the target declares BELOW the source's
  number of variables agrees with the source (`varsBelowB`) — as decidable checks.  This is the
  weakest compatibility that excludes a gap: a refused `copy_vars` keeps the invariant, the
  nodes and the counts (`copyVarsCore_any`, no hypothesis) but may leave a level unnamed
  (`copyVars_refused_gap`, F7), and then the order is no bijection any more.

  NOT covered, and why.  `load_json(load_order=True)` is not an operation of `UOp5` (it changes the
  switch both ways and the order; its per-operation theorem for ANY content is
  `C17_load_json_order_any`, DDProps/C17Load2.lean).  `dd.dddmp.load`: it builds a NEW manager (a start state, not a step);
  `C16_load_spec` concludes `Inv` only (no `OrderOK` / `RefExact`; `C16_load_good` and
  `C16_then_every_history` give the good state and the histories that start there — the tokens of
  DD.Dddmp are `DD.DddmpTok`, so DD.Dddmp imports next to DD.Parse, see DDProps/All.lean).
-/
import DDProofs.Reach4
import DDProofs.Reach4Start
import DDProofs.LoadRejected
import DDProofs.LoadJson2Dyn
import DDProofs.LoadJson2Off
import DDProofs.LoadJson2Few
import DDProps.C11CopyVars
open Std

namespace DD

/-! ### operations -/

inductive UOp5
  | op (o : UOp4)
  | loadJson (f : JsonFile)
  | copyVars (src : Tbl) (names : List String)

def runOp5 : UOp5 → Mgr → Except Err Res × Mgr
  | .op o, m => runOp4 o m
  | .loadJson f, m => mapRes (fun _ => .unit) (loadJson f false m)
  | .copyVars src names, m => mapRes (fun _ => .unit) (copyVarsCore src names m)

/-- the ledger after `load_json`: one more reference per returned root; unchanged when it raised -/
def jsonLedger (r : Except Err Roots) (ext : Nat → Nat) : Nat → Nat :=
  match r with
  | .ok roots => extAdd ext (roots.values.map Int.natAbs)
  | .error _ => ext

/-- the user's ledger: a JSON load that RETURNS gives the user one reference per returned root -/
def ledger5 : UOp5 → Mgr → (Nat → Nat) → (Nat → Nat)
  | .op o, m, ext => ledger4 o m ext
  | .loadJson f, m, ext => jsonLedger (loadJson f false m).1 ext
  | .copyVars _ _, _, ext => ext

/-- a decidable sufficient check for `OrderOK` -/
def orderOKB (t : Tbl) : Bool :=
  t.vars.toList.all (fun p => t.l2v[p.2]? == some p.1 && decide (p.2 < t.vars.size)) &&
  t.l2v.toList.all (fun p => t.vars[p.2]? == some p.1) &&
  (List.range t.vars.size).all (fun i => (t.l2v[i]?).isSome)

theorem orderOK_of_check {t : Tbl} (h : orderOKB t = true) : OrderOK t := by
  unfold orderOKB at h
  simp only [Bool.and_eq_true, List.all_eq_true, beq_iff_eq, decide_eq_true_eq, List.mem_range] at h
  obtain ⟨⟨h1, h2⟩, h3⟩ := h
  refine ⟨fun v i => ⟨fun hv => ?_, fun hl => ?_⟩, fun v i hv => ?_, fun i hi => ?_⟩
  · exact (h1 (v, i) (TreeMap.mem_toList_iff_getElem?_eq_some.mpr hv)).1
  · exact h2 (i, v) (TreeMap.mem_toList_iff_getElem?_eq_some.mpr hl)
  · exact (h1 (v, i) (TreeMap.mem_toList_iff_getElem?_eq_some.mpr hv)).2
  · exact Option.isSome_iff_exists.mp (h3 i hi)

/-- every declaration of the target is a declaration of the source -/
def varsSubB (src t : Tbl) : Bool := t.vars.toList.all (fun p => src.vars[p.1]? == some p.2)

theorem varsSub_of_check {src t : Tbl} (h : varsSubB src t = true) :
    ∀ (v : String) (i : Nat), t.vars[v]? = some i → src.vars[v]? = some i := by
  unfold varsSubB at h
  simp only [List.all_eq_true, beq_iff_eq] at h
  exact fun v i hv => h (v, i) (TreeMap.mem_toList_iff_getElem?_eq_some.mpr hv)

/-- the WEAKEST compatibility under which `copy_vars` cannot leave a gap: what the target declares
at a level BELOW the source's number of variables is what the source has there (variables of the
target at higher levels do not matter: the call then finds every source variable declared) -/
def varsBelowB (src t : Tbl) : Bool :=
  t.vars.toList.all (fun p => decide (src.vars.size ≤ p.2) || src.vars[p.1]? == some p.2)

theorem varsBelow_of_check {src t : Tbl} (h : varsBelowB src t = true) :
    ∀ (v : String) (i : Nat), t.vars[v]? = some i → i < src.nvars → src.vars[v]? = some i := by
  unfold varsBelowB at h
  simp only [List.all_eq_true, Bool.or_eq_true, decide_eq_true_eq, beq_iff_eq] at h
  intro v i hv hi
  rcases h (v, i) (TreeMap.mem_toList_iff_getElem?_eq_some.mpr hv) with h1 | h1
  · exact absurd h1 (by show ¬ src.vars.size ≤ i; exact Nat.not_le.mpr hi)
  · exact h1

theorem varsBelowB_of_sub {src t : Tbl} (h : varsSubB src t = true) : varsBelowB src t = true := by
  unfold varsSubB at h
  unfold varsBelowB
  simp only [List.all_eq_true, beq_iff_eq, Bool.or_eq_true, decide_eq_true_eq] at h ⊢
  exact fun p hp => Or.inr (h p hp)

def OpGuard5 (m : Mgr) (ext : Nat → Nat) : UOp5 → Prop
  | .op o => OpGuard4 m ext o
  | .loadJson _ => True
  | .copyVars src names => orderOKB src = true ∧ names.Perm src.vars.keys ∧ varsBelowB src m.tbl = true

instance (m : Mgr) (ext : Nat → Nat) (op : UOp5) : Decidable (OpGuard5 m ext op) := by
  cases op <;> simp only [OpGuard5] <;> infer_instance

def UOp5.switchAfter : UOp5 → Bool → Bool
  | .op o, old => o.switchAfter old
  | _, old => old

/-! ### `load_json` -/

theorem loadJson_step5 (m : Mgr) (ext : Nat → Nat) (h : Good3 m ext) (f : JsonFile)
    (hoff : m.lastLen = none) :
    Good3 (loadJson f false m).2 (ledger5 (.loadJson f) m ext) ∧
    Held2 ext m (loadJson f false m).2 ∧ (loadJson f false m).2.lastLen = none ∧
    (∀ (v : String) (i : Nat), m.tbl.vars[v]? = some i → (loadJson f false m).2.tbl.vars[v]? = some i) := by
  have hgs : GoodState m ext := ⟨h.inv, h.order, h.exact, hoff, h.ctx⟩
  obtain ⟨kv, hout⟩ := loadJson_false_any f m ext hgs
  have hg' : GoodState (loadJson f false m).2 (ledger5 (.loadJson f) m ext) := by
    show GoodState _ (jsonLedger (loadJson f false m).1 ext)
    unfold jsonLedger
    cases hr : (loadJson f false m).1 with
    | ok roots => rw [hr] at hout; exact hout
    | error e => rw [hr] at hout; exact hout
  refine ⟨hg'.good3 (kv.sched.trans h.sched) (kv.roots.trans h.roots), fun u hu => ?_, hg'.off, kv.vars⟩
  have hmu := h.exact.mem_of_ext_pos hu
  exact ⟨kv.mem hmu, fun σ => denN_of_keptV h.inv h.order hg'.order kv u hmu σ⟩

/-- `load_json(load_order=False)` of ANY content with dynamic reordering possibly ENABLED, two
variables declared: the state is good for the new ledger, every held reference keeps its function
by name (levels may have moved), reordering is enabled iff it was -/
theorem loadJson_step5_dyn (m : Mgr) (ext : Nat → Nat) (h : Good3 m ext) (f : JsonFile)
    (h2 : 2 ≤ m.nvars) :
    Good3 (loadJson f false m).2 (ledger5 (.loadJson f) m ext) ∧
    Held2 ext m (loadJson f false m).2 ∧
    (loadJson f false m).2.lastLen.isSome = m.lastLen.isSome := by
  have L := loadJson_false_any_dyn f m ext (h.dynInv h2)
  have hroots : (loadJson f false m).2.roots = [] := L.left.roots.trans h.roots
  refine ⟨?_, fun u hu => L.left.held u (Or.inr hu) (h.exact.mem_of_ext_pos hu), L.left.enabled⟩
  show Good3 _ (jsonLedger (loadJson f false m).1 ext)
  unfold jsonLedger
  have hst := L.state
  cases hr : (loadJson f false m).1 with
  | ok roots => rw [hr] at hst; exact hst.good3 hroots
  | error e => rw [hr] at hst; exact hst.good3 hroots

theorem Good3.loadStart {m : Mgr} {ext : Nat → Nat} (h : Good3 m ext) : LoadStart ext m :=
  ⟨h.inv, h.order, h.exact, h.ctx, h.sched, fun r hr => by rw [h.roots] at hr; cases hr⟩

/-- `load_json(load_order=False)` of ANY content from ANY good state — dynamic reordering enabled
or not, any number of variables: the state is good for the new ledger, every held reference keeps
its function by name; the switch is what it was, except that with fewer than two variables a
request that fired has switched it off (`SwitchSafe`-style hypothesis as for the decorator) -/
theorem loadJson_step5_any (m : Mgr) (ext : Nat → Nat) (h : Good3 m ext) (f : JsonFile) :
    Good3 (loadJson f false m).2 (ledger5 (.loadJson f) m ext) ∧
    Held2 ext m (loadJson f false m).2 ∧
    ((m.lastLen.isSome = true → 2 ≤ m.nvars) →
      (loadJson f false m).2.lastLen.isSome = m.lastLen.isSome) := by
  have L := loadJson_false_any_start f m ext h.loadStart
  have hroots : (loadJson f false m).2.roots = [] := L.roots.trans h.roots
  refine ⟨?_, fun u hu => L.held u (Or.inr hu), fun hsafe => ?_⟩
  · show Good3 _ (jsonLedger (loadJson f false m).1 ext)
    unfold jsonLedger
    have hst := L.state
    have conv : ∀ e' m', LoadStart e' m' → m'.roots = [] → Good3 m' e' :=
      fun e' m' s hr => ⟨s.inv, s.order, s.refs, s.ctx, s.sched, hr⟩
    cases hr : (loadJson f false m).1 with
    | ok roots => rw [hr] at hst; exact conv _ _ hst hroots
    | error e => rw [hr] at hst; exact conv _ _ hst hroots
  · cases hl : m.lastLen with
    | none =>
      cases hl' : (loadJson f false m).2.lastLen with
      | none => rfl
      | some k =>
        have := L.switch (by rw [hl']; rfl)
        rw [hl] at this; cases this
    | some k =>
      have h2 : 2 ≤ m.nvars := hsafe (by rw [hl]; rfl)
      have := L.switchKept (Nat.le_trans h2 (declare_nvars_le _ m ext h.loadStart))
      rw [this, hl]

/-- the JSON loader never lets the internal reordering signal escape -/
theorem loadJson_noSignal5 (m : Mgr) (ext : Nat → Nat) (h : Good3 m ext) (f : JsonFile) :
    (loadJson f false m).1 ≠ .error .needsReordering :=
  (loadJson_false_any_start f m ext h.loadStart).noSignal

/-! ### `copy_vars` -/

theorem addVar_sched (v : String) (l : Option Int) (m : Mgr) : (addVar v l m).2.sched = m.sched := by
  cases h : addVar v l m with
  | mk r m' =>
    cases r with
    | error e => rw [addVar_err_same m m' v l e h]
    | ok j =>
      rcases dmp_addVar_cases h with ⟨-, h2, -⟩ | ⟨-, -, -, h4⟩
      · rw [h2]
      · rw [h4]

theorem bind'_sched {α β : Type} {x : M α} {g : α → M β} {m : Mgr} (hx : (x m).2.sched = m.sched)
    (hg : ∀ a m1, (g a m1).2.sched = m1.sched) : (M.bind' x g m).2.sched = m.sched := by
  unfold M.bind'
  cases h : x m with
  | mk r m1 =>
    rw [h] at hx
    cases r with
    | error e => exact hx
    | ok a => exact (hg a m1).trans hx

theorem copyVarStep_sched (src : Tbl) (v : String) (m : Mgr) : (copyVarStep src v m).2.sched = m.sched := by
  cases hv : src.vars[v]? with
  | none => simp only [copyVarStep, hv]; rfl
  | some l =>
    simp only [copyVarStep, hv]
    have := addVar_sched v (some (l : Int)) m
    cases h : addVar v (some (l : Int)) m with
    | mk r m' =>
      rw [h] at this
      cases r <;> exact this

theorem forIn_sched {α : Type} (f : α → PUnit → M (ForInStep PUnit))
    (hf : ∀ a u m, (f a u m).2.sched = m.sched) :
    ∀ (l : List α) (m : Mgr), ((forIn l PUnit.unit f : M PUnit) m).2.sched = m.sched := by
  intro l
  induction l with
  | nil => intro m; rfl
  | cons a rest ih =>
    intro m
    rw [List.forIn_cons]
    refine bind'_sched (hf a _ m) ?_
    intro r m1
    cases r with
    | done b => rfl
    | yield b => exact ih m1

theorem copyVarsCore_sched (src : Tbl) (names : List String) (m : Mgr) :
    (copyVarsCore src names m).2.sched = m.sched := by
  unfold copyVarsCore
  simp only [bind, pure]
  split
  · rfl
  · refine bind'_sched (forIn_sched _ ?_ names m) (fun _ _ => rfl)
    intro v u m0
    exact bind'_sched (copyVarStep_sched src v m0) (fun _ _ => rfl)

/-- `copy_vars(other, bdd)` under its obligations: returns normally; the target then declares
exactly the source's variables at the source's levels; it is good for the same ledger; every
node keeps its function by name; the switch is untouched -/
theorem copyVars_step5 (m : Mgr) (ext : Nat → Nat) (h : Good3 m ext) (src : Tbl) (names : List String)
    (hO : OrderOK src) (hperm : names.Perm src.vars.keys)
    (hsub : ∀ (v : String) (i : Nat), m.tbl.vars[v]? = some i → src.vars[v]? = some i) :
    ∃ m', copyVarsCore src names m = (.ok (), m') ∧ Good3 m' ext ∧ Held2 ext m m' ∧
      m'.lastLen = m.lastLen ∧ (∀ v : String, m'.tbl.vars[v]? = src.vars[v]?) := by
  obtain ⟨m', hrun, hv, -, hsucc, -, -, -, -, hl, hc, hr, hO', -, -, hinv, hcnt⟩ :=
    C11_copy_vars src hO names hperm m ⟨hsub, h.order.inv⟩
  obtain ⟨hI', hden⟩ := hinv h.inv
  have hs : m'.sched = m.sched := by
    have := copyVarsCore_sched src names m
    rw [hrun] at this; exact this
  have hnode : ∀ u n, m.tbl.node? u = some n → m'.tbl.node? u = some n := by
    intro u n hn
    show m'.tbl.succ[u]? = some n
    rw [hsucc]; exact hn
  have kv : KeptV m m' := ⟨hI', hnode, fun u hu a => (hden u hu).2 a,
    fun v i hvi => by rw [hv v]; exact hsub v i hvi, hl, hc, hs, hr⟩
  refine ⟨m', hrun, ⟨hI', hO', hcnt ext h.exact, hc.trans h.ctx, hs.trans h.sched, hr.trans h.roots⟩,
    fun u hu => ?_, hl, hv⟩
  have hmu := h.exact.mem_of_ext_pos hu
  exact ⟨kv.mem hmu, fun σ => denN_of_keptV h.inv h.order hO' kv u hmu σ⟩

theorem bindErr_cv {α β : Type} {x : M α} {f : α → M β} {m m' : Mgr} {e : Err}
    (h : x m = (.error e, m')) : M.bind' x f m = (.error e, m') := by
  unfold M.bind'; simp only [h]

theorem forIn_fix {α : Type} (f : α → PUnit → M (ForInStep PUnit)) (m : Mgr) :
    ∀ (l : List α), (∀ a ∈ l, f a PUnit.unit m = (.ok (.yield PUnit.unit), m)) →
      (forIn l PUnit.unit f : M PUnit) m = (.ok PUnit.unit, m) := by
  intro l
  induction l with
  | nil => intro _; rfl
  | cons a rest ih =>
    intro h
    rw [List.forIn_cons]
    show M.bind' (f a PUnit.unit) _ m = _
    rw [bindOk_cv (h a List.mem_cons_self)]
    exact ih (fun b hb => h b (List.mem_cons_of_mem _ hb))

/-- `copy_vars(other, bdd)` under the WEAKEST compatibility (`varsBelowB`): returns normally; every
source variable is then declared at its source level, the target's other declarations stay; the
manager is good for the same ledger; every node keeps its function by name -/
theorem copyVars_step5w (m : Mgr) (ext : Nat → Nat) (h : Good3 m ext) (src : Tbl) (names : List String)
    (hO : OrderOK src) (hperm : names.Perm src.vars.keys)
    (hbelow : ∀ (v : String) (i : Nat), m.tbl.vars[v]? = some i → i < src.nvars → src.vars[v]? = some i) :
    ∃ m', copyVarsCore src names m = (.ok (), m') ∧ Good3 m' ext ∧ Held2 ext m m' ∧
      m'.lastLen = m.lastLen ∧
      (∀ (v : String) (l : Nat), src.vars[v]? = some l → m'.tbl.vars[v]? = some l) ∧
      (∀ (v : String) (i : Nat), m.tbl.vars[v]? = some i → m'.tbl.vars[v]? = some i) := by
  by_cases hn : m.tbl.nvars ≤ src.nvars
  · -- the target is (compatible with) a prefix of the source: C11
    have hsub : ∀ (v : String) (i : Nat), m.tbl.vars[v]? = some i → src.vars[v]? = some i :=
      fun v i hv => hbelow v i hv (Nat.lt_of_lt_of_le (h.order.lt v i hv) hn)
    obtain ⟨m', hrun, hg, hh, hl, hv⟩ := copyVars_step5 m ext h src names hO hperm hsub
    exact ⟨m', hrun, hg, hh, hl, fun v l hs => by rw [hv v]; exact hs,
      fun v i hm => by rw [hv v]; exact hsub v i hm⟩
  · -- the target has at least the source's levels: every source variable is declared already
    have hall : ∀ (v : String) (l : Nat), src.vars[v]? = some l → m.tbl.vars[v]? = some l := by
      intro v l hs
      have hl : l < m.tbl.nvars := Nat.lt_of_lt_of_le (hO.lt v l hs) (by omega)
      obtain ⟨w, hw⟩ := h.order.total l hl
      have hw' : m.tbl.vars[w]? = some l := (h.order.inv w l).mpr hw
      have hsw := hbelow w l hw' (hO.lt v l hs)
      have e1 := (hO.inv w l).mp hsw
      have e2 := (hO.inv v l).mp hs
      rw [e1] at e2
      rw [← Option.some.inj e2]; exact hw'
    have hrun : copyVarsCore src names m = (.ok (), m) := by
      have hin : ∀ v ∈ names, v ∈ src.vars := fun v hv => TreeMap.mem_keys.mp ((hperm.mem_iff).mp hv)
      have hloop := forIn_fix
        (fun v (_ : PUnit) => (copyVarStep src v).bind' fun _ => M.pure' (ForInStep.yield PUnit.unit)) m names
        (by
          intro v hv
          obtain ⟨l, hl⟩ : ∃ l, src.vars[v]? = some l := by
            have := hin v hv
            rw [TreeMap.mem_iff_isSome_getElem?] at this
            exact Option.isSome_iff_exists.mp this
          have hstep : copyVarStep src v m = (.ok (), m) := by
            unfold copyVarStep
            simp only [hl]
            rw [(addVar_existing m v l (hall v l hl)).2]
          show M.bind' (copyVarStep src v) _ m = _
          rw [bindOk_cv hstep]
          rfl)
      unfold copyVarsCore
      have hguard : (!(names.length == src.vars.keys.length &&
          names.all (src.vars.keys.contains ·))) = false := by
        have h1 : names.length = src.vars.keys.length := hperm.length_eq
        have h2 : names.all (src.vars.keys.contains ·) = true := by
          rw [List.all_eq_true]
          intro v hv
          simpa using (hperm.mem_iff).mp hv
        simp only [h1, beq_self_eq_true, Bool.true_and, h2, Bool.not_true]
      simp only [bind, pure, hguard, Bool.false_eq_true, if_false]
      show M.bind' _ _ m = _
      rw [bindOk_cv hloop]
      rfl
    exact ⟨m, hrun, h, fun u hu => ⟨h.exact.mem_of_ext_pos hu, fun _ => rfl⟩, rfl, hall, fun _ _ hv => hv⟩

/-- **`copy_vars`, EVERY outcome, NO hypothesis** (any source table, any order of visit, any
target): whatever it returns or raises, the invariant holds, every node is there with its function
of the LEVELS, the counts are exact for the ledger they were exact for, declared variables keep
their level, the switches are untouched.  What a refusal can break is the order only: the
variables declared before the offending one stay declared (`copyVars_refused_gap`). -/
theorem copyVarsCore_any (src : Tbl) (names : List String) (m : Mgr) (hI : Inv m) :
    KeptV m (copyVarsCore src names m).2 ∧
    ∀ ext, RefExact m ext → RefExact (copyVarsCore src names m).2 ext := by
  have hstep : ∀ (v : String) (m0 : Mgr), Inv m0 →
      KeptV m0 (copyVarStep src v m0).2 ∧ ∀ ext, RefExact m0 ext → RefExact (copyVarStep src v m0).2 ext := by
    intro v m0 hI0
    cases hv : src.vars[v]? with
    | none => simp only [copyVarStep, hv]; exact ⟨KeptV.refl hI0, fun _ h => h⟩
    | some l =>
      simp only [copyVarStep, hv]
      have k := addVar_keptV m0 hI0 v (some (l : Int))
      have r := addVar_refs_any m0 v (some (l : Int))
      cases ha : addVar v (some (l : Int)) m0 with
      | mk x m1 =>
        rw [ha] at k r
        cases x <;> exact ⟨k, r⟩
  have hloop : ∀ (l : List String) (m0 : Mgr), Inv m0 →
      KeptV m0 ((forIn l PUnit.unit fun (v : String) (_ : PUnit) =>
        (copyVarStep src v).bind' fun _ => M.pure' (ForInStep.yield PUnit.unit)) m0).2 ∧
      ∀ ext, RefExact m0 ext → RefExact ((forIn l PUnit.unit fun (v : String) (_ : PUnit) =>
        (copyVarStep src v).bind' fun _ => M.pure' (ForInStep.yield PUnit.unit)) m0).2 ext := by
    intro l
    induction l with
    | nil => intro m0 hI0; exact ⟨KeptV.refl hI0, fun _ h => h⟩
    | cons v rest ih =>
      intro m0 hI0
      rw [List.forIn_cons]
      obtain ⟨k1, r1⟩ := hstep v m0 hI0
      show KeptV m0 (M.bind' (M.bind' (copyVarStep src v) _) _ m0).2 ∧
        ∀ ext, RefExact m0 ext → RefExact (M.bind' (M.bind' (copyVarStep src v) _) _ m0).2 ext
      cases hs : copyVarStep src v m0 with
      | mk x m1 =>
        rw [hs] at k1 r1
        cases x with
        | error e =>
          rw [bindErr_cv (bindErr_cv hs)]
          exact ⟨k1, r1⟩
        | ok _ =>
          rw [bindOk_cv (x := M.bind' (copyVarStep src v) _) (a := ForInStep.yield PUnit.unit) (m' := m1)
            (by rw [bindOk_cv hs]; rfl)]
          obtain ⟨k2, r2⟩ := ih m1 k1.inv
          exact ⟨k1.trans k2, fun ext hx => r2 ext (r1 ext hx)⟩
  unfold copyVarsCore
  simp only [bind, pure]
  split
  · exact ⟨KeptV.refl hI, fun _ h => h⟩
  · obtain ⟨k, r⟩ := hloop names m hI
    show KeptV m (M.bind' (forIn names PUnit.unit fun (v : String) (_ : PUnit) =>
        (copyVarStep src v).bind' fun _ => M.pure' (ForInStep.yield PUnit.unit)) _ m).2 ∧
      ∀ ext, RefExact m ext → RefExact (M.bind' (forIn names PUnit.unit fun (v : String) (_ : PUnit) =>
        (copyVarStep src v).bind' fun _ => M.pure' (ForInStep.yield PUnit.unit)) _ m).2 ext
    cases hs : (forIn names PUnit.unit fun (v : String) (_ : PUnit) =>
        (copyVarStep src v).bind' fun _ => M.pure' (ForInStep.yield PUnit.unit)) m with
    | mk x m1 =>
      rw [hs] at k r
      cases x with
      | error e => rw [bindErr_cv hs]; exact ⟨k, r⟩
      | ok _ => rw [bindOk_cv hs]; exact ⟨k, r⟩

/-! ### one step -/

theorem step5_all (m : Mgr) (ext : Nat → Nat) (op : UOp5) (h : Good3 m ext) (hg : OpGuard5 m ext op) :
    Good3 (runOp5 op m).2 (ledger5 op m ext) ∧ Held2 ext m (runOp5 op m).2 ∧
    ((m.lastLen.isSome = true → 2 ≤ m.nvars) →
      (runOp5 op m).2.lastLen.isSome = op.switchAfter m.lastLen.isSome) := by
  cases op with
  | op o => exact ⟨step4_inv m ext o h hg, step4_heldSame m ext o h hg, step4_switch m ext o h hg⟩
  | loadJson f => exact loadJson_step5_any m ext h f
  | copyVars src names =>
    obtain ⟨m', hrun, a, b, c, -⟩ := copyVars_step5w m ext h src names (orderOK_of_check hg.1) hg.2.1
      (varsBelow_of_check hg.2.2)
    have h2 : (runOp5 (.copyVars src names) m).2 = m' := by
      show (copyVarsCore src names m).2 = m'
      rw [hrun]
    rw [h2]
    exact ⟨a, b, fun _ => by show m'.lastLen.isSome = m.lastLen.isSome; rw [c]⟩

/-- **`step5_inv`** -/
theorem step5_inv (m : Mgr) (ext : Nat → Nat) (op : UOp5) (h : Good3 m ext) (hg : OpGuard5 m ext op) :
    Good3 (runOp5 op m).2 (ledger5 op m ext) := (step5_all m ext op h hg).1

theorem step5_heldSame (m : Mgr) (ext : Nat → Nat) (op : UOp5) (h : Good3 m ext) (hg : OpGuard5 m ext op) :
    Held2 ext m (runOp5 op m).2 := (step5_all m ext op h hg).2.1

theorem step5_switch (m : Mgr) (ext : Nat → Nat) (op : UOp5) (h : Good3 m ext) (hg : OpGuard5 m ext op)
    (hsafe : m.lastLen.isSome = true → 2 ≤ m.nvars) :
    (runOp5 op m).2.lastLen.isSome = op.switchAfter m.lastLen.isSome :=
  (step5_all m ext op h hg).2.2 hsafe

/-- the internal signal never reaches the user -/
theorem step5_noSignal (m : Mgr) (ext : Nat → Nat) (op : UOp5) (h : Good3 m ext) (hg : OpGuard5 m ext op) :
    (runOp5 op m).1 ≠ .error .needsReordering := by
  cases op with
  | op o => exact step4_noSignal m ext o h hg
  | loadJson f => exact mapRes_noSignal _ _ (loadJson_noSignal5 m ext h f)
  | copyVars src names =>
    obtain ⟨m', hrun, -⟩ := copyVars_step5w m ext h src names (orderOK_of_check hg.1) hg.2.1
      (varsBelow_of_check hg.2.2)
    show (mapRes _ (copyVarsCore src names m)).1 ≠ _
    rw [hrun]
    intro hh; cases hh

/-- **`step5_held`**: across EVERY step a reference the user holds is a node before and after under
the same number, denotes the same function of the variable NAMES, and its counter is `stored
edges + the user's references` for the ledger after the step (which a JSON load that returned
has increased by the returned roots) -/
theorem step5_held (m : Mgr) (ext : Nat → Nat) (op : UOp5) (h : Good3 m ext) (hg : OpGuard5 m ext op)
    (u : Int) (hu : 0 < ext u.natAbs) :
    m.tbl.Mem u ∧ (runOp5 op m).2.tbl.Mem u ∧
    (∀ σ, denN (runOp5 op m).2.tbl u σ = denN m.tbl u σ) ∧
    (runOp5 op m).2.ref[u.natAbs]? =
      some (indeg (runOp5 op m).2.tbl u.natAbs + ledger5 op m ext u.natAbs +
        (if u.natAbs = 1 then 1 else 0)) := by
  obtain ⟨hm', hd⟩ := step5_heldSame m ext op h hg u hu
  exact ⟨h.exact.mem_of_ext_pos hu, hm', hd, (step5_inv m ext op h hg).exact.get hm'⟩

/-- the ledger entry of `k` changes only by the user's own `incref` / `decref` of `k` and by a JSON
load (which adds the roots it returns) -/
theorem ledger5_eq (op : UOp5) (m : Mgr) (ext : Nat → Nat) (k : Nat)
    (h : ∀ v : Int, v.natAbs = k → op ≠ .op (.op (.op (.base (.incref v)))) ∧
      op ≠ .op (.op (.op (.base (.decref v)))))
    (hj : ∀ f, op ≠ .loadJson f) : ledger5 op m ext k = ext k := by
  cases op with
  | op o =>
    exact ledger4_eq o m ext k (fun v hv =>
      ⟨fun hh => (h v hv).1 (by rw [hh]), fun hh => (h v hv).2 (by rw [hh])⟩)
  | loadJson f => exact absurd rfl (hj f)
  | copyVars src names => rfl

/-- a JSON load only ADDS to the ledger -/
theorem ledger5_loadJson_le (f : JsonFile) (m : Mgr) (ext : Nat → Nat) (k : Nat) :
    ext k ≤ ledger5 (.loadJson f) m ext k := by
  show ext k ≤ jsonLedger (loadJson f false m).1 ext k
  unfold jsonLedger
  cases (loadJson f false m).1 with
  | ok roots => exact Nat.le_add_right _ _
  | error e => exact Nat.le_refl _

/-- a REJECTED call does not touch the user's ledger -/
theorem rejected5_ledger (m : Mgr) (ext : Nat → Nat) (op : UOp5) (h : Good3 m ext) (hg : OpGuard5 m ext op)
    (e : Err) (hrej : (runOp5 op m).1 = .error e) : ledger5 op m ext = ext := by
  cases op with
  | op o => exact rejected4_ledger m ext o h hg e hrej
  | loadJson f =>
    have hr : (mapRes (fun _ => Res.unit) (loadJson f false m)).1 = .error e := hrej
    show jsonLedger (loadJson f false m).1 ext = ext
    unfold jsonLedger
    cases hl : (loadJson f false m).1 with
    | ok roots => simp only [mapRes, hl] at hr; cases hr
    | error e' => rfl
  | copyVars src names => rfl

/-! ### histories -/

def step5 (op : UOp5) (s : St) : St := ⟨(runOp5 op s.m).2, ledger5 op s.m s.ext⟩

def run5 : List UOp5 → St → St
  | [], s => s
  | op :: ops, s => run5 ops (step5 op s)

def Ops5Guarded : List UOp5 → St → Prop
  | [], _ => True
  | op :: ops, s => OpGuard5 s.m s.ext op ∧ Ops5Guarded ops (step5 op s)

def results5 : List UOp5 → St → List (Except Err Res)
  | [], _ => []
  | op :: ops, s => (runOp5 op s.m).1 :: results5 ops (step5 op s)

instance decOps5Guarded : (ops : List UOp5) → (s : St) → Decidable (Ops5Guarded ops s)
  | [], _ => isTrue trivial
  | op :: ops, s => by
    unfold Ops5Guarded
    exact @instDecidableAnd _ _ _ (decOps5Guarded ops (step5 op s))

theorem run5_append (a b : List UOp5) (s : St) : run5 (a ++ b) s = run5 b (run5 a s) := by
  induction a generalizing s with
  | nil => rfl
  | cons op a ih => exact ih (step5 op s)

theorem ops5Guarded_append (a b : List UOp5) (s : St) :
    Ops5Guarded (a ++ b) s ↔ (Ops5Guarded a s ∧ Ops5Guarded b (run5 a s)) := by
  induction a generalizing s with
  | nil => simp [Ops5Guarded, run5]
  | cons op a ih =>
    simp only [List.cons_append, Ops5Guarded, run5, ih (step5 op s), and_assoc]

/-- **`reachable5_from`**: a guarded history from ANY good state ends in a good state -/
theorem reachable5_from (ops : List UOp5) (s : St) (h : Good3 s.m s.ext) (hg : Ops5Guarded ops s) :
    Good3 (run5 ops s).m (run5 ops s).ext := by
  induction ops generalizing s with
  | nil => exact h
  | cons op ops ih => exact ih (step5 op s) (step5_inv s.m s.ext op h hg.1) hg.2

theorem reachable5_inv (ops : List UOp5) (hg : Ops5Guarded ops St.init) :
    Good3 (run5 ops St.init).m (run5 ops St.init).ext :=
  reachable5_from ops St.init Good3.init hg

theorem run5_op (ops : List UOp4) (s : St) : run5 (ops.map .op) s = run4 ops s := by
  induction ops generalizing s with
  | nil => rfl
  | cons op ops ih => exact ih (step4 op s)

theorem ops5Guarded_op (ops : List UOp4) (s : St) :
    Ops5Guarded (ops.map .op) s ↔ Ops4Guarded ops s := by
  induction ops generalizing s with
  | nil => exact Iff.rfl
  | cons op ops ih => exact and_congr Iff.rfl (ih (step4 op s))

/-- a reference the user holds and does not release stays a node and keeps its function of the
variable NAMES through ANY guarded continuation, from any good state -/
theorem run5_held (ops : List UOp5) (s : St) (h : Good3 s.m s.ext) (hg : Ops5Guarded ops s) (u : Int)
    (hheld : ∀ (pre post : List UOp5), ops = pre ++ post → 0 < (run5 pre s).ext u.natAbs) :
    (run5 ops s).m.tbl.Mem u ∧ ∀ σ, denN (run5 ops s).m.tbl u σ = denN s.m.tbl u σ := by
  induction ops generalizing s with
  | nil => exact ⟨h.exact.mem_of_ext_pos (hheld [] [] rfl), fun _ => rfl⟩
  | cons op ops ih =>
    have h0 : 0 < s.ext u.natAbs := hheld [] (op :: ops) rfl
    obtain ⟨-, hd1⟩ := step5_heldSame s.m s.ext op h hg.1 u h0
    obtain ⟨hm2, hd2⟩ := ih (step5 op s) (step5_inv s.m s.ext op h hg.1) hg.2
      (fun pre post he => hheld (op :: pre) post (by rw [he]; rfl))
    exact ⟨hm2, fun σ => (hd2 σ).trans (hd1 σ)⟩

end DD
