/-
  DDProofs.MddFoa — specification of `MDD.find_or_add`.
-/
import DDProofs.MddCount
open Std

namespace DD

/-- adding a well-formed node at a fresh number keeps the table well-formed and unique -/
theorem MTbl.addNode_wfu (t : MTbl) (hw : MWFU t) (u : Nat) (i : Nat) (L : List Int)
    (hf : t.node? u = none) (hu2 : 2 ≤ u)
    (h0 : Int) (rest : List Int) (hL : L = h0 :: rest) (hpos : 0 < h0)
    (hi : i < t.nvars) (hlen : L.length = t.arity i) (hmem : ∀ k ∈ L, t.Mem k)
    (hlt : ∀ k ∈ L, i < t.levelOf k) (hnc : ∃ k ∈ L, k ≠ h0)
    (hnew : ∀ x, t.node? x ≠ some ⟨i, L⟩) :
    MWFU (t.addNode u ⟨i, L⟩) := by
  have hW := hw.toMWF
  have he := t.addNode_ext u ⟨i, L⟩ hf
  have hcase : ∀ x n, (t.addNode u ⟨i, L⟩).node? x = some n →
      (x = u ∧ n = ⟨i, L⟩) ∨ (x ≠ u ∧ t.node? x = some n) := by
    intro x n hn
    rw [MTbl.node?_addNode] at hn
    by_cases hx : u = x
    · simp [hx] at hn; exact Or.inl ⟨hx.symm, hn.symm⟩
    · simp [hx] at hn; exact Or.inr ⟨fun h => hx h.symm, hn⟩
  refine ⟨⟨hW.term, ?_, ?_, ?_, ?_, ?_, ?_, ?_⟩, ?_⟩
  · intro x n hn
    rcases hcase x n hn with ⟨_, rfl⟩ | ⟨_, ho⟩
    · rw [← he.nvars]; exact hi
    · rw [← he.nvars]; exact hW.lvl_lt _ _ ho
  · intro x n hn
    rcases hcase x n hn with ⟨_, rfl⟩ | ⟨_, ho⟩
    · rw [← he.arity]; exact hlen
    · rw [← he.arity]; exact hW.kids_len _ _ ho
  · intro x n hn k hk
    rcases hcase x n hn with ⟨_, rfl⟩ | ⟨_, ho⟩
    · exact he.mem (hmem k hk)
    · exact he.mem (hW.kids_mem _ _ ho k hk)
  · intro x n hn k hk
    rcases hcase x n hn with ⟨_, rfl⟩ | ⟨_, ho⟩
    · rw [he.levelOf (hmem k hk)]; exact hlt k hk
    · rw [he.levelOf (hW.kids_mem _ _ ho k hk)]; exact hW.kids_lt _ _ ho k hk
  · intro x n hn
    rcases hcase x n hn with ⟨rfl, _⟩ | ⟨_, ho⟩
    · exact hu2
    · exact hW.ge_two _ _ ho
  · intro x n hn
    rcases hcase x n hn with ⟨_, rfl⟩ | ⟨_, ho⟩
    · exact ⟨h0, rest, hL, hpos⟩
    · exact hW.head_pos _ _ ho
  · intro x n hn
    rcases hcase x n hn with ⟨_, rfl⟩ | ⟨_, ho⟩
    · obtain ⟨k, hk, hne⟩ := hnc
      exact ⟨k, hk, h0, by simp [hL], hne⟩
    · exact hW.not_const _ _ ho
  · intro x x' n hn hn'
    rcases hcase x n hn with ⟨rfl, rfl⟩ | ⟨hxu, ho⟩
    · rcases hcase x' _ hn' with ⟨rfl, _⟩ | ⟨_, ho'⟩
      · rfl
      · exact absurd ho' (hnew x')
    · rcases hcase x' n hn' with ⟨rfl, rfl⟩ | ⟨_, ho'⟩
      · exact absurd ho (hnew x)
      · exact hw.unique _ _ _ ho ho'

structure MakeOK (m : MddMgr) (i : Nat) (L : List Int) (u : Nat) (m' : MddMgr) : Prop where
  inv : MInv m'
  ext : MExt m.tbl m'.tbl
  node : m'.tbl.node? u = some ⟨i, L⟩
  ge_two : 2 ≤ u
  exact : ∀ ext, MRefExact m ext → MRefExact m' ext

theorem listInt_compare_eq (a b : List Int) : compare a b = .eq ↔ a = b := by
  exact Std.LawfulEqOrd.compare_eq_iff_eq

/-- second half of `find_or_add`: the canonical tuple is found or added -/
theorem mFindOrMake_spec (m : MddMgr) (h : MInv m) (i : Nat) (L : List Int)
    (h0 : Int) (rest : List Int) (hL : L = h0 :: rest) (hpos : 0 < h0)
    (hi : i < m.tbl.nvars) (hlen : L.length = m.tbl.arity i) (hmem : ∀ k ∈ L, m.tbl.Mem k)
    (hlt : ∀ k ∈ L, i < m.tbl.levelOf k) (hnc : ∃ k ∈ L, k ≠ h0)
    (u : Nat) (m' : MddMgr) (hr : mFindOrMake i L m = (.ok u, m')) : MakeOK m i L u m' := by
  unfold mFindOrMake at hr
  simp only at hr
  split at hr
  · -- already exists
    next u' hp =>
    simp only [Prod.mk.injEq, Except.ok.injEq] at hr
    obtain ⟨hu, hm⟩ := hr
    subst hu hm
    have hn := (h.pred ⟨i, L⟩ u').mp hp
    exact ⟨h, MExt.refl _, hn, h.wf.ge_two _ _ hn, fun _ hx => hx⟩
  · next hp =>
    split at hr
    · simp at hr
    · next u1 m1 ha =>
      have A := mAllocate_spec m h u1 m1 ha
      split at hr
      · simp at hr
      · next hnm =>
        split at hr
        · simp at hr
        · next m3 hinc =>
          simp only [Prod.mk.injEq, Except.ok.injEq] at hr
          obtain ⟨hu, hm⟩ := hr
          subst hu hm
          have hR := mIncrefAll_refOnly _ _ _ _ hinc
          have hnew : ∀ x, m.tbl.node? x ≠ some ⟨i, L⟩ := by
            intro x hx
            have := (h.pred ⟨i, L⟩ x).mpr hx
            rw [hp] at this; cases this
          have hwfu := m.tbl.addNode_wfu h.wf u1 i L A.fresh A.ge_two h0 rest hL hpos hi hlen hmem hlt
            hnc hnew
          have he := m.tbl.addNode_ext u1 ⟨i, L⟩ A.fresh
          -- the manager after the three dictionary updates
          have hm2tbl : ({ m1 with
              tbl := { m1.tbl with succ := m1.tbl.succ.insert u1 ⟨i, L⟩ }
              pred := m1.pred.insert (MNd.key ⟨i, L⟩) u1
              ref := m1.ref.insert u1 0 } : MddMgr).tbl = m.tbl.addNode u1 ⟨i, L⟩ := by
            show ({ m1.tbl with succ := m1.tbl.succ.insert u1 ⟨i, L⟩ } : MTbl) = _
            rw [A.tbl]; rfl
          have hinv2 : MInv ({ m1 with
              tbl := { m1.tbl with succ := m1.tbl.succ.insert u1 ⟨i, L⟩ }
              pred := m1.pred.insert (MNd.key ⟨i, L⟩) u1
              ref := m1.ref.insert u1 0 } : MddMgr) := by
            refine ⟨?_, ?_, ?_, ?_, ?_, ?_, ?_, ?_, ?_⟩
            · rw [hm2tbl]; exact hwfu
            · intro n x
              rw [hm2tbl]
              show (m1.pred.insert (MNd.key ⟨i, L⟩) u1)[n.key]? = some x ↔ _
              rw [TreeMap.getElem?_insert, MTbl.node?_addNode, A.pred]
              by_cases hk : (MNd.key ⟨i, L⟩) = n.key
              · have hn : n = ⟨i, L⟩ := (MNd.key_inj hk).symm
                subst hn
                simp only [(listInt_compare_eq _ _).mpr rfl, if_true, Option.some.injEq]
                constructor
                · intro hx; subst hx; simp
                · intro hx
                  by_cases hux : u1 = x
                  · exact hux
                  · simp [hux] at hx; exact absurd hx (hnew x)
              · have hc : compare (MNd.key ⟨i, L⟩) n.key ≠ .eq := fun hc => hk ((listInt_compare_eq _ _).mp hc)
                simp only [hc, if_false]
                rw [h.pred n x]
                by_cases hux : u1 = x
                · subst hux
                  simp only [if_true, Option.some.injEq]
                  constructor
                  · intro hx; rw [A.fresh] at hx; cases hx
                  · intro hx; exact absurd (congrArg MNd.key hx) hk
                · simp [hux]
            · show (m1.ref.insert u1 0).contains 1 = true
              rw [TreeMap.contains_insert, A.ref]; simp [h.refOne]
            · intro x n hn
              rw [hm2tbl, MTbl.node?_addNode] at hn
              show (m1.ref.insert u1 0).contains x = true
              rw [TreeMap.contains_insert, A.ref]
              by_cases hux : u1 = x
              · simp [hux]
              · simp only [hux, if_false] at hn
                simp [h.refDom _ _ hn]
            · exact A.inv.maxGe
            · intro x n hn
              rw [hm2tbl, MTbl.node?_addNode] at hn
              show x ≤ m1.max
              by_cases hux : u1 = x
              · subst hux; exact A.le_max
              · simp only [hux, if_false] at hn
                have := A.inv.maxOK x n (by rw [A.tbl]; exact hn)
                exact this
            · intro f hf
              have hf' : f ∈ m1.free := hf
              obtain ⟨f2, fm, fn⟩ := A.inv.freeOK f hf'
              refine ⟨f2, fm, ?_⟩
              rw [hm2tbl, MTbl.node?_addNode]
              have : u1 ≠ f := by intro hc; subst hc; exact A.notFree hf'
              simp only [this, if_false]
              rw [← A.tbl]; exact fn
            · exact A.inv.freeNodup
            · intro g a b w hc
              rw [hm2tbl]
              have hc' : m.cache[iteKey g a b]? = some w := by rw [← A.cache]; exact hc
              exact (h.cache g a b w hc').ext h.wf.toMWF he
          have hinv3 := hR.inv hinv2
          refine ⟨hinv3, ?_, ?_, A.ge_two, ?_⟩
          · rw [hR.tbl, hm2tbl]; exact he
          · rw [hR.tbl, hm2tbl, MTbl.node?_addNode]; simp
          · -- exact counts
            intro ext hx
            have hcount := mIncrefAll_count _ _ _ hinc
            have hW := h.wf.toMWF
            have hu1ne : u1 ≠ 1 := by have := A.ge_two; omega
            have hcntL : cntInto L u1 = 0 := by
              cases hc : cntInto L u1 with
              | zero => rfl
              | succ c =>
                exfalso
                obtain ⟨k, hk, habs⟩ := cntInto_pos_iff.mp (by rw [hc]; omega : 0 < cntInto L u1)
                rcases hmem k hk with h1 | h1
                · omega
                · rw [habs, A.fresh] at h1; cases h1
            have hbound : ∀ x, m.tbl.indeg (m1.max + 1) x = m.tbl.indeg (m.max + 1) x := by
              intro x
              apply m.tbl.indeg_bound (m.max + 1) x (m1.max + 1) (by have := A.maxle; omega)
              intro p hp
              cases hn : m.tbl.node? p with
              | none => rfl
              | some n => have := h.maxOK p n hn; omega
            have hindeg : ∀ x, m3.tbl.indeg (m3.max + 1) x = m.tbl.indeg (m.max + 1) x + cntInto L x := by
              intro x
              rw [hR.tbl, hm2tbl, hR.max]
              show (m.tbl.addNode u1 ⟨i, L⟩).indeg (m1.max + 1) x = _
              rw [m.tbl.indeg_addNode u1 ⟨i, L⟩ A.fresh (m1.max + 1) (by have := A.le_max; omega) x, hbound]
            have href : ∀ x, m3.ref[x]? = ((m.ref.insert u1 0)[x]?).map (fun v => v + cntInto L x) := by
              intro x
              rw [hcount x]
              show ((m1.ref.insert u1 0)[x]?).map _ = _
              rw [A.ref]
            constructor
            · intro x hxm
              rw [href x, natmap_getElem?_insert, hindeg x]
              by_cases hux : u1 = x
              · subst hux
                simp only [if_true, Option.map_some, Option.some.injEq]
                rw [m.tbl.indeg_fresh hW u1 A.fresh hu1ne, hx.extZero u1 hu1ne A.fresh, hcntL]
              · simp only [hux, if_false]
                have hxm' : x = 1 ∨ (m.tbl.node? x).isSome := by
                  rcases hxm with h1 | h1
                  · exact Or.inl h1
                  · right
                    rw [hR.tbl, hm2tbl, MTbl.node?_addNode, if_neg hux] at h1
                    exact h1
                rw [hx.cnt x hxm']
                simp only [Option.map_some, Option.some.injEq]
                omega
            · intro x hx1 hxn
              rw [hR.tbl, hm2tbl, MTbl.node?_addNode] at hxn
              by_cases hux : u1 = x
              · simp [hux] at hxn
              · simp only [hux, if_false] at hxn
                exact hx.extZero x hx1 hxn

/-- what `find_or_add(i, *nodes)` promises when it returns `r` -/
structure FoaOK (m : MddMgr) (i : Nat) (nodes : List Int) (r : Int) (m' : MddMgr) : Prop where
  inv : MInv m'
  ext : MExt m.tbl m'.tbl
  mem : m'.tbl.Mem r
  lvl : i ≤ m'.tbl.levelOf r
  len : nodes.length = m.tbl.arity i
  den : ∀ a k, nodes[a i]? = some k → denM m'.tbl r a = denM m'.tbl k a
  exact : ∀ ext, MRefExact m ext → MRefExact m' ext

theorem all_eq_of_all {l : List Int} {c : Int} (h : l.all (fun u => u == c) = true) :
    ∀ k ∈ l, k = c := by
  intro k hk
  have := List.all_eq_true.mp h k hk
  simpa using this

theorem exists_ne_of_not_all {l : List Int} {c : Int} (h : ¬ l.all (fun u => u == c) = true) :
    ∃ k ∈ l, k ≠ c := by
  induction l with
  | nil => simp at h
  | cons x xs ih =>
    by_cases hx : x = c
    · have : ¬ xs.all (fun u => u == c) = true := by
        intro hh; apply h; simp [hx]; simpa using hh
      obtain ⟨k, hk, hne⟩ := ih this
      exact ⟨k, List.mem_cons_of_mem _ hk, hne⟩
    · exact ⟨x, by simp, hx⟩

/-- `find_or_add`: for successors below level `i` (the documented precondition) the result
denotes "the successor selected by the value of variable `i`", the invariant is kept and
every old reference keeps its meaning -/
theorem mFindOrAddCore_spec (m : MddMgr) (h : MInv m) (i : Nat) (nodes : List Int)
    (hlt : ∀ k ∈ nodes, i < m.tbl.levelOf k)
    (r : Int) (m' : MddMgr) (hr : mFindOrAddCore i nodes m = (.ok r, m')) :
    FoaOK m i nodes r m' := by
  have hW := h.wf.toMWF
  unfold mFindOrAddCore at hr
  split at hr
  · simp at hr
  · next hi =>
    have hi' : i < m.tbl.nvars := by omega
    split at hr
    · simp at hr
    · next var hvar =>
      have harity : m.tbl.arity i = var.len := by simp [MTbl.arity, hvar]
      split at hr
      · simp at hr
      · next hlen =>
        have hlen' : nodes.length = m.tbl.arity i := by rw [harity]; simpa using hlen
        split at hr
        · simp at hr
        · next n0 tl =>
          split at hr
          · simp at hr
          · next hall =>
            have hmem : ∀ k ∈ n0 :: tl, m.tbl.Mem k := by
              intro k hk
              have hall' : (n0 :: tl).all m.mem = true := by simpa using hall
              have := List.all_eq_true.mp hall' k hk
              exact (MTbl.mem_iff m.tbl h.term k).mp this
            have hn0m : m.tbl.Mem n0 := hmem n0 (by simp)
            have hn00 : n0 ≠ 0 := m.tbl.mem_ne_zero hW hn0m
            split at hr
            · -- first successor complemented: negate all
              next hneg =>
              dsimp only at hr
              split at hr
              · -- all equal
                next hall2 =>
                simp only [Prod.mk.injEq, Except.ok.injEq] at hr
                obtain ⟨hr1, hm⟩ := hr
                subst hm
                have hr' : r = n0 := by omega
                subst hr'
                have hall3 := all_eq_of_all hall2
                refine ⟨h, MExt.refl _, hn0m, Nat.le_of_lt (hlt r (by simp)), hlen', ?_, fun _ hx => hx⟩
                intro a k hk
                have hkm := getElem?_mem' hk
                have : -k = -r := hall3 (-k) (by
                  rw [List.mem_map]; exact ⟨k, hkm, rfl⟩)
                have : k = r := by omega
                rw [this]
              · next hall2 =>
                split at hr
                · simp at hr
                · next u m1 hmk =>
                  simp only [Prod.mk.injEq, Except.ok.injEq] at hr
                  obtain ⟨hr1, hm⟩ := hr
                  subst hm
                  obtain ⟨k', hk', hne⟩ := exists_ne_of_not_all hall2
                  have M := mFindOrMake_spec m h i ((n0 :: tl).map (fun u => -u)) (-n0)
                    (tl.map (fun u => -u)) (by simp) (by omega) hi'
                    (by rw [List.length_map]; exact hlen')
                    (by
                      intro k hk
                      rw [List.mem_map] at hk
                      obtain ⟨c, hc, rfl⟩ := hk
                      exact MTbl.mem_neg (hmem c hc))
                    (by
                      intro k hk
                      rw [List.mem_map] at hk
                      obtain ⟨c, hc, rfl⟩ := hk
                      rw [MTbl.levelOf_neg]; exact hlt c hc)
                    ⟨k', hk', hne⟩ u m1 hmk
                  have hW1 := M.inv.wf.toMWF
                  have hu1 : ((u : Int)).natAbs ≠ 1 := by have := M.ge_two; omega
                  have hnode : m1.tbl.node? ((u : Int)).natAbs = some ⟨i, (n0 :: tl).map (fun u => -u)⟩ := by
                    simpa using M.node
                  have humem : m1.tbl.Mem (u : Int) := Or.inr (by rw [hnode]; rfl)
                  have hrr : r = -(u : Int) := by omega
                  subst hrr
                  refine ⟨M.inv, M.ext, MTbl.mem_neg humem, ?_, hlen', ?_, M.exact⟩
                  · rw [MTbl.levelOf_neg, m1.tbl.levelOf_node (u : Int) _ hu1 hnode]
                    exact Nat.le_refl _
                  · intro a k hk
                    have hk2 : ((n0 :: tl).map (fun u => -u))[a i]? = some (-k) := by
                      rw [List.getElem?_map, hk]; rfl
                    rw [denM_neg m1.tbl hW1 (u : Int) a humem,
                      denM_node_kid m1.tbl hW1 (u : Int) _ a (-k) hu1 hnode hk2]
                    have hkm : m1.tbl.Mem k := M.ext.mem (hmem k (getElem?_mem' hk))
                    rw [denM_neg m1.tbl hW1 k a hkm]
                    have : ¬ ((u : Int) < 0) := by omega
                    simp [this]
            · next hneg =>
              split at hr
              · next hall2 =>
                simp only [Prod.mk.injEq, Except.ok.injEq] at hr
                obtain ⟨hr1, hm⟩ := hr
                subst hm
                have hr' : r = n0 := by omega
                subst hr'
                have hall3 := all_eq_of_all hall2
                refine ⟨h, MExt.refl _, hn0m, Nat.le_of_lt (hlt r (by simp)), hlen', ?_, fun _ hx => hx⟩
                intro a k hk
                rw [hall3 k (getElem?_mem' hk)]
              · next hall2 =>
                split at hr
                · simp at hr
                · next u m1 hmk =>
                  simp only [Prod.mk.injEq, Except.ok.injEq] at hr
                  obtain ⟨hr1, hm⟩ := hr
                  subst hm
                  obtain ⟨k', hk', hne⟩ := exists_ne_of_not_all hall2
                  have M := mFindOrMake_spec m h i (n0 :: tl) n0 tl rfl (by omega) hi' hlen' hmem hlt
                    ⟨k', hk', hne⟩ u m1 hmk
                  have hW1 := M.inv.wf.toMWF
                  have hu1 : ((u : Int)).natAbs ≠ 1 := by have := M.ge_two; omega
                  have hnode : m1.tbl.node? ((u : Int)).natAbs = some ⟨i, n0 :: tl⟩ := by
                    simpa using M.node
                  have humem : m1.tbl.Mem (u : Int) := Or.inr (by rw [hnode]; rfl)
                  have hrr : r = (u : Int) := by omega
                  subst hrr
                  refine ⟨M.inv, M.ext, humem, ?_, hlen', ?_, M.exact⟩
                  · rw [m1.tbl.levelOf_node (u : Int) _ hu1 hnode]
                    exact Nat.le_refl _
                  · intro a k hk
                    rw [denM_node_kid m1.tbl hW1 (u : Int) _ a k hu1 hnode hk]
                    have : ¬ ((u : Int) < 0) := by omega
                    simp [this]

end DD
