/-
  DDProofs.Reach4Sched — the histories of DDProofs.Reach4 (`UOp4`) with a RECORDED ITERATION
  SCHEDULE on the decorated calls.

  In DDProofs.Reach4 the decorated operations `cube`, `add_expr`, `image`, `preimage`,
  `copy_bdd(…, to this manager)` run with the default schedule only (`Good3.sched = []`), as the
  decorated operations of `UOp` did before DDProofs.DynSchedReach.  Here a call is a pair
  (schedule, operation of `UOp4`); `runCall4S` runs a decorated operation as the driver does (the
  schedule of the line is put into `m.sched`, what is left is dropped).  `step4S_inv` /
  `reachable4S_from`: from a good state every guarded call leads to a good state, every held
  reference keeps its function of the variable names, the internal signal never escapes.

  The guard of a call WITH a schedule (`CallGuard4S`): the operation is a decorated one, two
  variables are declared, and the model does not answer `MODEL-SCHEDULE-MISMATCH` — for the
  decorated operations of `UOp` that guard follows from "the schedule encodes a choice"
  (`callGuardS_of_choice`, DDProofs.SchedAcceptGuards), and so it does for `copy_bdd`
  (`copyFrom_guard_of_choice` below).
-/
import DDProofs.Reach4
import DDProofs.DynSchedReach
import DDProofs.SchedAcceptGuards
open Std

namespace DD

/-- a call of a history of `UOp4` together with the iteration schedule recorded for it -/
structure SCall4 where
  sch : List SchedItem
  op : UOp4

/-- the decorated operations that `UOp4` adds to `UOp3` -/
def UOp4.decoratedNew : UOp4 → Bool
  | .cube _ | .addExpr _ | .image _ _ _ _ _ | .preimage _ _ _ _ _ | .copyFrom _ _ => true
  | _ => false

/-- one call as the driver runs it -/
def runCall4S (c : SCall4) (m : Mgr) : Except Err Res × Mgr :=
  match c.sch, c.op with
  | _ :: _, .op o => runCallS ⟨c.sch, o⟩ m
  | _ :: _, .cube d => clearSched (mapRes .ref (cube d { m with sched := c.sch }))
  | _ :: _, .addExpr s => clearSched (mapRes .ref (addExpr s { m with sched := c.sch }))
  | _ :: _, .image t s rn q fa => clearSched (mapRes .ref (image t s rn q fa { m with sched := c.sch }))
  | _ :: _, .preimage t s rn q fa =>
    clearSched (mapRes .ref (preimage t s rn q fa { m with sched := c.sch }))
  | _ :: _, .copyFrom src u => clearSched (mapRes .ref (copyBdd src u { m with sched := c.sch }))
  | _, o => runOp4 o m

/-- the guard of a call: that of DDProofs.Reach4 without a schedule; with one, the operation is a
decorated one on at least two variables and the model does not report a mismatch -/
def CallGuard4S (m : Mgr) (ext : Nat → Nat) (c : SCall4) : Prop :=
  match c.sch, c.op with
  | [], o => OpGuard4 m ext o
  | s :: sch, .op o => CallGuardS m ext ⟨s :: sch, o⟩
  | s :: sch, o => o.decoratedNew = true ∧ 2 ≤ m.nvars ∧
      isSchedErr (runOp4 o { m with sched := s :: sch }).1 = false

instance (m : Mgr) (ext : Nat → Nat) (c : SCall4) : Decidable (CallGuard4S m ext c) := by
  obtain ⟨sch, op⟩ := c
  cases sch with
  | nil => exact inferInstanceAs (Decidable (OpGuard4 m ext op))
  | cons s sch =>
    cases op with
    | op o => exact inferInstanceAs (Decidable (CallGuardS m ext ⟨s :: sch, o⟩))
    | cube _ => exact inferInstanceAs (Decidable (_ ∧ _ ∧ _))
    | addExpr _ => exact inferInstanceAs (Decidable (_ ∧ _ ∧ _))
    | image _ _ _ _ _ => exact inferInstanceAs (Decidable (_ ∧ _ ∧ _))
    | preimage _ _ _ _ _ => exact inferInstanceAs (Decidable (_ ∧ _ ∧ _))
    | gcRooted _ => exact inferInstanceAs (Decidable (_ ∧ _ ∧ _))
    | reorderToPairs _ _ => exact inferInstanceAs (Decidable (_ ∧ _ ∧ _))
    | copyFrom _ _ => exact inferInstanceAs (Decidable (_ ∧ _ ∧ _))
    | loadPickle _ _ => exact inferInstanceAs (Decidable (_ ∧ _ ∧ _))

/-- the ledger of a call -/
def ledger4S (c : SCall4) (m : Mgr) (ext : Nat → Nat) : Nat → Nat := ledger4 c.op m ext

/-- a decorated call with ANY arguments under a recorded schedule that the model does not reject:
what the C17 theorems for every schedule (`DynTotalS`) give the history -/
theorem step_of_dynTotalS {α : Type} {m : Mgr} {ext : Nat → Nat} (h : Good3 m ext)
    (sch : List SchedItem) (g : α → Res) (x : Except Err α × Mgr)
    (htot : DynTotalS ext { m with sched := sch } x) (hns : isSchedErr x.1 = false) :
    Good3 (clearSched (mapRes g x)).2 ext ∧ Held2 ext m (clearSched (mapRes g x)).2 ∧
    (clearSched (mapRes g x)).1 ≠ .error .needsReordering := by
  rcases htot.driver with ⟨hsig, hk⟩ | ⟨he, _⟩
  · exact ⟨hk.inv.good3 (hk.roots.trans h.roots), fun u hu => hk.held u (Or.inr hu),
      mapRes_noSignal g x hsig⟩
  · rw [he] at hns
    cases hns

/-- `image` / `preimage` with ANY arguments, every recorded schedule (C17) -/
theorem image_total_dynS (ext : Nat → Nat) (m : Mgr) (hD : DynInvS ext m) (t s : Int)
    (rn : List (Key × Key)) (q : List Key) (fa : Bool) : DynTotalS ext m (image t s rn q fa m) := by
  unfold image
  split
  · next e heq =>
    exact DynTotalS.same hD _ (fun he => qvarsByName_noSignal m.tbl q (by rw [heq]; cases he; rfl))
  · exact tryToReorder_total_dynS ext (siftContractS ext) _
      (fun m0 hI hc _ => imageBody_totE_r4 t s _ _ fa m0 hI hc) m hD

theorem preimage_total_dynS (ext : Nat → Nat) (m : Mgr) (hD : DynInvS ext m) (t s : Int)
    (rn : List (Key × Key)) (q : List Key) (fa : Bool) : DynTotalS ext m (preimage t s rn q fa m) := by
  unfold preimage
  split
  · next e heq =>
    exact DynTotalS.same hD _ (fun he => qvarsByName_noSignal m.tbl q (by rw [heq]; cases he; rfl))
  · exact tryToReorder_total_dynS ext (siftContractS ext) _
      (fun m0 hI hc _ => preimageBody_totE_r4 t s _ _ fa m0 hI hc) m hD

/-- **one step**, recorded schedules included -/
theorem step4S_inv (m : Mgr) (ext : Nat → Nat) (c : SCall4) (h : Good3 m ext) (hg : CallGuard4S m ext c) :
    Good3 (runCall4S c m).2 (ledger4S c m ext) ∧ Held2 ext m (runCall4S c m).2 ∧
    (runCall4S c m).1 ≠ .error .needsReordering := by
  obtain ⟨sch, op⟩ := c
  cases sch with
  | nil =>
    have hg' : OpGuard4 m ext op := hg
    have hr : runCall4S ⟨[], op⟩ m = runOp4 op m := by cases op <;> rfl
    rw [hr]
    exact ⟨step4_inv m ext op h hg', step4_heldSame m ext op h hg', step4_noSignal m ext op h hg'⟩
  | cons s sch =>
    cases op with
    | op o =>
      have hg' : CallGuardS m ext ⟨s :: sch, o⟩ := hg
      exact stepS_inv m ext ⟨s :: sch, o⟩ h hg'
    | cube d =>
      obtain ⟨_, h2, hns⟩ : _ ∧ 2 ≤ m.nvars ∧
        isSchedErr (mapRes Res.ref (cube d { m with sched := s :: sch })).1 = false := hg
      rw [mapRes_isSchedErr] at hns
      exact step_of_dynTotalS h (s :: sch) _ _
        (cube_total_dynS ext _ ((h.dynInv h2).withSched (s :: sch)) d) hns
    | addExpr e =>
      obtain ⟨_, h2, hns⟩ : _ ∧ 2 ≤ m.nvars ∧
        isSchedErr (mapRes Res.ref (addExpr e { m with sched := s :: sch })).1 = false := hg
      rw [mapRes_isSchedErr] at hns
      exact step_of_dynTotalS h (s :: sch) _ _
        (addExpr_total_dynS ext _ ((h.dynInv h2).withSched (s :: sch)) e) hns
    | image t s' rn q fa =>
      obtain ⟨_, h2, hns⟩ : _ ∧ 2 ≤ m.nvars ∧
        isSchedErr (mapRes Res.ref (image t s' rn q fa { m with sched := s :: sch })).1 = false := hg
      rw [mapRes_isSchedErr] at hns
      exact step_of_dynTotalS h (s :: sch) _ _
        (image_total_dynS ext _ ((h.dynInv h2).withSched (s :: sch)) t s' rn q fa) hns
    | preimage t s' rn q fa =>
      obtain ⟨_, h2, hns⟩ : _ ∧ 2 ≤ m.nvars ∧
        isSchedErr (mapRes Res.ref (preimage t s' rn q fa { m with sched := s :: sch })).1 = false := hg
      rw [mapRes_isSchedErr] at hns
      exact step_of_dynTotalS h (s :: sch) _ _
        (preimage_total_dynS ext _ ((h.dynInv h2).withSched (s :: sch)) t s' rn q fa) hns
    | copyFrom src u =>
      obtain ⟨_, h2, hns⟩ : _ ∧ 2 ≤ m.nvars ∧
        isSchedErr (mapRes Res.ref (copyBdd src u { m with sched := s :: sch })).1 = false := hg
      rw [mapRes_isSchedErr] at hns
      exact step_of_dynTotalS h (s :: sch) _ _
        (copyBdd_total_dynS ext _ ((h.dynInv h2).withSched (s :: sch)) src u) hns
    | gcRooted _ => exact absurd hg.1 (by simp [UOp4.decoratedNew])
    | reorderToPairs _ _ => exact absurd hg.1 (by simp [UOp4.decoratedNew])
    | loadPickle _ _ => exact absurd hg.1 (by simp [UOp4.decoratedNew])

/-! ### histories -/

def step4S (c : SCall4) (s : St) : St := ⟨(runCall4S c s.m).2, ledger4S c s.m s.ext⟩

def run4S : List SCall4 → St → St
  | [], s => s
  | c :: cs, s => run4S cs (step4S c s)

def Calls4GuardedS : List SCall4 → St → Prop
  | [], _ => True
  | c :: cs, s => CallGuard4S s.m s.ext c ∧ Calls4GuardedS cs (step4S c s)

def results4S : List SCall4 → St → List (Except Err Res)
  | [], _ => []
  | c :: cs, s => (runCall4S c s.m).1 :: results4S cs (step4S c s)

instance decCalls4GuardedS : (cs : List SCall4) → (s : St) → Decidable (Calls4GuardedS cs s)
  | [], _ => isTrue trivial
  | c :: cs, s => by
    unfold Calls4GuardedS
    exact @instDecidableAnd _ _ _ (decCalls4GuardedS cs (step4S c s))

/-- **`reachable4S_from`**: a guarded history of `UOp4` whose decorated calls run under recorded
schedules, from ANY good state, ends in a good state -/
theorem reachable4S_from (cs : List SCall4) (s : St) (h : Good3 s.m s.ext) (hg : Calls4GuardedS cs s) :
    Good3 (run4S cs s).m (run4S cs s).ext := by
  induction cs generalizing s with
  | nil => exact h
  | cons c cs ih => exact ih (step4S c s) (step4S_inv s.m s.ext c h hg.1).1 hg.2

theorem reachable4S_inv (cs : List SCall4) (hg : Calls4GuardedS cs St.init) :
    Good3 (run4S cs St.init).m (run4S cs St.init).ext :=
  reachable4S_from cs St.init Good3.init hg

/-- a history without recorded schedules is a history of DDProofs.Reach4 -/
theorem run4S_nil (ops : List UOp4) (s : St) : run4S (ops.map (SCall4.mk [])) s = run4 ops s := by
  induction ops generalizing s with
  | nil => rfl
  | cons op ops ih =>
    have : step4S ⟨[], op⟩ s = step4 op s := by cases op <;> rfl
    show run4S (ops.map (SCall4.mk [])) (step4S ⟨[], op⟩ s) = run4 ops (step4 op s)
    rw [this]
    exact ih (step4 op s)

/-- the internal signal never reaches the user, in no call of a guarded history -/
theorem results4S_noSignal (cs : List SCall4) (s : St) (h : Good3 s.m s.ext) (hg : Calls4GuardedS cs s) :
    ∀ r ∈ results4S cs s, r ≠ .error .needsReordering := by
  induction cs generalizing s with
  | nil => intro r hr; cases hr
  | cons c cs ih =>
    intro r hr
    have hst := step4S_inv s.m s.ext c h hg.1
    rcases List.mem_cons.mp hr with rfl | hr
    · exact hst.2.2
    · exact ih (step4S c s) hst.1 hg.2 r hr

/-- a reference the user holds and does not release stays a node and keeps its function of the
variable NAMES through ANY guarded continuation -/
theorem run4S_held (cs : List SCall4) (s : St) (h : Good3 s.m s.ext) (hg : Calls4GuardedS cs s) (u : Int)
    (hheld : ∀ (pre post : List SCall4), cs = pre ++ post → 0 < (run4S pre s).ext u.natAbs) :
    (run4S cs s).m.tbl.Mem u ∧ ∀ σ, denN (run4S cs s).m.tbl u σ = denN s.m.tbl u σ := by
  induction cs generalizing s with
  | nil => exact ⟨h.exact.mem_of_ext_pos (hheld [] [] rfl), fun _ => rfl⟩
  | cons c cs ih =>
    have h0 : 0 < s.ext u.natAbs := hheld [] (c :: cs) rfl
    have hst := step4S_inv s.m s.ext c h hg.1
    obtain ⟨-, hd1⟩ := hst.2.1 u h0
    obtain ⟨hm2, hd2⟩ := ih (step4S c s) hst.1 hg.2
      (fun pre post he => hheld (c :: pre) post (by rw [he]; rfl))
    exact ⟨hm2, fun σ => (hd2 σ).trans (hd1 σ)⟩

/-! ### the guard from a choice -/

theorem copyBddBody_snk (src : Tbl) (u : Int) : SNK (copyBddBody src u) := by
  intro s m hc
  unfold copyBddBody
  simp only [setS_tbl]
  snk_next copyBddF_snk (some src) (copyMap src m.tbl) (src.nvars + 2) u {} s m hc,
    copyBddF (some src) (copyMap src m.tbl) (src.nvars + 2) u _ m => ⟨r, c⟩ m1 hc1
  snk_leaf hc1

/-- `copy_bdd(u, from_bdd, this manager)` accepts every valid choice -/
theorem copyBdd_accepts (ext : Nat → Nat) (c : Choice) (hc : c.Valid) (m : Mgr) (hD : DynInvS ext m)
    (src : Tbl) (u : Int) : AcceptsC c (copyBddBody src u) m :=
  tryToReorder_accepts ext c hc _ (copyBddBody_snk src u).snc (copyBddBody_snk src u).nsc
    (fun m0 hI hc0 _ => copyBddBody_totE src m0 hI hc0 u) m hD

/-- the guard of `copyFrom` with a recorded schedule, from a choice -/
theorem copyFrom_guard_of_choice (m : Mgr) (ext : Nat → Nat) (h : Good3 m ext) (h2 : 2 ≤ m.nvars)
    (c : Choice) (hc : c.Valid) (src : Tbl) (u : Int) (s : SchedItem) (sch : List SchedItem)
    (hl : logOf (tryToReorderC c (copyBddBody src u) [] m).1 = some (s :: sch)) :
    CallGuard4S m ext ⟨s :: sch, .copyFrom src u⟩ := by
  refine ⟨rfl, h2, ?_⟩
  show isSchedErr (mapRes Res.ref (copyBdd src u { m with sched := s :: sch })).1 = false
  rw [mapRes_isSchedErr]
  exact (copyBdd_accepts ext c hc m (h.dynInv h2).toS src u).not_sched hl

/-- the guard of a decorated operation of `UOp` inside `UOp4`, from a choice -/
theorem callGuard4S_of_choice (m : Mgr) (ext : Nat → Nat) (h : Good3 m ext) (h2 : 2 ≤ m.nvars)
    (c : Choice) (hc : c.Valid) (b : UOp) (hdec : b.decorated = true) (s : SchedItem)
    (sch : List SchedItem) (hl : logOf (runOpC c b m).1 = some (s :: sch)) :
    CallGuard4S m ext ⟨s :: sch, .op (.op (.base b))⟩ :=
  callGuardS_of_choice m ext h h2 c hc b hdec s sch hl

end DD
