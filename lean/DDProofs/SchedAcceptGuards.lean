/-
  DDProofs.SchedAcceptGuards — the guards `isSchedErr (… { m with sched := sch }).1 = false` of the
  history theorems (`OpGuard2`: `swap`, `sift`, `reorderTo`; `OpGuard4`: `reorderToPairs`;
  `CallGuardS`: a decorated call with a recorded schedule) hold for every schedule that ENCODES A
  CHOICE of iteration orders: the record of a choice-driven run that returned.

  `EncodesChoice run m sch` is decidable: read the choice off the schedule (`Choice.ofSched`: the
  k-th item answers the k-th query, the default order where it does not fit — always a valid
  choice), replay the choice-driven model, compare the record with `sch`.
-/
import DDProofs.SchedAcceptOps
import DDProofs.Reach4
import DDProofs.DynSchedReach
open Std

namespace DD

deriving instance DecidableEq for SchedItem

/-- the choice read off a schedule: the `k`-th item answers the `k`-th query, if it fits -/
def Choice.ofSched (sch : List SchedItem) : Choice where
  names k l :=
    match sch[k]? with
    | some (.sift ns) => if ns.Perm l then ns else l
    | _ => l
  level k j l :=
    match sch[k]? with
    | some (.swap lv) => if ((lv.lookup j).getD []).Perm l then (lv.lookup j).getD [] else l
    | _ => l

theorem Choice.ofSched_valid (sch : List SchedItem) : (Choice.ofSched sch).Valid := by
  refine ⟨fun k l => ?_, fun k j l => ?_⟩
  · show (match sch[k]? with
      | some (.sift ns) => if ns.Perm l then ns else l
      | _ => l).Perm l
    split
    · split
      · assumption
      · exact .refl _
    · exact .refl _
  · show (match sch[k]? with
      | some (.swap lv) => if ((lv.lookup j).getD []).Perm l then (lv.lookup j).getD [] else l
      | _ => l).Perm l
    split
    · split
      · assumption
      · exact .refl _
    · exact .refl _

/-- **`sch` encodes a choice** for the choice-driven run `run` started in `m`: replaying the choice
read off `sch` returns, and records exactly `sch` -/
def EncodesChoice {α} (run : Choice → List SchedItem → M (α × List SchedItem)) (m : Mgr)
    (sch : List SchedItem) : Prop :=
  logOf (run (Choice.ofSched sch) [] m).1 = some sch

instance {α} (run : Choice → List SchedItem → M (α × List SchedItem)) (m : Mgr)
    (sch : List SchedItem) : Decidable (EncodesChoice run m sch) :=
  inferInstanceAs (Decidable (_ = _))

/-- the record of an accepted returning run is not answered `.sched` -/
theorem AccC.not_sched {α} {ext : Nat → Nat} {a : Except Err (α × List SchedItem) × Mgr} {F : M α}
    {m : Mgr} (h : AccC ext a [] F m) {sch : List SchedItem} (hl : logOf a.1 = some sch)
    (rest : List SchedItem) : isSchedErr (F (setS (sch ++ rest) m)).1 = false := by
  obtain ⟨ra, m'⟩ := a
  cases ra with
  | error e => cases hl
  | ok p =>
    obtain ⟨r, log'⟩ := p
    obtain ⟨new, hlog, _, _, hrun⟩ := h.ok_run
    have : sch = new := by
      have h1 : log' = sch := by cases hl; rfl
      rw [← h1, hlog]; rfl
    rw [this, hrun rest]
    rfl

/-! ### the guards of the explicit reorderings -/

/-- `reorder(bdd)`: the record of ANY valid choice passes the guard of `UOp2.sift` -/
theorem sift_guard_of_choice (m : Mgr) (ext : Nat → Nat) (h : Good3 m ext) (c : Choice) (hc : c.Valid)
    (sch : List SchedItem) (hl : logOf (reorderC c none [] m).1 = some sch) :
    OpGuard2 m ext (.sift sch) := by
  have := (reorderC_acc ext c hc none [] m (h.reorderInv m.sched)).not_sched hl []
  rw [List.append_nil] at this
  exact this

theorem reorderTo_guard_of_choice (m : Mgr) (ext : Nat → Nat) (h : Good3 m ext) (c : Choice)
    (hc : c.Valid) (o : List (String × Int)) (sch : List SchedItem)
    (hl : logOf (reorderC c (some o) [] m).1 = some sch) : OpGuard2 m ext (.reorderTo sch o) := by
  have := (reorderC_acc ext c hc (some o) [] m (h.reorderInv m.sched)).not_sched hl []
  rw [List.append_nil] at this
  exact this

theorem swap_guard_of_choice (m : Mgr) (ext : Nat → Nat) (h : Good3 m ext) (c : Choice)
    (hc : c.Valid) (x y : VarOrLevel) (sch : List SchedItem)
    (hl : logOf (swapPublicC c x y [] m).1 = some sch) : OpGuard2 m ext (.swap sch x y) := by
  have := (swapPublicC_acc ext c hc m (h.reorderInv m.sched) x y []).not_sched hl []
  rw [List.append_nil] at this
  exact this

theorem reorderToPairs_guard_of_choice (m : Mgr) (ext : Nat → Nat) (h : Good3 m ext) (c : Choice)
    (hc : c.Valid) (ps : List (String × String)) (sch : List SchedItem)
    (hl : logOf (reorderToPairsC c ps [] m).1 = some sch) : OpGuard4 m ext (.reorderToPairs sch ps) := by
  have := (reorderToPairsC_acc ext c hc ps [] m (h.reorderInv m.sched)).not_sched hl []
  rw [List.append_nil] at this
  exact this

/-- the decidable form: a schedule that encodes a choice passes the guard -/
theorem sift_guard_of_encodes (m : Mgr) (ext : Nat → Nat) (h : Good3 m ext) (sch : List SchedItem)
    (he : EncodesChoice (fun c => reorderC c none) m sch) : OpGuard2 m ext (.sift sch) :=
  sift_guard_of_choice m ext h _ (Choice.ofSched_valid sch) sch he

theorem reorderTo_guard_of_encodes (m : Mgr) (ext : Nat → Nat) (h : Good3 m ext)
    (o : List (String × Int)) (sch : List SchedItem)
    (he : EncodesChoice (fun c => reorderC c (some o)) m sch) : OpGuard2 m ext (.reorderTo sch o) :=
  reorderTo_guard_of_choice m ext h _ (Choice.ofSched_valid sch) o sch he

theorem swap_guard_of_encodes (m : Mgr) (ext : Nat → Nat) (h : Good3 m ext) (x y : VarOrLevel)
    (sch : List SchedItem) (he : EncodesChoice (fun c => swapPublicC c x y) m sch) :
    OpGuard2 m ext (.swap sch x y) :=
  swap_guard_of_choice m ext h _ (Choice.ofSched_valid sch) x y sch he

theorem reorderToPairs_guard_of_encodes (m : Mgr) (ext : Nat → Nat) (h : Good3 m ext)
    (ps : List (String × String)) (sch : List SchedItem)
    (he : EncodesChoice (fun c => reorderToPairsC c ps) m sch) :
    OpGuard4 m ext (.reorderToPairs sch ps) :=
  reorderToPairs_guard_of_choice m ext h _ (Choice.ofSched_valid sch) ps sch he

/-- sifting with two variables: EVERY valid choice yields a schedule that passes the guard -/
theorem sift_guard_total (m : Mgr) (ext : Nat → Nat) (h : Good3 m ext) (h2 : 2 ≤ m.nvars) (c : Choice)
    (hc : c.Valid) : ∃ sch, logOf (reorderC c none [] m).1 = some sch ∧ OpGuard2 m ext (.sift sch) := by
  obtain ⟨sch, m', hrun, _⟩ := applySiftingC_total ext c hc m (h.reorderInv m.sched) h2 []
  have hl : logOf (reorderC c none [] m).1 = some sch := by
    show logOf (applySiftingC c [] m).1 = some sch
    rw [hrun]; rfl
  exact ⟨sch, hl, sift_guard_of_choice m ext h c hc sch hl⟩

/-! ### the guard of a decorated call with a recorded schedule -/

/-- from acceptance: the record of the choice-driven call passes the guard -/
theorem AcceptsF.not_sched {α} {FC : M (α × List SchedItem)} {F : M α} {m : Mgr} (h : AcceptsF FC F m)
    {sch : List SchedItem} (hl : logOf (FC m).1 = some sch) :
    isSchedErr (F { m with sched := sch }).1 = false := by
  obtain ⟨sch', hrec, _, hns⟩ := h
  have e : sch = sch' := by
    generalize (FC m).1 = a at hl hrec
    cases a with
    | error e => cases hl
    | ok p =>
      obtain ⟨r, log'⟩ := p
      cases hl
      exact hrec r _ rfl
  have := hns []
  rw [List.append_nil, ← e] at this
  show isSchedErr (F (setS sch m)).1 = false
  generalize (F (setS sch m)).1 = r at this
  cases r with
  | ok a => rfl
  | error e' =>
    cases e' <;> first | rfl | exact absurd rfl this

/-- the result of a choice-driven call as a result of the history vocabulary, the record kept -/
def mapResC {α : Type} (f : α → Res) (x : Except Err (α × List SchedItem) × Mgr) :
    Except Err (Res × List SchedItem) × Mgr :=
  (match x.1 with
    | .ok (a, log) => .ok (f a, log)
    | .error e => .error e, x.2)

theorem logOf_mapResC {α : Type} (f : α → Res) (x : Except Err (α × List SchedItem) × Mgr) :
    logOf (mapResC f x).1 = logOf x.1 := by
  obtain ⟨r, m⟩ := x
  cases r with
  | ok p => rfl
  | error e => rfl

/-- one DECORATED user call under the choice `c` (the calls of `runOp` that go through
`_try_to_reorder`); the other calls have no iteration order to choose -/
def runOpC (c : Choice) : UOp → Mgr → Except Err (Res × List SchedItem) × Mgr
  | .var name, m => mapResC .ref (tryToReorderC c (varBody name) [] m)
  | .ite g u v, m => mapResC .ref (tryToReorderC c (iteRaw g u v) [] m)
  | .apply op u v w, m => mapResC .ref (applyC c op u v w [] m)
  | .neg u, m => mapResC .ref (applyC c "not" u none none [] m)
  | .cofactor u values, m => mapResC .ref (tryToReorderC c (cofactorBody u values) [] m)
  | .quantify u qvars fa, m => mapResC .ref (tryToReorderC c (quantifyBody u qvars fa) [] m)
  | .compose f varSub, m => mapResC .ref (tryToReorderC c (composeBody f varSub) [] m)
  | .rename u dvars, m => mapResC .ref (tryToReorderC c (renameBody u dvars) [] m)
  | .let_ d u, m => mapResC .ref (letOpC c d u [] m)
  | b, m => ((runOp b m).1.map (fun r => (r, [])), (runOp b m).2)

/-- every decorated operation of `UOp`, ANY arguments, accepts every valid choice -/
theorem decorated_accepts (ext : Nat → Nat) (c : Choice) (hc : c.Valid) (m : Mgr) (hD : DynInvS ext m)
    (b : UOp) (hdec : b.decorated = true) :
    ∃ (α : Type) (FC : M (α × List SchedItem)) (F : M α) (f : α → Res),
      (∀ m', runOp b m' = mapRes f (F m')) ∧ runOpC c b m = mapResC f (FC m) ∧ AcceptsF FC F m := by
  cases b with
  | var name => exact ⟨_, _, _, _, fun _ => rfl, rfl, var_accepts ext c hc m hD name⟩
  | ite g u v => exact ⟨_, _, _, _, fun _ => rfl, rfl, ite_accepts ext c hc m hD g u v⟩
  | apply o u v w => exact ⟨_, _, _, _, fun _ => rfl, rfl, apply_accepts ext c hc m hD o u v w⟩
  | neg u => exact ⟨_, _, _, _, fun _ => rfl, rfl, apply_accepts ext c hc m hD "not" u none none⟩
  | cofactor u values => exact ⟨_, _, _, _, fun _ => rfl, rfl, cofactor_accepts ext c hc m hD u values⟩
  | quantify u qvars fa => exact ⟨_, _, _, _, fun _ => rfl, rfl, quantify_accepts ext c hc m hD u qvars fa⟩
  | compose f varSub => exact ⟨_, _, _, _, fun _ => rfl, rfl, compose_accepts ext c hc m hD f varSub⟩
  | rename u dvars => exact ⟨_, _, _, _, fun _ => rfl, rfl, rename_accepts ext c hc m hD u dvars⟩
  | let_ d u => exact ⟨_, _, _, _, fun _ => rfl, rfl, letOp_accepts ext c hc m hD d u⟩
  | _ => cases hdec

/-- **`CallGuardS` from a choice**: in a good state with two variables, for every decorated
operation with ANY arguments, a non-empty schedule recorded by the choice-driven call under a
valid choice passes the guard of a call with a recorded schedule -/
theorem callGuardS_of_choice (m : Mgr) (ext : Nat → Nat) (h : Good3 m ext) (h2 : 2 ≤ m.nvars)
    (c : Choice) (hc : c.Valid) (b : UOp) (hdec : b.decorated = true) (s : SchedItem)
    (sch : List SchedItem) (hl : logOf (runOpC c b m).1 = some (s :: sch)) :
    CallGuardS m ext ⟨s :: sch, .op (.base b)⟩ := by
  refine ⟨hdec, h2, ?_⟩
  obtain ⟨α, FC, F, f, e1, e2, hA⟩ := decorated_accepts ext c hc m (h.dynInv h2).toS b hdec
  rw [e1, mapRes_isSchedErr]
  rw [e2, logOf_mapResC] at hl
  exact hA.not_sched hl

/-- the decidable form: `s :: sch` encodes a choice for the decorated call `b` in `m` -/
theorem callGuardS_of_encodes (m : Mgr) (ext : Nat → Nat) (h : Good3 m ext) (h2 : 2 ≤ m.nvars)
    (b : UOp) (hdec : b.decorated = true) (s : SchedItem) (sch : List SchedItem)
    (he : logOf (runOpC (Choice.ofSched (s :: sch)) b m).1 = some (s :: sch)) :
    CallGuardS m ext ⟨s :: sch, .op (.base b)⟩ :=
  callGuardS_of_choice m ext h h2 _ (Choice.ofSched_valid _) b hdec s sch he

end DD
