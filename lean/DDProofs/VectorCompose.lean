/-
  DDProofs.VectorCompose — specification of `_vector_compose` (simultaneous substitution of
  functions for variables; the replacements may mention replaced variables).
-/
import DDProofs.Quantify
open Std

namespace DD

/-- the assignment seen by the operand of a simultaneous substitution -/
def vsub (t : Tbl) (sub : List (Nat × Int)) (a : Asg) : Asg := fun i =>
  match sub.lookup i with
  | some g => den t g a
  | none => a i

/-- all replacement references are in the table -/
def SubMem (t : Tbl) (sub : List (Nat × Int)) : Prop := ∀ i g, sub.lookup i = some g → t.Mem g

theorem SubMem.ext {m t : Tbl} (he : Ext m t) {sub : List (Nat × Int)} (h : SubMem m sub) :
    SubMem t sub := fun i g hl => he.mem (h i g hl)

theorem vsub_ext {m t : Tbl} (he : Ext m t) (hw : WF m) {sub : List (Nat × Int)}
    (hs : SubMem m sub) (a : Asg) : vsub t sub a = vsub m sub a := by
  funext i
  simp only [vsub]
  cases hl : sub.lookup i with
  | none => rfl
  | some g => exact den_ext he hw g a (hs i g hl)

/-- value of a reference in terms of its regular (positive) version -/
theorem den_abs_sign (t : Tbl) (hw : WF t) (f : Int) (hm : t.Mem f) (a : Asg) :
    den t f a = (decide (f < 0) ^^ den t (f.natAbs : Int) a) := by
  have h0 := mem_ne_zero hw hm
  rcases Int.natAbs_eq f with h | h
  · have : ¬ f < 0 := by omega
    rw [← h]; simp [this]
  · have hneg : f < 0 := by omega
    have hm' : t.Mem (f.natAbs : Int) := by
      have : (f.natAbs : Int) = -f := by omega
      rw [this]; exact mem_neg hm
    conv => lhs; rw [h]
    rw [den_neg t hw _ a hm']
    simp [hneg]

theorem mem_abs {t : Tbl} {f : Int} (hm : t.Mem f) : t.Mem (f.natAbs : Int) := by
  unfold Tbl.Mem at *
  simpa using hm

theorem levelOf_abs (t : Tbl) (f : Int) : t.levelOf (f.natAbs : Int) = t.levelOf f := by
  unfold Tbl.levelOf; simp

/-- what `_vector_compose` guarantees about the reference it returns for `f` -/
structure VPost (sub : List (Nat × Int)) (t : Tbl) (f r : Int) : Prop where
  mf : t.Mem f
  mr : t.Mem r
  den : ∀ a, den t r a = den t f (vsub t sub a)

/-- the memo is keyed by the unsigned node and holds the result for the regular reference -/
def VMemo (sub : List (Nat × Int)) (t : Tbl) (c : HashMap Nat Int) : Prop :=
  ∀ (k : Nat) (r : Int), c[k]? = some r → VPost sub t (k : Int) r

theorem VPost.ext {sub : List (Nat × Int)} {m t : Tbl} (hw : WF m) (he : Ext m t)
    (hs : SubMem m sub) {f r : Int} (h : VPost sub m f r) : VPost sub t f r := by
  refine ⟨he.mem h.mf, he.mem h.mr, ?_⟩
  intro a
  rw [den_ext he hw r a h.mr, den_ext he hw f _ h.mf, vsub_ext he hw hs]
  exact h.den a

theorem VMemo.ext {sub : List (Nat × Int)} {m t : Tbl} (hw : WF m) (he : Ext m t)
    (hs : SubMem m sub) {c : HashMap Nat Int} (h : VMemo sub m c) : VMemo sub t c :=
  fun k r hc => (h k r hc).ext hw he hs

theorem VMemo.empty (sub : List (Nat × Int)) (t : Tbl) : VMemo sub t {} := by
  intro k r h
  simp at h

theorem VMemo.insert {sub : List (Nat × Int)} {t : Tbl} {c : HashMap Nat Int}
    (h : VMemo sub t c) {k : Nat} {r : Int} (he : VPost sub t (k : Int) r) :
    VMemo sub t (c.insert k r) := by
  intro k' r' hc
  rw [HashMap.getElem?_insert] at hc
  split at hc
  · next heq =>
    have : k = k' := by simpa using heq
    subst this
    cases hc
    exact he
  · exact h k' r' hc

/-- from the result for the regular reference to the result for the signed one -/
theorem VPost.flip {sub : List (Nat × Int)} {t : Tbl} (hw : WF t) {f r : Int} (hf : t.Mem f)
    (h : VPost sub t (f.natAbs : Int) r) : VPost sub t f (if f < 0 then -r else r) := by
  refine ⟨hf, mem_flip f h.mr, ?_⟩
  intro a
  rw [den_flip t hw r f a h.mr, h.den a, den_abs_sign t hw f hf]

/-- `level_sub.get(i)` or the variable's own node: a reference denoting the value the operand
sees at level `i` -/
theorem subOrVar_spec (m : Mgr) (hI : Inv m) (hoff : m.lastLen = none) (sub : List (Nat × Int))
    (hs : SubMem m.tbl sub) (i : Nat) (hi : i < m.nvars) :
    ∃ g m', subOrVar sub i m = (.ok g, m') ∧ Step m m' ∧ m'.tbl.Mem g ∧
      ∀ a, den m'.tbl g a = vsub m.tbl sub a i := by
  unfold subOrVar
  cases hl : sub.lookup i with
  | some g =>
    refine ⟨g, m, rfl, Step.refl hI, hs i g hl, ?_⟩
    intro a; simp [vsub, hl]
  | none =>
    obtain ⟨g, m', he, hst, hg, _, hd⟩ := varNode_off m hI hoff i hi
    refine ⟨g, m', he, hst, hg, ?_⟩
    intro a; rw [hd a]; simp [vsub, hl]

/-- `_vector_compose`: total when reordering is not enabled; the result denotes the operand
under the simultaneously substituted assignment. -/
theorem vectorComposeF_spec (sub : List (Nat × Int)) :
    ∀ (fu : Nat) (m : Mgr) (f : Int) (cache : HashMap Nat Int),
    Inv m → m.lastLen = none → m.tbl.Mem f → SubMem m.tbl sub → VMemo sub m.tbl cache →
    m.nvars + 1 ≤ fu + m.tbl.levelOf f →
    ∃ r c' m', vectorComposeF sub fu f cache m = (.ok (r, c'), m') ∧ Step m m' ∧
      VMemo sub m'.tbl c' ∧ VPost sub m'.tbl f r := by
  intro fu
  induction fu with
  | zero =>
    intro m f cache hI _ hf _ _ hfu
    have := levelOf_le m.tbl hI.wf.toWF f
    have : m.nvars = m.tbl.nvars := rfl
    omega
  | succ fu ih =>
    intro m f cache hI hoff hf hsub hmemo hfu
    have hW := hI.wf.toWF
    unfold vectorComposeF
    by_cases h1 : f.natAbs = 1
    · simp only [h1, if_true]
      exact ⟨f, cache, m, rfl, Step.refl hI, hmemo, hf, hf, fun a => den_term_any _ f h1 _ _⟩
    · simp only [h1, if_false]
      cases hc : cache[f.natAbs]? with
      | some r =>
        simp only
        have hp := hmemo _ r hc
        have hr0 : r ≠ 0 := mem_ne_zero hW hp.mr
        simp only [hr0, if_false]
        exact ⟨_, cache, m, rfl, Step.refl hI, hmemo, hp.flip hW hf⟩
      | none =>
        simp only
        obtain ⟨n, hn⟩ := mem_node hf h1
        have hn' : m.tbl.succ[f.natAbs]? = some n := hn
        rw [hn']
        simp only [node_succ_ne_zero hW hn, if_false]
        have hlu := levelOf_node m.tbl f n h1 hn
        have hlo := hW.lo_lt _ _ hn
        have hhi := hW.hi_lt _ _ hn
        have hltn := hW.lvl_lt _ _ hn
        have hnv : m.nvars = m.tbl.nvars := rfl
        obtain ⟨p, c1, m1, he1, hs1, hm1, hp1⟩ := ih m n.lo cache hI hoff (hW.lo_mem _ _ hn)
          hsub hmemo (by omega)
        rw [he1]
        simp only
        have hW1 := hs1.inv.wf.toWF
        have hsub1 := hsub.ext hs1.ext
        have hhim := hW.hi_mem _ _ hn
        obtain ⟨q, c2, m2, he2, hs2, hm2, hp2⟩ := ih m1 n.hi c1 hs1.inv (hs1.off hoff)
          (hs1.ext.mem hhim) hsub1 hm1 (by rw [hs1.nvars, hs1.ext.levelOf hhim]; omega)
        rw [he2]
        simp only
        have hW2 := hs2.inv.wf.toWF
        have hs12 := hs1.trans hs2
        have hsub2 := hsub1.ext hs2.ext
        obtain ⟨g, m3, he3, hs3, hg3, hd3⟩ := subOrVar_spec m2 hs2.inv (hs12.off hoff) sub hsub2
          n.lvl (by rw [hs12.nvars]; exact hltn)
        rw [he3]
        simp only
        have hW3 := hs3.inv.wf.toWF
        have hs123 := hs12.trans hs3
        have hsub3 := hsub2.ext hs3.ext
        have hp1_3 := (hp1.ext hW1 hs2.ext hsub1).ext hW2 hs3.ext hsub2
        have hp2_3 := hp2.ext hW2 hs3.ext hsub2
        obtain ⟨r, m4, he4, hp4⟩ := ite_spec_off m3 hs3.inv (hs123.off hoff) g q p
          hg3 hp2_3.mr hp1_3.mr
        rw [he4]
        simp only
        have hs4 := hs123.trans hp4.step
        have hW4 := hp4.inv.wf.toWF
        have hp1_4 := hp1_3.ext hW3 hp4.ext hsub3
        have hp2_4 := hp2_3.ext hW3 hp4.ext hsub3
        have hn4 : m4.tbl.node? ((f.natAbs : Int)).natAbs = some n := by
          simpa using hs4.ext.nodes _ _ hn
        have hpos : VPost sub m4.tbl (f.natAbs : Int) r := by
          refine ⟨mem_abs (hs4.ext.mem hf), hp4.mem, ?_⟩
          intro a
          rw [hp4.den a, den_node m4.tbl hW4 (f.natAbs : Int) n _ (by simpa using h1) hn4,
            ← den_ext hp4.ext hW3 q a hp2_3.mr, ← den_ext hp4.ext hW3 p a hp1_3.mr,
            hp1_4.den a, hp2_4.den a, hd3 a,
            vsub_ext (hs3.trans hp4.step).ext hW2 hsub2 a]
          have : ¬ ((f.natAbs : Int) < 0) := by omega
          simp [this]
        exact ⟨_, _, m4, rfl, hs4,
          (((hm2.ext hW2 hs3.ext hsub2).ext hW3 hp4.ext hsub3).insert hpos),
          hpos.flip hW4 (hs4.ext.mem hf)⟩

end DD
