/-
  DDProofs.SchedReplay — the decidable guard "the schedule encodes a choice" is COMPLETE: the
  record of a returning choice-driven run under ANY valid choice `c` is reproduced by replaying
  the choice read off that record (`Choice.ofSched`), so `EncodesChoice run m sch` holds exactly
  of the records of valid choices.

  A choice-driven run depends on the choice only through the answers to the queries it makes, the
  `k`-th query is recorded as the `k`-th item, and records only grow: `RepC a a' log sch` — if the
  run `a` under `c` returned with a record that is a prefix of `sch`, the run `a'` under a choice
  that agrees with `c` on `sch` is the same run.
-/
import DDProofs.SchedAcceptGuards
open Std

namespace DD

/-- `c'` answers as `c` did, wherever `sch` holds the record of `c`'s answer -/
structure ChoiceAgrees (c c' : Choice) (sch : List SchedItem) : Prop where
  names : ∀ k l, sch[k]? = some (.sift (c.names k l)) → c'.names k l = c.names k l
  level : ∀ k x y lx ly, y ≠ x →
    sch[k]? = some (.swap [(x, c.level k x lx), (y, c.level k y ly)]) →
    c'.level k x lx = c.level k x lx ∧ c'.level k y ly = c.level k y ly

/-- the choice read off a schedule agrees with every valid choice on that schedule -/
theorem choiceAgrees_ofSched {c : Choice} (hc : c.Valid) (sch : List SchedItem) :
    ChoiceAgrees c (Choice.ofSched sch) sch := by
  refine ⟨fun k l h => ?_, fun k x y lx ly hxy h => ⟨?_, ?_⟩⟩
  · show (match sch[k]? with
      | some (.sift ns) => if ns.Perm l then ns else l
      | _ => l) = _
    rw [h]
    exact if_pos (hc.names k l)
  · show (match sch[k]? with
      | some (.swap lv) => if ((lv.lookup x).getD []).Perm lx then (lv.lookup x).getD [] else lx
      | _ => lx) = _
    rw [h]
    have l1 : (([(x, c.level k x lx), (y, c.level k y ly)] : List (Nat × List Nat)).lookup x).getD [] =
        c.level k x lx := by simp [List.lookup]
    simp only [l1]
    exact if_pos (hc.level k x lx)
  · show (match sch[k]? with
      | some (.swap lv) => if ((lv.lookup y).getD []).Perm ly then (lv.lookup y).getD [] else ly
      | _ => ly) = _
    rw [h]
    have l2 : (([(x, c.level k x lx), (y, c.level k y ly)] : List (Nat × List Nat)).lookup y).getD [] =
        c.level k y ly := by
      have : (y == x) = false := by simpa using hxy
      simp [List.lookup, this]
    simp only [l2]
    exact if_pos (hc.level k y ly)

theorem getElem?_of_prefix_snoc {log sch : List SchedItem} {it : SchedItem}
    (h : (log ++ [it]) <+: sch) : sch[log.length]? = some it := by
  obtain ⟨t, rfl⟩ := h
  simp

/-- the run `a` (under `c`, from `log`) and the run `a'` (under `c'`): the record only grows; and
if `a` returned with a record that is a prefix of `sch`, then `a'` is the same run -/
def RepC {α} (a a' : Except Err (α × List SchedItem) × Mgr) (log sch : List SchedItem) : Prop :=
  match a with
  | (.ok (_, log'), _) => log <+: log' ∧ (log' <+: sch → a' = a)
  | (.error _, _) => True

theorem RepC.bind {α β} {xa xa' : M (α × List SchedItem)}
    {fa fa' : α × List SchedItem → M (β × List SchedItem)} {m : Mgr} {log sch : List SchedItem}
    (h : RepC (xa m) (xa' m) log sch)
    (hf : ∀ r log1 m1, RepC (fa (r, log1) m1) (fa' (r, log1) m1) log1 sch) :
    RepC ((xa >>= fa) m) ((xa' >>= fa') m) log sch := by
  rw [M.bind_eq, M.bind_eq]
  generalize xa m = ra at h
  obtain ⟨ra, m1⟩ := ra
  cases ra with
  | error e => trivial
  | ok p =>
    obtain ⟨r, log1⟩ := p
    obtain ⟨hg1, he1⟩ := h
    have h2 := hf r log1 m1
    simp only
    generalize fa (r, log1) m1 = rb at h2
    obtain ⟨rb, m2⟩ := rb
    cases rb with
    | error e => trivial
    | ok q =>
      obtain ⟨r2, log2⟩ := q
      obtain ⟨hg2, he2⟩ := h2
      refine ⟨hg1.trans hg2, fun hp => ?_⟩
      rw [he1 (hg2.trans hp)]
      exact he2 hp

/-- a step common to both runs -/
theorem RepC.bindM {γ α} (x : M γ) {fa fa' : γ → M (α × List SchedItem)} {m : Mgr}
    {log sch : List SchedItem} (hf : ∀ r m1, RepC (fa r m1) (fa' r m1) log sch) :
    RepC ((x >>= fa) m) ((x >>= fa') m) log sch := by
  rw [M.bind_eq, M.bind_eq]
  generalize x m = rx
  obtain ⟨rx, m1⟩ := rx
  cases rx with
  | error e => trivial
  | ok r => exact hf r m1

theorem RepC.ite {α} (p : Prop) [Decidable p] {a1 a2 a1' a2' : M (α × List SchedItem)} {m : Mgr}
    {log sch : List SchedItem} (h1 : p → RepC (a1 m) (a1' m) log sch)
    (h2 : ¬p → RepC (a2 m) (a2' m) log sch) :
    RepC ((if p then a1 else a2) m) ((if p then a1' else a2') m) log sch := by
  by_cases hp : p
  · rw [if_pos hp, if_pos hp]; exact h1 hp
  · rw [if_neg hp, if_neg hp]; exact h2 hp

/-- the same run on both sides, whose record is the one it started with -/
theorem RepC.same {α} (a : Except Err (α × List SchedItem) × Mgr) (log sch : List SchedItem)
    (hg : ∀ r log' m', a = (.ok (r, log'), m') → log' = log) : RepC a a log sch := by
  obtain ⟨ra, m1⟩ := a
  cases ra with
  | error e => trivial
  | ok p =>
    obtain ⟨r, log'⟩ := p
    refine ⟨?_, fun _ => rfl⟩
    rw [hg r log' m1 rfl]
    exact List.prefix_refl _

theorem RepC.pure {α} (r : α) (log sch : List SchedItem) (m : Mgr) :
    RepC ((Pure.pure (r, log) : M (α × List SchedItem)) m) ((Pure.pure (r, log) : M _) m) log sch :=
  RepC.same _ log sch (fun _ _ _ h => by cases h; rfl)

theorem RepC.throw {α} (e : Err) (log sch : List SchedItem) (m : Mgr) :
    RepC ((M.throw e : M (α × List SchedItem)) m) ((M.throw e : M _) m) log sch := trivial

/-! ### `swap` -/

theorem swapBodyC_rep {c c' : Choice} {sch : List SchedItem} (hA : ChoiceAgrees c c' sch) (x y : Nat)
    (hxy : y ≠ x) (log : List SchedItem) (m : Mgr) :
    RepC (swapBodyC c x y log m) (swapBodyC c' x y log m) log sch := by
  have key : ∀ c : Choice, swapBodyC c x y log m =
      ((swapWith x y m.len (c.level log.length x (nodesAt m.tbl x))
        (c.level log.length y (nodesAt m.tbl y)) >>= fun r => Pure.pure (r, log ++
          [SchedItem.swap [(x, c.level log.length x (nodesAt m.tbl x)),
            (y, c.level log.length y (nodesAt m.tbl y))]])) m) := fun _ => rfl
  rw [key c, key c', M.bind_eq]
  generalize hW : swapWith x y m.len (c.level log.length x (nodesAt m.tbl x))
    (c.level log.length y (nodesAt m.tbl y)) m = rw
  obtain ⟨rw, m1⟩ := rw
  cases rw with
  | error e => trivial
  | ok r =>
    refine ⟨List.prefix_append _ _, fun hp => ?_⟩
    obtain ⟨e1, e2⟩ := hA.level log.length x y _ _ hxy (getElem?_of_prefix_snoc hp)
    rw [e1, e2, M.bind_eq, hW]

theorem swapC_rep {c c' : Choice} {sch : List SchedItem} (hA : ChoiceAgrees c c' sch) (xa ya : VarOrLevel)
    (log : List SchedItem) (m : Mgr) : RepC (swapC c xa ya log m) (swapC c' xa ya log m) log sch := by
  unfold swapC
  refine RepC.bindM _ (fun x m1 => ?_)
  refine RepC.bindM _ (fun y m2 => ?_)
  refine RepC.bindM _ (fun m0 m3 => ?_)
  refine RepC.ite _ (fun _ => RepC.throw _ _ _ _) (fun h1 => ?_)
  refine RepC.ite _ (fun _ => RepC.throw _ _ _ _) (fun h2 => ?_)
  refine RepC.ite _ (fun _ => RepC.throw _ _ _ _) (fun h3 => ?_)
  refine RepC.ite _ (fun _ => RepC.throw _ _ _ _) (fun h4 => ?_)
  refine swapBodyC_rep hA _ _ ?_ log m3
  simp at h1 h2
  split at h4 <;> split <;> omega

theorem swapPublicC_rep {c c' : Choice} {sch : List SchedItem} (hA : ChoiceAgrees c c' sch)
    (xa ya : VarOrLevel) (log : List SchedItem) (m : Mgr) :
    RepC (swapPublicC c xa ya log m) (swapPublicC c' xa ya log m) log sch := by
  unfold swapPublicC
  exact RepC.bindM _ (fun _ m1 => swapC_rep hA xa ya log m1)

/-! ### `_shift`, `_reorder_var`, sifting -/

theorem shiftLoopC_rep {c c' : Choice} {sch : List SchedItem} (hA : ChoiceAgrees c c' sch) :
    ∀ (f : Nat) (i e d : Int) (sizes : List (Nat × Nat)) (log : List SchedItem) (m : Mgr),
      RepC (shiftLoopC c f i e d sizes log m) (shiftLoopC c' f i e d sizes log m) log sch
  | 0, i, e, d, sizes, log, m => by
    unfold shiftLoopC
    exact RepC.ite _ (fun _ => RepC.pure _ _ _ _) (fun _ => RepC.throw _ _ _ _)
  | f+1, i, e, d, sizes, log, m => by
    unfold shiftLoopC
    refine RepC.ite _ (fun _ => RepC.pure _ _ _ _) (fun _ => ?_)
    refine RepC.bind (swapC_rep hA _ _ log m) ?_
    rintro ⟨oldn, n⟩ log1 m1
    exact shiftLoopC_rep hA f _ e d _ log1 m1

theorem shiftC_rep {c c' : Choice} {sch : List SchedItem} (hA : ChoiceAgrees c c' sch) (start end_ : Nat)
    (log : List SchedItem) (m : Mgr) : RepC (shiftC c start end_ log m) (shiftC c' start end_ log m) log sch := by
  unfold shiftC
  refine RepC.bindM _ (fun m0 m1 => ?_)
  refine RepC.bindM _ (fun _ m2 => ?_)
  refine RepC.bindM _ (fun _ m3 => ?_)
  exact shiftLoopC_rep hA _ _ _ _ _ log m3

theorem reorderVarC_rep {c c' : Choice} {sch : List SchedItem} (hA : ChoiceAgrees c c' sch) (var : String)
    (log : List SchedItem) (m : Mgr) : RepC (reorderVarC c var log m) (reorderVarC c' var log m) log sch := by
  unfold reorderVarC
  refine RepC.bindM _ (fun m0 m1 => ?_)
  refine RepC.ite _ (fun _ => RepC.throw _ _ _ _) (fun _ => ?_)
  refine RepC.bindM _ (fun _ m2 => ?_)
  refine RepC.bindM _ (fun level m3 => ?_)
  generalize (if 2 * level ≥ m0.nvars - 1 then (m0.nvars - 1, 0) else (0, m0.nvars - 1)) = se
  obtain ⟨start, end_⟩ := se
  refine RepC.bind (shiftC_rep hA level start log m3) ?_
  intro _ log1 m4
  refine RepC.bind (shiftC_rep hA start end_ log1 m4) ?_
  intro sizes log2 m5
  refine RepC.bindM _ (fun k m6 => ?_)
  refine RepC.bind (shiftC_rep hA end_ k log2 m6) ?_
  intro _ log3 m7
  refine RepC.bindM _ (fun m8 m9 => ?_)
  refine RepC.bindM _ (fun _ m10 => ?_)
  refine RepC.bindM _ (fun _ m11 => ?_)
  exact RepC.pure _ _ _ _

theorem siftVarsC_rep {c c' : Choice} {sch : List SchedItem} (hA : ChoiceAgrees c c' sch) :
    ∀ (vars : List String) (log : List SchedItem) (m : Mgr),
      RepC (siftVarsC c vars log m) (siftVarsC c' vars log m) log sch
  | [], log, m => RepC.pure _ _ _ _
  | v :: rest, log, m => by
    unfold siftVarsC
    refine RepC.bind (reorderVarC_rep hA v log m) ?_
    intro _ log1 m1
    exact siftVarsC_rep hA rest log1 m1

/-- a query for the order of the names: the answer is the next item of the record -/
theorem RepC.sift {α} {c c' : Choice} {sch : List SchedItem} (hA : ChoiceAgrees c c' sch)
    (K : Choice → List String → List SchedItem → M (α × List SchedItem)) (l : List String)
    (log : List SchedItem) (m : Mgr)
    (h : ∀ names, RepC (K c names (log ++ [SchedItem.sift names]) m)
      (K c' names (log ++ [SchedItem.sift names]) m) (log ++ [SchedItem.sift names]) sch) :
    RepC (K c (c.names log.length l) (log ++ [SchedItem.sift (c.names log.length l)]) m)
      (K c' (c'.names log.length l) (log ++ [SchedItem.sift (c'.names log.length l)]) m) log sch := by
  have h0 := h (c.names log.length l)
  generalize K c (c.names log.length l) (log ++ [SchedItem.sift (c.names log.length l)]) m = a at h0 ⊢
  obtain ⟨ra, m1⟩ := a
  cases ra with
  | error e => trivial
  | ok p =>
    obtain ⟨r, log'⟩ := p
    obtain ⟨hg, he⟩ := h0
    refine ⟨(List.prefix_append _ _).trans hg, fun hp => ?_⟩
    rw [hA.names log.length l (getElem?_of_prefix_snoc (hg.trans hp))]
    exact he hp

theorem applySiftingC_rep {c c' : Choice} {sch : List SchedItem} (hA : ChoiceAgrees c c' sch)
    (log : List SchedItem) (m : Mgr) : RepC (applySiftingC c log m) (applySiftingC c' log m) log sch := by
  unfold applySiftingC
  refine RepC.bindM _ (fun _ m1 => ?_)
  refine RepC.bindM _ (fun m0 m2 => ?_)
  refine RepC.sift hA (fun c names log1 =>
    if names.isEmpty then M.throw .other else
      siftVarsC c names log1 >>= fun p => M.get >>= fun m' =>
        M.assert (m'.len ≤ m0.len) >>= fun _ => Pure.pure ((), p.2)) m0.tbl.vars.keys log m2 (fun names => ?_)
  refine RepC.ite _ (fun _ => RepC.throw _ _ _ _) (fun _ => ?_)
  refine RepC.bind (siftVarsC_rep hA names _ m2) ?_
  intro _ log1 m3
  refine RepC.bindM _ (fun m4 m5 => ?_)
  refine RepC.bindM _ (fun _ m6 => ?_)
  exact RepC.pure _ _ _ _

/-! ### `reorder(bdd, order)`, `reorder_to_pairs` -/

theorem sortStepC_rep {c c' : Choice} {sch : List SchedItem} (hA : ChoiceAgrees c c' sch)
    (order : List (String × Int)) (i : Nat) (log : List SchedItem) (m : Mgr) :
    RepC (sortStepC c order i log m) (sortStepC c' order i log m) log sch := by
  unfold sortStepC
  refine RepC.bindM _ (fun _ m1 => ?_)
  refine RepC.bindM _ (fun x m2 => ?_)
  refine RepC.bindM _ (fun y m3 => ?_)
  refine RepC.bindM _ (fun p m4 => ?_)
  refine RepC.bindM _ (fun q m5 => ?_)
  refine RepC.ite _ (fun _ => ?_) (fun _ => RepC.pure _ _ _ _)
  refine RepC.bind (swapC_rep hA _ _ log m5) ?_
  intro _ log1 m6
  exact RepC.pure _ _ _ _

theorem sortInnerC_rep {c c' : Choice} {sch : List SchedItem} (hA : ChoiceAgrees c c' sch)
    (order : List (String × Int)) : ∀ (l : List Nat) (log : List SchedItem) (m : Mgr),
      RepC (sortInnerC c order l log m) (sortInnerC c' order l log m) log sch
  | [], log, m => RepC.pure _ _ _ _
  | i :: rest, log, m => by
    unfold sortInnerC
    refine RepC.bind (sortStepC_rep hA order i log m) ?_
    intro _ log1 m1
    exact sortInnerC_rep hA order rest log1 m1

theorem sortOuterC_rep {c c' : Choice} {sch : List SchedItem} (hA : ChoiceAgrees c c' sch)
    (order : List (String × Int)) (n : Nat) : ∀ (k : Nat) (log : List SchedItem) (m : Mgr),
      RepC (sortOuterC c order n k log m) (sortOuterC c' order n k log m) log sch
  | 0, log, m => RepC.pure _ _ _ _
  | k+1, log, m => by
    unfold sortOuterC
    refine RepC.bind (sortInnerC_rep hA order _ log m) ?_
    intro _ log1 m1
    exact sortOuterC_rep hA order n k log1 m1

theorem sortToOrderC_rep {c c' : Choice} {sch : List SchedItem} (hA : ChoiceAgrees c c' sch)
    (order : List (String × Int)) (log : List SchedItem) (m : Mgr) :
    RepC (sortToOrderC c order log m) (sortToOrderC c' order log m) log sch := by
  unfold sortToOrderC
  refine RepC.bindM _ (fun m0 m1 => ?_)
  refine RepC.ite _ (fun _ => RepC.throw _ _ _ _) (fun _ => ?_)
  exact sortOuterC_rep hA order _ _ log m1

theorem reorderC_rep {c c' : Choice} {sch : List SchedItem} (hA : ChoiceAgrees c c' sch)
    (order : Option (List (String × Int))) (log : List SchedItem) (m : Mgr) :
    RepC (reorderC c order log m) (reorderC c' order log m) log sch := by
  cases order with
  | none => exact applySiftingC_rep hA log m
  | some o => exact sortToOrderC_rep hA o log m

theorem pairStepC_rep {c c' : Choice} {sch : List SchedItem} (hA : ChoiceAgrees c c' sch)
    (x y : String) (log : List SchedItem) (m : Mgr) :
    RepC (pairStepC c x y log m) (pairStepC c' x y log m) log sch := by
  unfold pairStepC
  refine RepC.bindM _ (fun jx m1 => ?_)
  refine RepC.bindM _ (fun jy m2 => ?_)
  refine RepC.bindM _ (fun _ m3 => ?_)
  refine RepC.ite _ (fun _ => ?_) (fun _ => RepC.pure _ _ _ _)
  generalize (if jx > jy then (jy, jx) else (jx, jy)) = se
  obtain ⟨a, b⟩ := se
  refine RepC.bind (shiftC_rep hA a (b - 1) log m3) ?_
  intro _ log1 m4
  exact RepC.pure _ _ _ _

theorem reorderToPairsC_rep {c c' : Choice} {sch : List SchedItem} (hA : ChoiceAgrees c c' sch) :
    ∀ (pairs : List (String × String)) (log : List SchedItem) (m : Mgr),
      RepC (reorderToPairsC c pairs log m) (reorderToPairsC c' pairs log m) log sch
  | [], log, m => RepC.pure _ _ _ _
  | (x, y) :: rest, log, m => by
    unfold reorderToPairsC
    refine RepC.bind (pairStepC_rep hA x y log m) ?_
    intro _ log1 m1
    exact reorderToPairsC_rep hA rest log1 m1

/-! ### the decorated calls -/

theorem retryOutC_same {α} (f : M α) (log sch : List SchedItem) (m3 : Mgr) :
    RepC (retryOutC f log m3) (retryOutC f log m3) log sch :=
  RepC.same _ log sch (fun r log' m' h => retryOutC_log (by rw [h]))

theorem tryToReorderC_rep {α} {c c' : Choice} {sch : List SchedItem} (hA : ChoiceAgrees c c' sch)
    (f : M α) (log : List SchedItem) (m : Mgr) :
    RepC (tryToReorderC c f log m) (tryToReorderC c' f log m) log sch := by
  unfold tryToReorderC
  refine RepC.bindM _ (fun o m1 => ?_)
  cases o with
  | some a => exact RepC.pure _ _ _ _
  | none =>
    refine RepC.bindM _ (fun _ m2 => ?_)
    refine RepC.bind (reorderC_rep hA none log m2) ?_
    intro _ log1 m3
    refine RepC.bindM _ (fun m4 m5 => ?_)
    refine RepC.same _ log1 sch (fun r log' m' h => ?_)
    generalize withCtx f m5 = r3 at h
    obtain ⟨r3, m6⟩ := r3
    cases r3 with
    | error e => cases h
    | ok o =>
      cases o with
      | none => cases h
      | some b => cases h; rfl

theorem applyC_rep {c c' : Choice} {sch : List SchedItem} (hA : ChoiceAgrees c c' sch) (op : String)
    (u : Int) (v w : Option Int) (log : List SchedItem) (m : Mgr) :
    RepC (applyC c op u v w log m) (applyC c' op u v w log m) log sch := by
  rw [applyC_eq_end, applyC_eq_end]
  cases applyEnd op u v w m with
  | err e => trivial
  | neg => exact RepC.same _ log sch (fun _ _ _ h => by cases h; rfl)
  | ite a b c0 => exact tryToReorderC_rep hA _ log m
  | quant b q fa => exact tryToReorderC_rep hA _ log m

theorem letOpC_rep {c c' : Choice} {sch : List SchedItem} (hA : ChoiceAgrees c c' sch) (d : LetArg)
    (u : Int) (log : List SchedItem) (m : Mgr) :
    RepC (letOpC c d u log m) (letOpC c' d u log m) log sch := by
  cases d with
  | bools l =>
    cases l with
    | nil => exact RepC.pure _ _ _ _
    | cons x xs => exact tryToReorderC_rep hA _ log m
  | refs l =>
    cases l with
    | nil => exact RepC.pure _ _ _ _
    | cons x xs => exact tryToReorderC_rep hA _ log m
  | names l =>
    cases l with
    | nil => exact RepC.pure _ _ _ _
    | cons x xs => exact tryToReorderC_rep hA _ log m

/-! ### completeness of the decidable guard -/

/-- a run that returned with the record `sch` is reproduced under every choice that agrees on `sch` -/
theorem RepC.logOf_eq {α} {a a' : Except Err (α × List SchedItem) × Mgr} {log sch : List SchedItem}
    (h : RepC a a' log sch) (hl : logOf a.1 = some sch) : logOf a'.1 = some sch := by
  obtain ⟨ra, m1⟩ := a
  cases ra with
  | error e => cases hl
  | ok p =>
    obtain ⟨r, log'⟩ := p
    have e : log' = sch := by cases hl; rfl
    subst e
    rw [h.2 (List.prefix_refl _)]
    exact hl

/-- **the decidable guard is complete** (explicit reorderings): the record of a returning run under
ANY valid choice encodes a choice -/
theorem encodes_of_choice (c : Choice) (hc : c.Valid) (m : Mgr) (sch : List SchedItem) :
    (∀ order, logOf (reorderC c order [] m).1 = some sch →
      EncodesChoice (fun c => reorderC c order) m sch) ∧
    (∀ x y, logOf (swapPublicC c x y [] m).1 = some sch →
      EncodesChoice (fun c => swapPublicC c x y) m sch) ∧
    (∀ ps, logOf (reorderToPairsC c ps [] m).1 = some sch →
      EncodesChoice (fun c => reorderToPairsC c ps) m sch) := by
  have hA := choiceAgrees_ofSched hc sch
  exact ⟨fun order hl => (reorderC_rep hA order [] m).logOf_eq hl,
    fun x y hl => (swapPublicC_rep hA x y [] m).logOf_eq hl,
    fun ps hl => (reorderToPairsC_rep hA ps [] m).logOf_eq hl⟩

theorem mapResC_rep {α : Type} (f : α → Res) {a a' : Except Err (α × List SchedItem) × Mgr}
    {sch : List SchedItem} (h : RepC a a' [] sch) (hl : logOf (mapResC f a).1 = some sch) :
    logOf (mapResC f a').1 = some sch := by
  rw [logOf_mapResC] at hl ⊢
  exact h.logOf_eq hl

/-- … and for every decorated operation of the histories, any arguments -/
theorem runOpC_encodes_of_choice (c : Choice) (hc : c.Valid) (m : Mgr) (sch : List SchedItem)
    (b : UOp) (hl : logOf (runOpC c b m).1 = some sch) :
    logOf (runOpC (Choice.ofSched sch) b m).1 = some sch := by
  have hA := choiceAgrees_ofSched hc sch
  cases b with
  | var name => exact mapResC_rep _ (tryToReorderC_rep hA _ [] m) hl
  | ite g u v => exact mapResC_rep _ (tryToReorderC_rep hA _ [] m) hl
  | apply o u v w => exact mapResC_rep _ (applyC_rep hA o u v w [] m) hl
  | neg u => exact mapResC_rep _ (applyC_rep hA "not" u none none [] m) hl
  | cofactor u values => exact mapResC_rep _ (tryToReorderC_rep hA _ [] m) hl
  | quantify u qvars fa => exact mapResC_rep _ (tryToReorderC_rep hA _ [] m) hl
  | compose f varSub => exact mapResC_rep _ (tryToReorderC_rep hA _ [] m) hl
  | rename u dvars => exact mapResC_rep _ (tryToReorderC_rep hA _ [] m) hl
  | let_ d u => exact mapResC_rep _ (letOpC_rep hA d u [] m) hl
  | declare _ _ => exact hl
  | findOrAdd _ _ _ => exact hl
  | incref _ => exact hl
  | decref _ => exact hl
  | collectGarbage => exact hl

end DD
