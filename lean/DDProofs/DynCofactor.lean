/-
  DDProofs.DynCofactor — abort-aware specification of `_cofactor`: in ANY manager satisfying the
  invariant (reordering enabled or not, inside a context or not) the recursion returns the
  documented restriction or is aborted by a reordering request having only added nodes.
  `cofactorF_spec` (requests disabled) is the corollary `cofactorF_spec_off'`.
-/
import DDProofs.DynOutcome
open Std

namespace DD

/-- `_cofactor`, abort-aware -/
theorem cofactorF_out (values : List (Nat × Bool)) :
    ∀ (f : Nat) (m : Mgr) (u : Int) (ordvar : List Nat) (cache : HashMap Int Int),
    Inv m → m.tbl.Mem u → CofMemo values m.tbl cache →
    (∀ j, (values.lookup j).isSome = true → m.tbl.levelOf u ≤ j → j ∈ ordvar) →
    m.nvars + 1 ≤ f + m.tbl.levelOf u →
    Outcome2 m (fun r c m' => CofMemo values m'.tbl c ∧ CofEntry values m'.tbl u r)
      (cofactorF values f u ordvar cache m) := by
  intro f
  induction f with
  | zero =>
    intro m u ordvar cache hI hu _ _ hf
    have := levelOf_le m.tbl hI.wf.toWF u
    have : m.nvars = m.tbl.nvars := rfl
    omega
  | succ f ih =>
    intro m u ordvar cache hI hu hmemo hord hf
    have hW := hI.wf.toWF
    unfold cofactorF
    by_cases h1 : u.natAbs = 1
    · simp only [h1, if_true]
      exact ⟨StepK.refl hI, hmemo, hu, hu, Nat.le_refl _, fun a => den_term_any _ u h1 _ _⟩
    · simp only [h1, if_false]
      cases hc : cache[u]? with
      | some r => exact ⟨StepK.refl hI, hmemo, hmemo u r hc⟩
      | none =>
        simp only
        obtain ⟨n, hn⟩ := mem_node hu h1
        have hn' : m.tbl.succ[u.natAbs]? = some n := hn
        rw [hn']
        simp only [node_succ_ne_zero hW hn, if_false]
        have hlu := levelOf_node m.tbl u n h1 hn
        have hlo := hW.lo_lt _ _ hn
        have hhi := hW.hi_lt _ _ hn
        have hltn := hW.lvl_lt _ _ hn
        have hnv : m.nvars = m.tbl.nvars := rfl
        have hord' : ∀ j, (values.lookup j).isSome = true → n.lvl ≤ j →
            j ∈ ordvar.dropWhile (· < n.lvl) := by
          intro j hj hle
          exact mem_dropWhile_of_not _ j ordvar (hord j hj (by omega)) (by simpa using hle)
        generalize ordvar.dropWhile (· < n.lvl) = ov at hord' ⊢
        by_cases hemp : ov.isEmpty = true
        · simp only [hemp, if_true]
          refine ⟨StepK.refl hI, hmemo, hu, hu, Nat.le_refl _, ?_⟩
          intro a
          apply den_agree_ge m.tbl hW u hu
          intro i hi _
          simp only [ovr]
          cases hl : values.lookup i with
          | none => rfl
          | some b =>
            exfalso
            have := hord' i (by simp [hl]) (by omega)
            rw [List.isEmpty_iff.mp hemp] at this
            cases this
        · simp only [hemp, Bool.false_eq_true, if_false]
          cases hl : values.lookup n.lvl with
          | some val =>
            simp only
            have hcm : m.tbl.Mem (if val then n.hi else n.lo) := by
              cases val
              · exact hW.lo_mem _ _ hn
              · exact hW.hi_mem _ _ hn
            have hcl : n.lvl < m.tbl.levelOf (if val then n.hi else n.lo) := by
              cases val
              · exact hlo
              · exact hhi
            rcases (ih m (if val then n.hi else n.lo) ov cache
              hI hcm hmemo (fun j hj hle => hord' j hj (by omega)) (by omega)).cases with
              ⟨r0, c1, m1, he1, hs1, hm1, hp1⟩ | ⟨m1, he1, hs1, ha1⟩
            rotate_left
            · rw [he1]; exact ⟨rfl, hs1, ha1⟩
            rw [he1]
            simp only
            have hW1 := hs1.inv.wf.toWF
            have hn1 : m1.tbl.node? u.natAbs = some n := hs1.ext.nodes _ _ hn
            have hent : CofEntry values m1.tbl u (if u < 0 then -r0 else r0) := by
              refine ⟨hs1.ext.mem hu, mem_flip u hp1.mr, ?_, ?_⟩
              · rw [levelOf_flip, hs1.ext.levelOf hu, hlu]
                have := hp1.lvl
                rw [hs1.ext.levelOf hcm] at this
                omega
              · intro a
                rw [den_flip m1.tbl hW1 r0 u a hp1.mr, hp1.den a,
                  den_node m1.tbl hW1 u n _ h1 hn1]
                have : ovr values a n.lvl = val := by simp [ovr, hl]
                rw [this]
                cases val <;> rfl
            exact ⟨hs1, hm1.insert hent, hent⟩
          | none =>
            simp only
            rcases (ih m n.lo ov cache
              hI (hW.lo_mem _ _ hn) hmemo (fun j hj hle => hord' j hj (by omega)) (by omega)).cases with
              ⟨p, c1, m1, he1, hs1, hm1, hp1⟩ | ⟨m1, he1, hs1, ha1⟩
            rotate_left
            · rw [he1]; exact ⟨rfl, hs1, ha1⟩
            rw [he1]
            simp only
            have hW1 := hs1.inv.wf.toWF
            have hhim1 : m1.tbl.Mem n.hi := hs1.ext.mem (hW.hi_mem _ _ hn)
            have hhil1 : m1.tbl.levelOf n.hi = m.tbl.levelOf n.hi :=
              hs1.ext.levelOf (hW.hi_mem _ _ hn)
            rcases (ih m1 n.hi ov c1
              hs1.inv hhim1 hm1
              (fun j hj hle => hord' j hj (by omega)) (by rw [hs1.nvars]; omega)).cases with
              ⟨q, c2, m2, he2, hs2, hm2, hp2⟩ | ⟨m2, he2, hs2, ha2⟩
            rotate_left
            · rw [he2]; exact Outcome2.abort hs1 hs2 ha2
            rw [he2]
            simp only
            have hW2 := hs2.inv.wf.toWF
            have hp1' := hp1.ext hW1 hs2.ext
            have hs12 := hs1.trans hs2
            have hlp : n.lvl < m2.tbl.levelOf p := by
              have := hp1'.lvl
              rw [hs12.ext.levelOf (hW.lo_mem _ _ hn)] at this
              omega
            have hlq : n.lvl < m2.tbl.levelOf q := by
              have := hp2.lvl
              rw [hs12.ext.levelOf (hW.hi_mem _ _ hn)] at this
              omega
            rcases (findOrAdd_out m2 hs2.inv n.lvl p q
              (by rw [hs12.nvars]; exact hltn) hp1'.mr hp2.mr hlp hlq).cases with
              ⟨r3, m3, he3, hk3, hp3⟩ | ⟨m3, he3, hk3, ha3⟩
            rotate_left
            · rw [he3]; exact Outcome2.abort hs12 hk3 ha3
            rw [he3]
            simp only
            have hs3 := hs12.trans hk3
            have hW3 := hp3.inv.wf.toWF
            have hn3 : m3.tbl.node? u.natAbs = some n := hs3.ext.nodes _ _ hn
            have hp1'' := hp1'.ext hW2 hp3.ext
            have hp2'' := hp2.ext hW2 hp3.ext
            have hent : CofEntry values m3.tbl u (if u < 0 then -r3 else r3) := by
              refine ⟨hs3.ext.mem hu, mem_flip u hp3.mem, ?_, ?_⟩
              · rw [levelOf_flip, hs3.ext.levelOf hu, hlu]; exact hp3.lvl
              · intro a
                rw [den_flip m3.tbl hW3 r3 u a hp3.mem, hp3.den a,
                  den_node m3.tbl hW3 u n _ h1 hn3,
                  ← den_ext hp3.ext hW2 q a hp2.mr, ← den_ext hp3.ext hW2 p a hp1'.mr,
                  hp1''.den a, hp2''.den a]
                have : ovr values a n.lvl = a n.lvl := by simp [ovr, hl]
                rw [this]
            exact ⟨hs3, ((hm2.ext hW2 hp3.ext).insert hent), hent⟩

/-- `cofactorF_spec` (requests disabled: total) as a corollary of the abort-aware version -/
theorem cofactorF_spec_off' (values : List (Nat × Bool)) (f : Nat) (m : Mgr) (u : Int)
    (ordvar : List Nat) (cache : HashMap Int Int) (hI : Inv m) (hoff : m.lastLen = none)
    (hu : m.tbl.Mem u) (hmemo : CofMemo values m.tbl cache)
    (hord : ∀ j, (values.lookup j).isSome = true → m.tbl.levelOf u ≤ j → j ∈ ordvar)
    (hf : m.nvars + 1 ≤ f + m.tbl.levelOf u) :
    ∃ r c' m', cofactorF values f u ordvar cache m = (.ok (r, c'), m') ∧ Step m m' ∧
      CofMemo values m'.tbl c' ∧ CofEntry values m'.tbl u r := by
  obtain ⟨r, c', m', he, hs, hm, hp⟩ :=
    (cofactorF_out values f m u ordvar cache hI hu hmemo hord hf).off hoff
  exact ⟨r, c', m', he, hs.step, hm, hp⟩

end DD
