/-
  DDProofs.XCopyAuto — `dd._copy.copy_bdd` / `copy_bdds_from` over `dd.autoref` as the code runs
  it (`DD.xcF`: every intermediate result a `Function`, in the target AND in the source), BOTH
  modes of the target (`off = false`: dynamic reordering possibly enabled, it may fire inside
  `target.var` / `target.ite` in the middle of the recursion), ANY arguments.

  Part 1 (this file): whatever the call returns or raises,
    * the TARGET satisfies the invariant with the count equation, no `Function` other than the
      result was created or lost, every `Function` that was alive keeps its meaning by name;
    * the SOURCE is back exactly: same table, same `Function`s, same counts (its counters move
      during the call: `~u`, `u.low`, `u.high` are `Function`s of the source).
  Method: every step of the recursion is an operation of the autoref layer with the guarantee
  `AKeeps` (any arguments, both modes) that creates a `Function` with an unused id, or the death of
  a `Function` created during the call — an `AReach` history in each manager protecting the
  `Function`s that existed before the call; `autoref_live_den` does the rest.
-/
import DDProofs.AutoValues2
import DD.ApiXCopy
open Std

namespace DD

/-- the `Function`s that exist when the call starts -/
def PIn (a0 : AMgr) (j : Nat) : Prop := a0.handles.contains j = true

theorem PIn.some {a0 : AMgr} {j : Nat} (h : PIn a0 j) : ∃ u, a0.handles[j]? = some u := by
  unfold PIn at h
  rw [TreeMap.contains_eq_isSome_getElem?] at h
  exact Option.isSome_iff_exists.mp h

theorem not_pIn_of_none {a0 : AMgr} {j : Nat} (h : a0.handles[j]? = none) : ¬ PIn a0 j := by
  intro hp
  obtain ⟨u, hu⟩ := hp.some
  rw [h] at hu; cases hu

/-- what a history that protects the initial `Function`s keeps -/
theorem reach_live {off : Bool} {a0 a : AMgr} (hi : AInv off a0) (hr : AReach off (PIn a0) a0 a) :
    AInv off a ∧ (∀ j, PIn a0 j → a.handles[j]? = a0.handles[j]?) ∧
    (∀ (j : Nat) (u : Int), a0.handles[j]? = some u →
      a.m.tbl.Mem u ∧ ∀ σ, denN a.m.tbl u σ = denN a0.m.tbl u σ) := by
  obtain ⟨i, h⟩ := autoref_live_den (PIn a0) hi hr
  refine ⟨i, fun j hj => ?_, fun j u hu => ?_⟩
  · obtain ⟨u, hu⟩ := hj.some
    rw [hu]; exact (h j hj u hu).1
  · have hj : PIn a0 j := by
      unfold PIn; rw [TreeMap.contains_eq_isSome_getElem?, hu]; rfl
    exact (h j hj u hu).2

/-- an id that is not in use now was not in use at the start -/
theorem not_pIn_of_fresh {off : Bool} {a0 a : AMgr} (hi : AInv off a0)
    (hr : AReach off (PIn a0) a0 a) {t : Nat} (ht : a.handles[t]? = none) : ¬ PIn a0 t := by
  intro hp
  obtain ⟨u, hu⟩ := hp.some
  have := (reach_live hi hr).2.1 t hp
  rw [ht, hu] at this; cases this

/-- a new `Function` with an unused id, made by an operation with the guarantee `AKeeps` -/
theorem reach_new {off : Bool} {α : Type} {a0 a : AMgr} (hr : AReach off (PIn a0) a0 a)
    (x : Nat → AM α) (hk : ∀ t, AKeeps off t (x t)) {t : Nat} (ht : a.handles[t]? = none)
    (r : Except Err α) (a' : AMgr) (he : x t a = (r, a')) : AReach off (PIn a0) a0 a' :=
  .step hr (.op [t] (x t) a ((hk t).toL.at a)
    (fun h hh => by
      rcases List.mem_cons.mp hh with rfl | hh
      · exact contains_false_of_none ht
      · cases hh) r a' he)

/-- the death of a `Function` created during the call (or of an id that is not in use) -/
theorem reach_dropQ {off : Bool} {a0 a : AMgr} (hi : AInv off a0) (hr : AReach off (PIn a0) a0 a)
    {t : Nat} (ht : ¬ PIn a0 t) : AReach off (PIn a0) a0 (dropQ t a).2 ∧
      (dropQ t a).2.handles[t]? = none ∧
      ∀ j, j ≠ t → (dropQ t a).2.handles[j]? = a.handles[j]? := by
  show AReach off (PIn a0) a0 (drop t a).2 ∧ (drop t a).2.handles[t]? = none ∧
      ∀ j, j ≠ t → (drop t a).2.handles[j]? = a.handles[j]?
  cases hl : a.handles[t]? with
  | none =>
    have : drop t a = (.error .other, a) := by unfold drop; rw [hl]
    rw [this]
    exact ⟨hr, hl, fun _ _ => rfl⟩
  | some u =>
    obtain ⟨a2, h2, _, _, hh2, _⟩ := drop_spec a t u (reach_live hi hr).1 hl
    rw [h2]
    refine ⟨.step hr (.drop t ht a a2 u hl h2), ?_, fun j hj => ?_⟩
    · show a2.handles[t]? = none
      rw [hh2]; exact TreeMap.getElem?_erase_self
    · show a2.handles[j]? = _
      rw [hh2]; exact getElem?_erase_ne _ _ _ hj

/-- all the `Function`s of a list die -/
theorem reach_dropKeys {off : Bool} {a0 : AMgr} (hi : AInv off a0) :
    ∀ (L : List Nat) (a : AMgr), AReach off (PIn a0) a0 a → (∀ k ∈ L, ¬ PIn a0 k) →
      AReach off (PIn a0) a0 (dropKeys L a) ∧
      (∀ j, j ∈ L → (dropKeys L a).handles[j]? = none) ∧
      (∀ j, j ∉ L → (dropKeys L a).handles[j]? = a.handles[j]?)
  | [], a, hr, _ => ⟨hr, fun _ h => (by cases h), fun _ _ => rfl⟩
  | k :: ks, a, hr, hL => by
    obtain ⟨r1, z1, s1⟩ := reach_dropQ hi hr (hL k List.mem_cons_self)
    obtain ⟨r2, z2, s2⟩ := reach_dropKeys hi ks (dropQ k a).2 r1
      (fun j hj => hL j (List.mem_cons_of_mem _ hj))
    refine ⟨r2, fun j hj => ?_, fun j hj => ?_⟩
    · by_cases hjk : j ∈ ks
      · exact z2 j hjk
      · have : j = k := by
          rcases List.mem_cons.mp hj with h | h
          · exact h
          · exact absurd h hjk
        subst this
        show (dropKeys ks (dropQ j a).2).handles[j]? = none
        rw [s2 j hjk]; exact z1
    · have h1 : j ≠ k := fun h => hj (by rw [h]; exact List.mem_cons_self)
      have h2 : j ∉ ks := fun h => hj (List.mem_cons_of_mem _ h)
      show (dropKeys ks (dropQ k a).2).handles[j]? = _
      rw [s2 j h2]; exact s1 j h1

/-- after the cleanup exactly the initial `Function`s are left, as they were -/
theorem reach_cleanup {off : Bool} {a0 a : AMgr} (hi : AInv off a0)
    (hr : AReach off (PIn a0) a0 a) :
    AReach off (PIn a0) a0 (dropKeys (newKeys a0 a) a) ∧
    ∀ j : Nat, (dropKeys (newKeys a0 a) a).handles[j]? = a0.handles[j]? := by
  have hmem : ∀ k, k ∈ newKeys a0 a ↔ (a.handles.contains k = true ∧ a0.handles.contains k = false) := by
    intro k
    unfold newKeys
    rw [List.mem_filter, TreeMap.mem_keys, ← TreeMap.contains_iff_mem]
    simp
  obtain ⟨r, z, s⟩ := reach_dropKeys hi (newKeys a0 a) a hr
    (fun k hk hp => by
      have := ((hmem k).mp hk).2
      unfold PIn at hp
      rw [hp] at this; cases this)
  refine ⟨r, fun j => ?_⟩
  by_cases hj : j ∈ newKeys a0 a
  · rw [z j hj]
    have := ((hmem j).mp hj).2
    exact (TreeMap.getElem?_eq_none_of_contains_eq_false this).symm
  · rw [s j hj]
    by_cases hp : PIn a0 j
    · exact (reach_live hi hr).2.1 j hp
    · have h0 : a0.handles.contains j = false := by
        cases hc : a0.handles.contains j with
        | false => rfl
        | true => exact absurd hc hp
      have h1 : a.handles.contains j = false := by
        cases hc : a.handles.contains j with
        | false => rfl
        | true => exact absurd ((hmem j).mpr ⟨hc, h0⟩) hj
      rw [TreeMap.getElem?_eq_none_of_contains_eq_false h0,
        TreeMap.getElem?_eq_none_of_contains_eq_false h1]

/-! ### operations that leave the table alone -/

def TblSame {α : Type} (x : AM α) : Prop := ∀ a, (x a).2.m.tbl = a.m.tbl

theorem TblSame.of_read {α : Type} {x : AM α} (h : ARead x) : TblSame x := fun a => by rw [h a]

theorem TblSame.bind {α β : Type} {x : AM α} {f : α → AM β} (hx : TblSame x)
    (hf : ∀ v, TblSame (f v)) : TblSame (x >>= f) := by
  intro a
  change (AM.bind' x f a).2.m.tbl = _
  unfold AM.bind'
  have h1 := hx a
  cases hxa : x a with
  | mk r a1 =>
    rw [hxa] at h1
    cases r with
    | error e => exact h1
    | ok v => exact (hf v a1).trans h1

theorem wrapF_tblSame (h : Nat) (u : Int) : TblSame (wrapF h u) := by
  intro a
  unfold wrapF
  split
  · rfl
  · have : (incref u a.m).2.tbl = a.m.tbl := by
      unfold incref
      split <;> rfl
    split
    · next heq => rw [heq] at this; exact this
    · next heq => rw [heq] at this; exact this

theorem drop_tblSame (h : Nat) : TblSame (drop h) := by
  intro a
  unfold drop
  split
  · rfl
  · next u _ =>
    show (decref u a.m).2.tbl = a.m.tbl
    unfold decref
    split
    · rfl
    · split <;> rfl

theorem fChild_tblSame (high : Bool) (hs h : Nat) : TblSame (fChild high hs h) := by
  unfold fChild
  refine TblSame.bind (TblSame.of_read (nodeOwn_read hs)) fun s => ?_
  refine TblSame.bind (TblSame.of_read (ARead.liftE _)) fun p => ?_
  obtain ⟨_, c⟩ := p
  cases c with
  | none => exact TblSame.of_read (ARead.pure _)
  | some vw =>
    obtain ⟨v, w⟩ := vw
    exact TblSame.bind (wrapF_tblSame h _) fun _ => TblSame.of_read (ARead.pure _)

theorem TblSame.bind_val {α β : Type} {x : AM α} {f : α → AM β} (hx : TblSame x)
    (hf : ∀ a v a1, x a = (.ok v, a1) → (f v a1).2.m.tbl = a1.m.tbl) : TblSame (x >>= f) := by
  intro a
  change (AM.bind' x f a).2.m.tbl = _
  unfold AM.bind'
  have h1 := hx a
  cases hxa : x a with
  | mk r a1 =>
    rw [hxa] at h1
    cases r with
    | error e => exact h1
    | ok v => exact (hf a v a1 hxa).trans h1

theorem fApply_unary_tblSame (op : String) (hs h : Nat) : TblSame (fApply op hs none h) := by
  unfold fApply
  refine TblSame.bind (TblSame.of_read (nodeOwn_read hs)) fun s => ?_
  refine TblSame.bind_val (TblSame.of_read (optNode_read nodeSame_read none)) fun a o a1 ho => ?_
  have : o = none := by
    change ((Except.ok none : Except Err (Option Int)), a) = (.ok o, a1) at ho
    cases ho; rfl
  subst this
  exact (TblSame.bind (TblSame.of_read (ARead.liftM (apply_unary_state op s))) fun r =>
    TblSame.bind (wrapF_tblSame h r) fun _ => TblSame.of_read (ARead.pure _)) a1

/-! ### the recursion -/

/-- both managers have been reached by histories that protect their initial `Function`s -/
structure XR (offS off : Bool) (src0 dst0 : AMgr) (st : XSt) : Prop where
  rs : AReach offS (PIn src0) src0 st.src
  rd : AReach off (PIn dst0) dst0 st.dst
  ts : st.src.m.tbl = src0.m.tbl

/-- a step of the copy: `XR` is kept whatever the outcome; an answer satisfies `Post` -/
def XKeeps (offS off : Bool) (src0 dst0 : AMgr) {α : Type} (x : XM α) (Post : α → Prop) : Prop :=
  ∀ st, XR offS off src0 dst0 st → ∀ r st', x st = (r, st') →
    XR offS off src0 dst0 st' ∧ ∀ v, r = .ok v → Post v

section
variable {offS off : Bool} {src0 dst0 : AMgr}

theorem XKeeps.pure {α : Type} {Post : α → Prop} (v : α) (h : Post v) :
    XKeeps offS off src0 dst0 (pure v : XM α) Post := by
  intro st hx r st' he
  cases he
  exact ⟨hx, fun w hw => by cases hw; exact h⟩

theorem XKeeps.throw {α : Type} {Post : α → Prop} (e : Err) :
    XKeeps offS off src0 dst0 (XM.throw e : XM α) Post := by
  intro st hx r st' he
  cases he
  exact ⟨hx, fun w hw => by cases hw⟩

theorem XKeeps.bind {α β : Type} {x : XM α} {f : α → XM β} {P : α → Prop} {Q : β → Prop}
    (hx : XKeeps offS off src0 dst0 x P) (hf : ∀ v, P v → XKeeps offS off src0 dst0 (f v) Q) :
    XKeeps offS off src0 dst0 (x >>= f) Q := by
  intro st hr r st' he
  change XM.bind' x f st = _ at he
  unfold XM.bind' at he
  cases hxs : x st with
  | mk r1 st1 =>
    rw [hxs] at he
    obtain ⟨h1, p1⟩ := hx st hr r1 st1 hxs
    cases r1 with
    | error e => simp only at he; cases he; exact ⟨h1, fun w hw => by cases hw⟩
    | ok v => simp only at he; exact hf v (p1 v rfl) st1 h1 r st' he

theorem XKeeps.mono {α : Type} {x : XM α} {P Q : α → Prop} (hx : XKeeps offS off src0 dst0 x P)
    (h : ∀ v, P v → Q v) : XKeeps offS off src0 dst0 x Q := by
  intro st hr r st' he
  obtain ⟨h1, p1⟩ := hx st hr r st' he
  exact ⟨h1, fun v hv => h v (p1 v hv)⟩

theorem XKeeps.get : XKeeps offS off src0 dst0 XM.get (fun _ => True) := by
  intro st hx r st' he
  cases he
  exact ⟨hx, fun _ _ => trivial⟩

theorem XKeeps.memo (k c : Nat) : XKeeps offS off src0 dst0 (XM.memo k c) (fun _ => True) := by
  intro st hx r st' he
  cases he
  exact ⟨⟨hx.rs, hx.rd, hx.ts⟩, fun _ _ => trivial⟩

theorem XKeeps.logSrc : XKeeps offS off src0 dst0 XM.logSrc (fun _ => True) := by
  intro st hx r st' he
  cases he
  exact ⟨⟨hx.rs, hx.rd, hx.ts⟩, fun _ _ => trivial⟩

/-- a read of the source -/
theorem XKeeps.readSrc {α : Type} {x : AM α} (hx : ARead x) :
    XKeeps offS off src0 dst0 (XM.onSrc x) (fun _ => True) := by
  intro st hr r st' he
  unfold XM.onSrc at he
  have h1 := hx st.src
  cases hxs : x st.src with
  | mk r1 s1 =>
    rw [hxs] at he h1
    simp only at he h1
    subst h1
    cases he
    exact ⟨⟨hr.rs, hr.rd, hr.ts⟩, fun _ _ => trivial⟩

theorem XKeeps.newSrc {α : Type} (hs : AInv offS src0) (x : Nat → AM α)
    (hk : ∀ t, AKeeps offS t (x t)) (htb : ∀ t, TblSame (x t)) :
    XKeeps offS off src0 dst0 (XM.newSrc x) (fun t => ¬ PIn src0 t) := by
  intro st hr r st' he
  obtain ⟨t, hf, hn⟩ := freshH_spec st.src
  unfold XM.newSrc at he
  rw [hf] at he
  simp only at he
  cases hxs : x t st.src with
  | mk r1 s1 =>
    rw [hxs] at he
    have hr1 := reach_new hr.rs x hk hn r1 s1 hxs
    have hp := not_pIn_of_fresh hs hr.rs hn
    have ht1 : s1.m.tbl = src0.m.tbl := by
      have := htb t st.src
      rw [hxs] at this
      exact this.trans hr.ts
    cases r1 with
    | error e => simp only at he; cases he; exact ⟨⟨hr1, hr.rd, ht1⟩, fun w hw => by cases hw⟩
    | ok v => simp only at he; cases he; exact ⟨⟨hr1, hr.rd, ht1⟩, fun w hw => by cases hw; exact hp⟩

theorem XKeeps.newDst {α : Type} (hd : AInv off dst0) (x : Nat → AM α)
    (hk : ∀ t, AKeeps off t (x t)) :
    XKeeps offS off src0 dst0 (XM.newDst x) (fun t => ¬ PIn dst0 t) := by
  intro st hr r st' he
  obtain ⟨t, hf, hn⟩ := freshH_spec st.dst
  unfold XM.newDst at he
  rw [hf] at he
  simp only at he
  cases hxs : x t st.dst with
  | mk r1 s1 =>
    rw [hxs] at he
    have hr1 := reach_new hr.rd x hk hn r1 s1 hxs
    have hp := not_pIn_of_fresh hd hr.rd hn
    cases r1 with
    | error e => simp only at he; cases he; exact ⟨⟨hr.rs, hr1, hr.ts⟩, fun w hw => by cases hw⟩
    | ok v => simp only at he; cases he; exact ⟨⟨hr.rs, hr1, hr.ts⟩, fun w hw => by cases hw; exact hp⟩

theorem XKeeps.dropSrc (hs : AInv offS src0) {t : Nat} (ht : ¬ PIn src0 t) :
    XKeeps offS off src0 dst0 (XM.onSrc (dropQ t)) (fun _ => True) := by
  intro st hr r st' he
  have : XM.onSrc (dropQ t) st = (.ok (), { st with src := (dropQ t st.src).2 }) := rfl
  rw [this] at he
  cases he
  exact ⟨⟨(reach_dropQ hs hr.rs ht).1, hr.rd, (drop_tblSame t st.src).trans hr.ts⟩, fun _ _ => trivial⟩

theorem XKeeps.dropDst (hd : AInv off dst0) {t : Nat} (ht : ¬ PIn dst0 t) :
    XKeeps offS off src0 dst0 (XM.onDst (dropQ t)) (fun _ => True) := by
  intro st hr r st' he
  have : XM.onDst (dropQ t) st = (.ok (), { st with dst := (dropQ t st.dst).2 }) := rfl
  rw [this] at he
  cases he
  exact ⟨⟨hr.rs, (reach_dropQ hd hr.rd ht).1, hr.ts⟩, fun _ _ => trivial⟩

/-! the pieces of `_copy_bdd` -/

theorem aVar_keepsAll : ∀ (off : Bool) (name : String) (h : Nat), AKeeps off h (aVar name h)
  | true, n, h => aVar_keepsOff n h
  | false, n, h => aVar_keepsDynTotal n h

theorem aIte_keepsAll : ∀ (off : Bool) (hg hu hv h : Nat), AKeeps off h (aIte hg hu hv h)
  | true, hg, hu, hv, h => aIte_keepsOff hg hu hv h
  | false, hg, hu, hv, h => aIte_keepsDynTotal hg hu hv h

/-- the answer of a piece that returns a target `Function`: a new object was not there before -/
def Owned (dst0 : AMgr) (p : Nat × Bool) : Prop := p.2 = true → ¬ PIn dst0 p.1

theorem xTerm_keeps (hd : AInv off dst0) (b : Bool) :
    XKeeps offS off src0 dst0 (xTerm b) (Owned dst0) := by
  unfold xTerm
  refine XKeeps.bind (XKeeps.newDst hd _ (fun t => aConst_keeps b t)) (fun t ht => ?_)
  exact XKeeps.pure _ (fun _ => ht)

theorem xFlip_keeps (hd : AInv off dst0) (c : Nat) (neg : Bool) :
    XKeeps offS off src0 dst0 (xFlip c neg) (Owned dst0) := by
  unfold xFlip
  split
  · refine XKeeps.bind (XKeeps.newDst hd _ (fun t => fApply_keepsAll off "not" c none t)) (fun t ht => ?_)
    exact XKeeps.pure _ (fun _ => ht)
  · exact XKeeps.pure _ (fun h => by cases h)

theorem xZ_keeps (hs : AInv offS src0) (hu : Nat) (neg : Bool) :
    XKeeps offS off src0 dst0 (xZ hu neg) (fun o => ∀ z, o = some z → ¬ PIn src0 z) := by
  unfold xZ
  split
  · refine XKeeps.bind (XKeeps.newSrc hs _ (fun t => fApply_keepsAll offS "not" hu none t)
      (fun t => fApply_unary_tblSame "not" hu t)) (fun t ht => ?_)
    exact XKeeps.pure _ (fun z hz => by cases hz; exact ht)
  · exact XKeeps.pure _ (fun z hz => by cases hz)

theorem xDropOpt_keeps (hs : AInv offS src0) (o : Option Nat) (ho : ∀ z, o = some z → ¬ PIn src0 z) :
    XKeeps offS off src0 dst0 (xDropOpt o) (fun _ => True) := by
  cases o with
  | none => exact XKeeps.pure _ trivial
  | some z => exact XKeeps.dropSrc hs (ho z rfl)

theorem xDropIf_keeps (hd : AInv off dst0) (p : Nat × Bool) (hp : Owned dst0 p) :
    XKeeps offS off src0 dst0 (xDropIf p.2 p.1) (fun _ => True) := by
  unfold xDropIf
  split
  · next h => exact XKeeps.dropDst hd (hp h)
  · exact XKeeps.pure _ trivial

theorem xChild_keeps (hs : AInv offS src0) (high : Bool) (hu : Nat) :
    XKeeps offS off src0 dst0 (xChild high hu) (fun t => ¬ PIn src0 t) :=
  XKeeps.newSrc hs _ (fun t => fChild_keeps high hu t) (fun t => fChild_tblSame high hu t)

theorem fVar_read (hs : Nat) : ARead (fVar hs) := by
  unfold fVar
  refine ARead.bind (nodeOwn_read hs) fun s => ?_
  refine ARead.bind (ARead.liftE _) fun p => ?_
  obtain ⟨i, c⟩ := p
  cases c with
  | none => exact ARead.pure _
  | some _ => exact ARead.bind (ARead.liftM (fun m => (varAtLevel_read _ m).1)) fun _ => ARead.pure _

/-- `_copy_bdd` over `dd.autoref`, ANY arguments, every outcome -/
theorem xcF_keeps (hs : AInv offS src0) (hd : AInv off dst0) :
    ∀ (fu hu : Nat), XKeeps offS off src0 dst0 (xcF fu hu) (Owned dst0)
  | 0, _ => XKeeps.throw _
  | fu+1, hu => by
    unfold xcF
    refine XKeeps.bind (XKeeps.readSrc (nodeOwn_read hu)) (fun u _ => ?_)
    split
    · exact xTerm_keeps hd true
    split
    · exact xTerm_keeps hd false
    refine XKeeps.bind (xZ_keeps hs hu _) (fun hz hzp => ?_)
    refine XKeeps.bind XKeeps.get (fun st _ => ?_)
    split
    · next c _ =>
      refine XKeeps.bind (xFlip_keeps hd c _) (fun res hres => ?_)
      refine XKeeps.bind (xDropOpt_keeps hs hz hzp) (fun _ _ => ?_)
      exact XKeeps.pure _ hres
    · refine XKeeps.bind (xChild_keeps hs false hu) (fun hl hlp => ?_)
      refine XKeeps.bind (xcF_keeps hs hd fu hl) (fun low hlow => ?_)
      refine XKeeps.bind (XKeeps.dropSrc hs hlp) (fun _ _ => ?_)
      refine XKeeps.bind (xChild_keeps hs true hu) (fun hh hhp => ?_)
      refine XKeeps.bind (xcF_keeps hs hd fu hh) (fun high hhigh => ?_)
      refine XKeeps.bind (XKeeps.dropSrc hs hhp) (fun _ _ => ?_)
      refine XKeeps.bind (XKeeps.readSrc (fVar_read hu)) (fun name _ => ?_)
      split
      · exact XKeeps.throw _
      · next nm =>
        refine XKeeps.bind XKeeps.logSrc (fun _ _ => ?_)
        refine XKeeps.bind (XKeeps.newDst hd _ (fun t => aVar_keepsAll off nm t)) (fun g hg => ?_)
        refine XKeeps.bind (XKeeps.newDst hd _ (fun t => aIte_keepsAll off g high.1 low.1 t)) (fun r _ => ?_)
        refine XKeeps.bind (XKeeps.memo _ _) (fun _ _ => ?_)
        refine XKeeps.bind (xFlip_keeps hd r _) (fun res hres => ?_)
        refine XKeeps.bind (xDropOpt_keeps hs hz hzp) (fun _ _ => ?_)
        refine XKeeps.bind (xDropIf_keeps hd low hlow) (fun _ _ => ?_)
        refine XKeeps.bind (xDropIf_keeps hd high hhigh) (fun _ _ => ?_)
        refine XKeeps.bind (XKeeps.dropDst hd hg) (fun _ _ => ?_)
        exact XKeeps.pure _ hres

end

/-! ### the whole call -/

theorem dropKeys_tbl : ∀ (L : List Nat) (a : AMgr), (dropKeys L a).m.tbl = a.m.tbl
  | [], _ => rfl
  | k :: ks, a => (dropKeys_tbl ks (dropQ k a).2).trans (drop_tblSame k a)

/-- what holds of both managers when a copy is over (returned or raised): `hids` = the ids given
to the results -/
structure XDone (offS off : Bool) (src dst : AMgr) (hids : List Nat) (st : XSt) : Prop where
  /-- the target: invariant with the count equation -/
  dinv : AInv off st.dst
  /-- no `Function` of the target other than the results was created or lost -/
  dsame : ∀ j : Nat, j ∉ hids → st.dst.handles[j]? = dst.handles[j]?
  /-- every `Function` of the target that was alive keeps its meaning by name -/
  dden : ∀ (j : Nat) (w : Int), dst.handles[j]? = some w →
    st.dst.m.tbl.Mem w ∧ ∀ σ, denN st.dst.m.tbl w σ = denN dst.m.tbl w σ
  /-- the source is back exactly: invariant, the same `Function`s, the same table, the same
  counts -/
  sinv : AInv offS st.src
  ssame : ∀ j : Nat, st.src.handles[j]? = src.handles[j]?
  stbl : st.src.m.tbl = src.m.tbl
  sref : ∀ k : Nat, st.src.m.ref[k]? = src.m.ref[k]?

/-- the cleanup after the recursion (whatever its outcome) -/
theorem xCleanup_spec {offS off : Bool} {src0 dst0 : AMgr} (hs : AInv offS src0)
    (hd : AInv off dst0) (st : XSt) (hx : XR offS off src0 dst0 st) :
    AReach off (PIn dst0) dst0 (xCleanup src0 dst0 st).dst ∧
    (∀ j : Nat, (xCleanup src0 dst0 st).dst.handles[j]? = dst0.handles[j]?) ∧
    AInv offS (xCleanup src0 dst0 st).src ∧
    (∀ j : Nat, (xCleanup src0 dst0 st).src.handles[j]? = src0.handles[j]?) ∧
    (xCleanup src0 dst0 st).src.m.tbl = src0.m.tbl ∧
    (∀ k : Nat, (xCleanup src0 dst0 st).src.m.ref[k]? = src0.m.ref[k]?) := by
  obtain ⟨rd, hdh⟩ := reach_cleanup hd hx.rd
  obtain ⟨rs, hsh⟩ := reach_cleanup hs hx.rs
  have is := (reach_live hs rs).1
  have ht : (dropKeys (newKeys src0 st.src) st.src).m.tbl = src0.m.tbl :=
    (dropKeys_tbl _ _).trans hx.ts
  exact ⟨rd, hdh, is, hsh, ht, AInv.ref_eq hs is ht hsh⟩

theorem XDone.ofCleanup {offS off : Bool} {src0 dst0 : AMgr} (hs : AInv offS src0)
    (hd : AInv off dst0) (st : XSt) (hx : XR offS off src0 dst0 st) (hids : List Nat) :
    XDone offS off src0 dst0 hids (xCleanup src0 dst0 st) := by
  obtain ⟨rd, hdh, is, hsh, ht, hr⟩ := xCleanup_spec hs hd st hx
  obtain ⟨id, _, dd⟩ := reach_live hd rd
  exact ⟨id, fun j _ => hdh j, dd, is, hsh, ht, hr⟩

/-- `dd._copy.copy_bdd(u, target)` over `dd.autoref`, target in ANY mode (reordering enabled or
not, it may fire in the middle of the recursion), ANY arguments (an id that is not a `Function` of
the source, variables the target does not declare, …), whether it returns or raises:
the target keeps its invariant, only the result `h` is new, every live `Function` keeps its
meaning; the source is back exactly; when the call returns `r`, the new `Function` sits on `r` -/
theorem aXCopyRun_total {offS off : Bool} (src dst : AMgr) (hs : AInv offS src) (hd : AInv off dst)
    (hu h : Nat) (hf : dst.handles.contains h = false) :
    XDone offS off src dst [h] (aXCopyRun src dst hu h).2 ∧
    ∀ r, (aXCopyRun src dst hu h).1 = .ok r → (aXCopyRun src dst hu h).2.dst.handles[h]? = some r := by
  have hx0 : XR offS off src dst { src := src, dst := dst } := ⟨.refl _, .refl _, rfl⟩
  unfold aXCopyRun
  cases hrun : xcF (src.m.nvars + 2) hu { src := src, dst := dst } with
  | mk r0 st =>
    obtain ⟨hx, _⟩ := xcF_keeps hs hd (src.m.nvars + 2) hu _ hx0 r0 st hrun
    have hdone := XDone.ofCleanup hs hd st hx [h]
    cases r0 with
    | error e => exact ⟨hdone, fun r hr => by cases hr⟩
    | ok p =>
      obtain ⟨t, ow⟩ := p
      simp only
      cases hl : st.dst.handles[t]? with
      | none => exact ⟨hdone, fun r hr => by cases hr⟩
      | some r =>
        simp only
        obtain ⟨rd, hdh, is, hsh, ht, hrf⟩ := xCleanup_spec hs hd st hx
        obtain ⟨id, _, dd⟩ := reach_live hd rd
        have hfree : (xCleanup src dst st).dst.handles[h]? = none := by
          rw [hdh h]; exact TreeMap.getElem?_eq_none_of_contains_eq_false hf
        cases hw : wrapF h r (xCleanup src dst st).dst with
        | mk rw d =>
          obtain ⟨i2, _, hfr2, hres⟩ := wrap_step (xCleanup src dst st).dst h r id hfree rw d (Or.inr hw)
          obtain ⟨_, _, hden2⟩ := wrapF_keeps h r (xCleanup src dst st).dst id
            (contains_false_of_none hfree) rw d hw
          have done2 : XDone offS off src dst [h] { xCleanup src dst st with dst := d } :=
            ⟨i2, fun j hj => by
                have : j ≠ h := fun e => hj (by rw [e]; exact List.mem_cons_self)
                show d.handles[j]? = _
                rw [hfr2 j this]; exact hdh j,
              fun j w hj => by
                obtain ⟨m1, d1⟩ := dd j w hj
                have hj' : (xCleanup src dst st).dst.handles[j]? = some w := by rw [hdh j]; exact hj
                obtain ⟨m2, d2⟩ := hden2 j w hj'
                exact ⟨m2, fun σ => (d2 σ).trans (d1 σ)⟩,
              is, hsh, ht, hrf⟩
          cases rw with
          | error e => exact ⟨done2, fun r' hr' => by cases hr'⟩
          | ok _ =>
            refine ⟨done2, fun r' hr' => ?_⟩
            cases hr'
            rcases hres with ⟨_, hl2⟩ | ⟨⟨e, he⟩, _⟩
            · exact hl2
            · cases he

/-- the same seen from the target only, in the terms of DDProps.C08: `copy_bdd` of `dd._copy` into
a target in ANY mode, ANY arguments, every outcome -/
theorem aXCopyTo_keepsAll {offS off : Bool} (a src : AMgr) (hsrc : AInv offS src) (hu h : Nat) :
    AKeepsAt off a h (aXCopyTo src hu h) := by
  intro hi hf r a' he
  obtain ⟨hdone, _⟩ := aXCopyRun_total src a hsrc hi hu h hf
  unfold aXCopyTo at he
  cases hrun : aXCopyRun src a hu h with
  | mk r0 st =>
    rw [hrun] at he hdone
    cases he
    exact ⟨hdone.dinv, fun j hj => hdone.dsame j (fun hm => by
      rcases List.mem_cons.mp hm with rfl | hm
      · exact hj rfl
      · cases hm), hdone.dden⟩

/-! ### `copy_bdds_from` -/

theorem xcList_keeps {offS off : Bool} {src0 dst0 : AMgr} (hs : AInv offS src0) (hd : AInv off dst0)
    (fuel : Nat) : ∀ (hus : List Nat), XKeeps offS off src0 dst0 (xcList fuel hus) (fun _ => True)
  | [] => XKeeps.pure _ trivial
  | hu :: rest => by
    unfold xcList
    refine XKeeps.bind (xcF_keeps hs hd fuel hu) (fun r _ => ?_)
    refine XKeeps.bind (xcList_keeps hs hd fuel rest) (fun rs _ => ?_)
    exact XKeeps.pure _ trivial

/-- wrapping the results: ids that are not in use, pairwise different -/
theorem wrapResults_keeps {off : Bool} (ts : List Nat) :
    ∀ (hs : List Nat) (i : Nat) (nodes : List Int) (a : AMgr), AInv off a →
      (∀ h ∈ hs, a.handles.contains h = false) → hs.Nodup →
      ∀ r a', wrapResults ts i hs nodes a = (r, a') →
        AInv off a' ∧ (∀ j : Nat, j ∉ hs → a'.handles[j]? = a.handles[j]?) ∧
        (∀ (j : Nat) (w : Int), a.handles[j]? = some w →
          a'.m.tbl.Mem w ∧ ∀ σ, denN a'.m.tbl w σ = denN a.m.tbl w σ)
  | [], i, nodes, a, hi, _, _, r, a', he => by
    cases nodes <;> (cases he; exact ⟨hi, fun _ _ => rfl, fun j w hj => ⟨hi.hmem j w hj, fun _ => rfl⟩⟩)
  | h :: hs, i, [], a, hi, _, _, r, a', he => by
    cases he; exact ⟨hi, fun _ _ => rfl, fun j w hj => ⟨hi.hmem j w hj, fun _ => rfl⟩⟩
  | h :: hs, i, n :: nodes, a, hi, hf, hnd, r, a', he => by
    unfold wrapResults at he
    rw [AM.bind_eq] at he
    have hfh : a.handles.contains h = false := hf h List.mem_cons_self
    have hnd' := List.nodup_cons.mp hnd
    -- the first result
    have step : ∀ (r1 : Except Err Unit) (a1 : AMgr),
        (if (aliasOf ts i).isNone then wrapF h n else (pure () : AM Unit)) a = (r1, a1) →
        AInv off a1 ∧ (∀ j : Nat, j ≠ h → a1.handles[j]? = a.handles[j]?) ∧
        (∀ (j : Nat) (w : Int), a.handles[j]? = some w →
          a1.m.tbl.Mem w ∧ ∀ σ, denN a1.m.tbl w σ = denN a.m.tbl w σ) := by
      intro r1 a1 h1
      split at h1
      · exact wrapF_keeps h n a hi hfh r1 a1 h1
      · cases h1
        exact ⟨hi, fun _ _ => rfl, fun j w hj => ⟨hi.hmem j w hj, fun _ => rfl⟩⟩
    cases hx : (if (aliasOf ts i).isNone then wrapF h n else (pure () : AM Unit)) a with
    | mk r1 a1 =>
      rw [hx] at he
      obtain ⟨i1, s1, d1⟩ := step r1 a1 hx
      cases r1 with
      | error e =>
        simp only at he; cases he
        exact ⟨i1, fun j hj => s1 j (fun e => hj (by rw [e]; exact List.mem_cons_self)), d1⟩
      | ok _ =>
        simp only at he
        have hf1 : ∀ h' ∈ hs, a1.handles.contains h' = false := by
          intro h' hh'
          have hne : h' ≠ h := fun e => hnd'.1 (by rw [← e]; exact hh')
          have := s1 h' hne
          rw [TreeMap.contains_eq_isSome_getElem?, this, ← TreeMap.contains_eq_isSome_getElem?]
          exact hf h' (List.mem_cons_of_mem _ hh')
        obtain ⟨i2, s2, d2⟩ := wrapResults_keeps ts hs (i + 1) nodes a1 i1 hf1 hnd'.2 r a' he
        refine ⟨i2, fun j hj => ?_, fun j w hj => ?_⟩
        · have h1 : j ≠ h := fun e => hj (by rw [e]; exact List.mem_cons_self)
          have h2 : j ∉ hs := fun e => hj (List.mem_cons_of_mem _ e)
          rw [s2 j h2, s1 j h1]
        · obtain ⟨m1, e1⟩ := d1 j w hj
          have hj1 : a1.handles[j]? = some w := by
            by_cases hjh : j = h
            · subst hjh
              rw [TreeMap.getElem?_eq_none_of_contains_eq_false hfh] at hj; cases hj
            · rw [s1 j hjh]; exact hj
          obtain ⟨m2, e2⟩ := d2 j w hj1
          exact ⟨m2, fun σ => (e2 σ).trans (e1 σ)⟩

/-- `dd._copy.copy_bdds_from(roots, target)` over `dd.autoref`, target in ANY mode, ANY arguments,
every outcome: the target keeps its invariant, only the results are new (ids `hs`: not in use,
pairwise different), every live `Function` keeps its meaning; the source is back exactly -/
theorem aXCopyFromRun_total {offS off : Bool} (src dst : AMgr) (hs : AInv offS src)
    (hd : AInv off dst) (hus ids : List Nat) (hf : ∀ h ∈ ids, dst.handles.contains h = false)
    (hnd : ids.Nodup) :
    XDone offS off src dst ids (aXCopyFromRun src dst hus ids).2 := by
  have hx0 : XR offS off src dst { src := src, dst := dst } := ⟨.refl _, .refl _, rfl⟩
  unfold aXCopyFromRun
  cases hrun : xcList (src.m.nvars + 2) hus { src := src, dst := dst } with
  | mk r0 st =>
    obtain ⟨hx, _⟩ := xcList_keeps hs hd (src.m.nvars + 2) hus _ hx0 r0 st hrun
    have hdone := XDone.ofCleanup hs hd st hx ids
    cases r0 with
    | error e => exact hdone
    | ok rs =>
      simp only
      cases hn : (rs.map (·.1)).mapM (fun t => st.dst.handles[t]?) with
      | none => exact hdone
      | some nodes =>
        simp only
        obtain ⟨rd, hdh, is, hsh, ht, hrf⟩ := xCleanup_spec hs hd st hx
        obtain ⟨id, _, dd⟩ := reach_live hd rd
        have hfree : ∀ h ∈ ids, (xCleanup src dst st).dst.handles.contains h = false := by
          intro h hh
          rw [TreeMap.contains_eq_isSome_getElem?, hdh h, ← TreeMap.contains_eq_isSome_getElem?]
          exact hf h hh
        cases hw : wrapResults (rs.map (·.1)) 0 ids nodes (xCleanup src dst st).dst with
        | mk rw d =>
          obtain ⟨i2, s2, d2⟩ := wrapResults_keeps (rs.map (·.1)) ids 0 nodes _ id hfree hnd rw d hw
          have done2 : XDone offS off src dst ids { xCleanup src dst st with dst := d } :=
            ⟨i2, fun j hj => by
                show d.handles[j]? = _
                rw [s2 j hj]; exact hdh j,
              fun j w hj => by
                obtain ⟨m1, e1⟩ := dd j w hj
                have hj' : (xCleanup src dst st).dst.handles[j]? = some w := by rw [hdh j]; exact hj
                obtain ⟨m2, e2⟩ := d2 j w hj'
                exact ⟨m2, fun σ => (e2 σ).trans (e1 σ)⟩,
              is, hsh, ht, hrf⟩
          cases rw <;> exact done2

end DD
