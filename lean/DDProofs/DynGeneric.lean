/-
  DDProofs.DynGeneric — the decorator `_try_to_reorder` is transparent for EVERY body whose
  outcome on every state satisfying the invariant is "documented result, or abort having only
  added nodes", when the documented result is stated by variable NAME (so that it survives a
  change of the variable order).  Conditional on a contract for sifting (`SiftContract`, what
  C07 states about `reorder(bdd)`): invariant, order maps, exact counts (same ledger), declared
  names kept; every user-held reference denotes the same function of the variable names.

  (The former hypothesis `SiftSpec` of DDProofs.DynProofs is refutable — `not_siftSpec` in
  DDProofs.DynApply — and is not used here; the hypothesis `hmono` of `ite_dyn_spec` is what
  `iteF_refKeep` (DDProofs.DynRef) proves from exact counts.)
-/
import DDProofs.DynSubst
import DDProofs.VarsProofs
open Std

namespace DD

/-! ### the state kept between decorated calls, the contract of sifting -/

theorem OrderOK.of_maps_eq {t t' : Tbl} (hv : t'.vars = t.vars) (hl : t'.l2v = t.l2v) (h : OrderOK t) :
    OrderOK t' := by
  have hn : t'.nvars = t.nvars := by show t'.vars.size = t.vars.size; rw [hv]
  exact ⟨fun v i => by rw [hv, hl]; exact h.inv v i, fun v i => by rw [hv, hn]; exact h.lt v i,
    fun i => by rw [hn, hl]; exact h.total i⟩

theorem OrderOK.frame {m m' : Mgr} (hf : Frame m m') (h : OrderOK m.tbl) : OrderOK m'.tbl :=
  h.of_maps_eq hf.vars hf.l2v

/-- what holds between two decorated calls of a manager whose user holds the references counted
by the ledger `ext`: invariant, name/level maps inverse, counts exact, not inside a context,
default iteration schedule, the registered roots held, at least two variables (sifting one
variable raises `ValueError` in `min(sizes)`; it cannot be requested naturally) -/
structure DynInv (ext : Nat → Nat) (m : Mgr) : Prop where
  inv : Inv m
  order : OrderOK m.tbl
  refs : RefExact m ext
  ctx : m.ctx = false
  sched : m.sched = []
  roots : ∀ r ∈ m.roots, 0 < ext r.natAbs
  nvars : 2 ≤ m.nvars

/-- the CONTRACT of `reorder(bdd)` (sifting) that the decorator relies on — the statement of C07
for sifting: from a state satisfying `DynInv` with requests disabled it returns normally in such
a state, with the same declared variables, and every reference the user holds denotes the same
function of the variable NAMES. -/
structure SiftContract (ext : Nat → Nat) : Prop where
  run : ∀ (m : Mgr), DynInv ext m → m.lastLen = none →
    ∃ m', reorder none m = (.ok (), m') ∧ DynInv ext m' ∧ m'.lastLen = none ∧
      m'.nvars = m.nvars ∧
      (∀ s, m'.tbl.vars.contains s = m.tbl.vars.contains s) ∧
      ∀ u : Int, HeldX ext u → ∀ σ, denN m'.tbl u σ = denN m.tbl u σ
  /-- sifting does not touch the recorded roots -/
  roots : ∀ (m m' : Mgr), DynInv ext m → m.lastLen = none →
    reorder none m = (.ok (), m') → m'.roots = m.roots

/-- how the table `t'` seen by the retry relates to the table `t` of the call: both orders are
bijections on the same declared names, and the operands are still there with the same meaning
by name -/
structure Bridge (ops : List Int) (t t' : Tbl) : Prop where
  wf : WF t
  wf' : WF t'
  order : OrderOK t
  order' : OrderOK t'
  nvars : t'.nvars = t.nvars
  names : ∀ s, t'.vars.contains s = t.vars.contains s
  mem : ∀ u ∈ ops, t.Mem u
  ops : ∀ u ∈ ops, t'.Mem u ∧ ∀ σ, denN t' u σ = denN t u σ

/-- a held reference keeps its meaning by name across a step that only adds nodes -/
theorem StepK.denN {m m' : Mgr} (hs : StepK m m') (hW : WF m.tbl) {w : Int} (hw : m.tbl.Mem w)
    (σ : AsgN) : denN m'.tbl w σ = denN m.tbl w σ :=
  denN_of_same_l2v hs.frame.l2v w σ (fun a => den_ext hs.ext hW w a hw)

theorem StepK.names {m m' : Mgr} (hs : StepK m m') (s : String) :
    m'.tbl.vars.contains s = m.tbl.vars.contains s := by rw [hs.frame.vars]

/-- `DynInv` across a step that only adds nodes, when the flag is (again) cleared -/
theorem DynInv.step {ext : Nat → Nat} {m m' : Mgr} (h : DynInv ext m) (hs : StepK m m') :
    DynInv ext m' :=
  ⟨hs.inv, h.order.frame hs.frame, (hs.keep ext h.refs).1, by rw [hs.frame.ctx]; exact h.ctx,
   by rw [hs.frame.sched]; exact h.sched, by rw [hs.frame.roots]; exact h.roots,
   by rw [hs.nvars]; exact h.nvars⟩

/-- what the caller of a decorated operation observes (the result is `.ok r` in a state `m'`) -/
structure DynPostG {α} (ext : Nat → Nat) (Doc : Tbl → α → Tbl → Prop) (m : Mgr) (r : α) (m' : Mgr) :
    Prop where
  /-- the state is again as between two calls: in particular counts are exact for the same
  ledger and the flag is cleared -/
  inv : DynInv ext m'
  /-- the documented result, relative to the operands as they were -/
  doc : Doc m.tbl r m'.tbl
  /-- reordering is enabled afterwards iff it was -/
  enabled : m'.lastLen.isSome = m.lastLen.isSome
  /-- the declared variables are the same -/
  names : ∀ s, m'.tbl.vars.contains s = m.tbl.vars.contains s
  /-- every reference the user holds is still there and denotes the same function by name -/
  held : ∀ w, HeldX ext w → m'.tbl.Mem w ∧ ∀ σ, denN m'.tbl w σ = denN m.tbl w σ
  /-- the recorded roots are untouched -/
  roots : m'.roots = m.roots

/-- GENERIC transparency of `_try_to_reorder`.  `f` is any body such that, inside a context, in
every state satisfying the invariant (with `Pre` on its table and the operands `ops` present)
it either returns a result documented by `Doc` or is aborted by a reordering request having only
added nodes (`Outcome`); `Pre` and `Doc` are stable under a change of the variable order that
keeps the operands' meaning by name (`Bridge`).  Then the decorated `f`, with dynamic reordering
enabled or not and at whichever `find_or_add` the request fires, returns the documented result
relative to the operands as they were; it never raises the signal; the user's references keep
their meaning; counts stay exact; reordering stays enabled. -/
theorem tryToReorder_transparent {α} (ext : Nat → Nat) (hS : SiftContract ext) (f : M α)
    (ops : List Int) (Pre : Tbl → Prop) (Doc : Tbl → α → Tbl → Prop)
    (hbody : ∀ m0 : Mgr, Inv m0 → m0.ctx = true → OrderOK m0.tbl → Pre m0.tbl →
      (∀ u ∈ ops, m0.tbl.Mem u) → Outcome m0 (fun r m1 => Doc m0.tbl r m1.tbl) (f m0))
    (hpre : ∀ t t', Bridge ops t t' → Pre t → Pre t')
    (hdoc : ∀ t t' r t'', Bridge ops t t' → Pre t → Doc t' r t'' → Doc t r t'')
    (m : Mgr) (hD : DynInv ext m) (hops : ∀ u ∈ ops, HeldX ext u) (hpre0 : Pre m.tbl) :
    ∃ r m', tryToReorder f m = (.ok r, m') ∧ DynPostG ext Doc m r m' := by
  have hI := hD.inv
  have hW := hI.wf.toWF
  have hmem0 : ∀ u ∈ ops, m.tbl.Mem u := fun u hu => (hops u hu).mem hD.refs
  have h1 := hbody { m with ctx := true } (hI.setCtx true) rfl hD.order hpre0 hmem0
  rcases h1.cases with ⟨r, m1, he, hs, hdoc1⟩ | ⟨m1, he, hs, ha⟩
  · -- no request fired
    refine ⟨r, { m1 with ctx := m.ctx }, tryToReorder_ok f m r m1 he, ?_⟩
    have hs' : StepK m { m1 with ctx := m.ctx } := hs.ofCtx true
    refine ⟨hD.step hs', hdoc1, ?_, hs'.names, ?_, ?_⟩
    rotate_left 2
    · show m1.roots = m.roots
      rw [hs.frame.roots]
    · show m1.lastLen.isSome = m.lastLen.isSome
      rw [hs.frame.lastLen]
    · intro w hw
      have hmw := hw.mem hD.refs
      exact ⟨hs'.ext.mem hmw, fun σ => hs'.denN hW hmw σ⟩
  · -- the attempt was aborted by a request: only nodes were added
    let m2 : Mgr := { m1 with ctx := m.ctx, lastLen := none }
    have hs2 : StepK m { m1 with ctx := m.ctx } := hs.ofCtx true
    have hD2 : DynInv ext m2 := by
      have h := hD.step hs2
      exact ⟨⟨h.inv.wf, h.inv.pred, h.inv.freeGe, h.inv.free, h.inv.refOne, h.inv.refDom, h.inv.cache⟩,
        h.order, h.refs.congr rfl rfl, h.ctx, h.sched, h.roots, h.nvars⟩
    obtain ⟨m3, hre, hD3, hl3, hnv3, hnames3, hden3⟩ := hS.run m2 hD2 rfl
    have hW3 := hD3.inv.wf.toWF
    -- the bridge from the table of the call to the table after sifting
    have hB : Bridge ops m.tbl m3.tbl := by
      refine ⟨hW, hW3, hD.order, hD3.order, ?_, ?_, hmem0, ?_⟩
      · show m3.nvars = m.nvars
        rw [hnv3]; exact hs2.nvars
      · intro s; rw [hnames3 s]; exact hs2.names s
      · intro u hu
        refine ⟨(hops u hu).mem hD3.refs, fun σ => ?_⟩
        rw [hden3 u (hops u hu) σ]
        exact hs2.denN hW (hmem0 u hu) σ
    -- second attempt: requests are disabled, so it cannot abort
    have h2 := hbody { m3 with ctx := true } (hD3.inv.setCtx true) rfl hD3.order
      (hpre _ _ hB hpre0) (fun u hu => (hB.ops u hu).1)
    rcases h2.cases with ⟨r, m4, he4, hs4, hdoc4⟩ | ⟨m4, _, _, ha4⟩
    rotate_left
    · exfalso
      have := ha4.2
      rw [show ({ m3 with ctx := true } : Mgr).lastLen = m3.lastLen from rfl, hl3] at this
      exact Bool.noConfusion this
    let m5 : Mgr := { m4 with ctx := m3.ctx, lastLen := some (Gen.growthFactor * m3.len) }
    refine ⟨r, m5, tryToReorder_retry f m m1 m3 m4 r hD.ctx he hre he4, ?_⟩
    have hs5 : StepK m3 { m4 with ctx := m3.ctx } := hs4.ofCtx true
    have hD5 : DynInv ext m5 := by
      have h := hD3.step hs5
      exact ⟨⟨h.inv.wf, h.inv.pred, h.inv.freeGe, h.inv.free, h.inv.refOne, h.inv.refDom, h.inv.cache⟩,
        h.order, h.refs.congr rfl rfl, h.ctx, h.sched, h.roots, h.nvars⟩
    refine ⟨hD5, hdoc _ _ _ _ hB hpre0 hdoc4, ?_, ?_, ?_, ?_⟩
    rotate_left 3
    · show m4.roots = m.roots
      rw [hs4.frame.roots]
      show m3.roots = m.roots
      rw [hS.roots m2 m3 hD2 rfl hre]
      show m1.roots = m.roots
      rw [hs.frame.roots]
    · show (some (Gen.growthFactor * m3.len)).isSome = m.lastLen.isSome
      have := ha.2
      rw [show ({ m with ctx := true } : Mgr).lastLen = m.lastLen from rfl] at this
      rw [this]; rfl
    · intro s
      show m4.tbl.vars.contains s = _
      rw [hs5.names s, hnames3 s]; exact hs2.names s
    · intro w hw
      have hm3 := hw.mem hD3.refs
      refine ⟨hs5.ext.mem hm3, fun σ => ?_⟩
      show denN m4.tbl w σ = _
      rw [hs5.denN hW3 hm3 σ, hden3 w hw σ]
      exact hs2.denN hW (hw.mem hD.refs) σ

end DD
