/-
  DDProofs.DynGeneric — the decorator `_try_to_reorder` is transparent for EVERY body whose
  outcome on every state satisfying the invariant is "documented result, or abort having only
  added nodes", when the documented result is stated by variable NAME (so that it survives a
  change of the variable order).  Conditional on a contract for sifting (`SiftContract`, what
  C07 states about `reorder(bdd)`): invariant, order maps, exact counts (same ledger), declared
  names kept; every user-held reference denotes the same function of the variable names.

  Also: the decorated `ite` under the ORIGINAL hypothesis `SiftSpec` of DDProofs.DynProofs with
  the raw monotonicity hypothesis replaced by `RefExact` (`ite_dyn_spec_refExact`).
-/
import DDProofs.DynSubst
import DDProofs.VarsProofs
open Std

namespace DD

/-! ### the decorated `ite` under `SiftSpec`, counts exact instead of `hmono` -/

/-- `ite_dyn_spec` with the hypothesis `hmono` discharged: it follows from exact counts
(`RefExact m ext` for some ledger `ext` of user-held references) by `iteF_refKeep`. -/
theorem ite_dyn_spec_refExact (hS : SiftSpec) (m : Mgr) (ext : Nat → Nat) (hI : Inv m)
    (hR : RefExact m ext) (hctx : m.ctx = false) (hn : 2 ≤ m.nvars) (g u v : Int)
    (hg : m.tbl.Mem g) (hu : m.tbl.Mem u) (hv : m.tbl.Mem v)
    (hhg : Held m g) (hhu : Held m u) (hhv : Held m v) :
    ∃ r m', ite g u v m = (.ok r, m') ∧ DynPost m g u v r m' := by
  have hW := hI.wf.toWF
  have hraw : ∀ m0 : Mgr, iteRaw g u v m0 = iteF (m0.nvars + 2) g u v m0 := fun m0 => iteRaw_eq g u v m0
  have h1 := iteF_spec (m.nvars + 2) { m with ctx := true } g u v (hI.setCtx true) hg hu hv
    (by show m.nvars + 1 ≤ _; omega)
  have k1 := iteF_refKeep (m.nvars + 2) { m with ctx := true } g u v (hI.setCtx true) hg hu hv
    (by show m.nvars + 1 ≤ _; omega)
  generalize hres : iteF (m.nvars + 2) g u v { m with ctx := true } = res at h1 k1
  obtain ⟨r1, m1⟩ := res
  cases r1 with
  | ok r =>
    have hp : ItePost { m with ctx := true } g u v r m1 := h1
    refine ⟨r, { m1 with ctx := m.ctx }, ?_, ?_⟩
    · unfold ite
      exact tryToReorder_ok _ m r m1 (by rw [hraw]; exact hres)
    · refine ⟨hp.inv.setCtx _, hp.mem, ?_, ?_, rfl, ?_⟩
      · intro σ
        have hl : m1.tbl.l2v = m.tbl.l2v := hp.frame.l2v
        unfold denN Tbl.lift Tbl.nameOf
        show den m1.tbl r _ = _
        rw [hl, hp.den]
      · show m1.lastLen.isSome = _
        rw [hp.frame.lastLen]
      · intro w hw _
        refine ⟨hp.ext.mem hw, fun σ => ?_⟩
        exact denN_of_same_l2v hp.frame.l2v w σ (fun a => den_ext hp.ext hW w a hw)
  | error e =>
    have he : e = .needsReordering := h1.1
    have ha : AbortPost { m with ctx := true } m1 := h1.2
    subst he
    let m2 : Mgr := { m1 with ctx := m.ctx, lastLen := none }
    have hI2 : Inv m2 := ⟨ha.inv.wf, ha.inv.pred, ha.inv.freeGe, ha.inv.free, ha.inv.refOne,
      ha.inv.refDom, ha.inv.cache⟩
    have hnv2 : m2.nvars = m.nvars := ha.ext.nvars.symm
    obtain ⟨m3, hre, hI3, hl3, hc3, hnv3, hkeep⟩ := hS.run m2 hI2 rfl (by omega)
    -- held operands survive the aborted attempt: counts are exact, hence monotone
    have hmono : RefMono m m1 :=
      (k1 ext (hR.congr rfl rfl)).2.congr rfl rfl
    have hheld1 : ∀ w, Held m w → Held m2 w := fun w hw => Held.mono (m' := m2) (hmono.congr rfl rfl) hw
    have hmem2 : ∀ w, m.tbl.Mem w → m2.tbl.Mem w := fun w hw => ha.ext.mem hw
    have hden2 : ∀ w, m.tbl.Mem w → ∀ σ, denN m2.tbl w σ = denN m.tbl w σ := by
      intro w hw σ
      exact denN_of_same_l2v ha.frame.l2v w σ (fun a => den_ext ha.ext hW w a hw)
    have kg := hkeep g (hmem2 g hg) (hheld1 g hhg)
    have ku := hkeep u (hmem2 u hu) (hheld1 u hhu)
    have kv := hkeep v (hmem2 v hv) (hheld1 v hhv)
    have h2 := iteF_spec (m3.nvars + 2) { m3 with ctx := true } g u v (hI3.setCtx true)
      kg.1 ku.1 kv.1 (by show m3.nvars + 1 ≤ _; omega)
    generalize hres2 : iteF (m3.nvars + 2) g u v { m3 with ctx := true } = res2 at h2
    obtain ⟨r2, m4⟩ := res2
    cases r2 with
    | error e2 =>
      exfalso
      have := h2.2.armed.2
      rw [show ({ m3 with ctx := true } : Mgr).lastLen = m3.lastLen from rfl, hl3] at this
      exact Bool.noConfusion this
    | ok r =>
      have hp : ItePost { m3 with ctx := true } g u v r m4 := h2
      let m5 : Mgr := { m4 with ctx := m3.ctx, lastLen := some (Gen.growthFactor * m3.len) }
      refine ⟨r, m5, ?_, ?_⟩
      · unfold ite
        exact tryToReorder_retry (iteRaw g u v) m m1 m3 m4 r hctx
          (by rw [hraw]; exact hres) hre (by rw [hraw]; exact hres2)
      · have hW3 := hI3.wf.toWF
        refine ⟨⟨hp.inv.wf, hp.inv.pred, hp.inv.freeGe, hp.inv.free, hp.inv.refOne, hp.inv.refDom,
          hp.inv.cache⟩, hp.mem, ?_, ?_, ?_, ?_⟩
        · intro σ
          have hl : m4.tbl.l2v = m3.tbl.l2v := hp.frame.l2v
          have e1 : denN m4.tbl r σ =
              if denN m3.tbl g σ then denN m3.tbl u σ else denN m3.tbl v σ := by
            unfold denN Tbl.lift Tbl.nameOf
            rw [hl, hp.den]
          show denN m4.tbl r σ = _
          rw [e1, kg.2.2 σ, ku.2.2 σ, kv.2.2 σ, hden2 g hg σ, hden2 u hu σ, hden2 v hv σ]
        · show (some (Gen.growthFactor * m3.len)).isSome = m.lastLen.isSome
          have := ha.armed.2
          rw [show ({ m with ctx := true } : Mgr).lastLen = m.lastLen from rfl] at this
          rw [this]; rfl
        · show m3.ctx = m.ctx
          rw [hc3]
        · intro w hw hhw
          have kw := hkeep w (hmem2 w hw) (hheld1 w hhw)
          refine ⟨hp.ext.mem kw.1, fun σ => ?_⟩
          have : denN m4.tbl w σ = denN m3.tbl w σ :=
            denN_of_same_l2v hp.frame.l2v w σ (fun a => den_ext hp.ext hW3 w a kw.1)
          show denN m4.tbl w σ = _
          rw [this, kw.2.2 σ, hden2 w hw σ]

/-! ### the state kept between decorated calls, the contract of sifting -/

theorem OrderOK.of_eq {t t' : Tbl} (hv : t'.vars = t.vars) (hl : t'.l2v = t.l2v) (h : OrderOK t) :
    OrderOK t' := by
  have hn : t'.nvars = t.nvars := by show t'.vars.size = t.vars.size; rw [hv]
  exact ⟨fun v i => by rw [hv, hl]; exact h.inv v i, fun v i => by rw [hv, hn]; exact h.lt v i,
    fun i => by rw [hn, hl]; exact h.total i⟩

theorem OrderOK.frame {m m' : Mgr} (hf : Frame m m') (h : OrderOK m.tbl) : OrderOK m'.tbl :=
  h.of_eq hf.vars hf.l2v

/-- what holds between two decorated calls of a manager whose user holds the references counted
by the ledger `ext`: invariant, name/level maps inverse, counts exact, not inside a context,
default iteration schedule, the registered roots held, at least two variables (sifting one
variable raises `ValueError` in `min(sizes)`; it cannot be requested naturally) -/
structure DynInv (ext : Nat → Nat) (m : Mgr) : Prop where
  inv : Inv m
  order : OrderOK m.tbl
  refs : RefExact m ext
  ctx : m.ctx = false
  sched : m.sched = []
  roots : ∀ r ∈ m.roots, 0 < ext r.natAbs
  nvars : 2 ≤ m.nvars

/-- the CONTRACT of `reorder(bdd)` (sifting) that the decorator relies on — the statement of C07
for sifting: from a state satisfying `DynInv` with requests disabled it returns normally in such
a state, with the same declared variables, and every reference the user holds denotes the same
function of the variable NAMES. -/
structure SiftContract (ext : Nat → Nat) : Prop where
  run : ∀ (m : Mgr), DynInv ext m → m.lastLen = none →
    ∃ m', reorder none m = (.ok (), m') ∧ DynInv ext m' ∧ m'.lastLen = none ∧
      m'.nvars = m.nvars ∧
      (∀ s, m'.tbl.vars.contains s = m.tbl.vars.contains s) ∧
      ∀ u : Int, HeldX ext u → ∀ σ, denN m'.tbl u σ = denN m.tbl u σ

/-- how the table `t'` seen by the retry relates to the table `t` of the call: both orders are
bijections on the same declared names, and the operands are still there with the same meaning
by name -/
structure Bridge (ops : List Int) (t t' : Tbl) : Prop where
  wf : WF t
  wf' : WF t'
  order : OrderOK t
  order' : OrderOK t'
  nvars : t'.nvars = t.nvars
  names : ∀ s, t'.vars.contains s = t.vars.contains s
  mem : ∀ u ∈ ops, t.Mem u
  ops : ∀ u ∈ ops, t'.Mem u ∧ ∀ σ, denN t' u σ = denN t u σ

/-- a held reference keeps its meaning by name across a step that only adds nodes -/
theorem StepK.denN {m m' : Mgr} (hs : StepK m m') (hW : WF m.tbl) {w : Int} (hw : m.tbl.Mem w)
    (σ : AsgN) : denN m'.tbl w σ = denN m.tbl w σ :=
  denN_of_same_l2v hs.frame.l2v w σ (fun a => den_ext hs.ext hW w a hw)

theorem StepK.names {m m' : Mgr} (hs : StepK m m') (s : String) :
    m'.tbl.vars.contains s = m.tbl.vars.contains s := by rw [hs.frame.vars]

/-- `DynInv` across a step that only adds nodes, when the flag is (again) cleared -/
theorem DynInv.step {ext : Nat → Nat} {m m' : Mgr} (h : DynInv ext m) (hs : StepK m m') :
    DynInv ext m' :=
  ⟨hs.inv, h.order.frame hs.frame, (hs.keep ext h.refs).1, by rw [hs.frame.ctx]; exact h.ctx,
   by rw [hs.frame.sched]; exact h.sched, by rw [hs.frame.roots]; exact h.roots,
   by rw [hs.nvars]; exact h.nvars⟩

/-- what the caller of a decorated operation observes (the result is `.ok r` in a state `m'`) -/
structure DynPostG {α} (ext : Nat → Nat) (Doc : Tbl → α → Tbl → Prop) (m : Mgr) (r : α) (m' : Mgr) :
    Prop where
  /-- the state is again as between two calls: in particular counts are exact for the same
  ledger and the flag is cleared -/
  inv : DynInv ext m'
  /-- the documented result, relative to the operands as they were -/
  doc : Doc m.tbl r m'.tbl
  /-- reordering is enabled afterwards iff it was -/
  enabled : m'.lastLen.isSome = m.lastLen.isSome
  /-- the declared variables are the same -/
  names : ∀ s, m'.tbl.vars.contains s = m.tbl.vars.contains s
  /-- every reference the user holds is still there and denotes the same function by name -/
  held : ∀ w, HeldX ext w → m'.tbl.Mem w ∧ ∀ σ, denN m'.tbl w σ = denN m.tbl w σ

/-- GENERIC transparency of `_try_to_reorder`.  `f` is any body such that, inside a context, in
every state satisfying the invariant (with `Pre` on its table and the operands `ops` present)
it either returns a result documented by `Doc` or is aborted by a reordering request having only
added nodes (`Outcome`); `Pre` and `Doc` are stable under a change of the variable order that
keeps the operands' meaning by name (`Bridge`).  Then the decorated `f`, with dynamic reordering
enabled or not and at whichever `find_or_add` the request fires, returns the documented result
relative to the operands as they were; it never raises the signal; the user's references keep
their meaning; counts stay exact; reordering stays enabled. -/
theorem tryToReorder_transparent {α} (ext : Nat → Nat) (hS : SiftContract ext) (f : M α)
    (ops : List Int) (Pre : Tbl → Prop) (Doc : Tbl → α → Tbl → Prop)
    (hbody : ∀ m0 : Mgr, Inv m0 → m0.ctx = true → OrderOK m0.tbl → Pre m0.tbl →
      (∀ u ∈ ops, m0.tbl.Mem u) → Outcome m0 (fun r m1 => Doc m0.tbl r m1.tbl) (f m0))
    (hpre : ∀ t t', Bridge ops t t' → Pre t → Pre t')
    (hdoc : ∀ t t' r t'', Bridge ops t t' → Pre t → Doc t' r t'' → Doc t r t'')
    (m : Mgr) (hD : DynInv ext m) (hops : ∀ u ∈ ops, HeldX ext u) (hpre0 : Pre m.tbl) :
    ∃ r m', tryToReorder f m = (.ok r, m') ∧ DynPostG ext Doc m r m' := by
  have hI := hD.inv
  have hW := hI.wf.toWF
  have hmem0 : ∀ u ∈ ops, m.tbl.Mem u := fun u hu => (hops u hu).mem hD.refs
  have h1 := hbody { m with ctx := true } (hI.setCtx true) rfl hD.order hpre0 hmem0
  rcases h1.cases with ⟨r, m1, he, hs, hdoc1⟩ | ⟨m1, he, hs, ha⟩
  · -- no request fired
    refine ⟨r, { m1 with ctx := m.ctx }, tryToReorder_ok f m r m1 he, ?_⟩
    have hs' : StepK m { m1 with ctx := m.ctx } := hs.ofCtx true
    refine ⟨hD.step hs', hdoc1, ?_, hs'.names, ?_⟩
    · show m1.lastLen.isSome = m.lastLen.isSome
      rw [hs.frame.lastLen]
    · intro w hw
      have hmw := hw.mem hD.refs
      exact ⟨hs'.ext.mem hmw, fun σ => hs'.denN hW hmw σ⟩
  · -- the attempt was aborted by a request: only nodes were added
    let m2 : Mgr := { m1 with ctx := m.ctx, lastLen := none }
    have hs2 : StepK m { m1 with ctx := m.ctx } := hs.ofCtx true
    have hD2 : DynInv ext m2 := by
      have h := hD.step hs2
      exact ⟨⟨h.inv.wf, h.inv.pred, h.inv.freeGe, h.inv.free, h.inv.refOne, h.inv.refDom, h.inv.cache⟩,
        h.order, h.refs.congr rfl rfl, h.ctx, h.sched, h.roots, h.nvars⟩
    obtain ⟨m3, hre, hD3, hl3, hnv3, hnames3, hden3⟩ := hS.run m2 hD2 rfl
    have hW3 := hD3.inv.wf.toWF
    -- the bridge from the table of the call to the table after sifting
    have hB : Bridge ops m.tbl m3.tbl := by
      refine ⟨hW, hW3, hD.order, hD3.order, ?_, ?_, hmem0, ?_⟩
      · show m3.nvars = m.nvars
        rw [hnv3]; exact hs2.nvars
      · intro s; rw [hnames3 s]; exact hs2.names s
      · intro u hu
        refine ⟨(hops u hu).mem hD3.refs, fun σ => ?_⟩
        rw [hden3 u (hops u hu) σ]
        exact hs2.denN hW (hmem0 u hu) σ
    -- second attempt: requests are disabled, so it cannot abort
    have h2 := hbody { m3 with ctx := true } (hD3.inv.setCtx true) rfl hD3.order
      (hpre _ _ hB hpre0) (fun u hu => (hB.ops u hu).1)
    rcases h2.cases with ⟨r, m4, he4, hs4, hdoc4⟩ | ⟨m4, _, _, ha4⟩
    rotate_left
    · exfalso
      have := ha4.2
      rw [show ({ m3 with ctx := true } : Mgr).lastLen = m3.lastLen from rfl, hl3] at this
      exact Bool.noConfusion this
    let m5 : Mgr := { m4 with ctx := m3.ctx, lastLen := some (Gen.growthFactor * m3.len) }
    refine ⟨r, m5, tryToReorder_retry f m m1 m3 m4 r hD.ctx he hre he4, ?_⟩
    have hs5 : StepK m3 { m4 with ctx := m3.ctx } := hs4.ofCtx true
    have hD5 : DynInv ext m5 := by
      have h := hD3.step hs5
      exact ⟨⟨h.inv.wf, h.inv.pred, h.inv.freeGe, h.inv.free, h.inv.refOne, h.inv.refDom, h.inv.cache⟩,
        h.order, h.refs.congr rfl rfl, h.ctx, h.sched, h.roots, h.nvars⟩
    refine ⟨hD5, hdoc _ _ _ _ hB hpre0 hdoc4, ?_, ?_, ?_⟩
    · show (some (Gen.growthFactor * m3.len)).isSome = m.lastLen.isSome
      have := ha.2
      rw [show ({ m with ctx := true } : Mgr).lastLen = m.lastLen from rfl] at this
      rw [this]; rfl
    · intro s
      show m4.tbl.vars.contains s = _
      rw [hs5.names s, hnames3 s]; exact hs2.names s
    · intro w hw
      have hm3 := hw.mem hD3.refs
      refine ⟨hs5.ext.mem hm3, fun σ => ?_⟩
      show denN m4.tbl w σ = _
      rw [hs5.denN hW3 hm3 σ, hden3 w hw σ]
      exact hs2.denN hW (hw.mem hD.refs) σ

end DD
