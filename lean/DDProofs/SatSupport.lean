/-
  DDProofs.SatSupport — reachability, `isEssential`, `descendants`, `support`.
-/
import DDProofs.SatBasic
import DDProofs.SatList
open Std

namespace DD

/-! ### reachability between node indices -/

inductive Reach (t : Tbl) : Nat → Nat → Prop
  | refl (u : Nat) : Reach t u u
  | lo {u v : Nat} {n : Nd} : t.succ[u]? = some n → Reach t n.lo.natAbs v → Reach t u v
  | hi {u v : Nat} {n : Nd} : t.succ[u]? = some n → Reach t n.hi.natAbs v → Reach t u v

theorem mem_natAbs {t : Tbl} {u : Int} (h : t.Mem u) : t.Mem (u.natAbs : Int) := by
  unfold Tbl.Mem at *; simpa using h

theorem mem_of_natAbs {t : Tbl} {u : Int} (h : t.Mem (u.natAbs : Int)) : t.Mem u := by
  unfold Tbl.Mem at *; simpa using h

theorem levelOf_natAbs (t : Tbl) (u : Int) : t.levelOf (u.natAbs : Int) = t.levelOf u := by
  unfold Tbl.levelOf; simp

theorem Reach.mem {t : Tbl} (hw : WF t) {u v : Nat} (h : Reach t u v) : t.Mem (u : Int) → t.Mem (v : Int) := by
  induction h with
  | refl u => exact id
  | lo hn _ ih => intro _; exact ih (mem_natAbs (hw.lo_mem _ _ hn))
  | hi hn _ ih => intro _; exact ih (mem_natAbs (hw.hi_mem _ _ hn))

theorem Reach.level_le {t : Tbl} (hw : WF t) {u v : Nat} (h : Reach t u v) :
    t.levelOf (u : Int) ≤ t.levelOf (v : Int) := by
  induction h with
  | refl u => exact Nat.le_refl _
  | @lo u v n hn _ ih =>
    have h1 : (u : Int).natAbs ≠ 1 := by simpa using hw.node_ne_one hn
    have := levelOf_node t (u : Int) n h1 (by simpa [Tbl.node?] using hn)
    have := hw.lo_lt _ _ hn
    rw [levelOf_natAbs] at ih; omega
  | @hi u v n hn _ ih =>
    have h1 : (u : Int).natAbs ≠ 1 := by simpa using hw.node_ne_one hn
    have := levelOf_node t (u : Int) n h1 (by simpa [Tbl.node?] using hn)
    have := hw.hi_lt _ _ hn
    rw [levelOf_natAbs] at ih; omega

theorem Reach.trans {t : Tbl} {u v w : Nat} (h1 : Reach t u v) (h2 : Reach t v w) : Reach t u w := by
  induction h1 with
  | refl u => exact h2
  | lo hn _ ih => exact Reach.lo hn (ih h2)
  | hi hn _ ih => exact Reach.hi hn (ih h2)

theorem reach_one_iff {t : Tbl} (hw : WF t) (v : Nat) : Reach t 1 v ↔ v = 1 := by
  constructor
  · intro h
    cases h with
    | refl => rfl
    | lo hn _ => exact absurd rfl (hw.node_ne_one hn)
    | hi hn _ => exact absurd rfl (hw.node_ne_one hn)
  · rintro rfl; exact Reach.refl 1

/-- induction over references by decreasing level -/
theorem ref_induction {t : Tbl} (hw : WF t) (P : Int → Prop)
    (hterm : ∀ u, u.natAbs = 1 → P u)
    (hnode : ∀ u n, u.natAbs ≠ 1 → t.succ[u.natAbs]? = some n → P n.lo → P n.hi → P u) :
    ∀ u, t.Mem u → P u := by
  have : ∀ k u, t.Mem u → t.nvars ≤ k + t.levelOf u → P u := by
    intro k
    induction k with
    | zero =>
      intro u hm hk
      rcases hm.cases with h1 | ⟨h1, n, hn⟩
      · exact hterm u h1
      · have := levelOf_node t u n h1 hn
        have := hw.lvl_lt _ _ hn
        omega
    | succ k ih =>
      intro u hm hk
      rcases hm.cases with h1 | ⟨h1, n, hn⟩
      · exact hterm u h1
      · have := levelOf_node t u n h1 hn
        have := hw.lo_lt _ _ hn
        have := hw.hi_lt _ _ hn
        exact hnode u n h1 hn (ih _ (hw.lo_mem _ _ hn) (by omega)) (ih _ (hw.hi_mem _ _ hn) (by omega))
  intro u hm
  exact this t.nvars u hm (by omega)

/-- the terminal is reachable from every reference -/
theorem reach_term {t : Tbl} (hw : WF t) : ∀ u, t.Mem u → Reach t u.natAbs 1 := by
  apply ref_induction hw
  · intro u h1; rw [h1]; exact Reach.refl 1
  · intro u n _ hn ihlo _; exact Reach.lo hn ihlo

/-- levels of the nodes under `u` = levels the function depends on -/
theorem dependsOn_iff_reach {t : Tbl} (hw : WFU t) (i : Nat) : ∀ u, t.Mem u →
    (dependsOn t u i ↔ ∃ v n, Reach t u.natAbs v ∧ t.succ[v]? = some n ∧ n.lvl = i) := by
  have hW := hw.toWF
  apply ref_induction hW
  · intro u h1
    constructor
    · intro h; exact absurd h (dependsOn_term h1 i)
    · rintro ⟨v, n, hr, hn, _⟩
      rw [h1, reach_one_iff hW] at hr
      subst hr
      exact absurd rfl (hW.node_ne_one hn)
  · intro u n h1 hn ihlo ihhi
    by_cases hi : i = n.lvl
    · subst hi
      constructor
      · intro _; exact ⟨u.natAbs, n, Reach.refl _, hn, rfl⟩
      · intro _; exact node_depends_on_own_level hw h1 hn
    · rw [dependsOn_node hW h1 hn hi, ihlo, ihhi]
      constructor
      · rintro (⟨v, n', hr, hn', hl⟩ | ⟨v, n', hr, hn', hl⟩)
        · exact ⟨v, n', Reach.lo hn hr, hn', hl⟩
        · exact ⟨v, n', Reach.hi hn hr, hn', hl⟩
      · rintro ⟨v, n', hr, hn', hl⟩
        cases hr with
        | refl => rw [hn] at hn'; cases hn'; exact absurd hl.symm hi
        | lo hn2 hr => rw [hn] at hn2; cases hn2; exact Or.inl ⟨v, n', hr, hn', hl⟩
        | hi hn2 hr => rw [hn] at hn2; cases hn2; exact Or.inr ⟨v, n', hr, hn', hl⟩

theorem dependsOn_lt_nvars {t : Tbl} (hw : WFU t) {u : Int} (hm : t.Mem u) {i : Nat}
    (h : dependsOn t u i) : i < t.nvars := by
  obtain ⟨v, n, _, hn, hl⟩ := (dependsOn_iff_reach hw i u hm).mp h
  rw [← hl]; exact hw.lvl_lt _ _ hn

/-! ### is_essential -/

theorem isEssentialF_spec {t : Tbl} (hw : WFU t) {i : Nat} (hi : i < t.nvars) :
    ∀ f u, t.Mem u → t.nvars + 1 ≤ f + t.levelOf u →
      ∃ b, isEssentialF f t u i = .ok b ∧ (b = true ↔ dependsOn t u i) := by
  have hW := hw.toWF
  intro f
  induction f with
  | zero => intro u _ hf; have := levelOf_le t hW u; omega
  | succ f ih =>
    intro u hm hf
    rcases hm.cases with h1 | ⟨h1, n, hn⟩
    · refine ⟨false, ?_, by simp [dependsOn_term h1]⟩
      simp [isEssentialF, h1, hi]
    · have hl := levelOf_node t u n h1 hn
      have h2 := hW.lo_lt _ _ hn
      have h3 := hW.hi_lt _ _ hn
      unfold isEssentialF
      simp only [h1, if_false, hn, Option.map_some]
      by_cases c1 : i < n.lvl
      · refine ⟨false, by simp [c1], ?_⟩
        simp; exact dependsOn_lt hW hm (by omega)
      · by_cases c2 : i = n.lvl
        · refine ⟨true, by simp [c2], ?_⟩
          simp; subst c2; exact node_depends_on_own_level hw h1 hn
        · simp only [c1, c2, if_false, hW.zero_test hn, Bool.false_eq_true]
          obtain ⟨b1, e1, s1⟩ := ih n.lo (hW.lo_mem _ _ hn) (by omega)
          obtain ⟨b2, e2, s2⟩ := ih n.hi (hW.hi_mem _ _ hn) (by omega)
          rw [e1]
          cases b1 with
          | true =>
            refine ⟨true, rfl, ?_⟩
            simp; exact (dependsOn_node hW h1 hn c2).mpr (Or.inl (s1.mp rfl))
          | false =>
            refine ⟨b2, e2, ?_⟩
            rw [s2, dependsOn_node hW h1 hn c2]
            constructor
            · exact Or.inr
            · rintro (h | h)
              · exact absurd (s1.mpr h) (by simp)
              · exact h

end DD

namespace DD

/-! ### descendants -/

/-- a visited list closed under children -/
def PreClosed (t : Tbl) (vis : List Nat) : Prop :=
  ∀ v ∈ vis, ∀ n, t.succ[v]? = some n → n.lo.natAbs ∈ vis ∧ n.hi.natAbs ∈ vis

theorem PreClosed.reach {t : Tbl} {vis : List Nat} (hc : PreClosed t vis) {u v : Nat}
    (hr : Reach t u v) : u ∈ vis → v ∈ vis := by
  induction hr with
  | refl => exact id
  | lo hn _ ih => intro hu; exact ih (hc _ hu _ hn).1
  | hi hn _ ih => intro hu; exact ih (hc _ hu _ hn).2

theorem descendantsF_spec {t : Tbl} (hw : WF t) :
    ∀ f u vis, t.Mem u → t.nvars + 1 ≤ f + t.levelOf u → PreClosed t vis → 1 ∈ vis → vis.Nodup →
      ∃ vis', descendantsF f t u vis = .ok vis' ∧ PreClosed t vis' ∧ vis'.Nodup ∧
        ∀ v, v ∈ vis' ↔ v ∈ vis ∨ Reach t u.natAbs v := by
  intro f
  induction f with
  | zero => intro u _ _ hf; have := levelOf_le t hw u; omega
  | succ f ih =>
    intro u vis hm hf hc h1v hnd
    rcases hm.cases with h1 | ⟨h1, n, hn⟩
    · refine ⟨vis, by simp [descendantsF, h1], hc, hnd, ?_⟩
      intro v
      rw [h1, reach_one_iff hw]
      constructor
      · exact Or.inl
      · rintro (h | rfl)
        · exact h
        · exact h1v
    · by_cases hcont : u.natAbs ∈ vis
      · refine ⟨vis, by simp [descendantsF, hcont], hc, hnd, ?_⟩
        intro v
        constructor
        · exact Or.inl
        · rintro (h | h)
          · exact h
          · exact hc.reach h hcont
      · have hl := levelOf_node t u n h1 hn
        have h2 := hw.lo_lt _ _ hn
        have h3 := hw.hi_lt _ _ hn
        obtain ⟨v1, e1, c1, n1, s1⟩ := ih n.lo vis (hw.lo_mem _ _ hn) (by omega) hc h1v hnd
        obtain ⟨v2, e2, c2, n2, s2⟩ := ih n.hi v1 (hw.hi_mem _ _ hn) (by omega) c1
          ((s1 1).mpr (Or.inl h1v)) n1
        have hmem : ∀ v, (v = u.natAbs ∨ v ∈ v2) ↔ (v ∈ vis ∨ Reach t u.natAbs v) := by
          intro v
          rw [s2, s1]
          constructor
          · rintro (h | (h | h) | h)
            · subst h; exact Or.inr (Reach.refl _)
            · exact Or.inl h
            · exact Or.inr (Reach.lo hn h)
            · exact Or.inr (Reach.hi hn h)
          · rintro (h | h)
            · exact Or.inr (Or.inl (Or.inl h))
            · cases h with
              | refl => exact Or.inl rfl
              | lo hn' hr => rw [hn] at hn'; cases hn'; exact Or.inr (Or.inl (Or.inr hr))
              | hi hn' hr => rw [hn] at hn'; cases hn'; exact Or.inr (Or.inr hr)
        have hlo2 : n.lo.natAbs ∈ v2 := (s2 _).mpr (Or.inl ((s1 _).mpr (Or.inr (Reach.refl _))))
        have hhi2 : n.hi.natAbs ∈ v2 := (s2 _).mpr (Or.inr (Reach.refl _))
        by_cases hin : u.natAbs ∈ v2
        · refine ⟨v2, ?_, c2, n2, ?_⟩
          · simp [descendantsF, h1, hcont, hn, hw.zero_test hn, e1, e2, hin]
          · intro v; rw [← hmem]
            constructor
            · exact Or.inr
            · rintro (h | h)
              · subst h; exact hin
              · exact h
        · refine ⟨u.natAbs :: v2, ?_, ?_, List.nodup_cons.mpr ⟨hin, n2⟩, ?_⟩
          · simp [descendantsF, h1, hcont, hn, hw.zero_test hn, e1, e2, hin]
          · intro v hv n' hn'
            rcases List.mem_cons.mp hv with hv | hv
            · subst hv; rw [hn] at hn'; cases hn'
              exact ⟨List.mem_cons_of_mem _ hlo2, List.mem_cons_of_mem _ hhi2⟩
            · have := c2 v hv n' hn'
              exact ⟨List.mem_cons_of_mem _ this.1, List.mem_cons_of_mem _ this.2⟩
          · intro v; rw [← hmem, List.mem_cons]

theorem descendants_go_spec {t : Tbl} (hw : WF t) :
    ∀ roots vis, (∀ r ∈ roots, t.Mem r) → PreClosed t vis → vis.Nodup →
      ∃ vis', descendants.go t roots vis = .ok vis' ∧ PreClosed t vis' ∧ vis'.Nodup ∧
        ∀ v, v ∈ vis' ↔ v ∈ vis ∨ ∃ r ∈ roots, Reach t r.natAbs v := by
  intro roots
  induction roots with
  | nil => intro vis _ hc hn; exact ⟨vis, rfl, hc, hn, by simp⟩
  | cons r rest ih =>
    intro vis hm hc hn
    have hmr := hm r (by simp)
    -- the visited list after adding the terminal
    have key : ∃ vis1, (if vis.contains 1 then vis else 1 :: vis) = vis1 ∧ PreClosed t vis1 ∧
        vis1.Nodup ∧ 1 ∈ vis1 ∧ ∀ v, v ∈ vis1 ↔ v ∈ vis ∨ v = 1 := by
      by_cases h1 : 1 ∈ vis
      · refine ⟨vis, by simp [h1], hc, hn, h1, ?_⟩
        intro v; constructor
        · exact Or.inl
        · rintro (h | rfl)
          · exact h
          · exact h1
      · refine ⟨1 :: vis, by simp [h1], ?_, List.nodup_cons.mpr ⟨h1, hn⟩, by simp, ?_⟩
        · intro v hv n' hn'
          rcases List.mem_cons.mp hv with hv | hv
          · subst hv; exact absurd rfl (hw.node_ne_one hn')
          · have := hc v hv n' hn'
            exact ⟨List.mem_cons_of_mem _ this.1, List.mem_cons_of_mem _ this.2⟩
        · intro v; rw [List.mem_cons]; constructor
          · rintro (h | h)
            · exact Or.inr h
            · exact Or.inl h
          · rintro (h | h)
            · exact Or.inr h
            · exact Or.inl h
    obtain ⟨vis1, e0, c0, n0, h10, s0⟩ := key
    obtain ⟨v1, e1, c1, n1, s1⟩ := descendantsF_spec hw (t.nvars + 2) r vis1 hmr (by omega) c0 h10 n0
    obtain ⟨v2, e2, c2, n2, s2⟩ := ih v1 (fun x hx => hm x (List.mem_cons_of_mem _ hx)) c1 n1
    refine ⟨v2, ?_, c2, n2, ?_⟩
    · simp only [descendants.go, e0, e1, e2]
    · intro v
      rw [s2, s1, s0]
      constructor
      · rintro (((h | h) | h) | ⟨x, hx, h⟩)
        · exact Or.inl h
        · subst h; exact Or.inr ⟨r, by simp, reach_term hw r hmr⟩
        · exact Or.inr ⟨r, by simp, h⟩
        · exact Or.inr ⟨x, List.mem_cons_of_mem _ hx, h⟩
      · rintro (h | ⟨x, hx, h⟩)
        · exact Or.inl (Or.inl (Or.inl h))
        · rcases List.mem_cons.mp hx with hx | hx
          · subst hx; exact Or.inl (Or.inr h)
          · exact Or.inr ⟨x, hx, h⟩

/-- `descendants`: the strictly ascending list of exactly the nodes reachable from the roots
(the terminal is reachable from every root) -/
theorem descendants_spec' {t : Tbl} (hw : WF t) (roots : List Int) (hm : ∀ r ∈ roots, t.Mem r) :
    ∃ l, descendants t roots = .ok l ∧ l.Pairwise (· < ·) ∧
      ∀ v, v ∈ l ↔ ∃ r ∈ roots, Reach t r.natAbs v := by
  obtain ⟨vis, e, _, n, s⟩ := descendants_go_spec hw roots [] hm (by intro v hv; simp at hv) (by simp)
  refine ⟨sortNat vis, by simp [descendants, e], sortNat_strict n, ?_⟩
  intro v; rw [mem_sortNat, s]; simp

end DD

namespace DD

/-! ### support -/

/-- number of stored nodes at level `l` or below it in the order (fuel measure of `supportF`,
whose fuel is given in terms of the table size) -/
def nodesFrom (t : Tbl) (l : Nat) : Nat := (t.succ.toList.filter (fun p => decide (l ≤ p.2.lvl))).length

theorem filter_length_mono {α} (p q : α → Bool) (l : List α) (hpq : ∀ x, p x = true → q x = true) :
    (l.filter p).length ≤ (l.filter q).length := by
  induction l with
  | nil => simp
  | cons b l ih =>
    by_cases hb : p b = true
    · rw [List.filter_cons_of_pos hb, List.filter_cons_of_pos (hpq b hb)]
      simp only [List.length_cons]; omega
    · rw [List.filter_cons_of_neg hb]
      by_cases hqb : q b = true
      · rw [List.filter_cons_of_pos hqb]; simp only [List.length_cons]; omega
      · rw [List.filter_cons_of_neg hqb]; exact ih

theorem filter_length_lt {α} (p q : α → Bool) (l : List α) (x0 : α) (hpq : ∀ x, p x = true → q x = true)
    (hx : x0 ∈ l) (hq : q x0 = true) (hp : p x0 = false) :
    (l.filter p).length + 1 ≤ (l.filter q).length := by
  induction l with
  | nil => simp at hx
  | cons a l ih =>
    rcases List.mem_cons.mp hx with hx | hx
    · subst hx
      rw [List.filter_cons_of_pos hq, List.filter_cons_of_neg (by simp [hp])]
      have := filter_length_mono p q l hpq
      simp only [List.length_cons]; omega
    · have := ih hx
      by_cases hb : p a = true
      · rw [List.filter_cons_of_pos hb, List.filter_cons_of_pos (hpq a hb)]
        simp only [List.length_cons]; omega
      · rw [List.filter_cons_of_neg hb]
        by_cases hqb : q a = true
        · rw [List.filter_cons_of_pos hqb]; simp only [List.length_cons]; omega
        · rw [List.filter_cons_of_neg hqb]; exact this

theorem nodesFrom_le_size (t : Tbl) (l : Nat) : nodesFrom t l ≤ t.succ.size := by
  unfold nodesFrom
  rw [← TreeMap.length_toList]
  exact List.length_filter_le _ _

theorem nodesFrom_step {t : Tbl} {u : Nat} {n : Nd} (hn : t.succ[u]? = some n) {l' : Nat}
    (h : n.lvl < l') : nodesFrom t l' + 1 ≤ nodesFrom t n.lvl := by
  unfold nodesFrom
  apply filter_length_lt _ _ _ (u, n)
  · intro x hx; simp at hx ⊢; omega
  · exact TreeMap.mem_toList_iff_getElem?_eq_some.mpr hn
  · simp
  · simp; omega

theorem supportF_spec {t : Tbl} (hw : WF t) :
    ∀ f u L N, t.Mem u → nodesFrom t (t.levelOf u) + 1 ≤ f → L.Nodup → (∀ i ∈ L, i < t.nvars) →
      ∃ L' N', supportF f t u (L, N) = .ok (L', N') ∧ L'.Nodup ∧ (∀ i ∈ L', i < t.nvars) ∧
        (∀ i ∈ L, i ∈ L') ∧ (∀ x ∈ N, x ∈ N') ∧ L.length ≤ L'.length ∧
        (∀ i ∈ L', i ∈ L ∨ ∃ v n, Reach t u.natAbs v ∧ t.succ[v]? = some n ∧ n.lvl = i) ∧
        (L'.length < t.nvars → u.natAbs ∈ N' ∧ ∀ x ∈ N', x ∈ N ∨
          ∀ n, t.succ[x]? = some n → n.lvl ∈ L' ∧ n.lo.natAbs ∈ N' ∧ n.hi.natAbs ∈ N') := by
  intro f
  induction f with
  | zero => intro u _ _ _ hf; omega
  | succ f ih =>
    intro u L N hm hf hnd hb
    by_cases hex : L.length = t.nvars
    · refine ⟨L, N, by simp [supportF, hex], hnd, hb, fun _ h => h, fun _ h => h, Nat.le_refl _,
        fun _ h => Or.inl h, ?_⟩
      intro h; omega
    by_cases hcont : u.natAbs ∈ N
    · refine ⟨L, N, by simp [supportF, hex, hcont], hnd, hb, fun _ h => h, fun _ h => h, Nat.le_refl _,
        fun _ h => Or.inl h, ?_⟩
      intro _; exact ⟨hcont, fun x hx => Or.inl hx⟩
    rcases hm.cases with h1 | ⟨h1, n, hn⟩
    · have hc1 : 1 ∉ N := h1 ▸ hcont
      refine ⟨L, u.natAbs :: N, by simp [supportF, hex, hc1, h1], hnd, hb, fun _ h => h,
        fun _ h => List.mem_cons_of_mem _ h, Nat.le_refl _, fun _ h => Or.inl h, ?_⟩
      intro _
      refine ⟨by simp, ?_⟩
      intro x hx
      rcases List.mem_cons.mp hx with hx | hx
      · right; intro n' hn'; rw [hx, h1] at hn'; exact absurd rfl (hw.node_ne_one hn')
      · exact Or.inl hx
    · have hl := levelOf_node t u n h1 hn
      have h2 := hw.lo_lt _ _ hn
      have h3 := hw.hi_lt _ _ hn
      have f2 := nodesFrom_step hn h2
      have f3 := nodesFrom_step hn h3
      rw [hl] at hf
      -- the level list after adding the node's level
      have key : ∃ L1, (if L.contains n.lvl then L else n.lvl :: L) = L1 ∧ L1.Nodup ∧
          (∀ i ∈ L1, i < t.nvars) ∧ (∀ i, i ∈ L1 ↔ i = n.lvl ∨ i ∈ L) ∧ L.length ≤ L1.length := by
        by_cases hc : n.lvl ∈ L
        · refine ⟨L, by simp [hc], hnd, hb, ?_, Nat.le_refl _⟩
          intro i; constructor
          · exact Or.inr
          · rintro (h | h)
            · subst h; exact hc
            · exact h
        · refine ⟨n.lvl :: L, by simp [hc], List.nodup_cons.mpr ⟨hc, hnd⟩, ?_, by simp, by simp⟩
          intro i hi
          rcases List.mem_cons.mp hi with hi | hi
          · subst hi; exact hw.lvl_lt _ _ hn
          · exact hb i hi
      obtain ⟨L1, e0, nd1, b1, m1, len1⟩ := key
      obtain ⟨L2, N2, e2, nd2, b2, sL2, sN2, len2, snd2, cmp2⟩ :=
        ih n.lo L1 (u.natAbs :: N) (hw.lo_mem _ _ hn) (by omega) nd1 b1
      obtain ⟨L3, N3, e3, nd3, b3, sL3, sN3, len3, snd3, cmp3⟩ :=
        ih n.hi L2 N2 (hw.hi_mem _ _ hn) (by omega) nd2 b2
      refine ⟨L3, N3, ?_, nd3, b3, ?_, ?_, by omega, ?_, ?_⟩
      · unfold supportF
        simp only [List.contains_iff_mem] at e0
        simp only [hex, if_false, List.contains_iff_mem, hcont, h1, hn, hw.zero_test hn,
          Bool.false_eq_true, e0, e2, e3]
      · intro i hi; exact sL3 i (sL2 i ((m1 i).mpr (Or.inr hi)))
      · intro x hx; exact sN3 x (sN2 x (List.mem_cons_of_mem _ hx))
      · intro i hi
        rcases snd3 i hi with h | ⟨v, n', hr, hn', hl'⟩
        · rcases snd2 i h with h | ⟨v, n', hr, hn', hl'⟩
          · rcases (m1 i).mp h with h | h
            · exact Or.inr ⟨u.natAbs, n, Reach.refl _, hn, h.symm⟩
            · exact Or.inl h
          · exact Or.inr ⟨v, n', Reach.lo hn hr, hn', hl'⟩
        · exact Or.inr ⟨v, n', Reach.hi hn hr, hn', hl'⟩
      · intro hlen
        obtain ⟨hin3, cl3⟩ := cmp3 hlen
        obtain ⟨hin2, cl2⟩ := cmp2 (by omega)
        refine ⟨sN3 _ (sN2 _ (by simp)), ?_⟩
        intro x hx
        rcases cl3 x hx with hx2 | h
        · rcases cl2 x hx2 with hx1 | h
          · rcases List.mem_cons.mp hx1 with hx0 | hx0
            · right; intro n' hn'; rw [hx0, hn] at hn'; cases hn'
              exact ⟨sL3 _ (sL2 _ ((m1 _).mpr (Or.inl rfl))), sN3 _ hin2, hin3⟩
            · exact Or.inl hx0
          · right; intro n' hn'
            obtain ⟨a, b, c⟩ := h n' hn'
            exact ⟨sL3 _ a, sN3 _ b, sN3 _ c⟩
        · exact Or.inr h

/-- `support(u, as_levels=True)` succeeds and returns the strictly ascending list of exactly the
levels the function of `u` depends on (the early exit at `len(levels) = nvars` is sound). -/
theorem supportLevels_spec' {t : Tbl} (hw : WFU t) (u : Int) (hm : t.Mem u) :
    ∃ l, supportLevels t u = .ok l ∧ l.Pairwise (· < ·) ∧ ∀ i, i ∈ l ↔ dependsOn t u i := by
  have hW := hw.toWF
  obtain ⟨L, N, e, nd, b, _, _, _, snd, cmp⟩ := supportF_spec hW (2 * t.succ.size + 4) u [] [] hm
    (by have := nodesFrom_le_size t (t.levelOf u); omega) (by simp) (by simp)
  refine ⟨sortNat L, by simp [supportLevels, e], sortNat_strict nd, ?_⟩
  intro i
  rw [mem_sortNat, dependsOn_iff_reach hw i u hm]
  constructor
  · intro hi
    rcases snd i hi with h | h
    · simp at h
    · exact h
  · rintro ⟨v, n, hr, hn, hl⟩
    by_cases hlen : L.length < t.nvars
    · obtain ⟨hin, cl⟩ := cmp hlen
      have : ∀ a b, Reach t a b → a ∈ N → b ∈ N := by
        intro a b h
        induction h with
        | refl => exact id
        | lo hn' _ ih =>
          intro ha; apply ih
          rcases cl _ ha with h | h
          · simp at h
          · exact (h _ hn').2.1
        | hi hn' _ ih =>
          intro ha; apply ih
          rcases cl _ ha with h | h
          · simp at h
          · exact (h _ hn').2.2
      have hv := this _ _ hr hin
      rcases cl v hv with h | h
      · simp at h
      · rw [← hl]; exact (h n hn).1
    · have := nodup_bounded_length t.nvars L nd b
      exact nodup_full t.nvars L nd b (by omega) i (by rw [← hl]; exact hW.lvl_lt _ _ hn)

end DD

namespace DD

/-- `is_essential(u, var)` by name: `false` for an undeclared name, otherwise the
dependence of `u` on the variable's level -/
theorem isEssential_spec' {t : Tbl} (hw : WFU t) (u : Int) (hm : t.Mem u) (var : String) :
    (t.vars[var]? = none → isEssential t u var = .ok false) ∧
    (∀ i, t.vars[var]? = some i → i < t.nvars →
      ∃ b, isEssential t u var = .ok b ∧ (b = true ↔ dependsOn t u i)) := by
  constructor
  · intro h; simp [isEssential, h]
  · intro i h hi
    obtain ⟨b, e, s⟩ := isEssentialF_spec hw hi (t.nvars + 2) u hm (by omega)
    exact ⟨b, by simp [isEssential, h, e], s⟩

end DD
