/-
  DDProofs.SatSupport — reachability, `isEssential`, `descendants`, `support`.
-/
import DDProofs.SatBasic
open Std

namespace DD

/-! ### reachability between node indices -/

inductive Reach (t : Tbl) : Nat → Nat → Prop
  | refl (u : Nat) : Reach t u u
  | lo {u v : Nat} {n : Nd} : t.succ[u]? = some n → Reach t n.lo.natAbs v → Reach t u v
  | hi {u v : Nat} {n : Nd} : t.succ[u]? = some n → Reach t n.hi.natAbs v → Reach t u v

theorem mem_natAbs {t : Tbl} {u : Int} (h : t.Mem u) : t.Mem (u.natAbs : Int) := by
  unfold Tbl.Mem at *; simpa using h

theorem mem_of_natAbs {t : Tbl} {u : Int} (h : t.Mem (u.natAbs : Int)) : t.Mem u := by
  unfold Tbl.Mem at *; simpa using h

theorem levelOf_natAbs (t : Tbl) (u : Int) : t.levelOf (u.natAbs : Int) = t.levelOf u := by
  unfold Tbl.levelOf; simp

theorem Reach.mem {t : Tbl} (hw : WF t) {u v : Nat} (h : Reach t u v) : t.Mem (u : Int) → t.Mem (v : Int) := by
  induction h with
  | refl u => exact id
  | lo hn _ ih => intro _; exact ih (mem_natAbs (hw.lo_mem _ _ hn))
  | hi hn _ ih => intro _; exact ih (mem_natAbs (hw.hi_mem _ _ hn))

theorem Reach.level_le {t : Tbl} (hw : WF t) {u v : Nat} (h : Reach t u v) :
    t.levelOf (u : Int) ≤ t.levelOf (v : Int) := by
  induction h with
  | refl u => exact Nat.le_refl _
  | @lo u v n hn _ ih =>
    have h1 : (u : Int).natAbs ≠ 1 := by simpa using hw.node_ne_one hn
    have := levelOf_node t (u : Int) n h1 (by simpa [Tbl.node?] using hn)
    have := hw.lo_lt _ _ hn
    rw [levelOf_natAbs] at ih; omega
  | @hi u v n hn _ ih =>
    have h1 : (u : Int).natAbs ≠ 1 := by simpa using hw.node_ne_one hn
    have := levelOf_node t (u : Int) n h1 (by simpa [Tbl.node?] using hn)
    have := hw.hi_lt _ _ hn
    rw [levelOf_natAbs] at ih; omega

theorem Reach.trans {t : Tbl} {u v w : Nat} (h1 : Reach t u v) (h2 : Reach t v w) : Reach t u w := by
  induction h1 with
  | refl u => exact h2
  | lo hn _ ih => exact Reach.lo hn (ih h2)
  | hi hn _ ih => exact Reach.hi hn (ih h2)

theorem reach_one_iff {t : Tbl} (hw : WF t) (v : Nat) : Reach t 1 v ↔ v = 1 := by
  constructor
  · intro h
    cases h with
    | refl => rfl
    | lo hn _ => exact absurd rfl (hw.node_ne_one hn)
    | hi hn _ => exact absurd rfl (hw.node_ne_one hn)
  · rintro rfl; exact Reach.refl 1

/-- induction over references by decreasing level -/
theorem ref_induction {t : Tbl} (hw : WF t) (P : Int → Prop)
    (hterm : ∀ u, u.natAbs = 1 → P u)
    (hnode : ∀ u n, u.natAbs ≠ 1 → t.succ[u.natAbs]? = some n → P n.lo → P n.hi → P u) :
    ∀ u, t.Mem u → P u := by
  have : ∀ k u, t.Mem u → t.nvars ≤ k + t.levelOf u → P u := by
    intro k
    induction k with
    | zero =>
      intro u hm hk
      rcases hm.cases with h1 | ⟨h1, n, hn⟩
      · exact hterm u h1
      · have := levelOf_node t u n h1 hn
        have := hw.lvl_lt _ _ hn
        omega
    | succ k ih =>
      intro u hm hk
      rcases hm.cases with h1 | ⟨h1, n, hn⟩
      · exact hterm u h1
      · have := levelOf_node t u n h1 hn
        have := hw.lo_lt _ _ hn
        have := hw.hi_lt _ _ hn
        exact hnode u n h1 hn (ih _ (hw.lo_mem _ _ hn) (by omega)) (ih _ (hw.hi_mem _ _ hn) (by omega))
  intro u hm
  exact this t.nvars u hm (by omega)

/-- the terminal is reachable from every reference -/
theorem reach_term {t : Tbl} (hw : WF t) : ∀ u, t.Mem u → Reach t u.natAbs 1 := by
  apply ref_induction hw
  · intro u h1; rw [h1]; exact Reach.refl 1
  · intro u n _ hn ihlo _; exact Reach.lo hn ihlo

/-- levels of the nodes under `u` = levels the function depends on -/
theorem dependsOn_iff_reach {t : Tbl} (hw : WFU t) (i : Nat) : ∀ u, t.Mem u →
    (dependsOn t u i ↔ ∃ v n, Reach t u.natAbs v ∧ t.succ[v]? = some n ∧ n.lvl = i) := by
  have hW := hw.toWF
  apply ref_induction hW
  · intro u h1
    constructor
    · intro h; exact absurd h (dependsOn_term h1 i)
    · rintro ⟨v, n, hr, hn, _⟩
      rw [h1, reach_one_iff hW] at hr
      subst hr
      exact absurd rfl (hW.node_ne_one hn)
  · intro u n h1 hn ihlo ihhi
    by_cases hi : i = n.lvl
    · subst hi
      constructor
      · intro _; exact ⟨u.natAbs, n, Reach.refl _, hn, rfl⟩
      · intro _; exact node_depends_on_own_level hw h1 hn
    · rw [dependsOn_node hW h1 hn hi, ihlo, ihhi]
      constructor
      · rintro (⟨v, n', hr, hn', hl⟩ | ⟨v, n', hr, hn', hl⟩)
        · exact ⟨v, n', Reach.lo hn hr, hn', hl⟩
        · exact ⟨v, n', Reach.hi hn hr, hn', hl⟩
      · rintro ⟨v, n', hr, hn', hl⟩
        cases hr with
        | refl => rw [hn] at hn'; cases hn'; exact absurd hl.symm hi
        | lo hn2 hr => rw [hn] at hn2; cases hn2; exact Or.inl ⟨v, n', hr, hn', hl⟩
        | hi hn2 hr => rw [hn] at hn2; cases hn2; exact Or.inr ⟨v, n', hr, hn', hl⟩

theorem dependsOn_lt_nvars {t : Tbl} (hw : WFU t) {u : Int} (hm : t.Mem u) {i : Nat}
    (h : dependsOn t u i) : i < t.nvars := by
  obtain ⟨v, n, _, hn, hl⟩ := (dependsOn_iff_reach hw i u hm).mp h
  rw [← hl]; exact hw.lvl_lt _ _ hn

/-! ### is_essential -/

theorem isEssentialF_spec {t : Tbl} (hw : WFU t) {i : Nat} (hi : i < t.nvars) :
    ∀ f u, t.Mem u → t.nvars + 1 ≤ f + t.levelOf u →
      ∃ b, isEssentialF f t u i = .ok b ∧ (b = true ↔ dependsOn t u i) := by
  have hW := hw.toWF
  intro f
  induction f with
  | zero => intro u _ hf; have := levelOf_le t hW u; omega
  | succ f ih =>
    intro u hm hf
    rcases hm.cases with h1 | ⟨h1, n, hn⟩
    · refine ⟨false, ?_, by simp [dependsOn_term h1]⟩
      simp [isEssentialF, h1, hi]
    · have hl := levelOf_node t u n h1 hn
      have h2 := hW.lo_lt _ _ hn
      have h3 := hW.hi_lt _ _ hn
      unfold isEssentialF
      simp only [h1, if_false, hn, Option.map_some]
      by_cases c1 : i < n.lvl
      · refine ⟨false, by simp [c1], ?_⟩
        simp; exact dependsOn_lt hW hm (by omega)
      · by_cases c2 : i = n.lvl
        · refine ⟨true, by simp [c2], ?_⟩
          simp; subst c2; exact node_depends_on_own_level hw h1 hn
        · simp only [c1, c2, if_false, hW.zero_test hn, Bool.false_eq_true]
          obtain ⟨b1, e1, s1⟩ := ih n.lo (hW.lo_mem _ _ hn) (by omega)
          obtain ⟨b2, e2, s2⟩ := ih n.hi (hW.hi_mem _ _ hn) (by omega)
          rw [e1]
          cases b1 with
          | true =>
            refine ⟨true, rfl, ?_⟩
            simp; exact (dependsOn_node hW h1 hn c2).mpr (Or.inl (s1.mp rfl))
          | false =>
            refine ⟨b2, e2, ?_⟩
            rw [s2, dependsOn_node hW h1 hn c2]
            constructor
            · exact Or.inr
            · rintro (h | h)
              · exact absurd (s1.mpr h) (by simp)
              · exact h

end DD
