/-
  DDProofs.AutoDynTotal — the autoref methods with dynamic reordering possibly ENABLED and
  ARBITRARY arguments (unknown handle, handle of another manager, undeclared name, unknown
  operator, wrong arity): whether the method returns or raises, `AInv false` is kept, no handle
  other than the new one is touched, every live `Function` keeps its node and its meaning by name.
  Lifted from the `*_total_dyn` theorems (C17, DDProofs.DynRejected*) through `wrapResult`;
  `find_or_add` in both modes from `C09_findOrAdd_outside_context` (outside a context it never
  requests a reordering).
-/
import DDProofs.AutoDyn
import DDProofs.DynRejectedOps
import DDProofs.DynRejectedExpr
import DDProofs.ApiAutoProofs
open Std

namespace DD

/-! the methods, ARBITRARY arguments, reordering possibly enabled -/

theorem aVar_keepsDynTotal (name : String) (h : Nat) : AKeeps false h (aVar name h) :=
  aVar_keeps name (var_keepsDyn name) h
theorem aIte_keepsDynTotal (hg hu hv h : Nat) : AKeeps false h (aIte hg hu hv h) :=
  aIte_keeps ite_keepsDyn hg hu hv h
theorem aApply_keepsDynTotal (op : String) (hu : Nat) (hv hw : Option Nat) (h : Nat) :
    AKeeps false h (aApply op hu hv hw h) :=
  aApply_keeps op (fun u v w => apply_keepsDyn op u v w) hu hv hw h
theorem aQuantify_keepsDynTotal (hu : Nat) (q : List Key) (fa : Bool) (h : Nat) :
    AKeeps false h (aQuantify hu q fa h) :=
  aQuantify_keeps q fa (fun m u _ => (quantify_keepsDyn u q fa).at m) hu h
theorem aLet_keepsDynTotal (d : ALetArg) (hu h : Nat) : AKeeps false h (aLet d hu h) :=
  aLet_keeps letOp_keepsDyn d hu h
theorem aCube_keepsDynTotal (d : List (String × Bool)) (h : Nat) : AKeeps false h (aCube d h) :=
  aCube_keeps d (cube_keepsDyn d) h
theorem fApply_keepsDynTotal (op : String) (hs : Nat) (ho : Option Nat) (h : Nat) :
    AKeeps false h (fApply op hs ho h) :=
  fApply_keeps op (fun u v => apply_keepsDyn op u v none) hs ho h
theorem fLe_keepsDynTotal (hs ho : Nat) : AKeeps0 false (fLe hs ho) :=
  fLe_keeps0 (fun u => apply_keepsDyn "not" u none none)
    (fun b _ _ _ u v _ _ => (apply_keepsDyn "or" u (some v) none).at b.m) hs ho
theorem fLt_keepsDynTotal (hs ho : Nat) : AKeeps0 false (fLt hs ho) :=
  fLt_keeps0 (fun u => apply_keepsDyn "not" u none none)
    (fun b _ _ _ u v _ _ => (apply_keepsDyn "or" u (some v) none).at b.m) hs ho
theorem aAddExpr_keepsDynTotal (e : String) (h : Nat) : AKeeps false h (aAddExpr e h) :=
  wrapResult_keeps (addExpr_keepsDyn e) h
/-- `copy(u, other)` / `copy_bdd(u, other)` into this manager from ANY source state -/
theorem aCopyTo_keepsDynTotal (src : AMgr) (hu h : Nat) : AKeeps false h (aCopyTo src hu h) :=
  fun a => aCopyTo_keepsAt a src hu h fun u _ => (copyBdd_keepsDyn src.m.tbl u).at a.m
theorem aCopyBddTo_keepsDynTotal (src : AMgr) (hu h : Nat) : AKeeps false h (aCopyBddTo src hu h) :=
  fun a => aCopyBddTo_keepsAt a src hu h fun u _ => (copyBdd_keepsDyn src.m.tbl u).at a.m

/-- module-level `image` / `preimage` on `Function`s, ARBITRARY arguments (ids not in use,
`Function`s of another manager, any renaming, any `qvars`), reordering possibly enabled -/
theorem aImage_keepsDynTotal (pre : Bool) (ht hs : Nat) (rn : List (Key × Key)) (q : List Key)
    (fa : Bool) (h : Nat) : AKeeps false h (aImage pre ht hs rn q fa h) :=
  aImage_keeps image_keepsDyn preimage_keepsDyn pre ht hs rn q fa h

/-! ### `find_or_add`, both modes -/

/-- the raw `find_or_add` between two calls (`ctx = false`) under its documented guard: whatever
`_last_len` is, it is `findOrAddCore` (C09 `findOrAdd_outside_context`) -/
theorem findOrAdd_keepsAt {off : Bool} (m : Mgr) (i v w : Int)
    (hg : 0 ≤ i → FoaGuard m i.toNat v w) : CoreKeepsAt off m (findOrAdd i v w) := by
  intro ext hm r m' he
  rw [C09_findOrAdd_outside_context i v w m hm.ctx] at he
  have h2 : (if i < 0 then ((.error .value, m) : Except Err Int × Mgr) else findOrAddCore i.toNat v w m).2 = m' := by
    rw [he]
  by_cases hi : i < 0
  · rw [if_pos hi] at h2
    simp only at h2
    subst h2
    exact ⟨hm, HeldExt.refl _ _⟩
  · rw [if_neg hi] at h2
    have k := findOrAddCore_total m hm.inv i.toNat v w (hg (by omega))
    have r' := findOrAddCore_refExact m ext i.toNat v w hm.inv.wf.toWF hm.counts
    rw [h2] at k r'
    exact ⟨hm.of_kept k r', heldExt_of_kept hm.inv k ext⟩

/-- `find_or_add(var, low, high)` when the level of `var` is above both children: EVERY mode -/
theorem aFindOrAdd_keepsAtAll {off : Bool} (a : AMgr) (var : String) (hlow hhigh h : Nat)
    (hg : ∀ level lo hi, (levelOfVar var a.m).1 = .ok level → (nodeAny hlow a).1 = .ok lo →
      (nodeAny hhigh a).1 = .ok hi → FoaGuard a.m level lo hi) :
    AKeepsAt off a h (aFindOrAdd var hlow hhigh h) :=
  aFindOrAdd_keepsAt a var hlow hhigh h fun level lo hi h1 h2 h3 =>
    findOrAdd_keepsAt a.m level lo hi (fun _ => by simpa using hg level lo hi h1 h2 h3)

end DD
