/-
  DDProofs.SchedAccept — ACCEPTANCE of recorded schedules: every valid choice of iteration orders
  (DD.OrderChoice) is realised by a schedule that the model of DD.Order accepts.

  `AccC ext a log F m` relates the outcome `a` of a choice-driven function (run on `m`, orders
  picked so far `log`) to the scheduled function `F` of DD.Order: if the choice-driven run returned
  `(r, log ++ new)` in `m'`, then for EVERY continuation `rest` of the schedule,
  `F (setS (new ++ rest) m) = (.ok r, setS rest m')` — the scheduled run consumes exactly `new`,
  returns the same result and ends in the same state; if it raised `e` (never `.sched`), so does
  the scheduled run.  Proved for `swap` (any arguments), `_shift`, `_reorder_var`, sifting,
  `_sort_to_order`, `reorder`.  With C07 (`applySifting_never_raises`) the choice-driven sifting
  RETURNS for every valid choice (`applySiftingC_total`): the relation is total, and the scheduled
  run with the recorded orders returns — it does not answer `.sched`.
-/
import DD.OrderChoice
import DDProofs.SchedNatural
import DDProofs.SwapLevelsDrivers
import DDProofs.SiftFinal
import DDProofs.DynSchedKeep
open Std

namespace DD

/-- every answer of the choice is a permutation of the list it was given -/
structure Choice.Valid (c : Choice) : Prop where
  names : ∀ k l, (c.names k l).Perm l
  level : ∀ k j l, (c.level k j l).Perm l

theorem Choice.default_valid : Choice.default.Valid := ⟨fun _ _ => .refl _, fun _ _ _ => .refl _⟩

theorem isPerm_of_perm {a b : List Nat} (h : a.Perm b) : isPerm a b = true := by
  unfold isPerm
  simp only [Bool.and_eq_true, beq_iff_eq, List.all_eq_true, List.contains_iff_mem]
  exact ⟨⟨h.length_eq, fun x hx => h.mem_iff.mp hx⟩, fun x hx => h.mem_iff.mpr hx⟩

theorem levelOrder_of_perm {t : Tbl} {j : Nat} {l : List Nat} (h : l.Perm (nodesAt t j)) :
    LevelOrder t j l :=
  ⟨h.nodup_iff.mpr (nodup_nodesAt t j), fun u => h.mem_iff.trans (mem_nodesAt t j u)⟩

/-- the choice-driven run `a` (started in `m` with `log` picked so far) is realised by the
scheduled function `F` -/
def AccC {α} (ext : Nat → Nat) (a : Except Err (α × List SchedItem) × Mgr) (log : List SchedItem)
    (F : M α) (m : Mgr) : Prop :=
  match a with
  | (.ok (r, log'), m') => ∃ new, log' = log ++ new ∧ ReorderInv ext m' ∧ m'.sched = m.sched ∧
      ∀ rest, F (setS (new ++ rest) m) = (.ok r, setS rest m')
  | (.error e, _) => e ≠ .sched ∧ ∃ new, ∀ rest, (F (setS (new ++ rest) m)).1 = .error e

/-! ### composing -/

theorem AccC.bind {α β} {ext : Nat → Nat} {xa : M (α × List SchedItem)} {xb : M α}
    {fa : α × List SchedItem → M (β × List SchedItem)} {fb : α → M β} {m : Mgr} {log : List SchedItem}
    (h : AccC ext (xa m) log xb m)
    (hf : ∀ r log1 m1, ReorderInv ext m1 → AccC ext (fa (r, log1) m1) log1 (fb r) m1) :
    AccC ext ((xa >>= fa) m) log (xb >>= fb) m := by
  rw [M.bind_eq]
  generalize xa m = ra at h
  obtain ⟨ra, m1⟩ := ra
  cases ra with
  | error e =>
    obtain ⟨hne, new, hr⟩ := h
    refine ⟨hne, new, fun rest => ?_⟩
    have := hr rest
    rw [M.bind_eq]
    generalize xb (setS (new ++ rest) m) = rb at this
    obtain ⟨rb, mb⟩ := rb
    simp only at this
    subst this
    rfl
  | ok p =>
    obtain ⟨r, log1⟩ := p
    obtain ⟨new1, rfl, hR1, hs1, hrun1⟩ := h
    have h2 := hf r (log ++ new1) m1 hR1
    simp only
    generalize fa (r, log ++ new1) m1 = rf at h2
    obtain ⟨rf, m2⟩ := rf
    cases rf with
    | error e =>
      obtain ⟨hne, new2, hr2⟩ := h2
      refine ⟨hne, new1 ++ new2, fun rest => ?_⟩
      rw [List.append_assoc, M.bind_eq, hrun1 (new2 ++ rest)]
      exact hr2 rest
    | ok q =>
      obtain ⟨r2, log2⟩ := q
      obtain ⟨new2, rfl, hR2, hs2, hrun2⟩ := h2
      refine ⟨new1 ++ new2, by rw [List.append_assoc], hR2, hs2.trans hs1, fun rest => ?_⟩
      rw [List.append_assoc, M.bind_eq, hrun1 (new2 ++ rest)]
      exact hrun2 rest

/-- `let m ← M.get; …` on both sides, the continuation using the state only through fields other
than the schedule -/
theorem AccC.get {α} {ext : Nat → Nat} {fa : Mgr → M (α × List SchedItem)} {fb : Mgr → M α}
    {m : Mgr} {log : List SchedItem} (hins : ∀ s, fb (setS s m) = fb m)
    (h : AccC ext (fa m m) log (fb m) m) : AccC ext ((M.get >>= fa) m) log (M.get >>= fb) m := by
  have e : ∀ s, (M.get >>= fb) (setS s m) = fb m (setS s m) := fun s => by
    show fb (setS s m) (setS s m) = _
    rw [hins s]
  show AccC ext (fa m m) log (M.get >>= fb) m
  generalize fa m m = ra at h ⊢
  obtain ⟨ra, m1⟩ := ra
  cases ra with
  | error e' =>
    obtain ⟨hne, new, hr⟩ := h
    exact ⟨hne, new, fun rest => by rw [e]; exact hr rest⟩
  | ok p =>
    obtain ⟨r, log1⟩ := p
    obtain ⟨new, hl, hR, hsc, hrun⟩ := h
    exact ⟨new, hl, hR, hsc, fun rest => by rw [e]; exact hrun rest⟩

/-- a step common to both sides that neither reads nor writes the schedule and does not change
the state -/
theorem AccC.bind_read {γ α} {ext : Nat → Nat} (c : M γ) (hsn : SN c) (hread : ∀ m, (c m).2 = m)
    (hne : ∀ m e, (c m).1 = .error e → e ≠ .sched)
    {fa : γ → M (α × List SchedItem)} {fb : γ → M α} {m : Mgr} {log : List SchedItem}
    (hf : ∀ r, c m = (.ok r, m) → AccC ext (fa r m) log (fb r) m) :
    AccC ext ((c >>= fa) m) log (c >>= fb) m := by
  have hs : ∀ s, c (setS s m) = ((c m).1, setS s m) := fun s => by rw [hsn s m, hread m]
  have h2 := hread m
  have h3 := hne m
  rw [M.bind_eq]
  generalize hcm : c m = rc at hs h2 h3 hf
  obtain ⟨rc, mc⟩ := rc
  simp only at h2
  subst h2
  cases rc with
  | error e =>
    refine ⟨h3 e rfl, [], fun rest => ?_⟩
    rw [M.bind_eq, hs]
  | ok r =>
    have h := hf r rfl
    simp only
    generalize fa r mc = ra at h ⊢
    obtain ⟨ra, m1⟩ := ra
    cases ra with
    | error e' =>
      obtain ⟨hne', new, hr⟩ := h
      exact ⟨hne', new, fun rest => by rw [M.bind_eq, hs]; exact hr rest⟩
    | ok p =>
      obtain ⟨r2, log1⟩ := p
      obtain ⟨new, hl, hR, hsc, hrun⟩ := h
      exact ⟨new, hl, hR, hsc, fun rest => by rw [M.bind_eq, hs]; exact hrun rest⟩

theorem AccC.pure {α} {ext : Nat → Nat} (r : α) (log : List SchedItem) (m : Mgr) (h : ReorderInv ext m) :
    AccC ext ((pure (r, log) : M (α × List SchedItem)) m) log (pure r : M α) m :=
  ⟨[], (List.append_nil _).symm, h, rfl, fun _ => rfl⟩

theorem AccC.throw {α} {ext : Nat → Nat} (e : Err) (he : e ≠ .sched) (log : List SchedItem) (m : Mgr) :
    AccC ext ((M.throw e : M (α × List SchedItem)) m) log (M.throw e : M α) m :=
  ⟨he, [], fun _ => rfl⟩

theorem AccC.of_eq {α} {ext : Nat → Nat} {a a' : Except Err (α × List SchedItem) × Mgr}
    {log : List SchedItem} {F F' : M α} {m : Mgr} (h : AccC ext a log F m) (ea : a' = a)
    (eF : ∀ s, F' (setS s m) = F (setS s m)) : AccC ext a' log F' m := by
  subst ea
  obtain ⟨ra, m1⟩ := a'
  cases ra with
  | error e =>
    obtain ⟨hne, new, hr⟩ := h
    exact ⟨hne, new, fun rest => by rw [eF]; exact hr rest⟩
  | ok p =>
    obtain ⟨r, log1⟩ := p
    obtain ⟨new, hl, hR, hsc, hrun⟩ := h
    exact ⟨new, hl, hR, hsc, fun rest => by rw [eF]; exact hrun rest⟩

/-! ### `swap` -/

theorem reorderInv_of_swapPost {ext : Nat → Nat} {m m' : Mgr} {x : Nat} {r : Nat × Nat}
    (h : ReorderInv ext m) (hp : SwapPost m ext x r m') : ReorderInv ext m' :=
  ⟨hp.inv, hp.order, hp.refExact, by rw [hp.ctx, hp.lastLen]; exact h.off,
    by rw [hp.exch.roots]; exact h.rootsHeld⟩

theorem takeSwapOrders_cons (x y : Nat) (hxy : y ≠ x) (ox oy : List Nat) (rest : List SchedItem) (m : Mgr)
    (hpx : isPerm ox (nodesAt m.tbl x) = true) (hpy : isPerm oy (nodesAt m.tbl y) = true) :
    takeSwapOrders x y (setS (SchedItem.swap [(x, ox), (y, oy)] :: rest) m) = (.ok (ox, oy), setS rest m) := by
  have l1 : (([(x, ox), (y, oy)] : List (Nat × List Nat)).lookup x).getD [] = ox := by simp [List.lookup]
  have l2 : (([(x, ox), (y, oy)] : List (Nat × List Nat)).lookup y).getD [] = oy := by
    have : (y == x) = false := by simpa using hxy
    simp [List.lookup, this]
  show (if isPerm ((([(x, ox), (y, oy)] : List (Nat × List Nat)).lookup x).getD []) (nodesAt m.tbl x) &&
      isPerm ((([(x, ox), (y, oy)] : List (Nat × List Nat)).lookup y).getD []) (nodesAt m.tbl y)
    then (pure ((([(x, ox), (y, oy)] : List (Nat × List Nat)).lookup x).getD [],
      (([(x, ox), (y, oy)] : List (Nat × List Nat)).lookup y).getD []) : M _) else M.throw .sched) (setS rest m) = _
  rw [l1, l2, hpx, hpy]
  rfl

/-- **acceptance for one swap**: the orders picked by a valid choice, written as a schedule item,
are accepted by `swap`, which then does what the choice-driven swap does -/
theorem swapBodyC_acc (ext : Nat → Nat) (c : Choice) (hc : c.Valid) (m : Mgr) (h : ReorderInv ext m)
    (x : Nat) (hx : x + 1 < m.nvars) (log : List SchedItem) :
    AccC ext (swapBodyC c x (x + 1) log m) log (swapBody x (x + 1)) m := by
  have hpx := hc.level log.length x (nodesAt m.tbl x)
  have hpy := hc.level log.length (x + 1) (nodesAt m.tbl (x + 1))
  have hC : swapBodyC c x (x + 1) log m = ((swapWith x (x + 1) m.len (c.level log.length x (nodesAt m.tbl x))
      (c.level log.length (x + 1) (nodesAt m.tbl (x + 1))) >>= fun r => pure (r, log ++
        [SchedItem.swap [(x, c.level log.length x (nodesAt m.tbl x)),
          (x + 1, c.level log.length (x + 1) (nodesAt m.tbl (x + 1)))]])) m) := rfl
  rw [hC]
  generalize c.level log.length x (nodesAt m.tbl x) = ox at hpx ⊢
  generalize c.level log.length (x + 1) (nodesAt m.tbl (x + 1)) = oy at hpy ⊢
  obtain ⟨r, m', hW, hp, hsw⟩ := swapWith_spec m ext m.sched h.inv h.order h.refExact h.off x hx ox oy
    (levelOrder_of_perm hpx) (levelOrder_of_perm hpy)
  have hW' : swapWith x (x + 1) m.len ox oy m = (.ok r, m') := hW
  rw [M.bind_ok hW']
  refine ⟨_, rfl, reorderInv_of_swapPost h hp, hsw, fun rest => ?_⟩
  unfold swapBody
  rw [M.bind_ok (M.get_eq _)]
  have hT := takeSwapOrders_cons x (x + 1) (by omega) ox oy rest m (isPerm_of_perm hpx) (isPerm_of_perm hpy)
  rw [show [SchedItem.swap [(x, ox), (x + 1, oy)]] ++ rest = SchedItem.swap [(x, ox), (x + 1, oy)] :: rest from rfl,
    M.bind_ok hT]
  have := swapWith_sn x (x + 1) m.len ox oy rest m
  rw [hW'] at this
  exact this

/-! ### steps that only read -/

/-- a step that reads the state outside the schedule, does not change it, and does not answer
`.sched` -/
structure Rd {γ} (c : M γ) : Prop where
  sn : SN c
  read : ∀ m, (c m).2 = m
  ne : ∀ m e, (c m).1 = .error e → e ≠ .sched

theorem AccC.rd {γ α} {ext : Nat → Nat} {c : M γ} (hc : Rd c)
    {fa : γ → M (α × List SchedItem)} {fb : γ → M α} {m : Mgr} {log : List SchedItem}
    (hf : ∀ r, c m = (.ok r, m) → AccC ext (fa r m) log (fb r) m) :
    AccC ext ((c >>= fa) m) log (c >>= fb) m :=
  AccC.bind_read c hc.sn hc.read hc.ne hf

theorem Rd.assert (b : Bool) (e : Err) (he : e ≠ .sched) : Rd (M.assert b e) :=
  ⟨SN.assert b e, ks_assert_read b e, fun m e' h => by cases b <;> cases h; exact he⟩

theorem Rd.ofOption {α} (e : Err) (he : e ≠ .sched) (o : Option α) : Rd (M.ofOption e o) :=
  ⟨SN.ofOption e o, ks_ofOption_read e o, fun m e' h => by cases o <;> cases h; exact he⟩

theorem resolveVL_rd (a : VarOrLevel) : Rd (resolveVL a) := by
  refine ⟨?_, resolveVL_state a, ?_⟩
  · unfold resolveVL
    refine SN.get (fun _ _ => rfl) (fun m0 => ?_)
    cases a with
    | name v => exact SN.bind (SN.ofOption _ _) (fun _ => SN.pure _)
    | level i => exact SN.pure _
  · intro m e h
    unfold resolveVL at h
    cases a with
    | name v =>
      simp only [M.bind_eq, M.get_eq] at h
      cases hv : m.tbl.vars[v]? with
      | none => rw [hv] at h; cases h; exact fun h => by cases h
      | some l => rw [hv] at h; cases h
    | level i => cases h

theorem levelOfVar_rd (v : String) : Rd (levelOfVar v) := by
  refine ⟨?_, ks_levelOfVar_read v, ?_⟩
  · unfold levelOfVar
    exact SN.get (fun _ _ => rfl) (fun m0 => SN.ofOption _ _)
  · intro m e h
    unfold levelOfVar at h
    rw [M.bind_ok (M.get_eq m)] at h
    exact (Rd.ofOption .value (fun h => by cases h) _).ne m e h

theorem varAtLevel_rd (i : Int) : Rd (varAtLevel i) := by
  refine ⟨varAtLevel_sn i, ks_varAtLevel_read i, ?_⟩
  intro m e h
  unfold varAtLevel at h
  rw [M.bind_ok (M.get_eq m)] at h
  split at h
  · cases h; exact fun h => by cases h
  · exact (Rd.ofOption .value (fun h => by cases h) _).ne m e h

theorem checkRootsL_rd (m0 : Mgr) : ∀ l, Rd (checkRootsL m0 l)
  | [] => ⟨SN.pure _, fun _ => rfl, fun _ _ h => by cases h⟩
  | r :: rest => by
    unfold checkRootsL
    split
    · exact ⟨SN.throw _, fun _ => rfl, fun _ _ h => by cases h; exact fun h => by cases h⟩
    · exact checkRootsL_rd m0 rest

theorem checkRootsL_setS (s : List SchedItem) (m0 : Mgr) : ∀ l, checkRootsL (setS s m0) l = checkRootsL m0 l
  | [] => rfl
  | r :: rest => by
    unfold checkRootsL
    rw [checkRootsL_setS s m0 rest]
    rfl

theorem checkRoots_rd : Rd checkRoots := by
  refine ⟨?_, ks_checkRoots_read, ?_⟩
  · unfold checkRoots
    exact SN.get (fun s m0 => checkRootsL_setS s m0 _) (fun m0 => (checkRootsL_rd m0 _).sn)
  · intro m e h
    unfold checkRoots at h
    rw [M.bind_ok (M.get_eq m)] at h
    exact (checkRootsL_rd m _).ne m e h

theorem AccC.ite {α} {ext : Nat → Nat} (p : Prop) [Decidable p] {a1 a2 : M (α × List SchedItem)}
    {b1 b2 : M α} {m : Mgr} {log : List SchedItem}
    (h1 : p → AccC ext (a1 m) log b1 m) (h2 : ¬p → AccC ext (a2 m) log b2 m) :
    AccC ext ((if p then a1 else a2) m) log (if p then b1 else b2) m := by
  by_cases hp : p
  · rw [if_pos hp, if_pos hp]; exact h1 hp
  · rw [if_neg hp, if_neg hp]; exact h2 hp

/-- a step common to both sides that does not touch the schedule and returns -/
theorem AccC.bind_sn {γ α} {ext : Nat → Nat} (c : M γ) (hsn : SN c) {m m1 : Mgr} {r : γ}
    (hrun : c m = (.ok r, m1)) (hsch : m1.sched = m.sched)
    {fa : γ → M (α × List SchedItem)} {fb : γ → M α} {log : List SchedItem}
    (hf : AccC ext (fa r m1) log (fb r) m1) : AccC ext ((c >>= fa) m) log (c >>= fb) m := by
  have hs : ∀ s, c (setS s m) = (.ok r, setS s m1) := fun s => by rw [hsn s m, hrun]
  rw [M.bind_ok hrun]
  generalize fa r m1 = ra at hf ⊢
  obtain ⟨ra, m2⟩ := ra
  cases ra with
  | error e' =>
    obtain ⟨hne', new, hr⟩ := hf
    exact ⟨hne', new, fun rest => by rw [M.bind_ok (hs _)]; exact hr rest⟩
  | ok p =>
    obtain ⟨r2, log1⟩ := p
    obtain ⟨new, hl, hR, hsc, hrun2⟩ := hf
    exact ⟨new, hl, hR, hsc.trans hsch, fun rest => by rw [M.bind_ok (hs _)]; exact hrun2 rest⟩

/-! ### `swap` with any arguments -/

theorem swap_given_eq (xa ya : VarOrLevel) : swap xa ya true = (do
    let x ← resolveVL xa
    let y ← resolveVL ya
    let m ← M.get
    if !(0 ≤ x && x < m.nvars) then M.throw .value else
    if !(0 ≤ y && y < m.nvars) then M.throw .value else
    let lo := if x > y then y else x
    let hi := if x > y then x else y
    if lo ≥ hi then M.throw .value else
    if hi - lo ≠ 1 then M.throw .value else
    swapBody lo.toNat hi.toNat) := rfl

theorem value_ne_sched : Err.value ≠ Err.sched := fun h => by cases h

/-- **`swap(x, y, all_levels)`, any arguments** -/
theorem swapC_acc (ext : Nat → Nat) (c : Choice) (hc : c.Valid) (m : Mgr) (h : ReorderInv ext m)
    (xa ya : VarOrLevel) (log : List SchedItem) :
    AccC ext (swapC c xa ya log m) log (swap xa ya true) m := by
  rw [swap_given_eq]
  unfold swapC
  refine AccC.rd (resolveVL_rd xa) (fun x _ => ?_)
  refine AccC.rd (resolveVL_rd ya) (fun y _ => ?_)
  refine AccC.get (fun _ => rfl) ?_
  refine AccC.ite _ (fun _ => AccC.throw _ value_ne_sched _ _) (fun h1 => ?_)
  refine AccC.ite _ (fun _ => AccC.throw _ value_ne_sched _ _) (fun h2 => ?_)
  refine AccC.ite _ (fun _ => AccC.throw _ value_ne_sched _ _) (fun h3 => ?_)
  refine AccC.ite _ (fun _ => AccC.throw _ value_ne_sched _ _) (fun h4 => ?_)
  simp at h1 h2
  have e : (if x > y then x else y).toNat = (if x > y then y else x).toNat + 1 := by
    split at h4 <;> split <;> omega
  rw [e]
  refine swapBodyC_acc ext c hc m h _ ?_ log
  split at h4 <;> split <;> omega

/-! ### `_shift`, `_reorder_var`, the loop over the variables -/

theorem fuel_ne_sched : Err.fuel ≠ Err.sched := fun h => by cases h
theorem assertion_ne_sched : Err.assertion ≠ Err.sched := fun h => by cases h

theorem shiftLoopC_acc (ext : Nat → Nat) (c : Choice) (hc : c.Valid) :
    ∀ (f : Nat) (i e d : Int) (sizes : List (Nat × Nat)) (log : List SchedItem) (m : Mgr),
      ReorderInv ext m → AccC ext (shiftLoopC c f i e d sizes log m) log (shiftLoop f i e d sizes) m
  | 0, i, e, d, sizes, log, m, h => by
    unfold shiftLoopC shiftLoop
    exact AccC.ite _ (fun _ => AccC.pure _ _ _ h) (fun _ => AccC.throw _ fuel_ne_sched _ _)
  | f+1, i, e, d, sizes, log, m, h => by
    unfold shiftLoopC shiftLoop
    refine AccC.ite _ (fun _ => AccC.pure _ _ _ h) (fun _ => ?_)
    refine AccC.bind (swapC_acc ext c hc m h _ _ log) ?_
    rintro ⟨oldn, n⟩ log1 m1 h1
    exact shiftLoopC_acc ext c hc f _ e d _ log1 m1 h1

theorem shiftC_acc (ext : Nat → Nat) (c : Choice) (hc : c.Valid) (start end_ : Nat)
    (log : List SchedItem) (m : Mgr) (h : ReorderInv ext m) :
    AccC ext (shiftC c start end_ log m) log (shift start end_) m := by
  unfold shiftC shift
  refine AccC.get (fun _ => rfl) ?_
  refine AccC.rd (Rd.assert _ _ assertion_ne_sched) (fun _ _ => ?_)
  refine AccC.rd (Rd.assert _ _ assertion_ne_sched) (fun _ _ => ?_)
  exact shiftLoopC_acc ext c hc _ _ _ _ _ log m h

theorem reorderVarC_acc (ext : Nat → Nat) (c : Choice) (hc : c.Valid) (var : String)
    (log : List SchedItem) (m : Mgr) (h : ReorderInv ext m) :
    AccC ext (reorderVarC c var log m) log (reorderVar var) m := by
  unfold reorderVarC reorderVar
  refine AccC.get (fun _ => rfl) ?_
  refine AccC.ite _ (fun _ => AccC.throw _ value_ne_sched _ _) (fun _ => ?_)
  refine AccC.rd (Rd.assert _ _ assertion_ne_sched) (fun _ _ => ?_)
  refine AccC.rd (levelOfVar_rd var) (fun level _ => ?_)
  generalize (if 2 * level ≥ m.nvars - 1 then (m.nvars - 1, 0) else (0, m.nvars - 1)) = se
  obtain ⟨start, end_⟩ := se
  refine AccC.bind (shiftC_acc ext c hc level start log m h) ?_
  intro _ log1 m1 h1
  refine AccC.bind (shiftC_acc ext c hc start end_ log1 m1 h1) ?_
  intro sizes log2 m2 h2
  refine AccC.rd (Rd.ofOption _ value_ne_sched _) (fun k _ => ?_)
  refine AccC.bind (shiftC_acc ext c hc end_ k log2 m2 h2) ?_
  intro _ log3 m3 h3
  refine AccC.get (fun _ => rfl) ?_
  refine AccC.rd (Rd.assert _ _ assertion_ne_sched) (fun _ _ => ?_)
  refine AccC.rd (Rd.assert _ _ assertion_ne_sched) (fun _ _ => ?_)
  exact AccC.pure _ _ _ h3

theorem siftVarsC_acc (ext : Nat → Nat) (c : Choice) (hc : c.Valid) :
    ∀ (vars : List String) (log : List SchedItem) (m : Mgr), ReorderInv ext m →
      AccC ext (siftVarsC c vars log m) log (siftVars vars) m
  | [], log, m, h => AccC.pure _ _ _ h
  | v :: rest, log, m, h => by
    unfold siftVarsC siftVars
    refine AccC.bind (reorderVarC_acc ext c hc v log m h) ?_
    intro _ log1 m1 h1
    exact siftVarsC_acc ext c hc rest log1 m1 h1

/-! ### sifting -/

/-- a final reading step -/
theorem AccC.rd_last {α} {ext : Nat → Nat} {c : M α} (hc : Rd c) {m : Mgr} {log : List SchedItem}
    (h : ReorderInv ext m) :
    AccC ext ((c >>= fun r => (Pure.pure (r, log) : M (α × List SchedItem))) m) log c m := by
  have hs : ∀ s, c (setS s m) = ((c m).1, setS s m) := fun s => by rw [hc.sn s m, hc.read m]
  have h2 := hc.read m
  have h3 := hc.ne m
  rw [M.bind_eq]
  generalize c m = rc at hs h2 h3
  obtain ⟨rc, mc⟩ := rc
  simp only at h2
  subst h2
  cases rc with
  | error e => exact ⟨h3 e rfl, [], fun rest => by rw [hs]⟩
  | ok r => exact ⟨[], (List.append_nil _).symm, h, rfl, fun rest => hs rest⟩

theorem takeSiftOrder_cons (names : List String) (rest : List SchedItem) (m : Mgr)
    (hp : names.Perm m.tbl.vars.keys) :
    takeSiftOrder (setS (SchedItem.sift names :: rest) m) = (.ok names, setS rest m) := by
  have hc : (names.length == m.tbl.vars.keys.length && names.all (m.tbl.vars.keys.contains ·) &&
      m.tbl.vars.keys.all (names.contains ·)) = true := by
    simp only [Bool.and_eq_true, beq_iff_eq, List.all_eq_true, List.contains_iff_mem]
    exact ⟨⟨hp.length_eq, fun x hx => hp.mem_iff.mp hx⟩, fun x hx => hp.mem_iff.mpr hx⟩
  show (if (names.length == m.tbl.vars.keys.length && names.all (m.tbl.vars.keys.contains ·) &&
      m.tbl.vars.keys.all (names.contains ·)) = true then (pure names : M _) else M.throw .sched) (setS rest m) = _
  rw [if_pos hc]
  rfl

/-- the model's `for var in names`: the order comes from the next item of the schedule -/
theorem AccC.sift {α} {ext : Nat → Nat} {a : Except Err (α × List SchedItem) × Mgr}
    {log : List SchedItem} {names : List String} {fb : List String → M α} {m : Mgr}
    (hp : names.Perm m.tbl.vars.keys)
    (h : AccC ext a (log ++ [SchedItem.sift names]) (fb names) m) :
    AccC ext a log (takeSiftOrder >>= fb) m := by
  have e : ∀ s, (takeSiftOrder >>= fb) (setS (SchedItem.sift names :: s) m) = fb names (setS s m) :=
    fun s => M.bind_ok (takeSiftOrder_cons names s m hp)
  obtain ⟨ra, m1⟩ := a
  cases ra with
  | error e' =>
    obtain ⟨hne, new, hr⟩ := h
    exact ⟨hne, SchedItem.sift names :: new, fun rest => by
      rw [List.cons_append, e]; exact hr rest⟩
  | ok p =>
    obtain ⟨r, log1⟩ := p
    obtain ⟨new, hl, hR, hsc, hrun⟩ := h
    refine ⟨SchedItem.sift names :: new, by rw [hl, List.append_assoc]; rfl, hR, hsc, fun rest => ?_⟩
    rw [List.cons_append, e]
    exact hrun rest

theorem other_ne_sched : Err.other ≠ Err.sched := fun h => by cases h

/-- **`_apply_sifting`** under a valid choice is realised by the scheduled model -/
theorem applySiftingC_acc (ext : Nat → Nat) (c : Choice) (hc : c.Valid) (log : List SchedItem)
    (m : Mgr) (h : ReorderInv ext m) :
    AccC ext (applySiftingC c log m) log applySifting m := by
  obtain ⟨mg, hg, hRg, _⟩ := gc_keepS ext m h
  have hgs : mg.sched = m.sched := by
    have := collectGarbage_sn none m.sched m
    rw [hg] at this
    have e : setS m.sched m = m := rfl
    rw [e, hg] at this
    exact (congrArg (fun p => p.2.sched) this)
  unfold applySiftingC applySifting
  refine AccC.bind_sn _ (collectGarbage_sn none) hg hgs ?_
  refine AccC.get (fun _ => rfl) ?_
  refine AccC.sift (hc.names log.length _) ?_
  refine AccC.ite _ (fun _ => AccC.throw _ other_ne_sched _ _) (fun _ => ?_)
  refine AccC.bind (siftVarsC_acc ext c hc _ _ mg hRg) ?_
  intro _ log1 m1 h1
  refine AccC.get (fun _ => rfl) ?_
  exact AccC.rd_last (Rd.assert _ _ assertion_ne_sched) h1

/-! ### `reorder(bdd, order)` and `reorder_to_pairs` -/

theorem key_ne_sched : Err.key ≠ Err.sched := fun h => by cases h

theorem sortStepC_acc (ext : Nat → Nat) (c : Choice) (hc : c.Valid) (order : List (String × Int))
    (i : Nat) (log : List SchedItem) (m : Mgr) (h : ReorderInv ext m) :
    AccC ext (sortStepC c order i log m) log (sortStep order i) m := by
  unfold sortStepC sortStep
  refine AccC.rd checkRoots_rd (fun _ _ => ?_)
  refine AccC.rd (varAtLevel_rd _) (fun x _ => ?_)
  refine AccC.rd (varAtLevel_rd _) (fun y _ => ?_)
  refine AccC.rd (Rd.ofOption _ key_ne_sched _) (fun p _ => ?_)
  refine AccC.rd (Rd.ofOption _ key_ne_sched _) (fun q _ => ?_)
  refine AccC.ite _ (fun _ => ?_) (fun _ => AccC.pure _ _ _ h)
  refine AccC.bind (swapC_acc ext c hc m h _ _ log) ?_
  intro _ log1 m1 h1
  exact AccC.pure _ _ _ h1

theorem sortInnerC_acc (ext : Nat → Nat) (c : Choice) (hc : c.Valid) (order : List (String × Int)) :
    ∀ (l : List Nat) (log : List SchedItem) (m : Mgr), ReorderInv ext m →
      AccC ext (sortInnerC c order l log m) log (sortInner order l) m
  | [], log, m, h => AccC.pure _ _ _ h
  | i :: rest, log, m, h => by
    unfold sortInnerC sortInner
    refine AccC.bind (sortStepC_acc ext c hc order i log m h) ?_
    intro _ log1 m1 h1
    exact sortInnerC_acc ext c hc order rest log1 m1 h1

theorem sortOuterC_acc (ext : Nat → Nat) (c : Choice) (hc : c.Valid) (order : List (String × Int))
    (n : Nat) : ∀ (k : Nat) (log : List SchedItem) (m : Mgr), ReorderInv ext m →
      AccC ext (sortOuterC c order n k log m) log (sortOuter order n k) m
  | 0, log, m, h => AccC.pure _ _ _ h
  | k+1, log, m, h => by
    unfold sortOuterC sortOuter
    refine AccC.bind (sortInnerC_acc ext c hc order _ log m h) ?_
    intro _ log1 m1 h1
    exact sortOuterC_acc ext c hc order n k log1 m1 h1

theorem sortToOrderC_acc (ext : Nat → Nat) (c : Choice) (hc : c.Valid) (order : List (String × Int))
    (log : List SchedItem) (m : Mgr) (h : ReorderInv ext m) :
    AccC ext (sortToOrderC c order log m) log (sortToOrder order) m := by
  unfold sortToOrderC sortToOrder
  refine AccC.get (fun _ => rfl) ?_
  refine AccC.ite _ (fun _ => AccC.throw _ value_ne_sched _ _) (fun _ => ?_)
  exact sortOuterC_acc ext c hc order _ _ log m h

/-- **`reorder(bdd)` / `reorder(bdd, order)`** under a valid choice is realised by the scheduled model -/
theorem reorderC_acc (ext : Nat → Nat) (c : Choice) (hc : c.Valid)
    (order : Option (List (String × Int))) (log : List SchedItem) (m : Mgr) (h : ReorderInv ext m) :
    AccC ext (reorderC c order log m) log (reorder order) m := by
  cases order with
  | none => exact applySiftingC_acc ext c hc log m h
  | some o => exact sortToOrderC_acc ext c hc o log m h

theorem pairStepC_acc (ext : Nat → Nat) (c : Choice) (hc : c.Valid) (x y : String)
    (log : List SchedItem) (m : Mgr) (h : ReorderInv ext m) :
    AccC ext (pairStepC c x y log m) log (pairStep x y) m := by
  unfold pairStepC pairStep
  refine AccC.rd (levelOfVar_rd x) (fun jx _ => ?_)
  refine AccC.rd (levelOfVar_rd y) (fun jy _ => ?_)
  refine AccC.rd (Rd.assert _ _ assertion_ne_sched) (fun _ _ => ?_)
  refine AccC.ite _ (fun _ => ?_) (fun _ => AccC.pure _ _ _ h)
  generalize (if jx > jy then (jy, jx) else (jx, jy)) = se
  obtain ⟨a, b⟩ := se
  refine AccC.bind (shiftC_acc ext c hc a (b - 1) log m h) ?_
  intro _ log1 m1 h1
  exact AccC.pure _ _ _ h1

theorem reorderToPairsC_acc (ext : Nat → Nat) (c : Choice) (hc : c.Valid) :
    ∀ (pairs : List (String × String)) (log : List SchedItem) (m : Mgr), ReorderInv ext m →
      AccC ext (reorderToPairsC c pairs log m) log (reorderToPairs pairs) m
  | [], log, m, h => AccC.pure _ _ _ h
  | (x, y) :: rest, log, m, h => by
    unfold reorderToPairsC reorderToPairs
    refine AccC.bind (pairStepC_acc ext c hc x y log m h) ?_
    intro _ log1 m1 h1
    exact reorderToPairsC_acc ext c hc rest log1 m1 h1

/-- the public `swap(x, y)` -/
theorem swapPublicC_acc (ext : Nat → Nat) (c : Choice) (hc : c.Valid) (m : Mgr) (h : ReorderInv ext m)
    (xa ya : VarOrLevel) (log : List SchedItem) :
    AccC ext (swapPublicC c xa ya log m) log (swap xa ya false) m := by
  obtain ⟨mg, hg, hRg, _⟩ := gc_keepS ext m h
  have hgs : mg.sched = m.sched := by
    have := collectGarbage_sn none m.sched m
    rw [hg] at this
    have e : setS m.sched m = m := rfl
    rw [e, hg] at this
    exact (congrArg (fun p => p.2.sched) this)
  refine AccC.of_eq (F := collectGarbage none >>= fun _ => swap xa ya true) ?_ rfl
    (fun s => swap_public_eq xa ya _)
  unfold swapPublicC
  refine AccC.bind_sn _ (collectGarbage_sn none) hg hgs ?_
  exact swapC_acc ext c hc mg hRg xa ya log

/-! ### what an accepted run gives; totality of sifting under every valid choice -/

/-- the schedule that a choice-driven run recorded, if it returned -/
def logOf {α} : Except Err (α × List SchedItem) → Option (List SchedItem)
  | .ok (_, log) => some log
  | .error _ => none

/-- the result of a choice-driven run, without the record -/
def dropLog {α} : Except Err (α × List SchedItem) → Except Err α
  | .ok (r, _) => .ok r
  | .error e => .error e

theorem ReorderRel.ofSetS {ext : Nat → Nat} {m m' : Mgr} {s : List SchedItem}
    (h : ReorderRel ext (setS s m) m') (hs : m'.sched = m.sched) : ReorderRel ext m m' :=
  ⟨h.held, h.names, h.nvars, h.roots, h.ctx, h.lastLen, fun h0 => by rw [hs, h0]⟩

/-- an accepted run that returned: the schedule it recorded makes the scheduled function return
the same value in the same state, consuming exactly that schedule -/
theorem AccC.ok_run {α} {ext : Nat → Nat} {r : α} {log log' : List SchedItem} {m m' : Mgr} {F : M α}
    (h : AccC ext (.ok (r, log'), m') log F m) :
    ∃ new, log' = log ++ new ∧ ReorderInv ext m' ∧ m'.sched = m.sched ∧
      ∀ rest, F (setS (new ++ rest) m) = (.ok r, setS rest m') := h

/-- an accepted run never ends in the model's own schedule error: for some schedule the scheduled
function ends with the same exception of the code -/
theorem AccC.err_run {α} {ext : Nat → Nat} {e : Err} {log : List SchedItem} {m m' : Mgr} {F : M α}
    (h : AccC ext ((.error e : Except Err (α × List SchedItem)), m') log F m) :
    e ≠ .sched ∧ ∃ new, ∀ rest, (F (setS (new ++ rest) m)).1 = .error e := h

/-- **sifting is total under every valid choice**, and the scheduled model realises it: for every
valid choice `c` of iteration orders there is a schedule `sch` — the record of the orders `c`
picked — such that the scheduled `_apply_sifting` started with `sch` (followed by anything)
returns, in the state the choice-driven run ended in, with `sch` consumed exactly -/
theorem applySiftingC_total (ext : Nat → Nat) (c : Choice) (hc : c.Valid) (m : Mgr)
    (h : ReorderInv ext m) (h2 : 2 ≤ m.nvars) (log : List SchedItem) :
    ∃ sch m', applySiftingC c log m = (.ok ((), log ++ sch), m') ∧
      (ReorderInv ext m' ∧ NoGarbage m') ∧ ReorderRel ext m m' ∧
      ∀ rest, applySifting (setS (sch ++ rest) m) = (.ok (), setS rest m') := by
  have hA := applySiftingC_acc ext c hc log m h
  generalize applySiftingC c log m = a at hA
  obtain ⟨ra, m'⟩ := a
  cases ra with
  | error e =>
    exfalso
    obtain ⟨hne, new, hr⟩ := hA.err_run
    have hN := applySifting_never_raises ext (setS (new ++ []) m) (h.setSched' _) h2
    have := hr []
    generalize applySifting (setS (new ++ []) m) = b at hN this
    obtain ⟨rb, mb⟩ := b
    simp only at this
    subst this
    exact hne hN
  | ok p =>
    obtain ⟨⟨⟩, log'⟩ := p
    obtain ⟨new, rfl, hR, hsc, hrun⟩ := hA.ok_run
    have hN := applySifting_never_raises ext (setS (new ++ m'.sched) m) (h.setSched' _) h2
    rw [hrun m'.sched] at hN
    exact ⟨new, m', rfl, hN.1, ReorderRel.ofSetS hN.2 hsc, hrun⟩

end DD
