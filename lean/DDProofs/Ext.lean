/-
  DDProofs.Ext — extension of a node table: every node of `m` is in `t` unchanged.
  Denotations and levels of old references are preserved.
-/
import DDProofs.Sem
open Std

namespace DD

/-- extension -/
structure Ext (m t : Tbl) : Prop where
  nvars : m.nvars = t.nvars
  nodes : ∀ u n, m.node? u = some n → t.node? u = some n

theorem Ext.refl (m : Tbl) : Ext m m := ⟨rfl, fun _ _ h => h⟩
theorem Ext.trans {a b c : Tbl} (h1 : Ext a b) (h2 : Ext b c) : Ext a c :=
  ⟨h1.nvars.trans h2.nvars, fun u n h => h2.nodes u n (h1.nodes u n h)⟩

theorem Ext.mem {m t : Tbl} (h : Ext m t) {u : Int} (hm : m.Mem u) : t.Mem u := by
  rcases hm with hm | hm
  · exact Or.inl hm
  · obtain ⟨n, hn⟩ := Option.isSome_iff_exists.mp hm
    exact Or.inr (by simp [h.nodes _ _ hn])

theorem Ext.levelOf {m t : Tbl} (h : Ext m t) {u : Int} (hm : m.Mem u) : t.levelOf u = m.levelOf u := by
  unfold Tbl.levelOf
  by_cases h1 : u.natAbs = 1
  · simp [h1, h.nvars]
  · rcases hm with hm | hm
    · exact absurd hm h1
    · obtain ⟨n, hn⟩ := Option.isSome_iff_exists.mp hm
      simp [h1, hn, h.nodes _ _ hn]

theorem denF_ext {m t : Tbl} (h : Ext m t) (hw : WF m) :
    ∀ f u a, m.Mem u → denF t f u a = denF m f u a := by
  intro f
  induction f with
  | zero => intros; rfl
  | succ f ih =>
    intro u a hm
    rw [denF, denF]
    by_cases h1 : u.natAbs = 1
    · simp [h1]
    · simp only [h1, if_false]
      rcases hm with hm | hm
      · exact absurd hm h1
      · obtain ⟨n, hn⟩ := Option.isSome_iff_exists.mp hm
        rw [hn, h.nodes _ _ hn]
        simp only
        rw [ih _ _ (hw.hi_mem _ _ hn), ih _ _ (hw.lo_mem _ _ hn)]

theorem den_ext {m t : Tbl} (h : Ext m t) (hw : WF m) (u : Int) (a : Asg) (hm : m.Mem u) :
    den t u a = den m u a := by
  unfold den
  rw [← h.nvars]
  exact denF_ext h hw _ u a hm

theorem mem_ne_zero {m : Tbl} (hw : WF m) {u : Int} (h : m.Mem u) : u ≠ 0 := by
  intro h0; subst h0
  rcases h with h | h
  · simp at h
  · obtain ⟨n, hn⟩ := Option.isSome_iff_exists.mp h
    have := hw.ge_two _ _ hn
    simp at this

theorem mem_neg {m : Tbl} {u : Int} (h : m.Mem u) : m.Mem (-u) := by
  unfold Tbl.Mem at *; simpa using h

theorem levelOf_neg (m : Tbl) (u : Int) : m.levelOf (-u) = m.levelOf u := by
  unfold Tbl.levelOf; simp


end DD
