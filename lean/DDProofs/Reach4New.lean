/-
  DDProofs.Reach4New — the driver's `newMgr` IS `newMgrCore` (DD.NewMgrCore), so the theorems of
  DDProofs.Reach4NewCore are theorems about the constructor the correspondence runs.
-/
import DD.Driver
import DDProofs.Reach4NewCore
open Std

namespace DD

theorem newMgr_eq_core (levels : List (String × Int)) :
    newMgr levels = ((newMgrCore levels).1.map (fun _ => DRes.unit), (newMgrCore levels).2) := by
  unfold newMgr newMgrCore
  simp only []
  split
  · rfl
  · show M.bind' _ _ _ = (Except.map _ (M.bind' _ _ _).1, (M.bind' _ _ _).2)
    unfold M.bind'
    generalize (forIn levels PUnit.unit fun (x : String × Int) (_ : PUnit) => do
          let _ ← addVar x.fst (some x.snd)
          pure (ForInStep.yield PUnit.unit)) ({} : Mgr) = r
    obtain ⟨r1, m1⟩ := r
    cases r1 <;> rfl

/-- **`BDD(levels)`** as the driver runs it -/
theorem newMgr_good (levels : List (String × Int)) (hnames : (levels.map (·.1)).Nodup)
    (hchk : newMgrCheck levels = true) :
    (newMgr levels).1 = .ok .unit ∧ GoodParts (newMgr levels).2 (fun _ => 0) ∧
    (∀ (v : String) (i : Nat), (newMgr levels).2.tbl.vars[v]? = some i ↔ (v, (i : Int)) ∈ levels) ∧
    (∀ u : Nat, (newMgr levels).2.tbl.node? u = none) := by
  obtain ⟨h1, h2, h3, h4⟩ := newMgrCore_good levels hnames hchk
  rw [newMgr_eq_core]
  exact ⟨by rw [h1]; rfl, h2, h3, h4⟩

theorem newMgr_refused (levels : List (String × Int)) (h : newMgrCheck levels = false) :
    newMgr levels = (.error .assertion, {}) := by
  rw [newMgr_eq_core, newMgrCore_refused levels h]
  rfl

example : (newMgr [("a", 1), ("b", 0)]).1 = .ok .unit ∧
    GoodParts (newMgr [("a", 1), ("b", 0)]).2 (fun _ => 0) :=
  let h := newMgr_good [("a", 1), ("b", 0)] (by decide) (by decide)
  ⟨h.1, h.2.1⟩

end DD
