/-
  DDProofs.MddIte — specification of `MDD._top_cofactor` and `MDD.ite`
  (pointwise if-then-else; induction on the fuel with the computed-table invariant).
-/
import DDProofs.MddFoa
open Std

namespace DD

theorem mvalid_lt {t : MTbl} {a : MAsg} (h : MValid t a) {z : Nat} (hz : z < t.nvars) :
    a z < t.arity z := h z hz

/-- `_top_cofactor(u, z)` for `z` not below the level of `u`: as many references as the variable
has values, all strictly below `z`, the `j`-th one agreeing with `u` wherever variable `z` is `j` -/
theorem mTopCofactor_spec (t : MTbl) (hw : MWF t) (u : Int) (z : Nat) (hm : t.Mem u)
    (hz : z ≤ t.levelOf u) (hzn : z < t.nvars) (l : List Int)
    (h : mTopCofactor t u z = .ok l) :
    l.length = t.arity z ∧ (∀ k ∈ l, t.Mem k ∧ z < t.levelOf k) ∧
    ∀ a k, l[a z]? = some k → denM t k a = denM t u a := by
  unfold mTopCofactor at h
  split at h
  · cases h
  · next var hvar =>
    have harity : t.arity z = var.len := by simp [MTbl.arity, hvar]
    split at h
    · -- terminal
      next h1 =>
      cases h
      refine ⟨by simp [harity], ?_, ?_⟩
      · intro k hk
        rw [List.mem_replicate] at hk
        obtain ⟨_, rfl⟩ := hk
        exact ⟨hm, by rw [t.levelOf_term k h1]; exact hzn⟩
      · intro a k hk
        have := getElem?_mem' hk
        rw [List.mem_replicate] at this
        rw [this.2]
    · next h1 =>
      split at h
      · cases h
      · next n hn =>
        have hn' : t.node? u.natAbs = some n := hn
        have hl := t.levelOf_node u n h1 hn'
        split at h
        · -- `level < u_level`
          next hlt =>
          cases h
          refine ⟨by simp [harity], ?_, ?_⟩
          · intro k hk
            rw [List.mem_replicate] at hk
            obtain ⟨_, rfl⟩ := hk
            exact ⟨hm, by rw [hl]; exact hlt⟩
          · intro a k hk
            have := getElem?_mem' hk
            rw [List.mem_replicate] at this
            rw [this.2]
        · split at h
          · next heq =>
            split at h
            · cases h
            · split at h
              · -- regular reference: the successors
                next hpos =>
                cases h
                refine ⟨by rw [hw.kids_len _ _ hn', heq], ?_, ?_⟩
                · intro k hk
                  exact ⟨hw.kids_mem _ _ hn' k hk, by rw [heq]; exact hw.kids_lt _ _ hn' k hk⟩
                · intro a k hk
                  rw [heq] at hk
                  rw [denM_node_kid t hw u n a k h1 hn' hk]
                  have : ¬ u < 0 := by omega
                  simp [this]
              · split at h
                · -- complemented reference: the negated successors
                  next hneg =>
                  cases h
                  refine ⟨by rw [List.length_map, hw.kids_len _ _ hn', heq], ?_, ?_⟩
                  · intro k hk
                    rw [List.mem_map] at hk
                    obtain ⟨c, hc, rfl⟩ := hk
                    exact ⟨MTbl.mem_neg (hw.kids_mem _ _ hn' c hc),
                      by rw [MTbl.levelOf_neg, heq]; exact hw.kids_lt _ _ hn' c hc⟩
                  · intro a k hk
                    rw [List.getElem?_map] at hk
                    cases hc : n.kids[a z]? with
                    | none => rw [hc] at hk; cases hk
                    | some c =>
                      rw [hc] at hk
                      simp only [Option.map_some, Option.some.injEq] at hk
                      subst hk
                      rw [heq] at hc
                      rw [denM_node_kid t hw u n a c h1 hn' hc,
                        denM_neg t hw c a (hw.kids_mem _ _ hn' c (getElem?_mem' hc))]
                      simp [hneg]
                · cases h
          · cases h

/-- what one call `ite(g, u, v)` promises -/
structure IteOK (m : MddMgr) (g u v w : Int) (m' : MddMgr) : Prop where
  inv : MInv m'
  ext : MExt m.tbl m'.tbl
  mem : m'.tbl.Mem w
  lvl : min (m.tbl.levelOf g) (min (m.tbl.levelOf u) (m.tbl.levelOf v)) ≤ m'.tbl.levelOf w
  den : ∀ a, MValid m.tbl a →
    denM m'.tbl w a = if denM m.tbl g a then denM m.tbl u a else denM m.tbl v a
  exact : ∀ ext, MRefExact m ext → MRefExact m' ext

def IteSound (rec : Int → Int → Int → MM Int) : Prop :=
  ∀ m g u v, MInv m → m.tbl.Mem g → m.tbl.Mem u → m.tbl.Mem v →
    ∀ w m', rec g u v m = (.ok w, m') → IteOK m g u v w m'

/-- the `starmap` over the three cofactor tuples -/
theorem mIteList_spec (rec : Int → Int → Int → MM Int) (hrec : IteSound rec) :
    ∀ (gs us vs : List Int) (m : MddMgr), MInv m →
      (∀ x ∈ gs, m.tbl.Mem x) → (∀ x ∈ us, m.tbl.Mem x) → (∀ x ∈ vs, m.tbl.Mem x) →
      gs.length = us.length → us.length = vs.length →
      ∀ ws m', mIteList rec gs us vs m = (.ok ws, m') →
        MInv m' ∧ MExt m.tbl m'.tbl ∧ ws.length = gs.length ∧
        (∀ ext, MRefExact m ext → MRefExact m' ext) ∧
        ∀ (j : Nat) (g u v : Int), gs[j]? = some g → us[j]? = some u → vs[j]? = some v →
          ∃ w, ws[j]? = some w ∧ m'.tbl.Mem w ∧
            min (m.tbl.levelOf g) (min (m.tbl.levelOf u) (m.tbl.levelOf v)) ≤ m'.tbl.levelOf w ∧
            ∀ a, MValid m.tbl a →
              denM m'.tbl w a = if denM m.tbl g a then denM m.tbl u a else denM m.tbl v a := by
  intro gs
  induction gs with
  | nil =>
    intro us vs m h _ _ _ _ _ ws m' hr
    unfold mIteList at hr
    simp only [Prod.mk.injEq, Except.ok.injEq] at hr
    obtain ⟨hws, hm⟩ := hr
    subst hws hm
    refine ⟨h, MExt.refl _, rfl, fun _ hx => hx, ?_⟩
    intro j g u v hg
    simp at hg
  | cons g0 gs ih =>
    intro us vs m h hgm hum hvm hl1 hl2 ws m' hr
    cases us with
    | nil => simp at hl1
    | cons u0 us =>
      cases vs with
      | nil => simp at hl2
      | cons v0 vs =>
        unfold mIteList at hr
        simp only at hr
        split at hr
        · simp at hr
        · next w0 m1 hrec1 =>
          have R := hrec m g0 u0 v0 h (hgm g0 (by simp)) (hum u0 (by simp)) (hvm v0 (by simp)) w0 m1 hrec1
          split at hr
          · simp at hr
          · next ws' m2 hrest =>
            simp only [Prod.mk.injEq, Except.ok.injEq] at hr
            obtain ⟨hws, hm⟩ := hr
            subst hws hm
            have hW := h.wf.toMWF
            have hW1 := R.inv.wf.toMWF
            obtain ⟨hinv2, hext2, hlen2, hex2, hall2⟩ := ih us vs m1 R.inv
              (fun x hx => R.ext.mem (hgm x (List.mem_cons_of_mem _ hx)))
              (fun x hx => R.ext.mem (hum x (List.mem_cons_of_mem _ hx)))
              (fun x hx => R.ext.mem (hvm x (List.mem_cons_of_mem _ hx)))
              (by simpa using hl1) (by simpa using hl2) ws' m2 hrest
            refine ⟨hinv2, R.ext.trans hext2, by simp [hlen2], fun ext hx => hex2 ext (R.exact ext hx), ?_⟩
            intro j g u v hg hu hv
            cases j with
            | zero =>
              simp only [List.getElem?_cons_zero, Option.some.injEq] at hg hu hv
              subst hg hu hv
              refine ⟨w0, by simp, hext2.mem R.mem, ?_, ?_⟩
              · rw [hext2.levelOf R.mem]; exact R.lvl
              · intro a ha
                rw [denM_ext hext2 hW1 w0 a R.mem]
                exact R.den a ha
            | succ j =>
              simp only [List.getElem?_cons_succ] at hg hu hv
              have mg := hgm g (List.mem_cons_of_mem _ (getElem?_mem' hg))
              have mu := hum u (List.mem_cons_of_mem _ (getElem?_mem' hu))
              have mv := hvm v (List.mem_cons_of_mem _ (getElem?_mem' hv))
              obtain ⟨w, hw1, hw2, hw3, hw4⟩ := hall2 j g u v hg hu hv
              refine ⟨w, by simpa using hw1, hw2, ?_, ?_⟩
              · rw [R.ext.levelOf mg, R.ext.levelOf mu, R.ext.levelOf mv] at hw3
                exact hw3
              · intro a ha
                rw [hw4 a ((R.ext.valid a).mp ha), denM_ext R.ext hW g a mg, denM_ext R.ext hW u a mu,
                  denM_ext R.ext hW v a mv]

theorem mIteKey_inj {g u v g' u' v' : Int} (h : iteKey g u v = iteKey g' u' v') :
    g = g' ∧ u = u' ∧ v = v' := by
  simpa [iteKey] using h

/-- `ite` is the pointwise if-then-else, for every fuel, cache content and history -/
theorem mIteF_sound : ∀ f, IteSound (mIteF f) := by
  intro f
  induction f with
  | zero =>
    intro m g u v _ _ _ _ w m' hr
    simp [mIteF] at hr
  | succ f ih =>
    intro m g u v h mg mu mv w m' hr
    have hW := h.wf.toMWF
    unfold mIteF at hr
    split at hr
    · -- g == 1
      next hg =>
      simp only [Prod.mk.injEq, Except.ok.injEq] at hr
      obtain ⟨hw, hm⟩ := hr; subst hw hm
      refine ⟨h, MExt.refl _, mu, ?_, ?_, fun _ hx => hx⟩
      · exact Nat.le_trans (Nat.min_le_right _ _) (Nat.min_le_left _ _)
      · intro a _; rw [hg, denM_one]; simp
    · split at hr
      · next hg =>
        simp only [Prod.mk.injEq, Except.ok.injEq] at hr
        obtain ⟨hw, hm⟩ := hr; subst hw hm
        refine ⟨h, MExt.refl _, mv, ?_, ?_, fun _ hx => hx⟩
        · exact Nat.le_trans (Nat.min_le_right _ _) (Nat.min_le_right _ _)
        · intro a _; rw [hg, denM_neg_one]; simp
      · next hg1 hg2 =>
        split at hr
        · -- computed table hit
          next w' hc =>
          simp only [Prod.mk.injEq, Except.ok.injEq] at hr
          obtain ⟨hw, hm⟩ := hr; subst hw hm
          have C := h.cache g u v _ hc
          exact ⟨h, MExt.refl _, C.mw, C.lvl, C.den, fun _ hx => hx⟩
        · next hcn =>
          rw [MTbl.levelOf?_eq m.tbl h.term g mg, MTbl.levelOf?_eq m.tbl h.term u mu,
            MTbl.levelOf?_eq m.tbl h.term v mv] at hr
          simp only at hr
          -- z = the top level
          have hgn : g.natAbs ≠ 1 := by omega
          obtain ⟨ng, hng⟩ : ∃ n, m.tbl.node? g.natAbs = some n := by
            rcases mg with h1 | h1
            · exact absurd h1 hgn
            · exact Option.isSome_iff_exists.mp h1
          have hlg := m.tbl.levelOf_node g ng hgn hng
          have hzn : min (m.tbl.levelOf g) (min (m.tbl.levelOf u) (m.tbl.levelOf v)) < m.tbl.nvars := by
            have := hW.lvl_lt _ _ hng
            omega
          generalize hz : min (m.tbl.levelOf g) (min (m.tbl.levelOf u) (m.tbl.levelOf v)) = z at hr hzn
          have hzg : z ≤ m.tbl.levelOf g := by omega
          have hzu : z ≤ m.tbl.levelOf u := by omega
          have hzv : z ≤ m.tbl.levelOf v := by omega
          split at hr
          · simp at hr
          · next gc hgc =>
            split at hr
            · simp at hr
            · next uc huc =>
              split at hr
              · simp at hr
              · next vc hvc =>
                obtain ⟨lg, memg, deng⟩ := mTopCofactor_spec m.tbl hW g z mg hzg hzn gc hgc
                obtain ⟨lu, memu, denu⟩ := mTopCofactor_spec m.tbl hW u z mu hzu hzn uc huc
                obtain ⟨lv, memv, denv⟩ := mTopCofactor_spec m.tbl hW v z mv hzv hzn vc hvc
                split at hr
                · simp at hr
                · next nodes m1 hlist =>
                  obtain ⟨hinv1, hext1, hlen1, hex1, hall1⟩ := mIteList_spec (mIteF f) ih gc uc vc m h
                    (fun x hx => (memg x hx).1) (fun x hx => (memu x hx).1) (fun x hx => (memv x hx).1)
                    (by rw [lg, lu]) (by rw [lu, lv]) nodes m1 hlist
                  have hW1 := hinv1.wf.toMWF
                  split at hr
                  · simp at hr
                  · next w1 m2 hfoa =>
                    simp only [Prod.mk.injEq, Except.ok.injEq] at hr
                    obtain ⟨hw, hm⟩ := hr; subst hw hm
                    -- every computed successor is strictly below z
                    have hbelow : ∀ k ∈ nodes, z < m1.tbl.levelOf k := by
                      intro k hk
                      obtain ⟨j, hj, hkj⟩ := List.getElem_of_mem hk
                      have hjg : j < gc.length := by rw [← hlen1]; exact hj
                      have hju : j < uc.length := by rw [lu, ← lg]; exact hjg
                      have hjv : j < vc.length := by rw [lv, ← lg]; exact hjg
                      obtain ⟨w', hw1, _, hw3, _⟩ := hall1 j gc[j] uc[j] vc[j]
                        (List.getElem?_eq_getElem hjg) (List.getElem?_eq_getElem hju)
                        (List.getElem?_eq_getElem hjv)
                      rw [List.getElem?_eq_getElem hj, Option.some.injEq] at hw1
                      rw [← hkj, hw1]
                      have := (memg _ (List.getElem_mem hjg)).2
                      have := (memu _ (List.getElem_mem hju)).2
                      have := (memv _ (List.getElem_mem hjv)).2
                      omega
                    have F := mFindOrAddCore_spec m1 hinv1 z nodes hbelow w1 m2 hfoa
                    have hW2 := F.inv.wf.toMWF
                    have hext : MExt m.tbl m2.tbl := hext1.trans F.ext
                    have hlvl : z ≤ m2.tbl.levelOf w1 := F.lvl
                    have hden : ∀ a, MValid m.tbl a →
                        denM m2.tbl w1 a = if denM m.tbl g a then denM m.tbl u a else denM m.tbl v a := by
                      intro a ha
                      have haz : a z < m.tbl.arity z := mvalid_lt ha hzn
                      have hjg : a z < gc.length := by rw [lg]; exact haz
                      have hju : a z < uc.length := by rw [lu]; exact haz
                      have hjv : a z < vc.length := by rw [lv]; exact haz
                      obtain ⟨w', hw1, hw2, _, hw4⟩ := hall1 (a z) gc[a z] uc[a z] vc[a z]
                        (List.getElem?_eq_getElem hjg) (List.getElem?_eq_getElem hju)
                        (List.getElem?_eq_getElem hjv)
                      rw [F.den a w' hw1, denM_ext F.ext hW1 w' a hw2, hw4 a ha,
                        deng a _ (List.getElem?_eq_getElem hjg), denu a _ (List.getElem?_eq_getElem hju),
                        denv a _ (List.getElem?_eq_getElem hjv)]
                    have hC : MCacheOK m2.tbl g u v w1 := by
                      refine ⟨hext.mem mg, hext.mem mu, hext.mem mv, F.mem, ?_, ?_⟩
                      · rw [hext.levelOf mg, hext.levelOf mu, hext.levelOf mv, hz]; exact hlvl
                      · intro a ha
                        rw [denM_ext hext hW g a mg, denM_ext hext hW u a mu, denM_ext hext hW v a mv]
                        exact hden a ((hext.valid a).mpr ha)
                    refine ⟨?_, hext, F.mem, (by rw [hz]; exact hlvl), hden, ?_⟩
                    rotate_left
                    · intro ext hx
                      have E := F.exact ext (hex1 ext hx)
                      exact ⟨E.cnt, E.extZero⟩
                    -- the invariant with the new computed-table entry
                    refine ⟨F.inv.wf, F.inv.pred, F.inv.refOne, F.inv.refDom, F.inv.maxGe, F.inv.maxOK,
                      F.inv.freeOK, F.inv.freeNodup, ?_⟩
                    intro g' u' v' w' hc
                    have hc' : (m2.cache.insert (iteKey g u v) w1)[iteKey g' u' v']? = some w' := hc
                    rw [TreeMap.getElem?_insert] at hc'
                    by_cases hk : iteKey g u v = iteKey g' u' v'
                    · obtain ⟨rfl, rfl, rfl⟩ := mIteKey_inj hk
                      simp only [(listInt_compare_eq _ _).mpr rfl, if_true, Option.some.injEq] at hc'
                      subst hc'
                      exact hC
                    · have hne : compare (iteKey g u v) (iteKey g' u' v') ≠ .eq :=
                        fun hc => hk ((listInt_compare_eq _ _).mp hc)
                      simp only [hne, if_false] at hc'
                      exact F.inv.cache g' u' v' w' hc'

/-- `MDD.ite(g, u, v)` computes the if-then-else of its operands on every valid integer
assignment, keeps the invariant, and every old reference keeps its meaning -/
theorem mIte_spec (m : MddMgr) (h : MInv m) (g u v : Int)
    (mg : m.tbl.Mem g) (mu : m.tbl.Mem u) (mv : m.tbl.Mem v)
    (w : Int) (m' : MddMgr) (hr : mIte g u v m = (.ok w, m')) : IteOK m g u v w m' :=
  mIteF_sound (m.tbl.nvars + 2) m g u v h mg mu mv w m' hr

end DD
