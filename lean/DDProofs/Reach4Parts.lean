/-
  DDProofs.Reach4Parts — the invariant of reachable states as ONE structure over the notions below
  DDProofs.Reach (`Inv`, `OrderOK`, `RefExact`), so that it can be stated in files that cannot
  import DDProofs.Reach (DD.Driver defines another `DD.Res`; `newMgr` lives there).
  `GoodParts m ext` has exactly the clauses of `Good2` = `GoodState` + "no schedule left" + "no
  registered roots" (`goodParts_iff_good2`, DDProofs.Reach4Start).
-/
import DDProofs.Inv
import DDProofs.VarsProofs
import DDProofs.RefCount
namespace DD

structure GoodParts (m : Mgr) (ext : Nat → Nat) : Prop where
  inv : Inv m
  order : OrderOK m.tbl
  exact : RefExact m ext
  off : m.lastLen = none
  ctx : m.ctx = false
  sched : m.sched = []
  roots : m.roots = []

end DD
